(* C24 -- the unpivoted fraction-free routines, part 4:
   fraction_free_gaussian_elimination_solve.  The first phase carries the pair (A_, b_)
   through the stages of the elimination (exact description on entries, then meaning over
   Q); the second phase is a back substitution written inline on the pair (b_, x). *)
From SE Require Import C24.DenseModel C24.DenseBase C24.DenseSpec C24.DenseOps C24.DenseOps2
  C24.DenseGJ C24.DenseGJ2 C24.DenseGE C24.DenseGE2 C24.DenseSolve
  C24.DenseFF C24.DenseFF2 C24.DenseFF3.
From Coq Require Import Lia ZifyBool ZifyNat ZifyN.
Local Open Scope N_scope.
Local Open Scope res_scope.

(* ------------------------------------------------------------------ the loops, named *)
(* first phase, stage i, row j: the right-hand side first, then the matrix *)
Definition ffs_row (col bcol i j : N) (st : list qx * list qx) : res (list qx * list qx) :=
  let (am, bm) := st in
  do bm <- for_range 0 bcol (fun k bm =>
             rhs_cell am col (i * col - col + i - 1) bcol i j k bm) bm;
  do am <- ff_krow col i j am;
  do am <- wr am (j * col + i) x0;
  Ok (am, bm).

(* second phase, column k, row i *)
Definition ffs_back (am : list qx) (col bcol k i : N) (st : list qx * list qx)
  : res (list qx * list qx) :=
  let (bm, xm) := st in
  do bm <- for_range (i + 1) col (fun j bm =>
             do bi <- rd bm (i * bcol + k);
             do a <- rd am (i * col + j);
             do xj <- rd xm (j * bcol + k);
             wr bm (i * bcol + k) (xsub bi (xmul a xj))) bm;
  do bi <- rd bm (i * bcol + k);
  do a <- rd am (i * col + i);
  do xm <- wr xm (i * bcol + k) (xdiv bi a);
  Ok (bm, xm).

Lemma ffges_unfold A b x :
  fraction_free_gaussian_elimination_solve A b x =
  do st <- for_range 0 (dcol A - 1) (fun i st =>
             for_range (i + 1) (dcol A) (fun j st => ffs_row (dcol A) (dcol b) i j st) st)
             (dm A, dm b);
  let (am, bm) := st in
  do xm <- for_range 0 (dcol A * dcol b) (fun i xm => wr xm i x0) (dm x);
  do st <- for_range 0 (dcol b) (fun k st =>
             for_down (N.to_nat (dcol A)) (fun i st => ffs_back am (dcol A) (dcol b) k i st) st)
             (bm, xm);
  Ok (setm x (snd st)).
Proof. reflexivity. Qed.

(* ------------------------------------------------------------------ first phase on entries *)
(* row j of the right-hand side, all the columns *)
Lemma rhs_row_spec am n L bm s Y i j :
  xrepr am n n L -> xrepr bm n s Y -> i < j -> j < n ->
  exists bm',
    for_range 0 s (fun k bm => rhs_cell am n (i * n - n + i - 1) s i j k bm) bm = Ok bm' /\
    xrepr bm' n s (fun a c => if a =? j
                              then xcell i (L i i) (L j i) (L (i - 1) (i - 1)) (Y j c) (Y i c)
                              else Y a c).
Proof.
  intros HA HY Hij Hj.
  pose (P := fun (t : N) (m : list qx) =>
    xrepr m n s (fun a c => if (a =? j) && (c <? t)
                            then xcell i (L i i) (L j i) (L (i - 1) (i - 1)) (Y j c) (Y i c)
                            else Y a c)).
  destruct (for_range_inv P 0 s
              (fun k bm => rhs_cell am n (i * n - n + i - 1) s i j k bm) bm) as (m' & E & HP).
  - lia.
  - apply (xrepr_ext _ _ _ _ _ HY). intros a c Ha Hc. btest.
  - intros t m [_ Ht] Hm.
    destruct (rhs_cell_spec am n L (i * n - n + i - 1) m s _ i j t HA Hm ltac:(lia) Hj Ht)
      as (m1 & E1 & H1).
    { intros Hpos. nia. }
    exists m1. split; [exact E1|].
    apply (xrepr_ext _ _ _ _ _ H1). intros a c Ha Hc. cbv beta. btest.
  - exists m'. split; [exact E|].
    apply (xrepr_ext _ _ _ _ _ HP). intros a c Ha Hc. cbv beta. btest.
Qed.

(* stage i on the pair *)
Definition xges_step (i : N) (p : xmat * xmat) : xmat * xmat :=
  (xge_step i (fst p), xfs_step i (fst p) (snd p)).

Lemma ffs_rows_spec am bm n s X Y i :
  xrepr am n n X -> xrepr bm n s Y -> i < n ->
  exists am' bm',
    for_range (i + 1) n (fun j st => ffs_row n s i j st) (am, bm) = Ok (am', bm') /\
    xrepr am' n n (xge_step i X) /\ xrepr bm' n s (xfs_step i X Y).
Proof.
  intros HX HY Hi.
  pose (P := fun (t : N) (st : list qx * list qx) =>
    xrepr (fst st) n n
      (fun a b => if (i <? a) && (a <? t)
                  then (if i <? b then xcell i (X i i) (X a i) (X (i - 1) (i - 1)) (X a b) (X i b)
                        else if b =? i then x0 else X a b)
                  else X a b) /\
    xrepr (snd st) n s
      (fun a c => if (i <? a) && (a <? t)
                  then xcell i (X i i) (X a i) (X (i - 1) (i - 1)) (Y a c) (Y i c)
                  else Y a c)).
  destruct (for_range_inv P (i + 1) n (fun j st => ffs_row n s i j st) (am, bm))
    as ([am' bm'] & E & HPa & HPb).
  - lia.
  - split; cbn [fst snd].
    + apply (xrepr_ext _ _ _ _ _ HX). intros a b Ha Hb. btest.
    + apply (xrepr_ext _ _ _ _ _ HY). intros a b Ha Hb. btest.
  - intros t [am1 bm1] [Ht1 Ht2] [Ha1 Hb1]. cbn [fst snd] in Ha1, Hb1. unfold ffs_row.
    destruct (rhs_row_spec am1 n _ bm1 s _ i t Ha1 Hb1 ltac:(lia) Ht2) as (bm2 & Eb & Hb2).
    rewrite Eb. cbn [bind].
    destruct (ff_krow_spec am1 n n _ i t Ha1 ltac:(lia) Ht2 Hi) as (am2 & Ea & Ha2).
    rewrite Ea. cbn [bind].
    destruct (xrepr_wr am2 n n _ t i x0 Ha2 Ht2 Hi) as (am3 & Ew & Ha3).
    rewrite Ew. cbn [bind].
    exists (am3, bm2). split; [reflexivity|]. split; cbn [fst snd].
    + apply (xrepr_ext _ _ _ _ _ Ha3). intros a b Ha Hb. unfold xrow_step. btest.
    + apply (xrepr_ext _ _ _ _ _ Hb2). intros a b Ha Hb. cbv beta. btest.
  - cbn [fst snd] in HPa, HPb. exists am', bm'. split; [exact E|]. split.
    + apply (xrepr_ext _ _ _ _ _ HPa). intros a b Ha Hb. unfold xge_step. btest.
    + apply (xrepr_ext _ _ _ _ _ HPb). intros a b Ha Hb. unfold xfs_step. btest.
Qed.

(* the two components of the iteration on pairs *)
Lemma xges_iter XA Yb i :
  iterU i xges_step (XA, Yb) =
  (iterU i xge_step XA, iterU i (fun t Y => xfs_step t (iterU t xge_step XA) Y) Yb).
Proof.
  induction i as [|i IH] using N.peano_ind.
  - reflexivity.
  - rewrite <- N.add_1_r. rewrite !iterU_succ, IH. reflexivity.
Qed.

Lemma ffs_phase1 A b n s :
  lenN (dm A) = n * n -> lenN (dm b) = n * s -> 0 < n ->
  exists am bm,
    for_range 0 (n - 1) (fun i st =>
      for_range (i + 1) n (fun j st => ffs_row n s i j st) st) (dm A, dm b) = Ok (am, bm) /\
    xrepr am n n (iterU (n - 1) xge_step (ent (dm A) n)) /\
    xrepr bm n s (iterU (n - 1) (fun t Y => xfs_step t (iterU t xge_step (ent (dm A) n)) Y)
                        (ent (dm b) s)).
Proof.
  intros HLA HLb Hn.
  destruct (for_range_iter
              (fun (st : list qx * list qx) (p : xmat * xmat) =>
                 xrepr (fst st) n n (fst p) /\ xrepr (snd st) n s (snd p)) (n - 1)
              (fun i st => for_range (i + 1) n (fun j st => ffs_row n s i j st) st)
              xges_step (dm A, dm b) (ent (dm A) n, ent (dm b) s)) as ([am bm] & E & Ha & Hb).
  - split; cbn [fst snd]; now apply xrepr_self.
  - intros i [am bm] [X Y] Hi [Ha Hb]. cbn [fst snd] in Ha, Hb.
    destruct (ffs_rows_spec am bm n s X Y i Ha Hb ltac:(lia)) as (am' & bm' & E & Ha' & Hb').
    exists (am', bm'). split; [exact E|]. split; assumption.
  - rewrite xges_iter in Ha, Hb. cbn [fst snd] in Ha, Hb.
    exists am, bm. split; [exact E|]. split; assumption.
Qed.

(* ------------------------------------------------------------------ first phase over Q *)
(* the right-hand side is a matrix of numbers when the diagonal of the eliminated matrix has
   no zero *)
Lemma xgs_lift n s XA Aq Yb bq :
  (forall a b, a < n -> b < n -> XA a b = Fin (Aq a b)) ->
  (forall j, j < n -> x_is_zero (iterU (n - 1) xge_step XA j j) = false) ->
  (forall a c, a < n -> c < s -> Yb a c = Fin (bq a c)) ->
  (forall i, i <= n - 1 -> forall a b, a < n -> b < n ->
     iterU i xge_step XA a b = Fin (iterU i gestep Aq a b)) /\
  (forall j, j < n -> iterU (n - 1) gestep Aq j j <> 0%Qc) /\
  (forall i, i <= n - 1 -> forall a c, a < n -> c < s ->
     iterU i (fun t Y => xfs_step t (iterU t xge_step XA) Y) Yb a c =
     Fin (iterU i (fun t Y => fsstep t (iterU t gestep Aq) Y) bq a c)).
Proof.
  intros HXA HG HYb.
  assert (Hlift : forall i, i <= n - 1 -> forall a b, a < n -> b < n ->
            iterU i xge_step XA a b = Fin (iterU i gestep Aq a b)).
  { apply (xge_lift n n XA Aq HXA). intros i H1 _. apply HG. lia. }
  assert (HZ : forall j, j < n -> iterU (n - 1) gestep Aq j j <> 0%Qc).
  { intros j Hj. specialize (HG j Hj). rewrite Hlift in HG by lia.
    cbn [x_is_zero] in HG. now apply qc_is_zero_false in HG. }
  split; [exact Hlift|]. split; [exact HZ|].
  intros i. induction i as [|i IH] using N.peano_ind; intros Hle a c Ha Hc.
  - rewrite !iterU_0. now apply HYb.
  - rewrite <- N.add_1_r in *. rewrite !iterU_succ. specialize (IH ltac:(lia)).
    unfold xfs_step, fsstep. destruct (N.ltb_spec i a) as [Hia|Hia]; [|now apply IH].
    rewrite !Hlift by lia. rewrite !IH by lia. apply xcell_fin. unfold qden.
    destruct (N.ltb_spec 0 i) as [Hpos|_]; [|apply Q_apart_0_1].
    rewrite <- (gestep_frozen (i - 1) (i - 1) i ltac:(lia) (n - 1)) by lia. apply HZ. lia.
Qed.

(* with zeros below the diagonal in the first i columns, clearing column i is the row
   operation *)
Lemma gestep_ffstep r i Z :
  (forall j k, k < j -> k < i -> j < r -> Z j k = 0%Qc) -> i < r ->
  forall a b, a < r -> ffstep i Z a b = gestep i Z a b.
Proof.
  intros HZ Hi a b Ha. unfold ffstep, fsstep, gestep.
  destruct (N.ltb_spec i a) as [Hia|Hia]; [|reflexivity].
  destruct (N.ltb_spec i b) as [Hib|Hib]; [reflexivity|].
  destruct (N.eqb_spec b i) as [->|ne].
  - unfold qcell, Qcdiv. ring.
  - rewrite (HZ a b), (HZ i b) by lia. unfold qcell, Qcdiv. ring.
Qed.

(* a solution of the system reached after i stages is a solution of the system given *)
Lemma ge_sol n s Aq bq :
  (forall j, j < n -> iterU (n - 1) gestep Aq j j <> 0%Qc) ->
  forall i, i <= n - 1 -> forall z,
    fm_eq n s (fm_mul n (iterU i gestep Aq) z)
              (iterU i (fun t Y => fsstep t (iterU t gestep Aq) Y) bq) ->
    fm_eq n s (fm_mul n Aq z) bq.
Proof.
  intros HZ.
  assert (HP : forall i, i + 1 < n -> i + 1 < n -> iterU (n - 1) gestep Aq i i <> 0%Qc).
  { intros i H _. apply HZ. lia. }
  intros i. induction i as [|i IH] using N.peano_ind; intros Hle z H.
  - rewrite !iterU_0 in H. exact H.
  - rewrite <- N.add_1_r in *. apply (IH ltac:(lia) z). rewrite !iterU_succ in H.
    destruct (gestep_inv n n Aq HP i ltac:(lia)) as [_ Hzero].
    set (Zi := iterU i gestep Aq) in *.
    set (Yi := iterU i (fun t Y => fsstep t (iterU t gestep Aq) Y) bq) in *.
    apply (ffstep_sol n s i Zi Yi z).
    + lia.
    + unfold Zi. rewrite <- (gestep_frozen i i i ltac:(lia) (n - 1)) by lia. apply HZ. lia.
    + unfold qden. destruct (N.ltb_spec 0 i) as [Hpos|_]; [|apply Q_apart_0_1].
      unfold Zi. rewrite <- (gestep_frozen (i - 1) (i - 1) i ltac:(lia) (n - 1)) by lia.
      apply HZ. lia.
    + intros a c Ha Hc. rewrite <- (H a c Ha Hc).
      apply fm_mul_ext; intros k Hk; [|reflexivity].
      apply (gestep_ffstep n i Zi Hzero); lia.
Qed.

(* ------------------------------------------------------------------ second phase *)
(* the j-loop: b_ik -= A_ij x_jk for i < j < n *)
Lemma gs_inner am n s i k bm xm :
  lenN am = n * n -> fin_vec am -> lenN bm = n * s -> fin_vec bm ->
  lenN xm = n * s -> fin_vec xm -> i < n -> k < s ->
  exists bm',
    for_range (i + 1) n (fun j bm =>
      do bi <- rd bm (i * s + k);
      do a <- rd am (i * n + j);
      do xj <- rd xm (j * s + k);
      wr bm (i * s + k) (xsub bi (xmul a xj))) bm = Ok bm' /\
    lenN bm' = n * s /\ fin_vec bm' /\
    (forall r c, r < n -> c < s -> (r <> i \/ c <> k) -> ent bm' s r c = ent bm s r c) /\
    ev bm' s i k = (ev bm s i k - sumR (i + 1) n (fun j => ev am n i j * ev xm s j k))%Qc.
Proof.
  intros HLa HFa HLb HFb HLx HFx Hi Hk.
  pose (R := fun (j : N) (m' : list qx) =>
    lenN m' = n * s /\ fin_vec m' /\
    (forall r c, r < n -> c < s -> (r <> i \/ c <> k) -> ent m' s r c = ent bm s r c) /\
    ev m' s i k = (ev bm s i k - sumR (i + 1) j (fun j => ev am n i j * ev xm s j k))%Qc).
  destruct (for_range_inv R (i + 1) n (fun j bm =>
      do bi <- rd bm (i * s + k);
      do a <- rd am (i * n + j);
      do xj <- rd xm (j * s + k);
      wr bm (i * s + k) (xsub bi (xmul a xj))) bm) as (m' & E & HR).
  - lia.
  - split; [|split; [|split]]; [assumption | assumption | reflexivity |].
    rewrite sumR_nil. ring.
  - intros j t [Hj1 Hj2] (HLt & HFt & Hsame & Hacc).
    rewrite (rd_fin t n s i k) by assumption. cbn [bind].
    rewrite (rd_fin am n n i j) by assumption. cbn [bind].
    rewrite (rd_fin xm n s j k) by assumption. cbn [bind].
    rewrite xmul_fin, xsub_fin.
    rewrite wr_ok by (rewrite HLt; apply idx_lt; assumption).
    match goal with |- context [upd t _ ?v] =>
      destruct (upd_cell t n s i k v HLt HFt Hi Hk I) as (HL3 & HF3 & Hs3 & Hv3) end.
    eexists; split; [reflexivity|]. split; [|split; [|split]].
    + exact HL3.
    + exact HF3.
    + intros r c Hr Hc Hne. rewrite Hs3 by assumption. now apply Hsame.
    + unfold ev at 1. rewrite Hv3. cbn [qv].
      rewrite sumR_succ by lia. rewrite Hacc. ring.
  - exists m'. split; [exact E|]. exact HR.
Qed.

(* one column: rows n-1 down to 0 *)
Lemma gs_col am n s k bm xm :
  lenN am = n * n -> fin_vec am -> nonzero_diag n (ev am n) ->
  lenN bm = n * s -> fin_vec bm -> lenN xm = n * s -> fin_vec xm -> k < s ->
  exists bm' xm',
    for_down (N.to_nat n) (fun i st => ffs_back am n s k i st) (bm, xm) = Ok (bm', xm') /\
    lenN bm' = n * s /\ fin_vec bm' /\ lenN xm' = n * s /\ fin_vec xm' /\
    (forall r c, r < n -> c < s -> c <> k -> ent bm' s r c = ent bm s r c) /\
    (forall r c, r < n -> c < s -> c <> k -> ent xm' s r c = ent xm s r c) /\
    (forall r, r < n -> bs_row n (ev am n) (ev xm' s) r k (ev bm s r k)).
Proof.
  intros HLa HFa HD HLb HFb HLx HFx Hk.
  pose (Q := fun (t : N) (st : list qx * list qx) =>
    lenN (fst st) = n * s /\ fin_vec (fst st) /\ lenN (snd st) = n * s /\ fin_vec (snd st) /\
    (forall r c, r < n -> c < s -> c <> k -> ent (fst st) s r c = ent bm s r c) /\
    (forall r c, r < n -> c < s -> c <> k -> ent (snd st) s r c = ent xm s r c) /\
    (forall r, r < t -> ent (fst st) s r k = ent bm s r k) /\
    (forall r, t <= r < n -> bs_row n (ev am n) (ev (snd st) s) r k (ev bm s r k))).
  destruct (for_down_inv Q (N.to_nat n) (fun i st => ffs_back am n s k i st) (bm, xm))
    as ([bm' xm'] & E & HQ).
  - rewrite N2Nat.id. cbn [fst snd].
    split; [|split; [|split; [|split; [|split; [|split; [|split]]]]]]; try assumption; try reflexivity.
    intros r Hr. lia.
  - intros i [b1 x1'] Hi (HLb1 & HFb1 & HLx1 & HFx1 & Hbo & Hxo & Hlow & Hdone).
    rewrite N2Nat.id in Hi. cbn [fst snd] in *. unfold ffs_back.
    destruct (gs_inner am n s i k b1 x1' HLa HFa HLb1 HFb1 HLx1 HFx1 Hi Hk)
      as (b2 & E2 & HLb2 & HFb2 & Hs2 & Hacc).
    rewrite E2. cbn [bind].
    rewrite (rd_fin b2 n s i k) by assumption. cbn [bind].
    rewrite (rd_fin am n n i i) by assumption. cbn [bind].
    rewrite xdiv_fin by (now apply HD).
    rewrite wr_ok by (rewrite HLx1; apply idx_lt; assumption). cbn [bind].
    match goal with |- context [upd x1' _ ?v] =>
      destruct (upd_cell x1' n s i k v HLx1 HFx1 Hi Hk I) as (HL3 & HF3 & Hs3 & Hv3) end.
    eexists; split; [reflexivity|]. unfold Q. cbn [fst snd].
    set (x3 := upd x1' _ _) in *.
    assert (Hup : forall j, i < j < n -> ev x3 s j k = ev x1' s j k).
    { intros j Hj. apply ev_same. apply Hs3; try assumption; lia. }
    split; [|split; [|split; [|split; [|split; [|split; [|split]]]]]]; try assumption.
    + intros r c Hr Hc Hne. rewrite Hs2 by (try assumption; now right). now apply Hbo.
    + intros r c Hr Hc Hne. rewrite Hs3 by (try assumption; now right). now apply Hxo.
    + intros r Hr. rewrite Hs2 by (try assumption; lia). apply Hlow. lia.
    + intros r Hr. destruct (N.eq_dec r i) as [->|Hne].
      * unfold bs_row. unfold ev at 2. rewrite Hv3. cbn [qv].
        rewrite (sumR_ext _ _ _ (fun j => (ev am n i j * ev x1' s j k)%Qc))
          by (intros j Hj; rewrite Hup by lia; reflexivity).
        rewrite Hacc. rewrite (ev_same bm b1 s i k) by (apply Hlow; lia).
        field. now apply HD.
      * apply bs_row_ext with (X := ev x1' s); [lia | | apply Hdone; lia].
        intros j Hj. symmetry. apply Hup. lia.
  - cbn [fst snd] in HQ. destruct HQ as (H1 & H2 & H3 & H4 & H5 & H6 & _ & H8).
    exists bm', xm'. split; [exact E|].
    split; [|split; [|split; [|split; [|split; [|split]]]]]; try assumption.
    intros r Hr. apply H8. lia.
Qed.

(* all the columns *)
Lemma gs_all am n s bm xm :
  lenN am = n * n -> fin_vec am -> nonzero_diag n (ev am n) ->
  lenN bm = n * s -> fin_vec bm -> lenN xm = n * s -> fin_vec xm ->
  exists st',
    for_range 0 s (fun k st =>
      for_down (N.to_nat n) (fun i st => ffs_back am n s k i st) st) (bm, xm) = Ok st' /\
    lenN (snd st') = n * s /\ fin_vec (snd st') /\
    forall r c, r < n -> c < s -> bs_row n (ev am n) (ev (snd st') s) r c (ev bm s r c).
Proof.
  intros HLa HFa HD HLb HFb HLx HFx.
  pose (P := fun (k : N) (st : list qx * list qx) =>
    lenN (fst st) = n * s /\ fin_vec (fst st) /\ lenN (snd st) = n * s /\ fin_vec (snd st) /\
    (forall r c, r < n -> c < k -> bs_row n (ev am n) (ev (snd st) s) r c (ev bm s r c)) /\
    (forall r c, r < n -> k <= c < s -> ent (fst st) s r c = ent bm s r c)).
  destruct (for_range_inv P 0 s (fun k st =>
      for_down (N.to_nat n) (fun i st => ffs_back am n s k i st) st) (bm, xm)) as (st' & E & HP).
  - lia.
  - cbn [fst snd]. split; [|split; [|split; [|split; [|split]]]]; try assumption;
      [intros; lia | reflexivity].
  - intros k [b1 x1'] [_ Hk] (HLb1 & HFb1 & HLx1 & HFx1 & Hdone & Hrest). cbn [fst snd] in *.
    destruct (gs_col am n s k b1 x1' HLa HFa HD HLb1 HFb1 HLx1 HFx1 Hk)
      as (b2 & x2 & E2 & HLb2 & HFb2 & HLx2 & HFx2 & Hbo & Hxo & Hrows).
    exists (b2, x2). split; [exact E2|]. unfold P. cbn [fst snd].
    split; [|split; [|split; [|split; [|split]]]]; try assumption.
    + intros r c Hr Hc. destruct (N.eq_dec c k) as [->|Hne].
      * replace (ev bm s r k) with (ev b1 s r k); [now apply Hrows|].
        apply ev_same. apply Hrest; lia.
      * apply bs_row_ext with (X := ev x1' s); [assumption | | apply Hdone; lia].
        intros j Hj. symmetry. apply ev_same. apply Hxo; lia.
    + intros r c Hr Hc. rewrite Hbo by lia. apply Hrest; lia.
  - exists st'. split; [exact E|]. destruct HP as (_ & _ & H3 & H4 & H5 & _).
    split; [assumption|]. split; [assumption|]. intros r c Hr Hc. apply H5; assumption.
Qed.

(* ------------------------------------------------------------------ the solver *)
(* a vector representing a matrix of numbers *)
Lemma xrepr_fin_vec m r c X M :
  xrepr m r c X -> (forall a b, a < r -> b < c -> X a b = Fin (M a b)) ->
  lenN m = r * c /\ fin_vec m /\ forall a b, a < r -> b < c -> ev m c a b = M a b.
Proof.
  intros [HL HV] HF. split; [assumption|]. split.
  - apply (fin_vec_of_ent m r c HL). intros a b Ha Hb. rewrite HV, HF by assumption. exact I.
  - intros a b Ha Hb. unfold ev. now rewrite HV, HF by assumption.
Qed.

(* on an n x n matrix A and an n x s right-hand side b of numbers (n > 0), with a
   well-formed n x s matrix x for the result: when the diagonal of the matrix computed by
   fraction_free_gaussian_elimination (the same stages on A) has no zero,
   fraction_free_gaussian_elimination_solve succeeds and returns a matrix of numbers x'
   with A x' = b *)
Theorem ffge_solve_spec A b x n s G :
  good A n n -> good b n s -> 0 < n -> wf x -> drow x = n -> dcol x = s ->
  fraction_free_gaussian_elimination A (mzero n n) = Ok G ->
  (forall j, j < n -> x_is_zero (entry G j j) = false) ->
  exists x', fraction_free_gaussian_elimination_solve A b x = Ok x' /\ good x' n s /\
    fm_eq n s (fm_mul n (fm_of A) (fm_of x')) (fm_of b).
Proof.
  intros GA Gb Hn Wx Hxr Hxc EG HG.
  pose proof GA as (_ & _ & HrA & HcA). pose proof Gb as (_ & _ & Hrb & Hcb).
  pose proof (good_repr A n n GA) as [HLA HVA].
  pose proof (good_repr b n s Gb) as [HLb HVb].
  (* the guard, on the iterates *)
  destruct (ffge_run A (mzero n n) n n HLA HrA HcA Hn) as (gm & EG' & Hgm).
  rewrite EG in EG'. inversion EG'; subst G. clear EG'.
  assert (HG' : forall j, j < n -> x_is_zero (iterU (n - 1) xge_step (ent (dm A) n) j j) = false).
  { intros j Hj. rewrite <- (HG j Hj). unfold entry, setm, mzero. cbn [dm dcol].
    destruct Hgm as [_ Hv]. symmetry. apply f_equal. apply Hv; lia. }
  destruct (xgs_lift n s (ent (dm A) n) (fm_of A) (ent (dm b) s) (fm_of b) HVA HG' HVb)
    as (HliftA & HZ & HliftB).
  (* first phase *)
  rewrite ffges_unfold, HcA, Hcb.
  destruct (ffs_phase1 A b n s HLA HLb Hn) as (am & bm & E1 & Ham & Hbm).
  rewrite E1. cbn [bind]. cbv beta iota.
  set (U := iterU (n - 1) gestep (fm_of A)) in *.
  set (Yq := iterU (n - 1) (fun t Y => fsstep t (iterU t gestep (fm_of A)) Y) (fm_of b)) in *.
  destruct (xrepr_fin_vec am n n _ U Ham (HliftA (n - 1) ltac:(lia))) as (HLam & HFam & Hevam).
  destruct (xrepr_fin_vec bm n s _ Yq Hbm (HliftB (n - 1) ltac:(lia))) as (HLbm & HFbm & Hevbm).
  (* the result vector is cleared *)
  assert (HLx : lenN (dm x) = n * s) by (unfold wf in Wx; now rewrite Wx, Hxr, Hxc).
  destruct (zero_fill (n * s) (dm x) HLx) as (xm0 & E0 & HL0 & Hz0).
  rewrite E0. cbn [bind].
  assert (HF0 : fin_vec xm0).
  { apply fin_vec_all_x0. intros k Hk. apply Hz0. now rewrite <- HL0. }
  (* second phase *)
  assert (HD : nonzero_diag n (ev am n)).
  { intros j Hj. rewrite Hevam by assumption. now apply HZ. }
  destruct (gs_all am n s bm xm0 HLam HFam HD HLbm HFbm HL0 HF0) as (st' & E2 & HLx' & HFx' & Hrows).
  rewrite E2. cbn [bind].
  eexists; split; [reflexivity|]. split.
  - unfold good, wf, fin_mat, setm. cbn [dm drow dcol]. rewrite Hxr, Hxc. auto.
  - assert (HP : forall i, i + 1 < n -> i + 1 < n -> U i i <> 0%Qc).
    { intros i H _. apply HZ. lia. }
    destruct (gestep_inv n n (fm_of A) HP (n - 1) ltac:(lia)) as [_ Hzero]. fold U in Hzero.
    apply (ge_sol n s (fm_of A) (fm_of b) HZ (n - 1) ltac:(lia)).
    fold U. fold Yq. intros r c Hr Hc.
    assert (Ex : forall k, k < n -> fm_of (setm x (snd st')) k c = ev (snd st') s k c).
    { intros k Hk. unfold fm_of, val, entry, setm, ev. cbn [dm dcol]. now rewrite Hxc. }
    pose proof (Hrows r c Hr Hc) as Hrow. unfold bs_row in Hrow.
    rewrite Hevbm in Hrow by assumption. rewrite <- Hrow.
    unfold fm_mul. rewrite (sumN_around n r) by assumption.
    rewrite sumN_zero.
    + rewrite Ex, Hevam by assumption.
      rewrite (sumR_ext (r + 1) n _ (fun j => (ev am n r j * ev (snd st') s j c)%Qc)); [ring|].
      intros k Hk. now rewrite Ex, Hevam by lia.
    + intros k Hk. rewrite (Hzero r k) by lia. ring.
Qed.

(* the statement in the partial-correctness form *)
Corollary ffge_solve_guarded A b x x' n s G :
  fraction_free_gaussian_elimination_solve A b x = Ok x' ->
  good A n n -> good b n s -> 0 < n -> wf x -> drow x = n -> dcol x = s ->
  fraction_free_gaussian_elimination A (mzero n n) = Ok G ->
  (forall j, j < n -> x_is_zero (entry G j j) = false) ->
  good x' n s /\ fm_eq n s (fm_mul n (fm_of A) (fm_of x')) (fm_of b).
Proof.
  intros E GA Gb Hn Wx Hxr Hxc EG HG.
  destruct (ffge_solve_spec A b x n s G GA Gb Hn Wx Hxr Hxc EG HG) as (x'' & E' & H).
  rewrite E in E'. inversion E'; subst x''. exact H.
Qed.
