(* C24 obligation: back substitution solves U x = b (U upper triangular, non-zero diagonal) *)
From SE Require Import C24.DenseModel C24.DenseBase C24.DenseSpec C24.DenseOps C24.DenseSolve.
Local Open Scope N_scope.
Local Open Scope res_scope.
Theorem C24_back_substitution_spec :
  forall U b x n s,
  good U n n -> good b n s -> drow x = n -> dcol x = s ->
  upper_tri n (fm_of U) -> nonzero_diag n (fm_of U) ->
  exists x', back_substitution U b x = Ok x' /\ good x' n s /\
    fm_eq n s (fm_mul n (fm_of U) (fm_of x')) (fm_of b).
Proof. exact back_substitution_spec. Qed.
Print Assumptions C24_back_substitution_spec.
