(* C24 obligation: det_bareis order 3 *)
From SE Require Import C24.DenseModel C24.DenseBase C24.DenseSpec C24.DenseOps C24.DenseDet.
Local Open Scope N_scope.
Local Open Scope res_scope.
Theorem C24_det_bareis_3 :
  forall A,
  good A 3 3 -> det_bareis A = Ok (Fin (det 3 (fm_of A))).
Proof. exact det_bareis_3. Qed.
Print Assumptions C24_det_bareis_3.
