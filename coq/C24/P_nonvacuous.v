(* C24: the hypotheses of the theorems are met by concrete non-trivial inputs, and the model
   computes the expected results on them (evaluated by the kernel). *)
From SE Require Import C24.DenseModel C24.DenseBase C24.DenseSpec C24.DenseWitness C24.DenseGuards.
Local Open Scope N_scope.

(* a rank-2 3x4 matrix whose second column has no pivot: hypotheses of
   pivoted_gauss_jordan_spec / reduced_row_echelon_form_spec / pge_spec *)
Definition NV1 : dmat := mat_of_Z 3 4 [1; 2; 0; 1;  2; 4; 1; 4;  3; 6; 1; 5]%Z.
Example C24_nonvac_good_NV1 : good NV1 3 4.
Proof. apply goodb_good. vm_compute. reflexivity. Qed.
Example C24_nonvac_rref_NV1 :
  res_map (fun r => (mat_repr (fst r), snd r)) (reduced_row_echelon_form NV1 (mzero 3 4) false)
  = Ok ([zr 1; zr 2; zr 0; zr 1;  zr 0; zr 0; zr 1; zr 2;  zr 0; zr 0; zr 0; zr 0]%Z, [0; 2]).
Proof. vm_compute. reflexivity. Qed.
Example C24_nonvac_rref_nl_NV1 :
  res_map (fun r => (mat_repr (fst r), snd r)) (reduced_row_echelon_form NV1 (mzero 3 4) true)
  = Ok ([zr 1; zr 2; zr 0; zr 1;  zr 0; zr 0; zr 1; zr 2;  zr 0; zr 0; zr 0; zr 0]%Z, [0; 2]).
Proof. vm_compute. reflexivity. Qed.
(* the repaired pivoted Gaussian elimination on it: a column is skipped, the result is an
   echelon form all the same *)
Example C24_nonvac_pge_NV1 :
  res_map (fun r => mat_repr (fst r)) (pivoted_gaussian_elimination NV1 (mzero 3 4) [])
  = Ok [zr 1; zr 2; zr 0; zr 1;  zr 0; zr 0; zr 1; zr 2;  zr 0; zr 0; zr 0; zr 0]%Z.
Proof. vm_compute. reflexivity. Qed.

(* a non-singular 3x3 matrix that needs a row exchange: hypotheses of pivoted_LU_total,
   pivoted_LU_solve_spec, inverse_pivoted_LU_spec, det_bareis_correct *)
Definition NV2 : dmat := mat_of_Z 3 3 [0; 2; 1;  1; 1; 0;  2; 0; 3]%Z.
Example C24_nonvac_good_NV2 : good NV2 3 3 /\ det 3 (fm_of NV2) <> 0%Qc.
Proof.
  split; [apply goodb_good; vm_compute; reflexivity|].
  intros H. apply (f_equal (fun q => Qnum (this q))) in H. vm_compute in H. discriminate.
Qed.
Example C24_nonvac_plu_NV2 :
  res_map (fun r => (mat_repr (fst (fst r)), mat_repr (snd (fst r)), snd r))
          (pivoted_LU NV2 (mzero 3 3) (mzero 3 3) [])
  = Ok ([zr 1; zr 0; zr 0;  zr 0; zr 1; zr 0;  zr 2; zr (-1); zr 1]%Z,
        [zr 1; zr 1; zr 0;  zr 0; zr 2; zr 1;  zr 0; zr 0; zr 4]%Z, [(1, 0)]).
Proof. vm_compute. reflexivity. Qed.
Example C24_nonvac_inverse_NV2 :
  res_map (fun B => res_map mat_repr (mul_dense_dense NV2 B (mzero 3 3))) (inverse_pivoted_LU NV2 (mzero 3 3))
  = Ok (Ok [zr 1; zr 0; zr 0;  zr 0; zr 1; zr 0;  zr 0; zr 0; zr 1]%Z).
Proof. vm_compute. reflexivity. Qed.
Example C24_nonvac_inverse_gj_NV2 :
  res_map (fun B => res_map mat_repr (mul_dense_dense NV2 B (mzero 3 3))) (inverse_gauss_jordan NV2 (mzero 3 3))
  = Ok (Ok [zr 1; zr 0; zr 0;  zr 0; zr 1; zr 0;  zr 0; zr 0; zr 1]%Z).
Proof. vm_compute. reflexivity. Qed.

(* a matrix with non-zero leading minors: the guards of the unpivoted routines hold *)
Definition NV3 : dmat := mat_of_Z 3 3 [2; 1; 1;  4; 3; 3;  8; 7; 9]%Z.
Example C24_nonvac_guard_NV3 : good NV3 3 3 /\ guard_lu NV3 = true.
Proof. split; [apply goodb_good|]; vm_compute; reflexivity. Qed.
Example C24_nonvac_lu_NV3 :
  res_map (fun r => (mat_repr (fst r), mat_repr (snd r))) (LU NV3 (mzero 3 3) (mzero 3 3))
  = Ok ([zr 1; zr 0; zr 0;  zr 2; zr 1; zr 0;  zr 4; zr 3; zr 1]%Z,
        [zr 2; zr 1; zr 1;  zr 0; zr 1; zr 1;  zr 0; zr 0; zr 2]%Z).
Proof. vm_compute. reflexivity. Qed.
Example C24_nonvac_det_NV3 : res_map qx_repr (det_bareis NV3) = Ok (zr 4).
Proof. vm_compute. reflexivity. Qed.
(* a 4x4 matrix that sends det_bareis through the Bareiss branch with a row exchange *)
Example C24_nonvac_det4 :
  res_map qx_repr (det_bareis (mat_of_Z 4 4 [0; 2; 3; 4;  5; 6; 7; 8;  2; 6; 4; 8;  3; 1; 1; 2]%Z)) = Ok (zr 84).
Proof. vm_compute. reflexivity. Qed.
(* the guard of the unpivoted routines fails on the permutation matrix of the known finding *)
Example C24_nonvac_guard_WP : guard_lu WP = false.
Proof. vm_compute. reflexivity. Qed.
Print Assumptions C24_nonvac_rref_NV1.
