(* C02 obligation: compare returns 0 exactly when the two expressions are eq. *)
From SE Require Import Expr.Wf Expr.CmpProofs.
Theorem C02_cmp_eq_iff :
  forall a b : expr, wf a = true -> wf b = true ->
    (expr_cmp a b = 0%Z <-> expr_eqb a b = true).
Proof. exact cmp_eq_iff. Qed.
Print Assumptions C02_cmp_eq_iff.
