(* C02 obligation: RCPBasicKeyLess (hash order, then eq, then compare) -- the comparator of
   set_basic / map_basic_basic -- is a strict weak order whose incomparability is eq. *)
From SE Require Import Expr.Wf Expr.CmpProofs.
Theorem C02_keyless_strict_weak_order :
  (forall a, wf a = true -> expr_keyless a a = false) /\
  (forall a b c, wf a = true -> wf b = true -> wf c = true ->
     expr_keyless a b = true -> expr_keyless b c = true -> expr_keyless a c = true) /\
  (forall a b, wf a = true -> wf b = true ->
     (expr_keyless a b = false /\ expr_keyless b a = false <-> expr_eqb a b = true)).
Proof. exact keyless_strict_weak_order. Qed.
Print Assumptions C02_keyless_strict_weak_order.
