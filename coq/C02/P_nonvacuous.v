(* C02: hypotheses satisfiable by non-trivial values, and the order is not trivial on them. *)
From SE Require Import Expr.Wf.
Local Open Scope N_scope.
Definition ex_a := EAdd (NRat 1 2) [(ESym [120], NInt 1); (ESym [121], NInt 2)].
Definition ex_b := EMul (NInt 3) [(ESym [120], ENum (NInt 2)); (EF1 TC_Sin (ESym [121]), ENum (NRat 1 2))].
Definition ex_c := EPow (ESym [120]) ex_a.
Example C02_nonvacuous :
  wf ex_a = true /\ wf ex_b = true /\ wf ex_c = true /\
  expr_cmp ex_a ex_b = 1%Z /\ expr_cmp ex_b ex_a = (-1)%Z /\ expr_cmp ex_a ex_c = (-1)%Z /\
  expr_cmp ex_b ex_c = (-1)%Z /\ expr_cmp ex_a ex_a = 0%Z.
Proof. repeat split; vm_compute; reflexivity. Qed.
