(* C02 obligation: antisymmetry. *)
From SE Require Import Expr.Wf Expr.CmpProofs.
Theorem C02_cmp_antisym :
  forall a b : expr, wf a = true -> wf b = true -> expr_cmp a b = (- expr_cmp b a)%Z.
Proof. exact cmp_antisym. Qed.
Print Assumptions C02_cmp_antisym.
