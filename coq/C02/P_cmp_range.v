(* C02 obligation: the three-way comparison returns only -1, 0 or 1 -- for ALL expressions,
   well-formed or not. *)
From SE Require Import Expr.Wf Expr.CmpProofs.
Theorem C02_cmp_range :
  forall a b : expr, expr_cmp a b = (-1)%Z \/ expr_cmp a b = 0%Z \/ expr_cmp a b = 1%Z.
Proof. exact cmp_range. Qed.
Print Assumptions C02_cmp_range.
