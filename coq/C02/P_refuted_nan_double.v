(* C02 refutation (why [wf] excludes NaN doubles): RealDouble::compare returns 1 in both
   directions when an operand is NaN, and a NaN is not eq to itself. *)
From SE Require Import Expr.Wf.
Local Open Scope N_scope.
Theorem C02_refuted_nan_double :
  exists a b : expr, expr_cmp a b = 1%Z /\ expr_cmp b a = 1%Z /\ expr_eqb a a = false.
Proof.
  exists (ENum (NDbl 9221120237041090560)), (ENum (NDbl 4607182418800017408)).
  repeat split; vm_compute; reflexivity.
Qed.
Print Assumptions C02_refuted_nan_double.
