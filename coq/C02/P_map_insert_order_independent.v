(* C02 obligation: an ordered container keyed by RCPBasicKeyLess, filled by successive
   insertion, ends up the same whatever the insertion order (keys pairwise not eq). *)
From SE Require Import Expr.Wf Expr.CmpProofs.
From Coq Require Import Permutation.
Theorem C02_map_insert_order_independent :
  forall d1 d2 : list (expr * number),
    Permutation d1 d2 ->
    forallb (fun p => wf (fst p)) d1 = true -> pairwise_ne (map fst d1) = true ->
    map_of_umap expr_eqb expr_cmp d1 = map_of_umap expr_eqb expr_cmp d2.
Proof. exact map_insert_order_independent. Qed.
Print Assumptions C02_map_insert_order_independent.
