(* C02 obligation: transitivity (with cmp_eq_iff and antisymmetry: a strict total order on
   eq-classes). *)
From SE Require Import Expr.Wf Expr.CmpProofs.
Theorem C02_cmp_trans :
  forall a b c : expr, wf a = true -> wf b = true -> wf c = true ->
    expr_cmp a b = (-1)%Z -> expr_cmp b c = (-1)%Z -> expr_cmp a c = (-1)%Z.
Proof. exact cmp_trans. Qed.
Print Assumptions C02_cmp_trans.
