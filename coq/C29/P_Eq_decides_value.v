(* C29 obligation: on normalised exact numbers (Integer, Rational, Complex of ANY size) Eq(a,b) is
   True exactly when the values agree in Q(i) and False exactly when they differ -- a corollary
   of the uniqueness of the exact normal form (C05_exact_normal_form_unique).  (Across kinds Eq is
   structural by design: Eq(1, 1.0) = False.) *)
From SE Require Import Num.NumModel Num.NumSpec Num.NumC05U.
Theorem C29_Eq_decides_value_exact : forall a b x y,
  num_wf a = true -> num_wf b = true -> valQi a = Some x -> valQi b = Some y ->
  (rel_eq a b = Ok (Some true) <-> qi_eq x y) /\
  (rel_eq a b = Ok (Some false) <-> ~ qi_eq x y).
Proof. exact Eq_decides_value_exact. Qed.
Print Assumptions C29_Eq_decides_value_exact.
