(* C29 obligation: Gt(a,b) = Lt(b,a) for all numbers. *)
From SE Require Import Num.NumModel Num.NumC29.
Theorem C29_Gt_Lt : forall a b, rel_gt a b = rel_lt b a.
Proof. exact Gt_Lt. Qed.
Print Assumptions C29_Gt_Lt.
