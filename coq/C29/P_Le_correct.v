(* C29 obligation: Le(a,b) is true exactly when val a <= val b, for ALL real numbers of all kinds
   and values, outside the two classes of lt_guard in which the statement is REFUTED (each
   replayed on the library):
     * an exact operand is truncated to double before the subtraction
       (Le(2^53+1, RealDouble(2^53)) = True; `le I:9007199254740993 D:4340000000000000`),
     * an infinite double against the symbolic infinity (Le(oo, RealDouble(inf)) = False).
   (Until commit 117ad73 Le also failed on equal values of different kinds, Le(1, 1.0) = False;
   found by this slice, case `le I:1 D:3ff0000000000000`; the model follows the repair.) *)
From SE Require Import Num.NumModel Num.NumC29 Num.NumC29F Num.NumC29P.
Theorem C29_Le_correct_guarded :
  forall a b x y, num_wf a = true -> num_wf b = true -> val a = Some x -> val b = Some y ->
  lt_guard a b = false -> rel_le a b = Ok (Some (ext_leb x y)).
Proof. intros a b x y Ha Hb Hx Hy Hg. exact (proj2 (Lt_Le_correct_guarded a b x y Ha Hb Hx Hy Hg)). Qed.
Print Assumptions C29_Le_correct_guarded.
Theorem C29_Le_correct_exact :
  forall a b x y, xreal a = true -> xreal b = true -> val a = Some x -> val b = Some y ->
  rel_le a b = Ok (Some (ext_leb x y)).
Proof. exact Le_correct_exact. Qed.
Print Assumptions C29_Le_correct_exact.
Theorem C29_Le_correct_refuted :
  (exists a b x y, val a = Some x /\ val b = Some y /\ ext_leb x y = false /\ rel_le a b = Ok (Some true) /\
                   guard_inexact_conv a b = true) /\
  (exists a b x y, val a = Some x /\ val b = Some y /\ ext_leb x y = true /\ rel_le a b = Ok (Some false) /\
                   guard_dblinf_infty a b = true).
Proof. exact Le_correct_refuted. Qed.
Example C29_Le_equal_values_different_kinds :
  rel_le (NInt 1) (NDbl 4607182418800017408) = Ok (Some true) /\
  rel_le (NDbl 4607182418800017408) (NInt 1) = Ok (Some true) /\
  rel_lt (NDbl 4607182418800017408) (NInt 1) = Ok (Some false).
Proof. exact Le_equal_diffkind. Qed.
