(* C29 obligation: Eq is symmetric for all numbers of all kinds and all values (doubles: == is
   symmetric, Flocq's Bcompare_swap). *)
From SE Require Import Num.NumModel Num.NumC29.
Theorem C29_Eq_sym : forall a b, rel_eq a b = rel_eq b a.
Proof. exact Eq_sym. Qed.
Print Assumptions C29_Eq_sym.
