(* C29: concrete inputs satisfy the hypotheses, and the model computes the expected answers. *)
From SE Require Import Num.NumModel Num.NumC29 Num.NumC29F.
From Coq Require Import List.
Local Open Scope Z_scope.
Example C29_examples :
  rel_lt (NRat 1 2) (NInt 1) = Ok (Some true) /\ rel_lt (NInt 1) (NInf 1) = Ok (Some true) /\
  rel_lt (NInf (-1)) (NInf 1) = Ok (Some true) /\ rel_le (NInf 1) (NInf 1) = Ok (Some true) /\
  rel_lt (NDbl 4602678819172646912) (NInt 1) = Ok (Some true) /\          (* 0.5 < 1 *)
  rel_le (NDbl 0) (NDbl 9223372036854775808) = Ok (Some true) /\          (* 0.0 <= -0.0 *)
  rel_lt (NCplx 1 1 2 1) (NInt 1) = ErrExn EXN_SYMENGINE /\ rel_lt NNaN (NInt 1) = ErrExn EXN_SYMENGINE /\
  rel_eq NNaN NNaN = Ok (Some false) /\ rel_ne NNaN NNaN = Ok (Some true).
Proof. vm_compute. repeat split; reflexivity. Qed.
Example C29_hypotheses_met :
  xreal (NRat 1 2) = true /\ xreal (NInf (-1)) = true /\ num_wf (NRat 1 2) = true /\
  num_wf (NDbl 4602678819172646912) = true /\ val (NDbl 4602678819172646912) <> None /\
  lt_guard (NDbl 4602678819172646912) (NInt 1) = false /\
  lt_guard (NRat 1 2) (NDbl 4602678819172646912) = false /\          (* 1/2 converts exactly *)
  lt_guard (NRat 1 3) (NDbl 4602678819172646912) = true.              (* 1/3 does not *)
Proof. vm_compute. repeat split; try reflexivity. discriminate. Qed.
Print Assumptions C29_examples.
