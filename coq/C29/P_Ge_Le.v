(* C29 obligation: Ge(a,b) = Le(b,a) for all numbers (including the throwing cases). *)
From SE Require Import Num.NumModel Num.NumC29.
Theorem C29_Ge_Le : forall a b, rel_ge a b = rel_le b a.
Proof. exact Ge_Le. Qed.
Print Assumptions C29_Ge_Le.
