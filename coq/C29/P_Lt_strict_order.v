(* C29 obligation (corollary of C29_Lt_correct_exact): on exact reals and +-oo of ANY size, the
   answers of Lt form a strict order that is total up to numeric equality: Lt(a,a) is False;
   Lt(a,b) True forces Lt(b,a) False; Lt(a,b) and Lt(b,c) True force Lt(a,c) True; and one of
   Lt(a,b), a == b numerically, Lt(b,a) holds. *)
From SE Require Import Num.NumModel Num.NumC29 Num.NumC29O.
Theorem C29_Lt_strict_order_exact : forall a b c x y z,
  xreal a = true -> xreal b = true -> xreal c = true ->
  val a = Some x -> val b = Some y -> val c = Some z ->
  rel_lt a a = Ok (Some false) /\
  (rel_lt a b = Ok (Some true) -> rel_lt b a = Ok (Some false)) /\
  (rel_lt a b = Ok (Some true) -> rel_lt b c = Ok (Some true) -> rel_lt a c = Ok (Some true)) /\
  (rel_lt a b = Ok (Some true) \/ ext_eqb x y = true \/ rel_lt b a = Ok (Some true)).
Proof. exact Lt_strict_order_exact. Qed.
Print Assumptions C29_Lt_strict_order_exact.
