(* C29 obligation: Lt(a,b) is true exactly when val a < val b.
   - all exact reals and +-oo, any size: proved (Lt_correct_exact);
   - pairs involving doubles: proved on the complete palette the check runs (kernel sweep),
     outside two classes in which the statement is REFUTED (each replayed on the library):
       * an exact operand is converted to double by truncation before the subtraction
         (Lt(RealDouble(2^53), 2^53+1) = False; `lt D:4340000000000000 I:9007199254740993`),
       * an infinite double against the symbolic infinity (Lt(RealDouble(inf), oo) = True). *)
From SE Require Import Num.NumModel Num.NumPalette Num.NumC29 Num.NumC29P.
Theorem C29_Lt_correct_exact :
  forall a b x y, xreal a = true -> xreal b = true -> val a = Some x -> val b = Some y ->
  rel_lt a b = Ok (Some (ext_ltb x y)).
Proof. exact Lt_correct_exact. Qed.
Print Assumptions C29_Lt_correct_exact.
Theorem C29_Lt_correct_palette_guarded :
  forall a b, In a real_palette -> In b real_palette -> lt_guard a b = false ->
  exists x y, val a = Some x /\ val b = Some y /\ rel_lt a b = Ok (Some (ext_ltb x y)).
Proof. exact Lt_correct_palette_guarded. Qed.
Print Assumptions C29_Lt_correct_palette_guarded.
Theorem C29_Lt_correct_refuted :
  (exists a b x y, val a = Some x /\ val b = Some y /\ ext_ltb x y = true /\ rel_lt a b = Ok (Some false) /\
                   guard_inexact_conv a b = true) /\
  (exists a b x y, val a = Some x /\ val b = Some y /\ ext_ltb x y = false /\ rel_lt a b = Ok (Some true) /\
                   guard_dblinf_infty a b = true).
Proof. exact Lt_correct_refuted. Qed.
