(* C29 obligation: Lt(a,b) is true exactly when val a < val b, for ALL real numbers of ALL
   kinds and values (Integer, Rational of any size, every non-NaN double bit pattern, +-oo):
   the difference lhs - rhs is computed by the class methods (exact, or IEEE after converting an
   exact operand), and its sign decides (Flocq: the rounded difference of two doubles is never
   zero unless they are equal, and overflow keeps the sign).
   Two classes are excluded by lt_guard, in which the statement is REFUTED (each replayed on
   the library):
     * an exact operand that is not exactly representable is truncated to double first
       (Lt(RealDouble(2^53), 2^53+1) = False; `lt D:4340000000000000 I:9007199254740993`),
     * an infinite double against the symbolic infinity (Lt(RealDouble(inf), oo) = True). *)
From SE Require Import Num.NumModel Num.NumC29 Num.NumC29F Num.NumC29P.
Theorem C29_Lt_correct_guarded :
  forall a b x y, num_wf a = true -> num_wf b = true -> val a = Some x -> val b = Some y ->
  lt_guard a b = false -> rel_lt a b = Ok (Some (ext_ltb x y)).
Proof. intros a b x y Ha Hb Hx Hy Hg. exact (proj1 (Lt_Le_correct_guarded a b x y Ha Hb Hx Hy Hg)). Qed.
Print Assumptions C29_Lt_correct_guarded.
(* exact reals and +-oo: no guard, no normal-form hypothesis *)
Theorem C29_Lt_correct_exact :
  forall a b x y, xreal a = true -> xreal b = true -> val a = Some x -> val b = Some y ->
  rel_lt a b = Ok (Some (ext_ltb x y)).
Proof. exact Lt_correct_exact. Qed.
Print Assumptions C29_Lt_correct_exact.
Theorem C29_Lt_correct_refuted :
  (exists a b x y, val a = Some x /\ val b = Some y /\ ext_ltb x y = true /\ rel_lt a b = Ok (Some false) /\
                   guard_inexact_conv a b = true) /\
  (exists a b x y, val a = Some x /\ val b = Some y /\ ext_ltb x y = false /\ rel_lt a b = Ok (Some true) /\
                   guard_dblinf_infty a b = true).
Proof. exact Lt_correct_refuted. Qed.
