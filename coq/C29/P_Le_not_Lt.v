(* C29 obligation: Le(a,b) is the negation of Lt(b,a) for all real numbers of all kinds and values
   outside lt_guard (refutations: C29_Lt_correct_refuted / C29_Le_correct_refuted). *)
From SE Require Import Num.NumModel Num.NumC29 Num.NumC29F.
Theorem C29_Le_not_Lt_guarded :
  forall a b x y, num_wf a = true -> num_wf b = true -> val a = Some x -> val b = Some y ->
  lt_guard a b = false ->
  exists t, rel_lt b a = Ok (Some t) /\ rel_le a b = Ok (Some (negb t)).
Proof. exact Le_not_Lt_guarded. Qed.
Print Assumptions C29_Le_not_Lt_guarded.
Theorem C29_Le_not_Lt_exact :
  forall a b x y, xreal a = true -> xreal b = true -> val a = Some x -> val b = Some y ->
  exists t, rel_lt b a = Ok (Some t) /\ rel_le a b = Ok (Some (negb t)).
Proof. exact Le_not_Lt_exact. Qed.
Print Assumptions C29_Le_not_Lt_exact.
