(* C29 obligation: Le(a,b) is the negation of Lt(b,a): all exact reals / +-oo; palette pairs with
   doubles outside the guard classes (inexact conversion of an exact operand, infinite double
   against the symbolic infinity: see C29_Lt_correct_refuted / C29_Le_correct_refuted). *)
From SE Require Import Num.NumModel Num.NumPalette Num.NumC29 Num.NumC29P.
Theorem C29_Le_not_Lt_exact :
  forall a b x y, xreal a = true -> xreal b = true -> val a = Some x -> val b = Some y ->
  exists t, rel_lt b a = Ok (Some t) /\ rel_le a b = Ok (Some (negb t)).
Proof. exact Le_not_Lt_exact. Qed.
Print Assumptions C29_Le_not_Lt_exact.
Theorem C29_Le_not_Lt_palette_guarded :
  forall a b, In a real_palette -> In b real_palette -> le_guard a b = false ->
  exists t, rel_lt b a = Ok (Some t) /\ rel_le a b = Ok (Some (negb t)).
Proof. exact Le_not_Lt_palette_guarded. Qed.
Print Assumptions C29_Le_not_Lt_palette_guarded.
