(* C29 obligation: Eq and Ne always evaluate on two numbers, and Ne is the negation of Eq. *)
From SE Require Import Num.NumModel Num.NumC29.
Theorem C29_Ne_negb_Eq :
  forall a b, exists t, rel_eq a b = Ok (Some t) /\ rel_ne a b = Ok (Some (negb t)).
Proof. exact Ne_negb_Eq. Qed.
Print Assumptions C29_Ne_negb_Eq.
