(* C29 obligation (corollary of C29_Le_correct_exact): on exact reals and +-oo of ANY size, the
   answers of Le form a total preorder whose kernel is numeric equality: Le(a,a) is True; Le is
   transitive; one of Le(a,b), Le(b,a) is True; and both True only for numerically equal
   values.  (Across kinds reflexivity fails -- Le(1, 1.0) = False -- see C29_Le_correct_refuted.) *)
From SE Require Import Num.NumModel Num.NumC29 Num.NumC29O.
Theorem C29_Le_total_preorder_exact : forall a b c x y z,
  xreal a = true -> xreal b = true -> xreal c = true ->
  val a = Some x -> val b = Some y -> val c = Some z ->
  rel_le a a = Ok (Some true) /\
  (rel_le a b = Ok (Some true) -> rel_le b c = Ok (Some true) -> rel_le a c = Ok (Some true)) /\
  (rel_le a b = Ok (Some true) \/ rel_le b a = Ok (Some true)) /\
  (rel_le a b = Ok (Some true) -> rel_le b a = Ok (Some true) -> ext_eqb x y = true).
Proof. exact Le_total_preorder_exact. Qed.
Print Assumptions C29_Le_total_preorder_exact.
