(* C23 obligation: gf_lshift multiplies by x^n; gf_rshift is division with remainder by x^n. *)
From SE Require Import C23.GFSpec C23.GFProofs.
Local Open Scope Z_scope.
Theorem C23_shift_spec :
  forall (p : Z) (a : gf) (n : nat), 0 < p -> wf p a ->
    (wf p (gf_lshift p a n) /\ peqm p (gf_lshift p a n) (pshift n a)) /\
    (let '(q, r) := gf_rshift p a n in
     wf p q /\ wf p r /\ peqm p a (padd (pmul q (pshift n [1])) r) /\ (length r <= n)%nat).
Proof. exact (fun p a n Hp Ha => conj (gf_lshift_spec p a n Hp Ha) (gf_rshift_spec p a n Hp Ha)). Qed.
Print Assumptions C23_shift_spec.
