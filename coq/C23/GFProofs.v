(* C23 -- all proofs (umbrella for the obligation files P_*.v). *)
From SE Require Export C23.GFSpec C23.GFPolyLemmas C23.GFArith C23.GFProofsRing C23.GFProofsDiv C23.GFProofsGcd.
