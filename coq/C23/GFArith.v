(* C23 -- integer facts: the extended Euclid of the model computes modular inverses
   for a prime modulus; coefficient operations agree with arithmetic modulo p. *)
From SE Require Import C23.GFSpec.
From Coq Require Import Lia ZifyBool ZifyNat.
Local Open Scope Z_scope.

Lemma egcd_spec fuel : forall a b, 0 <= b < a -> a * b < 2 ^ Z.of_nat fuel ->
  let '(g, x, y) := egcd fuel a b in a * x + b * y = g /\ g = Z.gcd a b.
Proof.
  induction fuel as [|fuel IH]; intros a b Hab Hlt.
  - cbn [egcd]. change (2 ^ Z.of_nat 0) with 1 in Hlt.
    assert (b = 0) by nia. subst b. split; [ring|]. rewrite Z.gcd_0_r. lia.
  - cbn [egcd]. destruct (b =? 0) eqn:Eb.
    + apply Z.eqb_eq in Eb. subst b. split; [ring|]. rewrite Z.gcd_0_r. lia.
    + apply Z.eqb_neq in Eb.
      assert (Hb : 0 < b) by lia.
      pose proof (Z.mod_pos_bound a b Hb) as Hr.
      pose proof (Z.div_mod a b ltac:(lia)) as Hdm.
      assert (Hq : 1 <= a / b) by (apply Z.div_le_lower_bound; lia).
      assert (Hsmall : b * (a mod b) < 2 ^ Z.of_nat fuel).
      { rewrite Nat2Z.inj_succ, Z.pow_succ_r in Hlt by lia. nia. }
      specialize (IH b (a mod b) ltac:(lia) Hsmall).
      destruct (egcd fuel b (a mod b)) as [[g x] y]. destruct IH as [E G].
      split.
      * rewrite <- E. rewrite Hdm at 1. ring.
      * rewrite G. rewrite Z.gcd_comm. rewrite Z.gcd_mod by lia. apply Z.gcd_comm.
Qed.

Lemma egcd_fuel_enough m a : 1 < m -> 0 <= a < m -> m * a < 2 ^ Z.of_nat (egcd_fuel m).
Proof.
  intros Hm Ha. unfold egcd_fuel.
  pose proof (Z.log2_up_spec m Hm) as [_ Hup].
  pose proof (Z.log2_up_nonneg m).
  rewrite Z2Nat.id by lia.
  replace (2 * Z.log2_up m + 3) with (Z.log2_up m + Z.log2_up m + 3) by ring.
  rewrite !Z.pow_add_r by lia.
  assert (0 < 2 ^ Z.log2_up m) by (apply Z.pow_pos_nonneg; lia).
  change (2 ^ 3) with 8. nia.
Qed.

(* mpz_invert on a prime modulus *)
Lemma zinvert_spec p a : prime p -> a mod p <> 0 ->
  0 <= zinvert a p < p /\ (a * zinvert a p) mod p = 1.
Proof.
  intros Hp Ha.
  assert (Hp1 : 1 < p) by (destruct Hp; lia).
  pose proof (Z.mod_pos_bound a p ltac:(lia)) as Hb.
  unfold zinvert.
  pose proof (egcd_spec (egcd_fuel p) p (a mod p) ltac:(lia)
                (egcd_fuel_enough p (a mod p) Hp1 ltac:(lia))) as H.
  destruct (egcd (egcd_fuel p) p (a mod p)) as [[g x] y]. destruct H as [E G].
  assert (Hg : g = 1).
  { rewrite G. apply Zgcd_1_rel_prime. apply prime_rel_prime; auto.
    intros D. apply Z.divide_pos_le in D; lia. }
  subst g. rewrite Hg in *. rewrite Z.eqb_refl.
  split; [apply Z.mod_pos_bound; lia|].
  rewrite Z.mul_mod_idemp_r by lia.
  rewrite <- Z.mul_mod_idemp_l by lia.
  replace (a mod p * y) with (1 + (- x) * p) by lia.
  rewrite Z.mod_add by lia. apply Z.mod_small; lia.
Qed.

Lemma zinvert_spec' p a : prime p -> 0 < a < p ->
  0 <= zinvert a p < p /\ (a * zinvert a p) mod p = 1.
Proof. intros Hp Ha. apply zinvert_spec; auto. rewrite Z.mod_small; lia. Qed.

Lemma zinvert_nonzero p a : prime p -> a mod p <> 0 -> zinvert a p mod p <> 0.
Proof.
  intros Hp Ha. destruct (zinvert_spec p a Hp Ha) as [Hr Hi].
  assert (Hp1 : 1 < p) by (destruct Hp; lia).
  intros Z0. rewrite Z.mod_small in Z0 by lia. rewrite Z0, Z.mul_0_r, Z.mod_0_l in Hi; lia.
Qed.
