(* C23 obligation: gf_lcm, PARTIAL.  Full statement: l is the monic least common multiple (f | l, g | l, and l divides every common multiple).  Proved: l is a monic common multiple with f*g = c * l * gcd(f,g) for a unit c; lcm with 0 is 0.  Missing: minimality (needs Bezout coefficients for the gcd). *)
From SE Require Import C23.GFSpec C23.GFProofs.
Local Open Scope Z_scope.
Theorem C23_lcm_spec_partial :
  forall (p : Z) (f g : gf), prime p -> wf p f -> wf p g ->
    (f <> [] -> g <> [] ->
     exists l d c, gf_lcm p f g = Ok l /\ gf_gcd p f g = Ok d /\ wf p l /\ monic l /\
       pdvd p f l /\ pdvd p g l /\ c mod p <> 0 /\ peqm p (pmul f g) (pscale c (pmul l d))) /\
    (f = [] \/ g = [] -> gf_lcm p f g = Ok []).
Proof. exact (fun p f g Hp Hf Hg => conj (gf_lcm_spec_partial p f g Hp Hf Hg) (gf_lcm_zero p f g)). Qed.
Print Assumptions C23_lcm_spec_partial.
