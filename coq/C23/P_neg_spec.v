(* C23 obligation: operator- / negate: canonical, equal to the additive inverse in (Z/p)[x]. *)
From SE Require Import C23.GFSpec C23.GFProofs.
Local Open Scope Z_scope.
Theorem C23_neg_spec :
  forall (p : Z) (a : gf), 0 < p -> wf p a -> wf p (gf_neg p a) /\ peqm p (gf_neg p a) (popp a).
Proof. exact (fun p a Hp Ha => conj (gf_neg_wf p a Hp Ha) (gf_neg_peqm p a Hp (proj1 Ha))). Qed.
Print Assumptions C23_neg_spec.
