(* C23 -- executable model of symengine/fields.h + fields.cpp (class GaloisFieldDict).
   Transcription conventions: DESIGN.md appendix B.1.  The model is of the code that
   exists, branch by branch:
     - dict_ is a list of Z, low degree first; modulo_ is the parameter [p] of every
       function (mixing two moduli throws before anything else happens; not modelled);
     - mp_fdiv_r is [Z.modulo] (floor remainder, sign of the divisor), mp_invert is [zinvert],
       mp_get_ui keeps the low 64 bits;
     - every indexed access into a coefficient vector that the C++ performs with an
       index computed at run time is a *checked* access here ([vget]/[vset] => ErrOOB);
     - `while` loops run on explicit fuel (ErrFuel), exceptions are ErrExn codes;
     - the random polynomials of the equal-degree factorisations are drawn from an
       explicit list of streams, one stream per constructed mp_randstate.
   No proofs are imported here. *)
From SE Require Export Base.Prelude.
Local Open Scope Z_scope.
Local Open Scope res_scope.

Definition gf := list Z.

Definition EXN_DIVZERO : N := 1%N.       (* DivisionByZeroError *)
Definition EXN_STREAM : N := 99%N.       (* the explicit random stream ran out (model artefact) *)

(* ---------- checked vector access ---------- *)
Definition vget {A} (l : list A) (i : nat) : res A :=
  match nth_error l i with
  | Some x => Ok x
  | None => ErrOOB (N.of_nat i) (N.of_nat (length l))
  end.

Fixpoint vupd {A} (l : list A) (i : nat) (v : A) : list A :=
  match l, i with
  | [], _ => []
  | _ :: r, O => v :: r
  | x :: r, S i' => x :: vupd r i' v
  end.

Definition vset {A} (l : list A) (i : nat) (v : A) : res (list A) :=
  if (i <? length l)%nat then Ok (vupd l i v)
  else ErrOOB (N.of_nat i) (N.of_nat (length l)).

Fixpoint mapM {A B} (f : A -> res B) (l : list A) : res (list B) :=
  match l with
  | [] => Ok []
  | x :: r => do y <- f x; do ys <- mapM f r; Ok (y :: ys)
  end.

(* ---------- integer helpers ---------- *)
(* extended Euclid: egcd a b = (g, x, y) with a*x + b*y = g *)
Fixpoint egcd (fuel : nat) (a b : Z) : Z * Z * Z :=
  match fuel with
  | O => (a, 1, 0)
  | S f =>
      if b =? 0 then (a, 1, 0)
      else let '(g, x, y) := egcd f b (a mod b) in (g, y, x - (a / b) * y)
  end.

Definition egcd_fuel (m : Z) : nat := Z.to_nat (2 * Z.log2_up m + 3).

(* mpz_invert(res, a, m): the inverse of a modulo m in [0, m) when it exists;
   otherwise the C++ leaves the default-constructed 0 in `inv` *)
Definition zinvert (a m : Z) : Z :=
  let a' := a mod m in
  let '(g, x, y) := egcd (egcd_fuel m) m a' in
  if g =? 1 then y mod m else 0.

(* mp_get_ui: the least significant 64 bits of |z|;  numeric_cast<unsigned> keeps 32 of them
   (the library is built with NDEBUG, so the cast does not assert) *)
Definition mp_get_ui (z : Z) : Z := Z.abs z mod 18446744073709551616.
Definition cast_unsigned (z : Z) : Z := z mod 4294967296.

(* the guard under which the modulus survives mp_get_ui (Frobenius maps, factorisation) *)
Definition guard_modulus_ui (p : Z) : bool := p <? 18446744073709551616.

(* ---------- normalisation ---------- *)
(* gf_istrip: pop_back while the last coefficient is 0 *)
Fixpoint istrip (l : list Z) : list Z :=
  match l with
  | [] => []
  | x :: r =>
      match istrip r with
      | [] => if x =? 0 then [] else [x]
      | r' => x :: r'
      end
  end.

(* GaloisFieldDict::from_vec *)
Definition from_vec (v : list Z) (p : Z) : gf := istrip (map (fun a => a mod p) v).

(* GaloisFieldDict(const integer_class &i, mod) and GaloisFieldDict(const int &i, mod) *)
Definition gf_of_int (i p : Z) : gf :=
  let t := i mod p in if t =? 0 then [] else [t].

(* GaloisFieldDict(const map_uint_mpz &, mod): resize to (largest key)+1, assign, strip.
   The map is given as an association list sorted by key (std::map order). *)
Definition gf_of_map (m : list (nat * Z)) (p : Z) : res gf :=
  match m with
  | [] => Ok []
  | _ =>
      let size := S (fst (last m (O, 0))) in
      do d <- fold_left (fun acc kv => do a <- acc; vset a (fst kv) (snd kv mod p))
                        m (Ok (repeat 0 size));
      Ok (istrip d)
  end.

(* degree(): 0 for the empty dict *)
Definition degree (f : gf) : nat := Nat.pred (length f).

Definition is_one (f : gf) : bool :=
  match f with [c] => c =? 1 | _ => false end.

Definition gf_eqb (a b : gf) : bool :=
  (length a =? length b)%nat && forallb (fun xy => fst xy =? snd xy) (combine a b).

(* ---------- negation, addition, subtraction ---------- *)
(* a *= -1; if (a != 0) a += modulo_ *)
Definition negc (p a : Z) : Z := let a' := a * -1 in if a' =? 0 then a' else a' + p.
Definition gf_neg (p : Z) (f : gf) : gf := map (negc p) f.

(* temp = x + y; if (temp != 0) mp_fdiv_r(temp, temp, modulo_) *)
Definition addc (p x y : Z) : Z := let t := x + y in if t =? 0 then t else t mod p.
Definition subc (p x y : Z) : Z := let t := x - y in if t =? 0 then t else t mod p.

(* the coefficient loop of operator+=: common prefix added; the longer operand's tail is
   kept (this longer) or inserted (other longer) *)
Fixpoint add_loop (p : Z) (a b : list Z) : list Z :=
  match a, b with
  | x :: a', y :: b' => addc p x y :: add_loop p a' b'
  | [], _ => b
  | _, [] => a
  end.

Definition gf_add (p : Z) (a b : gf) : gf :=
  match b with
  | [] => a
  | _ =>
      match a with
      | [] => b
      | _ =>
          if (length a =? length b)%nat then istrip (add_loop p a b)
          else add_loop p a b
      end
  end.

(* operator-=: as above, the inserted tail of `other` is negated *)
Fixpoint sub_loop (p : Z) (a b : list Z) : list Z :=
  match a, b with
  | x :: a', y :: b' => subc p x y :: sub_loop p a' b'
  | [], _ => map (fun y => let t := - y in if t =? 0 then t else t + p) b
  | _, [] => a
  end.

Definition gf_sub (p : Z) (a b : gf) : gf :=
  match b with
  | [] => a
  | _ =>
      match a with
      | [] => gf_neg p b
      | _ =>
          if (length a =? length b)%nat then istrip (sub_loop p a b)
          else sub_loop p a b
      end
  end.

(* operator+=(const integer_class &other):
     if (other == 0) return *this;
     if (dict_.empty()) { c = other mod p; if (c != 0) dict_.push_back(c); return *this; }
     dict_[0] = (dict_[0] + other) mod p; if (size == 1) gf_istrip();                     *)
Definition gf_add_int (p : Z) (a : gf) (c : Z) : gf :=
  if c =? 0 then a
  else
    match a with
    | [] => let c' := c mod p in if c' =? 0 then [] else [c']
    | x :: r =>
        let t := (x + c) mod p in
        match r with [] => istrip [t] | _ => t :: r end
    end.

(* operator-=(const integer_class &other) { return *this += (-1 * other); } *)
Definition gf_sub_int (p : Z) (a : gf) (c : Z) : gf := gf_add_int p a (-1 * c).

(* ---------- multiplication ---------- *)
(* for (auto &arg : dict_) if (arg != 0) { arg *= c; mp_fdiv_r(arg, arg, modulo_); }  gf_istrip(); *)
Definition scale_loop (p c : Z) (a : list Z) : list Z :=
  map (fun x => if x =? 0 then x else (x * c) mod p) a.

(* operator*=(const integer_class &) *)
Definition gf_mul_int (p : Z) (a : gf) (c : Z) : gf :=
  match a with
  | [] => []
  | _ => if c =? 0 then [] else istrip (scale_loop p c a)
  end.

(* GaloisFieldDict::mul: p.dict_[i + j] = (p.dict_[i + j] + a[i] * b[j]) mod m  when a[i]*b[j] != 0 *)
Fixpoint mul_inner (p ai : Z) (i : nat) (bs : list Z) (j : nat) (acc : list Z) : res (list Z) :=
  match bs with
  | [] => Ok acc
  | bj :: bs' =>
      let temp := ai * bj in
      do acc' <- (if temp =? 0 then Ok acc
                  else do t <- vget acc (i + j); vset acc (i + j) ((t + temp) mod p));
      mul_inner p ai i bs' (S j) acc'
  end.

Fixpoint mul_outer (p : Z) (as_ : list Z) (b : list Z) (i : nat) (acc : list Z) : res (list Z) :=
  match as_ with
  | [] => Ok acc
  | ai :: as' => do acc' <- mul_inner p ai i b O acc; mul_outer p as' b (S i) acc'
  end.

Definition gf_mul (p : Z) (a b : gf) : res gf :=
  match a with
  | [] => Ok a
  | _ =>
      match b with
      | [] => Ok b
      | _ =>
          do r <- mul_outer p a b O (repeat 0 (degree a + degree b + 1));
          Ok (istrip r)
      end
  end.

(* operator*=(const GaloisFieldDict &other) *)
Definition gf_mul_assign (p : Z) (a o : gf) : res gf :=
  match a with
  | [] => Ok a
  | _ =>
      match o with
      | [] => Ok []
      | [c] => Ok (istrip (scale_loop p c a))
      | _ => gf_mul p a o
      end
  end.

Definition gf_sqr (p : Z) (f : gf) : res gf := gf_mul p f f.

(* ---------- division ---------- *)
(* lb = deg_divisor + it > deg_dividend ? deg_divisor + it - deg_dividend : 0;
   ub = std::min(it + 1, deg_divisor) *)
Definition div_bounds (it m n : nat) : nat * nat :=
  ((if (n <? m + it)%nat then (m + it - n)%nat else O), Nat.min (it + 1) m).

(* for (j = lb; j < ub; ++j) mp_addmul(coeff, dict_out[it - j + deg_divisor], -dict_divisor[j]);
   [cnt] = remaining rounds; `it - j` is size_t arithmetic *)
Fixpoint div_inner (out g : list Z) (it m : nat) (cnt j : nat) (coeff : Z) : res Z :=
  match cnt with
  | O => Ok coeff
  | S c =>
      if (it <? j)%nat then ErrOOB (N.of_nat (it + m) + (W64 - N.of_nat j))%N (N.of_nat (length out))
      else
        do a <- vget out (it - j + m);
        do b <- vget g j;
        div_inner out g it m c (S j) (coeff + a * - b)
  end.

(* one round of the outer loop of gf_div / operator%= / operator/= (the latter only
   runs rounds with it >= deg_divisor, where it scales unconditionally) *)
Definition div_step (p inv : Z) (g : list Z) (m n : nat) (out : list Z) (it : nat) : res (list Z) :=
  do c0 <- vget out it;
  let '(lb, ub) := div_bounds it m n in
  do c <- div_inner out g it m (ub - lb) lb c0;
  let c' := if (m <=? it)%nat then c * inv else c in
  vset out it (c' mod p).

(* it = stop + k - 1 down to stop *)
Fixpoint div_outer (p inv : Z) (g : list Z) (m n : nat) (k stop : nat) (out : list Z) : res (list Z) :=
  match k with
  | O => Ok out
  | S k' =>
      do out' <- div_step p inv g m n out (stop + k');
      div_outer p inv g m n k' stop out'
  end.

(* gf_div(o, quo, rem) *)
Definition gf_div (p : Z) (f o : gf) : res (gf * gf) :=
  match o with
  | [] => ErrExn EXN_DIVZERO
  | _ =>
      match f with
      | [] => Ok (from_vec [] p, from_vec f p)
      | _ =>
          let n := degree f in
          let m := degree o in
          if (n <? m)%nat then Ok (from_vec [] p, from_vec f p)
          else
            let inv := zinvert (last o 0) p in
            do out <- div_outer p inv o m n (n + 1) O f;
            Ok (from_vec (skipn m out) p, from_vec (firstn m out) p)
      end
  end.

(* operator/=(const GaloisFieldDict &other) *)
Definition gf_quo (p : Z) (f o : gf) : res gf :=
  match o with
  | [] => ErrExn EXN_DIVZERO
  | _ =>
      match f with
      | [] => Ok f
      | _ =>
          let inv := zinvert (last o 0) p in
          match o with
          | [_] => Ok (map (fun x => if x =? 0 then x else (x * inv) mod p) f)   (* no strip *)
          | _ =>
              let n := degree f in
              let m := degree o in
              if (n <? m)%nat then Ok []
              else
                do out <- div_outer p inv o m n (n - m + 1) m f;
                Ok (istrip (skipn m out))
          end
      end
  end.

(* operator%=(const GaloisFieldDict &other) *)
Definition gf_rem (p : Z) (f o : gf) : res gf :=
  match o with
  | [] => ErrExn EXN_DIVZERO
  | _ =>
      match f with
      | [] => Ok f
      | _ =>
          let inv := zinvert (last o 0) p in
          match o with
          | [_] => Ok []
          | _ =>
              let n := degree f in
              let m := degree o in
              if (n <? m)%nat then Ok f
              else
                do out <- div_outer p inv o m n (n + 1) O f;
                Ok (istrip (firstn m out))
          end
      end
  end.

(* operator/=(const integer_class &other) *)
Definition gf_quo_int (p : Z) (f : gf) (c : Z) : res gf :=
  if c =? 0 then ErrExn EXN_DIVZERO
  else
    match f with
    | [] => Ok f
    | _ => let inv := zinvert c p in Ok (istrip (scale_loop p inv f))
    end.

(* operator%=(const integer_class &other) *)
Definition gf_rem_int (p : Z) (f : gf) (c : Z) : res gf :=
  if c =? 0 then ErrExn EXN_DIVZERO else Ok [].

(* ---------- shifts ---------- *)
Definition gf_lshift (p : Z) (f : gf) (n : nat) : gf :=
  match f with [] => from_vec [] p | _ => repeat 0 n ++ f end.

Definition gf_rshift (p : Z) (f : gf) (n : nat) : gf * gf :=
  if (n <? length f)%nat then (skipn n f, from_vec (firstn n f) p)
  else (from_vec [] p, f).

(* ---------- powers ---------- *)
(* while (1) { if (num & 1) to_ret *= to_sq; num >>= 1; if (num == 0) return to_ret; to_sq = to_sq.gf_sqr(); } *)
Fixpoint pow_loop (p : Z) (num : positive) (to_sq to_ret : gf) : res gf :=
  match num with
  | xH => gf_mul_assign p to_ret to_sq
  | xO n' => do s <- gf_sqr p to_sq; pow_loop p n' s to_ret
  | xI n' => do r <- gf_mul_assign p to_ret to_sq; do s <- gf_sqr p to_sq; pow_loop p n' s r
  end.

Definition gf_pow (p : Z) (f : gf) (n : N) : res gf :=
  match n with
  | N0 => Ok (gf_of_int 1 p)
  | Npos 1 => Ok f
  | Npos 2 => gf_sqr p f
  | Npos num => pow_loop p num f (gf_of_int 1 p)
  end.

(* this->gf_pow_mod(f, n) = f**n % this; [m] is `this` *)
Definition gf_mod (p : Z) (f m : gf) : res gf := gf_rem p f m.      (* operator%: copy, then %= *)

Fixpoint pow_mod_loop (p : Z) (m : gf) (num : positive) (inn h : gf) : res gf :=
  match num with
  | xH => do h1 <- gf_mul_assign p h inn; gf_rem p h1 m
  | xO n' => do s <- gf_sqr p inn; do inn' <- gf_mod p s m; pow_mod_loop p m n' inn' h
  | xI n' =>
      do h1 <- gf_mul_assign p h inn; do h2 <- gf_rem p h1 m;
      do s <- gf_sqr p inn; do inn' <- gf_mod p s m; pow_mod_loop p m n' inn' h2
  end.

Definition gf_pow_mod (p : Z) (m f : gf) (n : N) : res gf :=
  match n with
  | N0 => Ok (from_vec [1] p)
  | Npos 1 => gf_mod p f m
  | Npos 2 => do s <- gf_sqr p f; gf_mod p s m
  | Npos num => pow_mod_loop p m num f (from_vec [1] p)
  end.

(* ---------- monic, gcd, lcm ---------- *)
(* gf_monic(res, monic): (leading coefficient, monic polynomial); no strip *)
Definition gf_monic (p : Z) (f : gf) : Z * gf :=
  match f with
  | [] => (0, f)
  | _ =>
      let lc := last f 0 in
      if lc =? 1 then (lc, f)
      else let inv := zinvert lc p in (lc, map (fun x => (inv * x) mod p) f)
  end.

(* while (not g.dict_.empty()) { f %= g; f.dict_.swap(g.dict_); } *)
Fixpoint gcd_loop (p : Z) (fuel : nat) (f g : gf) : res gf :=
  match g with
  | [] => Ok f
  | _ =>
      match fuel with
      | O => ErrFuel
      | S k => do r <- gf_rem p f g; gcd_loop p k g r
      end
  end.

Definition gf_gcd (p : Z) (f g : gf) : res gf :=
  do d <- gcd_loop p (S (length g)) f g;
  Ok (snd (gf_monic p d)).

Definition gf_lcm (p : Z) (f o : gf) : res gf :=
  match f with
  | [] => Ok f
  | _ =>
      match o with
      | [] => Ok o
      | _ =>
          do out <- gf_mul p o f;
          do d <- gf_gcd p f o;
          do q <- gf_quo p out d;
          Ok (snd (gf_monic p q))
      end
  end.

(* ---------- derivative, evaluation ---------- *)
(* for (i = 1; i <= df; i++) if (dict_[i] != 0) out[i-1] = (i * dict_[i]) mod p;  (out starts as zeros) *)
Fixpoint diff_loop (p : Z) (i : Z) (l : list Z) : list Z :=
  match l with
  | [] => []
  | c :: r => (if c =? 0 then 0 else (i * c) mod p) :: diff_loop p (i + 1) r
  end.

Definition gf_diff (p : Z) (f : gf) : gf := istrip (diff_loop p 1 (tl f)).

(* for (rit = rbegin; ...) { res *= a; res += *rit; mp_fdiv_r(res, res, modulo_); } *)
Definition gf_eval (p : Z) (f : gf) (a : Z) : Z :=
  fold_right (fun c r => (r * a + c) mod p) 0 f.

Definition gf_multi_eval (p : Z) (f : gf) (v : list Z) : list Z := map (gf_eval p f) v.

(* ---------- composition modulo this ---------- *)
(* out = from_vec({g.back()}); for (i = size-2; ; --i) { out *= h; out += g[i]; out %= this; if (i == 0) break; } *)
Definition compose_step (p : Z) (m h : gf) (acc : res gf) (gi : Z) : res gf :=
  do out <- acc;
  do o1 <- gf_mul_assign p out h;
  gf_rem p (gf_add_int p o1 gi) m.

Definition gf_compose_mod (p : Z) (m g h : gf) : res gf :=
  match rev g with
  | [] => Ok g
  | top :: rest => fold_left (compose_step p m h) rest (Ok (from_vec [top] p))
  end.

(* ---------- square-free ---------- *)
Definition gf_is_sqf (p : Z) (f : gf) : res bool :=
  match f with
  | [] => Ok true
  | _ =>
      let monic := snd (gf_monic p f) in
      do g <- gf_gcd p monic (gf_diff p monic);
      Ok (is_one g)
  end.

(* while (not h.is_one()) { G = h.gf_gcd(g); H = h / G; if (H.degree() > 0) push {H, i*n}; ++i; g /= G; h = G; } *)
Fixpoint sqf_inner (p : Z) (fuel : nat) (n i : N) (g h : gf) (acc : list (gf * N))
  : res (gf * list (gf * N)) :=
  if is_one h then Ok (g, acc)
  else
    match fuel with
    | O => ErrFuel
    | S k =>
        do G <- gf_gcd p h g;
        do H <- gf_quo p h G;
        let acc' := if (0 <? degree H)%nat then acc ++ [(H, (i * n)%N)] else acc in
        do g' <- gf_quo p g G;
        sqf_inner p k n (i + 1)%N g' G acc'
    end.

(* f.dict_[d - i] = temp.dict_[deg - i * r] for i = 0..d; resize(d + 1); strip *)
Definition pth_root (f : gf) (r : N) : res gf :=
  let deg := degree f in
  let d := N.to_nat (N.of_nat deg / r) in
  do l <- mapM (fun k => vget f (deg - N.to_nat (N.of_nat (d - k) * r))) (seq O (d + 1));
  Ok (istrip l).

Fixpoint sqf_outer (p : Z) (fuel : nat) (n : N) (r : N) (f : gf) (acc : list (gf * N))
  : res (list (gf * N)) :=
  match fuel with
  | O => ErrFuel
  | S k =>
      let F := gf_diff p f in
      do '(sqf, f1, acc1) <-
        (match F with
         | [] => Ok (false, f, acc)
         | _ =>
             do g <- gf_gcd p f F;
             do h <- gf_quo p f g;
             do '(g', acc') <- sqf_inner p (length g + 2) n 1%N g h acc;
             if is_one g' then Ok (true, f, acc') else Ok (false, g', acc')
         end);
      if sqf then Ok acc1
      else
        if (r =? 0)%N then ErrExn EXN_DIVZERO      (* deg / r *)
        else do f2 <- pth_root f1 r; sqf_outer p k (n * r)%N r f2 acc1
  end.

Definition gf_sqf_list (p : Z) (f : gf) : res (list (gf * N)) :=
  if (degree f <? 1)%nat then Ok []
  else sqf_outer p (S (length f)) 1%N (Z.to_N (cast_unsigned (mp_get_ui p))) (snd (gf_monic p f)) [].

Definition gf_sqf_part (p : Z) (f : gf) : res gf :=
  do l <- gf_sqf_list p f;
  fold_left (fun acc fe => do g <- acc; gf_mul_assign p g (fst fe)) l (Ok (from_vec [1] p)).

(* ---------- Frobenius maps ---------- *)
(* this->gf_frobenius_monomial_base() *)
Fixpoint frob_base_small (p : Z) (f : gf) (cnt : nat) (prev : gf) : res (list gf) :=
  match cnt with
  | O => Ok []
  | S c =>
      do bi <- gf_rem p (gf_lshift p prev (Z.to_nat (mp_get_ui p))) f;
      do rest <- frob_base_small p f c bi; Ok (bi :: rest)
  end.

Fixpoint frob_base_big (p : Z) (f : gf) (cnt : nat) (b1 prev : gf) : res (list gf) :=
  match cnt with
  | O => Ok []
  | S c =>
      do t <- gf_mul p prev b1;
      do bi <- gf_rem p t f;
      do rest <- frob_base_big p f c b1 bi; Ok (bi :: rest)
  end.

Definition gf_frobenius_monomial_base (p : Z) (f : gf) : res (list gf) :=
  let n := degree f in
  if (n =? 0)%nat then Ok []
  else
    let b0 := from_vec [1] p in
    if mp_get_ui p <? Z.of_nat n then
      do rest <- frob_base_small p f (n - 1) b0; Ok (b0 :: rest)
    else if (1 <? n)%nat then
      do b1 <- gf_pow_mod p f (from_vec [0; 1] p) (Z.to_N (mp_get_ui p));
      do rest <- frob_base_big p f (n - 2) b1 b1; Ok (b0 :: b1 :: rest)
    else Ok (b0 :: repeat [] (n - 1)).

(* this->gf_frobenius_map(g, b)  = this**p % g, from the base b of g *)
Fixpoint frob_map_loop (p : Z) (b : list gf) (i : nat) (cs : list Z) (out : gf) : res gf :=
  match cs with
  | [] => Ok out
  | c :: cs' =>
      do v <- vget b i;
      frob_map_loop p b (S i) cs' (gf_add p out (gf_mul_int p v c))
  end.

Definition gf_frobenius_map (p : Z) (f g : gf) (b : list gf) : res gf :=
  let m := degree g in
  do temp <- (if (m <=? degree f)%nat then gf_rem p f g else Ok f);
  match temp with
  | [] => Ok temp
  | t0 :: ts =>
      do out <- frob_map_loop p b 1 ts (from_vec [t0] p);
      Ok (istrip out)
  end.

(* ---------- distinct degree factorisation (Zassenhaus) ---------- *)
(* while (2 * i <= f.degree()) { g = g.frobenius_map(f, b); h = f.gcd(g - x); if (!h.is_one()) {...} ++i; } *)
Fixpoint ddf_z_loop (p : Z) (fuel : nat) (i : nat) (f g : gf) (b : list gf) (acc : list (gf * nat))
  : res (list (gf * nat)) :=
  if (2 * i <=? degree f)%nat then
    match fuel with
    | O => ErrFuel
    | S k =>
        do g1 <- gf_frobenius_map p g f b;
        do h <- gf_gcd p f (gf_sub p g1 (from_vec [0; 1] p));
        if is_one h then ddf_z_loop p k (S i) f g1 b acc
        else
          do f' <- gf_quo p f h;
          do g2 <- gf_rem p g1 f';
          do b' <- gf_frobenius_monomial_base p f';
          ddf_z_loop p k (S i) f' g2 b' (acc ++ [(h, i)])
    end
  else
    Ok (if is_one f || (match f with [] => true | _ => false end) then acc
        else acc ++ [(f, degree f)]).

Definition gf_ddf_zassenhaus (p : Z) (f : gf) : res (list (gf * nat)) :=
  do b <- gf_frobenius_monomial_base p f;
  ddf_z_loop p (S (length f)) 1 f (from_vec [0; 1] p) b [].

(* ---------- std::set<GaloisFieldDict, DictLess> ---------- *)
(* std::vector<integer_class>::operator< : lexicographic from index 0 *)
Fixpoint lex_lt (a b : list Z) : bool :=
  match a, b with
  | [], [] => false
  | [], _ => true
  | _, [] => false
  | x :: a', y :: b' => if x <? y then true else if y <? x then false else lex_lt a' b'
  end.

Definition dict_less (a b : gf) : bool :=
  if (degree a =? degree b)%nat then lex_lt a b else (degree a <? degree b)%nat.

Fixpoint set_insert (x : gf) (s : list gf) : list gf :=
  match s with
  | [] => [x]
  | y :: r =>
      if dict_less x y then x :: s
      else if dict_less y x then y :: set_insert x r
      else s
  end.

Definition set_union (s t : list gf) : list gf := fold_left (fun acc x => set_insert x acc) t s.

(* ---------- equal degree factorisation (Zassenhaus) ---------- *)
(* gf_random(n_val, state): n_val draws, then the leading 1 *)
Definition gf_random (p : Z) (n_val : nat) (stream : list Z) : res (gf * list Z) :=
  if (length stream <? n_val)%nat then ErrExn EXN_STREAM
  else Ok (from_vec (firstn n_val stream ++ [1]) p, skipn n_val stream).

(* _gf_pow_pnm1d2(f, n, b) on `this` = m *)
Fixpoint pnm1d2_loop (p : Z) (m : gf) (b : list gf) (cnt : nat) (h r : gf) : res gf :=
  match cnt with
  | O => Ok r
  | S c =>
      do h' <- gf_frobenius_map p h m b;
      do r1 <- gf_mul_assign p r h';
      do r2 <- gf_rem p r1 m;
      pnm1d2_loop p m b c h' r2
  end.

Definition gf_pow_pnm1d2 (p : Z) (m f : gf) (n : nat) (b : list gf) : res gf :=
  do f_in <- gf_rem p f m;
  do r <- pnm1d2_loop p m b (n - 1) f_in f_in;
  gf_pow_mod p m r (Z.to_N ((mp_get_ui p - 1) / 2)).

(* for (i = 0; i < ub; ++i) { r = gf_pow_mod(r, 2); h += r; } *)
Fixpoint trace2_loop (p : Z) (m : gf) (cnt : nat) (r h : gf) : res gf :=
  match cnt with
  | O => Ok h
  | S c => do r' <- gf_pow_mod p m r 2; trace2_loop p m c r' (gf_add p h r')
  end.

(* state of the random source: the streams of the mp_randstate objects still to be constructed *)
Definition rstate := list (list Z).

Fixpoint edf_z (p : Z) (fuel : nat) (n : nat) (f : gf) (rs : rstate) : res (list gf * rstate) :=
  match fuel with
  | O => ErrFuel
  | S k =>
      if (degree f <=? n)%nat then Ok ([f], rs)
      else if (n =? 0)%nat then ErrExn EXN_DIVZERO           (* degree / n *)
      else
        let N_ := (degree f / n)%nat in
        do b <- (if p =? 2 then Ok [] else gf_frobenius_monomial_base p f);
        match rs with
        | [] => ErrExn EXN_STREAM
        | stream :: rs0 =>
            (* while (factors.size() < N) *)
            (fix loop (fuel2 : nat) (factors : list gf) (stream : list Z) (rs : rstate)
               : res (list gf * rstate) :=
               if (length factors <? N_)%nat then
                 match fuel2 with
                 | O => ErrExn EXN_STREAM
                 | S k2 =>
                     do '(r, stream') <- gf_random p (2 * n - 1) stream;
                     do g <- (if p =? 2 then
                                do h <- trace2_loop p f (Nat.pow 2 (n * N_ - 1)) r r;
                                gf_gcd p f h
                              else
                                do h <- gf_pow_pnm1d2 p f r n b;
                                gf_gcd p f (gf_sub_int p h 1));
                     if negb (is_one g) && negb (gf_eqb g f) then
                       do '(fs1, rs1) <- edf_z p k n g rs;
                       do q <- gf_quo p f g;
                       do '(fs2, rs2) <- edf_z p k n q rs1;
                       loop k2 (set_union fs1 fs2) stream' rs2
                     else loop k2 factors stream' rs
                 end
               else Ok (factors, rs)) (length stream) [f] stream rs0
        end
  end.

Definition gf_edf_zassenhaus (p : Z) (f : gf) (n : nat) (rs : rstate) : res (list gf * rstate) :=
  edf_z p (S (length f)) n f rs.

(* gf_zassenhaus: union of the equal-degree factorisations of the distinct-degree parts *)
Definition gf_zassenhaus (p : Z) (f : gf) (rs : rstate) : res (list gf * rstate) :=
  do ddf <- gf_ddf_zassenhaus p f;
  fold_left (fun acc fn =>
               do '(factors, rs) <- acc;
               do '(fs, rs') <- gf_edf_zassenhaus p (fst fn) (snd fn) rs;
               Ok (set_union factors fs, rs'))
            ddf (Ok ([], rs)).

(* std::set<std::pair<GaloisFieldDict, unsigned>, DictLess>: ordered and deduplicated on .first *)
Fixpoint pset_insert (x : gf * N) (s : list (gf * N)) : list (gf * N) :=
  match s with
  | [] => [x]
  | y :: r =>
      if dict_less (fst x) (fst y) then x :: s
      else if dict_less (fst y) (fst x) then y :: pset_insert x r
      else s
  end.

Definition gf_factor (p : Z) (f : gf) (rs : rstate) : res (Z * list (gf * N)) :=
  let '(lc, monic) := gf_monic p f in
  if (degree monic <? 1)%nat then Ok (lc, [])
  else
    do sqf <- gf_sqf_list p monic;
    do '(factors, _) <-
      fold_left (fun acc ae =>
                   do '(factors, rs) <- acc;
                   do '(fs, rs') <- gf_zassenhaus p (fst ae) rs;
                   Ok (fold_left (fun s f => pset_insert (f, snd ae) s) fs factors, rs'))
                sqf (Ok ([], rs));
    Ok (lc, factors).

(* ---------- Shoup's algorithms ---------- *)
(* this->gf_trace_map(a, b, c, n); [f] is `this` *)
Fixpoint trace_loop (p : Z) (f : gf) (num : positive) (u v U V : gf) : res (gf * gf) :=
  do cu <- gf_compose_mod p f u v;
  let u' := gf_add p u cu in
  do v' <- gf_compose_mod p f v v;
  let bit := match num with xO _ => false | _ => true end in
  do '(U', V') <-
    (if bit then
       do t <- gf_compose_mod p f u' V;
       do V2 <- gf_compose_mod p f v' V;
       Ok (gf_add p U t, V2)
     else Ok (U, V));
  match num with
  | xH => Ok (U', V')
  | xO n' => trace_loop p f n' u' v' U' V'
  | xI n' => trace_loop p f n' u' v' U' V'
  end.

Definition gf_trace_map (p : Z) (f a b c : gf) (n : N) : res (gf * gf) :=
  do u <- gf_compose_mod p f a b;
  let '(U, V) := if N.odd n then (gf_add p a u, b) else (a, c) in
  do '(U', V') <-
    (match N.div2 n with
     | N0 => Ok (U, V)
     | Npos num => trace_loop p f num u b U V
     end);
  do r <- gf_compose_mod p f a V';
  Ok (r, U').

(* the trace loop of gf_edf_shoup (odd p): rp = rp.gf_frobenius_map(this, b); H += rp; H %= this *)
Fixpoint edf_trace_loop (p : Z) (f : gf) (b : list gf) (cnt : nat) (rp H : gf) : res gf :=
  match cnt with
  | O => Ok H
  | S c =>
      do rp' <- gf_frobenius_map p rp f b;
      do H' <- gf_rem p (gf_add p H rp') f;
      edf_trace_loop p f b c rp' H'
  end.

(* this->_gf_trace_map(ff, n, b): note `h = gf_frobenius_map(h, b)` is this->gf_frobenius_map(h, b),
   i.e. this**p % h computed from the base b, and h, r start from the unreduced ff (transcribed
   as written; the repository's test suite pins this behaviour; since a432cd9 gf_edf_shoup no
   longer calls it) *)
Fixpoint trace_map_loop (p : Z) (f : gf) (b : list gf) (cnt : nat) (h r : gf) : res gf :=
  match cnt with
  | O => Ok r
  | S c =>
      do h' <- gf_frobenius_map p f h b;
      do r' <- gf_rem p (gf_add p r h') f;
      trace_map_loop p f b c h' r'
  end.

Definition gf_trace_map_ (p : Z) (f ff : gf) (n : nat) (b : list gf) : res gf :=
  do _x <- gf_rem p ff f;
  trace_map_loop p f b (n - 1) ff ff.

(* U[i] = U[i-1].gf_frobenius_map(this, b) *)
Fixpoint shoup_U (p : Z) (f : gf) (b : list gf) (cnt : nat) (prev : gf) : res (list gf) :=
  match cnt with
  | O => Ok []
  | S c => do u <- gf_frobenius_map p prev f b; do rest <- shoup_U p f b c u; Ok (u :: rest)
  end.

(* V[i] = this->gf_compose_mod(V[i-1], h) *)
Fixpoint shoup_V (p : Z) (f h : gf) (cnt : nat) (prev : gf) : res (list gf) :=
  match cnt with
  | O => Ok []
  | S c => do v <- gf_compose_mod p f prev h; do rest <- shoup_V p f h c v; Ok (v :: rest)
  end.

(* for (auto &u : U) { g = V[i] - u; h *= g; h %= f; } *)
Fixpoint shoup_prod (p : Z) (f vi : gf) (us : list gf) (h : gf) : res gf :=
  match us with
  | [] => Ok h
  | u :: us' =>
      do h1 <- gf_mul_assign p h (gf_sub p vi u);
      do h2 <- gf_rem p h1 f;
      shoup_prod p f vi us' h2
  end.

(* for (rit = U.rbegin(); ...) { h = V[i] - *rit; F = g.gcd(h); if (!F.is_one()) push {F, k*(i+1) - j}; g /= F; --j; }
   [j1] = j + 1 *)
Fixpoint shoup_split (p : Z) (vi : gf) (k i : nat) (rus : list gf) (j1 : nat) (g : gf)
         (acc : list (gf * nat)) : res (list (gf * nat)) :=
  match rus with
  | [] => Ok acc
  | u :: rus' =>
      do F <- gf_gcd p g (gf_sub p vi u);
      let acc' := if is_one F then acc else acc ++ [(F, k * (i + 1) - (j1 - 1))%nat] in
      do g' <- gf_quo p g F;
      shoup_split p vi k i rus' (j1 - 1) g' acc'
  end.

Fixpoint shoup_main (p : Z) (k : nat) (U : list gf) (vs : list gf) (i : nat) (f : gf)
         (acc : list (gf * nat)) : res (gf * list (gf * nat)) :=
  match vs with
  | [] => Ok (f, acc)
  | vi :: vs' =>
      do h <- shoup_prod p f vi U (from_vec [1] p);
      do g <- gf_gcd p f h;
      do f' <- gf_quo p f g;
      do acc' <- shoup_split p vi k i (rev U) k g acc;
      shoup_main p k U vs' (S i) f' acc'
  end.

Definition gf_ddf_shoup (p : Z) (f0 : gf) : res (list (gf * nat)) :=
  match f0 with
  | [] => Ok []
  | _ =>
      let n := degree f0 in
      let k := Nat.sqrt_up (n / 2) in            (* ceil(sqrt(n / 2)), n / 2 on unsigned *)
      do b <- gf_frobenius_monomial_base p f0;
      let x := from_vec [0; 1] p in
      do h <- gf_frobenius_map p x f0 b;
      do more <- shoup_U p f0 b (k - 1) h;
      let Ufull := firstn (k + 1) (x :: h :: more) in
      do hk <- vget Ufull k;
      let U := firstn k Ufull in
      do vmore <- shoup_V p f0 hk (k - 1) hk;
      let V := firstn k (hk :: vmore) in
      do '(f, factors) <- shoup_main p k U V O f0 [];
      Ok (if is_one f then factors else factors ++ [(f, degree f)])
  end.

Fixpoint edf_s (p : Z) (fuel : nat) (n : nat) (f : gf) (rs : rstate) : res (list gf * rstate) :=
  match fuel with
  | O => ErrFuel
  | S k =>
      let N_ := degree f in
      if (N_ <=? n)%nat then Ok ((if (N_ =? 0)%nat then [] else [f]), rs)
      else
        match rs with
        | [] => ErrExn EXN_STREAM
        | stream :: rs0 =>
            do '(r, _) <- gf_random p (N_ - 1) stream;
            let x := from_vec [0; 1] p in
            if p =? 2 then
              do h <- gf_pow_mod p f x (Z.to_N (mp_get_ui p));
              do '(_, H) <- gf_trace_map p f r h x (N.of_nat (n - 1));
              do h1 <- gf_gcd p f H;
              do h2 <- gf_quo p f h1;
              do '(fs1, rs1) <- edf_s p k n h1 rs0;
              do '(fs2, rs2) <- edf_s p k n h2 rs1;
              Ok (set_union fs1 fs2, rs2)
            else
              do b <- gf_frobenius_monomial_base p f;
              (* H = r % this; rp = H; for (i = 1; i < n; ++i) { rp = rp.gf_frobenius_map(this, b); H += rp; H %= this; }
                 (inline trace, a432cd9; the member _gf_trace_map is no longer called here) *)
              do H0 <- gf_rem p r f;
              do H <- edf_trace_loop p f b (n - 1) H0 H0;
              do h <- gf_pow_mod p f H (Z.to_N ((mp_get_ui p - 1) / 2));
              do h1 <- gf_gcd p f h;
              do h2 <- gf_gcd p f (gf_sub_int p h 1);
              do h12 <- gf_mul p h1 h2;
              do h3 <- gf_quo p f h12;
              do '(fs1, rs1) <- edf_s p k n h1 rs0;
              do '(fs2, rs2) <- edf_s p k n h2 rs1;
              do '(fs3, rs3) <- edf_s p k n h3 rs2;
              Ok (set_union (set_union fs1 fs2) fs3, rs3)
        end
  end.

(* the recursion of gf_edf_shoup has no bound in the C++ (a split may fail and is then retried
   on the same polynomial with a new generator); the model gives up after [edf_s_fuel] levels *)
Definition edf_s_fuel : nat := 200.

Definition gf_edf_shoup (p : Z) (f : gf) (n : nat) (rs : rstate) : res (list gf * rstate) :=
  edf_s p edf_s_fuel n f rs.

Definition gf_shoup (p : Z) (f : gf) (rs : rstate) : res (list gf * rstate) :=
  do ddf <- gf_ddf_shoup p f;
  fold_left (fun acc fn =>
               do '(factors, rs) <- acc;
               do '(fs, rs') <- gf_edf_shoup p (fst fn) (snd fn) rs;
               Ok (set_union factors fs, rs'))
            ddf (Ok ([], rs)).
