(* C23 obligation: operator/=(polynomial): returns the quotient of the division with remainder (its own loop, rounds it >= deg g only). *)
From SE Require Import C23.GFSpec C23.GFProofs.
Local Open Scope Z_scope.
Theorem C23_quo_spec :
  forall (p : Z) (f g : gf), prime p -> wf p f -> wf p g -> g <> [] ->
    exists q r, gf_quo p f g = Ok q /\ wf p q /\ wf p r /\
      peqm p f (padd (pmul q g) r) /\ (length r < length g)%nat.
Proof. exact gf_quo_spec. Qed.
Print Assumptions C23_quo_spec.
