(* C23 -- specification side, part 1: schoolbook polynomials over Z as coefficient
   lists (low degree first; trailing zeros allowed) and equality in (Z/p)[x].
   Nothing here refers to the model. *)
From Coq Require Export List ZArith.
Export ListNotations.
Local Open Scope Z_scope.

Definition coef (f : list Z) (k : nat) : Z := nth k f 0.

Fixpoint padd (a b : list Z) : list Z :=
  match a, b with
  | [], _ => b
  | _, [] => a
  | x :: a', y :: b' => (x + y) :: padd a' b'
  end.

Definition pscale (c : Z) (a : list Z) : list Z := map (Z.mul c) a.
Definition popp (a : list Z) : list Z := pscale (-1) a.
Definition psub (a b : list Z) : list Z := padd a (popp b).

(* (x + X a') * b = x*b + X (a' * b) *)
Fixpoint pmul (a b : list Z) : list Z :=
  match a with
  | [] => []
  | x :: a' => padd (pscale x b) (0 :: pmul a' b)
  end.

Definition pshift (n : nat) (a : list Z) : list Z := repeat 0 n ++ a.   (* X^n * a *)

Fixpoint ppow (a : list Z) (n : nat) : list Z :=
  match n with O => [1] | S n' => pmul a (ppow a n') end.

(* value at x (Horner) *)
Definition peval (a : list Z) (x : Z) : Z := fold_right (fun c acc => c + x * acc) 0 a.

(* formal derivative *)
Fixpoint pdiff_from (i : Z) (a : list Z) : list Z :=
  match a with [] => [] | c :: a' => i * c :: pdiff_from (i + 1) a' end.
Definition pdiff (a : list Z) : list Z := pdiff_from 1 (tl a).

(* composition g(h) *)
Fixpoint pcomp (g h : list Z) : list Z :=
  match g with [] => [] | c :: g' => padd [c] (pmul h (pcomp g' h)) end.

(* product of a list of polynomials *)
Definition pprod (l : list (list Z)) : list Z := fold_right pmul [1] l.

(* equality as polynomials over Z, and as polynomials over Z/p *)
Definition peq (a b : list Z) : Prop := forall k, coef a k = coef b k.
Definition peqm (p : Z) (a b : list Z) : Prop := forall k, coef a k mod p = coef b k mod p.

(* divisibility and congruence modulo a polynomial, in (Z/p)[x] *)
Definition pdvd (p : Z) (d f : list Z) : Prop := exists q, peqm p f (pmul d q).
Definition pcong (p : Z) (m a b : list Z) : Prop := pdvd p m (psub a b).

(* sum_{j < n} F j *)
Fixpoint zsum (n : nat) (F : nat -> Z) : Z :=
  match n with O => 0 | S n' => zsum n' F + F n' end.

(* canonical representatives: coefficients in [0,p), no trailing zero *)
Definition reduced (p : Z) (f : list Z) : Prop := Forall (fun c => 0 <= c < p) f.
Definition stripped (f : list Z) : Prop := last f 1 <> 0.
Definition wf (p : Z) (f : list Z) : Prop := reduced p f /\ stripped f.
Definition monic (f : list Z) : Prop := last f 0 = 1.
