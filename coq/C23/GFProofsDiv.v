(* C23 -- proofs, part 2: division with remainder (gf_div, operator/=, operator%=). *)
From SE Require Import C23.GFSpec C23.GFPolyLemmas C23.GFArith C23.GFProofsRing.
From Coq Require Import Lia ZifyBool ZifyNat Setoid Morphisms.
Local Open Scope Z_scope.
Local Arguments Z.mul : simpl never.
Local Arguments Z.add : simpl never.
Local Arguments Z.modulo : simpl never.
Local Arguments Z.sub : simpl never.

(* ---------- list facts ---------- *)
Lemma coef_skipn m : forall (l : list Z) i, coef (skipn m l) i = coef l (m + i).
Proof.
  induction m as [|m IH]; intros l i; [reflexivity|].
  destruct l as [|x l]; [cbn [skipn]; rewrite !coef_nil; reflexivity|].
  cbn [skipn]. rewrite IH. cbn [Nat.add]. rewrite coef_cons_S. reflexivity.
Qed.

Lemma coef_firstn m : forall (l : list Z) i,
  coef (firstn m l) i = if (i <? m)%nat then coef l i else 0.
Proof.
  induction m as [|m IH]; intros l i.
  - cbn [firstn]. rewrite coef_nil. reflexivity.
  - destruct l as [|x l].
    + cbn [firstn]. rewrite !coef_nil. destruct (i <? S m)%nat; reflexivity.
    + cbn [firstn]. destruct i as [|i]; [reflexivity|].
      rewrite !coef_cons_S, IH. reflexivity.
Qed.

Lemma reduced_of_coef p (l : list Z) :
  (forall k, (k < length l)%nat -> 0 <= coef l k < p) -> reduced p l.
Proof.
  induction l as [|x l IH]; intros H; [apply reduced_nil|].
  apply reduced_cons. split.
  - apply (H O). cbn; lia.
  - apply IH. intros k Hk. specialize (H (S k)). rewrite coef_cons_S in H. apply H. cbn; lia.
Qed.

Lemma reduced_firstn p n (l : list Z) : reduced p l -> reduced p (firstn n l).
Proof.
  unfold reduced. intros H. rewrite <- (firstn_skipn n l) in H. apply Forall_app in H. tauto.
Qed.

Lemma reduced_skipn p n (l : list Z) : reduced p l -> reduced p (skipn n l).
Proof.
  unfold reduced. intros H. rewrite <- (firstn_skipn n l) in H. apply Forall_app in H. tauto.
Qed.

Lemma zsum_window n lb cnt F : (lb + cnt <= n)%nat ->
  (forall j, (j < n)%nat -> (j < lb \/ lb + cnt <= j)%nat -> F j = 0) ->
  zsum n F = zsum cnt (fun t => F (lb + t)%nat).
Proof.
  intros Hle H0.
  replace n with (lb + (cnt + (n - lb - cnt)))%nat by lia.
  rewrite zsum_split, zsum_split.
  rewrite (zsum_0 lb) by (intros j Hj; apply H0; lia).
  rewrite (zsum_0 (n - lb - cnt)) by (intros j Hj; apply H0; lia).
  lia.
Qed.

(* ---------- the division loops ---------- *)
Section DivLoop.
Variables (p inv : Z) (g f : list Z) (m n : nat).
Hypothesis Hp : 0 < p.
Hypothesis Hg : length g = S m.
Hypothesis Hf : length f = S n.
Hypothesis Hmn : (m <= n)%nat.

Definition lbd (it : nat) : nat := if (n <? m + it)%nat then (m + it - n)%nat else O.
Definition ubd (it : nat) : nat := Nat.min (it + 1) m.

(* the inner sum, over a coefficient function *)
Definition isum (o : nat -> Z) (it : nat) : Z :=
  zsum (ubd it - lbd it) (fun t => o (it - (lbd it + t) + m)%nat * coef g (lbd it + t)).

Definition target (o : nat -> Z) (it : nat) : Z :=
  (if (m <=? it)%nat then (coef f it - isum o it) * inv else coef f it - isum o it) mod p.

(* entries >= it are final, entries < it still hold the dividend *)
Definition inv_at (out : list Z) (it : nat) : Prop :=
  length out = S n /\
  (forall k, (k < it)%nat -> coef out k = coef f k) /\
  (forall k, (it <= k <= n)%nat -> coef out k = target (coef out) k).

Lemma div_bounds_eq it : div_bounds it m n = (lbd it, ubd it).
Proof. reflexivity. Qed.

Lemma div_inner_spec out it : forall cnt j coeff,
  (j + cnt <= it + 1)%nat -> (cnt = O \/ it - j + m < length out)%nat -> (j + cnt <= length g)%nat ->
  div_inner out g it m cnt j coeff =
  Ok (coeff - zsum cnt (fun t => coef out (it - (j + t) + m) * coef g (j + t))).
Proof.
  induction cnt as [|cnt IH]; intros j coeff H1 H2 H3.
  - cbn [div_inner zsum]. f_equal. lia.
  - cbn [div_inner].
    assert (X : (it <? j)%nat = false) by (apply Nat.ltb_ge; lia). rewrite X.
    rewrite vget_ok by lia. cbn [bind]. rewrite vget_ok by lia. cbn [bind].
    rewrite IH by lia. f_equal. rewrite zsum_S_l.
    rewrite Nat.add_0_r.
    rewrite (zsum_ext cnt (fun t => coef out (it - (j + S t) + m) * coef g (j + S t))
                          (fun t => coef out (it - (S j + t) + m) * coef g (S j + t))).
    + lia.
    + intros t _. replace (j + S t)%nat with (S j + t)%nat by lia. reflexivity.
Qed.

Lemma lbd_le it : (it <= n)%nat -> (lbd it <= it /\ lbd it <= m)%nat.
Proof. intros H. unfold lbd. destruct (n <? m + it)%nat eqn:E; lia. Qed.

Lemma isum_ext o o' it : (it <= n)%nat -> (forall i, (it < i)%nat -> o i = o' i) -> isum o it = isum o' it.
Proof.
  intros Hit H. unfold isum. apply zsum_ext. intros t Ht.
  pose proof (lbd_le it Hit). unfold ubd in Ht.
  rewrite H by lia. reflexivity.
Qed.

Lemma target_ext o o' it : (it <= n)%nat -> (forall i, (it < i)%nat -> o i = o' i) -> target o it = target o' it.
Proof. intros Hit H. unfold target. rewrite (isum_ext o o' it Hit H). reflexivity. Qed.

Lemma div_step_spec out it : (it <= n)%nat -> inv_at out (S it) ->
  exists out', div_step p inv g m n out it = Ok out' /\ inv_at out' it.
Proof.
  intros Hit (HL & Hlow & Hhigh). unfold div_step.
  rewrite vget_ok by lia. cbn [bind]. rewrite div_bounds_eq.
  pose proof (lbd_le it Hit) as [L1 L2].
  rewrite div_inner_spec.
  2:{ unfold ubd. lia. }
  2:{ unfold lbd, ubd. destruct (n <? m + it)%nat eqn:E; lia. }
  2:{ unfold ubd. lia. }
  cbn [bind]. rewrite vset_ok by lia.
  eexists. split; [reflexivity|].
  split; [rewrite vupd_length; exact HL|]. split.
  - intros k Hk. rewrite coef_vupd by lia.
    assert (X : (k =? it)%nat = false) by (apply Nat.eqb_neq; lia). rewrite X. apply Hlow. lia.
  - intros k Hk. rewrite coef_vupd by lia.
    destruct (k =? it)%nat eqn:E.
    + apply Nat.eqb_eq in E. subst k.
      rewrite (target_ext _ (coef out) it Hit).
      2:{ intros i Hi. rewrite coef_vupd by lia.
          assert (X : (i =? it)%nat = false) by (apply Nat.eqb_neq; lia). rewrite X. reflexivity. }
      unfold target, isum. rewrite (Hlow it) by lia. reflexivity.
    + apply Nat.eqb_neq in E. rewrite (Hhigh k) by lia.
      apply target_ext; [lia|]. intros i Hi. rewrite coef_vupd by lia.
      assert (X : (i =? it)%nat = false) by (apply Nat.eqb_neq; lia). rewrite X. reflexivity.
Qed.

Lemma div_outer_spec : forall k stop out, (stop + k <= S n)%nat -> inv_at out (stop + k) ->
  exists out', div_outer p inv g m n k stop out = Ok out' /\ inv_at out' stop.
Proof.
  induction k as [|k IH]; intros stop out Hk Hinv.
  - exists out. rewrite Nat.add_0_r in Hinv. split; [reflexivity|exact Hinv].
  - cbn [div_outer].
    destruct (div_step_spec out (stop + k)) as (out1 & E1 & I1); [lia| |].
    { replace (S (stop + k)) with (stop + S k)%nat by lia. exact Hinv. }
    rewrite E1. cbn [bind]. apply IH; [lia|exact I1].
Qed.

Lemma inv_at_init : inv_at f (S n).
Proof. split; [exact Hf|]. split; [reflexivity|]. intros k Hk. lia. Qed.

Lemma target_range o it : 0 <= target o it < p.
Proof. unfold target. apply Z.mod_pos_bound. exact Hp. Qed.

Lemma inv_at_reduced out it : inv_at out it ->
  forall k, (it <= k <= n)%nat -> 0 <= coef out k < p.
Proof. intros (_ & _ & H) k Hk. rewrite (H k Hk). apply target_range. Qed.

(* the loops split: rounds it >= stop + k2 first, then the k2 lower rounds *)
Lemma div_outer_split : forall k1 k2 stop out,
  div_outer p inv g m n (k1 + k2) stop out =
  bind (div_outer p inv g m n k1 (stop + k2) out) (fun out' => div_outer p inv g m n k2 stop out').
Proof.
  clear Hp Hg Hf Hmn. induction k1 as [|k1 IH]; intros k2 stop out.
  - reflexivity.
  - cbn [Nat.add div_outer]. replace (stop + k2 + k1)%nat with (stop + (k1 + k2))%nat by lia.
    destruct (div_step p inv g m n out (stop + (k1 + k2))) as [o1| | |]; cbn [bind]; try reflexivity.
    apply IH.
Qed.

(* rounds below m leave the entries from m on unchanged *)
Lemma div_step_low out it out' : (it < m)%nat -> div_step p inv g m n out it = Ok out' ->
  skipn m out' = skipn m out /\ length out' = length out.
Proof.
  clear Hp Hg Hf Hmn. intros Hit. unfold div_step.
  destruct (vget out it) as [c0| | |]; cbn [bind]; try discriminate.
  rewrite div_bounds_eq.
  destruct (div_inner out g it m (ubd it - lbd it) (lbd it) c0) as [c| | |]; cbn [bind]; try discriminate.
  unfold vset. destruct (it <? length out)%nat eqn:E; [|discriminate].
  intros H. inversion H; subst out'. clear H. split; [|apply vupd_length].
  clear E. revert it Hit out. clear. induction m as [|m' IH]; intros it Hit out; [lia|].
  destruct out as [|x out]; [destruct it; reflexivity|].
  destruct it as [|it]; [reflexivity|]. cbn [vupd skipn]. apply IH. lia.
Qed.

Lemma div_outer_low : forall k out out', (k <= m)%nat ->
  div_outer p inv g m n k O out = Ok out' -> skipn m out' = skipn m out.
Proof.
  clear Hp Hg Hf Hmn. induction k as [|k IH]; intros out out' Hk H.
  - cbn in H. inversion H. reflexivity.
  - cbn [div_outer Nat.add] in H.
    destruct (div_step p inv g m n out k) as [o1| | |] eqn:E; cbn [bind] in H; try discriminate.
    apply div_step_low in E; [|lia]. rewrite (IH o1 out' ltac:(lia) H). apply E.
Qed.

(* ---------- what the final array means ---------- *)
Hypothesis Hinv : (coef g m * inv) mod p = 1 mod p.

Lemma div_solution out : inv_at out O ->
  peqm p f (padd (pmul g (skipn m out)) (firstn m out)).
Proof.
  intros Hinv0. destruct Hinv0 as (HL & _ & Hhigh).
  intros k. rewrite coef_padd, coef_pmul, coef_firstn.
  (* the convolution sum, restricted to its support *)
  set (F := fun j => coef g j * coef (skipn m out) (k - j)).
  destruct (Nat.lt_ge_cases n k) as [Hk|Hk].
  { (* above the degree of f everything vanishes *)
    rewrite (coef_overflow f) by lia.
    rewrite zsum_0.
    - assert (X : (k <? m)%nat = false) by (apply Nat.ltb_ge; lia). rewrite X. reflexivity.
    - intros j Hj. subst F. cbn beta. rewrite coef_skipn.
      destruct (Nat.le_gt_cases j m).
      + rewrite (coef_overflow out) by lia. lia.
      + rewrite (coef_overflow g) by lia. lia. }
  pose proof (lbd_le k Hk) as [L1 L2].
  assert (Hwin : forall cnt, (lbd k + cnt <= S k)%nat ->
            (forall j, (j < S k)%nat -> (lbd k + cnt <= j)%nat -> F j = 0) ->
            zsum (S k) F = zsum cnt (fun t => coef out (k - (lbd k + t) + m) * coef g (lbd k + t))).
  { intros cnt Hc Hz. rewrite (zsum_window (S k) (lbd k) cnt F Hc).
    - apply zsum_ext. intros t Ht. subst F. cbn beta. rewrite coef_skipn.
      replace (m + (k - (lbd k + t)))%nat with (k - (lbd k + t) + m)%nat by lia. lia.
    - intros j Hj [Hlo|Hhi]; [|apply Hz; lia].
      subst F. cbn beta. rewrite coef_skipn. rewrite (coef_overflow out); [lia|].
      unfold lbd in Hlo. destruct (n <? m + k)%nat eqn:E; lia. }
  specialize (Hhigh k ltac:(lia)). unfold target, isum in Hhigh.
  destruct (m <=? k)%nat eqn:Emk.
  - (* quotient rows: g_m * out[k] = f_k - isum *)
    apply Nat.leb_le in Emk.
    assert (X : (k <? m)%nat = false) by (apply Nat.ltb_ge; lia). rewrite X.
    assert (Hub : ubd k = m) by (unfold ubd; lia).
    rewrite (Hwin (m - lbd k + 1)%nat).
    2:{ lia. }
    2:{ intros j Hj Hj2. subst F. cbn beta. rewrite (coef_overflow g) by lia. lia. }
    replace (m - lbd k + 1)%nat with (S (m - lbd k)) by lia. cbn [zsum].
    rewrite Hub in Hhigh.
    set (S0 := zsum (m - lbd k) (fun t => coef out (k - (lbd k + t) + m) * coef g (lbd k + t))) in *.
    replace (lbd k + (m - lbd k))%nat with m by lia.
    replace (k - m + m)%nat with k by lia.
    rewrite Hhigh.
    rewrite Z.add_0_r.
    rewrite Z.add_mod by lia. rewrite Z.mul_mod_idemp_l by lia.
    replace ((coef f k - S0) * inv * coef g m) with ((coef f k - S0) * (coef g m * inv)) by ring.
    rewrite <- Z.mul_mod_idemp_r by lia. rewrite Hinv. rewrite Z.mul_mod_idemp_r by lia.
    rewrite <- Z.add_mod by lia. f_equal. ring.
  - (* remainder rows: out[k] = f_k - isum *)
    apply Nat.leb_gt in Emk.
    assert (X : (k <? m)%nat = true) by (apply Nat.ltb_lt; lia). rewrite X.
    assert (Hub : ubd k = (k + 1)%nat) by (unfold ubd; lia).
    rewrite (Hwin (k + 1 - lbd k)%nat).
    2:{ lia. }
    2:{ intros j Hj Hj2. lia. }
    rewrite Hub in Hhigh.
    set (S0 := zsum (k + 1 - lbd k) (fun t => coef out (k - (lbd k + t) + m) * coef g (lbd k + t))) in *.
    rewrite Hhigh. rewrite Z.add_mod_idemp_r by lia. f_equal. ring.
Qed.

End DivLoop.

(* ---------- the three entry points ---------- *)
Lemma length_degree (f : list Z) : f <> [] -> length f = S (degree f).
Proof. destruct f; [congruence|reflexivity]. Qed.

Lemma lc_inverse p g : prime p -> wf p g -> g <> [] ->
  (coef g (degree g) * zinvert (last g 0) p) mod p = 1 mod p.
Proof.
  intros Hp Hg Hne. pose proof (prime_pos p Hp) as Hp0.
  destruct (wf_last_nonzero p g Hp0 Hg Hne) as [_ Hl].
  destruct (zinvert_spec' p (last g 0) Hp Hl) as [_ Hi].
  rewrite last_coef in *. unfold degree. replace (Nat.pred (length g)) with (length g - 1)%nat by lia.
  rewrite Hi. assert (1 < p) by (destruct Hp; lia). rewrite Z.mod_small; lia.
Qed.

(* the full loop on a dividend of degree >= the divisor's *)
Lemma div_full p f g : prime p -> wf p f -> wf p g -> g <> [] -> (degree g <= degree f)%nat -> f <> [] ->
  exists out, div_outer p (zinvert (last g 0) p) g (degree g) (degree f) (degree f + 1) O f = Ok out /\
    length out = S (degree f) /\ reduced p out /\
    peqm p f (padd (pmul g (skipn (degree g) out)) (firstn (degree g) out)).
Proof.
  intros Hp Hf Hg Hgne Hdeg Hfne. pose proof (prime_pos p Hp) as Hp0.
  pose proof (length_degree f Hfne) as Lf. pose proof (length_degree g Hgne) as Lg.
  destruct (div_outer_spec p (zinvert (last g 0) p) g f (degree g) (degree f) Lg Lf Hdeg
              (degree f + 1) O f ltac:(lia)) as (out & E & I).
  { replace (0 + (degree f + 1))%nat with (S (degree f)) by lia. apply inv_at_init; auto. }
  exists out. split; [exact E|]. split; [apply I|]. split.
  - apply reduced_of_coef. intros k Hk.
    assert (HL : length out = S (degree f)) by apply I.
    eapply inv_at_reduced; [exact Hp0|exact I|lia].
  - apply (div_solution p (zinvert (last g 0) p) g f (degree g) (degree f) Hp0 Lg Lf Hdeg).
    + apply lc_inverse; auto.
    + exact I.
Qed.

Lemma from_vec_reduced p a : 0 < p -> reduced p a -> from_vec a p = istrip a.
Proof. intros Hp H. unfold from_vec. rewrite reduced_map_mod_id by exact H. reflexivity. Qed.

Theorem gf_div_spec p f g : prime p -> wf p f -> wf p g -> g <> [] ->
  exists q r, gf_div p f g = Ok (q, r) /\ wf p q /\ wf p r /\
    peqm p f (padd (pmul q g) r) /\ (length r < length g)%nat.
Proof.
  intros Hp Hf Hg Hgne. pose proof (prime_pos p Hp) as Hp0.
  unfold gf_div. destruct g as [|y g']; [congruence|]. remember (y :: g') as g.
  assert (Lg : (0 < length g)%nat) by (subst; cbn; lia).
  destruct f as [|x f'].
  { exists [], []. split; [reflexivity|]. split; [apply wf_nil|]. split; [apply wf_nil|].
    split; [reflexivity|cbn; lia]. }
  remember (x :: f') as f.
  assert (Hfne : f <> []) by (subst; congruence).
  destruct (degree f <? degree g)%nat eqn:E.
  - apply Nat.ltb_lt in E. exists [], f. rewrite (from_vec_id p f) by auto. cbn [from_vec map istrip].
    split; [reflexivity|]. split; [apply wf_nil|]. split; [exact Hf|]. split; [reflexivity|].
    rewrite (length_degree f Hfne), (length_degree g Hgne). lia.
  - apply Nat.ltb_ge in E.
    destruct (div_full p f g Hp Hf Hg Hgne E Hfne) as (out & Eo & Lo & Ro & So).
    rewrite Eo. cbn [bind].
    eexists _, _. split; [reflexivity|].
    split; [apply from_vec_wf; auto|]. split; [apply from_vec_wf; auto|]. split.
    + rewrite !from_vec_peqm by auto. rewrite pmul_comm. exact So.
    + rewrite from_vec_pnorm. eapply Nat.le_lt_trans; [apply length_pnorm_le|].
      rewrite firstn_length, (length_degree g Hgne). lia.
Qed.

Theorem gf_div_zero p f : gf_div p f [] = ErrExn EXN_DIVZERO.
Proof. reflexivity. Qed.

Theorem gf_rem_spec p f g : prime p -> wf p f -> wf p g -> g <> [] ->
  exists q r, gf_rem p f g = Ok r /\ wf p q /\ wf p r /\
    peqm p f (padd (pmul q g) r) /\ (length r < length g)%nat.
Proof.
  intros Hp Hf Hg Hgne. pose proof (prime_pos p Hp) as Hp0.
  destruct (gf_div_spec p f g Hp Hf Hg Hgne) as (q & r & E & Wq & Wr & S & L).
  exists q. unfold gf_rem. unfold gf_div in E.
  destruct g as [|y g']; [congruence|].
  destruct f as [|x f'].
  { inversion E; subst. exists []. split; [reflexivity|]. split; [apply wf_nil|].
    split; [apply wf_nil|]. split; [exact S|exact L]. }
  remember (x :: f') as f. assert (Hfne : f <> []) by (subst; congruence).
  destruct g' as [|y' g''].
  - (* constant divisor: the remainder of the full loop is empty *)
    exists r. split; [|tauto]. f_equal. cbn [length] in L.
    destruct r; [reflexivity|cbn in L; lia].
  - remember (y :: y' :: g'') as g.
    destruct (degree f <? degree g)%nat eqn:Ed.
    + inversion E; subst q r. exists f. rewrite (from_vec_id p f) in * by auto. tauto.
    + destruct (div_outer p (zinvert (last g 0) p) g (degree g) (degree f) (degree f + 1) 0 f)
        as [out| | |] eqn:Eo; cbn [bind] in E; try discriminate.
      inversion E; subst q r. cbn [bind].
      apply Nat.ltb_ge in Ed.
      destruct (div_full p f g Hp Hf Hg Hgne Ed Hfne) as (out2 & Eo2 & Lo & Ro & So).
      rewrite Eo in Eo2. inversion Eo2; subst out2.
      rewrite (from_vec_reduced p (firstn (degree g) out)) in * by (auto; apply reduced_firstn; auto).
      eexists. split; [reflexivity|]. tauto.
Qed.

Lemma scale_inv_wf p f c : prime p -> wf p f -> f <> [] -> c mod p <> 0 ->
  wf p (map (fun x => if x =? 0 then x else (x * zinvert c p) mod p) f).
Proof.
  intros Hp Hf Hne Hc. pose proof (prime_pos p Hp) as Hp0.
  change (wf p (scale_loop p (zinvert c p) f)).
  split; [apply scale_loop_reduced; [auto|apply Hf]|].
  apply stripped_of_last; [destruct f; cbn; congruence|].
  unfold scale_loop. rewrite last_map by exact Hne.
  destruct (wf_last_nonzero p f Hp0 Hf Hne) as [Hl1 Hl2].
  destruct (last f 0 =? 0) eqn:E; [lia|].
  pose proof (Zmod_mul_nonzero p (last f 0) (zinvert c p) Hp Hl1 (zinvert_nonzero p c Hp Hc)). exact H.
Qed.

Theorem gf_quo_spec p f g : prime p -> wf p f -> wf p g -> g <> [] ->
  exists q r, gf_quo p f g = Ok q /\ wf p q /\ wf p r /\
    peqm p f (padd (pmul q g) r) /\ (length r < length g)%nat.
Proof.
  intros Hp Hf Hg Hgne. pose proof (prime_pos p Hp) as Hp0.
  unfold gf_quo. destruct g as [|y g']; [congruence|].
  destruct f as [|x f'].
  { exists [], []. split; [reflexivity|]. split; [apply wf_nil|]. split; [apply wf_nil|].
    split; [reflexivity|cbn; lia]. }
  remember (x :: f') as f. assert (Hfne : f <> []) by (subst; congruence).
  destruct g' as [|y' g''].
  - (* constant divisor *)
    destruct (wf_last_nonzero p [y] Hp0 Hg ltac:(congruence)) as [Hy1 Hy2]. cbn [last] in *.
    eexists _, []. split; [reflexivity|].
    split; [apply scale_inv_wf; auto|]. split; [apply wf_nil|]. split; [|cbn; lia].
    rewrite padd_nil_r.
    change (map (fun x0 => if x0 =? 0 then x0 else (x0 * zinvert y p) mod p) f) with (scale_loop p (zinvert y p) f).
    rewrite scale_loop_peqm by auto. rewrite pmul_comm, <- pscale_as_pmul.
    symmetry. apply pscale_unit. destruct (zinvert_spec' p y Hp Hy2) as [_ Hi].
    rewrite Hi. assert (1 < p) by (destruct Hp; lia). rewrite Z.mod_small; lia.
  - remember (y :: y' :: g'') as g.
    destruct (degree f <? degree g)%nat eqn:Ed.
    + apply Nat.ltb_lt in Ed. exists [], f. split; [reflexivity|]. split; [apply wf_nil|].
      split; [exact Hf|]. split; [reflexivity|].
      rewrite (length_degree f Hfne), (length_degree g Hgne). lia.
    + apply Nat.ltb_ge in Ed.
      destruct (div_full p f g Hp Hf Hg Hgne Ed Hfne) as (out & Eo & Lo & Ro & So).
      replace (degree f + 1)%nat with ((degree f - degree g + 1) + degree g)%nat in Eo by lia.
      rewrite div_outer_split in Eo. rewrite Nat.add_0_l in Eo.
      destruct (div_outer p (zinvert (last g 0) p) g (degree g) (degree f) (degree f - degree g + 1) (degree g) f)
        as [out1| | |] eqn:E1; cbn [bind] in Eo; try discriminate.
      cbn [bind].
      pose proof (div_outer_low p (zinvert (last g 0) p) g (degree g) (degree f) (degree g) out1 out (Nat.le_refl _) Eo) as Hsk.
      rewrite <- Hsk.
      exists (istrip (skipn (degree g) out)), (from_vec (firstn (degree g) out) p).
      split; [reflexivity|].
      split; [apply istrip_wf; apply reduced_skipn; auto|]. split; [apply from_vec_wf; auto|]. split.
      * rewrite istrip_peq, from_vec_peqm by auto. rewrite pmul_comm. exact So.
      * rewrite from_vec_pnorm. eapply Nat.le_lt_trans; [apply length_pnorm_le|].
        rewrite firstn_length, (length_degree g Hgne). lia.
Qed.

(* quotient and remainder are unique: gf_quo / gf_rem return the components of gf_div *)
Theorem div_unique p g q r q' r' : prime p -> wf p g -> g <> [] ->
  wf p q -> wf p r -> wf p q' -> wf p r' ->
  peqm p (padd (pmul q g) r) (padd (pmul q' g) r') ->
  (length r < length g)%nat -> (length r' < length g)%nat -> q = q' /\ r = r'.
Proof.
  intros Hp Hg Hgne Wq Wr Wq' Wr' E L L'. pose proof (prime_pos p Hp) as Hp0.
  assert (D : pdvd p g (psub r' r)).
  { exists (psub q q'). apply peqm_psub_nil.
    assert (X : peqm p (psub (padd (pmul q g) r) (padd (pmul q' g) r')) []) by (apply peqm_psub_nil; exact E).
    transitivity (popp (psub (padd (pmul q g) r) (padd (pmul q' g) r'))); [apply peq_peqm; ring|].
    rewrite X. reflexivity. }
  assert (HZ : peqm p (psub r' r) []).
  { apply (pdvd_small_zero p g); auto. rewrite length_psub. lia. }
  apply -> peqm_psub_nil in HZ.
  assert (Er : r = r') by (apply (wf_unique p); auto; symmetry; exact HZ).
  split; [|exact Er]. subst r'.
  assert (Q : peqm p (pmul g (psub q q')) []).
  { assert (X : peqm p (psub (padd (pmul q g) r) (padd (pmul q' g) r)) []) by (apply peqm_psub_nil; exact E).
    rewrite <- X. apply peq_peqm. ring. }
  apply pmul_eq_zero in Q; [|exact Hp]. destruct Q as [Q|Q].
  - exfalso. apply (wf_peqm_nil p g Hp0 Hg) in Q. congruence.
  - apply -> peqm_psub_nil in Q. apply (wf_unique p); auto.
Qed.
