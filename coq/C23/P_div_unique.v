(* C23 obligation: quotient and remainder are unique, so gf_div, operator/= and operator%= agree with each other and with any other correct division. *)
From SE Require Import C23.GFSpec C23.GFProofs.
Local Open Scope Z_scope.
Theorem C23_div_unique :
  forall (p : Z) (g q r q' r' : list Z), prime p -> wf p g -> g <> [] ->
    wf p q -> wf p r -> wf p q' -> wf p r' ->
    peqm p (padd (pmul q g) r) (padd (pmul q' g) r') ->
    (length r < length g)%nat -> (length r' < length g)%nat -> q = q' /\ r = r'.
Proof. exact div_unique. Qed.
Print Assumptions C23_div_unique.
