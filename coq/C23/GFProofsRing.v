(* C23 -- proofs, part 1: constructors, negation, addition, subtraction, scaling,
   multiplication, shifts, derivative, evaluation, monic. *)
From SE Require Import C23.GFSpec C23.GFPolyLemmas C23.GFArith.
From Coq Require Import Lia ZifyBool ZifyNat Setoid Morphisms.
Local Open Scope Z_scope.
Local Arguments Z.mul : simpl never.
Local Arguments Z.add : simpl never.
Local Arguments Z.modulo : simpl never.
Local Arguments Z.sub : simpl never.

(* ---------- normalisation ---------- *)
Lemma istrip_pstrip l : istrip l = pstrip l.
Proof. induction l as [|x r IH]; [reflexivity|]. cbn [istrip pstrip]. rewrite IH. reflexivity. Qed.

Lemma from_vec_pnorm v p : from_vec v p = pnorm p v.
Proof. unfold from_vec, pnorm. apply istrip_pstrip. Qed.

Lemma from_vec_wf p v : 0 < p -> wf p (from_vec v p).
Proof. intros. rewrite from_vec_pnorm. apply pnorm_wf; auto. Qed.

Lemma from_vec_peqm p v : 0 < p -> peqm p (from_vec v p) v.
Proof. intros. rewrite from_vec_pnorm. apply pnorm_peqm; auto. Qed.

Lemma from_vec_id p a : 0 < p -> wf p a -> from_vec a p = a.
Proof. intros. rewrite from_vec_pnorm. apply pnorm_id; auto. Qed.

Lemma istrip_wf p a : reduced p a -> wf p (istrip a).
Proof. intros. rewrite istrip_pstrip. split; [apply reduced_pstrip; auto|apply pstrip_stripped]. Qed.

Lemma istrip_peq a : peq (istrip a) a.
Proof. rewrite istrip_pstrip. apply pstrip_peq. Qed.

Lemma wf_reduced p a : wf p a -> reduced p a.
Proof. intros [H _]; exact H. Qed.

Lemma wf_single p c : 0 < c < p -> wf p [c].
Proof.
  intros H. split.
  - apply reduced_cons. split; [lia|apply reduced_nil].
  - apply stripped_single. lia.
Qed.

Lemma gf_of_int_wf p i : 0 < p -> wf p (gf_of_int i p).
Proof.
  intros Hp. unfold gf_of_int. pose proof (Z.mod_pos_bound i p Hp).
  destruct (i mod p =? 0) eqn:E; [apply wf_nil|]. apply wf_single. lia.
Qed.

Lemma gf_of_int_peqm p i : 0 < p -> peqm p (gf_of_int i p) [i].
Proof.
  intros Hp. unfold gf_of_int.
  destruct (i mod p =? 0) eqn:E.
  - apply Z.eqb_eq in E. symmetry. apply peqm_cons_nil; [rewrite E, Z.mod_0_l; lia|reflexivity].
  - apply peqm_single. apply Z.mod_mod. lia.
Qed.

(* stripped lists: the last element *)
Lemma wf_cons_inv p x a : wf p (x :: a) -> a <> [] -> wf p a.
Proof.
  intros [Hr Hs] Hne. apply reduced_cons in Hr. split; [tauto|].
  destruct a as [|y a]; [congruence|]. apply stripped_cons_cons in Hs. exact Hs.
Qed.

Lemma wf_cons p x a : 0 <= x < p -> wf p a -> a <> [] -> wf p (x :: a).
Proof.
  intros Hx [Hr Hs] Hne. split; [apply reduced_cons; tauto|].
  destruct a as [|y a]; [congruence|]. apply stripped_cons_cons. exact Hs.
Qed.

Lemma stripped_app_last a x : x <> 0 -> stripped (a ++ [x]).
Proof.
  intros Hx. unfold stripped. rewrite last_last. exact Hx.
Qed.

Lemma stripped_of_last a : a <> [] -> last a 0 <> 0 -> stripped a.
Proof. intros H1 H2. apply stripped_last; auto. Qed.

(* ---------- negation ---------- *)
Lemma negc_spec p a : 0 < p -> 0 <= a < p ->
  0 <= negc p a < p /\ negc p a mod p = (- a) mod p /\ (a <> 0 -> negc p a <> 0).
Proof.
  intros Hp Ha. unfold negc. replace (a * -1) with (- a) by ring.
  destruct (- a =? 0) eqn:E.
  - split; [lia|]. split; [reflexivity|lia].
  - split; [lia|]. split; [|lia].
    replace (- a + p) with (- a + 1 * p) by ring. apply Z.mod_add. lia.
Qed.

Lemma gf_neg_reduced p a : 0 < p -> reduced p a -> reduced p (gf_neg p a).
Proof.
  intros Hp. induction a as [|x a IH]; intros H; [apply reduced_nil|].
  apply reduced_cons in H. cbn [gf_neg map]. apply reduced_cons. split.
  - apply negc_spec; tauto.
  - apply IH; tauto.
Qed.

Lemma gf_neg_peqm p a : 0 < p -> reduced p a -> peqm p (gf_neg p a) (popp a).
Proof.
  intros Hp. induction a as [|x a IH]; intros H; [reflexivity|].
  apply reduced_cons in H. unfold popp. cbn [gf_neg map pscale]. apply peqm_cons.
  - replace (-1 * x) with (- x) by ring. apply negc_spec; tauto.
  - apply IH; tauto.
Qed.

Lemma last_map_nonzero (f : Z -> Z) a : a <> [] -> (forall x, x <> 0 -> f x <> 0) ->
  last a 0 <> 0 -> last (map f a) 0 <> 0.
Proof.
  intros Hne Hf. induction a as [|x a IH]; [congruence|].
  destruct a as [|y a].
  - cbn. auto.
  - intros H. change (last (map f (x :: y :: a)) 0) with (last (map f (y :: a)) 0).
    apply IH; [congruence|exact H].
Qed.

Lemma gf_neg_wf p a : 0 < p -> wf p a -> wf p (gf_neg p a).
Proof.
  intros Hp [Hr Hs]. split; [apply gf_neg_reduced; auto|].
  destruct a as [|x a]; [apply stripped_nil|].
  apply stripped_of_last; [cbn; congruence|].
  unfold gf_neg.
  assert (Hall : Forall (fun c => 0 <= c < p) (x :: a)) by exact Hr.
  apply stripped_last in Hs; [|congruence].
  revert Hs Hall. generalize (x :: a). intros l. induction l as [|y l IH]; [cbn; auto|].
  intros Hl Hall. inversion Hall; subst.
  destruct l as [|z l].
  - cbn in *. apply negc_spec; auto.
  - change (last (map (negc p) (y :: z :: l)) 0) with (last (map (negc p) (z :: l)) 0).
    apply IH; auto.
Qed.

(* ---------- addition / subtraction ---------- *)
Lemma addc_spec p x y : 0 < p -> 0 <= addc p x y < p \/ (x + y = 0 /\ addc p x y = 0).
Proof.
  intros Hp. unfold addc. destruct (x + y =? 0) eqn:E; [right; lia|left].
  apply Z.mod_pos_bound; lia.
Qed.

Lemma addc_range p x y : 0 < p -> 0 <= addc p x y < p.
Proof. intros Hp. destruct (addc_spec p x y Hp) as [H|[_ H]]; lia. Qed.

Lemma addc_mod p x y : 0 < p -> addc p x y mod p = (x + y) mod p.
Proof.
  intros Hp. unfold addc. destruct (x + y =? 0) eqn:E; [reflexivity|]. apply Z.mod_mod; lia.
Qed.

Lemma subc_range p x y : 0 < p -> 0 <= subc p x y < p.
Proof.
  intros Hp. unfold subc. destruct (x - y =? 0) eqn:E; [lia|]. apply Z.mod_pos_bound; lia.
Qed.

Lemma subc_mod p x y : 0 < p -> subc p x y mod p = (x - y) mod p.
Proof.
  intros Hp. unfold subc. destruct (x - y =? 0) eqn:E; [reflexivity|]. apply Z.mod_mod; lia.
Qed.

Lemma add_loop_reduced p a : 0 < p -> forall b, reduced p a -> reduced p b -> reduced p (add_loop p a b).
Proof.
  intros Hp. induction a as [|x a IH]; intros b Ha Hb.
  - destruct b; exact Hb.
  - destruct b as [|y b]; [exact Ha|].
    apply reduced_cons in Ha. apply reduced_cons in Hb. cbn [add_loop].
    apply reduced_cons. split; [apply addc_range; auto|apply IH; tauto].
Qed.

Lemma add_loop_peqm p a : 0 < p -> forall b, peqm p (add_loop p a b) (padd a b).
Proof.
  intros Hp. induction a as [|x a IH]; intros b.
  - destruct b; reflexivity.
  - destruct b as [|y b]; [reflexivity|]. cbn [add_loop padd].
    apply peqm_cons; [apply addc_mod; auto|apply IH].
Qed.

Lemma add_loop_length p a : forall b, length (add_loop p a b) = Nat.max (length a) (length b).
Proof.
  induction a as [|x a IH]; intros b.
  - destruct b; reflexivity.
  - destruct b as [|y b]; [cbn [add_loop length]; lia|]. cbn [add_loop length]. rewrite IH. lia.
Qed.

Lemma add_loop_last_l p a : forall b, (length b < length a)%nat -> last (add_loop p a b) 0 = last a 0.
Proof.
  induction a as [|x a IH]; intros b H; [cbn in H; lia|].
  destruct b as [|y b]; [reflexivity|]. cbn [add_loop]. cbn [length] in H.
  destruct a as [|x' a]; [cbn in H; lia|].
  specialize (IH b ltac:(lia)).
  destruct b as [|y' b]; cbn [add_loop] in *; exact IH.
Qed.

Lemma add_loop_last_r p a : forall b, (length a < length b)%nat -> last (add_loop p a b) 0 = last b 0.
Proof.
  induction a as [|x a IH]; intros b H.
  - destruct b; reflexivity.
  - destruct b as [|y b]; [cbn in H; lia|]. cbn [add_loop]. cbn [length] in H.
    destruct b as [|y' b]; [cbn in H; lia|].
    specialize (IH (y' :: b) ltac:(lia)).
    destruct a as [|x' a]; cbn [add_loop] in *; exact IH.
Qed.

Lemma add_loop_nonnil p a b : a <> [] \/ b <> [] -> add_loop p a b <> [].
Proof. destruct a, b; cbn; intros [H|H]; congruence. Qed.

Theorem gf_add_spec p a b : 0 < p -> wf p a -> wf p b ->
  wf p (gf_add p a b) /\ peqm p (gf_add p a b) (padd a b).
Proof.
  intros Hp Ha Hb. unfold gf_add.
  destruct b as [|y b].
  { split; [exact Ha|]. rewrite padd_nil_r. reflexivity. }
  destruct a as [|x a].
  { split; [exact Hb|]. reflexivity. }
  remember (x :: a) as A. remember (y :: b) as B.
  assert (HA : A <> []) by (subst; congruence). assert (HB : B <> []) by (subst; congruence).
  pose proof (add_loop_reduced p A Hp B (wf_reduced _ _ Ha) (wf_reduced _ _ Hb)) as Hred.
  destruct (length A =? length B)%nat eqn:E.
  - split; [apply istrip_wf; exact Hred|].
    rewrite istrip_peq. apply add_loop_peqm; auto.
  - split; [|apply add_loop_peqm; auto].
    split; [exact Hred|].
    apply stripped_of_last; [apply add_loop_nonnil; auto|].
    apply Nat.eqb_neq in E.
    destruct (Nat.lt_ge_cases (length B) (length A)) as [L|L].
    + rewrite add_loop_last_l by exact L. apply stripped_last; [auto|apply Ha].
    + rewrite add_loop_last_r by lia. apply stripped_last; [auto|apply Hb].
Qed.

Lemma sub_tail_spec p y : 0 < p -> 0 <= y < p ->
  let t := - y in
  let r := if t =? 0 then t else t + p in
  0 <= r < p /\ r mod p = (- y) mod p /\ (y <> 0 -> r <> 0).
Proof.
  intros Hp Hy. cbn zeta. destruct (- y =? 0) eqn:E.
  - split; [lia|]. split; [reflexivity|lia].
  - split; [lia|]. split; [|lia].
    replace (- y + p) with (- y + 1 * p) by ring. apply Z.mod_add. lia.
Qed.

Lemma sub_loop_reduced p a : 0 < p -> forall b, reduced p a -> reduced p b -> reduced p (sub_loop p a b).
Proof.
  intros Hp. induction a as [|x a IH]; intros b Ha Hb.
  - cbn [sub_loop]. destruct b as [|y b]; [apply reduced_nil|].
    revert Hb. generalize (y :: b). intros l. induction l as [|z l IHl]; intros Hl; [apply reduced_nil|].
    apply reduced_cons in Hl. cbn [map]. apply reduced_cons. split; [|apply IHl; tauto].
    apply (sub_tail_spec p z Hp); tauto.
  - destruct b as [|y b]; [exact Ha|].
    apply reduced_cons in Ha. apply reduced_cons in Hb. cbn [sub_loop].
    apply reduced_cons. split; [apply subc_range; auto|apply IH; tauto].
Qed.

Lemma sub_tail_peqm p b : 0 < p -> reduced p b ->
  peqm p (map (fun y => let t := - y in if t =? 0 then t else t + p) b) (popp b).
Proof.
  intros Hp. induction b as [|y b IH]; intros Hb; [reflexivity|].
  apply reduced_cons in Hb. unfold popp. cbn [map pscale]. apply peqm_cons.
  - replace (-1 * y) with (- y) by ring. apply (sub_tail_spec p y Hp); tauto.
  - apply IH; tauto.
Qed.

Lemma sub_loop_peqm p a : 0 < p -> forall b, reduced p b -> peqm p (sub_loop p a b) (psub a b).
Proof.
  intros Hp. induction a as [|x a IH]; intros b Hb.
  - cbn [sub_loop]. destruct b as [|y b]; [reflexivity|].
    unfold psub. cbn [padd]. apply sub_tail_peqm; auto.
  - destruct b as [|y b].
    + cbn [sub_loop]. unfold psub, popp. cbn [pscale map padd]. reflexivity.
    + apply reduced_cons in Hb. cbn [sub_loop]. unfold psub, popp. cbn [pscale map padd].
      apply peqm_cons.
      * rewrite subc_mod by auto. f_equal; ring.
      * apply IH; tauto.
Qed.

Lemma sub_loop_last_l p a : forall b, (length b < length a)%nat -> last (sub_loop p a b) 0 = last a 0.
Proof.
  induction a as [|x a IH]; intros b H; [cbn in H; lia|].
  destruct b as [|y b]; [reflexivity|]. cbn [sub_loop]. cbn [length] in H.
  destruct a as [|x' a]; [cbn in H; lia|].
  specialize (IH b ltac:(lia)).
  destruct b as [|y' b]; cbn [sub_loop] in *; exact IH.
Qed.

Lemma last_map_tail (f : Z -> Z) l : l <> [] -> last (map f l) 0 = f (last l 0).
Proof.
  induction l as [|x l IH]; [congruence|]. intros _.
  destruct l as [|y l]; [reflexivity|].
  change (last (map f (x :: y :: l)) 0) with (last (map f (y :: l)) 0).
  change (last (x :: y :: l) 0) with (last (y :: l) 0). apply IH. congruence.
Qed.

Definition negt (p y : Z) : Z := let t := - y in if t =? 0 then t else t + p.

Lemma sub_loop_last_r p a : forall b, (length a < length b)%nat ->
  last (sub_loop p a b) 0 = negt p (last b 0).
Proof.
  induction a as [|x a IH]; intros b H.
  - cbn [sub_loop]. destruct b as [|y b]; [cbn in H; lia|].
    rewrite last_map_tail by congruence. reflexivity.
  - destruct b as [|y b]; [cbn in H; lia|]. cbn [sub_loop]. cbn [length] in H.
    destruct b as [|y' b]; [cbn in H; lia|].
    specialize (IH (y' :: b) ltac:(lia)).
    change (last (y :: y' :: b) 0) with (last (y' :: b) 0). rewrite <- IH.
    destruct a as [|x' a]; cbn [sub_loop map]; reflexivity.
Qed.

Lemma sub_loop_nonnil p a b : a <> [] \/ b <> [] -> sub_loop p a b <> [].
Proof. destruct a, b; cbn; intros [H|H]; congruence. Qed.

Theorem gf_sub_spec p a b : 0 < p -> wf p a -> wf p b ->
  wf p (gf_sub p a b) /\ peqm p (gf_sub p a b) (psub a b).
Proof.
  intros Hp Ha Hb. unfold gf_sub.
  destruct b as [|y b].
  { split; [exact Ha|]. unfold psub, popp. cbn. rewrite padd_nil_r. reflexivity. }
  destruct a as [|x a].
  { split; [apply gf_neg_wf; auto|]. unfold psub. cbn [padd].
    apply gf_neg_peqm; [auto|apply Hb]. }
  remember (x :: a) as A. remember (y :: b) as B.
  assert (HA : A <> []) by (subst; congruence). assert (HB : B <> []) by (subst; congruence).
  pose proof (sub_loop_reduced p A Hp B (wf_reduced _ _ Ha) (wf_reduced _ _ Hb)) as Hred.
  destruct (length A =? length B)%nat eqn:E.
  - split; [apply istrip_wf; exact Hred|].
    rewrite istrip_peq. apply sub_loop_peqm; [auto|apply Hb].
  - split; [|apply sub_loop_peqm; [auto|apply Hb]].
    split; [exact Hred|].
    apply stripped_of_last; [apply sub_loop_nonnil; auto|].
    apply Nat.eqb_neq in E.
    destruct (Nat.lt_ge_cases (length B) (length A)) as [L|L].
    + rewrite sub_loop_last_l by exact L. apply stripped_last; [auto|apply Ha].
    + rewrite sub_loop_last_r by lia.
      destruct (wf_last_nonzero p B Hp Hb HB) as [_ Hl].
      unfold negt. apply (sub_tail_spec p (last B 0) Hp); lia.
Qed.

(* ---------- + integer ---------- *)
Theorem gf_add_int_spec p a c : 0 < p -> wf p a ->
  wf p (gf_add_int p a c) /\ peqm p (gf_add_int p a c) (padd a [c]).
Proof.
  intros Hp Ha. unfold gf_add_int.
  destruct (c =? 0) eqn:E.
  { apply Z.eqb_eq in E. subst c. split; [exact Ha|].
    apply peq_peqm. intros k. rewrite coef_padd.
    destruct k as [|k]; rewrite ?coef_cons_O, ?coef_cons_S, ?coef_nil; lia. }
  destruct a as [|x r].
  - change (let c' := c mod p in if c' =? 0 then [] else [c']) with (gf_of_int c p).
    split; [apply gf_of_int_wf; auto|]. cbn [padd]. apply gf_of_int_peqm; auto.
  - pose proof (Z.mod_pos_bound (x + c) p Hp) as Hb.
      destruct r as [|y r].
      * cbn [padd]. split.
        -- apply istrip_wf. apply reduced_cons. split; [lia|apply reduced_nil].
        -- rewrite istrip_peq. apply peqm_single. apply Z.mod_mod. lia.
      * split.
        -- apply wf_cons; [lia| |congruence]. apply (wf_cons_inv p x); [exact Ha|congruence].
        -- cbn [padd]. apply peqm_cons; [apply Z.mod_mod; lia|reflexivity].
Qed.

(* ---------- scaling ---------- *)
Lemma scale_loop_reduced p c a : 0 < p -> reduced p a -> reduced p (scale_loop p c a).
Proof.
  intros Hp. induction a as [|x a IH]; intros H; [apply reduced_nil|].
  apply reduced_cons in H. cbn [scale_loop map]. apply reduced_cons. split; [|apply IH; tauto].
  destruct (x =? 0); [lia|]. apply Z.mod_pos_bound; lia.
Qed.

Lemma scale_loop_peqm p c a : 0 < p -> peqm p (scale_loop p c a) (pscale c a).
Proof.
  intros Hp. induction a as [|x a IH]; [reflexivity|].
  cbn [scale_loop map pscale]. apply peqm_cons; [|exact IH].
  destruct (x =? 0) eqn:E.
  - apply Z.eqb_eq in E. subst x. f_equal. ring.
  - rewrite Z.mod_mod by lia. f_equal. ring.
Qed.

Theorem gf_mul_int_spec p a c : 0 < p -> wf p a ->
  wf p (gf_mul_int p a c) /\ peqm p (gf_mul_int p a c) (pscale c a).
Proof.
  intros Hp Ha. unfold gf_mul_int. destruct a as [|x a].
  - split; [apply wf_nil|reflexivity].
  - destruct (c =? 0) eqn:E.
    + apply Z.eqb_eq in E. subst c. split; [apply wf_nil|]. rewrite pscale_0. reflexivity.
    + split; [apply istrip_wf; apply scale_loop_reduced; [auto|apply Ha]|].
      rewrite istrip_peq. apply scale_loop_peqm; auto.
Qed.

(* ---------- multiplication ---------- *)
Lemma vget_ok (l : list Z) i : (i < length l)%nat -> vget l i = Ok (coef l i).
Proof.
  intros H. unfold vget, coef.
  destruct (nth_error l i) eqn:E.
  - f_equal. symmetry. apply nth_error_nth. exact E.
  - apply nth_error_None in E. lia.
Qed.

Lemma vupd_length {A} (l : list A) : forall i v, length (vupd l i v) = length l.
Proof. induction l as [|x l IH]; intros [|i] v; cbn; auto. Qed.

Lemma coef_vupd l : forall i v k, (i < length l)%nat ->
  coef (vupd l i v) k = if (k =? i)%nat then v else coef l k.
Proof.
  induction l as [|x l IH]; intros i v k H; [cbn in H; lia|].
  destruct i as [|i]; destruct k as [|k]; cbn [vupd]; try reflexivity.
  - rewrite !coef_cons_S. rewrite IH by (cbn in H; lia). reflexivity.
Qed.

Lemma vset_ok (l : list Z) i v : (i < length l)%nat -> vset l i v = Ok (vupd l i v).
Proof. intros H. unfold vset. apply Nat.ltb_lt in H. rewrite H. reflexivity. Qed.

Lemma reduced_vupd p l : forall i v, reduced p l -> 0 <= v < p -> reduced p (vupd l i v).
Proof.
  induction l as [|x l IH]; intros i v H Hv; [destruct i; apply reduced_nil|].
  apply reduced_cons in H. destruct i as [|i]; cbn [vupd]; apply reduced_cons; [tauto|].
  split; [tauto|apply IH; tauto].
Qed.

(* the inner loop adds ai * bs, shifted by i + j, to the accumulator *)
Lemma mul_inner_spec p ai i : 0 < p -> forall bs j acc,
  (i + j + length bs <= length acc)%nat -> reduced p acc ->
  exists acc', mul_inner p ai i bs j acc = Ok acc' /\ length acc' = length acc /\ reduced p acc' /\
    peqm p acc' (padd acc (pshift (i + j) (pscale ai bs))).
Proof.
  intros Hp. induction bs as [|bj bs IH]; intros j acc Hlen Hred.
  - exists acc. cbn [mul_inner]. repeat split; auto.
    apply peq_peqm. intros k. rewrite coef_padd, coef_pshift. cbn [pscale map].
    destruct (k <? i + j)%nat; rewrite ?coef_nil; lia.
  - cbn [mul_inner]. cbn [length] in Hlen.
    set (acc1 := if ai * bj =? 0 then Ok acc
                 else bind (vget acc (i + j)) (fun t => vset acc (i + j) ((t + ai * bj) mod p))).
    assert (H1 : exists a1, acc1 = Ok a1 /\ length a1 = length acc /\ reduced p a1 /\
                   peqm p a1 (padd acc (pshift (i + j) [ai * bj]))).
    { subst acc1. destruct (ai * bj =? 0) eqn:E.
      - exists acc. repeat split; auto. apply Z.eqb_eq in E. rewrite E.
        apply peq_peqm. intros k. rewrite coef_padd, coef_pshift.
        destruct (k <? i + j)%nat; [lia|]. destruct (k - (i + j))%nat; rewrite ?coef_cons_O, ?coef_cons_S, ?coef_nil; lia.
      - rewrite vget_ok by lia. cbn [bind]. rewrite vset_ok by lia.
        eexists. split; [reflexivity|]. split; [apply vupd_length|].
        split; [apply reduced_vupd; [auto|apply Z.mod_pos_bound; lia]|].
        intros k. rewrite coef_vupd by lia. rewrite coef_padd, coef_pshift.
        destruct (k =? i + j)%nat eqn:Ek.
        + apply Nat.eqb_eq in Ek. subst k.
          assert (X : (i + j <? i + j)%nat = false) by (apply Nat.ltb_ge; lia). rewrite X.
          rewrite Nat.sub_diag. rewrite Z.mod_mod by lia. reflexivity.
        + apply Nat.eqb_neq in Ek. destruct (k <? i + j)%nat eqn:Ek2; [f_equal; lia|].
          apply Nat.ltb_ge in Ek2. destruct (k - (i + j))%nat eqn:Ek3; [lia|].
          rewrite coef_cons_S, coef_nil. f_equal. lia. }
    destruct H1 as (a1 & E1 & L1 & R1 & P1). rewrite E1. cbn [bind].
    destruct (IH (S j) a1 ltac:(lia) R1) as (acc' & E2 & L2 & R2 & P2).
    exists acc'. split; [exact E2|]. split; [lia|]. split; [exact R2|].
    rewrite P2, P1. apply peq_peqm. intros k.
    rewrite !coef_padd, !coef_pshift. unfold pscale. cbn [map].
    destruct (k <? i + j)%nat eqn:A1.
    + apply Nat.ltb_lt in A1. assert (X : (k <? i + S j)%nat = true) by (apply Nat.ltb_lt; lia).
      rewrite X. lia.
    + apply Nat.ltb_ge in A1. destruct (k - (i + j))%nat eqn:A2.
      * assert (X : (k <? i + S j)%nat = true) by (apply Nat.ltb_lt; lia). rewrite X.
        rewrite !coef_cons_O. lia.
      * assert (X : (k <? i + S j)%nat = false) by (apply Nat.ltb_ge; lia). rewrite X.
        rewrite !coef_cons_S, coef_nil. replace (k - (i + S j))%nat with n by lia. lia.
Qed.

Lemma mul_outer_spec p b : 0 < p -> forall as_ i acc,
  (i + length as_ + length b <= length acc + 1)%nat -> reduced p acc -> b <> [] ->
  exists acc', mul_outer p as_ b i acc = Ok acc' /\ length acc' = length acc /\ reduced p acc' /\
    peqm p acc' (padd acc (pshift i (pmul as_ b))).
Proof.
  intros Hp. induction as_ as [|ai as_ IH]; intros i acc Hlen Hred Hb.
  - exists acc. cbn [mul_outer]. repeat split; auto.
    apply peq_peqm. intros k. rewrite coef_padd, coef_pshift. cbn [pmul].
    destruct (k <? i)%nat; rewrite ?coef_nil; lia.
  - cbn [mul_outer]. cbn [length] in Hlen.
    assert (Lb : (0 < length b)%nat) by (destruct b; [congruence|cbn; lia]).
    destruct (mul_inner_spec p ai i Hp b O acc ltac:(lia) Hred) as (a1 & E1 & L1 & R1 & P1).
    rewrite E1. cbn [bind].
    destruct (IH (S i) a1 ltac:(lia) R1 Hb) as (acc' & E2 & L2 & R2 & P2).
    exists acc'. split; [exact E2|]. split; [lia|]. split; [exact R2|].
    rewrite P2, P1. rewrite Nat.add_0_r. cbn [pmul].
    apply peq_peqm. rewrite pshift_S.
    intros k. rewrite !coef_padd, !coef_pshift.
    destruct (k <? i)%nat eqn:A1.
    + rewrite coef_cons. destruct k; [lia|]. rewrite coef_pshift. apply Nat.ltb_lt in A1.
      assert (X : (k <? i)%nat = true) by (apply Nat.ltb_lt; lia). rewrite X. lia.
    + apply Nat.ltb_ge in A1. rewrite coef_padd.
      rewrite (coef_cons 0 (pshift i (pmul as_ b)) k).
      destruct k as [|k].
      * assert (i = O) by lia. subst i. cbn [Nat.sub]. rewrite coef_cons_O. lia.
      * rewrite coef_pshift. destruct (k <? i)%nat eqn:A2.
        -- apply Nat.ltb_lt in A2. assert (S k = i) by lia. subst i.
           rewrite Nat.sub_diag, coef_cons_O. lia.
        -- apply Nat.ltb_ge in A2. replace (S k - i)%nat with (S (k - i)) by lia.
           rewrite coef_cons_S. lia.
Qed.

Lemma reduced_repeat0 p n : 0 < p -> reduced p (repeat 0 n).
Proof. intros Hp. induction n; cbn; [apply reduced_nil|apply reduced_cons; split; [lia|auto]]. Qed.

Lemma peq_repeat0 n : peq (repeat 0 n) [].
Proof. intros k. rewrite coef_repeat0, coef_nil. reflexivity. Qed.

Theorem gf_mul_spec p a b : 0 < p -> wf p a -> wf p b -> computes p (gf_mul p a b) (pmul a b).
Proof.
  intros Hp Ha Hb. unfold computes, gf_mul.
  destruct a as [|x a].
  { exists []. split; [reflexivity|]. split; [apply wf_nil|reflexivity]. }
  destruct b as [|y b].
  { exists []. split; [reflexivity|]. split; [apply wf_nil|]. rewrite pmul_nil_r. reflexivity. }
  remember (x :: a) as A. remember (y :: b) as B.
  assert (LA : (0 < length A)%nat) by (subst; cbn; lia).
  assert (LB : (0 < length B)%nat) by (subst; cbn; lia).
  destruct (mul_outer_spec p B Hp A O (repeat 0 (degree A + degree B + 1)))
    as (acc & E & L & R & P).
  - rewrite repeat_length. unfold degree. lia.
  - apply reduced_repeat0; auto.
  - subst; congruence.
  - rewrite E. cbn [bind]. exists (istrip acc). split; [reflexivity|].
    split; [apply istrip_wf; exact R|].
    rewrite istrip_peq, P. rewrite pshift_0, peq_repeat0, padd_nil_l. reflexivity.
Qed.

Theorem gf_mul_assign_spec p a b : 0 < p -> wf p a -> wf p b ->
  computes p (gf_mul_assign p a b) (pmul a b).
Proof.
  intros Hp Ha Hb. unfold gf_mul_assign.
  destruct a as [|x a].
  { exists []. split; [reflexivity|]. split; [apply wf_nil|reflexivity]. }
  destruct b as [|c [|y b]].
  - exists []. split; [reflexivity|]. split; [apply wf_nil|]. rewrite pmul_nil_r. reflexivity.
  - eexists. split; [reflexivity|].
    split; [apply istrip_wf; apply scale_loop_reduced; [auto|apply Ha]|].
    rewrite istrip_peq, scale_loop_peqm by auto.
    rewrite pmul_comm, <- pscale_as_pmul. reflexivity.
  - apply gf_mul_spec; auto.
Qed.

Theorem gf_sqr_spec p a : 0 < p -> wf p a -> computes p (gf_sqr p a) (pmul a a).
Proof. intros. apply gf_mul_spec; auto. Qed.

(* ---------- shifts ---------- *)
Lemma last_app {A} (a b : list A) d : b <> [] -> last (a ++ b) d = last b d.
Proof.
  intros Hb. induction a as [|x a IH]; [reflexivity|].
  cbn [app]. destruct (a ++ b) eqn:E.
  - destruct a; cbn in E; [congruence|discriminate].
  - exact IH.
Qed.

Theorem gf_lshift_spec p a n : 0 < p -> wf p a ->
  wf p (gf_lshift p a n) /\ peqm p (gf_lshift p a n) (pshift n a).
Proof.
  intros Hp Ha. unfold gf_lshift. destruct a as [|x a].
  - split; [apply from_vec_wf; auto|]. cbn. unfold pshift. rewrite app_nil_r.
    rewrite peq_repeat0. reflexivity.
  - split; [|reflexivity]. split.
    + apply Forall_app. split; [apply reduced_repeat0; auto|apply Ha].
    + unfold stripped. rewrite last_app by congruence. apply Ha.
Qed.

Lemma firstn_skipn_peq n (a : list Z) : peq a (padd (firstn n a) (pshift n (skipn n a))).
Proof.
  intros k. rewrite coef_padd, coef_pshift.
  rewrite <- (firstn_skipn n a) at 1.
  destruct (Nat.lt_ge_cases n (length a)) as [L|L].
  - assert (Lf : length (firstn n a) = n) by (rewrite firstn_length; lia).
    destruct (k <? n)%nat eqn:E.
    + apply Nat.ltb_lt in E. rewrite coef_app_l by lia. lia.
    + apply Nat.ltb_ge in E. rewrite coef_app_r by lia. rewrite Lf.
      rewrite (coef_overflow (firstn n a)) by lia. lia.
  - rewrite skipn_all2 by lia. rewrite app_nil_r, coef_nil.
    destruct (k <? n)%nat; lia.
Qed.

Theorem gf_rshift_spec p a n : 0 < p -> wf p a ->
  let '(q, r) := gf_rshift p a n in
  wf p q /\ wf p r /\ peqm p a (padd (pmul q (pshift n [1])) r) /\ (length r <= n)%nat.
Proof.
  intros Hp Ha. unfold gf_rshift.
  destruct (n <? length a)%nat eqn:E.
  - apply Nat.ltb_lt in E. split; [|split; [apply from_vec_wf; auto|split]].
    + split.
      * destruct Ha as [Hr _]. unfold reduced in *. rewrite <- (firstn_skipn n a) in Hr.
        apply Forall_app in Hr. tauto.
      * destruct Ha as [_ Hs]. unfold stripped in *.
        rewrite <- (firstn_skipn n a) in Hs. rewrite last_app in Hs; [exact Hs|].
        intros X. apply (f_equal (@length Z)) in X. rewrite skipn_length in X. cbn in X. lia.
    + rewrite from_vec_peqm by auto. rewrite pmul_comm, <- pshift_as_pmul, padd_comm.
      apply peq_peqm. apply firstn_skipn_peq.
    + rewrite from_vec_pnorm. etransitivity; [apply length_pnorm_le|]. rewrite firstn_length. lia.
  - apply Nat.ltb_ge in E. split; [apply from_vec_wf; auto|]. split; [exact Ha|].
    split; [|exact E]. cbn. reflexivity.
Qed.

(* ---------- derivative ---------- *)
Lemma diff_loop_reduced p : 0 < p -> forall l i, reduced p (diff_loop p i l).
Proof.
  intros Hp. induction l as [|c l IH]; intros i; [apply reduced_nil|].
  cbn [diff_loop]. apply reduced_cons. split; [|apply IH].
  destruct (c =? 0); [lia|apply Z.mod_pos_bound; lia].
Qed.

Lemma diff_loop_peqm p : 0 < p -> forall l i, peqm p (diff_loop p i l) (pdiff_from i l).
Proof.
  intros Hp. induction l as [|c l IH]; intros i; [reflexivity|].
  cbn [diff_loop pdiff_from]. apply peqm_cons; [|apply IH].
  destruct (c =? 0) eqn:E.
  - apply Z.eqb_eq in E. subst c. f_equal. ring.
  - apply Z.mod_mod. lia.
Qed.

Theorem gf_diff_spec p a : 0 < p ->
  wf p (gf_diff p a) /\ peqm p (gf_diff p a) (pdiff a).
Proof.
  intros Hp. unfold gf_diff, pdiff. split.
  - apply istrip_wf. apply diff_loop_reduced; auto.
  - rewrite istrip_peq. apply diff_loop_peqm; auto.
Qed.

(* ---------- evaluation ---------- *)
Theorem gf_eval_spec p a x : 0 < p -> gf_eval p a x = peval a x mod p.
Proof.
  intros Hp. induction a as [|c a IH]; [reflexivity|].
  cbn [gf_eval fold_right peval]. fold (gf_eval p a x). fold (peval a x).
  rewrite IH. rewrite Z.add_comm. rewrite (Z.mul_comm _ x).
  rewrite Z.add_mod by lia. rewrite Z.mul_mod_idemp_r by lia. rewrite <- Z.add_mod by lia.
  reflexivity.
Qed.

Lemma gf_eval_range p a x : 0 < p -> 0 <= gf_eval p a x < p.
Proof. intros Hp. rewrite gf_eval_spec by auto. apply Z.mod_pos_bound; auto. Qed.

(* ---------- monic ---------- *)
Lemma map_inv_reduced p inv a : 0 < p -> reduced p (map (fun x => (inv * x) mod p) a).
Proof.
  intros Hp. induction a as [|x a IH]; [apply reduced_nil|].
  cbn [map]. apply reduced_cons. split; [apply Z.mod_pos_bound; lia|exact IH].
Qed.

Lemma map_inv_peqm p inv a : 0 < p -> peqm p (map (fun x => (inv * x) mod p) a) (pscale inv a).
Proof.
  intros Hp. induction a as [|x a IH]; [reflexivity|].
  cbn [map pscale]. apply peqm_cons; [apply Z.mod_mod; lia|exact IH].
Qed.

Lemma last_map (f : Z -> Z) a d : a <> [] -> last (map f a) d = f (last a d).
Proof.
  induction a as [|x a IH]; [congruence|]. intros _.
  destruct a as [|y a]; [reflexivity|].
  change (last (map f (x :: y :: a)) d) with (last (map f (y :: a)) d).
  change (last (x :: y :: a) d) with (last (y :: a) d). apply IH. congruence.
Qed.

Theorem gf_monic_spec p a : prime p -> wf p a -> a <> [] ->
  let '(lc, m) := gf_monic p a in
  lc = last a 0 /\ wf p m /\ monic m /\ length m = length a /\
  peqm p a (pscale lc m) /\ peqm p m (pscale (zinvert lc p) a).
Proof.
  intros Hp Ha Hne. pose proof (prime_pos p Hp) as Hp0.
  assert (Hp1 : 1 < p) by (destruct Hp; lia).
  destruct (wf_last_nonzero p a Hp0 Ha Hne) as [Hl1 Hl2].
  unfold gf_monic. destruct a as [|x a']; [congruence|]. remember (x :: a') as a.
  destruct (last a 0 =? 1) eqn:E.
  - apply Z.eqb_eq in E. split; [reflexivity|]. split; [exact Ha|]. split; [exact E|].
    split; [reflexivity|]. rewrite E.
    destruct (zinvert_spec' p 1 Hp ltac:(lia)) as [Hr Hi].
    rewrite Z.mul_1_l, Z.mod_small in Hi by lia. rewrite Hi.
    rewrite pscale_1. split; reflexivity.
  - destruct (zinvert_spec' p (last a 0) Hp Hl2) as [Hr Hi].
    set (inv := zinvert (last a 0) p) in *.
    split; [reflexivity|].
    assert (Hm : last (map (fun x0 => (inv * x0) mod p) a) 0 = 1).
    { rewrite last_map by exact Hne. rewrite Z.mul_comm. exact Hi. }
    split; [|split; [exact Hm|split; [apply map_length|split]]].
    + split; [apply map_inv_reduced; auto|].
      apply stripped_of_last; [destruct a; cbn; congruence|]. rewrite Hm. lia.
    + rewrite map_inv_peqm by auto. symmetry. apply pscale_unit.
      rewrite Hi. rewrite Z.mod_small; lia.
    + apply map_inv_peqm; auto.
Qed.
