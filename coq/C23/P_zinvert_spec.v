(* C23 obligation: the model of mp_invert (extended Euclid on logarithmic fuel) returns the inverse in [0,p) for every prime p and every a not divisible by p. *)
From SE Require Import C23.GFSpec C23.GFProofs.
Local Open Scope Z_scope.
Theorem C23_zinvert_spec :
  forall (p a : Z), prime p -> a mod p <> 0 ->
    0 <= zinvert a p < p /\ (a * zinvert a p) mod p = 1.
Proof. exact zinvert_spec. Qed.
Print Assumptions C23_zinvert_spec.
