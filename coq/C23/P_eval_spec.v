(* C23 obligation: gf_eval (Horner, floor remainder in every step, repaired in da7c58d): for ALL polynomials and ALL integer arguments the value is the polynomial's value reduced into [0,p). *)
From SE Require Import C23.GFSpec C23.GFProofs.
Local Open Scope Z_scope.
Theorem C23_eval_spec :
  forall (p : Z) (a : gf) (x : Z), 0 < p ->
    gf_eval p a x = peval a x mod p /\ 0 <= gf_eval p a x < p.
Proof. exact (fun p a x Hp => conj (gf_eval_spec p a x Hp) (gf_eval_range p a x Hp)). Qed.
Print Assumptions C23_eval_spec.
