(* C23 obligation: operator/= by a divisor of f is the exact quotient. *)
From SE Require Import C23.GFSpec C23.GFProofs.
Local Open Scope Z_scope.
Theorem C23_quo_exact :
  forall (p : Z) (f g : gf), prime p -> wf p f -> wf p g -> g <> [] -> pdvd p g f ->
    exists q, gf_quo p f g = Ok q /\ wf p q /\ peqm p f (pmul q g).
Proof. exact gf_quo_exact. Qed.
Print Assumptions C23_quo_exact.
