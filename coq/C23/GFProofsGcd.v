(* C23 -- proofs, part 3: gcd, lcm, powers, modular powers, composition modulo a polynomial,
   and the refutation witnesses. *)
From SE Require Import C23.GFSpec C23.GFPolyLemmas C23.GFArith C23.GFProofsRing C23.GFProofsDiv.
From Coq Require Import Lia ZifyBool ZifyNat Setoid Morphisms.
Local Open Scope Z_scope.
Local Arguments Z.mul : simpl never.
Local Arguments Z.add : simpl never.
Local Arguments Z.modulo : simpl never.
Local Arguments Z.sub : simpl never.

(* ---------- remainder as a congruence ---------- *)
Lemma gf_rem_pcong p f m : prime p -> wf p f -> wf p m -> m <> [] ->
  exists r, gf_rem p f m = Ok r /\ wf p r /\ pcong p m r f /\ (length r < length m)%nat.
Proof.
  intros Hp Hf Hm Hne.
  destruct (gf_rem_spec p f m Hp Hf Hm Hne) as (q & r & E & Wq & Wr & S & L).
  exists r. split; [exact E|]. split; [exact Wr|]. split; [|exact L].
  unfold pcong. exists (popp q). rewrite S. apply peq_peqm. ring.
Qed.

(* ---------- gcd ---------- *)
Lemma is_gcd_step p f g q r d : peqm p f (padd (pmul q g) r) -> is_gcd p d g r -> is_gcd p d f g.
Proof.
  intros S (D1 & D2 & D3). split; [|split].
  - eapply pdvd_peqm; [reflexivity|symmetry; exact S|].
    apply pdvd_padd; [apply pdvd_pmul_l; exact D1|exact D2].
  - exact D1.
  - intros e E1 E2. apply D3; [exact E2|].
    assert (R : peqm p r (psub f (pmul q g))).
    { rewrite S. apply peq_peqm. ring. }
    eapply pdvd_peqm; [reflexivity|symmetry; exact R|].
    apply pdvd_psub; [exact E1|apply pdvd_pmul_l; exact E2].
Qed.

Lemma gcd_loop_spec p : prime p -> forall fuel f g, wf p f -> wf p g -> (length g < fuel)%nat ->
  exists d, gcd_loop p fuel f g = Ok d /\ wf p d /\ is_gcd p d f g /\ (d = [] -> f = [] /\ g = []).
Proof.
  intros Hp. pose proof (prime_pos p Hp) as Hp0.
  induction fuel as [|fuel IH]; intros f g Hf Hg Hlen; [lia|].
  destruct g as [|y g'].
  - exists f. cbn [gcd_loop]. split; [reflexivity|]. split; [exact Hf|]. split; [|tauto].
    split; [apply pdvd_refl|]. split; [apply pdvd_nil|]. tauto.
  - remember (y :: g') as g. assert (Hgne : g <> []) by (subst; congruence).
    assert (X : gcd_loop p (S fuel) f g = bind (gf_rem p f g) (fun r => gcd_loop p fuel g r)).
    { subst g. reflexivity. }
    rewrite X. clear X.
    destruct (gf_rem_spec p f g Hp Hf Hg Hgne) as (q & r & E & Wq & Wr & S & L).
    rewrite E. cbn [bind].
    destruct (IH g r Hg Wr ltac:(lia)) as (d & Ed & Wd & Gd & Nd).
    exists d. split; [exact Ed|]. split; [exact Wd|]. split.
    + eapply is_gcd_step; eauto.
    + intros Dn. destruct (Nd Dn) as [G0 _]. congruence.
Qed.

Theorem gf_gcd_spec p f g : prime p -> wf p f -> wf p g ->
  exists d, gf_gcd p f g = Ok d /\ wf p d /\ is_gcd p d f g /\
    ((f = [] /\ g = []) -> d = []) /\ (~ (f = [] /\ g = []) -> monic d).
Proof.
  intros Hp Hf Hg. pose proof (prime_pos p Hp) as Hp0.
  unfold gf_gcd.
  destruct (gcd_loop_spec p Hp (S (length g)) f g Hf Hg ltac:(lia)) as (d & Ed & Wd & Gd & Nd).
  rewrite Ed. cbn [bind].
  destruct d as [|z d'].
  - exists []. cbn. split; [reflexivity|]. split; [apply wf_nil|]. split; [exact Gd|].
    split; [tauto|]. intros H. exfalso. apply H. apply Nd. reflexivity.
  - remember (z :: d') as d. assert (Hdne : d <> []) by (subst; congruence).
    pose proof (gf_monic_spec p d Hp Wd Hdne) as M.
    destruct (gf_monic p d) as [lc md]. destruct M as (Elc & Wm & Mm & Lm & S1 & S2).
    exists md. cbn [snd]. split; [reflexivity|]. split; [exact Wm|].
    destruct (wf_last_nonzero p d Hp0 Wd Hdne) as [_ Hl].
    destruct (zinvert_spec' p (last d 0) Hp Hl) as [_ Hi]. subst lc.
    assert (U : (last d 0 * zinvert (last d 0) p) mod p = 1 mod p).
    { rewrite Hi. assert (1 < p) by (destruct Hp; lia). rewrite Z.mod_small; lia. }
    assert (U' : (zinvert (last d 0) p * last d 0) mod p = 1 mod p) by (rewrite Z.mul_comm; exact U).
    destruct Gd as (D1 & D2 & D3).
    split; [|split].
    + split; [|split].
      * eapply pdvd_peqm; [symmetry; exact S2|reflexivity|].
        apply (pdvd_unit_scale_l p _ _ d f U'). exact D1.
      * eapply pdvd_peqm; [symmetry; exact S2|reflexivity|].
        apply (pdvd_unit_scale_l p _ _ d g U'). exact D2.
      * intros e E1 E2. eapply pdvd_peqm; [reflexivity|symmetry; exact S2|].
        apply (pdvd_unit_scale_r p _ _ e d U'). apply D3; auto.
    + intros [F0 G0]. exfalso. subst f g.
      (* d divides nothing but is non-empty: the loop returned f = [] *)
      cbn in Ed. inversion Ed. congruence.
    + intros _. exact Mm.
Qed.

(* ---------- powers ---------- *)
Lemma ppow_sq a n : peq (ppow (pmul a a) n) (ppow a (2 * n)).
Proof.
  rewrite ppow_pmul. replace (2 * n)%nat with (n + n)%nat by lia. rewrite ppow_add. reflexivity.
Qed.

Lemma pow_loop_spec p : 0 < p -> forall num to_sq to_ret, wf p to_sq -> wf p to_ret ->
  computes p (pow_loop p num to_sq to_ret) (pmul to_ret (ppow to_sq (Pos.to_nat num))).
Proof.
  intros Hp. induction num as [n' IH|n' IH|]; intros sq ret Wsq Wret; cbn [pow_loop].
  - destruct (gf_mul_assign_spec p ret sq Hp Wret Wsq) as (r & Er & Wr & Pr). rewrite Er. cbn [bind].
    destruct (gf_sqr_spec p sq Hp Wsq) as (s & Es & Ws & Ps). rewrite Es. cbn [bind].
    destruct (IH s r Ws Wr) as (c & Ec & Wc & Pc).
    exists c. split; [exact Ec|]. split; [exact Wc|].
    rewrite Pc, Pr, Ps. rewrite Pos2Nat.inj_xI. rewrite ppow_sq. cbn [ppow].
    apply peq_peqm. ring.
  - destruct (gf_sqr_spec p sq Hp Wsq) as (s & Es & Ws & Ps). rewrite Es. cbn [bind].
    destruct (IH s ret Ws Wret) as (c & Ec & Wc & Pc).
    exists c. split; [exact Ec|]. split; [exact Wc|].
    rewrite Pc, Ps. rewrite Pos2Nat.inj_xO. rewrite ppow_sq. reflexivity.
  - destruct (gf_mul_assign_spec p ret sq Hp Wret Wsq) as (r & Er & Wr & Pr).
    exists r. split; [exact Er|]. split; [exact Wr|].
    rewrite Pr. change (Pos.to_nat 1) with 1%nat. rewrite ppow_1. reflexivity.
Qed.

Lemma gf_one_spec p : 1 < p -> wf p (gf_of_int 1 p) /\ peqm p (gf_of_int 1 p) [1].
Proof. intros Hp. split; [apply gf_of_int_wf; lia|apply gf_of_int_peqm; lia]. Qed.

Theorem gf_pow_spec p f n : 1 < p -> wf p f ->
  computes p (gf_pow p f n) (ppow f (N.to_nat n)).
Proof.
  intros Hp Wf. destruct (gf_one_spec p Hp) as [W1 P1].
  assert (Hp0 : 0 < p) by lia.
  assert (Loop : forall num, computes p (pow_loop p num f (gf_of_int 1 p)) (ppow f (Pos.to_nat num))).
  { intros num. destruct (pow_loop_spec p Hp0 num f (gf_of_int 1 p) Wf W1) as (c & Ec & Wc & Pc).
    exists c. split; [exact Ec|]. split; [exact Wc|]. rewrite Pc, P1, pmul_1_l. reflexivity. }
  destruct n as [|num]; cbn [gf_pow N.to_nat].
  - exists (gf_of_int 1 p). split; [reflexivity|]. split; [exact W1|exact P1].
  - destruct num as [q|q|].
    + apply Loop.
    + destruct q as [q'|q'|]; try apply Loop.
      destruct (gf_sqr_spec p f Hp0 Wf) as (s & Es & Ws & Ps).
      exists s. split; [exact Es|]. split; [exact Ws|].
      rewrite Ps. change (Pos.to_nat 2) with 2%nat. cbn [ppow]. rewrite pmul_1_r. reflexivity.
    + exists f. split; [reflexivity|]. split; [exact Wf|].
      change (Pos.to_nat 1) with 1%nat. rewrite ppow_1. reflexivity.
Qed.

(* ---------- powers modulo a polynomial ---------- *)
Definition computes_mod (p : Z) (m : list Z) (r : res gf) (e : list Z) : Prop :=
  exists c, r = Ok c /\ wf p c /\ pcong p m c e /\ (length c < length m)%nat.

Lemma mul_rem_spec p m a b : prime p -> wf p m -> m <> [] -> wf p a -> wf p b ->
  computes_mod p m (bind (gf_mul_assign p a b) (fun h1 => gf_rem p h1 m)) (pmul a b).
Proof.
  intros Hp Wm Hne Wa Wb. pose proof (prime_pos p Hp) as Hp0.
  destruct (gf_mul_assign_spec p a b Hp0 Wa Wb) as (h1 & E1 & W1 & P1). rewrite E1. cbn [bind].
  destruct (gf_rem_pcong p h1 m Hp W1 Wm Hne) as (r & Er & Wr & Cr & Lr).
  exists r. split; [exact Er|]. split; [exact Wr|]. split; [|exact Lr].
  rewrite Cr. apply pcong_peqm. exact P1.
Qed.

Lemma sqr_mod_spec p m a : prime p -> wf p m -> m <> [] -> wf p a ->
  computes_mod p m (bind (gf_sqr p a) (fun s => gf_mod p s m)) (pmul a a).
Proof.
  intros Hp Wm Hne Wa. pose proof (prime_pos p Hp) as Hp0.
  destruct (gf_sqr_spec p a Hp0 Wa) as (s & Es & Ws & Ps). rewrite Es. cbn [bind]. unfold gf_mod.
  destruct (gf_rem_pcong p s m Hp Ws Wm Hne) as (r & Er & Wr & Cr & Lr).
  exists r. split; [exact Er|]. split; [exact Wr|]. split; [|exact Lr].
  rewrite Cr. apply pcong_peqm. exact Ps.
Qed.

Lemma pow_mod_loop_spec p m : prime p -> wf p m -> m <> [] ->
  forall num inn h, wf p inn -> wf p h ->
  computes_mod p m (pow_mod_loop p m num inn h) (pmul h (ppow inn (Pos.to_nat num))).
Proof.
  intros Hp Wm Hne. induction num as [n' IH|n' IH|]; intros inn h Wi Wh; cbn [pow_mod_loop].
  - destruct (mul_rem_spec p m h inn Hp Wm Hne Wh Wi) as (h2 & E2 & W2 & C2 & _).
    destruct (gf_mul_assign p h inn) as [h1| | |]; cbn [bind] in E2 |- *; try discriminate.
    rewrite E2. cbn [bind].
    destruct (sqr_mod_spec p m inn Hp Wm Hne Wi) as (i2 & Ei & Wi2 & Ci & _).
    destruct (gf_sqr p inn) as [s| | |]; cbn [bind] in Ei |- *; try discriminate.
    rewrite Ei. cbn [bind].
    destruct (IH i2 h2 Wi2 W2) as (c & Ec & Wc & Cc & Lc).
    exists c. split; [exact Ec|]. split; [exact Wc|]. split; [|exact Lc].
    rewrite Cc. rewrite Pos2Nat.inj_xI.
    rewrite (pcong_pmul p m h2 (pmul h inn) (ppow i2 (Pos.to_nat n')) (ppow (pmul inn inn) (Pos.to_nat n'))
               C2 (pcong_ppow p m _ _ _ Ci)).
    apply pcong_peq. rewrite ppow_sq. cbn [ppow]. ring.
  - destruct (sqr_mod_spec p m inn Hp Wm Hne Wi) as (i2 & Ei & Wi2 & Ci & _).
    destruct (gf_sqr p inn) as [s| | |]; cbn [bind] in Ei |- *; try discriminate.
    rewrite Ei. cbn [bind].
    destruct (IH i2 h Wi2 Wh) as (c & Ec & Wc & Cc & Lc).
    exists c. split; [exact Ec|]. split; [exact Wc|]. split; [|exact Lc].
    rewrite Cc. rewrite Pos2Nat.inj_xO.
    rewrite (pcong_pmul p m h h (ppow i2 (Pos.to_nat n')) (ppow (pmul inn inn) (Pos.to_nat n'))
               (pcong_refl p m h) (pcong_ppow p m _ _ _ Ci)).
    apply pcong_peq. rewrite ppow_sq. reflexivity.
  - destruct (mul_rem_spec p m h inn Hp Wm Hne Wh Wi) as (h2 & E2 & W2 & C2 & L2).
    exists h2. split; [exact E2|]. split; [exact W2|]. split; [|exact L2].
    rewrite C2. change (Pos.to_nat 1) with 1%nat. apply pcong_peq. rewrite ppow_1. reflexivity.
Qed.

Theorem gf_pow_mod_spec p m f n : prime p -> wf p m -> m <> [] -> wf p f ->
  exists c, gf_pow_mod p m f n = Ok c /\ wf p c /\ pcong p m c (ppow f (N.to_nat n)) /\
    (n <> 0%N -> (length c < length m)%nat).
Proof.
  intros Hp Wm Hne Wf. pose proof (prime_pos p Hp) as Hp0.
  assert (Hp1 : 1 < p) by (destruct Hp; lia).
  assert (W1 : wf p (from_vec [1] p)) by (apply from_vec_wf; auto).
  assert (P1 : peqm p (from_vec [1] p) [1]) by (apply from_vec_peqm; auto).
  assert (Loop : forall num, exists c, pow_mod_loop p m num f (from_vec [1] p) = Ok c /\ wf p c /\
            pcong p m c (ppow f (Pos.to_nat num)) /\ (Npos num <> 0%N -> (length c < length m)%nat)).
  { intros num. destruct (pow_mod_loop_spec p m Hp Wm Hne num f (from_vec [1] p) Wf W1) as (c & Ec & Wc & Cc & Lc).
    exists c. split; [exact Ec|]. split; [exact Wc|]. split; [|intros _; exact Lc].
    rewrite Cc. apply pcong_peqm. rewrite P1, pmul_1_l. reflexivity. }
  destruct n as [|num]; cbn [gf_pow_mod N.to_nat].
  - exists (from_vec [1] p). split; [reflexivity|]. split; [exact W1|]. split; [|congruence].
    apply pcong_peqm. exact P1.
  - destruct num as [q|q|].
    + apply Loop.
    + destruct q as [q'|q'|]; try apply Loop.
      destruct (sqr_mod_spec p m f Hp Wm Hne Wf) as (c & Ec & Wc & Cc & Lc).
      exists c. split; [exact Ec|]. split; [exact Wc|]. split; [|intros _; exact Lc].
      rewrite Cc. change (Pos.to_nat 2) with 2%nat. apply pcong_peq. cbn [ppow]. rewrite pmul_1_r. reflexivity.
    + unfold gf_mod. destruct (gf_rem_pcong p f m Hp Wf Wm Hne) as (r & Er & Wr & Cr & Lr).
      exists r. split; [exact Er|]. split; [exact Wr|]. split; [|intros _; exact Lr].
      rewrite Cr. change (Pos.to_nat 1) with 1%nat. apply pcong_peq. rewrite ppow_1. reflexivity.
Qed.

(* ---------- composition modulo a polynomial ---------- *)
Lemma compose_fold_spec p m h : prime p -> wf p m -> m <> [] -> wf p h ->
  forall rest out suffix, wf p out -> pcong p m out (pcomp suffix h) ->
  exists c, fold_left (compose_step p m h) rest (Ok out) = Ok c /\ wf p c /\
    pcong p m c (pcomp (rev rest ++ suffix) h) /\ (rest <> [] -> (length c < length m)%nat).
Proof.
  intros Hp Wm Hne Wh. pose proof (prime_pos p Hp) as Hp0.
  induction rest as [|gi rest IH]; intros out suffix Wo Co.
  - exists out. cbn. split; [reflexivity|]. split; [exact Wo|]. split; [exact Co|congruence].
  - cbn [fold_left compose_step bind].
    destruct (gf_mul_assign_spec p out h Hp0 Wo Wh) as (o1 & E1 & W1 & P1).
    rewrite E1. cbn [bind].
    destruct (gf_add_int_spec p o1 gi Hp0 W1) as [W2 P2].
    destruct (gf_rem_pcong p (gf_add_int p o1 gi) m Hp W2 Wm Hne) as (o2 & E2 & W3 & C3 & L3).
    rewrite E2.
    destruct (IH o2 (gi :: suffix) W3) as (c & Ec & Wc & Cc & Lc).
    + rewrite C3. rewrite (pcong_peqm p m _ _ P2). rewrite (pcong_peqm p m _ _ (peqm_padd p _ _ _ _ P1 (peqm_refl p [gi]))).
      rewrite pcomp_cons. rewrite (pcong_pmul p m out (pcomp suffix h) h h Co (pcong_refl p m h)).
      apply pcong_peq. ring.
    + exists c. split; [exact Ec|]. split; [exact Wc|]. split.
      * cbn [rev]. rewrite <- app_assoc. exact Cc.
      * intros _. destruct rest as [|g2 rest']; [|apply Lc; congruence].
        cbn in Ec. inversion Ec; subst c. exact L3.
Qed.

Theorem gf_compose_mod_spec p m g h : prime p -> wf p m -> m <> [] -> wf p g -> wf p h ->
  exists c, gf_compose_mod p m g h = Ok c /\ wf p c /\ pcong p m c (pcomp g h) /\
    ((2 <= length g)%nat -> (length c < length m)%nat).
Proof.
  intros Hp Wm Hne Wg Wh. pose proof (prime_pos p Hp) as Hp0.
  unfold gf_compose_mod.
  destruct (rev g) as [|top rest] eqn:Er.
  - assert (g = []) by (apply (f_equal (@rev Z)) in Er; rewrite rev_involutive in Er; exact Er).
    subst g. exists []. split; [reflexivity|]. split; [apply wf_nil|]. split; [apply pcong_refl|cbn; lia].
  - assert (Eg : g = rev rest ++ [top]).
    { apply (f_equal (@rev Z)) in Er. rewrite rev_involutive in Er. exact Er. }
    destruct (compose_fold_spec p m h Hp Wm Hne Wh rest (from_vec [top] p) [top]) as (c & Ec & Wc & Cc & Lc).
    + apply from_vec_wf; auto.
    + apply pcong_peqm. rewrite from_vec_peqm by auto. rewrite pcomp_const. reflexivity.
    + exists c. split; [exact Ec|]. split; [exact Wc|]. split; [rewrite Eg; exact Cc|].
      intros L. apply Lc. subst g. rewrite app_length, rev_length in L. cbn in L.
      destruct rest; [cbn in L; lia|congruence].
Qed.

(* ---------- exact division, lcm ---------- *)
Theorem gf_quo_exact p f g : prime p -> wf p f -> wf p g -> g <> [] -> pdvd p g f ->
  exists q, gf_quo p f g = Ok q /\ wf p q /\ peqm p f (pmul q g).
Proof.
  intros Hp Wf Wg Hne D.
  destruct (gf_quo_spec p f g Hp Wf Wg Hne) as (q & r & E & Wq & Wr & S & L).
  exists q. split; [exact E|]. split; [exact Wq|].
  assert (Dr : pdvd p g r).
  { assert (R : peqm p r (psub f (pmul q g))) by (rewrite S; apply peq_peqm; ring).
    eapply pdvd_peqm; [reflexivity|symmetry; exact R|].
    apply pdvd_psub; [exact D|apply pdvd_self_pmul_l]. }
  pose proof (pdvd_small_zero p g r Hp Wg Hne Dr L) as R0.
  rewrite S, R0, padd_nil_r. reflexivity.
Qed.

Lemma wf_nonnil_nonzero p a : 0 < p -> wf p a -> a <> [] -> ~ peqm p a [].
Proof. intros Hp W Hne Z0. apply Hne. apply (wf_peqm_nil p a Hp W Z0). Qed.

(* partial: the "least" half of lcm (every common multiple is a multiple of l) is not proved *)
Theorem gf_lcm_spec_partial p f g : prime p -> wf p f -> wf p g -> f <> [] -> g <> [] ->
  exists l d c, gf_lcm p f g = Ok l /\ gf_gcd p f g = Ok d /\ wf p l /\ monic l /\
    pdvd p f l /\ pdvd p g l /\ c mod p <> 0 /\ peqm p (pmul f g) (pscale c (pmul l d)).
Proof.
  intros Hp Wf Wg Hf Hg. pose proof (prime_pos p Hp) as Hp0.
  assert (U : gf_lcm p f g = bind (gf_mul p g f) (fun out => bind (gf_gcd p f g) (fun d =>
                bind (gf_quo p out d) (fun q => Ok (snd (gf_monic p q)))))).
  { destruct f; [congruence|]. destruct g; [congruence|]. reflexivity. }
  rewrite U. clear U.
  destruct (gf_mul_spec p g f Hp0 Wg Wf) as (out & Eo & Wo & Po). rewrite Eo. cbn [bind].
  destruct (gf_gcd_spec p f g Hp Wf Wg) as (d & Ed & Wd & (D1 & D2 & D3) & _ & Md). rewrite Ed. cbn [bind].
  assert (Mon : monic d) by (apply Md; intros [X _]; congruence).
  assert (Hdne : d <> []) by (intros X; subst d; cbn in Mon; discriminate).
  assert (Dout : pdvd p d out).
  { eapply pdvd_peqm; [reflexivity|symmetry; exact Po|]. apply pdvd_pmul_l. exact D1. }
  destruct (gf_quo_exact p out d Hp Wo Wd Hdne Dout) as (q & Eq & Wq & Pq). rewrite Eq. cbn [bind].
  assert (Hgf : ~ peqm p (pmul g f) []).
  { intros Z0. apply pmul_eq_zero in Z0; [|exact Hp].
    destruct Z0 as [Z0|Z0];
      [apply (wf_nonnil_nonzero p g Hp0 Wg Hg Z0)|apply (wf_nonnil_nonzero p f Hp0 Wf Hf Z0)]. }
  assert (Hqne : q <> []).
  { intros X. subst q. apply Hgf. rewrite <- Po, Pq. reflexivity. }
  pose proof (gf_monic_spec p q Hp Wq Hqne) as M.
  destruct (gf_monic p q) as [lc l]. destruct M as (Elc & Wl & Ml & Ll & S1 & S2). cbn [snd].
  destruct (wf_last_nonzero p q Hp0 Wq Hqne) as [Hl1 Hl2].
  exists l, d, lc. split; [reflexivity|]. split; [reflexivity|]. split; [exact Wl|]. split; [exact Ml|].
  assert (Hd0 : ~ peqm p d []) by (apply wf_nonnil_nonzero; auto).
  destruct D1 as [f1 F1]. destruct D2 as [g1 G1].
  assert (Qf : peqm p q (pmul g f1)).
  { apply (pmul_cancel_l p d); auto.
    rewrite (peq_peqm p _ _ (pmul_comm d q)), <- Pq, Po. rewrite F1 at 1. apply peq_peqm. ring. }
  assert (Qg : peqm p q (pmul g1 f)).
  { apply (pmul_cancel_l p d); auto.
    rewrite (peq_peqm p _ _ (pmul_comm d q)), <- Pq, Po. rewrite G1 at 1. apply peq_peqm. ring. }
  split; [|split; [|split]].
  - eapply pdvd_peqm; [reflexivity|symmetry; exact S2|]. apply pdvd_pscale.
    eapply pdvd_peqm; [reflexivity|symmetry; exact Qg|]. apply pdvd_self_pmul_l.
  - eapply pdvd_peqm; [reflexivity|symmetry; exact S2|]. apply pdvd_pscale.
    eapply pdvd_peqm; [reflexivity|symmetry; exact Qf|]. apply pdvd_self_pmul_r.
  - subst lc. exact Hl1.
  - rewrite (peq_peqm p _ _ (pmul_comm f g)), <- Po, Pq. rewrite S1 at 1.
    apply peq_peqm. rewrite pmul_pscale_l. reflexivity.
Qed.

Theorem gf_lcm_zero p f g : f = [] \/ g = [] -> gf_lcm p f g = Ok [].
Proof. intros [H|H]; subst; [reflexivity|]. destruct f; reflexivity. Qed.
