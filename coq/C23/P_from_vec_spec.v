(* C23 obligation: GaloisFieldDict::from_vec (mp_fdiv_r on every entry, then gf_istrip) returns the canonical representative of its argument; the integer constructor likewise. *)
From SE Require Import C23.GFSpec C23.GFProofs.
Local Open Scope Z_scope.
Theorem C23_from_vec_spec :
  forall (p : Z) (v : list Z) (i : Z), 0 < p ->
    wf p (from_vec v p) /\ peqm p (from_vec v p) v /\
    wf p (gf_of_int i p) /\ peqm p (gf_of_int i p) [i].
Proof. exact (fun p v i Hp => conj (from_vec_wf p v Hp) (conj (from_vec_peqm p v Hp) (conj (gf_of_int_wf p i Hp) (gf_of_int_peqm p i Hp)))). Qed.
Print Assumptions C23_from_vec_spec.
