(* C23 obligation: gf_monic: reports the leading coefficient and returns the canonical monic associate. *)
From SE Require Import C23.GFSpec C23.GFProofs.
Local Open Scope Z_scope.
Theorem C23_monic_spec :
  forall (p : Z) (a : gf), prime p -> wf p a -> a <> [] ->
    let '(lc, m) := gf_monic p a in
    lc = last a 0 /\ wf p m /\ monic m /\ length m = length a /\
    peqm p a (pscale lc m) /\ peqm p m (pscale (zinvert lc p) a).
Proof. exact gf_monic_spec. Qed.
Print Assumptions C23_monic_spec.
