(* C23 obligation: operator-= on two polynomials: canonical result equal to the difference in (Z/p)[x]. *)
From SE Require Import C23.GFSpec C23.GFProofs.
Local Open Scope Z_scope.
Theorem C23_sub_spec :
  forall (p : Z) (a b : gf), 0 < p -> wf p a -> wf p b ->
    wf p (gf_sub p a b) /\ peqm p (gf_sub p a b) (psub a b).
Proof. exact gf_sub_spec. Qed.
Print Assumptions C23_sub_spec.
