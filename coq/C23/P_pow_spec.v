(* C23 obligation: gf_pow (right-to-left square and multiply over the bits of an unsigned long): canonical result equal to the n-th power, for every n. *)
From SE Require Import C23.GFSpec C23.GFProofs.
Local Open Scope Z_scope.
Theorem C23_pow_spec :
  forall (p : Z) (f : gf) (n : N), 1 < p -> wf p f ->
    exists c, gf_pow p f n = Ok c /\ wf p c /\ peqm p c (ppow f (N.to_nat n)).
Proof. exact gf_pow_spec. Qed.
Print Assumptions C23_pow_spec.
