(* C23 obligation: operator%=(polynomial): returns the remainder of the division with remainder. *)
From SE Require Import C23.GFSpec C23.GFProofs.
Local Open Scope Z_scope.
Theorem C23_rem_spec :
  forall (p : Z) (f g : gf), prime p -> wf p f -> wf p g -> g <> [] ->
    exists q r, gf_rem p f g = Ok r /\ wf p q /\ wf p r /\
      peqm p f (padd (pmul q g) r) /\ (length r < length g)%nat.
Proof. exact gf_rem_spec. Qed.
Print Assumptions C23_rem_spec.
