(* C23 obligation: operator+= on two polynomials: canonical result equal to the sum in (Z/p)[x], for all canonical operands of any lengths. *)
From SE Require Import C23.GFSpec C23.GFProofs.
Local Open Scope Z_scope.
Theorem C23_add_spec :
  forall (p : Z) (a b : gf), 0 < p -> wf p a -> wf p b ->
    wf p (gf_add p a b) /\ peqm p (gf_add p a b) (padd a b).
Proof. exact gf_add_spec. Qed.
Print Assumptions C23_add_spec.
