(* C23: the hypotheses of the theorems are met by concrete non-trivial inputs, and the model
   computes the expected values on them (evaluated by the kernel). *)
From SE Require Import C23.GFSpec C23.GFProofs.
From Coq Require Import Lia.
Local Open Scope Z_scope.

Example C23_prime_7 : prime 7.
Proof.
  apply prime_intro; [lia|]. intros n Hn.
  assert (H : n = 1 \/ n = 2 \/ n = 3 \/ n = 4 \/ n = 5 \/ n = 6) by lia.
  destruct H as [H|[H|[H|[H|[H|H]]]]]; subst n; apply Zgcd_1_rel_prime; reflexivity.
Qed.

Definition wfb (p : Z) (l : list Z) : bool :=
  forallb (fun c => (0 <=? c) && (c <? p)) l && negb (last l 1 =? 0).
Lemma wfb_wf p l : wfb p l = true -> wf p l.
Proof.
  unfold wfb. intros H. apply andb_prop in H. destruct H as [H1 H2]. split.
  - apply Forall_forall. intros c Hc. rewrite forallb_forall in H1. specialize (H1 c Hc). lia.
  - unfold stripped. intros E. rewrite E in H2. discriminate.
Qed.

(* x^6 + x^5 + 2x^4 + 3x^3 + 4x^2 + 5x + 6  divided by  x^3 + x^2 + x + 1  over GF(7) *)
Example C23_div_example :
  wf 7 [6; 5; 4; 3; 2; 1; 1] /\ wf 7 [1; 1; 1; 1] /\ [1; 1; 1; 1] <> [] /\
  gf_div 7 [6; 5; 4; 3; 2; 1; 1] [1; 1; 1; 1] = Ok ([1; 1; 0; 1], [5; 3; 2]).
Proof.
  split; [apply wfb_wf; reflexivity|]. split; [apply wfb_wf; reflexivity|].
  split; [congruence|vm_compute; reflexivity].
Qed.

(* gcd((x+1)^2 (x+3), (x+1)(x+5)) = x + 1, lcm, powers and modular powers over GF(7) *)
Example C23_gcd_pow_example :
  gf_gcd 7 [3; 0; 5; 1] [5; 6; 1] = Ok [1; 1] /\
  gf_lcm 7 [3; 0; 5; 1] [5; 6; 1] = Ok [1; 3; 4; 3; 1] /\
  gf_pow 7 [1; 1] 7 = Ok [1; 0; 0; 0; 0; 0; 0; 1] /\
  gf_pow_mod 7 [1; 1; 1; 1] [3; 1] 100 = Ok [0; 5] /\
  wf 7 [3; 0; 5; 1] /\ wf 7 [5; 6; 1].
Proof.
  split; [vm_compute; reflexivity|]. split; [vm_compute; reflexivity|].
  split; [vm_compute; reflexivity|]. split; [vm_compute; reflexivity|].
  split; apply wfb_wf; reflexivity.
Qed.

(* the two inputs on which the library used to be wrong (repaired in bc03f74, da7c58d) *)
Example C23_repaired_examples :
  gf_add_int 5 [] 3 = [3] /\
  gf_compose_mod 5 [1; 0; 0; 1] [1; 0; 1] [] = Ok [1] /\
  gf_eval 5 [0; 1] (-1) = 4.
Proof. repeat split; vm_compute; reflexivity. Qed.
Print Assumptions C23_div_example.
Print Assumptions C23_gcd_pow_example.
