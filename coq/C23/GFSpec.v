(* C23 -- specification side, part 2: what the theorems about the model say.
   Polynomials over Z/p are coefficient lists (GFPolyDefs.v):
     [peqm p a b]   a and b are the same polynomial of (Z/p)[x]
     [wf p a]       a is the canonical representative (coefficients in [0,p), no trailing 0);
                    canonical representatives are unique (GFPolyLemmas.wf_unique), so
                    "wf p r /\ peqm p r e" pins the result r of an operation exactly
     [pdvd p d f]   d divides f in (Z/p)[x];  [pcong p m a b]  a = b modulo m in (Z/p)[x]
   The modulus is a prime (Znumtheory.prime). *)
From SE Require Export C23.GFModel C23.GFPolyDefs.
From Coq Require Export Znumtheory.
Local Open Scope Z_scope.

(* the constant polynomial c *)
Definition pconst (c : Z) : list Z := [c].

(* d is a greatest common divisor of f and g in (Z/p)[x] *)
Definition is_gcd (p : Z) (d f g : list Z) : Prop :=
  pdvd p d f /\ pdvd p d g /\ forall e, pdvd p e f -> pdvd p e g -> pdvd p e d.

(* result of an operation that cannot fail: canonical and equal to the schoolbook value *)
Definition computes (p : Z) (r : res gf) (e : list Z) : Prop :=
  exists c, r = Ok c /\ wf p c /\ peqm p c e.
