(* C23 -- lemmas about the schoolbook polynomials of GFPolyDefs.v:
   coefficients, the two equalities (peq, peqm), ring laws (with a registered
   setoid ring for [peq]), canonical forms, divisibility in (Z/p)[x], and
   evaluation / composition / derivative.  No axioms. *)
From SE Require Export C23.GFPolyDefs.
From Coq Require Import Lia ZifyBool ZifyNat Znumtheory Setoid Morphisms Ring.
Local Open Scope Z_scope.
Local Arguments Z.mul : simpl never.
Local Arguments Z.add : simpl never.
Local Arguments Z.of_nat : simpl never.

(* ------------------------------------------------------------------ *)
(** * A. coefficients *)

Lemma coef_nil k : coef [] k = 0.
Proof. unfold coef. destruct k; reflexivity. Qed.

Lemma coef_cons_O x a : coef (x :: a) 0 = x.
Proof. reflexivity. Qed.

Lemma coef_cons_S x a k : coef (x :: a) (S k) = coef a k.
Proof. reflexivity. Qed.

Lemma coef_cons x a k : coef (x :: a) k = match k with O => x | S k' => coef a k' end.
Proof. destruct k; reflexivity. Qed.

Lemma coef_overflow a k : (length a <= k)%nat -> coef a k = 0.
Proof. intros H. unfold coef. apply nth_overflow; exact H. Qed.

Lemma last_coef a : last a 0 = coef a (length a - 1).
Proof.
  induction a as [|x a IH]; [reflexivity|].
  destruct a as [|y a]; [reflexivity|].
  change (last (x :: y :: a) 0) with (last (y :: a) 0). rewrite IH.
  cbn [length]. rewrite !Nat.sub_succ, !Nat.sub_0_r. reflexivity.
Qed.

Lemma coef_padd a b k : coef (padd a b) k = coef a k + coef b k.
Proof.
  revert b k. induction a as [|x a IH]; intros b k.
  - cbn [padd]. rewrite coef_nil. lia.
  - destruct b as [|y b].
    + cbn [padd]. rewrite coef_nil. lia.
    + cbn [padd]. destruct k as [|k].
      * rewrite !coef_cons_O. reflexivity.
      * rewrite !coef_cons_S. apply IH.
Qed.

Lemma coef_pscale c a k : coef (pscale c a) k = c * coef a k.
Proof.
  revert k. induction a as [|x a IH]; intros k.
  - cbn [pscale map]. rewrite coef_nil. lia.
  - cbn [pscale map]. destruct k as [|k].
    + reflexivity.
    + rewrite !coef_cons_S. apply IH.
Qed.

Lemma coef_popp a k : coef (popp a) k = - coef a k.
Proof. unfold popp. rewrite coef_pscale. lia. Qed.

Lemma coef_psub a b k : coef (psub a b) k = coef a k - coef b k.
Proof. unfold psub. rewrite coef_padd, coef_popp. lia. Qed.

Lemma coef_repeat0 n k : coef (repeat 0 n) k = 0.
Proof.
  revert k. induction n as [|n IH]; intros k.
  - apply coef_nil.
  - cbn [repeat]. destruct k; [reflexivity|]. rewrite coef_cons_S. apply IH.
Qed.

Lemma coef_app_l a b k : (k < length a)%nat -> coef (a ++ b) k = coef a k.
Proof. intros H. unfold coef. apply app_nth1; exact H. Qed.

Lemma coef_app_r a b k : (length a <= k)%nat -> coef (a ++ b) k = coef b (k - length a).
Proof. intros H. unfold coef. apply app_nth2; lia. Qed.

Lemma coef_pshift n a k :
  coef (pshift n a) k = if (k <? n)%nat then 0 else coef a (k - n).
Proof.
  unfold pshift. destruct (Nat.ltb_spec k n) as [H|H].
  - rewrite coef_app_l by (rewrite repeat_length; exact H). apply coef_repeat0.
  - rewrite coef_app_r by (rewrite repeat_length; exact H).
    rewrite repeat_length. reflexivity.
Qed.

(** ** finite sums *)

Lemma zsum_ext n F G : (forall j, (j < n)%nat -> F j = G j) -> zsum n F = zsum n G.
Proof.
  induction n as [|n IH]; intros H; [reflexivity|].
  cbn [zsum]. rewrite IH by (intros; apply H; lia). rewrite H by lia. reflexivity.
Qed.

Lemma zsum_0 n F : (forall j, (j < n)%nat -> F j = 0) -> zsum n F = 0.
Proof.
  induction n as [|n IH]; intros H; [reflexivity|].
  cbn [zsum]. rewrite IH by (intros; apply H; lia). rewrite H by lia. reflexivity.
Qed.

Lemma zsum_add n F G : zsum n (fun j => F j + G j) = zsum n F + zsum n G.
Proof. induction n as [|n IH]; [reflexivity|]. cbn [zsum]. rewrite IH. ring. Qed.

Lemma zsum_scale c n F : c * zsum n F = zsum n (fun j => c * F j).
Proof. induction n as [|n IH]; cbn [zsum]; [ring|]. rewrite <- IH. ring. Qed.

Lemma zsum_scale_r c n F : zsum n F * c = zsum n (fun j => F j * c).
Proof. induction n as [|n IH]; cbn [zsum]; [ring|]. rewrite <- IH. ring. Qed.

Lemma zsum_opp n F : - zsum n F = zsum n (fun j => - F j).
Proof. induction n as [|n IH]; cbn [zsum]; [ring|]. rewrite <- IH. ring. Qed.

Lemma zsum_split n m F : zsum (n + m) F = zsum n F + zsum m (fun j => F (n + j)%nat).
Proof.
  induction m as [|m IH].
  - rewrite Nat.add_0_r. cbn [zsum]. ring.
  - rewrite Nat.add_succ_r. cbn [zsum]. rewrite IH. ring.
Qed.

Lemma zsum_S_l n F : zsum (S n) F = F O + zsum n (fun j => F (S j)).
Proof.
  change (S n) with (1 + n)%nat. rewrite zsum_split. cbn [zsum].
  rewrite Z.add_0_l. reflexivity.
Qed.

Lemma zsum_single n F i :
  (i < n)%nat -> (forall j, (j < n)%nat -> j <> i -> F j = 0) -> zsum n F = F i.
Proof.
  intros Hi H.
  assert (E : n = (i + S (n - S i))%nat) by lia.
  remember (n - S i)%nat as m eqn:Em. clear Em. subst n.
  rewrite zsum_split, zsum_S_l.
  rewrite (zsum_0 i) by (intros; apply H; lia).
  rewrite (zsum_0 m) by (intros; apply H; lia).
  rewrite Nat.add_0_r. ring.
Qed.

Lemma zsum_rev n F : zsum n F = zsum n (fun j => F (n - 1 - j)%nat).
Proof.
  revert F. induction n as [|n IH]; intros F; [reflexivity|].
  rewrite zsum_S_l. cbn [zsum]. rewrite (IH (fun j => F (S j))).
  replace (S n - 1 - n)%nat with O by lia.
  rewrite Z.add_comm. f_equal.
  apply zsum_ext. intros j Hj. f_equal. lia.
Qed.

(* exchange of the order of summation on a triangle *)
Lemma zsum_zsum_swap n m (F : nat -> nat -> Z) :
  zsum n (fun i => zsum m (fun j => F i j)) = zsum m (fun j => zsum n (fun i => F i j)).
Proof.
  induction n as [|n IH]; cbn [zsum].
  - symmetry. apply zsum_0. reflexivity.
  - rewrite IH, <- zsum_add. reflexivity.
Qed.

Lemma modeq_add p x x' y y' :
  x mod p = x' mod p -> y mod p = y' mod p -> (x + y) mod p = (x' + y') mod p.
Proof. intros H1 H2. rewrite (Zplus_mod x), (Zplus_mod x'), H1, H2. reflexivity. Qed.

Lemma modeq_mul p x x' y y' :
  x mod p = x' mod p -> y mod p = y' mod p -> (x * y) mod p = (x' * y') mod p.
Proof. intros H1 H2. rewrite (Zmult_mod x), (Zmult_mod x'), H1, H2. reflexivity. Qed.

Lemma modeq_opp p x x' : x mod p = x' mod p -> (- x) mod p = (- x') mod p.
Proof.
  intros H. replace (- x) with (-1 * x) by ring. replace (- x') with (-1 * x') by ring.
  apply modeq_mul; [reflexivity|exact H].
Qed.

Lemma modeq_sub p x x' y y' :
  x mod p = x' mod p -> y mod p = y' mod p -> (x - y) mod p = (x' - y') mod p.
Proof.
  intros H1 H2. unfold Z.sub. apply modeq_add; [exact H1|]. apply modeq_opp; exact H2.
Qed.

Lemma modeq_pow p x x' n : x mod p = x' mod p -> (x ^ Z.of_nat n) mod p = (x' ^ Z.of_nat n) mod p.
Proof.
  intros H. induction n as [|n IH]; [reflexivity|].
  rewrite Nat2Z.inj_succ, !Z.pow_succ_r by lia. apply modeq_mul; assumption.
Qed.

Lemma zsum_mod p n F G :
  (forall j, (j < n)%nat -> F j mod p = G j mod p) -> zsum n F mod p = zsum n G mod p.
Proof.
  induction n as [|n IH]; intros H; [reflexivity|].
  cbn [zsum]. apply modeq_add; [apply IH; intros; apply H; lia | apply H; lia].
Qed.

(** ** lengths *)

Lemma length_padd a b : length (padd a b) = Nat.max (length a) (length b).
Proof.
  revert b. induction a as [|x a IH]; intros b; [reflexivity|].
  destruct b as [|y b]; [reflexivity|]. cbn [padd length]. rewrite IH. reflexivity.
Qed.

Lemma length_pscale c a : length (pscale c a) = length a.
Proof. unfold pscale. apply map_length. Qed.

Lemma length_popp a : length (popp a) = length a.
Proof. apply length_pscale. Qed.

Lemma length_psub a b : length (psub a b) = Nat.max (length a) (length b).
Proof. unfold psub. rewrite length_padd, length_popp. reflexivity. Qed.

Lemma length_pshift n a : length (pshift n a) = (n + length a)%nat.
Proof. unfold pshift. rewrite app_length, repeat_length. reflexivity. Qed.

Lemma length_nonnil {A} (a : list A) : a <> [] -> (0 < length a)%nat.
Proof. destruct a; [congruence|cbn [length]; lia]. Qed.

Lemma length_pmul a b :
  a <> [] -> b <> [] -> length (pmul a b) = (length a + length b - 1)%nat.
Proof.
  intros Ha Hb. pose proof (length_nonnil b Hb) as Lb.
  induction a as [|x a IH]; [congruence|].
  cbn [pmul]. rewrite length_padd, length_pscale. cbn [length].
  destruct a as [|y a].
  - cbn [pmul length]. lia.
  - rewrite IH by congruence. cbn [length]. lia.
Qed.

Lemma length_pmul_le a b : (length (pmul a b) <= length a + length b)%nat.
Proof.
  induction a as [|x a IH]; [cbn; lia|].
  cbn [pmul]. rewrite length_padd, length_pscale. cbn [length] in *. lia.
Qed.

Lemma length_pdiff_from i a : length (pdiff_from i a) = length a.
Proof.
  revert i. induction a as [|x a IH]; intros i; [reflexivity|].
  cbn [pdiff_from length]. rewrite IH. reflexivity.
Qed.

Lemma length_pdiff a : length (pdiff a) = (length a - 1)%nat.
Proof.
  unfold pdiff. rewrite length_pdiff_from. destruct a; cbn [tl length]; lia.
Qed.

(** ** coefficients of products and derivatives *)

Lemma coef_pmul a b k :
  coef (pmul a b) k = zsum (S k) (fun j => coef a j * coef b (k - j)).
Proof.
  revert k. induction a as [|x a IH]; intros k.
  - cbn [pmul]. rewrite coef_nil. symmetry. apply zsum_0.
    intros j _. rewrite coef_nil. ring.
  - cbn [pmul]. rewrite coef_padd, coef_pscale, zsum_S_l.
    rewrite coef_cons_O, Nat.sub_0_r. f_equal.
    destruct k as [|k].
    + reflexivity.
    + rewrite coef_cons_S, IH. apply zsum_ext. intros j _.
      rewrite coef_cons_S. reflexivity.
Qed.

Lemma coef_pmul_top a b :
  a <> [] -> b <> [] ->
  coef (pmul a b) (length a + length b - 2) = last a 0 * last b 0.
Proof.
  intros Ha Hb. pose proof (length_nonnil a Ha). pose proof (length_nonnil b Hb).
  rewrite coef_pmul, !last_coef.
  rewrite (zsum_single _ _ (length a - 1)%nat).
  - do 2 f_equal. lia.
  - lia.
  - intros j Hj Hne.
    destruct (Nat.lt_ge_cases j (length a - 1)) as [Hlt|Hge].
    + rewrite (coef_overflow b) by lia. ring.
    + rewrite (coef_overflow a) by lia. ring.
Qed.

Lemma coef_pdiff_from i a k :
  coef (pdiff_from i a) k = (i + Z.of_nat k) * coef a k.
Proof.
  revert i k. induction a as [|x a IH]; intros i k.
  - cbn [pdiff_from]. rewrite coef_nil. ring.
  - cbn [pdiff_from]. destruct k as [|k].
    + rewrite !coef_cons_O. f_equal. lia.
    + rewrite !coef_cons_S, IH. f_equal. lia.
Qed.

Lemma coef_tl a k : coef (tl a) k = coef a (S k).
Proof. destruct a; [rewrite !coef_nil; reflexivity|reflexivity]. Qed.

Lemma coef_pdiff a k : coef (pdiff a) k = Z.of_nat (S k) * coef a (S k).
Proof.
  unfold pdiff. rewrite coef_pdiff_from, coef_tl. f_equal. lia.
Qed.

(* ------------------------------------------------------------------ *)
(** * B. the two equalities *)

Lemma peq_refl a : peq a a.
Proof. intros k. reflexivity. Qed.
Lemma peq_sym a b : peq a b -> peq b a.
Proof. intros H k. symmetry. apply H. Qed.
Lemma peq_trans a b c : peq a b -> peq b c -> peq a c.
Proof. intros H1 H2 k. rewrite H1. apply H2. Qed.

Global Instance peq_Equivalence : Equivalence peq.
Proof. split; [exact peq_refl | exact peq_sym | exact peq_trans]. Qed.

Lemma peqm_refl p a : peqm p a a.
Proof. intros k. reflexivity. Qed.
Lemma peqm_sym p a b : peqm p a b -> peqm p b a.
Proof. intros H k. symmetry. apply H. Qed.
Lemma peqm_trans p a b c : peqm p a b -> peqm p b c -> peqm p a c.
Proof. intros H1 H2 k. rewrite H1. apply H2. Qed.

Global Instance peqm_Equivalence p : Equivalence (peqm p).
Proof. split; [exact (peqm_refl p) | exact (peqm_sym p) | exact (peqm_trans p)]. Qed.

Lemma peq_peqm p a b : peq a b -> peqm p a b.
Proof. intros H k. rewrite H. reflexivity. Qed.

Global Instance peq_peqm_subrelation p : subrelation peq (peqm p).
Proof. intros a b. apply peq_peqm. Qed.

Lemma peq_eq a b : a = b -> peq a b.
Proof. intros ->. reflexivity. Qed.

(** ** cons *)

Lemma peq_cons x y a b : x = y -> peq a b -> peq (x :: a) (y :: b).
Proof. intros -> H [|k]; [reflexivity|]. rewrite !coef_cons_S. apply H. Qed.

Lemma peqm_cons p x y a b :
  x mod p = y mod p -> peqm p a b -> peqm p (x :: a) (y :: b).
Proof. intros Hx H [|k]; [exact Hx|]. rewrite !coef_cons_S. apply H. Qed.

Lemma peq_cons_inv x y a b : peq (x :: a) (y :: b) -> x = y /\ peq a b.
Proof. intros H. split; [exact (H O)|]. intros k. exact (H (S k)). Qed.

Lemma peqm_cons_inv p x y a b :
  peqm p (x :: a) (y :: b) -> x mod p = y mod p /\ peqm p a b.
Proof. intros H. split; [exact (H O)|]. intros k. exact (H (S k)). Qed.

Lemma peq_cons_nil_inv x a : peq (x :: a) [] -> x = 0 /\ peq a [].
Proof.
  intros H. split; [exact (H O)|]. intros k. rewrite coef_nil.
  specialize (H (S k)). rewrite coef_cons_S, coef_nil in H. exact H.
Qed.

Lemma peqm_cons_nil_inv p x a : peqm p (x :: a) [] -> x mod p = 0 mod p /\ peqm p a [].
Proof.
  intros H. split; [exact (H O)|]. intros k. rewrite coef_nil.
  specialize (H (S k)). rewrite coef_cons_S, coef_nil in H. exact H.
Qed.

Lemma peq_cons_nil x a : x = 0 -> peq a [] -> peq (x :: a) [].
Proof.
  intros -> H [|k]; [reflexivity|]. rewrite coef_cons_S, H, !coef_nil. reflexivity.
Qed.

Lemma peqm_cons_nil p x a : x mod p = 0 mod p -> peqm p a [] -> peqm p (x :: a) [].
Proof.
  intros Hx H [|k]; [exact Hx|]. rewrite coef_cons_S, H, !coef_nil. reflexivity.
Qed.

Lemma peq_0_nil : peq [0] [].
Proof. apply peq_cons_nil; reflexivity. Qed.

Global Instance cons_peq_Proper : Proper (eq ==> peq ==> peq) (@cons Z).
Proof. intros x y Hxy a b Hab. apply peq_cons; assumption. Qed.

Global Instance cons_peqm_Proper p : Proper (eq ==> peqm p ==> peqm p) (@cons Z).
Proof. intros x y Hxy a b Hab. apply peqm_cons; [rewrite Hxy; reflexivity|assumption]. Qed.

(** ** padd, pscale, popp, psub *)

Lemma peq_padd a a' b b' : peq a a' -> peq b b' -> peq (padd a b) (padd a' b').
Proof. intros Ha Hb k. rewrite !coef_padd, Ha, Hb. reflexivity. Qed.

Lemma peqm_padd p a a' b b' :
  peqm p a a' -> peqm p b b' -> peqm p (padd a b) (padd a' b').
Proof. intros Ha Hb k. rewrite !coef_padd. apply modeq_add; [apply Ha|apply Hb]. Qed.

Global Instance padd_peq_Proper : Proper (peq ==> peq ==> peq) padd.
Proof. intros a a' Ha b b' Hb. apply peq_padd; assumption. Qed.
Global Instance padd_peqm_Proper p : Proper (peqm p ==> peqm p ==> peqm p) padd.
Proof. intros a a' Ha b b' Hb. apply peqm_padd; assumption. Qed.

Lemma peq_pscale c a a' : peq a a' -> peq (pscale c a) (pscale c a').
Proof. intros Ha k. rewrite !coef_pscale, Ha. reflexivity. Qed.

Lemma peqm_pscale_gen p c c' a a' :
  c mod p = c' mod p -> peqm p a a' -> peqm p (pscale c a) (pscale c' a').
Proof. intros Hc Ha k. rewrite !coef_pscale. apply modeq_mul; [exact Hc|apply Ha]. Qed.

Lemma peqm_pscale p c a a' : peqm p a a' -> peqm p (pscale c a) (pscale c a').
Proof. apply peqm_pscale_gen. reflexivity. Qed.

Lemma peqm_pscale_l p x y a : x mod p = y mod p -> peqm p (pscale x a) (pscale y a).
Proof. intros H. apply peqm_pscale_gen; [exact H|reflexivity]. Qed.

Global Instance pscale_peq_Proper : Proper (eq ==> peq ==> peq) pscale.
Proof. intros c c' <- a a' Ha. apply peq_pscale; assumption. Qed.
Global Instance pscale_peqm_Proper p : Proper (eq ==> peqm p ==> peqm p) pscale.
Proof. intros c c' <- a a' Ha. apply peqm_pscale; assumption. Qed.

Lemma peq_popp a a' : peq a a' -> peq (popp a) (popp a').
Proof. apply peq_pscale. Qed.
Lemma peqm_popp p a a' : peqm p a a' -> peqm p (popp a) (popp a').
Proof. apply peqm_pscale. Qed.

Global Instance popp_peq_Proper : Proper (peq ==> peq) popp.
Proof. intros a a' Ha. apply peq_popp; assumption. Qed.
Global Instance popp_peqm_Proper p : Proper (peqm p ==> peqm p) popp.
Proof. intros a a' Ha. apply peqm_popp; assumption. Qed.

Lemma peq_psub a a' b b' : peq a a' -> peq b b' -> peq (psub a b) (psub a' b').
Proof. intros Ha Hb. unfold psub. apply peq_padd; [exact Ha|apply peq_popp; exact Hb]. Qed.
Lemma peqm_psub p a a' b b' :
  peqm p a a' -> peqm p b b' -> peqm p (psub a b) (psub a' b').
Proof. intros Ha Hb. unfold psub. apply peqm_padd; [exact Ha|apply peqm_popp; exact Hb]. Qed.

Global Instance psub_peq_Proper : Proper (peq ==> peq ==> peq) psub.
Proof. intros a a' Ha b b' Hb. apply peq_psub; assumption. Qed.
Global Instance psub_peqm_Proper p : Proper (peqm p ==> peqm p ==> peqm p) psub.
Proof. intros a a' Ha b b' Hb. apply peqm_psub; assumption. Qed.

(** ** pmul, pshift, ppow *)

Lemma peq_pmul a a' b b' : peq a a' -> peq b b' -> peq (pmul a b) (pmul a' b').
Proof.
  intros Ha Hb k. rewrite !coef_pmul. apply zsum_ext. intros j _.
  rewrite Ha, Hb. reflexivity.
Qed.

Lemma peqm_pmul p a a' b b' :
  peqm p a a' -> peqm p b b' -> peqm p (pmul a b) (pmul a' b').
Proof.
  intros Ha Hb k. rewrite !coef_pmul. apply zsum_mod. intros j _.
  apply modeq_mul; [apply Ha|apply Hb].
Qed.

Global Instance pmul_peq_Proper : Proper (peq ==> peq ==> peq) pmul.
Proof. intros a a' Ha b b' Hb. apply peq_pmul; assumption. Qed.
Global Instance pmul_peqm_Proper p : Proper (peqm p ==> peqm p ==> peqm p) pmul.
Proof. intros a a' Ha b b' Hb. apply peqm_pmul; assumption. Qed.

Lemma peq_pshift n a a' : peq a a' -> peq (pshift n a) (pshift n a').
Proof. intros Ha k. rewrite !coef_pshift. destruct (k <? n)%nat; [reflexivity|apply Ha]. Qed.
Lemma peqm_pshift p n a a' : peqm p a a' -> peqm p (pshift n a) (pshift n a').
Proof. intros Ha k. rewrite !coef_pshift. destruct (k <? n)%nat; [reflexivity|apply Ha]. Qed.

Global Instance pshift_peq_Proper n : Proper (peq ==> peq) (pshift n).
Proof. intros a a' Ha. apply peq_pshift; assumption. Qed.
Global Instance pshift_peqm_Proper p n : Proper (peqm p ==> peqm p) (pshift n).
Proof. intros a a' Ha. apply peqm_pshift; assumption. Qed.

Lemma peq_ppow n a a' : peq a a' -> peq (ppow a n) (ppow a' n).
Proof.
  intros Ha. induction n as [|n IH]; [reflexivity|].
  cbn [ppow]. apply peq_pmul; assumption.
Qed.
Lemma peqm_ppow p n a a' : peqm p a a' -> peqm p (ppow a n) (ppow a' n).
Proof.
  intros Ha. induction n as [|n IH]; [reflexivity|].
  cbn [ppow]. apply peqm_pmul; assumption.
Qed.

Global Instance ppow_peq_Proper : Proper (peq ==> eq ==> peq) ppow.
Proof. intros a a' Ha n n' <-. apply peq_ppow; assumption. Qed.
Global Instance ppow_peqm_Proper p : Proper (peqm p ==> eq ==> peqm p) ppow.
Proof. intros a a' Ha n n' <-. apply peqm_ppow; assumption. Qed.

(** ** pdiff *)

Lemma peq_pdiff a a' : peq a a' -> peq (pdiff a) (pdiff a').
Proof. intros Ha k. rewrite !coef_pdiff, Ha. reflexivity. Qed.
Lemma peqm_pdiff p a a' : peqm p a a' -> peqm p (pdiff a) (pdiff a').
Proof. intros Ha k. rewrite !coef_pdiff. apply modeq_mul; [reflexivity|apply Ha]. Qed.

Global Instance pdiff_peq_Proper : Proper (peq ==> peq) pdiff.
Proof. intros a a' Ha. apply peq_pdiff; assumption. Qed.
Global Instance pdiff_peqm_Proper p : Proper (peqm p ==> peqm p) pdiff.
Proof. intros a a' Ha. apply peqm_pdiff; assumption. Qed.

(** ** pcomp *)

Lemma pmul_nil_r_eq a : peq (pmul a []) [].
Proof.
  intros k. rewrite coef_pmul, coef_nil. apply zsum_0. intros j _.
  rewrite coef_nil. ring.
Qed.

Lemma pcomp_peq_nil g h : peq g [] -> peq (pcomp g h) [].
Proof.
  induction g as [|c g IH]; intros H; [reflexivity|].
  apply peq_cons_nil_inv in H. destruct H as [-> H].
  cbn [pcomp]. rewrite (IH H), pmul_nil_r_eq. exact peq_0_nil.
Qed.

Lemma pcomp_peqm_nil p g h : peqm p g [] -> peqm p (pcomp g h) [].
Proof.
  induction g as [|c g IH]; intros H; [reflexivity|].
  apply peqm_cons_nil_inv in H. destruct H as [Hc H].
  cbn [pcomp]. rewrite (IH H), pmul_nil_r_eq.
  cbn [padd]. apply peqm_cons_nil; [exact Hc|reflexivity].
Qed.

Lemma peq_pcomp g g' h h' : peq g g' -> peq h h' -> peq (pcomp g h) (pcomp g' h').
Proof.
  intros Hg Hh. revert g' Hg. induction g as [|c g IH]; intros g' Hg.
  - symmetry. cbn [pcomp]. apply pcomp_peq_nil. symmetry. exact Hg.
  - destruct g' as [|c' g'].
    + transitivity (pcomp (c :: g) h').
      * cbn [pcomp]. rewrite (IH g) by reflexivity. rewrite Hh. reflexivity.
      * apply pcomp_peq_nil. exact Hg.
    + apply peq_cons_inv in Hg. destruct Hg as [-> Hg].
      cbn [pcomp]. rewrite (IH g' Hg), Hh. reflexivity.
Qed.

Lemma peqm_single p x y : x mod p = y mod p -> peqm p [x] [y].
Proof. intros H. apply peqm_cons; [exact H|reflexivity]. Qed.

Lemma peqm_pcomp p g g' h h' :
  peqm p g g' -> peqm p h h' -> peqm p (pcomp g h) (pcomp g' h').
Proof.
  intros Hg Hh. revert g' Hg. induction g as [|c g IH]; intros g' Hg.
  - symmetry. cbn [pcomp]. apply pcomp_peqm_nil. symmetry. exact Hg.
  - destruct g' as [|c' g'].
    + transitivity (pcomp (c :: g) h').
      * cbn [pcomp]. rewrite (IH g) by reflexivity. rewrite Hh. reflexivity.
      * apply pcomp_peqm_nil. exact Hg.
    + apply peqm_cons_inv in Hg. destruct Hg as [Hc Hg].
      cbn [pcomp]. rewrite (IH g' Hg), Hh. rewrite (peqm_single p c c' Hc). reflexivity.
Qed.

Global Instance pcomp_peq_Proper : Proper (peq ==> peq ==> peq) pcomp.
Proof. intros a a' Ha b b' Hb. apply peq_pcomp; assumption. Qed.
Global Instance pcomp_peqm_Proper p : Proper (peqm p ==> peqm p ==> peqm p) pcomp.
Proof. intros a a' Ha b b' Hb. apply peqm_pcomp; assumption. Qed.

(** ** misc *)

Lemma peqm_map_mod p a : peqm p (map (fun c => c mod p) a) a.
Proof.
  induction a as [|x a IH]; [reflexivity|].
  cbn [map]. apply peqm_cons; [apply Zmod_mod|exact IH].
Qed.

Lemma peq_app_zeros a n : peq (a ++ repeat 0 n) a.
Proof.
  intros k. destruct (Nat.lt_ge_cases k (length a)) as [H|H].
  - apply coef_app_l; exact H.
  - rewrite coef_app_r by exact H. rewrite coef_repeat0.
    symmetry. apply coef_overflow; exact H.
Qed.

Lemma peq_nil_iff a : peq a [] <-> Forall (fun c => c = 0) a.
Proof.
  induction a as [|x a IH]; split; intros H.
  - constructor.
  - reflexivity.
  - apply peq_cons_nil_inv in H. constructor; [tauto|apply IH; tauto].
  - inversion H; subst. apply peq_cons_nil; [reflexivity|apply IH; assumption].
Qed.

(* ------------------------------------------------------------------ *)
(** * C. ring laws modulo [peq] *)

Ltac pcoef :=
  repeat (rewrite coef_padd || rewrite coef_psub || rewrite coef_popp ||
          rewrite coef_pscale || rewrite coef_nil || rewrite coef_cons_O ||
          rewrite coef_cons_S).

Lemma padd_comm a b : peq (padd a b) (padd b a).
Proof. intros k. pcoef. ring. Qed.

Lemma padd_assoc a b c : peq (padd a (padd b c)) (padd (padd a b) c).
Proof. intros k. pcoef. ring. Qed.

Lemma padd_nil_l a : peq (padd [] a) a.
Proof. reflexivity. Qed.

Lemma padd_nil_r a : peq (padd a []) a.
Proof. intros k. pcoef. ring. Qed.

Lemma padd_popp a : peq (padd a (popp a)) [].
Proof. intros k. pcoef. ring. Qed.

Lemma psub_def a b : peq (psub a b) (padd a (popp b)).
Proof. reflexivity. Qed.

Lemma pscale_pscale c d a : peq (pscale c (pscale d a)) (pscale (c * d) a).
Proof. intros k. pcoef. ring. Qed.

Lemma pscale_padd c a b : peq (pscale c (padd a b)) (padd (pscale c a) (pscale c b)).
Proof. intros k. pcoef. ring. Qed.

Lemma pscale_1 a : peq (pscale 1 a) a.
Proof. intros k. pcoef. ring. Qed.

Lemma pscale_0 a : peq (pscale 0 a) [].
Proof. intros k. pcoef. ring. Qed.

Lemma pscale_nil c : pscale c [] = [].
Proof. reflexivity. Qed.

Lemma pscale_add_l c d a : peq (pscale (c + d) a) (padd (pscale c a) (pscale d a)).
Proof. intros k. pcoef. ring. Qed.

Lemma popp_as_pscale a : popp a = pscale (-1) a.
Proof. reflexivity. Qed.

Lemma pmul_nil_l a : peq (pmul [] a) [].
Proof. reflexivity. Qed.

Lemma pmul_nil_r a : peq (pmul a []) [].
Proof. exact (pmul_nil_r_eq a). Qed.

Lemma pmul_cons_l x a b : pmul (x :: a) b = padd (pscale x b) (0 :: pmul a b).
Proof. reflexivity. Qed.

Lemma pmul_cons_r a x b : peq (pmul a (x :: b)) (padd (pscale x a) (0 :: pmul a b)).
Proof.
  induction a as [|y a IH].
  - cbn [pmul pscale map padd]. symmetry. exact peq_0_nil.
  - cbn [pmul]. intros [|k].
    + pcoef. ring.
    + pcoef. rewrite (IH k). pcoef. destruct k as [|k]; pcoef; ring.
Qed.

Lemma pmul_comm a b : peq (pmul a b) (pmul b a).
Proof.
  induction a as [|x a IH].
  - rewrite pmul_nil_r. reflexivity.
  - rewrite pmul_cons_r. cbn [pmul]. rewrite IH. reflexivity.
Qed.

Lemma pmul_1_l a : peq (pmul [1] a) a.
Proof. cbn [pmul]. intros [|k]; pcoef; ring. Qed.

Lemma pmul_1_r a : peq (pmul a [1]) a.
Proof. rewrite pmul_comm. apply pmul_1_l. Qed.

Lemma pscale_as_pmul c a : peq (pscale c a) (pmul [c] a).
Proof. cbn [pmul]. intros [|k]; pcoef; ring. Qed.

Lemma pmul_padd_distr_l a b c : peq (pmul a (padd b c)) (padd (pmul a b) (pmul a c)).
Proof.
  induction a as [|x a IH]; [reflexivity|].
  cbn [pmul]. intros [|k]; pcoef; [ring|]. rewrite (IH k). pcoef. ring.
Qed.

Lemma pmul_padd_distr_r a b c : peq (pmul (padd a b) c) (padd (pmul a c) (pmul b c)).
Proof.
  rewrite pmul_comm, pmul_padd_distr_l, (pmul_comm c a), (pmul_comm c b). reflexivity.
Qed.

Lemma pmul_pscale_l c a b : peq (pmul (pscale c a) b) (pscale c (pmul a b)).
Proof.
  induction a as [|x a IH]; [reflexivity|].
  change (pscale c (x :: a)) with ((c * x) :: pscale c a). cbn [pmul].
  intros [|k]; pcoef; [ring|]. rewrite (IH k). pcoef. ring.
Qed.

Lemma pmul_pscale_r c a b : peq (pmul a (pscale c b)) (pscale c (pmul a b)).
Proof. rewrite pmul_comm, pmul_pscale_l, pmul_comm. reflexivity. Qed.

Lemma pmul_cons0_l a b : peq (pmul (0 :: a) b) (0 :: pmul a b).
Proof. cbn [pmul]. rewrite pscale_0. reflexivity. Qed.

Lemma pmul_cons0_r a b : peq (pmul a (0 :: b)) (0 :: pmul a b).
Proof. rewrite pmul_cons_r, pscale_0. reflexivity. Qed.

Lemma pmul_assoc a b c : peq (pmul a (pmul b c)) (pmul (pmul a b) c).
Proof.
  induction a as [|x a IH]; [reflexivity|].
  cbn [pmul]. rewrite pmul_padd_distr_r, pmul_pscale_l, pmul_cons0_l, IH. reflexivity.
Qed.

Lemma popp_as_pmul a : peq (popp a) (pmul (popp [1]) a).
Proof. unfold popp. cbn [pscale map]. apply pscale_as_pmul. Qed.

Lemma poly_ring_theory : ring_theory [] [1] padd pmul psub popp peq.
Proof.
  constructor.
  - exact padd_nil_l.
  - exact padd_comm.
  - exact padd_assoc.
  - exact pmul_1_l.
  - exact pmul_comm.
  - exact pmul_assoc.
  - exact pmul_padd_distr_r.
  - exact psub_def.
  - exact padd_popp.
Qed.

Lemma poly_ring_ext : ring_eq_ext padd pmul popp peq.
Proof.
  constructor.
  - exact padd_peq_Proper.
  - exact pmul_peq_Proper.
  - exact popp_peq_Proper.
Qed.

Lemma peq_Setoid_Theory : Setoid_Theory (list Z) peq.
Proof. exact peq_Equivalence. Qed.

Add Ring poly_ring : poly_ring_theory (setoid peq_Setoid_Theory poly_ring_ext).

(** ** shifts *)

Lemma cons_0_as_pshift a : peq (0 :: a) (pshift 1 a).
Proof. reflexivity. Qed.

Lemma pshift_0 a : pshift 0 a = a.
Proof. reflexivity. Qed.

Lemma pshift_S n a : pshift (S n) a = 0 :: pshift n a.
Proof. reflexivity. Qed.

Lemma pmul_pshift n a b : peq (pmul (pshift n a) b) (pshift n (pmul a b)).
Proof.
  induction n as [|n IH]; [reflexivity|].
  rewrite !pshift_S, pmul_cons0_l, IH. reflexivity.
Qed.

Lemma pmul_pshift_r n a b : peq (pmul a (pshift n b)) (pshift n (pmul a b)).
Proof. rewrite pmul_comm, pmul_pshift, pmul_comm. reflexivity. Qed.

Lemma pshift_as_pmul n a : peq (pshift n a) (pmul (pshift n [1]) a).
Proof. rewrite pmul_pshift, pmul_1_l. reflexivity. Qed.

Lemma pshift_pshift n m a : pshift n (pshift m a) = pshift (n + m) a.
Proof. unfold pshift. rewrite repeat_app, app_assoc. reflexivity. Qed.

Lemma cons_as_padd x a : peq (x :: a) (padd [x] (0 :: a)).
Proof. intros [|k]; pcoef; [ring|]. destruct k; pcoef; ring. Qed.

Lemma cons_0_as_pmul a : peq (0 :: a) (pmul [0; 1] a).
Proof. rewrite pmul_cons0_l, pmul_1_l. reflexivity. Qed.

Lemma single_add x y : peq [x + y] (padd [x] [y]).
Proof. reflexivity. Qed.

Lemma single_mul x y : peq [x * y] (pmul [x] [y]).
Proof. cbn [pmul pscale map padd]. rewrite Z.add_0_r. reflexivity. Qed.

(** ** powers *)

Lemma ppow_0 a : ppow a 0 = [1].
Proof. reflexivity. Qed.

Lemma ppow_S a n : ppow a (S n) = pmul a (ppow a n).
Proof. reflexivity. Qed.

Lemma ppow_1 a : peq (ppow a 1) a.
Proof. cbn [ppow]. apply pmul_1_r. Qed.

Lemma ppow_add a n m : peq (ppow a (n + m)) (pmul (ppow a n) (ppow a m)).
Proof.
  induction n as [|n IH].
  - cbn [Nat.add ppow]. rewrite pmul_1_l. reflexivity.
  - cbn [Nat.add ppow]. rewrite IH. ring.
Qed.

Lemma ppow_one n : peq (ppow [1] n) [1].
Proof.
  induction n as [|n IH]; [reflexivity|]. cbn [ppow]. rewrite IH. ring.
Qed.

Lemma ppow_pmul a b n : peq (ppow (pmul a b) n) (pmul (ppow a n) (ppow b n)).
Proof.
  induction n as [|n IH].
  - cbn [ppow]. ring.
  - cbn [ppow]. rewrite IH. ring.
Qed.

Lemma ppow_mul a n m : peq (ppow a (n * m)) (ppow (ppow a n) m).
Proof.
  induction m as [|m IH].
  - rewrite Nat.mul_0_r. reflexivity.
  - rewrite Nat.mul_succ_r, Nat.add_comm, ppow_add, IH. reflexivity.
Qed.

Lemma ppow_nil n : (0 < n)%nat -> peq (ppow [] n) [].
Proof. destruct n; [lia|]. reflexivity. Qed.

Example poly_ring_example a b :
  peq (pmul (padd a b) (padd a b))
      (padd (pmul a a) (padd (pmul (padd [1] [1]) (pmul a b)) (pmul b b))).
Proof. ring. Qed.

Example poly_ring_example2 a b :
  peq (pmul (psub a b) (padd a b)) (psub (pmul a a) (pmul b b)).
Proof. ring. Qed.

(* ------------------------------------------------------------------ *)
(** * E. canonical forms *)

Fixpoint pstrip (l : list Z) : list Z :=
  match l with
  | [] => []
  | x :: r => match pstrip r with [] => if x =? 0 then [] else [x] | r' => x :: r' end
  end.
Definition pnorm (p : Z) (a : list Z) : list Z := pstrip (map (fun c => c mod p) a).

Lemma pstrip_cons x r :
  pstrip (x :: r) =
  match pstrip r with [] => if x =? 0 then [] else [x] | _ :: _ => x :: pstrip r end.
Proof. cbn [pstrip]. destruct (pstrip r); reflexivity. Qed.

Lemma pstrip_peq a : peq (pstrip a) a.
Proof.
  induction a as [|x r IH]; [reflexivity|].
  rewrite pstrip_cons. destruct (pstrip r) as [|z l].
  - destruct (Z.eqb_spec x 0) as [->|Hx].
    + symmetry. apply peq_cons_nil; [reflexivity|symmetry; exact IH].
    + apply peq_cons; [reflexivity|exact IH].
  - apply peq_cons; [reflexivity|exact IH].
Qed.

Lemma stripped_nil : stripped [].
Proof. unfold stripped. cbn. lia. Qed.

Lemma stripped_cons_cons x y a : stripped (x :: y :: a) <-> stripped (y :: a).
Proof. unfold stripped. reflexivity. Qed.

Lemma stripped_single x : stripped [x] <-> x <> 0.
Proof. unfold stripped. reflexivity. Qed.

Lemma pstrip_stripped a : stripped (pstrip a).
Proof.
  induction a as [|x r IH]; [exact stripped_nil|].
  rewrite pstrip_cons. destruct (pstrip r) as [|z l].
  - destruct (Z.eqb_spec x 0) as [->|Hx]; [exact stripped_nil|].
    apply stripped_single; exact Hx.
  - apply stripped_cons_cons. exact IH.
Qed.

Lemma pstrip_id a : stripped a -> pstrip a = a.
Proof.
  induction a as [|x r IH]; intros H; [reflexivity|].
  rewrite pstrip_cons. destruct r as [|y r].
  - cbn [pstrip]. apply stripped_single in H.
    destruct (Z.eqb_spec x 0); [contradiction|reflexivity].
  - apply stripped_cons_cons in H. rewrite (IH H). reflexivity.
Qed.

Lemma pstrip_length_le a : (length (pstrip a) <= length a)%nat.
Proof.
  induction a as [|x r IH]; [reflexivity|].
  rewrite pstrip_cons. destruct (pstrip r) as [|z l].
  - destruct (x =? 0); cbn [length]; lia.
  - cbn [length] in *. lia.
Qed.

Lemma pstrip_nil_iff a : pstrip a = [] <-> peq a [].
Proof.
  split.
  - intros H. rewrite <- (pstrip_peq a), H. reflexivity.
  - induction a as [|x r IH]; intros H; [reflexivity|].
    apply peq_cons_nil_inv in H. destruct H as [-> H].
    rewrite pstrip_cons, (IH H). reflexivity.
Qed.

Lemma pstrip_peq_eq a b : peq a b -> pstrip a = pstrip b.
Proof.
  revert b. induction a as [|x a IH]; intros b H.
  - symmetry. apply pstrip_nil_iff. symmetry. exact H.
  - destruct b as [|y b].
    + apply pstrip_nil_iff. exact H.
    + apply peq_cons_inv in H. destruct H as [-> H].
      rewrite !pstrip_cons, (IH b H). reflexivity.
Qed.

Lemma pstrip_idem a : pstrip (pstrip a) = pstrip a.
Proof. apply pstrip_id, pstrip_stripped. Qed.

Lemma stripped_peq_eq a b : stripped a -> stripped b -> peq a b -> a = b.
Proof.
  intros Ha Hb H. rewrite <- (pstrip_id a Ha), <- (pstrip_id b Hb).
  apply pstrip_peq_eq; exact H.
Qed.

Lemma reduced_nil p : reduced p [].
Proof. constructor. Qed.

Lemma reduced_cons p x a : reduced p (x :: a) <-> 0 <= x < p /\ reduced p a.
Proof.
  unfold reduced. split; intros H.
  - inversion H; subst. tauto.
  - constructor; tauto.
Qed.

Lemma reduced_pstrip p a : reduced p a -> reduced p (pstrip a).
Proof.
  induction a as [|x r IH]; intros H; [exact H|].
  apply reduced_cons in H. destruct H as [Hx H]. specialize (IH H).
  rewrite pstrip_cons. destruct (pstrip r) as [|z l].
  - destruct (x =? 0); [apply reduced_nil|].
    apply reduced_cons; split; [exact Hx|apply reduced_nil].
  - apply reduced_cons; split; assumption.
Qed.

Lemma reduced_map_mod p a : 0 < p -> reduced p (map (fun c => c mod p) a).
Proof.
  intros Hp. induction a as [|x a IH]; [apply reduced_nil|].
  cbn [map]. apply reduced_cons. split; [apply Z.mod_pos_bound; exact Hp|exact IH].
Qed.

Lemma reduced_map_mod_id p a : reduced p a -> map (fun c => c mod p) a = a.
Proof.
  induction a as [|x a IH]; intros H; [reflexivity|].
  apply reduced_cons in H. destruct H as [Hx H].
  cbn [map]. rewrite (IH H), Z.mod_small by exact Hx. reflexivity.
Qed.

Lemma reduced_coef p a k : 0 < p -> reduced p a -> 0 <= coef a k < p.
Proof.
  intros Hp. revert k. induction a as [|x a IH]; intros k H.
  - rewrite coef_nil. lia.
  - apply reduced_cons in H. destruct H as [Hx H].
    destruct k as [|k]; [exact Hx|]. rewrite coef_cons_S. apply IH; exact H.
Qed.

Lemma reduced_peqm_peq p a b :
  0 < p -> reduced p a -> reduced p b -> peqm p a b -> peq a b.
Proof.
  intros Hp Ha Hb H k. specialize (H k).
  rewrite !Z.mod_small in H by (apply reduced_coef; assumption). exact H.
Qed.

Lemma coef_map_mod p a k : coef (map (fun c => c mod p) a) k = coef a k mod p.
Proof.
  revert k. induction a as [|x a IH]; intros k.
  - cbn [map]. rewrite coef_nil, Zmod_0_l. reflexivity.
  - cbn [map]. destruct k as [|k]; [reflexivity|]. rewrite !coef_cons_S. apply IH.
Qed.

Lemma pnorm_wf p a : 0 < p -> wf p (pnorm p a).
Proof.
  intros Hp. split.
  - apply reduced_pstrip, reduced_map_mod; exact Hp.
  - apply pstrip_stripped.
Qed.

Lemma pnorm_peqm p a : 0 < p -> peqm p (pnorm p a) a.
Proof.
  intros _. unfold pnorm.
  transitivity (map (fun c => c mod p) a).
  - apply peq_peqm, pstrip_peq.
  - apply peqm_map_mod.
Qed.

Lemma pnorm_id p a : 0 < p -> wf p a -> pnorm p a = a.
Proof.
  intros _ [Hr Hs]. unfold pnorm. rewrite (reduced_map_mod_id p a Hr).
  apply pstrip_id; exact Hs.
Qed.

Lemma wf_nil p : wf p [].
Proof. split; [apply reduced_nil|apply stripped_nil]. Qed.

Lemma wf_unique p a b : 0 < p -> wf p a -> wf p b -> peqm p a b -> a = b.
Proof.
  intros Hp [Hra Hsa] [Hrb Hsb] H.
  apply stripped_peq_eq; [assumption..|].
  apply (reduced_peqm_peq p); assumption.
Qed.

Lemma wf_peqm_nil p a : 0 < p -> wf p a -> peqm p a [] -> a = [].
Proof. intros Hp Ha H. apply (wf_unique p); [exact Hp|exact Ha|apply wf_nil|exact H]. Qed.

Lemma pnorm_nil p : pnorm p [] = [].
Proof. reflexivity. Qed.

Lemma peqm_pnorm_eq p a b : 0 < p -> (peqm p a b <-> pnorm p a = pnorm p b).
Proof.
  intros Hp. split; intros H.
  - apply (wf_unique p); [exact Hp|apply pnorm_wf; exact Hp..|].
    rewrite !pnorm_peqm by exact Hp. exact H.
  - rewrite <- (pnorm_peqm p a Hp), H. apply pnorm_peqm; exact Hp.
Qed.

Lemma pnorm_nil_iff p a : 0 < p -> (pnorm p a = [] <-> peqm p a []).
Proof.
  intros Hp. rewrite (peqm_pnorm_eq p a [] Hp), pnorm_nil. reflexivity.
Qed.

Lemma pnorm_idem p a : 0 < p -> pnorm p (pnorm p a) = pnorm p a.
Proof. intros Hp. apply pnorm_id; [exact Hp|apply pnorm_wf; exact Hp]. Qed.

Lemma last_default_irrel {A} (a : list A) d d' : a <> [] -> last a d = last a d'.
Proof.
  induction a as [|x a IH]; intros H; [congruence|].
  destruct a as [|y a]; [reflexivity|].
  change (last (y :: a) d = last (y :: a) d'). apply IH. congruence.
Qed.

Lemma stripped_last a : a <> [] -> (stripped a <-> last a 0 <> 0).
Proof.
  intros H. unfold stripped. rewrite (last_default_irrel a 1 0 H). reflexivity.
Qed.

Lemma wf_last_nonzero p a :
  0 < p -> wf p a -> a <> [] -> last a 0 mod p <> 0 /\ 0 < last a 0 < p.
Proof.
  intros Hp [Hr Hs] Hne.
  apply (stripped_last a Hne) in Hs.
  pose proof (reduced_coef p a (length a - 1) Hp Hr) as Hb.
  rewrite <- last_coef in Hb.
  rewrite Z.mod_small by lia. lia.
Qed.

Lemma length_pnorm_le p a : (length (pnorm p a) <= length a)%nat.
Proof.
  unfold pnorm. etransitivity; [apply pstrip_length_le|]. rewrite map_length. reflexivity.
Qed.

Lemma wf_tail_nonzero p a : 0 < p -> wf p a -> a <> [] -> coef a (length a - 1) mod p <> 0.
Proof.
  intros Hp Hw Hne. rewrite <- last_coef. apply (wf_last_nonzero p a Hp Hw Hne).
Qed.

(* ------------------------------------------------------------------ *)
(** * F. divisibility in (Z/p)[x] *)

(* goals [peqm p l r] where [l] and [r] are equal in the ring Z[x] *)
Ltac pring := apply peq_peqm; ring.

Lemma pdvd_intro p d a q : peqm p a (pmul d q) -> pdvd p d a.
Proof. intros H. exists q. exact H. Qed.

Lemma pdvd_refl p d : pdvd p d d.
Proof. exists [1]. pring. Qed.

Lemma pdvd_trans p a b c : pdvd p a b -> pdvd p b c -> pdvd p a c.
Proof.
  intros [q1 H1] [q2 H2]. exists (pmul q1 q2).
  rewrite H2, H1. pring.
Qed.

Lemma pdvd_nil p d : pdvd p d [].
Proof. exists []. symmetry. apply peq_peqm, pmul_nil_r. Qed.

Lemma pdvd_peqm p d d' a a' : peqm p d d' -> peqm p a a' -> pdvd p d a -> pdvd p d' a'.
Proof.
  intros Hd Ha [q H]. exists q. rewrite <- Ha, <- Hd. exact H.
Qed.

Global Instance pdvd_peqm_Proper p : Proper (peqm p ==> peqm p ==> iff) (pdvd p).
Proof.
  intros d d' Hd a a' Ha. split; apply pdvd_peqm; try assumption; symmetry; assumption.
Qed.

Global Instance pdvd_peq_Proper p : Proper (peq ==> peq ==> iff) (pdvd p).
Proof.
  intros d d' Hd a a' Ha. apply pdvd_peqm_Proper; apply peq_peqm; assumption.
Qed.

Lemma pdvd_padd p d a b : pdvd p d a -> pdvd p d b -> pdvd p d (padd a b).
Proof.
  intros [q1 H1] [q2 H2]. exists (padd q1 q2). rewrite H1, H2. pring.
Qed.

Lemma pdvd_popp p d a : pdvd p d a -> pdvd p d (popp a).
Proof. intros [q H]. exists (popp q). rewrite H. pring. Qed.

Lemma pdvd_psub p d a b : pdvd p d a -> pdvd p d b -> pdvd p d (psub a b).
Proof. intros Ha Hb. unfold psub. apply pdvd_padd; [exact Ha|apply pdvd_popp; exact Hb]. Qed.

Lemma pdvd_pmul_r p d a b : pdvd p d a -> pdvd p d (pmul a b).
Proof. intros [q H]. exists (pmul q b). rewrite H. pring. Qed.

Lemma pdvd_pmul_l p d a b : pdvd p d b -> pdvd p d (pmul a b).
Proof. intros [q H]. exists (pmul a q). rewrite H. pring. Qed.

Lemma pdvd_pscale p d c a : pdvd p d a -> pdvd p d (pscale c a).
Proof.
  intros H. rewrite (peq_peqm p _ _ (pscale_as_pmul c a)). apply pdvd_pmul_l; exact H.
Qed.

Lemma pdvd_pmul_both p d1 d2 a b :
  pdvd p d1 a -> pdvd p d2 b -> pdvd p (pmul d1 d2) (pmul a b).
Proof.
  intros [q1 H1] [q2 H2]. exists (pmul q1 q2). rewrite H1, H2. pring.
Qed.

Lemma pdvd_ppow p d a n : pdvd p d a -> pdvd p (ppow d n) (ppow a n).
Proof.
  intros H. induction n as [|n IH]; [apply pdvd_refl|].
  cbn [ppow]. apply pdvd_pmul_both; assumption.
Qed.

Lemma pdvd_self_pmul_r p d q : pdvd p d (pmul d q).
Proof. exists q. reflexivity. Qed.

Lemma pdvd_self_pmul_l p d q : pdvd p d (pmul q d).
Proof. exists q. pring. Qed.

Lemma pscale_unit p c c' a : (c * c') mod p = 1 mod p -> peqm p (pscale c (pscale c' a)) a.
Proof.
  intros H. rewrite (peq_peqm p _ _ (pscale_pscale c c' a)).
  rewrite (peqm_pscale_l p _ _ a H). apply peq_peqm, pscale_1.
Qed.

Lemma pdvd_unit_scale_r p c c' d a :
  (c * c') mod p = 1 mod p -> (pdvd p d (pscale c a) <-> pdvd p d a).
Proof.
  intros H. split; intros Hd.
  - apply (pdvd_pscale p d c') in Hd.
    rewrite Z.mul_comm in H. rewrite (pscale_unit p c' c a H) in Hd. exact Hd.
  - apply pdvd_pscale; exact Hd.
Qed.

Lemma pdvd_unit_scale_l p c c' d a :
  (c * c') mod p = 1 mod p -> (pdvd p (pscale c d) a <-> pdvd p d a).
Proof.
  intros H. split; intros [q Hq].
  - exists (pscale c q). rewrite Hq. apply peq_peqm.
    rewrite pmul_pscale_l, pmul_pscale_r. reflexivity.
  - exists (pscale c' q). rewrite Hq.
    rewrite (peq_peqm p _ _ (pmul_pscale_l c d (pscale c' q))).
    rewrite (peq_peqm p _ _ (pmul_pscale_r c' d q)).
    symmetry. apply pscale_unit; exact H.
Qed.

Lemma pdvd_unit_scale p c c' d a :
  (c * c') mod p = 1 mod p ->
  (pdvd p d (pscale c a) <-> pdvd p d a) /\ (pdvd p (pscale c d) a <-> pdvd p d a).
Proof.
  intros H. split; [apply (pdvd_unit_scale_r p c c'); exact H|apply (pdvd_unit_scale_l p c c'); exact H].
Qed.

(** ** congruence modulo a polynomial *)

Lemma pcong_refl p m a : pcong p m a a.
Proof.
  unfold pcong. apply (pdvd_peqm p m m [] (psub a a)); [reflexivity| |apply pdvd_nil].
  pring.
Qed.

Lemma pcong_sym p m a b : pcong p m a b -> pcong p m b a.
Proof.
  unfold pcong. intros H. apply pdvd_popp in H.
  revert H. apply pdvd_peqm; [reflexivity|pring].
Qed.

Lemma pcong_trans p m a b c : pcong p m a b -> pcong p m b c -> pcong p m a c.
Proof.
  unfold pcong. intros H1 H2. pose proof (pdvd_padd p m _ _ H1 H2) as H.
  revert H. apply pdvd_peqm; [reflexivity|pring].
Qed.

Global Instance pcong_Equivalence p m : Equivalence (pcong p m).
Proof.
  split; [exact (pcong_refl p m)|exact (pcong_sym p m)|exact (pcong_trans p m)].
Qed.

Lemma pcong_peqm p m a b : peqm p a b -> pcong p m a b.
Proof.
  intros H. unfold pcong. rewrite H.
  apply (pdvd_peqm p m m [] (psub b b)); [reflexivity|pring|apply pdvd_nil].
Qed.

Lemma pcong_peq p m a b : peq a b -> pcong p m a b.
Proof. intros H. apply pcong_peqm, peq_peqm, H. Qed.

Global Instance pcong_peqm_subrelation p m : subrelation (peqm p) (pcong p m).
Proof. intros a b. apply pcong_peqm. Qed.

Lemma pcong_padd p m a a' b b' :
  pcong p m a a' -> pcong p m b b' -> pcong p m (padd a b) (padd a' b').
Proof.
  unfold pcong. intros H1 H2. pose proof (pdvd_padd p m _ _ H1 H2) as H.
  revert H. apply pdvd_peqm; [reflexivity|pring].
Qed.

Lemma pcong_popp p m a a' : pcong p m a a' -> pcong p m (popp a) (popp a').
Proof.
  unfold pcong. intros H. apply pdvd_popp in H.
  revert H. apply pdvd_peqm; [reflexivity|pring].
Qed.

Lemma pcong_psub p m a a' b b' :
  pcong p m a a' -> pcong p m b b' -> pcong p m (psub a b) (psub a' b').
Proof.
  intros H1 H2. unfold psub. apply pcong_padd; [exact H1|apply pcong_popp; exact H2].
Qed.

Lemma pcong_pmul p m a a' b b' :
  pcong p m a a' -> pcong p m b b' -> pcong p m (pmul a b) (pmul a' b').
Proof.
  unfold pcong. intros H1 H2.
  pose proof (pdvd_padd p m _ _ (pdvd_pmul_r p m _ b H1) (pdvd_pmul_l p m a' _ H2)) as H.
  revert H. apply pdvd_peqm; [reflexivity|pring].
Qed.

Lemma pcong_pscale p m c a a' : pcong p m a a' -> pcong p m (pscale c a) (pscale c a').
Proof.
  unfold pcong. intros H. apply (pdvd_pscale p m c) in H.
  revert H. apply pdvd_peqm; [reflexivity|].
  apply peq_peqm. intros k. pcoef. ring.
Qed.

Lemma pcong_ppow p m a a' n : pcong p m a a' -> pcong p m (ppow a n) (ppow a' n).
Proof.
  intros H. induction n as [|n IH]; [apply pcong_refl|].
  cbn [ppow]. apply pcong_pmul; assumption.
Qed.

Lemma pcong_pcomp_l p m g h h' : pcong p m h h' -> pcong p m (pcomp g h) (pcomp g h').
Proof.
  intros H. induction g as [|c g IH]; [apply pcong_refl|].
  cbn [pcomp]. apply pcong_padd; [apply pcong_refl|]. apply pcong_pmul; assumption.
Qed.

Global Instance padd_pcong_Proper p m : Proper (pcong p m ==> pcong p m ==> pcong p m) padd.
Proof. intros a a' Ha b b' Hb. apply pcong_padd; assumption. Qed.
Global Instance psub_pcong_Proper p m : Proper (pcong p m ==> pcong p m ==> pcong p m) psub.
Proof. intros a a' Ha b b' Hb. apply pcong_psub; assumption. Qed.
Global Instance pmul_pcong_Proper p m : Proper (pcong p m ==> pcong p m ==> pcong p m) pmul.
Proof. intros a a' Ha b b' Hb. apply pcong_pmul; assumption. Qed.
Global Instance popp_pcong_Proper p m : Proper (pcong p m ==> pcong p m) popp.
Proof. intros a a' Ha. apply pcong_popp; assumption. Qed.
Global Instance ppow_pcong_Proper p m : Proper (pcong p m ==> eq ==> pcong p m) ppow.
Proof. intros a a' Ha n n' <-. apply pcong_ppow; assumption. Qed.

Lemma pcong_nil_iff p m a : pcong p m a [] <-> pdvd p m a.
Proof.
  unfold pcong. split; apply pdvd_peqm; try reflexivity; pring.
Qed.

Lemma pcong_pdvd_modulus p m m' a b : pdvd p m' m -> pcong p m a b -> pcong p m' a b.
Proof. unfold pcong. intros H1 H2. exact (pdvd_trans p _ _ _ H1 H2). Qed.

(** ** prime modulus: (Z/p)[x] is an integral domain *)

Lemma Zmod_mul_nonzero p x y :
  prime p -> x mod p <> 0 -> y mod p <> 0 -> (x * y) mod p <> 0.
Proof.
  intros Hp Hx Hy H.
  assert (Hp0 : p <> 0) by (destruct Hp; lia).
  apply Zmod_divide in H; [|exact Hp0].
  apply prime_mult in H; [|exact Hp].
  destruct H as [H|H]; apply Zdivide_mod in H; contradiction.
Qed.

Lemma prime_pos p : prime p -> 0 < p.
Proof. intros [H _]. lia. Qed.

Lemma pmul_lc_nonzero p a b :
  prime p -> a <> [] -> b <> [] -> last a 0 mod p <> 0 -> last b 0 mod p <> 0 ->
  coef (pmul a b) (length a + length b - 2) mod p <> 0.
Proof.
  intros Hp Ha Hb Hla Hlb. rewrite coef_pmul_top by assumption.
  apply Zmod_mul_nonzero; assumption.
Qed.

Lemma wf_pmul_top_nonzero p a b :
  prime p -> wf p a -> wf p b -> a <> [] -> b <> [] ->
  coef (pmul a b) (length a + length b - 2) mod p <> 0.
Proof.
  intros Hp Ha Hb Hna Hnb. pose proof (prime_pos p Hp) as Hp0.
  apply pmul_lc_nonzero; try assumption.
  - apply (wf_last_nonzero p a Hp0 Ha Hna).
  - apply (wf_last_nonzero p b Hp0 Hb Hnb).
Qed.

Lemma pdvd_small_zero p h r :
  prime p -> wf p h -> h <> [] -> pdvd p h r -> (length r < length h)%nat -> peqm p r [].
Proof.
  intros Hp Hh Hne [s Hs] Hlen. pose proof (prime_pos p Hp) as Hp0.
  assert (Hs' : peqm p r (pmul h (pnorm p s))).
  { rewrite Hs. apply peqm_pmul; [reflexivity|]. symmetry. apply pnorm_peqm; exact Hp0. }
  pose proof (pnorm_wf p s Hp0) as Hw.
  destruct (pnorm p s) as [|z s'] eqn:E.
  - rewrite Hs'. apply peq_peqm, pmul_nil_r.
  - exfalso.
    assert (Hsn : z :: s' <> []) by congruence.
    apply (wf_pmul_top_nonzero p h (z :: s') Hp Hh Hw Hne Hsn).
    rewrite <- (Hs' _). rewrite coef_overflow; [apply Zmod_0_l|].
    cbn [length]. lia.
Qed.

Lemma pmul_eq_zero p a b :
  prime p -> peqm p (pmul a b) [] -> peqm p a [] \/ peqm p b [].
Proof.
  intros Hp H. pose proof (prime_pos p Hp) as Hp0.
  pose proof (pnorm_wf p a Hp0) as Hwa. pose proof (pnorm_wf p b Hp0) as Hwb.
  pose proof (pnorm_peqm p a Hp0) as Hea. pose proof (pnorm_peqm p b Hp0) as Heb.
  destruct (pnorm p a) as [|x a'] eqn:Ea; [left; symmetry; exact Hea|].
  destruct (pnorm p b) as [|y b'] eqn:Eb; [right; symmetry; exact Heb|].
  exfalso.
  assert (Hna : x :: a' <> []) by congruence.
  assert (Hnb : y :: b' <> []) by congruence.
  apply (wf_pmul_top_nonzero p _ _ Hp Hwa Hwb Hna Hnb).
  rewrite (peqm_pmul p _ _ _ _ Hea Heb _), (H _), coef_nil. apply Zmod_0_l.
Qed.

Lemma peqm_psub_nil p a b : peqm p (psub a b) [] <-> peqm p a b.
Proof.
  split; intros H.
  - transitivity (padd (psub a b) b); [pring|]. rewrite H. reflexivity.
  - rewrite H. pring.
Qed.

Lemma pmul_cancel_l p a b c :
  prime p -> ~ peqm p a [] -> peqm p (pmul a b) (pmul a c) -> peqm p b c.
Proof.
  intros Hp Ha H. apply peqm_psub_nil.
  destruct (pmul_eq_zero p a (psub b c) Hp) as [H0|H0]; [|contradiction|exact H0].
  transitivity (psub (pmul a b) (pmul a c)); [pring|]. apply peqm_psub_nil. exact H.
Qed.

Lemma pmul_cancel_r p a b c :
  prime p -> ~ peqm p a [] -> peqm p (pmul b a) (pmul c a) -> peqm p b c.
Proof.
  intros Hp Ha H. apply (pmul_cancel_l p a b c Hp Ha).
  rewrite (peq_peqm p _ _ (pmul_comm a b)), (peq_peqm p _ _ (pmul_comm a c)). exact H.
Qed.

Lemma map_nonnil {A B} (f : A -> B) l : l <> [] -> map f l <> [].
Proof. destruct l; [congruence|discriminate]. Qed.

Lemma length_pnorm_pmul p a b :
  prime p -> wf p a -> wf p b -> a <> [] -> b <> [] ->
  length (pnorm p (pmul a b)) = (length a + length b - 1)%nat.
Proof.
  intros Hp Ha Hb Hna Hnb.
  pose proof (length_nonnil a Hna) as La. pose proof (length_nonnil b Hnb) as Lb.
  pose proof (length_pmul a b Hna Hnb) as L.
  assert (Hne : pmul a b <> []).
  { intros E. rewrite E in L. cbn [length] in L. lia. }
  unfold pnorm. rewrite pstrip_id.
  - rewrite map_length. exact L.
  - apply stripped_last; [apply map_nonnil; exact Hne|].
    rewrite last_coef, map_length, coef_map_mod, L.
    replace (length a + length b - 1 - 1)%nat with (length a + length b - 2)%nat by lia.
    apply wf_pmul_top_nonzero; assumption.
Qed.

(* ------------------------------------------------------------------ *)
(** * D. evaluation, composition, derivative *)

Lemma peval_nil x : peval [] x = 0.
Proof. reflexivity. Qed.

Lemma peval_cons c a x : peval (c :: a) x = c + x * peval a x.
Proof. reflexivity. Qed.

Lemma peval_padd a b x : peval (padd a b) x = peval a x + peval b x.
Proof.
  revert b. induction a as [|c a IH]; intros b.
  - cbn [padd]. rewrite peval_nil. ring.
  - destruct b as [|d b].
    + cbn [padd]. rewrite peval_nil. ring.
    + cbn [padd]. rewrite !peval_cons, IH. ring.
Qed.

Lemma peval_pscale c a x : peval (pscale c a) x = c * peval a x.
Proof.
  induction a as [|d a IH].
  - cbn [pscale map]. rewrite peval_nil. ring.
  - change (pscale c (d :: a)) with (c * d :: pscale c a).
    rewrite !peval_cons, IH. ring.
Qed.

Lemma peval_popp a x : peval (popp a) x = - peval a x.
Proof. unfold popp. rewrite peval_pscale. ring. Qed.

Lemma peval_psub a b x : peval (psub a b) x = peval a x - peval b x.
Proof. unfold psub. rewrite peval_padd, peval_popp. ring. Qed.

Lemma peval_pmul a b x : peval (pmul a b) x = peval a x * peval b x.
Proof.
  induction a as [|c a IH].
  - cbn [pmul]. rewrite peval_nil. ring.
  - cbn [pmul]. rewrite peval_padd, peval_pscale, !peval_cons, IH. ring.
Qed.

Lemma peval_ppow a n x : peval (ppow a n) x = (peval a x) ^ (Z.of_nat n).
Proof.
  induction n as [|n IH].
  - cbn [ppow]. rewrite peval_cons, peval_nil. change (Z.of_nat 0) with 0.
    rewrite Z.pow_0_r. ring.
  - cbn [ppow]. rewrite peval_pmul, IH, Nat2Z.inj_succ, Z.pow_succ_r by lia. reflexivity.
Qed.

Lemma peval_pcomp g h x : peval (pcomp g h) x = peval g (peval h x).
Proof.
  induction g as [|c g IH].
  - reflexivity.
  - cbn [pcomp]. rewrite peval_padd, peval_pmul, IH, !peval_cons, peval_nil. ring.
Qed.

Lemma peval_pshift n a x : peval (pshift n a) x = x ^ (Z.of_nat n) * peval a x.
Proof.
  induction n as [|n IH].
  - rewrite pshift_0. change (Z.of_nat 0) with 0. rewrite Z.pow_0_r. ring.
  - rewrite pshift_S, peval_cons, IH, Nat2Z.inj_succ, Z.pow_succ_r by lia. ring.
Qed.

Lemma peval_peq_nil a x : peq a [] -> peval a x = 0.
Proof.
  induction a as [|c a IH]; intros H; [reflexivity|].
  apply peq_cons_nil_inv in H. destruct H as [-> H].
  rewrite peval_cons, (IH H). ring.
Qed.

Lemma peval_peq a b x : peq a b -> peval a x = peval b x.
Proof.
  revert b. induction a as [|c a IH]; intros b H.
  - symmetry. apply peval_peq_nil. symmetry. exact H.
  - destruct b as [|d b].
    + apply peval_peq_nil. exact H.
    + apply peq_cons_inv in H. destruct H as [-> H].
      rewrite !peval_cons, (IH b H). reflexivity.
Qed.

Global Instance peval_peq_Proper : Proper (peq ==> eq ==> eq) peval.
Proof. intros a b H x y <-. apply peval_peq; exact H. Qed.

Lemma peval_peqm_nil p a x : peqm p a [] -> peval a x mod p = 0.
Proof.
  induction a as [|c a IH]; intros H.
  - rewrite peval_nil. apply Zmod_0_l.
  - apply peqm_cons_nil_inv in H. destruct H as [Hc H].
    rewrite peval_cons. transitivity ((0 + x * 0) mod p).
    + apply modeq_add; [exact Hc|]. apply modeq_mul; [reflexivity|].
      rewrite (IH H), Zmod_0_l. reflexivity.
    + replace (0 + x * 0) with 0 by ring. apply Zmod_0_l.
Qed.

Lemma peval_peqm p a b x y :
  peqm p a b -> x mod p = y mod p -> peval a x mod p = peval b y mod p.
Proof.
  intros H Hxy. revert b H. induction a as [|c a IH]; intros b H.
  - rewrite peval_nil, Zmod_0_l. symmetry. apply peval_peqm_nil. symmetry. exact H.
  - destruct b as [|d b].
    + rewrite (peval_nil y), Zmod_0_l. apply peval_peqm_nil. exact H.
    + apply peqm_cons_inv in H. destruct H as [Hc H].
      rewrite !peval_cons. apply modeq_add; [exact Hc|].
      apply modeq_mul; [exact Hxy|]. apply IH; exact H.
Qed.

(** ** composition *)

Lemma pcomp_nil h : pcomp [] h = [].
Proof. reflexivity. Qed.

Lemma pcomp_cons c g h : pcomp (c :: g) h = padd [c] (pmul h (pcomp g h)).
Proof. reflexivity. Qed.

Lemma pcomp_padd g1 g2 h : peq (pcomp (padd g1 g2) h) (padd (pcomp g1 h) (pcomp g2 h)).
Proof.
  revert g2. induction g1 as [|c g1 IH]; intros g2.
  - cbn [padd pcomp]. reflexivity.
  - destruct g2 as [|d g2].
    + cbn [padd]. rewrite pcomp_nil. ring.
    + cbn [padd]. rewrite !pcomp_cons, IH, single_add. ring.
Qed.

Lemma pcomp_pscale c g h : peq (pcomp (pscale c g) h) (pscale c (pcomp g h)).
Proof.
  induction g as [|d g IH]; [reflexivity|].
  change (pscale c (d :: g)) with (c * d :: pscale c g).
  rewrite !pcomp_cons, IH, pscale_padd, !pscale_as_pmul, single_mul. ring.
Qed.

Lemma pcomp_cons0 g h : peq (pcomp (0 :: g) h) (pmul h (pcomp g h)).
Proof. rewrite pcomp_cons, peq_0_nil. ring. Qed.

Lemma pcomp_pmul g1 g2 h : peq (pcomp (pmul g1 g2) h) (pmul (pcomp g1 h) (pcomp g2 h)).
Proof.
  induction g1 as [|c g1 IH].
  - cbn [pmul pcomp]. reflexivity.
  - cbn [pmul]. rewrite pcomp_padd, pcomp_pscale, pcomp_cons0, IH, pcomp_cons.
    rewrite pscale_as_pmul. ring.
Qed.

Lemma pcomp_popp g h : peq (pcomp (popp g) h) (popp (pcomp g h)).
Proof. unfold popp. apply pcomp_pscale. Qed.

Lemma pcomp_psub g1 g2 h : peq (pcomp (psub g1 g2) h) (psub (pcomp g1 h) (pcomp g2 h)).
Proof. unfold psub. rewrite pcomp_padd, pcomp_popp. reflexivity. Qed.

Lemma pcomp_ppow g n h : peq (pcomp (ppow g n) h) (ppow (pcomp g h) n).
Proof.
  induction n as [|n IH].
  - cbn [ppow pcomp]. rewrite pmul_nil_r. reflexivity.
  - cbn [ppow]. rewrite pcomp_pmul, IH. reflexivity.
Qed.

Lemma pcomp_const c h : peq (pcomp [c] h) [c].
Proof. cbn [pcomp]. rewrite pmul_nil_r. reflexivity. Qed.

Lemma pcomp_X h : peq (pcomp [0; 1] h) h.
Proof. rewrite pcomp_cons0, pcomp_const. ring. Qed.

Lemma pcomp_assoc f g h : peq (pcomp (pcomp f g) h) (pcomp f (pcomp g h)).
Proof.
  induction f as [|c f IH]; [reflexivity|].
  rewrite !pcomp_cons, pcomp_padd, pcomp_pmul, IH, pcomp_const. reflexivity.
Qed.

Lemma pcong_pcomp_r p m g g' h :
  pcong p m g g' -> pcong p (pcomp m h) (pcomp g h) (pcomp g' h).
Proof.
  unfold pcong. intros [q Hq]. exists (pcomp q h).
  rewrite <- (peq_peqm p _ _ (pcomp_pmul m q h)), <- (peq_peqm p _ _ (pcomp_psub g g' h)).
  apply peqm_pcomp; [exact Hq|reflexivity].
Qed.

(** ** derivative *)

Lemma pdiff_nil : pdiff [] = [].
Proof. reflexivity. Qed.

Lemma pdiff_padd a b : peq (pdiff (padd a b)) (padd (pdiff a) (pdiff b)).
Proof. intros k. rewrite coef_padd, !coef_pdiff, coef_padd. ring. Qed.

Lemma pdiff_pscale c a : peq (pdiff (pscale c a)) (pscale c (pdiff a)).
Proof. intros k. rewrite coef_pscale, !coef_pdiff, coef_pscale. ring. Qed.

Lemma pdiff_popp a : peq (pdiff (popp a)) (popp (pdiff a)).
Proof. unfold popp. apply pdiff_pscale. Qed.

Lemma pdiff_psub a b : peq (pdiff (psub a b)) (psub (pdiff a) (pdiff b)).
Proof. unfold psub. rewrite pdiff_padd, pdiff_popp. reflexivity. Qed.

Lemma pdiff_cons x a : peq (pdiff (x :: a)) (padd a (0 :: pdiff a)).
Proof.
  intros [|k].
  - rewrite coef_padd, coef_pdiff, coef_cons_S, coef_cons_O.
    change (Z.of_nat 1) with 1. ring.
  - rewrite coef_padd, coef_pdiff, !coef_cons_S, coef_pdiff.
    rewrite (Nat2Z.inj_succ (S k)). ring.
Qed.

Lemma pdiff_const c : peq (pdiff [c]) [].
Proof. reflexivity. Qed.

Lemma pdiff_pmul a b :
  peq (pdiff (pmul a b)) (padd (pmul (pdiff a) b) (pmul a (pdiff b))).
Proof.
  induction a as [|x a IH].
  - cbn [pmul]. rewrite pdiff_nil. cbn [pmul padd]. reflexivity.
  - cbn [pmul]. rewrite pdiff_padd, pdiff_pscale, !pdiff_cons, IH.
    rewrite (cons_0_as_pmul (pdiff a)), (cons_0_as_pmul (pmul a (pdiff b))),
      (cons_0_as_pmul (padd (pmul (pdiff a) b) (pmul a (pdiff b)))).
    rewrite !pscale_as_pmul. ring.
Qed.

Lemma pdiff_ppow a n :
  peq (pdiff (ppow a (S n))) (pmul (pscale (Z.of_nat (S n)) (ppow a n)) (pdiff a)).
Proof.
  induction n as [|n IH].
  - cbn [ppow]. rewrite pmul_1_r. change (Z.of_nat 1) with 1. rewrite pscale_1. ring.
  - rewrite (ppow_S a (S n)), pdiff_pmul, IH.
    replace (Z.of_nat (S (S n))) with (Z.of_nat (S n) + 1) by lia.
    rewrite pscale_add_l, pscale_1, (ppow_S a n).
    rewrite !pscale_as_pmul. ring.
Qed.

