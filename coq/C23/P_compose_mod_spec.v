(* C23 obligation: gf_compose_mod: canonical result congruent to g(h) modulo m in (Z/p)[x] for ALL g, h; reduced when g is not constant. *)
From SE Require Import C23.GFSpec C23.GFProofs.
Local Open Scope Z_scope.
Theorem C23_compose_mod_spec :
  forall (p : Z) (m g h : gf), prime p -> wf p m -> m <> [] -> wf p g -> wf p h ->
    exists c, gf_compose_mod p m g h = Ok c /\ wf p c /\ pcong p m c (pcomp g h) /\
      ((2 <= length g)%nat -> (length c < length m)%nat).
Proof. exact gf_compose_mod_spec. Qed.
Print Assumptions C23_compose_mod_spec.
