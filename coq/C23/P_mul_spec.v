(* C23 obligation: GaloisFieldDict::mul (double loop over a zero-initialised vector with checked accesses): never leaves its vector, canonical result equal to the schoolbook product; operator*= and gf_sqr likewise. *)
From SE Require Import C23.GFSpec C23.GFProofs.
Local Open Scope Z_scope.
Theorem C23_mul_spec :
  forall (p : Z) (a b : gf), 0 < p -> wf p a -> wf p b ->
    (exists c, gf_mul p a b = Ok c /\ wf p c /\ peqm p c (pmul a b)) /\
    (exists c, gf_mul_assign p a b = Ok c /\ wf p c /\ peqm p c (pmul a b)) /\
    (exists c, gf_sqr p a = Ok c /\ wf p c /\ peqm p c (pmul a a)).
Proof. exact (fun p a b Hp Ha Hb => conj (gf_mul_spec p a b Hp Ha Hb) (conj (gf_mul_assign_spec p a b Hp Ha Hb) (gf_sqr_spec p a Hp Ha))). Qed.
Print Assumptions C23_mul_spec.
