(* C23 obligation: operator*=(integer): canonical, equal to the scalar multiple. *)
From SE Require Import C23.GFSpec C23.GFProofs.
Local Open Scope Z_scope.
Theorem C23_mul_int_spec :
  forall (p : Z) (a : gf) (c : Z), 0 < p -> wf p a ->
    wf p (gf_mul_int p a c) /\ peqm p (gf_mul_int p a c) (pscale c a).
Proof. exact gf_mul_int_spec. Qed.
Print Assumptions C23_mul_int_spec.
