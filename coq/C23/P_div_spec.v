(* C23 obligation: gf_div: for every prime p and all canonical f, g with g <> 0 the index loops stay inside their vectors and return canonical q, r with f = q*g + r in (Z/p)[x] and deg r < deg g; a zero divisor throws. *)
From SE Require Import C23.GFSpec C23.GFProofs.
Local Open Scope Z_scope.
Theorem C23_div_spec :
  forall (p : Z) (f g : gf), prime p -> wf p f -> wf p g ->
    (g <> [] -> exists q r, gf_div p f g = Ok (q, r) /\ wf p q /\ wf p r /\
                 peqm p f (padd (pmul q g) r) /\ (length r < length g)%nat) /\
    (g = [] -> gf_div p f g = ErrExn EXN_DIVZERO).
Proof. exact (fun p f g Hp Hf Hg => conj (gf_div_spec p f g Hp Hf Hg) (fun E => eq_ind_r (fun g0 => gf_div p f g0 = ErrExn EXN_DIVZERO) (gf_div_zero p f) E)). Qed.
Print Assumptions C23_div_spec.
