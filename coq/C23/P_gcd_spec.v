(* C23 obligation: gf_gcd (Euclid's loop on operator%=, then gf_monic): terminates within its fuel for all inputs and returns the monic greatest common divisor (divides both; every common divisor divides it); gcd(0,0) = 0. *)
From SE Require Import C23.GFSpec C23.GFProofs.
Local Open Scope Z_scope.
Theorem C23_gcd_spec :
  forall (p : Z) (f g : gf), prime p -> wf p f -> wf p g ->
    exists d, gf_gcd p f g = Ok d /\ wf p d /\
      (pdvd p d f /\ pdvd p d g /\ forall e, pdvd p e f -> pdvd p e g -> pdvd p e d) /\
      ((f = [] /\ g = []) -> d = []) /\ (~ (f = [] /\ g = []) -> monic d).
Proof. exact gf_gcd_spec. Qed.
Print Assumptions C23_gcd_spec.
