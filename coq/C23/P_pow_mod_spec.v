(* C23 obligation: gf_pow_mod: canonical result congruent to f^n modulo m in (Z/p)[x], reduced (degree < deg m) for n >= 1. *)
From SE Require Import C23.GFSpec C23.GFProofs.
Local Open Scope Z_scope.
Theorem C23_pow_mod_spec :
  forall (p : Z) (m f : gf) (n : N), prime p -> wf p m -> m <> [] -> wf p f ->
    exists c, gf_pow_mod p m f n = Ok c /\ wf p c /\ pcong p m c (ppow f (N.to_nat n)) /\
      (n <> 0%N -> (length c < length m)%nat).
Proof. exact gf_pow_mod_spec. Qed.
Print Assumptions C23_pow_mod_spec.
