(* Extraction of the C23 model (run from the output directory; not part of `make`). *)
From SE Require Import C23.GFModel.
Require Import ExtrOcamlBasic.
Extraction "gf_model.ml" from_vec gf_of_int gf_of_map gf_neg gf_add gf_sub gf_add_int gf_sub_int
  gf_mul_int gf_mul gf_mul_assign gf_sqr gf_div gf_quo gf_rem gf_quo_int gf_rem_int
  gf_lshift gf_rshift gf_pow gf_pow_mod gf_monic gf_gcd gf_lcm gf_diff gf_eval gf_multi_eval
  gf_compose_mod gf_is_sqf gf_sqf_list gf_sqf_part gf_frobenius_monomial_base gf_frobenius_map
  gf_ddf_zassenhaus gf_edf_zassenhaus gf_zassenhaus gf_factor
  gf_ddf_shoup gf_edf_shoup gf_shoup gf_trace_map.
