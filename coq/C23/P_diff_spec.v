(* C23 obligation: gf_diff: canonical, equal to the formal derivative. *)
From SE Require Import C23.GFSpec C23.GFProofs.
Local Open Scope Z_scope.
Theorem C23_diff_spec :
  forall (p : Z) (a : gf), 0 < p -> wf p (gf_diff p a) /\ peqm p (gf_diff p a) (pdiff a).
Proof. exact gf_diff_spec. Qed.
Print Assumptions C23_diff_spec.
