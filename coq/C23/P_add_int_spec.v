(* C23 obligation: operator+=(integer) / operator-=(integer): canonical result equal to a + c for ALL a and c (including the zero polynomial, repaired in bc03f74). *)
From SE Require Import C23.GFSpec C23.GFProofs.
Local Open Scope Z_scope.
Theorem C23_add_int_spec :
  forall (p : Z) (a : gf) (c : Z), 0 < p -> wf p a ->
    (wf p (gf_add_int p a c) /\ peqm p (gf_add_int p a c) (padd a [c])) /\
    (wf p (gf_sub_int p a c) /\ peqm p (gf_sub_int p a c) (padd a [-1 * c])).
Proof. exact (fun p a c Hp Ha => conj (gf_add_int_spec p a c Hp Ha) (gf_add_int_spec p a (-1 * c) Hp Ha)). Qed.
Print Assumptions C23_add_int_spec.
