(* C16 refutation: "eq expressions print alike" fails for signed zeros: RealDouble 0.0 and -0.0
   are eq (operator==) and print as 0.0 and -0.0. *)
From SE Require Import Parse.PrintModel Parse.PrintProofs.
Theorem C16_print_respects_eq_refuted :
  exists a c : expr, expr_eqb a c = true /\ print a <> print c.
Proof. exact print_respects_eq_refuted. Qed.
Print Assumptions C16_print_respects_eq_refuted.
