(* C16: the hypotheses are satisfiable by a non-trivial sum, the printed string is the expected
   one, and the reference parser reads printed strings back (examples). *)
From SE Require Import Expr.Wf Parse.ParseModel Parse.PrintModel Parse.PrintProofs.
Local Open Scope N_scope.
Definition sx := ESym (b "x").
Definition sy := ESym (b "y").
(* -1/2 + 3*y - sin(x)/y + x**2, dictionary in two different orders *)
Definition d1 : list (expr * number) :=
  [(EPow sx (ENum (NInt 2)), NInt 1); (sy, NInt 3);
   (EMul (NInt 1) [(EF1 TC_Sin sx, ENum (NInt 1)); (sy, ENum (NInt (-1)))], NInt (-1))].
Definition d2 : list (expr * number) := rev d1.
Example C16_nonvacuous_wf : wf (EAdd (NRat (-1) 2) d1) = true /\ wf (EAdd (NRat (-1) 2) d2) = true.
Proof. vm_compute. split; reflexivity. Qed.
Example C16_nonvacuous_string :
  print (EAdd (NRat (-1) 2) d1) = b "-1/2 + 3*y - sin(x)/y + x**2" /\
  print (EAdd (NRat (-1) 2) d2) = b "-1/2 + 3*y - sin(x)/y + x**2".
Proof. vm_compute. split; reflexivity. Qed.
Example C16_nonvacuous_roundtrip :
  parse_ref (print (EAdd (NRat (-1) 2) d1)) true =
  OutValue (RApp (b "add")
    [RApp (b "sub") [RApp (b "add") [RApp (b "div") [RApp (b "neg") [RInt 1]; RInt 2];
                                     RApp (b "mul") [RInt 3; RSym (b "y")]];
                     RApp (b "div") [RApp (b "sin") [RSym (b "x")]; RSym (b "y")]];
     RApp (b "pow") [RSym (b "x"); RInt 2]]).
Proof. vm_compute. reflexivity. Qed.
Example C16_nonvacuous_double :
  print (ENum (NDbl 4591870180066957722)) = b "0.1" /\
  print (ENum (NDbl 4906019910204099648)) = b "1e+20" /\
  print (ENum (NDbl 4607182418800017409)) = b "1.0".
Proof. vm_compute. repeat split; reflexivity. Qed.
(* the fragment of the partial parse_print theorem contains nested powers that need parentheses *)
From SE Require Import Parse.PrintParse Parse.PrintParse2.
Definition pw_ex : expr :=
  EPow (EPow (EPow sx sy) (ENum (NInt (Z.of_N 2)))) (EPow (ESym (b "z_1")) (ENum (NInt (Z.of_N 30)))).
Example C16_nonvacuous_powfrag :
  powfrag pw_ex /\ print pw_ex = b "((x**y)**2)**(z_1**30)" /\
  parse_syntax (print pw_ex) true =
    TopOk (PBin BPow (PBin BPow (PBin BPow (PIdent (b "x")) (PIdent (b "y"))) (PNum (b "2")))
                     (PBin BPow (PIdent (b "z_1")) (PNum (b "30")))).
Proof.
  split; [|split; vm_compute; reflexivity].
  repeat (apply PF_pow || apply PF_nat || (apply PF_sym; reflexivity)).
Qed.
