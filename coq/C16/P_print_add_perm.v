(* C16 obligation (print_respects_eq, the hash-ordered container): whatever order the
   unordered_map of a sum iterates in, the printed string is the same -- for every permutation of
   the dictionary, provided PrinterBasicCmp is a strict total order on the keys at hand. *)
From SE Require Import Parse.PrintModel Parse.PrintProofs.
From Coq Require Import Permutation.
Theorem C16_print_add_perm : forall c d d',
  Permutation d d' -> printer_order_ok d -> print (EAdd c d) = print (EAdd c d').
Proof. exact print_add_perm. Qed.
Print Assumptions C16_print_add_perm.
