(* C16 obligation (parse_print, PARTIAL): for every expression built from identifier-named symbols
   and non-negative integers by Pow alone, the bytes of str(e) lex and parse -- with the reference
   lexer and parser of C17, for either setting of convert_xor -- to the tree that mirrors e:
   the printer's parenthesizeLE rule for base and exponent is what the right-associative power
   operator of the grammar needs.
   FULL STATEMENT (not proved; covered by the correspondence runs of the check only):
     forall e, wf e -> in_fragment e -> parse_syntax (print e) = TopOk (syn e)
   for sums, products, quotients, functions, relationals and booleans as well. *)
From SE Require Import Parse.ParseModel Parse.PrintModel Parse.PrintParse Parse.PrintParse2.
Theorem C16_parse_print_partial : forall e conv,
  powfrag e -> parse_syntax (print e) conv = TopOk (syn e).
Proof. exact parse_print_powers. Qed.
Print Assumptions C16_parse_print_partial.
