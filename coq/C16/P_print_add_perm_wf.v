(* C16 obligation: the same for every well-formed sum (canonical numbers, no NaN double, keys
   pairwise not eq): the order hypotheses follow from the C02 theorems about compare. *)
From SE Require Import Expr.Wf Parse.PrintModel Parse.PrintWf.
From Coq Require Import Permutation.
Theorem C16_print_add_perm_wf : forall c d d',
  Permutation d d' -> wf (EAdd c d) = true -> print (EAdd c d) = print (EAdd c d').
Proof. exact print_add_perm_wf. Qed.
Print Assumptions C16_print_add_perm_wf.
