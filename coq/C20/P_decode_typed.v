(* C20 obligation (the positive part of "decode bs = Some e -> canonical e"): at EVERY node of every
   tree the decoder returns, (1) the members whose static type is narrower than Basic hold objects
   of that type -- Not / And / Or / Xor arguments and Piecewise conditions are Booleans, the set of
   Contains and the members of Union / Complement are Sets, Interval ends are Numbers (Add / Mul
   coefficients and Add dictionary values are numbers by the type of [expr]): every
   rcp_static_cast<const T> of the loaders was applied to an object of class T; (2) no And / Or /
   Xor / Union node has fewer than two members and no Piecewise / Max / Min / LeviCivita node is
   empty (the sizes below which __str__ / eval_double read a missing first element). *)
From SE Require Import Codec.CodecSpec Codec.CodecTyped.
Theorem C20_decode_typed :
  forall (ver : N * N) (bs : list N) (e : expr), decode ver bs = Ok e -> all_good e = true.
Proof. exact decode_good. Qed.
Print Assumptions C20_decode_typed.
