(* C20 obligation: on EVERY byte list the decoder ends with an expression or an exception value:
   with fuel = length of the input + 1 it never runs out of fuel and never reads out of range
   (the model has no other failure values). *)
From SE Require Import Codec.CodecModel Codec.CodecTotal.
Theorem C20_decode_total :
  forall (ver : N * N) (bs : list N),
    (exists e, decode ver bs = Ok e) \/ (exists c, decode ver bs = ErrExn c).
Proof. exact decode_total. Qed.
Print Assumptions C20_decode_total.
