(* C20 obligation: the result of decoding a node does not depend on the fuel: more fuel never
   changes a result other than "out of fuel". *)
From SE Require Import Codec.CodecModel Codec.CodecTotal.
Theorem C20_decode_fuel_independent :
  forall (sw : bool) (f1 f2 : nat) (T : tclass) (st : dstate),
    (f1 <= f2)%nat -> dec_node f1 sw T st <> ErrFuel -> dec_node f2 sw T st = dec_node f1 sw T st.
Proof. exact dec_node_mono. Qed.
Print Assumptions C20_decode_fuel_independent.
