(* C20 obligation: "decode bs = Some e -> canonical e" is REFUTED for the code that exists: the
   loaders construct Add / Mul / Infty objects with make_rcp without canonicalisation.  Witnesses
   (byte strings accepted by Basic::loads of the library, replayed on every run by checks/C20.py):
   an Add with a zero coefficient entry (prints "0*x"), an Add with an empty dictionary, a Mul with
   coefficient 0, an Infty with direction 5. *)
From SE Require Import Codec.CodecSpec.
Local Open Scope N_scope.
Definition w_add_zero : list N :=
  [1; 0; 0; 14; 0; 64; 16; 0; 0; 0; 0; 0; 0; 1; 16; 16; 16; 0; 0; 0; 0; 0; 0; 1; 0; 1; 0; 0; 0; 0; 0; 0; 0; 48;
   1; 0; 0; 0; 0; 0; 0; 0; 32; 16; 0; 0; 0; 0; 0; 0; 1; 13; 1; 0; 0; 0; 0; 0; 0; 0; 120; 48; 16; 0; 0; 0; 0; 0; 0;
   1; 0; 1; 0; 0; 0; 0; 0; 0; 0; 48].
Definition w_add_empty : list N :=
  [1; 0; 0; 14; 0; 32; 16; 0; 0; 0; 0; 0; 0; 1; 16; 16; 16; 0; 0; 0; 0; 0; 0; 1; 0; 1; 0; 0; 0; 0; 0; 0; 0; 48;
   0; 0; 0; 0; 0; 0; 0; 0].
Definition w_mul_zero : list N :=
  [1; 0; 0; 14; 0; 64; 16; 0; 0; 0; 0; 0; 0; 1; 15; 16; 16; 0; 0; 0; 0; 0; 0; 1; 0; 1; 0; 0; 0; 0; 0; 0; 0; 48;
   1; 0; 0; 0; 0; 0; 0; 0; 32; 16; 0; 0; 0; 0; 0; 0; 1; 13; 1; 0; 0; 0; 0; 0; 0; 0; 120; 48; 16; 0; 0; 0; 0; 0; 0;
   1; 0; 1; 0; 0; 0; 0; 0; 0; 0; 48].
Definition w_infty_5 : list N :=
  [1; 0; 0; 14; 0; 32; 16; 0; 0; 0; 0; 0; 0; 1; 7; 16; 16; 0; 0; 0; 0; 0; 0; 1; 0; 1; 0; 0; 0; 0; 0; 0; 0; 53].
Theorem C20_decode_wf_refuted :
  decode (0, 14) w_add_zero = Ok (EAdd (NInt 0) [(ESym [120], NInt 0)])
  /\ decode (0, 14) w_add_empty = Ok (EAdd (NInt 0) [])
  /\ decode (0, 14) w_mul_zero = Ok (EMul (NInt 0) [(ESym [120], ENum (NInt 0))])
  /\ decode (0, 14) w_infty_5 = Ok (ENum (NInf 5))
  /\ exists bs e, decode (0, 14) bs = Ok e /\ canonical_node e = false.
Proof.
  split; [vm_compute; reflexivity|]. split; [vm_compute; reflexivity|].
  split; [vm_compute; reflexivity|]. split; [vm_compute; reflexivity|].
  exists w_add_zero, (EAdd (NInt 0) [(ESym [120], NInt 0)]). split; vm_compute; reflexivity.
Qed.
Print Assumptions C20_decode_wf_refuted.
