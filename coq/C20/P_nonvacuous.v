(* C20: the theorems are about every byte list; here the model is evaluated (by the kernel) on
   concrete streams of each outcome class: an accepted canonical stream, accepted non-canonical
   ones, and one stream per rejection path (all SerializationError = EXN 5 since the repairs). *)
From SE Require Import Codec.CodecSpec.
Local Open Scope N_scope.
Example C20_outcomes :
  (* Rational 2/1 is canonicalised by Rational::from_two_ints *)
  decode (0, 14) [1; 0; 0; 14; 0; 48; 16; 0; 0; 0; 0; 0; 0; 1; 1; 16; 16; 0; 0; 0; 0; 0; 0; 1; 0; 1; 0; 0; 0; 0; 0; 0; 0; 50;
                  32; 16; 0; 0; 0; 0; 0; 0; 1; 0; 1; 0; 0; 0; 0; 0; 0; 0; 49] = Ok (ENum (NInt 2))
  (* an empty And *)
  /\ decode (0, 14) [1; 0; 0; 14; 0; 16; 16; 0; 0; 0; 0; 0; 0; 1; 99; 0; 0; 0; 0; 0; 0; 0; 0] = ErrExn EXN_SERIAL
  (* Interval flags 2 and 3 *)
  /\ decode (0, 14) [1; 0; 0; 14; 0; 48; 16; 0; 0; 0; 0; 0; 0; 1; 82; 2; 16; 16; 0; 0; 0; 0; 0; 0; 1; 0; 1; 0; 0; 0; 0; 0; 0; 0; 49;
                     3; 32; 16; 0; 0; 0; 0; 0; 0; 1; 0; 1; 0; 0; 0; 0; 0; 0; 0; 53] = ErrExn EXN_SERIAL
  (* a Symbol whose name is announced with 2^62 bytes *)
  /\ decode (0, 14) [1; 0; 0; 14; 0; 16; 16; 0; 0; 0; 0; 0; 0; 1; 13; 0; 0; 0; 0; 0; 0; 0; 64] = ErrExn EXN_SERIAL
  (* a reference to an id that was never written *)
  /\ decode (0, 14) [1; 0; 0; 14; 0; 5; 0; 0; 0; 0; 0; 0; 0; 0] = ErrExn EXN_SERIAL
  (* Not applied to an Integer: the argument is not a Boolean *)
  /\ decode (0, 14) [1; 0; 0; 14; 0; 32; 16; 0; 0; 0; 0; 0; 0; 1; 98; 16; 16; 0; 0; 0; 0; 0; 0; 1; 0; 1; 0; 0; 0; 0; 0; 0; 0; 53]
     = ErrExn EXN_SERIAL
  (* truncated header, empty input *)
  /\ decode (0, 14) [1; 0; 0] = ErrExn EXN_SERIAL /\ decode (0, 14) [] = ErrExn EXN_SERIAL
  (* the same Symbol in both byte orders *)
  /\ decode (0, 14) [1; 0; 0; 14; 0; 7; 0; 0; 0; 0; 0; 0; 0; 1; 13; 1; 0; 0; 0; 0; 0; 0; 0; 120] = Ok (ESym [120])
  /\ decode (0, 14) [0; 0; 0; 0; 14; 0; 0; 0; 0; 0; 0; 0; 7; 1; 13; 0; 0; 0; 0; 0; 0; 0; 1; 120] = Ok (ESym [120]).
Proof. repeat split; vm_compute; reflexivity. Qed.
Print Assumptions C20_outcomes.
