(* C20 obligation: load_rcp_basic consumes input: whenever a node is decoded the remaining input
   is strictly shorter (so nested and repeated nodes cannot loop), for every fuel larger than the
   input, every expected class T, every id table. *)
From SE Require Import Codec.CodecModel Codec.CodecTotal.
Theorem C20_decode_progress :
  forall (sw : bool) (f : nat) (T : tclass) (bs : list N) (tbl : list (N * wtree)),
    (length bs < f)%nat ->
    fine (dec_node f sw T (bs, tbl)) /\
    forall w bs' tbl', dec_node f sw T (bs, tbl) = Ok (w, (bs', tbl')) -> (length bs' < length bs)%nat.
Proof. exact dec_node_total. Qed.
Print Assumptions C20_decode_progress.
