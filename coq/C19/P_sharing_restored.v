(* C19 obligation: shared subexpressions are restored.  The decoder returns the labelled DAG that
   was encoded: the same ids at the same positions, and all positions carrying one id hold one and
   the same node (the table entry created at the first occurrence). *)
From SE Require Import Codec.CodecSpec Codec.CodecRoundtrip.
Local Open Scope N_scope.
Theorem C19_sharing_restored :
  forall (sw : bool) (ver : N * N) (G : N -> option wtree) (w : wtree),
    fst ver < 65536 -> snd ver < 65536 ->
    (forall s, In s (subtrees w) -> node_ok s) -> dag G w ->
    decode_lab ver (encode sw ver w) = Ok w /\
    forall s1 s2, In s1 (subtrees w) -> In s2 (subtrees w) -> wt_addr s1 = wt_addr s2 -> s1 = s2.
Proof.
  intros sw ver G w V1 V2 NO DG. split; [eapply decode_encode_lab; eassumption|].
  destruct (sharing_restored sw ver G w V1 V2 NO DG) as [w' [D [_ [_ S]]]].
  rewrite (decode_encode_lab sw ver G w V1 V2 NO DG) in D. injection D as <-. exact S.
Qed.
Print Assumptions C19_sharing_restored.
