(* C19 obligation: one node.  For every serialisable node (class supported, field values in
   range, numbers in lowest terms, containers in the state std::map / std::set / unordered_map
   would have, no empty And/Or/Xor/Union/Piecewise/Max/Min), load_basic applied to the values
   save_basic wrote rebuilds exactly this node; in particular Integer strings are re-read
   (operator<< / mpz_set_str) and RealDouble / ComplexDouble keep their bit patterns. *)
From SE Require Import Codec.CodecSpec Codec.CodecNode.
Theorem C19_node_roundtrip :
  forall e : expr, node_ser e = true -> build (type_code e) (vals_of e) = Ok e.
Proof. exact node_build. Qed.
Print Assumptions C19_node_roundtrip.
