(* C19 obligation: loads (dumps e) = e, for expressions given as labelled DAGs (the ids are the
   object addresses of the real archive): whatever the sharing, in both byte orders, for every
   node class with a save_basic / load_basic overload in the model; numbers, strings and doubles
   are compared by Leibniz equality (doubles = their 64-bit patterns). *)
From SE Require Import Codec.CodecSpec Codec.CodecRoundtrip.
Local Open Scope N_scope.
Theorem C19_decode_encode :
  forall (sw : bool) (ver : N * N) (G : N -> option wtree) (w : wtree),
    fst ver < 65536 -> snd ver < 65536 ->
    (forall s, In s (subtrees w) -> node_ok s) -> dag G w ->
    decode ver (encode sw ver w) = Ok (wt_expr w).
Proof. exact decode_encode. Qed.
Print Assumptions C19_decode_encode.
