(* C19: the hypotheses of the round-trip theorems hold for concrete non-trivial inputs, and the
   model's encoder really emits back-references for shared nodes (evaluated by the kernel). *)
From SE Require Import Codec.CodecSpec Codec.CodecRoundtrip Codec.CodecTree.
Local Open Scope N_scope.

Definition x : expr := ESym [120].
Definition y : expr := ESym [121].
(* x + y, the way the library holds it: coefficient 0, dictionary {x: 1, y: 1} *)
Definition s_xy : expr := EAdd (NInt 0) [(x, NInt 1); (y, NInt 1)].
(* (x + y) ** sin(x + y) *)
Definition e1 : expr := EPow s_xy (EF1 TC_Sin s_xy).
(* 2*x + 1/2 - 3/4*I, a double, a ComplexDouble with a negative zero and an infinity *)
Definition e2 : expr :=
  EFunSym [102] [EAdd (NCplx 1 2 (-3) 4) [(x, NInt 2)]; ENum (NDbl 9223372036854775808);
                 ENum (NCDbl 9223372036854775808 9218868437227405312); ENum (NInf (-1));
                 ENum (NInt (-123456789012345678901234567890))].

Example C19_trees_serialisable : serialisable e1 = true /\ serialisable e2 = true.
Proof. split; vm_compute; reflexivity. Qed.

(* the same expression as a DAG: the node x + y (id 20) occurs twice, and inside it the Integer 1
   (id 23) is one object used for both coefficients, like the library's global `one` *)
Definition one_w : wtree := WT 23 (ENum (NInt 1)) [].
Definition s_w : wtree :=
  WT 20 s_xy [WT 21 (ENum (NInt 0)) []; WT 22 x []; one_w; WT 24 y []; one_w].
Definition e1_w : wtree := WT 10 e1 [s_w; WT 11 (EF1 TC_Sin s_xy) [s_w]].

Example C19_dag_hypotheses :
  (forall s, In s (subtrees e1_w) -> node_ok s) /\ dag (G_of e1_w) e1_w.
Proof.
  split; intros s H; cbn in H;
    repeat (destruct H as [<-|H]; [first [ repeat split; vm_compute; reflexivity | vm_compute; reflexivity ]|]);
    destruct H.
Qed.

(* 14 positions, 7 distinct nodes: the stream has 7 full nodes and 2 back-references (132 bytes
   instead of the 246 bytes of the tree without sharing) ... *)
Example C19_dag_stream :
  length (subtrees e1_w) = 14%nat
  /\ length (fst (enc_node false e1_w [])) = 132%nat
  /\ length (fst (enc_node false (label e1) [])) = 246%nat
  (* ... and decoding returns the DAG, ids included *)
  /\ decode_lab (0, 14) (encode false (0, 14) e1_w) = Ok e1_w
  /\ decode (0, 14) (encode true (0, 14) e1_w) = Ok e1.
Proof. repeat split; vm_compute; reflexivity. Qed.
Print Assumptions C19_dag_stream.
