(* C19 obligation: loads (dumps e) = e for every serialisable expression e, written with fresh ids
   (no sharing): the labelled-DAG theorem instantiated; [serialisable] is a boolean function of e
   alone (every node: class supported, values in range, numbers in lowest terms, containers in the
   state their std:: container would have, admissible sizes). *)
From SE Require Import Codec.CodecSpec Codec.CodecTree.
Local Open Scope N_scope.
Theorem C19_decode_encode_tree :
  forall (sw : bool) (ver : N * N) (e : expr),
    fst ver < 65536 -> snd ver < 65536 -> serialisable e = true ->
    decode ver (encode sw ver (label e)) = Ok e.
Proof. exact decode_encode_tree. Qed.
Print Assumptions C19_decode_encode_tree.
