(* C19 obligation: DenseMatrix::loads (DenseMatrix::dumps A) = A: the dimensions and every element,
   the elements being labelled DAGs that share one id table (an object used in two cells is written
   once and restored as one node); loads requires row * col = number of elements. *)
From SE Require Import Codec.CodecSpec Codec.CodecMatrix.
Local Open Scope N_scope.
Theorem C19_dense_roundtrip :
  forall (sw : bool) (ver : N * N) (G : N -> option wtree) (rows cols : N) (ws : list wtree),
    fst ver < 65536 -> snd ver < 65536 ->
    rows < 4294967296 -> cols < 4294967296 -> rows * cols = N.of_nat (length ws) ->
    N.of_nat (length ws) * 8 < ALLOC_LIMIT ->
    (forall w s, In w ws -> In s (subtrees w) -> node_ok s /\ G (wt_addr s) = Some s) ->
    decode_matrix ver (encode_matrix sw ver rows cols ws) = Ok (rows, cols, ws).
Proof. exact dense_roundtrip. Qed.
Print Assumptions C19_dense_roundtrip.
