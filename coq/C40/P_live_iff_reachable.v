(* C40 obligation ("every expression is freed once its last reference is dropped", and not
   before): in every well-formed state an object is alive if and only if a chain of handles
   (a handle variable or an outside reference, then member handles) leads to it. *)
From Coq Require Import List Arith NArith.
Import ListNotations.
From SE Require Import Rcp.RcpModel Rcp.RcpSpec Rcp.RcpLeak.
Theorem C40_live_iff_reachable : forall st : state, wf st ->
  forall id, live_at (heap st) id <-> reach st id.
Proof. exact live_iff_reach. Qed.
Print Assumptions C40_live_iff_reachable.
