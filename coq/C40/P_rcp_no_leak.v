(* C40 obligation (rcp_no_leak, program form): after ANY handle program that ran to completion,
   if all handle variables are null again then the live objects are exactly the objects that
   existed before the program started (object graphs are acyclic by construction: members
   exist before their owner). *)
From Coq Require Import List Arith NArith.
Import ListNotations.
From SE Require Import Rcp.RcpModel Rcp.RcpSpec Rcp.RcpLeak.
Theorem C40_rcp_no_leak : forall (exts : list nat) (n : nat) (p : list op) (st' : state),
  Forall (fun e => 1 <= e) exts ->
  run (init_state exts n) p = ROk st' -> all_null (slots st') ->
  forall x, live_at (heap st') x <-> x < length exts.
Proof. exact rcp_no_leak. Qed.
Print Assumptions C40_rcp_no_leak.
