(* C40 obligation (steal_safe): Add::from_dict moves the dictionary out of a Mul only when
   use_count() == 1; then the temporary dictionary entry v[i] is the ONLY handle to that Mul (no
   other variable, no member of a live object, no outside reference), and no other handle
   variable observes any change. *)
From Coq Require Import List Arith NArith.
Import ListNotations.
From SE Require Import Rcp.RcpModel Rcp.RcpSpec Rcp.RcpInv Rcp.RcpProofs Rcp.RcpView.
Theorem C40_steal_safe :
  (forall (st : state) (i dest : nat) (st' : state) (j : nat), wf st ->
     step st (OSteal i dest) = ROk st' -> j <> i -> j <> dest -> view_slot st' j = view_slot st j) /\
  (forall (st : state) (i dest m : nat), wf st -> stolen st (OSteal i dest) = Some m ->
     nth_error (slots st) i = Some (Some m) /\ slot_refs (slots st) m = 1 /\
     kid_refs (heap st) m = 0 /\ ext_of (heap st) m = Some 0).
Proof. split; [exact steal_safe | exact steal_exclusive]. Qed.
Print Assumptions C40_steal_safe.
