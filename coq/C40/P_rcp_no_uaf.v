(* C40 obligation (rcp_no_uaf): starting from any set of library constants (each referenced at
   least once from outside) and any number of null handle variables, NO handle program --
   make_rcp, copy/move construction and assignment, reset, destructor, rcp_from_this,
   Add::from_dict-style member stealing, observed API results -- ever reads or writes the
   counter of a freed object, decrements a zero counter or exhausts the model's fuel; the only
   failures are unmet guards (null dereference, bad slot, malformed observation), and the
   final state is well-formed (every counter = number of handles pointing to the object). *)
From Coq Require Import List Arith NArith.
Import ListNotations.
From SE Require Import Rcp.RcpModel Rcp.RcpSpec Rcp.RcpProofs.
Theorem C40_rcp_no_uaf : forall (exts : list nat) (n : nat) (p : list op),
  Forall (fun e => 1 <= e) exts ->
  match run (init_state exts n) p with
  | ROk st' => wf st'
  | RBad _ => True
  | RUaf _ => False
  | RFuel => False
  end.
Proof. exact rcp_no_uaf. Qed.
Print Assumptions C40_rcp_no_uaf.
