(* C40 obligation (the guard is necessary): the same stealing with `use_count() <= 2` changes the
   expression seen by another holder -- v[2] shows g(a) before and the moved-from (empty) node
   after the step. *)
From Coq Require Import List Arith NArith.
Import ListNotations.
From SE Require Import Rcp.RcpModel Rcp.RcpSpec Rcp.RcpView.
Theorem C40_steal_threshold_2_refuted :
  wf st2 /\ exists st', step_gen 2 st2 (OSteal 1 3) = ROk st' /\
    view_slot st2 2 = Some (T [T []]) /\ view_slot st' 2 = Some (T []).
Proof. exact steal_threshold_2_refuted. Qed.
Print Assumptions C40_steal_threshold_2_refuted.
