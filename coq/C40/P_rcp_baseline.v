(* C40 obligation: what the driver measures with the live-object counter -- after any program
   that dropped all its handles the number of live objects is back at its baseline. *)
From Coq Require Import List Arith NArith.
Import ListNotations.
From SE Require Import Rcp.RcpModel Rcp.RcpSpec Rcp.RcpLeak.
Theorem C40_rcp_baseline : forall (exts : list nat) (n : nat) (p : list op) (st' : state),
  Forall (fun e => 1 <= e) exts ->
  run (init_state exts n) p = ROk st' -> all_null (slots st') ->
  live_count st' = length exts.
Proof. exact rcp_baseline. Qed.
Print Assumptions C40_rcp_baseline.
