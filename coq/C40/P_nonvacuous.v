(* C40: the hypotheses of the theorems are met by concrete non-trivial programs, evaluated by the
   kernel: a DAG with sharing is built, copied, moved, partially dropped (cascade through two
   levels), an API result is observed, and everything is dropped again. *)
From Coq Require Import List Arith NArith.
Import ListNotations.
From SE Require Import Rcp.RcpModel Rcp.RcpSpec Rcp.RcpProofs Rcp.RcpLeak.
Definition demo : list op :=
  [OMake 0 []; OMake 1 [0; 0]; OCopy 2 1; OMove 3 0; OMake 0 [1; 3]; OFromThis 4 2; OTemp 1;
   OApi 1 [[Old 0; Old 4]; [New 0; Old 2]] (New 1); OMoveCtor 2 0; OReset 1; OSteal 2 1;
   ODrop 0; ODrop 1; ODrop 2; ODrop 3; ODrop 4].
Example C40_demo_runs :
  match run (init_state [3; 1] 5) demo with
  | ROk st => live_count st = 2 /\ slots st = [None; None; None; None; None]
  | _ => False
  end.
Proof. vm_compute. split; reflexivity. Qed.
Example C40_demo_midway :
  match run (init_state [3; 1] 5) (firstn 8 demo) with
  | ROk st => live_count st = 7 /\
              map (fun c => match c with Live rc _ _ => Some rc | Freed => None end) (heap st)
              = [Some 4; Some 1; Some 5; Some 3; Some 2; Some 1; Some 1]
  | _ => False
  end.
Proof. vm_compute. split; reflexivity. Qed.
Example C40_init_wf : wf (init_state [3; 1] 5).
Proof. apply init_wf. repeat constructor. Qed.
Print Assumptions C40_demo_runs.
