(* C40 obligation: one step from ANY well-formed state (not only states reached from the empty
   heap): no use after free, well-formedness preserved, surviving objects keep their members
   (except the object whose dictionary is stolen) and handle variables that the operation does
   not assign keep their value. *)
From Coq Require Import List Arith NArith.
Import ListNotations.
From SE Require Import Rcp.RcpModel Rcp.RcpSpec Rcp.RcpProofs.
Theorem C40_step_sound : forall (st : state) (o : op), wf st ->
  match step st o with
  | ROk st' => step_post st o st'
  | RBad _ => True
  | RUaf _ => False
  | RFuel => False
  end.
Proof. exact step_sound. Qed.
Print Assumptions C40_step_sound.
