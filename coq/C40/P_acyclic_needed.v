(* C40 obligation (why rcp_no_leak is stated for acyclic graphs): two objects that hold each
   other have exact counters and stay alive without any handle variable or outside reference. *)
From Coq Require Import List Arith NArith.
Import ListNotations.
From SE Require Import Rcp.RcpModel Rcp.RcpSpec Rcp.RcpView.
Theorem C40_cycle_leaks :
  (forall id rc e k, nth_error cyc id = Some (Live rc e k) ->
     rc = e + slot_refs [] id + kid_refs cyc id) /\ live_at cyc 0 /\ live_at cyc 1.
Proof. exact cycle_leaks. Qed.
Print Assumptions C40_cycle_leaks.
