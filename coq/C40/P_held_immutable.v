(* C40 obligation: expressions are immutable while held -- no step changes the tree that a
   handle variable not assigned by the step lets its holder observe (for the stealing step
   v[i] is the temporary dictionary of from_dict itself). *)
From Coq Require Import List Arith NArith.
Import ListNotations.
From SE Require Import Rcp.RcpModel Rcp.RcpSpec Rcp.RcpView.
Theorem C40_held_immutable : forall (st : state) (o : op) (st' : state) (j : nat),
  wf st -> step st o = ROk st' -> ~ In j (writes o) -> view_slot st' j = view_slot st j.
Proof. exact held_immutable. Qed.
Print Assumptions C40_held_immutable.
