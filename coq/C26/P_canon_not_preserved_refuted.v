(* C26 refutation (known finding C26/noncanonical-result): the complete class invariants
   (is_canonical of every constructor, [canon]) are NOT preserved: diag(1,2) + diag(-1,-2) is a
   DiagonalMatrix of zeros, [[1,1],[0,1]] * [[1,-1],[0,1]] is a dense identity, and
   conjugate_matrix(Transpose(ConjugateMatrix(X))) contains ConjugateMatrix(ConjugateMatrix(X)).
   (The structural part [wf] is preserved: P_wf_preserved.v; values are preserved: P_*_sound.v.) *)
From SE Require Import C26.MatSpec C26.MatFindings.
Theorem C26_canon_not_preserved_refuted :
  (exists terms r, Forall (fun e => canon e = true) terms /\ matrix_add terms = Ok r /\ canon r = false) /\
  (exists args r, Forall (fun a => match a with AMat e => canon e = true | AScal _ => True end) args /\
                  matrix_mul args = Ok r /\ canon r = false) /\
  (exists e r, canon e = true /\ conjugate_matrix e = Ok r /\ canon r = false).
Proof. exact canon_not_preserved. Qed.
Print Assumptions C26_canon_not_preserved_refuted.
