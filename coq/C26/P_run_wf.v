(* C26 obligation: every expression that a program of public API calls (identity_matrix,
   zero_matrix, matrix_symbol, diagonal_matrix, immutable_dense_matrix, matrix_add, matrix_mul,
   hadamard_product, transpose, conjugate_matrix; any length, any nesting) can build is
   well-formed -- the hypothesis [wf] of the predicate theorems is met by everything reachable. *)
From SE Require Import C26.MatSpec C26.MatWfOps.
Theorem C26_run_wf : forall (prog : list tok) (e : mexpr), run prog = Ok e -> wf e = true.
Proof. exact run_wf. Qed.
Print Assumptions C26_run_wf.
