(* C26 obligation: a DomainError of matrix_add / hadamard_product / matrix_mul is never spurious:
   under every environment the dense computation on the operands is undefined (sizes do not fit,
   or there is no operand). *)
From SE Require Import C26.MatSpec C26.MatErrSound.
Theorem C26_error_sound :
  forall rho : env,
    (forall terms, matrix_add terms = ErrExn EXN_DOMAIN -> denote rho (MAdd terms) = None) /\
    (forall fs, hadamard_product fs = ErrExn EXN_DOMAIN -> denote rho (MHad fs) = None) /\
    (forall args, matrix_mul args = ErrExn EXN_DOMAIN -> denote rho (naive_mul args) = None).
Proof.
  intros rho. unfold denote.
  split; [intros t H; now rewrite (matrix_add_error_sound rho t H)|].
  split; [intros t H; now rewrite (hadamard_product_error_sound rho t H)|].
  intros a H; now rewrite (matrix_mul_error_sound rho a H).
Qed.
Print Assumptions C26_error_sound.
