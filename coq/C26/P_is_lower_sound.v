(* C26 obligation: an answer of is_lower(e) (over MatrixAdd / HadamardProduct nodes and concrete
   leaves of any size) is never contradicted by the dense value, for every well-formed expression. *)
From SE Require Import C26.MatSpec C26.MatPredRules.
Theorem C26_is_lower_sound :
  forall (rho : env) (e : mexpr) (t : tri) (V : mat),
    wf e = true -> is_lower e = Ok t -> denote rho e = Some V ->
    (t = TT -> P_lower V) /\ (t = TF -> ~ P_lower V).
Proof. intros rho e t V Hwf H. apply (is_lower_sound rho e t Hwf H). Qed.
Print Assumptions C26_is_lower_sound.
