(* Extraction of the C26 model (run from the output directory; not part of `make`). *)
From SE Require Import C26.MatModel.
Require Import ExtrOcamlBasic.
Extraction "mat_model.ml" run report_of Q2Qc.
