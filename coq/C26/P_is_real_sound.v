(* C26 obligation: is_real(e) is never contradicted by the dense value (all entries real / some entry not). *)
From SE Require Import C26.MatSpec C26.MatPredBase.
Theorem C26_is_real_sound :
  forall (rho : env) (e : mexpr) (V : mat),
    denote rho e = Some V -> (is_real e = TT -> P_real V) /\ (is_real e = TF -> ~ P_real V).
Proof. intros rho e V. apply (is_real_sound rho e). Qed.
Print Assumptions C26_is_real_sound.
