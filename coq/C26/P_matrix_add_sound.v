(* C26 obligation: whenever matrix_add returns an expression, that expression denotes the sum of
   the operands' dense values -- for every environment (values of dimension symbols and of matrix
   symbols) under which the sum is defined, for operand lists of any length and any nesting. *)
From SE Require Import C26.MatSpec C26.MatFinal.
Theorem C26_matrix_add_sound :
  forall (rho : env) (terms : list mexpr) (res : mexpr),
    matrix_add terms = Ok res ->
    forall V, denote rho (MAdd terms) = Some V -> exists V', denote rho res = Some V' /\ meq V' V.
Proof. exact matrix_add_sound. Qed.
Print Assumptions C26_matrix_add_sound.
