(* C26 -- well-formedness is preserved, part 2: hadamard_product, matrix_mul, transpose,
   conjugate_matrix, the factories, and every program of API calls ([run]). *)
From SE Require Import C26.MatSpec C26.MatLemmas C26.MatWfAdd.
From Coq Require Import Lia.
Local Open Scope nat_scope.
Local Open Scope res_scope.

(* ---------------------------------------------------------------- hadamard_product *)
Definition had_kept (e : mexpr) : Prop :=
  wf e = true /\ is_MZero e = false /\ is_MHad e = false /\ concrete e = false.

Definition had_winv (p : list mexpr) (st : had_state) : Prop :=
  Forall had_kept (h_keep st) /\
  count_ident (h_keep st) = (if h_ident st then 1 else 0) /\
  (forall d, h_diag st = Some d -> d <> []) /\
  (forall m n v, h_dense st = Some (m, n, v) ->
     1 <= m /\ 1 <= n /\ length v = m * n /\ exists v', In (MDense m n v') p) /\
  (p <> [] -> h_keep st <> [] \/ h_diag st <> None \/ h_dense st <> None).

Lemma flatten_had_wf fs :
  Forall (fun e => wf e = true) fs ->
  Forall (fun e => wf e = true /\ is_MHad e = false) (flatten_had fs).
Proof.
  unfold flatten_had. induction 1 as [|t r Ht _ IH]; [constructor|].
  cbn [flat_map]. apply Forall_app. split; [|assumption].
  destruct t; try (constructor; [split; [assumption | reflexivity] | constructor]).
  cbn [wf] in Ht. rewrite !andb_true_iff in Ht. destruct Ht as [[[[_ Hk] _] _] Hw].
  rewrite forallb_forall in Hk, Hw. apply Forall_forall. intros x Hx. split; [auto|].
  specialize (Hk x Hx). apply negb_true_iff, orb_false_iff in Hk. tauto.
Qed.

Lemma count_ident_single e : count_ident [e] = if is_MIdent e then 1 else 0.
Proof. unfold count_ident. cbn [filter]. destruct (is_MIdent e); reflexivity. Qed.

Lemma had_loop_wf expanded :
  check_matching_sizes expanded = Ok tt ->
  forall rest p st out,
    p ++ rest = expanded -> had_winv p st ->
    Forall (fun e => wf e = true /\ is_MHad e = false) rest ->
    had_loop rest st = Ok out ->
    match out with
    | inl z => In z rest
    | inr st' => had_winv expanded st'
    end.
Proof.
  intros Hchk. induction rest as [|x rest IH]; intros p st out Hp HI Hr Hf; cbn [had_loop] in Hf.
  - inversion Hf; subst. now rewrite app_nil_r.
  - destruct (had_step st x) as [[z|st1]| | |] eqn:Es; cbn [bind] in Hf; try discriminate.
    { inversion Hf; subst. left. unfold had_step in Es.
      destruct x; try discriminate; try (inversion Es; reflexivity).
      - destruct (h_ident st); discriminate.
      - destruct (h_diag st); [destruct (zipc emul l d 0); cbn in Es|]; discriminate.
      - destruct (h_dense st) as [[[? ?] ?]|]; [destruct (zipc emul v l 0); cbn in Es|]; discriminate. }
    inversion Hr as [|? ? [Hwx Hax] Hr']; subst.
    assert (Hnext : had_winv (p ++ [x]) st1).
    { destruct HI as (Hk & Hci & Hd & Hde & Hne).
      assert (Hmono : forall w, In w p -> In w (p ++ [x])) by (intros; apply in_or_app; now left).
      unfold had_step in Es.
      destruct x; try discriminate;
        try (inversion Es; subst; clear Es; unfold had_winv; cbn [h_keep h_diag h_dense h_ident];
          (split; [apply Forall_app; split; [assumption|]; constructor; [|constructor];
                   unfold had_kept; repeat split; try assumption; reflexivity|]);
          (split; [rewrite count_ident_app, count_ident_single, Hci; cbn [is_MIdent]; lia|]);
          (split; [assumption|]);
          (split; [intros m0 n0 v0 E; destruct (Hde m0 n0 v0 E) as (A & B & C & v' & D); eauto 10|]);
          intros _; left; destruct (h_keep st); discriminate).
      + (* MIdent *)
        destruct (h_ident st) eqn:Eid; inversion Es; subst; clear Es.
        * split; [assumption|]. split; [now rewrite Eid|]. split; [assumption|].
          split; [intros m0 n0 v0 E; destruct (Hde m0 n0 v0 E) as (A & B & C & v' & D); eauto 10|].
          intros _. left. intros E0. rewrite E0 in Hci. cbn in Hci. discriminate.
        * unfold had_winv; cbn [h_keep h_diag h_dense h_ident].
          split; [apply Forall_app; split; [assumption|]; constructor; [|constructor];
                  unfold had_kept; repeat split; reflexivity|].
          split; [rewrite count_ident_app, count_ident_single, Hci; cbn [is_MIdent]; lia|].
          split; [assumption|].
          split; [intros m0 n0 v0 E; destruct (Hde m0 n0 v0 E) as (A & B & C & v' & D); eauto 10|].
          intros _. left. destruct (h_keep st); discriminate.
      + (* MDiag *)
        apply wf_MDiag in Hwx.
        destruct (h_diag st) as [d0|] eqn:Ed.
        * destruct (zipc emul d0 d 0) as [s| | |] eqn:Ez; cbn [bind] in Es; try discriminate.
          inversion Es; subst; clear Es. unfold had_winv; cbn [h_keep h_diag h_dense h_ident].
          apply zipc_spec in Ez. destruct Ez as (Ls & _ & _).
          split; [assumption|]. split; [assumption|].
          split; [intros d' E; inversion E; subst; pose proof (Hd d0 eq_refl); destruct d0; [congruence|]; destruct d'; discriminate|].
          split; [intros m0 n0 v0 E; destruct (Hde m0 n0 v0 E) as (A & B & C & v' & D); eauto 10|].
          intros _. right. left. discriminate.
        * inversion Es; subst; clear Es. unfold had_winv; cbn [h_keep h_diag h_dense h_ident].
          split; [assumption|]. split; [assumption|].
          split; [intros d' E; inversion E; subst; assumption|].
          split; [intros m0 n0 v0 E; destruct (Hde m0 n0 v0 E) as (A & B & C & v' & D); eauto 10|].
          intros _. right. left. discriminate.
      + (* MDense *)
        apply wf_MDense in Hwx. destruct Hwx as (Hm & Hn & Lv).
        destruct (h_dense st) as [[[m0 n0] v0]|] eqn:Ede.
        * destruct (zipc emul v v0 0) as [s| | |] eqn:Ez; cbn [bind] in Es; try discriminate.
          inversion Es; subst; clear Es. unfold had_winv; cbn [h_keep h_diag h_dense h_ident].
          destruct (Hde m0 n0 v0 eq_refl) as (A & B & C & v' & D).
          apply in_split in D. destruct D as (l1 & l2 & ->).
          assert (Hpair : size_pair_check (size (MDense m0 n0 v')) (size (MDense m n v)) = Ok tt).
          { apply (check_pairs _ Hchk l1 (MDense m0 n0 v') l2 (MDense m n v) rest).
            rewrite <- app_assoc. reflexivity. }
          apply dense_pair_check in Hpair. destruct Hpair as [-> ->].
          apply zipc_spec in Ez. destruct Ez as (Ls & _ & _).
          split; [assumption|]. split; [assumption|]. split; [assumption|].
          split.
          -- intros m1 n1 v1 E. inversion E; subst. repeat split; try assumption; try lia.
             exists v'. apply in_or_app. left. apply in_or_app. right. now left.
          -- intros _. right. right. discriminate.
        * inversion Es; subst; clear Es. unfold had_winv; cbn [h_keep h_diag h_dense h_ident].
          split; [assumption|]. split; [assumption|]. split; [assumption|].
          split.
          -- intros m1 n1 v1 E. inversion E; subst. repeat split; try assumption.
             exists v1. apply in_or_app. right. now left.
          -- intros _. right. right. discriminate. }
    assert (Hp2 : (p ++ [x]) ++ rest = p ++ x :: rest) by (rewrite <- app_assoc; reflexivity).
    specialize (IH (p ++ [x]) st1 out Hp2 Hnext Hr' Hf).
    destruct out; [now right | assumption].
Qed.

Lemma had_kept_flags l :
  Forall had_kept l ->
  forallb (fun t => negb (is_MZero t || is_MHad t)) l = true /\ forallb wf l = true /\
  Forall (fun e => concrete e = false) l.
Proof.
  intros H. rewrite !forallb_Forall. repeat split; eapply Forall_impl; try exact H;
    intros e (A & B & C & D); cbn beta; try assumption. now rewrite B, C.
Qed.

Lemma wf_MHad_build keep tail :
  Forall had_kept keep -> count_ident keep <= 1 ->
  (tail = [] \/ exists c, tail = [c] /\ wf c = true /\ concrete c = true) ->
  2 <= length (keep ++ tail) -> wf (MHad (keep ++ tail)) = true.
Proof.
  intros Hk Hci Ht Hl. destruct (had_kept_flags keep Hk) as (F1 & F2 & F3).
  assert (Hflags : forall c, concrete c = true -> is_MZero c = false /\ is_MHad c = false /\ is_MIdent c = false).
  { intros c Hc. destruct c; cbn in Hc; try discriminate; auto. }
  cbn [wf]. rewrite !andb_true_iff. repeat split.
  - now apply Nat.leb_le.
  - rewrite forallb_app, F1. destruct Ht as [->|(c & -> & A & B)]; [reflexivity|].
    destruct (Hflags c B) as (Z & H & _). cbn [forallb]. now rewrite Z, H.
  - apply Nat.leb_le. rewrite count_concrete_app, (count_concrete_none keep F3).
    destruct Ht as [->|(c & -> & _ & B)]; [cbn; lia|]. unfold count_concrete. cbn [filter]. rewrite B. cbn. lia.
  - apply Nat.leb_le. rewrite count_ident_app.
    destruct Ht as [->|(c & -> & _ & B)]; [cbn; lia|]. rewrite count_ident_single.
    destruct (Hflags c B) as (_ & _ & I). rewrite I. lia.
  - rewrite forallb_app, F2. destruct Ht as [->|(c & -> & A & _)]; [reflexivity|].
    cbn [forallb]. now rewrite A.
Qed.

Theorem hadamard_product_wf fs res :
  Forall (fun e => wf e = true) fs -> hadamard_product fs = Ok res -> wf res = true.
Proof.
  intros Hw Hm. unfold hadamard_product in Hm.
  destruct fs as [|t0 [|t1 rest]]; [discriminate | inversion Hm; subst; now inversion Hw |].
  set (terms := t0 :: t1 :: rest) in *.
  destruct (check_matching_sizes (flatten_had terms)) as [[]| | |] eqn:Ec; cbn [bind] in Hm; try discriminate.
  destruct (had_loop (flatten_had terms) _) as [out| | |] eqn:Ef; cbn [bind] in Hm; try discriminate.
  pose proof (flatten_had_wf terms Hw) as Hfl.
  assert (Hne : flatten_had terms <> []).
  { unfold terms, flatten_had. cbn [flat_map]. inversion Hw as [|? ? Hw0 _]; subst.
    destruct t0; try discriminate. cbn [wf] in Hw0. rewrite !andb_true_iff in Hw0.
    destruct Hw0 as [[[[Hl _] _] _] _]. apply Nat.leb_le in Hl. destruct fs; [cbn in Hl; lia | discriminate]. }
  assert (HI0 : had_winv [] {| h_keep := []; h_diag := None; h_dense := None; h_ident := false |}).
  { unfold had_winv. cbn [h_keep h_diag h_dense h_ident]. split; [constructor|]. split; [reflexivity|].
    split; [discriminate|]. split; [discriminate|]. congruence. }
  pose proof (had_loop_wf _ Ec (flatten_had terms) [] _ out eq_refl HI0 Hfl Ef) as Hout.
  destruct out as [z|st].
  - inversion Hm; subst res. rewrite Forall_forall in Hfl. now apply Hfl.
  - destruct Hout as (Hk & Hci & Hd & Hde & Hnonempty). specialize (Hnonempty Hne).
    assert (Hci' : count_ident (h_keep st) <= 1) by (rewrite Hci; destruct (h_ident st); lia).
    destruct (h_dense st) as [[[m n] v]|] eqn:Ede.
    + destruct (Hde m n v eq_refl) as (A & B & C & _).
      destruct (h_diag st) as [d|] eqn:Ed.
      * destruct (had_dense_diag m n v d) as [pd| | |] eqn:Ea; cbn [bind fst snd] in Hm; try discriminate.
        unfold had_dense_diag in Ea. apply mapM_length in Ea. rewrite seq_length in Ea.
        assert (Hc : wf (MDiag pd) = true) by (apply wf_MDiag; destruct pd; [cbn in Ea; lia | discriminate]).
        destruct (h_keep st ++ [MDiag pd]) as [|x [|y l]] eqn:Ek.
        -- destruct (h_keep st); discriminate.
        -- inversion Hm; subst res. destruct (h_keep st) as [|k0 kr]; [|destruct kr; discriminate].
           cbn in Ek. inversion Ek; subst. exact Hc.
        -- inversion Hm; subst res. rewrite <- Ek. apply wf_MHad_build; [assumption | assumption | | rewrite Ek; cbn; lia].
           right. exists (MDiag pd). auto.
      * cbn [bind fst snd] in Hm.
        assert (Hc : wf (MDense m n v) = true) by (apply wf_MDense; auto).
        destruct (h_keep st ++ [MDense m n v]) as [|x [|y l]] eqn:Ek.
        -- destruct (h_keep st); discriminate.
        -- inversion Hm; subst res. destruct (h_keep st) as [|k0 kr]; [|destruct kr; discriminate].
           cbn in Ek. inversion Ek; subst. exact Hc.
        -- inversion Hm; subst res. rewrite <- Ek. apply wf_MHad_build; [assumption | assumption | | rewrite Ek; cbn; lia].
           right. exists (MDense m n v). auto.
    + cbn [bind fst snd] in Hm.
      destruct (h_diag st) as [d|] eqn:Ed.
      * assert (Hc : wf (MDiag d) = true) by (apply wf_MDiag; now apply Hd).
        destruct (h_keep st ++ [MDiag d]) as [|x [|y l]] eqn:Ek.
        -- destruct (h_keep st); discriminate.
        -- inversion Hm; subst res. destruct (h_keep st) as [|k0 kr]; [|destruct kr; discriminate].
           cbn in Ek. inversion Ek; subst. exact Hc.
        -- inversion Hm; subst res. rewrite <- Ek. apply wf_MHad_build; [assumption | assumption | | rewrite Ek; cbn; lia].
           right. exists (MDiag d). auto.
      * destruct (h_keep st) as [|x [|y l]] eqn:Ek.
        -- exfalso. destruct Hnonempty as [H|[H|H]]; congruence.
        -- inversion Hm; subst res. inversion Hk as [|? ? (A & _) _]; subst. exact A.
        -- inversion Hm; subst res. rewrite <- (app_nil_r (x :: y :: l)).
           apply wf_MHad_build; [assumption | assumption | now left | cbn; lia].
Qed.

(* ---------------------------------------------------------------- matrix_mul *)
Definition mul_in (e : mexpr) : Prop := wf e = true /\ is_MMul e = false /\ is_MZero e = false.
Definition mul_kept (e : mexpr) : Prop :=
  wf e = true /\ is_MZero e = false /\ is_MIdent e = false /\ is_MMul e = false.

Lemma wf_MMul_children k fs x :
  wf (MMul k fs) = true -> In x fs -> mul_in x.
Proof.
  cbn [wf]. rewrite !andb_true_iff, orb_true_iff. intros [[_ Hk] Hw] Hin.
  rewrite forallb_forall in Hw. split; [auto|].
  destruct Hk as [Hk|Hk].
  - rewrite forallb_forall in Hk. specialize (Hk x Hin). apply negb_true_iff in Hk.
    apply orb_false_iff in Hk. destruct Hk as [Hk ?]. apply orb_false_iff in Hk. tauto.
  - destruct fs as [|[] [|]]; try discriminate. destruct Hin as [<-|[]]. split; reflexivity.
Qed.

Lemma expand_mul_in args : forall s acc,
  Forall mul_in acc ->
  Forall (fun a => match a with AMat e => wf e = true /\ is_MZero e = false | AScal _ => True end) args ->
  Forall mul_in (snd (expand_mul args s acc)).
Proof.
  induction args as [|a args IH]; intros s acc Ha Hargs; cbn [expand_mul]; [exact Ha|].
  inversion Hargs as [|? ? H0 Hr]; subst. destruct a as [q|e].
  - now apply IH.
  - destruct H0 as [Hw Hz].
    assert (Hgen : Forall mul_in (snd (expand_mul args s (acc ++ [e]))) \/ is_MMul e = true).
    { destruct (is_MMul e) eqn:Em; [now right|]. left. apply IH; [|assumption].
      apply Forall_app. split; [assumption|]. constructor; [|constructor]. repeat split; assumption. }
    destruct e; try (destruct Hgen as [G|G]; [exact G | discriminate]).
    apply IH; [|assumption]. apply Forall_app. split; [assumption|].
    apply Forall_forall. intros x Hx. eapply wf_MMul_children; eauto.
Qed.

Lemma first_zero_none args :
  first_zero_arg args = None ->
  Forall (fun a => match a with AMat e => is_MZero e = false | AScal _ => True end) args.
Proof.
  unfold first_zero_arg. intros H. apply Forall_forall. intros a Hin. destruct a as [q|e]; [exact I|].
  apply (find_none _ _ H e). apply in_flat_map. exists (AMat e). split; [assumption | now left].
Qed.

Definition mul_winv (p : list mexpr) (st : mul_state) : Prop :=
  Forall mul_kept (m_keep st) /\
  (forall d, m_diag st = Some d -> d <> []) /\
  (forall m n v, m_dense st = Some (m, n, v) -> 1 <= m /\ 1 <= n /\ length v = m * n) /\
  (p <> [] -> flush st <> [] \/ m_ident st <> None).

Lemma flush_kept st :
  Forall mul_kept (m_keep st) ->
  (forall d, m_diag st = Some d -> d <> []) ->
  (forall m n v, m_dense st = Some (m, n, v) -> 1 <= m /\ 1 <= n /\ length v = m * n) ->
  Forall mul_kept (flush st).
Proof.
  intros Hk Hd Hde. unfold flush. destruct (m_diag st) as [d|].
  - apply Forall_app. split; [assumption|]. constructor; [|constructor].
    repeat split; try reflexivity. apply wf_MDiag. now apply Hd.
  - destruct (m_dense st) as [[[m n] v]|]; [|assumption].
    apply Forall_app. split; [assumption|]. constructor; [|constructor].
    repeat split; try reflexivity. apply wf_MDense. now apply Hde.
Qed.

Lemma tab2_length {B} m n (f : nat -> nat -> res B) r : tab2 m n f = Ok r -> length r = m * n.
Proof.
  unfold tab2. intros H. apply mapM_length in H. now rewrite H, list_prod_length, !seq_length.
Qed.

Lemma mul_step_wf p st x st' :
  mul_winv p st -> mul_in x -> mul_step st x = Ok st' -> mul_winv (p ++ [x]) st'.
Proof.
  intros (Hk & Hd & Hde & Hne) (Hwx & Hmx & Hzx) Hstep.
  pose proof (flush_kept st Hk Hd Hde) as Hfl.
  unfold mul_step in Hstep.
  destruct x; try discriminate;
    try (inversion Hstep; subst; clear Hstep; cbn [m_keep m_diag m_dense m_ident];
      (split; [apply Forall_app; split; [assumption|]; constructor; [|constructor];
               repeat split; try assumption; reflexivity|]);
      (split; [discriminate|]); (split; [discriminate|]);
      intros _; left; unfold flush at 1; cbn [m_keep m_diag m_dense]; destruct (flush st); discriminate).
  - (* MIdent *)
    inversion Hstep; subst; clear Hstep. cbn [m_keep m_diag m_dense m_ident].
    split; [assumption|]. split; [assumption|]. split; [assumption|].
    intros _. right. discriminate.
  - (* MDiag *)
    apply wf_MDiag in Hwx.
    destruct (m_diag st) as [d0|] eqn:Ed.
    + destruct (mul_diag_diag d0 d) as [pd| | |] eqn:Em; cbn [bind] in Hstep; try discriminate.
      inversion Hstep; subst; clear Hstep. cbn [m_keep m_diag m_dense m_ident].
      unfold mul_diag_diag in Em. destruct (Nat.eqb _ _) eqn:EG in Em; cbn [negb] in Em; [|discriminate]. apply zipc_spec in Em. destruct Em as (Ls & _ & _).
      split; [assumption|].
      split; [intros d' E; inversion E; subst; pose proof (Hd d0 eq_refl); destruct d0; [congruence|]; destruct d'; discriminate|].
      split; [assumption|].
      intros _. left. unfold flush. cbn [m_diag m_keep]. destruct (m_keep st); discriminate.
    + destruct (m_dense st) as [[[m n] v]|] eqn:Ede.
      * destruct (mul_dense_diag m n v d) as [r| | |] eqn:Em; cbn [bind] in Hstep; try discriminate.
        inversion Hstep; subst; clear Hstep. cbn [m_keep m_diag m_dense m_ident].
        destruct (Hde m n v eq_refl) as (A & B & C).
        unfold mul_dense_diag in Em. destruct (Nat.eqb _ _) eqn:EG in Em; cbn [negb] in Em; [|discriminate]. destruct (tab2 m n _) as [pv| | |] eqn:Et; cbn [bind] in Em; try discriminate.
        inversion Em; subst r. apply tab2_length in Et.
        split; [assumption|]. split; [discriminate|].
        split; [intros m1 n1 v1 E; inversion E; subst; auto|].
        intros _. left. unfold flush. cbn [m_diag m_dense m_keep]. destruct (m_keep st); discriminate.
      * inversion Hstep; subst; clear Hstep. cbn [m_keep m_diag m_dense m_ident].
        split; [assumption|].
        split; [intros d' E; inversion E; subst; assumption|].
        split; [discriminate|].
        intros _. left. unfold flush. cbn [m_diag m_keep]. destruct (m_keep st); discriminate.
  - (* MDense *)
    apply wf_MDense in Hwx. destruct Hwx as (Hm & Hn & Lv).
    destruct (m_dense st) as [[[m0 n0] v0]|] eqn:Ede.
    + destruct (mul_dense_dense m0 n0 v0 m n v) as [r| | |] eqn:Em; cbn [bind] in Hstep; try discriminate.
      inversion Hstep; subst; clear Hstep. cbn [m_keep m_diag m_dense m_ident].
      destruct (Hde m0 n0 v0 eq_refl) as (A & B & C).
      unfold mul_dense_dense in Em. destruct (Nat.eqb _ _) eqn:EG in Em; cbn [negb] in Em; [|discriminate]. destruct (tab2 m0 n _) as [pv| | |] eqn:Et; cbn [bind] in Em; try discriminate.
      inversion Em; subst r. apply tab2_length in Et.
      split; [assumption|]. split; [assumption|].
      split; [intros m1 n1 v1 E; inversion E; subst; auto|].
      intros _. left. unfold flush. cbn [m_diag m_dense m_keep].
      destruct (m_diag st); destruct (m_keep st); discriminate.
    + destruct (m_diag st) as [d0|] eqn:Ed.
      * destruct (mul_diag_dense d0 m n v) as [r| | |] eqn:Em; cbn [bind] in Hstep; try discriminate.
        inversion Hstep; subst; clear Hstep. cbn [m_keep m_diag m_dense m_ident].
        unfold mul_diag_dense in Em. destruct (Nat.eqb _ _) eqn:EG in Em; cbn [negb] in Em; [|discriminate]. destruct (tab2 m n _) as [pv| | |] eqn:Et; cbn [bind] in Em; try discriminate.
        inversion Em; subst r. apply tab2_length in Et.
        split; [assumption|]. split; [discriminate|].
        split; [intros m1 n1 v1 E; inversion E; subst; auto|].
        intros _. left. unfold flush. cbn [m_diag m_dense m_keep]. destruct (m_keep st); discriminate.
      * inversion Hstep; subst; clear Hstep. cbn [m_keep m_diag m_dense m_ident].
        split; [assumption|]. split; [discriminate|].
        split; [intros m1 n1 v1 E; inversion E; subst; auto|].
        intros _. left. unfold flush. cbn [m_diag m_dense m_keep]. destruct (m_keep st); discriminate.
Qed.

Lemma mul_loop_wf l : forall p st st',
  mul_winv p st -> Forall mul_in l -> foldM mul_step l st = Ok st' -> mul_winv (p ++ l) st'.
Proof.
  induction l as [|x l IH]; intros p st st' HI Hl H; cbn [foldM] in H.
  - inversion H; subst. now rewrite app_nil_r.
  - destruct (mul_step st x) as [st1| | |] eqn:E; cbn [bind] in H; try discriminate.
    inversion Hl; subst.
    replace (p ++ x :: l) with ((p ++ [x]) ++ l) by (rewrite <- app_assoc; reflexivity).
    eapply IH; [|eassumption|eassumption]. eapply mul_step_wf; eauto.
Qed.

Lemma wf_MMul_kept k l : l <> [] -> Forall mul_kept l -> wf (MMul k l) = true.
Proof.
  intros Hne H. cbn [wf]. rewrite !andb_true_iff, orb_true_iff. repeat split.
  - apply Nat.leb_le. destruct l; [congruence | cbn; lia].
  - left. apply forallb_Forall. eapply Forall_impl; [|exact H].
    intros e (A & B & C & D). cbn beta. now rewrite B, C, D.
  - apply forallb_Forall. eapply Forall_impl; [|exact H]. intros e (A & _). exact A.
Qed.

Theorem matrix_mul_wf args res :
  Forall (fun a => match a with AMat e => wf e = true | AScal _ => True end) args ->
  matrix_mul args = Ok res -> wf res = true.
Proof.
  intros Hw Hm. unfold matrix_mul in Hm.
  destruct args as [|a0 args']; [discriminate|].
  assert (Hbody : forall args,
    Forall (fun a => match a with AMat e => wf e = true | AScal _ => True end) args ->
    (let '(scalar, expanded) := expand_mul args e1 [] in
      do _ <- check_matching_mul_sizes expanded;
      match first_zero_arg args with
      | Some z => Ok (zero_result expanded z)
      | None =>
          do st <- foldM mul_step expanded {| m_keep := []; m_diag := None; m_dense := None; m_ident := None |};
          let keep := match flush st, m_ident st with [], Some n => [MIdent n] | k, _ => k end in
          match keep with
          | [x] => if e_eqb scalar e1 then Ok x else Ok (MMul scalar keep)
          | _ => Ok (MMul scalar keep)
          end
      end) = Ok res -> wf res = true).
  { clear. intros args Hw Hm.
    destruct (expand_mul args e1 []) as [scalar expanded] eqn:Ee.
    destruct (check_matching_mul_sizes expanded) as [[]| | |] eqn:Ec; cbn [bind] in Hm; try discriminate.
    assert (Hne : expanded <> []) by (intros ->; discriminate).
    destruct (first_zero_arg args) as [z|] eqn:Ez.
    - inversion Hm; subst res. unfold zero_result.
      assert (Hz : wf z = true).
      { unfold first_zero_arg in Ez. apply find_some in Ez. destruct Ez as [Hin _].
        apply in_flat_map in Hin. destruct Hin as (a & Ha & Hin). rewrite Forall_forall in Hw.
        specialize (Hw a Ha). destruct a; [destruct Hin|]. destruct Hin as [<-|[]]. exact Hw. }
      destruct (map size expanded) as [|s r]; [exact Hz|].
      destruct (fst s); [|exact Hz]. destruct (snd (last r s)); [reflexivity | exact Hz].
    - destruct (foldM mul_step expanded _) as [st| | |] eqn:Ef; cbn [bind] in Hm; try discriminate.
      assert (Hin : Forall mul_in expanded).
      { pose proof (expand_mul_in args e1 [] (Forall_nil _)) as G. rewrite Ee in G. apply G.
        pose proof (first_zero_none args Ez) as Hz. rewrite Forall_forall in *.
        intros a Ha. specialize (Hw a Ha). specialize (Hz a Ha). destruct a; auto. }
      assert (HI0 : mul_winv [] {| m_keep := []; m_diag := None; m_dense := None; m_ident := None |}).
      { split; [constructor|]. split; [discriminate|]. split; [discriminate|]. congruence. }
      pose proof (mul_loop_wf expanded [] _ st HI0 Hin Ef) as (Hk & Hd & Hde & Hnonempty). cbn [app] in Hnonempty.
      specialize (Hnonempty Hne).
      pose proof (flush_kept st Hk Hd Hde) as Hfl.
      destruct (flush st) as [|x [|y l]] eqn:EL.
      + destruct (m_ident st) as [n|]; [|destruct Hnonempty; congruence].
        destruct (e_eqb scalar e1); inversion Hm; subst res; reflexivity.
      + assert (Hx : mul_kept x) by (now inversion Hfl).
        assert (Hres : res = x \/ res = MMul scalar [x]).
        { destruct (m_ident st); destruct (e_eqb scalar e1); inversion Hm; auto. }
        destruct Hres as [-> | ->]; [apply Hx | apply wf_MMul_kept; [discriminate | assumption]].
      + assert (Hres : res = MMul scalar (x :: y :: l)) by (destruct (m_ident st); inversion Hm; reflexivity).
        subst res. apply wf_MMul_kept; [discriminate | assumption]. }
  destruct a0 as [q0|e0'], args' as [|a1 args'']; try discriminate.
  - exact (Hbody (AScal q0 :: a1 :: args'') Hw Hm).
  - inversion Hm; subst res. now inversion Hw.
  - exact (Hbody (AMat e0' :: a1 :: args'') Hw Hm).
Qed.

(* ---------------------------------------------------------------- transpose, conjugate_matrix *)
Definition same_kind (r e : mexpr) : Prop :=
  is_MZero r = is_MZero e /\ is_MAdd r = is_MAdd e /\ is_MHad r = is_MHad e /\
  concrete r = concrete e /\ is_MIdent r = is_MIdent e.

Lemma trans_arg_kind a : trans_arg_ok a = true ->
  is_MZero a = false /\ is_MAdd a = false /\ is_MHad a = false /\ concrete a = false /\ is_MIdent a = false.
Proof. destruct a; cbn; intros H; try discriminate; auto. Qed.

Lemma Forall2_same_kind_flags (f : mexpr -> bool) ts t :
  (forall r e, same_kind r e -> f r = f e) ->
  Forall2 same_kind t ts -> forallb f t = forallb f ts.
Proof.
  intros Hf. induction 1 as [|r e t ts H _ IH]; [reflexivity|]. cbn [forallb]. now rewrite (Hf r e H), IH.
Qed.

Lemma Forall2_same_kind_count (f : mexpr -> bool) ts t :
  (forall r e, same_kind r e -> f r = f e) ->
  Forall2 same_kind t ts -> length (filter f t) = length (filter f ts).
Proof.
  intros Hf. induction 1 as [|r e t ts H _ IH]; [reflexivity|]. cbn [filter]. rewrite (Hf r e H).
  destruct (f e); cbn [length]; congruence.
Qed.

Lemma Forall2_length' {A B} (R : A -> B -> Prop) l1 l2 : Forall2 R l1 l2 -> length l1 = length l2.
Proof. induction 1; cbn; congruence. Qed.

Section UnaryWf.
  Variable op : mexpr -> res mexpr.
  Hypothesis op_ok : forall e r, wf e = true -> op e = Ok r -> wf r = true /\ same_kind r e.

  Lemma unary_list ts t :
    Forall (fun e => wf e = true) ts -> Forall2 (fun x y => op x = Ok y) ts t ->
    Forall (fun e => wf e = true) t /\ Forall2 same_kind t ts.
  Proof.
    intros Hw H. induction H as [|x y ts t Hxy _ IH]; [split; constructor|].
    inversion Hw; subst. destruct (IH H2) as [A B]. destruct (op_ok x y H1 Hxy) as [C D].
    split; constructor; assumption.
  Qed.
End UnaryWf.

Lemma wf_MAdd_map ts t :
  wf (MAdd ts) = true -> Forall (fun e => wf e = true) t -> Forall2 same_kind t ts -> wf (MAdd t) = true.
Proof.
  cbn [wf]. rewrite !andb_true_iff. intros [[[Hl Hk] Hc] _] Hw Hs. repeat split.
  - now rewrite (Forall2_length' _ _ _ Hs).
  - rewrite (Forall2_same_kind_flags (fun t0 => negb (is_MZero t0 || is_MAdd t0)) ts t); [assumption | | assumption].
    intros r e (A & B & _). now rewrite A, B.
  - unfold count_concrete in *. rewrite (Forall2_same_kind_count concrete ts t); [assumption | | assumption].
    intros r e (_ & _ & _ & D & _). exact D.
  - now apply forallb_Forall.
Qed.

Lemma wf_MHad_map fs t :
  wf (MHad fs) = true -> Forall (fun e => wf e = true) t -> Forall2 same_kind t fs -> wf (MHad t) = true.
Proof.
  cbn [wf]. rewrite !andb_true_iff. intros [[[[Hl Hk] Hc] Hi] _] Hw Hs. repeat split.
  - now rewrite (Forall2_length' _ _ _ Hs).
  - rewrite (Forall2_same_kind_flags (fun t0 => negb (is_MZero t0 || is_MHad t0)) fs t); [assumption | | assumption].
    intros r e (A & _ & C & _). now rewrite A, C.
  - unfold count_concrete in *. rewrite (Forall2_same_kind_count concrete fs t); [assumption | | assumption].
    intros r e (_ & _ & _ & D & _). exact D.
  - unfold count_ident in *. rewrite (Forall2_same_kind_count is_MIdent fs t); [assumption | | assumption].
    intros r e (_ & _ & _ & _ & E). exact E.
  - now apply forallb_Forall.
Qed.

Lemma wf_children_MAdd ts : wf (MAdd ts) = true -> Forall (fun e => wf e = true) ts.
Proof. cbn [wf]. rewrite !andb_true_iff. intros [_ H]. now apply forallb_Forall. Qed.
Lemma wf_children_MHad fs : wf (MHad fs) = true -> Forall (fun e => wf e = true) fs.
Proof. cbn [wf]. rewrite !andb_true_iff. intros [_ H]. now apply forallb_Forall. Qed.

Lemma same_kind_refl e : same_kind e e.
Proof. repeat split. Qed.

Theorem transpose_wf e : forall r, wf e = true -> transpose e = Ok r -> wf r = true /\ same_kind r e.
Proof.
  induction e as [n|m n|x|d|m n v|ts IH|k fs IH|fs IH|a IHa|a IHa] using mexpr_ind';
    intros r Hw Ht; cbn [transpose] in Ht.
  - inversion Ht; subst. split; [assumption | apply same_kind_refl].
  - inversion Ht; subst. split; [reflexivity | repeat split].
  - inversion Ht; subst. split; [reflexivity | repeat split].
  - inversion Ht; subst. split; [assumption | apply same_kind_refl].
  - destruct (tab2 n m _) as [t| | |] eqn:E; cbn [bind] in Ht; try discriminate.
    inversion Ht; subst. apply tab2_length in E. apply wf_MDense in Hw. destruct Hw as (A & B & C).
    split; [apply wf_MDense; auto | repeat split].
  - destruct (mapM transpose ts) as [t| | |] eqn:E; cbn [bind] in Ht; try discriminate.
    inversion Ht; subst. apply mapM_Forall2 in E.
    assert (Hl : Forall (fun e => wf e = true) t /\ Forall2 same_kind t ts).
    { pose proof (wf_children_MAdd ts Hw) as Hc. clear Hw Ht.
      induction E as [|x y ts t Hxy _ IHE]; [split; constructor|].
      inversion IH; subst. inversion Hc; subst. destruct (IHE H2 H4) as [A B].
      destruct (H1 y H3 Hxy) as [C D]. split; constructor; assumption. }
    destruct Hl as [A B]. split; [eapply wf_MAdd_map; eauto | repeat split].
  - inversion Ht; subst. split; [|repeat split]. cbn [wf trans_arg_ok]. exact Hw.
  - destruct (mapM transpose fs) as [t| | |] eqn:E; cbn [bind] in Ht; try discriminate.
    inversion Ht; subst. apply mapM_Forall2 in E.
    assert (Hl : Forall (fun e => wf e = true) t /\ Forall2 same_kind t fs).
    { pose proof (wf_children_MHad fs Hw) as Hc. clear Hw Ht.
      induction E as [|x y fs t Hxy _ IHE]; [split; constructor|].
      inversion IH; subst. inversion Hc; subst. destruct (IHE H2 H4) as [A B].
      destruct (H1 y H3 Hxy) as [C D]. split; constructor; assumption. }
    destruct Hl as [A B]. split; [eapply wf_MHad_map; eauto | repeat split].
  - inversion Ht; subst. split; [|repeat split]. cbn [wf trans_arg_ok]. exact Hw.
  - injection Ht as <-. cbn [wf] in Hw. apply andb_true_iff in Hw. destruct Hw as [Ha Hw].
    split; [exact Hw|]. destruct (trans_arg_kind a Ha) as (A & B & C & D & E).
    unfold same_kind. cbn. now rewrite A, B, C, D, E.
Qed.

Theorem conjugate_wf e : forall r, wf e = true -> conjugate_matrix e = Ok r -> wf r = true /\ same_kind r e.
Proof.
  induction e as [n|m n|x|d|m n v|ts IH|k fs IH|fs IH|a IHa|a IHa] using mexpr_ind';
    intros r Hw Ht; cbn [conjugate_matrix] in Ht.
  - inversion Ht; subst. split; [assumption | apply same_kind_refl].
  - inversion Ht; subst. split; [assumption | apply same_kind_refl].
  - inversion Ht; subst. split; [reflexivity | repeat split].
  - inversion Ht; subst. split; [|repeat split]. apply wf_MDiag in Hw. apply wf_MDiag.
    destruct d; [congruence | discriminate].
  - inversion Ht; subst. split; [|repeat split]. apply wf_MDense in Hw. apply wf_MDense.
    now rewrite map_length.
  - destruct (mapM conjugate_matrix ts) as [t| | |] eqn:E; cbn [bind] in Ht; try discriminate.
    inversion Ht; subst. apply mapM_Forall2 in E.
    assert (Hl : Forall (fun e => wf e = true) t /\ Forall2 same_kind t ts).
    { pose proof (wf_children_MAdd ts Hw) as Hc. clear Hw Ht.
      induction E as [|x y ts t Hxy _ IHE]; [split; constructor|].
      inversion IH; subst. inversion Hc; subst. destruct (IHE H2 H4) as [A B].
      destruct (H1 y H3 Hxy) as [C D]. split; constructor; assumption. }
    destruct Hl as [A B]. split; [eapply wf_MAdd_map; eauto | repeat split].
  - inversion Ht; subst. split; [|repeat split]. cbn [wf trans_arg_ok]. exact Hw.
  - destruct (mapM conjugate_matrix fs) as [t| | |] eqn:E; cbn [bind] in Ht; try discriminate.
    inversion Ht; subst. apply mapM_Forall2 in E.
    assert (Hl : Forall (fun e => wf e = true) t /\ Forall2 same_kind t fs).
    { pose proof (wf_children_MHad fs Hw) as Hc. clear Hw Ht.
      induction E as [|x y fs t Hxy _ IHE]; [split; constructor|].
      inversion IH; subst. inversion Hc; subst. destruct (IHE H2 H4) as [A B].
      destruct (H1 y H3 Hxy) as [C D]. split; constructor; assumption. }
    destruct Hl as [A B]. split; [eapply wf_MHad_map; eauto | repeat split].
  - injection Ht as <-. cbn [wf] in Hw. apply andb_true_iff in Hw. destruct Hw as [Ha Hw].
    split; [exact Hw|]. destruct (trans_arg_kind a Ha) as (A & B & C & D & E).
    unfold same_kind. cbn. now rewrite A, B, C, D, E.
  - inversion Ht; subst. split; [|repeat split]. cbn [wf trans_arg_ok] in *. exact Hw.
Qed.

(* ---------------------------------------------------------------- factories and programs *)
Lemma diagonal_matrix_wf d r : diagonal_matrix d = Ok r -> wf r = true.
Proof.
  unfold diagonal_matrix. destruct (is_zero_vec d) eqn:Ez; [intros H; inversion H; reflexivity|].
  destruct (is_identity_vec d); intros H; inversion H; subst; [reflexivity|].
  apply wf_MDiag. intros ->. discriminate.
Qed.

Lemma immutable_dense_matrix_wf m n v r : immutable_dense_matrix m n v = Ok r -> wf r = true.
Proof.
  unfold immutable_dense_matrix.
  destruct ((1 <=? m) && (1 <=? n) && (length v =? m * n)) eqn:Ep; cbn [negb]; [|discriminate].
  rewrite !andb_true_iff, !Nat.leb_le, Nat.eqb_eq in Ep. destruct Ep as [[Hm Hn] Lv].
  destruct (is_zero_vec v); [intros H; inversion H; reflexivity|].
  destruct ((m =? n) && is_identity_dense m v); [intros H; inversion H; reflexivity|].
  destruct ((m =? n) && is_diagonal_dense m v); intros H; inversion H; subst.
  - apply wf_MDiag. unfold extract_diagonal. destruct m; [lia|]. rewrite seq_S. intros E.
    apply (f_equal (@length _)) in E. rewrite map_length, app_length in E. cbn in E. lia.
  - apply wf_MDense. auto.
Qed.

Definition stack_wf (st : list marg) : Prop :=
  Forall (fun a => match a with AMat e => wf e = true | AScal _ => True end) st.

Lemma popn_wf {n} st st' args : stack_wf st -> popn n st = Some (st', args) -> stack_wf st' /\ stack_wf args.
Proof.
  unfold popn, stack_wf. intros H. destruct (n <=? length st); [|discriminate]. intros E; inversion E; subst.
  rewrite <- (firstn_skipn (length st - n) st) in H. apply Forall_app in H. exact H.
Qed.

Lemma mats_of_wf args l : stack_wf args -> mats_of args = Some l -> Forall (fun e => wf e = true) l.
Proof.
  unfold mats_of, stack_wf. revert l. induction args as [|a args IH]; intros l H E; cbn [fold_right] in E.
  - inversion E; constructor.
  - inversion H; subst. destruct a as [q|e]; [discriminate|].
    destruct (fold_right _ (Some []) args) as [l'|] eqn:E'; [|discriminate]. inversion E; subst.
    constructor; [assumption | now apply IH].
Qed.

Lemma push_mat_wf st r st' : stack_wf st -> (forall e, r = Ok e -> wf e = true) -> push_mat st r = Ok st' -> stack_wf st'.
Proof.
  unfold push_mat, stack_wf. intros H Hr E. destruct r as [e| | |]; cbn [bind] in E; try discriminate.
  inversion E; subst. apply Forall_app. split; [assumption|]. constructor; [now apply Hr | constructor].
Qed.

Lemma step_wf st t st' : stack_wf st -> step st t = Ok st' -> stack_wf st'.
Proof.
  intros H E. unfold step in E. destruct t.
  - refine (push_mat_wf st _ st' H _ E). intros e He. inversion He; reflexivity.
  - refine (push_mat_wf st _ st' H _ E). intros e He. inversion He; reflexivity.
  - refine (push_mat_wf st _ st' H _ E). intros e He. inversion He; reflexivity.
  - refine (push_mat_wf st _ st' H _ E). intros e He. eapply diagonal_matrix_wf; exact He.
  - refine (push_mat_wf st _ st' H _ E). intros e He. eapply immutable_dense_matrix_wf; exact He.
  - inversion E; subst. apply Forall_app. split; [assumption | constructor; [exact I | constructor]].
  - destruct (popn n st) as [[st0 args]|] eqn:Ep; [|discriminate].
    destruct (popn_wf st st0 args H Ep) as [A B].
    destruct (mats_of args) as [l|] eqn:Em; [|discriminate].
    refine (push_mat_wf st0 _ st' A _ E). intros e He.
    eapply matrix_add_wf; [|exact He]. eapply mats_of_wf; eauto.
  - destruct (popn n st) as [[st0 args]|] eqn:Ep; [|discriminate].
    destruct (popn_wf st st0 args H Ep) as [A B].
    refine (push_mat_wf st0 _ st' A _ E). intros e He.
    eapply matrix_mul_wf; [|exact He]. exact B.
  - destruct (popn n st) as [[st0 args]|] eqn:Ep; [|discriminate].
    destruct (popn_wf st st0 args H Ep) as [A B].
    destruct (mats_of args) as [l|] eqn:Em; [|discriminate].
    refine (push_mat_wf st0 _ st' A _ E). intros e He.
    eapply hadamard_product_wf; [|exact He]. eapply mats_of_wf; eauto.
  - destruct (popn 1 st) as [[st0 args]|] eqn:Ep; [|discriminate].
    destruct (popn_wf st st0 args H Ep) as [A B].
    destruct args as [|[q|e] [|]]; try discriminate.
    refine (push_mat_wf st0 _ st' A _ E). intros r He. inversion B; subst.
    eapply transpose_wf; eauto.
  - destruct (popn 1 st) as [[st0 args]|] eqn:Ep; [|discriminate].
    destruct (popn_wf st st0 args H Ep) as [A B].
    destruct args as [|[q|e] [|]]; try discriminate.
    refine (push_mat_wf st0 _ st' A _ E). intros r He. inversion B; subst.
    eapply conjugate_wf; eauto.
Qed.

(* every expression built by a program of API calls is well-formed *)
Theorem run_wf prog e : run prog = Ok e -> wf e = true.
Proof.
  unfold run. destruct (foldM step prog []) as [st| | |] eqn:E; cbn [bind]; try discriminate.
  assert (H : stack_wf st).
  { revert E. assert (G : forall p st0 st1, stack_wf st0 -> foldM step p st0 = Ok st1 -> stack_wf st1).
    { induction p as [|t p IH]; intros st0 st1 H0 H1; cbn [foldM] in H1; [inversion H1; subst; assumption|].
      destruct (step st0 t) as [st2| | |] eqn:Es; cbn [bind] in H1; try discriminate.
      eapply IH; [|eassumption]. eapply step_wf; eauto. }
    intros E. eapply G; [|exact E]. constructor. }
  destruct st as [|[q|x] [|]]; try discriminate. intros He; inversion He; subst. now inversion H.
Qed.
