(* C26 obligation: is_square(e) is never contradicted by the shape of the dense value. *)
From SE Require Import C26.MatSpec C26.MatPredBase.
Theorem C26_is_square_sound :
  forall (rho : env) (e : mexpr) (V : mat),
    denote rho e = Some V -> (is_square e = TT -> P_square V) /\ (is_square e = TF -> ~ P_square V).
Proof. intros rho e V. apply (is_square_sound rho e). Qed.
Print Assumptions C26_is_square_sound.
