(* C26 -- predicates, part 2: is_diagonal / is_lower / is_upper / is_symmetric
   (the dense checkers, the MatrixAdd rule and the HadamardProduct rule). *)
From SE Require Import C26.MatSpec C26.MatLemmas C26.MatAddProofs C26.MatPredBase.
From Coq Require Import Lia Ring.
Local Open Scope nat_scope.
Local Open Scope res_scope.

(* ---------------------------------------------------------------- loop_tri *)
Lemma loop_tri_ext {A} (f g : A -> tri -> res tri) l c :
  (forall x cur, In x l -> f x cur = g x cur) -> loop_tri f l c = loop_tri g l c.
Proof.
  revert c. induction l as [|x l IH]; intros c H; cbn [loop_tri]; [reflexivity|].
  rewrite (H x c) by (now left). destruct (g x c) as [c'| | |]; cbn [bind]; try reflexivity.
  destruct (is_false c'); [reflexivity|]. apply IH. intros; apply H; now right.
Qed.

Lemma loop_and_spec {A} (chk : A -> res tri) l :
  (forall x, In x l -> chk x = Ok TT \/ chk x = Ok TF) ->
  (loop_tri (fun x cur => do b <- chk x; Ok (and_tri cur b)) l TT = Ok TT /\ forall x, In x l -> chk x = Ok TT) \/
  (loop_tri (fun x cur => do b <- chk x; Ok (and_tri cur b)) l TT = Ok TF /\ exists x, In x l /\ chk x = Ok TF).
Proof.
  induction l as [|x l IH]; intros H; cbn [loop_tri].
  - left. split; [reflexivity | intros x []].
  - destruct (H x (or_introl eq_refl)) as [E|E]; rewrite E; cbn [bind and_tri is_false].
    + destruct IH as [[HA HB]|[HA (y & Hy & Ey)]]; [intros; apply H; now right | |].
      * left. split; [assumption|]. intros z [<-|Hz]; auto.
      * right. split; [assumption|]. exists y. split; [now right | assumption].
    + right. split; [reflexivity|]. exists x. split; [now left | assumption].
Qed.

(* the entry check at a position, guarded by a condition *)
Definition chk_pos (n : nat) (v : list ent) (cond : nat * nat -> bool) (ij : nat * nat) : res tri :=
  if cond ij then do e <- rd v (fst ij * n + snd ij); Ok (tz e) else Ok TT.

Lemma chk_pos_step n v (cond : nat * nat -> bool) (ij : nat * nat) cur :
  (if cond ij then (do e <- rd v (fst ij * n + snd ij); Ok (and_tri cur (tz e))) else Ok cur)
  = (do b <- chk_pos n v cond ij; Ok (and_tri cur b)).
Proof.
  unfold chk_pos. destruct (cond ij).
  - destruct (rd v (fst ij * n + snd ij)); reflexivity.
  - cbn [bind]. now rewrite and_tri_TT_r.
Qed.

Lemma chk_pos_def n v cond ij :
  length v = n * n -> fst ij < n -> snd ij < n ->
  chk_pos n v cond ij = Ok TT \/ chk_pos n v cond ij = Ok TF.
Proof.
  intros L Hi Hj. unfold chk_pos. destruct (cond ij); [|now left].
  rewrite rd_lt by (rewrite L; nia). cbn [bind]. destruct (tz_cases (nth (fst ij * n + snd ij) v e0)) as [->| ->]; auto.
Qed.

Lemma chk_pos_TT n v cond ij :
  length v = n * n -> fst ij < n -> snd ij < n ->
  chk_pos n v cond ij = Ok TT -> cond ij = true -> nth (fst ij * n + snd ij) v e0 = e0.
Proof.
  intros L Hi Hj H Hc. unfold chk_pos in H. rewrite Hc in H.
  rewrite rd_lt in H by (rewrite L; nia). cbn [bind] in H. injection H as H. now apply tz_TT.
Qed.

Lemma chk_pos_TF n v cond ij :
  length v = n * n -> fst ij < n -> snd ij < n ->
  chk_pos n v cond ij = Ok TF -> cond ij = true /\ nth (fst ij * n + snd ij) v e0 <> e0.
Proof.
  intros L Hi Hj H. unfold chk_pos in H. destruct (cond ij); [|discriminate]. split; [reflexivity|].
  rewrite rd_lt in H by (rewrite L; nia). cbn [bind] in H. injection H as H. now apply tz_TF.
Qed.

(* ---------------------------------------------------------------- zero patterns *)
Definition P_pat (Z : nat -> nat -> bool) (V : mat) : Prop :=
  mr V = mc V /\ forall i j, i < mr V -> j < mc V -> Z i j = true -> mf V i j = e0.

Definition Zdiag (i j : nat) : bool := negb (i =? j).
Definition Zlower (i j : nat) : bool := i <? j.
Definition Zupper (i j : nat) : bool := j <? i.

Lemma P_diagonal_pat V : P_diagonal V <-> P_pat Zdiag V.
Proof.
  unfold P_diagonal, P_pat, Zdiag. split; intros [A B]; split; auto; intros i j Hi Hj H; apply B; auto.
  - apply negb_true_iff in H. now apply Nat.eqb_neq.
  - apply negb_true_iff. now apply Nat.eqb_neq.
Qed.
Lemma P_lower_pat V : P_lower V <-> P_pat Zlower V.
Proof.
  unfold P_lower, P_pat, Zlower. split; intros [A B]; split; auto; intros i j Hi Hj H; apply B; auto.
  - now apply Nat.ltb_lt.
  - now apply Nat.ltb_lt.
Qed.
Lemma P_upper_pat V : P_upper V <-> P_pat Zupper V.
Proof.
  unfold P_upper, P_pat, Zupper. split; intros [A B]; split; auto; intros i j Hi Hj H; apply B; auto.
  - now apply Nat.ltb_lt.
  - now apply Nat.ltb_lt.
Qed.

(* a dense checker for the pattern Z: a loop over the positions ps guarded by cond *)
Definition dense_chk (ps : nat -> list (nat * nat)) (cond : nat * nat -> bool) (m n : nat) (v : list ent) : res tri :=
  if negb (m =? n) then Ok TF
  else loop_tri (fun ij cur => if cond ij then do e <- rd v (fst ij * n + snd ij); Ok (and_tri cur (tz e)) else Ok cur)
                (ps n) TT.

Section DensePattern.
  Variable Z : nat -> nat -> bool.
  Variable ps : nat -> list (nat * nat).
  Variable cond : nat * nat -> bool.
  Hypothesis ps_range : forall n i j, In (i, j) (ps n) -> i < n /\ j < n.
  Hypothesis ps_Z : forall n i j, i < n -> j < n -> (Z i j = true <-> In (i, j) (ps n) /\ cond (i, j) = true).

  Lemma dense_chk_sound rho m n v t :
    dense_chk ps cond m n v = Ok t -> sound_answer t (P_pat Z) rho (MDense m n v) /\ t <> TI.
  Proof.
    intros H. split.
    2:{ unfold dense_chk in H. destruct (negb (m =? n)); [inversion H; discriminate|].
        rewrite (loop_tri_ext _ (fun ij cur => do b <- chk_pos n v cond ij; Ok (and_tri cur b))) in H
          by (intros; apply chk_pos_step).
        (* without the length hypothesis the loop may fail, but an Ok answer of an and-loop from TT is never TI:
           shown below under the shape hypothesis; here by a direct induction *)
        revert H. generalize (ps n) as l. intros l H.
        assert (G : forall c, c <> TI -> forall t0, loop_tri (fun ij cur => do b <- chk_pos n v cond ij; Ok (and_tri cur b)) l c = Ok t0 -> t0 <> TI).
        { clear. induction l as [|x l IH]; intros c Hc t0 H0; cbn [loop_tri] in H0.
          - inversion H0; subst; assumption.
          - destruct (chk_pos n v cond x) as [b| | |] eqn:E; cbn [bind] in H0; try discriminate.
            assert (Hb : b = TT \/ b = TF).
            { unfold chk_pos in E. destruct (cond x); [|inversion E; auto].
              destruct (rd v (fst x * n + snd x)); cbn [bind] in E; try discriminate.
              inversion E. apply tz_cases. }
            destruct (is_false (and_tri c b)) eqn:F.
            + inversion H0; subst. destruct c, b; cbn in *; congruence.
            + apply (IH (and_tri c b)); [|assumption]. destruct Hb as [-> | ->]; destruct c; cbn in *; congruence. }
        eapply G; [|exact H]. discriminate. }
    intros V HV. apply denote_Some in HV. destruct HV as (s & Hs & ->).
    apply shp_MDense_Some in Hs. destruct Hs as [Lv ->]. unfold P_pat. cbn [fst snd mr mc mf].
    unfold dense_chk in H. destruct (Nat.eqb_spec m n) as [->|Hne]; cbn [negb] in H.
    2:{ inversion H; subst. split; [discriminate|]. intros _ [A _]. congruence. }
    rewrite (loop_tri_ext _ (fun ij cur => do b <- chk_pos n v cond ij; Ok (and_tri cur b))) in H
      by (intros; apply chk_pos_step).
    destruct (loop_and_spec (chk_pos n v cond) (ps n)) as [[E A]|[E (x & Hx & Ex)]].
    { intros [i j] Hin. destruct (ps_range n i j Hin). now apply chk_pos_def. }
    - rewrite E in H. inversion H; subst. split; [|discriminate]. intros _. split; [reflexivity|].
      intros i j Hi Hj Hz. rewrite val_MDense. apply (ps_Z n i j Hi Hj) in Hz.
      destruct Hz as [Hin Hc]. apply (chk_pos_TT n v cond (i, j)); auto.
    - rewrite E in H. inversion H; subst. split; [discriminate|]. intros _ [_ B].
      destruct x as [i j]. destruct (ps_range n i j Hx) as [Hi Hj].
      destruct (chk_pos_TF n v cond (i, j) Lv Hi Hj Ex) as [Hc Hnz]. apply Hnz.
      specialize (B i j Hi Hj). rewrite val_MDense in B. apply B. apply (ps_Z n i j Hi Hj); auto.
  Qed.

  Lemma dense_chk_total m n v :
    length v = m * n -> exists t, dense_chk ps cond m n v = Ok t.
  Proof.
    intros Lv. unfold dense_chk. destruct (Nat.eqb_spec m n) as [->|]; cbn [negb]; [|eauto].
    rewrite (loop_tri_ext _ (fun ij cur => do b <- chk_pos n v cond ij; Ok (and_tri cur b)))
      by (intros; apply chk_pos_step).
    destruct (loop_and_spec (chk_pos n v cond) (ps n)) as [[E _]|[E _]]; [|eauto|eauto].
    intros [i j] Hin. destruct (ps_range n i j Hin). now apply chk_pos_def.
  Qed.
End DensePattern.

(* the three instances *)
Lemma in_pairs m n i j : In (i, j) (pairs m n) <-> i < m /\ j < n.
Proof. unfold pairs. rewrite in_prod_iff, !in_seq. lia. Qed.

Lemma in_upper_strict n i j : In (i, j) (upper_strict_pairs n) <-> i < j /\ j < n.
Proof.
  unfold upper_strict_pairs. rewrite in_flat_map. split.
  - intros (a & Ha & Hin). apply in_map_iff in Hin. destruct Hin as (b & E & Hb).
    inversion E; subst. apply in_seq in Ha. apply in_seq in Hb. lia.
  - intros [A B]. exists i. split; [apply in_seq; lia|]. apply in_map_iff. exists j.
    split; [reflexivity | apply in_seq; lia].
Qed.

Lemma in_lower_strict n i j : In (i, j) (lower_strict_pairs n) <-> j < i /\ i < n.
Proof.
  unfold lower_strict_pairs. rewrite in_flat_map. split.
  - intros (a & Ha & Hin). apply in_map_iff in Hin. destruct Hin as (b & E & Hb).
    inversion E; subst. apply in_seq in Ha. apply in_seq in Hb. lia.
  - intros [A B]. exists i. split; [apply in_seq; lia|]. apply in_map_iff. exists j.
    split; [reflexivity | apply in_seq; lia].
Qed.

Lemma in_lower_pairs n i j : In (i, j) (lower_pairs n) <-> j <= i /\ i < n.
Proof.
  unfold lower_pairs. rewrite in_flat_map. split.
  - intros (a & Ha & Hin). apply in_map_iff in Hin. destruct Hin as (b & E & Hb).
    inversion E; subst. apply in_seq in Ha. apply in_seq in Hb. lia.
  - intros [A B]. exists i. split; [apply in_seq; lia|]. apply in_map_iff. exists j.
    split; [reflexivity | apply in_seq; lia].
Qed.

Definition cond_offdiag (ij : nat * nat) : bool := negb (snd ij =? fst ij).
Definition cond_true (ij : nat * nat) : bool := true.

Lemma dense_is_diagonal_eq m n v :
  dense_is_diagonal m n v = dense_chk (fun n => pairs n n) cond_offdiag m n v.
Proof. reflexivity. Qed.

Lemma dense_lower_eq m n v :
  dense_tri_check (upper_strict_pairs m) m n v
  = if negb (m =? n) then Ok TF else dense_chk upper_strict_pairs cond_true n n v.
Proof.
  unfold dense_tri_check, dense_chk, dget, cond_true. destruct (Nat.eqb_spec m n) as [->|]; cbn [negb]; [|reflexivity].
  now rewrite Nat.eqb_refl.
Qed.

Lemma dense_upper_eq m n v :
  dense_tri_check (lower_strict_pairs m) m n v
  = if negb (m =? n) then Ok TF else dense_chk lower_strict_pairs cond_true n n v.
Proof.
  unfold dense_tri_check, dense_chk, dget, cond_true. destruct (Nat.eqb_spec m n) as [->|]; cbn [negb]; [|reflexivity].
  now rewrite Nat.eqb_refl.
Qed.

(* a dense checker is sound for Z and never answers "indeterminate" *)
Definition dense_sound (Z : nat -> nat -> bool) (D : nat -> nat -> list ent -> res tri) : Prop :=
  (forall rho m n v t, D m n v = Ok t -> sound_answer t (P_pat Z) rho (MDense m n v) /\ t <> TI) /\
  (forall m n v, length v = m * n -> exists t, D m n v = Ok t).

Lemma dense_sound_diag : dense_sound Zdiag dense_is_diagonal.
Proof.
  split.
  - intros rho m n v t H. rewrite dense_is_diagonal_eq in H.
    eapply (dense_chk_sound Zdiag (fun n => pairs n n) cond_offdiag); [| |exact H].
    + intros n0 i j Hin. now apply in_pairs in Hin.
    + intros n0 i j Hi Hj. unfold Zdiag, cond_offdiag. cbn [fst snd]. rewrite in_pairs, (Nat.eqb_sym j i). tauto.
  - intros m n v L. rewrite dense_is_diagonal_eq.
    eapply (dense_chk_total (fun n => pairs n n) cond_offdiag); [|exact L].
    intros n0 i j Hin. now apply in_pairs in Hin.
Qed.

Lemma nonsquare_TF rho Z m n v : m <> n -> sound_answer TF (P_pat Z) rho (MDense m n v) /\ TF <> TI.
Proof.
  intros Hne. split; [|discriminate]. intros V HV. apply denote_Some in HV. destruct HV as (s & Hs & ->).
  apply shp_MDense_Some in Hs. destruct Hs as [_ ->]. split; [discriminate|].
  intros _ [A _]. cbn in A. congruence.
Qed.

Lemma dense_sound_lower : dense_sound Zlower (fun m n v => dense_tri_check (upper_strict_pairs m) m n v).
Proof.
  split.
  - intros rho m n v t H. rewrite dense_lower_eq in H.
    destruct (Nat.eqb_spec m n) as [->|Hne]; cbn [negb] in H.
    + eapply (dense_chk_sound Zlower upper_strict_pairs cond_true); [| |exact H].
      * intros n0 i j Hin. apply in_upper_strict in Hin. lia.
      * intros n0 i j Hi Hj. unfold Zlower, cond_true. rewrite in_upper_strict, Nat.ltb_lt. intuition.
    + inversion H; subst. now apply nonsquare_TF.
  - intros m n v L. rewrite dense_lower_eq. destruct (Nat.eqb_spec m n) as [->|Hne]; cbn [negb]; [|eauto].
    eapply (dense_chk_total upper_strict_pairs cond_true); [|exact L].
    intros n0 i j Hin. apply in_upper_strict in Hin. lia.
Qed.

Lemma dense_sound_upper : dense_sound Zupper (fun m n v => dense_tri_check (lower_strict_pairs m) m n v).
Proof.
  split.
  - intros rho m n v t H. rewrite dense_upper_eq in H.
    destruct (Nat.eqb_spec m n) as [->|Hne]; cbn [negb] in H.
    + eapply (dense_chk_sound Zupper lower_strict_pairs cond_true); [| |exact H].
      * intros n0 i j Hin. apply in_lower_strict in Hin. lia.
      * intros n0 i j Hi Hj. unfold Zupper, cond_true. rewrite in_lower_strict, Nat.ltb_lt. intuition.
    + inversion H; subst. now apply nonsquare_TF.
  - intros m n v L. rewrite dense_upper_eq. destruct (Nat.eqb_spec m n) as [->|Hne]; cbn [negb]; [|eauto].
    eapply (dense_chk_total lower_strict_pairs cond_true); [|exact L].
    intros n0 i j Hin. apply in_lower_strict in Hin. lia.
Qed.

(* ---------------------------------------------------------------- the MatrixAdd rule *)
Lemma count_concrete_cons x l :
  count_concrete (x :: l) = (if concrete x then 1 else 0) + count_concrete l.
Proof. unfold count_concrete. cbn [filter]. destruct (concrete x); cbn [length]; lia. Qed.

Lemma add_rule_sound (p : mexpr -> res tri) (Good : mexpr -> Prop) l : forall (found : bool) t,
  (forall x, In x l -> p x = Ok TT -> Good x) ->
  (forall x, In x l -> p x = Ok TF -> ~ Good x /\ concrete x = true) ->
  count_concrete l + (if found then 1 else 0) <= 1 ->
  add_rule p l found = Ok t ->
  (t = TT -> found = false /\ Forall Good l) /\
  (t = TF -> (found = true /\ Forall Good l) \/
             (found = false /\ exists l1 x l2, l = l1 ++ x :: l2 /\ ~ Good x /\ Forall Good l1 /\ Forall Good l2)).
Proof.
  induction l as [|x l IH]; intros found t HT HF Hc H; cbn [add_rule] in H.
  - inversion H; subst. destruct found; split; intros E; try discriminate; auto.
  - destruct (p x) as [tx| | |] eqn:Ex; cbn [bind] in H; try discriminate.
    rewrite count_concrete_cons in Hc.
    destruct tx.
    + (* TT *)
      assert (Gx : Good x) by (apply HT; [now left | assumption]).
      destruct (IH found t) as [A B]; try assumption.
      * intros; apply HT; [now right | assumption].
      * intros; apply HF; [now right | assumption].
      * destruct (concrete x); lia.
      * split.
        -- intros E. destruct (A E) as [A1 A2]. split; [assumption | constructor; assumption].
        -- intros E. destruct (B E) as [[B1 B2]|[B1 (l1 & y & l2 & E1 & Hy & H1 & H2)]].
           ++ left. split; [assumption | constructor; assumption].
           ++ right. split; [assumption|]. exists (x :: l1), y, l2. subst l. split; [reflexivity|].
              split; [assumption|]. split; [constructor; assumption | assumption].
    + (* TF *)
      destruct (HF x (or_introl eq_refl) Ex) as [Nx Cx]. rewrite Cx in Hc.
      destruct found; [lia|].
      destruct (IH true t) as [A B]; try assumption.
      * intros; apply HT; [now right | assumption].
      * intros; apply HF; [now right | assumption].
      * lia.
      * split.
        -- intros E. destruct (A E) as [A1 _]. discriminate.
        -- intros E. destruct (B E) as [[_ B2]|[B1 _]]; [|discriminate].
           right. split; [reflexivity|]. exists [], x, l. split; [reflexivity|].
           split; [assumption|]. split; [constructor | assumption].
    + (* TI *)
      inversion H; subst. split; discriminate.
Qed.

Lemma had_rule_spec (p : mexpr -> res tri) l t :
  had_rule p l = Ok t -> t <> TF /\ (t = TT -> exists x, In x l /\ p x = Ok TT).
Proof.
  induction l as [|x l IH]; cbn [had_rule]; intros H.
  - inversion H; subst. split; discriminate.
  - destruct (p x) as [tx| | |] eqn:Ex; cbn [bind] in H; try discriminate.
    destruct (is_true tx) eqn:E.
    + inversion H; subst. split; [discriminate|]. intros _. exists x. split; [now left|].
      destruct tx; try discriminate. assumption.
    + destruct (IH H) as [A B]. split; [assumption|]. intros Et. destruct (B Et) as (y & Hy & Ey).
      exists y. split; [now right | assumption].
Qed.

(* ---------------------------------------------------------------- the generic visitor *)
Definition gpred (D : nat -> nat -> list ent -> res tri) : mexpr -> res tri :=
  fix g (e : mexpr) : res tri :=
    match e with
    | MIdent _ => Ok TT
    | MZero _ _ => Ok (is_square e)
    | MDiag _ => Ok TT
    | MDense m n v => D m n v
    | MAdd ts => add_rule g ts false
    | MHad fs => had_rule g fs
    | _ => Ok TI
    end.

Lemma is_diagonal_gpred e : is_diagonal e = gpred dense_is_diagonal e.
Proof. reflexivity. Qed.
Lemma is_lower_gpred e : is_lower e = gpred (fun m n v => dense_tri_check (upper_strict_pairs m) m n v) e.
Proof. reflexivity. Qed.
Lemma is_upper_gpred e : is_upper e = gpred (fun m n v => dense_tri_check (lower_strict_pairs m) m n v) e.
Proof. reflexivity. Qed.

(* sums and products of entries that are all zero *)
Lemma esum_all_zero {A} (f : A -> ent) l : (forall x, In x l -> f x = e0) -> esum (map f l) = e0.
Proof.
  intros H. rewrite (esum_map_ext f (fun _ => e0)) by assumption. apply esum_map_zero.
Qed.

Definition good_at rho (P : mat -> Prop) (s : shape) (x : mexpr) : Prop :=
  P (mkmat (fst s) (snd s) (val rho x)).

Lemma sound_answer_good rho P s x t :
  shp rho x = Some s -> sound_answer t P rho x ->
  (t = TT -> good_at rho P s x) /\ (t = TF -> ~ good_at rho P s x).
Proof.
  intros Hs H. apply H. apply denote_Some. exists s. auto.
Qed.

Section Generic.
  Variable Z : nat -> nat -> bool.
  Variable D : nat -> nat -> list ent -> res tri.
  Hypothesis Zoff : forall i j, Z i j = true -> i <> j.
  Hypothesis Dsound : dense_sound Z D.

  (* a "false" can only come from a dense leaf *)
  Lemma gpred_TF_concrete e :
    gpred D e = Ok TF -> is_MZero e = false -> is_MAdd e = false -> concrete e = true.
  Proof.
    destruct e; cbn [gpred is_MZero is_MAdd concrete is_MDiag is_MDense orb]; intros H Hz Ha; try discriminate; try reflexivity.
    apply had_rule_spec in H. destruct H as [H _]. congruence.
  Qed.

  Theorem gpred_sound rho e :
    wf e = true -> forall t, gpred D e = Ok t -> sound_answer t (P_pat Z) rho e.
  Proof.
    induction e as [n|m n|x|d|m n v|ts IH|k fs IH|fs IH|a IHa|a IHa] using mexpr_ind';
      intros Hwf t Ht; cbn [gpred] in Ht; try (inversion Ht; subst; intros V _; split; discriminate).
    - (* identity *)
      inversion Ht; subst. intros V HV. split; [|discriminate]. intros _.
      apply denote_Some in HV. destruct HV as (s & Hs & ->). rewrite shp_MIdent in Hs. inversion Hs; subst.
      split; [reflexivity|]. cbn [mr mc mf fst snd]. intros i j _ _ Hz. rewrite val_MIdent. unfold delta.
      apply Zoff in Hz. apply Nat.eqb_neq in Hz. now rewrite Hz.
    - (* zero *)
      inversion Ht; subst. intros V HV. destruct (is_square_sound rho (MZero m n) V HV) as [A B].
      split.
      + intros E. split; [now apply A|]. apply denote_Some in HV. destruct HV as (s & Hs & ->). reflexivity.
      + intros E [C _]. now apply B.
    - (* diagonal *)
      inversion Ht; subst. intros V HV. split; [|discriminate]. intros _.
      apply denote_Some in HV. destruct HV as (s & Hs & ->). rewrite shp_MDiag in Hs. inversion Hs; subst.
      split; [reflexivity|]. cbn [mr mc mf fst snd]. intros i j _ _ Hz. rewrite val_MDiag.
      apply Zoff in Hz. apply Nat.eqb_neq in Hz. now rewrite Hz.
    - (* dense *)
      destruct Dsound as [A _]. now apply (A rho m n v t).
    - (* MatrixAdd *)
      intros V HV. apply denote_Some in HV. destruct HV as (s & Hs & ->).
      rewrite shp_MAdd in Hs. apply shape_all_Forall in Hs. destruct Hs as [Hne Hall].
      cbn [wf] in Hwf. apply andb_true_iff in Hwf. destruct Hwf as [Hwf Hwfs].
      apply andb_true_iff in Hwf. destruct Hwf as [Hwf Hcc].
      apply andb_true_iff in Hwf. destruct Hwf as [_ Hkinds].
      rewrite forallb_forall in Hwfs, Hkinds. apply Nat.leb_le in Hcc.
      rewrite Forall_forall in IH, Hall.
      destruct (add_rule_sound (gpred D) (good_at rho (P_pat Z) s) ts false t) as [A B]; try assumption.
      + intros x Hin Ex. eapply sound_answer_good; eauto.
      + intros x Hin Ex. split.
        * eapply sound_answer_good; eauto.
        * specialize (Hkinds x Hin). apply negb_true_iff, orb_false_iff in Hkinds. destruct Hkinds.
          now apply gpred_TF_concrete.
      + lia.
      + unfold P_pat. cbn [mr mc mf]. split.
        * intros E. destruct (A E) as [_ G]. rewrite Forall_forall in G. split.
          -- destruct ts as [|x0 ?]; [congruence|]. destruct (G x0 (or_introl eq_refl)) as [Sq _]. exact Sq.
          -- intros i j Hi Hj Hz. rewrite val_MAdd. apply esum_all_zero. intros x Hin.
             destruct (G x Hin) as [_ G2]. now apply G2.
        * intros E [Sq HP]. destruct (B E) as [[C _]|[_ (l1 & x & l2 & El & Nx & G1 & G2)]]; [discriminate|].
          apply Nx. split; [exact Sq|]. cbn [mr mc mf]. intros i j Hi Hj Hz.
          specialize (HP i j Hi Hj Hz). rewrite val_MAdd, El, map_app, esum_app in HP.
          cbn [map] in HP. rewrite esum_cons in HP.
          rewrite Forall_forall in G1, G2.
          rewrite (esum_all_zero (fun e => val rho e i j) l1) in HP
            by (intros y Hy; destruct (G1 y Hy) as [_ Gy]; now apply Gy).
          rewrite (esum_all_zero (fun e => val rho e i j) l2) in HP
            by (intros y Hy; destruct (G2 y Hy) as [_ Gy]; now apply Gy).
          rewrite <- HP. ring.
    - (* HadamardProduct *)
      intros V HV. apply denote_Some in HV. destruct HV as (s & Hs & ->).
      rewrite shp_MHad in Hs. apply shape_all_Forall in Hs. destruct Hs as [Hne Hall].
      cbn [wf] in Hwf. apply andb_true_iff in Hwf. destruct Hwf as [_ Hwfs].
      rewrite forallb_forall in Hwfs. rewrite Forall_forall in IH, Hall.
      apply had_rule_spec in Ht. destruct Ht as [NF HT]. split; [|intros E; congruence].
      intros E. destruct (HT E) as (x & Hin & Ex).
      destruct (sound_answer_good rho (P_pat Z) s x TT (Hall x Hin) (IH x Hin (Hwfs x Hin) TT Ex)) as [G _].
      destruct (G eq_refl) as [Sq GP]. split; [exact Sq|]. cbn [mr mc mf] in *.
      intros i j Hi Hj Hz. rewrite val_MHad. apply eprod_zero. apply in_map_iff. exists x. split; [|assumption].
      now apply GP.
  Qed.
End Generic.

Lemma Zdiag_off i j : Zdiag i j = true -> i <> j.
Proof. unfold Zdiag. intros H. apply negb_true_iff in H. now apply Nat.eqb_neq. Qed.
Lemma Zlower_off i j : Zlower i j = true -> i <> j.
Proof. unfold Zlower. intros H. apply Nat.ltb_lt in H. lia. Qed.
Lemma Zupper_off i j : Zupper i j = true -> i <> j.
Proof. unfold Zupper. intros H. apply Nat.ltb_lt in H. lia. Qed.

Lemma sound_answer_iff t P Q rho e :
  (forall V, P V <-> Q V) -> sound_answer t P rho e -> sound_answer t Q rho e.
Proof.
  intros H S V HV. destruct (S V HV) as [A B]. split.
  - intros E. apply H. auto.
  - intros E HQ. apply (B E). now apply H.
Qed.

Theorem is_diagonal_sound rho e t :
  wf e = true -> is_diagonal e = Ok t -> sound_answer t P_diagonal rho e.
Proof.
  intros Hwf H. rewrite is_diagonal_gpred in H.
  eapply sound_answer_iff; [intros V; symmetry; apply P_diagonal_pat|].
  eapply gpred_sound; eauto using Zdiag_off, dense_sound_diag.
Qed.

Theorem is_lower_sound rho e t :
  wf e = true -> is_lower e = Ok t -> sound_answer t P_lower rho e.
Proof.
  intros Hwf H. rewrite is_lower_gpred in H.
  eapply sound_answer_iff; [intros V; symmetry; apply P_lower_pat|].
  eapply gpred_sound; eauto using Zlower_off, dense_sound_lower.
Qed.

Theorem is_upper_sound rho e t :
  wf e = true -> is_upper e = Ok t -> sound_answer t P_upper rho e.
Proof.
  intros Hwf H. rewrite is_upper_gpred in H.
  eapply sound_answer_iff; [intros V; symmetry; apply P_upper_pat|].
  eapply gpred_sound; eauto using Zupper_off, dense_sound_upper.
Qed.
