(* C26 obligation: transpose(e) denotes the transposed dense value of e. *)
From SE Require Import C26.MatSpec C26.MatFinal.
Theorem C26_transpose_sound :
  forall (rho : env) (e r : mexpr) (V : mat),
    transpose e = Ok r -> denote rho e = Some V ->
    exists V', denote rho r = Some V' /\ meq V' (mkmat (mc V) (mr V) (fun i j => mf V j i)).
Proof. exact transpose_sound. Qed.
Print Assumptions C26_transpose_sound.
