(* C26 -- predicates, part 1: the loops over entries and the leaf-only predicates
   (is_zero.cpp, is_real.cpp, is_square.cpp). *)
From SE Require Import C26.MatSpec C26.MatLemmas C26.MatAddProofs.
From Coq Require Import Lia Ring.
Local Open Scope nat_scope.
Local Open Scope res_scope.

Lemma e1_neq_e0 : e1 <> e0.
Proof.
  intros H. apply (f_equal fst) in H. cbn in H. apply (f_equal this) in H.
  vm_compute in H. discriminate.
Qed.

Lemma denote_Some rho e V :
  denote rho e = Some V <-> exists s, shp rho e = Some s /\ V = mkmat (fst s) (snd s) (val rho e).
Proof.
  unfold denote. destruct (shp rho e) as [s|]; split.
  - intros H; inversion H; eauto.
  - intros (s' & E & ->). inversion E; reflexivity.
  - discriminate.
  - intros (s' & E & _). discriminate.
Qed.

Lemma and_tri_TT_r c : and_tri c TT = c.
Proof. destruct c; reflexivity. Qed.
Lemma and_tri_TT_l c : and_tri TT c = c.
Proof. destruct c; reflexivity. Qed.

(* ---------------------------------------------------------------- the entry loops *)
Section EntryLoops.
  Variable p : ent -> tri.
  Hypothesis p_def : forall x, p x = TT \/ p x = TF.

  Lemma diag_all_spec l :
    (diag_all p l TT = TT /\ Forall (fun x => p x = TT) l) \/
    (diag_all p l TT = TF /\ Exists (fun x => p x = TF) l).
  Proof.
    induction l as [|x l IH]; cbn [diag_all].
    - left. split; [reflexivity | constructor].
    - destruct (p_def x) as [E|E]; rewrite E; cbn [is_false andwk_tri].
      + destruct IH as [[A B]|[A B]]; [left | right]; split; auto.
      + right. split; [reflexivity | now left].
  Qed.

  Lemma dense_all_spec l :
    (dense_all p l TT = TT /\ Forall (fun x => p x = TT) l) \/
    (dense_all p l TT = TF /\ Exists (fun x => p x = TF) l).
  Proof.
    induction l as [|x l IH]; cbn [dense_all].
    - left. split; [reflexivity | constructor].
    - rewrite and_tri_TT_l. destruct (p_def x) as [E|E]; rewrite E; cbn [is_false].
      + destruct IH as [[A B]|[A B]]; [left | right]; split; auto.
      + right. split; [reflexivity | now left].
  Qed.
End EntryLoops.

Lemma Exists_nth {A} (P : A -> Prop) l d : Exists P l -> exists k, k < length l /\ P (nth k l d).
Proof.
  induction 1 as [x l H|x l _ [k [Hk HP]]].
  - exists 0. cbn. split; [lia | assumption].
  - exists (S k). cbn. split; [lia | assumption].
Qed.

Lemma Forall_nth_e0 (P : ent -> Prop) l k : Forall P l -> k < length l -> P (nth k l e0).
Proof. intros H Hk. rewrite Forall_forall in H. apply H. now apply nth_In. Qed.

Lemma trl_cases a : trl a = TT \/ trl a = TF.
Proof. unfold trl, tri_of_bool. destruct (e_is_real a); auto. Qed.
Lemma trl_TT a : trl a = TT <-> snd a = qc0.
Proof. unfold trl, tri_of_bool. rewrite <- e_is_real_iff. destruct (e_is_real a); split; congruence. Qed.
Lemma trl_TF a : trl a = TF <-> snd a <> qc0.
Proof. unfold trl, tri_of_bool. rewrite <- e_is_real_false. destruct (e_is_real a); split; congruence. Qed.

(* index arithmetic of a row-major vector *)
Lemma flat_index n k : 0 < n -> k = (k / n) * n + k mod n /\ k mod n < n.
Proof.
  intros Hn. split.
  - rewrite Nat.mul_comm. apply Nat.div_mod. lia.
  - apply Nat.mod_upper_bound. lia.
Qed.

Lemma flat_index_row m n k : k < m * n -> k / n < m.
Proof. intros H. apply Nat.div_lt_upper_bound; [destruct n; lia | lia]. Qed.

(* ---------------------------------------------------------------- a generic leaf-entry predicate *)
(* Q holds of every entry *)
Definition P_all (Q : ent -> Prop) (V : mat) := forall i j, i < mr V -> j < mc V -> Q (mf V i j).

Section LeafAll.
  Variable p : ent -> tri.
  Variable Q : ent -> Prop.
  Hypothesis p_def : forall x, p x = TT \/ p x = TF.
  Hypothesis p_TT : forall x, p x = TT <-> Q x.
  Hypothesis p_TF : forall x, p x = TF <-> ~ Q x.
  Hypothesis Q0 : Q e0.

  Lemma diag_all_sound rho d :
    sound_answer (diag_all p d TT) (P_all Q) rho (MDiag d).
  Proof.
    intros V HV. apply denote_Some in HV. destruct HV as (s & Hs & ->).
    rewrite shp_MDiag in Hs. inversion Hs; subst s. cbn [fst snd].
    destruct (diag_all_spec p p_def d) as [[E H]|[E H]]; rewrite E.
    - split; [|discriminate]. intros _ i j Hi Hj. cbn [mf]. rewrite val_MDiag.
      destruct (i =? j); [|assumption]. apply p_TT. now apply (Forall_nth_e0 (fun x => p x = TT)).
    - split; [discriminate|]. intros _ HP. apply (Exists_nth _ _ e0) in H. destruct H as (k & Hk & Hp).
      apply p_TF in Hp. apply Hp. specialize (HP k k Hk Hk). cbn [mf] in HP.
      rewrite val_MDiag, Nat.eqb_refl in HP. exact HP.
  Qed.

  Lemma dense_all_sound rho m n v :
    sound_answer (dense_all p v TT) (P_all Q) rho (MDense m n v).
  Proof.
    intros V HV. apply denote_Some in HV. destruct HV as (s & Hs & ->).
    apply shp_MDense_Some in Hs. destruct Hs as [Lv ->]. cbn [fst snd].
    destruct (dense_all_spec p p_def v) as [[E H]|[E H]]; rewrite E.
    - split; [|discriminate]. intros _ i j Hi Hj. cbn [mf]. rewrite val_MDense.
      cbn [mr mc] in Hi, Hj. apply p_TT. apply (Forall_nth_e0 (fun x => p x = TT)); [assumption | rewrite Lv; nia].
    - split; [discriminate|]. intros _ HP. apply (Exists_nth _ _ e0) in H. destruct H as (k & Hk & Hp).
      apply p_TF in Hp. apply Hp. rewrite Lv in Hk.
      assert (Hn : 0 < n) by (destruct n; [rewrite Nat.mul_0_r in Hk; lia | lia]).
      destruct (flat_index n k Hn) as [Ek Hmod].
      specialize (HP (k / n) (k mod n) (flat_index_row m n k Hk) Hmod). cbn [mf] in HP.
      rewrite val_MDense, <- Ek in HP. exact HP.
  Qed.
End LeafAll.

(* ---------------------------------------------------------------- is_zero *)
Lemma P_zero_all V : P_zero V <-> P_all (fun x => x = e0) V.
Proof. reflexivity. Qed.

Theorem is_zero_sound rho e :
  empty_ident rho e = false -> sound_answer (is_zero e) P_zero rho e.
Proof.
  intros Hg. destruct e; cbn [is_zero]; try (intros V _; split; discriminate).
  - (* identity *)
    intros V HV. split; [discriminate|]. intros _ HP.
    apply denote_Some in HV. destruct HV as (s & Hs & ->). rewrite shp_MIdent in Hs. inversion Hs; subst s.
    cbn [empty_ident] in Hg. apply Nat.eqb_neq in Hg.
    specialize (HP 0 0). cbn [mr mc mf fst snd] in HP. rewrite val_MIdent in HP.
    apply e1_neq_e0. apply HP; lia.
  - (* zero *)
    intros V HV. split; [|discriminate]. intros _ i j _ _.
    apply denote_Some in HV. destruct HV as (s & Hs & ->). reflexivity.
  - apply (diag_all_sound tz (fun x => x = e0) tz_cases tz_TT tz_TF eq_refl).
  - apply (dense_all_sound tz (fun x => x = e0) tz_cases tz_TT tz_TF).
Qed.

(* ---------------------------------------------------------------- is_real *)
Lemma P_real_all V : P_real V <-> P_all (fun x => snd x = qc0) V.
Proof. reflexivity. Qed.

Theorem is_real_sound rho e : sound_answer (is_real e) P_real rho e.
Proof.
  destruct e; cbn [is_real]; try (intros V _; split; discriminate).
  - intros V HV. split; [|discriminate]. intros _ i j _ _.
    apply denote_Some in HV. destruct HV as (s & Hs & ->). cbn [mf]. rewrite val_MIdent.
    unfold delta. destruct (i =? j); reflexivity.
  - intros V HV. split; [|discriminate]. intros _ i j _ _.
    apply denote_Some in HV. destruct HV as (s & Hs & ->). reflexivity.
  - apply (diag_all_sound trl (fun x => snd x = qc0) trl_cases trl_TT trl_TF eq_refl).
  - apply (dense_all_sound trl (fun x => snd x = qc0) trl_cases trl_TT trl_TF).
Qed.

(* ---------------------------------------------------------------- is_square *)
Lemma dim_diff_zero_TT rho a b : dim_diff_zero a b = TT -> dval rho a = dval rho b.
Proof.
  destruct a as [x|s], b as [y|t]; cbn [dim_diff_zero]; try discriminate.
  - unfold tri_of_bool. destruct (Nat.eqb_spec x y); [intros _; cbn; congruence | discriminate].
  - destruct (Nat.eqb_spec s t); [intros _; cbn; congruence | discriminate].
Qed.

Lemma dim_diff_zero_TF rho a b : dim_diff_zero a b = TF -> dval rho a <> dval rho b.
Proof.
  destruct a as [x|s], b as [y|t]; cbn [dim_diff_zero]; try discriminate.
  - unfold tri_of_bool. destruct (Nat.eqb_spec x y); [discriminate | intros _; cbn; congruence].
  - destruct (s =? t); discriminate.
Qed.

Lemma square_vec_In p l t : square_vec p l = t -> t <> TI -> exists x, In x l /\ p x = t.
Proof.
  induction l as [|x l IH]; cbn [square_vec]; intros H Ht.
  - congruence.
  - destruct l as [|y l'].
    + exists x. split; [now left | assumption].
    + destruct (is_indet (p x)) eqn:E.
      * destruct (IH H Ht) as (z & Hin & Hz). exists z. split; [now right | assumption].
      * exists x. split; [now left | assumption].
Qed.

Theorem is_square_sound rho e : sound_answer (is_square e) P_square rho e.
Proof.
  induction e as [n|m n|x|d|m n v|ts H|k fs H|fs H|a IHa|a IHa] using mexpr_ind';
    cbn [is_square]; try (intros V _; split; discriminate).
  - intros V HV. apply denote_Some in HV. destruct HV as (s & Hs & ->).
    rewrite shp_MIdent in Hs. inversion Hs; subst. split; [reflexivity | discriminate].
  - intros V HV. apply denote_Some in HV. destruct HV as (s & Hs & ->).
    rewrite shp_MZero in Hs. inversion Hs; subst. unfold P_square. cbn [mr mc fst snd]. split.
    + apply dim_diff_zero_TT.
    + apply dim_diff_zero_TF.
  - intros V HV. apply denote_Some in HV. destruct HV as (s & Hs & ->).
    rewrite shp_MDiag in Hs. inversion Hs; subst. split; [reflexivity | discriminate].
  - intros V HV. apply denote_Some in HV. destruct HV as (s & Hs & ->).
    apply shp_MDense_Some in Hs. destruct Hs as [_ ->]. unfold P_square, tri_of_bool. cbn [mr mc fst snd].
    destruct (Nat.eqb_spec m n); split; congruence.
  - intros V HV. apply denote_Some in HV. destruct HV as (s & Hs & ->).
    rewrite shp_MAdd in Hs. apply shape_all_Forall in Hs. destruct Hs as [_ Hall].
    assert (G : forall t, square_vec is_square ts = t -> t <> TI ->
                (t = TT -> fst s = snd s) /\ (t = TF -> fst s <> snd s)).
    { intros t Ht Hn. destruct (square_vec_In _ _ _ Ht Hn) as (x & Hin & Hx).
      rewrite Forall_forall in H, Hall. specialize (H x Hin (mkmat (fst s) (snd s) (val rho x))).
      rewrite <- Hx. apply H. apply denote_Some. exists s. split; [now apply Hall | reflexivity]. }
    unfold P_square. cbn [mr mc]. destruct (square_vec is_square ts) eqn:E.
    + destruct (G TT eq_refl) as [A _]; [discriminate|]. split; [assumption | discriminate].
    + destruct (G TF eq_refl) as [_ A]; [discriminate|]. split; [discriminate | assumption].
    + split; discriminate.
  - intros V HV. apply denote_Some in HV. destruct HV as (s & Hs & ->).
    rewrite shp_MHad in Hs. apply shape_all_Forall in Hs. destruct Hs as [_ Hall].
    assert (G : forall t, square_vec is_square fs = t -> t <> TI ->
                (t = TT -> fst s = snd s) /\ (t = TF -> fst s <> snd s)).
    { intros t Ht Hn. destruct (square_vec_In _ _ _ Ht Hn) as (x & Hin & Hx).
      rewrite Forall_forall in H, Hall. specialize (H x Hin (mkmat (fst s) (snd s) (val rho x))).
      rewrite <- Hx. apply H. apply denote_Some. exists s. split; [now apply Hall | reflexivity]. }
    unfold P_square. cbn [mr mc]. destruct (square_vec is_square fs) eqn:E.
    + destruct (G TT eq_refl) as [A _]; [discriminate|]. split; [assumption | discriminate].
    + destruct (G TF eq_refl) as [_ A]; [discriminate|]. split; [discriminate | assumption].
    + split; discriminate.
Qed.
