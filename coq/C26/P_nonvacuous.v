(* C26: the hypotheses of the theorems are met by concrete non-trivial inputs, and the model
   computes on them (evaluated by the kernel): the operations succeed on operands of mixed classes,
   the naive computations are defined under a concrete environment, the guard of the matrix_mul
   theorem is false on a product with scalars, identities, diagonal and dense factors, and the
   predicates give definite answers of both kinds on well-formed expressions. *)
From SE Require Import C26.MatSpec C26.MatFinal.
Local Open Scope nat_scope.

Definition q (z : Z) : ent := (Q2Qc (inject_Z z), qc0).
Definition qi (a b : Z) : ent := (Q2Qc (inject_Z a), Q2Qc (inject_Z b)).
Definition rho0 : env := {| dimv := fun _ => 2; matv := fun _ => mkmat 2 2 (fun i j => qi 1 1) |}.
Definition A22 : mexpr := MDense 2 2 [q 1; q 2; q 3; q 4].
Definition ok_wf (r : res mexpr) : bool := match r with Ok e => wf e | _ => false end.

Definition add_terms : list mexpr := [MIdent (DSym 1); MDiag [q 1; qi 0 2]; MSym 1; A22; MZero (DInt 2) (DInt 2)].
Example C26_add_example :
  ok_wf (matrix_add add_terms) = true /\ shp rho0 (MAdd add_terms) = Some (2, 2).
Proof. split; vm_compute; reflexivity. Qed.

Definition mul_args : list marg :=
  [AScal (q 2); AMat (MIdent (DInt 2)); AMat (MDiag [q 1; q 3]); AMat A22; AMat (MSym 1); AScal (qi 0 1); AMat A22; AMat A22].
Example C26_mul_example :
  ok_wf (matrix_mul mul_args) = true /\ guard_mul_zero mul_args = false /\
  shp rho0 (naive_mul mul_args) = Some (2, 2).
Proof. repeat split; vm_compute; reflexivity. Qed.

Definition mul_zero_args : list marg := [AMat A22; AMat (MZero (DInt 2) (DInt 3)); AMat (MDense 3 1 [q 1; q 2; q 3])].
Example C26_mul_zero_example :
  ok_wf (matrix_mul mul_zero_args) = true /\ guard_mul_zero mul_zero_args = false /\
  shp rho0 (naive_mul mul_zero_args) = Some (2, 1).
Proof. repeat split; vm_compute; reflexivity. Qed.

Definition had_terms : list mexpr := [MIdent (DInt 2); A22; MSym 1; MDiag [q 2; q 5]].
Example C26_had_example :
  ok_wf (hadamard_product had_terms) = true /\ shp rho0 (MHad had_terms) = Some (2, 2).
Proof. split; vm_compute; reflexivity. Qed.

Definition tri_is (r : res tri) (t : tri) : bool :=
  match r, t with Ok TT, TT | Ok TF, TF | Ok TI, TI => true | _, _ => false end.

(* I + [[1,2],[2,5]] is symmetric, not diagonal; I o [[1,2],[3,4]] is diagonal and symmetric;
   a 1x3 dense matrix is Toeplitz (the case that crashed before the repair 2bc9483) *)
Example C26_pred_example :
  let e1 := MAdd [MIdent (DInt 2); MDense 2 2 [q 1; q 2; q 2; q 5]] in
  let e2 := MHad [MIdent (DInt 2); A22] in
  let e3 := MDense 1 3 [q 1; q 2; q 3] in
  wf e1 = true /\ wf e2 = true /\ wf e3 = true /\
  tri_is (is_symmetric e1) TT = true /\ tri_is (is_diagonal e1) TF = true /\
  tri_is (is_diagonal e2) TT = true /\ tri_is (is_symmetric e2) TI = true /\
  tri_is (is_lower (MAdd [MIdent (DInt 2); A22])) TF = true /\
  tri_is (is_toeplitz e3) TT = true /\ tri_is (is_toeplitz A22) TF = true /\
  shp rho0 e1 = Some (2, 2) /\ shp rho0 e2 = Some (2, 2).
Proof. repeat split; vm_compute; reflexivity. Qed.

Example C26_trace_example :
  match trace (MAdd [MIdent (DSym 1); A22; MSym 1]) with
  | Ok t => e_eqb (t_num t) (q 5) && (length (t_dims t) =? 1) && (length (t_traces t) =? 1)
  | _ => false
  end = true.
Proof. vm_compute. reflexivity. Qed.
Print Assumptions C26_mul_example.
