(* C26 -- no out-of-range access: on well-formed expressions the predicates, transpose,
   conjugate_matrix and trace never reach an [ErrOOB] (the class of the is_toeplitz defect). *)
From SE Require Import C26.MatSpec C26.MatLemmas C26.MatAddProofs C26.MatPredBase C26.MatPredRules
  C26.MatPredSym C26.MatPredToep C26.MatWfAdd C26.MatWfOps.
From Coq Require Import Lia.
Local Open Scope nat_scope.
Local Open Scope res_scope.

Lemma add_rule_total (p : mexpr -> res tri) l : forall found,
  (forall x, In x l -> exists t, p x = Ok t) -> exists t, add_rule p l found = Ok t.
Proof.
  induction l as [|x l IH]; intros found H; cbn [add_rule]; [eauto|].
  destruct (H x (or_introl eq_refl)) as [t ->]. cbn [bind].
  destruct t; [apply IH; intros; apply H; now right | | eauto].
  destruct found; [eauto|]. apply IH; intros; apply H; now right.
Qed.

Lemma had_rule_total (p : mexpr -> res tri) l :
  (forall x, In x l -> exists t, p x = Ok t) -> exists t, had_rule p l = Ok t.
Proof.
  induction l as [|x l IH]; intros H; cbn [had_rule]; [eauto|].
  destruct (H x (or_introl eq_refl)) as [t ->]. cbn [bind].
  destruct (is_true t); [eauto|]. apply IH; intros; apply H; now right.
Qed.

Lemma sym_had_rule_total (p : mexpr -> res tri) l :
  (forall x, In x l -> exists t, p x = Ok t) -> exists t, sym_had_rule p l = Ok t.
Proof.
  rewrite sym_had_rule_eq. destruct l as [|x0 l0]; [eauto|]. generalize (x0 :: l0). clear.
  induction l as [|x l IH]; intros H; cbn [sym_go]; [eauto|].
  destruct (H x (or_introl eq_refl)) as [t ->]. cbn [bind].
  destruct (is_true t); [|eauto]. apply IH; intros; apply H; now right.
Qed.

Lemma gpred_total D e :
  (forall m n v, length v = m * n -> exists t, D m n v = Ok t) ->
  wf e = true -> exists t, gpred D e = Ok t.
Proof.
  intros HD. induction e as [n|m n|x|d|m n v|ts IH|k fs IH|fs IH|a IHa|a IHa] using mexpr_ind';
    intros Hw; cbn [gpred]; eauto.
  - apply wf_MDense in Hw. apply HD. tauto.
  - apply add_rule_total. pose proof (wf_children_MAdd ts Hw) as Hc.
    rewrite Forall_forall in IH, Hc. intros x Hx. apply IH; auto.
  - apply had_rule_total. pose proof (wf_children_MHad fs Hw) as Hc.
    rewrite Forall_forall in IH, Hc. intros x Hx. apply IH; auto.
Qed.

Theorem predicates_total e :
  wf e = true ->
  (exists t, is_diagonal e = Ok t) /\ (exists t, is_symmetric e = Ok t) /\
  (exists t, is_lower e = Ok t) /\ (exists t, is_upper e = Ok t) /\ (exists t, is_toeplitz e = Ok t).
Proof.
  intros Hw. split; [|split; [|split; [|split]]].
  - rewrite is_diagonal_gpred. apply gpred_total; [apply dense_sound_diag | assumption].
  - induction e as [n|m n|x|d|m n v|ts IH|k fs IH|fs IH|a IHa|a IHa] using mexpr_ind'; cbn [is_symmetric]; eauto.
    + apply wf_MDense in Hw. apply dense_is_symmetric_total. tauto.
    + apply add_rule_total. pose proof (wf_children_MAdd ts Hw) as Hc.
      rewrite Forall_forall in IH, Hc. intros x Hx. apply IH; auto.
    + apply sym_had_rule_total. pose proof (wf_children_MHad fs Hw) as Hc.
      rewrite Forall_forall in IH, Hc. intros x Hx. apply IH; auto.
  - rewrite is_lower_gpred. apply gpred_total; [apply dense_sound_lower | assumption].
  - rewrite is_upper_gpred. apply gpred_total; [apply dense_sound_upper | assumption].
  - destruct e; cbn [is_toeplitz]; eauto.
    apply wf_MDense in Hw. destruct Hw as (A & B & C). now apply dense_is_toeplitz_total.
Qed.

Theorem transpose_total e : wf e = true -> exists r, transpose e = Ok r.
Proof.
  induction e as [n|m n|x|d|m n v|ts IH|k fs IH|fs IH|a IHa|a IHa] using mexpr_ind';
    intros Hw; cbn [transpose]; eauto.
  - apply wf_MDense in Hw. destruct Hw as (A & B & C).
    destruct (tab2_total n m (fun j i => dget n v i j)) as [t Ht].
    { intros j i Hj Hi. unfold dget. rewrite rd_lt by (rewrite C; nia). eauto. }
    rewrite Ht. cbn [bind]. eauto.
  - pose proof (wf_children_MAdd ts Hw) as Hc. rewrite Forall_forall in IH, Hc.
    destruct (mapM_total transpose ts) as [t Ht]; [intros x Hx; apply IH; auto|]. rewrite Ht. cbn [bind]. eauto.
  - pose proof (wf_children_MHad fs Hw) as Hc. rewrite Forall_forall in IH, Hc.
    destruct (mapM_total transpose fs) as [t Ht]; [intros x Hx; apply IH; auto|]. rewrite Ht. cbn [bind]. eauto.
Qed.

Theorem conjugate_total e : exists r, conjugate_matrix e = Ok r.
Proof.
  induction e as [n|m n|x|d|m n v|ts IH|k fs IH|fs IH|a IHa|a IHa] using mexpr_ind';
    cbn [conjugate_matrix]; eauto.
  - rewrite Forall_forall in IH.
    destruct (mapM_total conjugate_matrix ts) as [t Ht]; [intros x Hx; apply IH; auto|]. rewrite Ht. cbn [bind]. eauto.
  - rewrite Forall_forall in IH.
    destruct (mapM_total conjugate_matrix fs) as [t Ht]; [intros x Hx; apply IH; auto|]. rewrite Ht. cbn [bind]. eauto.
Qed.

(* trace either succeeds or throws DomainError *)
Theorem trace_total e : wf e = true -> (exists t, trace e = Ok t) \/ trace e = ErrExn EXN_DOMAIN.
Proof.
  induction e as [n|m n|x|d|m n v|ts IH|k fs IH|fs IH|a IHa|a IHa] using mexpr_ind';
    intros Hw; cbn [trace]; eauto.
  - destruct n; eauto.
  - destruct (dim_diff_zero m n); eauto.
  - apply wf_MDense in Hw. destruct Hw as (A & B & C).
    destruct (Nat.eqb_spec m n) as [->|]; cbn [negb]; [|now right].
    destruct (mapM_total (fun i => dget n v i i) (seq 0 n)) as [dg Hdg].
    { intros i Hi. apply in_seq in Hi. unfold dget. rewrite rd_lt by (rewrite C; nia). eauto. }
    rewrite Hdg. cbn [bind]. eauto.
  - pose proof (wf_children_MAdd ts Hw) as Hc. clear Hw. generalize (t_of_num e0).
    induction ts as [|x ts IHts]; intros acc; cbn [foldM]; [eauto|].
    inversion IH; subst. inversion Hc; subst.
    destruct (H1 H3) as [[t ->]| ->]; cbn [bind]; [|now right]. now apply IHts.
Qed.
