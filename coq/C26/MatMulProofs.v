(* C26 -- matrix_mul preserves the value of the product (matrix_mul.cpp), outside the defect
   class named by the guard [guard_mul_zero] (a ZeroMatrix argument and an unknown outer size). *)
From SE Require Import C26.MatSpec C26.MatLemmas C26.MatAddProofs C26.MatMulAlg C26.MatUnaryProofs.
From Coq Require Import Lia Ring.
Local Open Scope nat_scope.
Local Open Scope res_scope.

Definition chain rho (l : list mexpr) : sval := chain_sv (map (sem rho) l).

Lemma chain_single rho x : chain rho [x] = sem rho x. Proof. reflexivity. Qed.

Lemma chain_app rho la lb :
  la <> [] -> lb <> [] -> sv_eq (chain rho (la ++ lb)) (prod_sv (chain rho la) (chain rho lb)).
Proof.
  intros Ha Hb. unfold chain. rewrite map_app. apply chain_sv_app.
  - destruct la; [congruence | discriminate].
  - destruct lb; [congruence | discriminate].
Qed.

Lemma chain_snoc rho p x : p <> [] -> sv_eq (chain rho (p ++ [x])) (prod_sv (chain rho p) (sem rho x)).
Proof. intros Hp. rewrite <- chain_single. apply chain_app; [assumption | discriminate]. Qed.

Lemma prod_shape_Some a b s :
  prod_shape a b = Some s -> exists sa sb, a = Some sa /\ b = Some sb /\ snd sa = fst sb /\ s = (fst sa, snd sb).
Proof.
  unfold prod_shape. destruct a as [sa|], b as [sb|]; try discriminate.
  destruct (Nat.eqb_spec (snd sa) (fst sb)); [|discriminate]. intros H; inversion H. eauto 6.
Qed.

(* replacing the last two operands of a chain by their product *)
Lemma chain_merge_last rho keep a b c :
  sv_eq (sem rho c) (prod_sv (sem rho a) (sem rho b)) ->
  sv_eq (chain rho ((keep ++ [a]) ++ [b])) (chain rho (keep ++ [c])).
Proof.
  intros H. rewrite <- app_assoc. cbn [app]. unfold chain. rewrite !map_app. cbn [map].
  rewrite <- (app_nil_r [sem rho a; sem rho b]), <- (app_nil_r [sem rho c]).
  apply chain_replace1; [discriminate | discriminate|].
  apply sv_eq_sym. exact H.
Qed.

(* the operands of a defined chain are defined *)
Lemma chain_defined_last rho keep a b s :
  fst (chain rho ((keep ++ [a]) ++ [b])) = Some s ->
  exists sa sb, shp rho a = Some sa /\ shp rho b = Some sb /\ snd sa = fst sb.
Proof.
  intros H. rewrite <- app_assoc in H. cbn [app] in H.
  destruct keep as [|k0 keep].
  - cbn [app] in H. unfold chain in H. cbn [map] in H. rewrite chain_sv_cons in H. cbn [chain_sv prod_sv fst] in H.
    apply prod_shape_Some in H. destruct H as (sa & sb & A & B & C & _). eauto.
  - destruct (chain_app rho (k0 :: keep) [a; b]) as [E _]; [discriminate | discriminate|].
    rewrite E in H. cbn [prod_sv fst] in H. apply prod_shape_Some in H.
    destruct H as (_ & sab & _ & B & _ & _).
    unfold chain in B. cbn [map] in B. rewrite chain_sv_cons in B. cbn [chain_sv prod_sv fst] in B.
    apply prod_shape_Some in B. destruct B as (sa & sb & A & B & C & _). eauto.
Qed.

(* ---------------------------------------------------------------- the loop invariant *)
Lemma flush_diag st d : m_diag st = Some d -> flush st = m_keep st ++ [MDiag d].
Proof. unfold flush. now intros ->. Qed.
Lemma flush_dense st m n v :
  m_diag st = None -> m_dense st = Some (m, n, v) -> flush st = m_keep st ++ [MDense m n v].
Proof. unfold flush. now intros -> ->. Qed.
Lemma flush_none st : m_diag st = None -> m_dense st = None -> flush st = m_keep st.
Proof. unfold flush. now intros -> ->. Qed.

Definition mul_inv rho (p : list mexpr) (st : mul_state) : Prop :=
  (m_diag st = None \/ m_dense st = None) /\
  (flush st <> [] -> p <> [] /\ sv_eq (chain rho p) (chain rho (flush st))) /\
  (flush st = [] -> forallb is_MIdent p = true /\
     ((p = [] /\ m_ident st = None) \/
      (p <> [] /\ exists n, m_ident st = Some n /\ sv_eq (chain rho p) (ident_sv (dval rho n))))).

Lemma app_nonempty {A} (l : list A) x : l ++ [x] <> [].
Proof. destruct l; discriminate. Qed.

(* appending an operand to the processed prefix and to the kept chain *)
Lemma inv_append rho p L x L' :
  p <> [] -> L <> [] -> sv_eq (chain rho p) (chain rho L) ->
  sv_eq (chain rho (L ++ [x])) (chain rho L') ->
  sv_eq (chain rho (p ++ [x])) (chain rho L').
Proof.
  intros Hp HL H1 H2.
  eapply sv_eq_trans; [apply chain_snoc; assumption|].
  eapply sv_eq_trans; [apply prod_sv_cong; [exact H1 | apply sv_eq_refl]|].
  eapply sv_eq_trans; [apply sv_eq_sym, chain_snoc; assumption|]. exact H2.
Qed.

Lemma inv_ident_prefix rho p n x s :
  p <> [] -> sv_eq (chain rho p) (ident_sv n) -> fst (chain rho (p ++ [x])) = Some s ->
  sv_eq (chain rho (p ++ [x])) (sem rho x).
Proof.
  intros Hp H Hs.
  pose proof (chain_snoc rho p x Hp) as E.
  assert (Hs' : fst (prod_sv (ident_sv n) (sem rho x)) = Some s).
  { destruct E as [E1 _]. destruct H as [H1 _]. rewrite E1 in Hs. cbn [prod_sv fst] in *. now rewrite H1 in Hs. }
  cbn [prod_sv fst ident_sv] in Hs'. apply prod_shape_Some in Hs'.
  destruct Hs' as (sa & sb & A & B & C & _). inversion A; subst sa. cbn [fst snd] in C. subst n.
  eapply sv_eq_trans; [exact E|].
  eapply sv_eq_trans; [apply prod_sv_cong; [exact H | apply sv_eq_refl]|].
  apply prod_ident_l. exact B.
Qed.

(* the new kept chain after a step that is not an identity matrix, when the kept chain is
   non-empty: it denotes (kept chain ++ [factor]) *)
Lemma step_logical rho st x st' s :
  (m_diag st = None \/ m_dense st = None) ->
  flush st <> [] -> is_MIdent x = false ->
  fst (chain rho (flush st ++ [x])) = Some s ->
  mul_step st x = Ok st' ->
  (m_diag st' = None \/ m_dense st' = None) /\ m_ident st' = m_ident st /\
  sv_eq (chain rho (flush st ++ [x])) (chain rho (flush st')).
Proof.
  intros Hone HL Hx Hs Hstep. unfold mul_step in Hstep.
  destruct x; try discriminate;
    try (inversion Hstep; subst; clear Hstep; cbn [m_diag m_dense m_ident];
         split; [now left|]; split; [reflexivity|];
         unfold flush at 2; cbn [m_diag m_dense m_keep]; apply sv_eq_refl).
  - (* MDiag *)
    destruct (m_diag st) as [d0|] eqn:Ed.
    + assert (Ede : m_dense st = None) by (destruct Hone; congruence).
      rewrite (flush_diag st d0 Ed) in *.
      destruct (chain_defined_last rho _ _ _ _ Hs) as (sa & sb & A & B & C).
      rewrite shp_MDiag in A, B. inversion A; subst sa. inversion B; subst sb. cbn [fst snd] in C.
      destruct (mul_diag_diag d0 d) as [p| | |] eqn:Em; cbn [bind] in Hstep; try discriminate.
      inversion Hstep; subst; clear Hstep. cbn [m_diag m_dense m_ident].
      split; [now right|]. split; [reflexivity|].
      unfold flush at 1. cbn [m_diag m_keep].
      apply chain_merge_last. now apply mul_diag_diag_sv.
    + destruct (m_dense st) as [[[m n] v]|] eqn:Ede.
      * rewrite (flush_dense st m n v Ed Ede) in *.
        destruct (chain_defined_last rho _ _ _ _ Hs) as (sa & sb & A & B & C).
        apply shp_MDense_Some in A. destruct A as [Lv ->]. rewrite shp_MDiag in B. inversion B; subst sb.
        cbn [fst snd] in C.
        destruct (mul_dense_diag m n v d) as [r| | |] eqn:Em; cbn [bind] in Hstep; try discriminate.
        destruct (mul_dense_diag_sv rho m n v d r Em Lv (eq_sym C)) as (pv & -> & Lp & Hsv).
        inversion Hstep; subst; clear Hstep. cbn [m_diag m_dense m_ident].
        split; [now left|]. split; [reflexivity|].
        unfold flush at 1. cbn [m_diag m_dense m_keep].
        now apply chain_merge_last.
      * inversion Hstep; subst; clear Hstep. cbn [m_diag m_dense m_ident].
        split; [now right|]. split; [reflexivity|].
        rewrite (flush_none st Ed Ede). unfold flush. cbn [m_diag m_keep]. apply sv_eq_refl.
  - (* MDense *)
    destruct (m_dense st) as [[[m0 n0] v0]|] eqn:Ede.
    + assert (Ed : m_diag st = None) by (destruct Hone; congruence).
      rewrite (flush_dense st m0 n0 v0 Ed Ede) in *.
      destruct (chain_defined_last rho _ _ _ _ Hs) as (sa & sb & A & B & C).
      apply shp_MDense_Some in A. destruct A as [Lv0 ->].
      apply shp_MDense_Some in B. destruct B as [Lv ->]. cbn [fst snd] in C.
      destruct (mul_dense_dense m0 n0 v0 m n v) as [r| | |] eqn:Em; cbn [bind] in Hstep; try discriminate.
      destruct (mul_dense_dense_sv rho m0 n0 v0 m n v r Em Lv0 Lv C) as (pv & -> & Lp & Hsv).
      inversion Hstep; subst; clear Hstep. cbn [m_diag m_dense m_ident].
      split; [now left|]. split; [reflexivity|].
      unfold flush at 1. cbn [m_diag m_dense m_keep]. rewrite Ed.
      now apply chain_merge_last.
    + destruct (m_diag st) as [d0|] eqn:Ed.
      * rewrite (flush_diag st d0 Ed) in *.
        destruct (chain_defined_last rho _ _ _ _ Hs) as (sa & sb & A & B & C).
        rewrite shp_MDiag in A. inversion A; subst sa.
        apply shp_MDense_Some in B. destruct B as [Lv ->]. cbn [fst snd] in C.
        destruct (mul_diag_dense d0 m n v) as [r| | |] eqn:Em; cbn [bind] in Hstep; try discriminate.
        destruct (mul_diag_dense_sv rho d0 m n v r Em Lv C) as (pv & -> & Lp & Hsv).
        inversion Hstep; subst; clear Hstep. cbn [m_diag m_dense m_ident].
        split; [now left|]. split; [reflexivity|].
        unfold flush at 1. cbn [m_diag m_dense m_keep].
        now apply chain_merge_last.
      * inversion Hstep; subst; clear Hstep. cbn [m_diag m_dense m_ident].
        split; [now left|]. split; [reflexivity|].
        rewrite (flush_none st Ed Ede). unfold flush. cbn [m_diag m_dense m_keep]. apply sv_eq_refl.
Qed.

(* a step that is not an identity matrix, on an empty kept chain *)
Lemma step_empty st x st' :
  flush st = [] -> is_MIdent x = false -> mul_step st x = Ok st' ->
  (m_diag st' = None \/ m_dense st' = None) /\ m_ident st' = m_ident st /\ flush st' = [x].
Proof.
  intros HL Hx Hstep.
  assert (Hd : m_diag st = None).
  { unfold flush in HL. destruct (m_diag st); [destruct (m_keep st); discriminate | reflexivity]. }
  assert (Hde : m_dense st = None).
  { unfold flush in HL. rewrite Hd in HL. destruct (m_dense st) as [[[? ?] ?]|]; [destruct (m_keep st); discriminate | reflexivity]. }
  assert (Hk : m_keep st = []) by (rewrite (flush_none st Hd Hde) in HL; exact HL).
  unfold mul_step in Hstep. rewrite ?Hd, ?Hde, ?HL in Hstep.
  destruct x; try discriminate; rewrite ?Hd, ?Hde, ?HL in Hstep;
    inversion Hstep; subst; clear Hstep; cbn [m_diag m_dense m_ident];
    (split; [first [now left | now right]|]); (split; [reflexivity|]);
    unfold flush; cbn [m_diag m_dense m_keep]; rewrite ?Hk; reflexivity.
Qed.

Lemma forallb_app_single {A} (f : A -> bool) l x : forallb f (l ++ [x]) = forallb f l && f x.
Proof. rewrite forallb_app. cbn. now rewrite andb_true_r. Qed.

Lemma mul_step_inv rho p st x st' s :
  mul_inv rho p st -> fst (chain rho (p ++ [x])) = Some s -> mul_step st x = Ok st' ->
  mul_inv rho (p ++ [x]) st'.
Proof.
  intros (Hone & HB & HC) Hs Hstep.
  destruct (is_MIdent x) eqn:Hx.
  - (* an identity matrix: dropped *)
    destruct x; try discriminate. cbn [mul_step] in Hstep. inversion Hstep; subst; clear Hstep.
    assert (Hfl : flush {| m_keep := m_keep st; m_diag := m_diag st; m_dense := m_dense st; m_ident := Some n |} = flush st)
      by reflexivity.
    split; [exact Hone|]. rewrite Hfl. split.
    + intros HL. destruct (HB HL) as [Hp E]. split; [apply app_nonempty|].
      eapply sv_eq_trans; [apply chain_snoc; assumption|].
      assert (Hs' : fst (prod_sv (chain rho p) (sem rho (MIdent n))) = Some s).
      { destruct (chain_snoc rho p (MIdent n) Hp) as [E1 _]. now rewrite <- E1. }
      cbn [prod_sv fst] in Hs'. apply prod_shape_Some in Hs'.
      destruct Hs' as (sa & sb & A & B & C & _). rewrite sem_shape, shp_MIdent in B. inversion B; subst sb.
      cbn [fst snd] in C.
      eapply sv_eq_trans; [|exact E].
      change (sem rho (MIdent n)) with (ident_sv (dval rho n)). rewrite <- C. now apply prod_ident_r.
    + intros HL. destruct (HC HL) as [Hall Hcase]. split.
      * rewrite forallb_app_single, Hall. reflexivity.
      * right. split; [apply app_nonempty|]. exists n. cbn [m_ident]. split; [reflexivity|].
        destruct Hcase as [[-> _]|[Hp (n0 & _ & E)]].
        -- cbn [app]. apply sv_eq_refl.
        -- eapply sv_eq_trans; [eapply inv_ident_prefix; eauto|]. apply sv_eq_refl.
  - (* any other operand *)
    destruct (flush st) as [|l0 lr] eqn:EL.
    + destruct (step_empty st x st' EL Hx Hstep) as (Hone' & Hid & Hfl).
      destruct (HC eq_refl) as [Hall Hcase].
      split; [exact Hone'|]. rewrite Hfl. split.
      * intros _. split; [apply app_nonempty|]. rewrite chain_single.
        destruct Hcase as [[-> _]|[Hp (n0 & _ & E)]].
        -- cbn [app]. rewrite chain_single. apply sv_eq_refl.
        -- eapply inv_ident_prefix; eauto.
      * discriminate.
    + assert (HL : flush st <> []) by (rewrite EL; discriminate).
      destruct (HB (ltac:(discriminate))) as [Hp E].
      assert (Hs' : fst (chain rho (flush st ++ [x])) = Some s).
      { rewrite EL. destruct (chain_snoc rho (l0 :: lr) x ltac:(discriminate)) as [E1 _]. rewrite E1.
        destruct (chain_snoc rho p x Hp) as [E2 _]. rewrite E2 in Hs. cbn [prod_sv fst] in *.
        destruct E as [E3 _]. now rewrite <- E3. }
      destruct (step_logical rho st x st' s Hone HL Hx Hs' Hstep) as (Hone' & Hid & Hsv).
      assert (HL' : flush st' <> []).
      { intros E0. destruct Hsv as [E1 _]. rewrite Hs', E0 in E1. discriminate. }
      split; [exact Hone'|]. split.
      * intros _. split; [apply app_nonempty|].
        rewrite EL in Hsv.
        apply (inv_append rho p (l0 :: lr) x (flush st')); [exact Hp | discriminate | exact E | exact Hsv].
      * intros E0. congruence.
Qed.

Lemma chain_prefix_defined rho p l s :
  p <> [] -> fst (chain rho (p ++ l)) = Some s -> exists s', fst (chain rho p) = Some s'.
Proof.
  intros Hp H. destruct l as [|y l]; [rewrite app_nil_r in H; eauto|].
  destruct (chain_app rho p (y :: l) Hp ltac:(discriminate)) as [E _]. rewrite E in H.
  cbn [prod_sv fst] in H. apply prod_shape_Some in H. destruct H as (sa & _ & A & _). eauto.
Qed.

Lemma mul_loop_inv rho l s : forall p st st',
  mul_inv rho p st -> fst (chain rho (p ++ l)) = Some s -> foldM mul_step l st = Ok st' ->
  mul_inv rho (p ++ l) st'.
Proof.
  induction l as [|x l IH]; intros p st st' HI Hs H; cbn [foldM] in H.
  - inversion H; subst. now rewrite app_nil_r.
  - destruct (mul_step st x) as [st1| | |] eqn:E; cbn [bind] in H; try discriminate.
    replace (p ++ x :: l) with ((p ++ [x]) ++ l) in * by (rewrite <- app_assoc; reflexivity).
    destruct (chain_prefix_defined rho (p ++ [x]) l s (app_nonempty p x) Hs) as [s1 Hs1].
    eapply IH; [|exact Hs|exact H]. eapply mul_step_inv; eauto.
Qed.

(* ---------------------------------------------------------------- expansion *)
Definition Kargs (args : list marg) : ent :=
  fold_right (fun a k => match a with AScal q => emul q k | AMat _ => k end) e1 args.
Definition mats (args : list marg) : list mexpr :=
  flat_map (fun a => match a with AMat e => [e] | AScal _ => [] end) args.

Lemma naive_mul_eq args : naive_mul args = MMul (Kargs args) (mats args).
Proof. reflexivity. Qed.

Lemma sem_MMul_sveq rho k fs : sv_eq (sem rho (MMul k fs)) (scale_sv k (chain rho fs)).
Proof.
  destruct (sem_MMul_sv rho k fs) as [A B]. split; [exact A|]. intros; apply B.
Qed.

Lemma chain_flatten rho acc k fs rest :
  fs <> [] ->
  sv_eq (chain rho (acc ++ [MMul k fs] ++ rest)) (scale_sv k (chain rho (acc ++ fs ++ rest))).
Proof.
  intros Hfs. unfold chain. rewrite !map_app. cbn [map].
  apply chain_replace; [discriminate | destruct fs; [congruence | discriminate]|].
  apply sem_MMul_sveq.
Qed.

Lemma expand_sv rho args : forall s acc,
  Forall (fun e => exists sh, shp rho e = Some sh) (mats args) ->
  sv_eq (scale_sv (fst (expand_mul args s acc)) (chain rho (snd (expand_mul args s acc))))
        (scale_sv (emul s (Kargs args)) (chain rho (acc ++ mats args))).
Proof.
  induction args as [|a args IH]; intros s acc Hd; cbn [expand_mul].
  - cbn [fst snd Kargs mats fold_right flat_map]. rewrite app_nil_r. apply scale_sv_eq. ring.
  - destruct a as [q|e].
    + cbn [Kargs mats fold_right flat_map app] in *.
      eapply sv_eq_trans; [apply IH; exact Hd|]. apply scale_sv_eq. unfold Kargs. ring.
    + assert (Hd' : Forall (fun e => exists sh, shp rho e = Some sh) (mats args)).
      { cbn [mats flat_map app] in Hd. now inversion Hd. }
      assert (He : exists sh, shp rho e = Some sh).
      { cbn [mats flat_map app] in Hd. now inversion Hd. }
      assert (Hgen : sv_eq (scale_sv (fst (expand_mul args s (acc ++ [e]))) (chain rho (snd (expand_mul args s (acc ++ [e])))))
                           (scale_sv (emul s (Kargs (AMat e :: args))) (chain rho (acc ++ mats (AMat e :: args))))).
      { eapply sv_eq_trans; [apply IH; exact Hd'|]. cbn [Kargs mats fold_right flat_map].
        rewrite <- app_assoc. cbn [app]. apply sv_eq_refl. }
      destruct e; try exact Hgen.
      (* a nested MatrixMul *)
      clear Hgen. destruct He as [sh He].
      assert (Hfs : fs <> []).
      { intros ->. unfold shp in He. cbn in He. discriminate. }
      eapply sv_eq_trans; [apply IH; exact Hd'|].
      cbn [Kargs mats fold_right flat_map]. fold (Kargs args). fold (mats args).
      rewrite <- app_assoc.
      eapply sv_eq_trans; [|apply scale_sv_cong; apply sv_eq_sym; apply (chain_flatten rho acc k fs (mats args) Hfs)].
      eapply sv_eq_trans; [|apply sv_eq_sym, scale_sv_scale]. apply scale_sv_eq. ring.
Qed.

(* ---------------------------------------------------------------- the theorem *)
Lemma sv_eq_value rho a b s :
  sv_eq (sem rho a) (sem rho b) -> shp rho b = Some s ->
  shp rho a = Some s /\ forall i j, i < fst s -> j < snd s -> val rho a i j = val rho b i j.
Proof.
  intros [A B] Hs. unfold shp, val in *. split; [congruence|]. intros i j Hi Hj. apply (B s); congruence.
Qed.

Lemma check_mul_nonempty l : check_matching_mul_sizes l = Ok tt -> l <> [].
Proof. intros H ->. discriminate. Qed.

(* the general branch of matrix_mul (two or more arguments) *)
Definition mul_body (args : list marg) : res mexpr :=
  let '(scalar, expanded) := expand_mul args e1 [] in
  do _ <- check_matching_mul_sizes expanded;
  match first_zero_arg args with
  | Some z => Ok (zero_result expanded z)
  | None =>
      do st <- foldM mul_step expanded {| m_keep := []; m_diag := None; m_dense := None; m_ident := None |};
      let keep := match flush st, m_ident st with
                  | [], Some n => [MIdent n]
                  | k, _ => k
                  end in
      match keep with
      | [x] => if e_eqb scalar e1 then Ok x else Ok (MMul scalar keep)
      | _ => Ok (MMul scalar keep)
      end
  end.

Lemma defined_operands rho l s :
  shape_chain (map (shp rho) l) = Some s -> Forall (fun e => exists sh, shp rho e = Some sh) l.
Proof.
  revert s. induction l as [|x l IH]; intros s Hs; [constructor|].
  destruct l as [|y l].
  - cbn in Hs. constructor; [eauto | constructor].
  - change (map (shp rho) (x :: y :: l)) with (shp rho x :: shp rho y :: map (shp rho) l) in Hs.
    rewrite shape_chain_cons in Hs. apply prod_shape_Some in Hs.
    destruct Hs as (sa & sb & A & B & _). constructor; [eauto|]. eapply IH. exact B.
Qed.

(* ---------------------------------------------------------------- a zero operand *)
Definition zero_sv (a : sval) : Prop :=
  forall s, fst a = Some s -> forall i j, i < fst s -> j < snd s -> snd a i j = e0.

Lemma prod_zero_l a b : zero_sv a -> zero_sv (prod_sv a b).
Proof.
  intros Ha s Hs i j Hi Hj. cbn [prod_sv fst snd] in *. apply prod_shape_Some in Hs.
  destruct Hs as (sa & sb & A & B & C & ->). cbn [fst snd] in *. rewrite A. cbn [cols_of].
  rewrite <- (esum_n_zero (snd sa)). apply esum_n_ext. intros k Hk. rewrite (Ha sa A i k Hi Hk). ring.
Qed.

Lemma prod_zero_r a b : zero_sv b -> zero_sv (prod_sv a b).
Proof.
  intros Hb s Hs i j Hi Hj. cbn [prod_sv fst snd] in *. apply prod_shape_Some in Hs.
  destruct Hs as (sa & sb & A & B & C & ->). cbn [fst snd] in *. rewrite A. cbn [cols_of].
  rewrite <- (esum_n_zero (snd sa)). apply esum_n_ext. intros k Hk.
  rewrite (Hb sb B k j) by lia. ring.
Qed.

Lemma chain_zero l z : In z l -> zero_sv z -> zero_sv (chain_sv l).
Proof.
  induction l as [|x l IH]; intros Hin Hz; [destruct Hin|].
  destruct l as [|y l].
  - destruct Hin as [->|[]]. exact Hz.
  - rewrite chain_sv_cons. destruct Hin as [->|Hin].
    + now apply prod_zero_l.
    + apply prod_zero_r. now apply IH.
Qed.

Lemma first_zero_arg_spec args z :
  first_zero_arg args = Some z -> In z (mats args) /\ is_MZero z = true.
Proof. unfold first_zero_arg. intros H. apply find_some in H. exact H. Qed.

Lemma mul_body_value rho args res s :
  mul_body args = Ok res ->
  guard_mul_zero args = false ->
  shp rho (naive_mul args) = Some s ->
  sv_eq (sem rho res) (sem rho (naive_mul args)).
Proof.
  intros Hm Hgz Hs. rewrite naive_mul_eq in *.
  assert (Hdef : Forall (fun e => exists sh, shp rho e = Some sh) (mats args)).
  { rewrite shp_MMul in Hs. eapply defined_operands; eauto. }
  unfold mul_body in Hm. unfold guard_mul_zero in Hgz.
  pose proof (expand_sv rho args e1 [] Hdef) as Hexp.
  destruct (expand_mul args e1 []) as [scalar expanded] eqn:Ee. cbn [fst snd app] in Hexp, Hgz.
  assert (Hfin : sv_eq (scale_sv scalar (chain rho expanded)) (sem rho (MMul (Kargs args) (mats args)))).
  { eapply sv_eq_trans; [exact Hexp|].
    eapply sv_eq_trans; [|apply sv_eq_sym, sem_MMul_sveq]. apply scale_sv_eq. ring. }
  assert (Hsh : fst (chain rho expanded) = Some s).
  { destruct Hfin as [E _]. cbn [scale_sv fst] in E. unfold shp in Hs. congruence. }
  destruct (check_matching_mul_sizes expanded) as [[]| | |] eqn:Ec; cbn [bind] in Hm; try discriminate.
  pose proof (check_mul_nonempty _ Ec) as Hne.
  destruct (first_zero_arg args) as [z|] eqn:Ez.
  - (* a ZeroMatrix argument, outer sizes known *)
    inversion Hm; subst res. apply negb_false_iff in Hgz.
    destruct (first_zero_arg_spec _ _ Ez) as [Hin Hz].
    unfold outer_known in Hgz. unfold zero_result.
    destruct expanded as [|f0 fr]; [congruence|]. cbn [map] in *.
    destruct (fst (size f0)) as [nr|] eqn:Er; [|discriminate].
    destruct (snd (last (map size fr) (size f0))) as [nc|] eqn:Ecl; [|discriminate].
    (* the sizes are the true ones *)
    unfold chain in Hsh. rewrite chain_sv_shape, map_map in Hsh.
    change (map (fun x => fst (sem rho x)) (f0 :: fr)) with (map (shp rho) (f0 :: fr)) in Hsh.
    pose proof (defined_operands rho _ _ Hsh) as Hdefx.
    apply shape_chain_Some in Hsh. destruct Hsh as (sa & sb & Hh & Hl & Ha & Hb).
    cbn [map hd] in Hh.
    assert (Hr : dval rho nr = fst s).
    { destruct (size_sound rho f0 sa Hh) as [A _]. rewrite <- Ha. now apply A. }
    assert (Hc : dval rho nc = snd s).
    { cbn [map] in Hl. rewrite last_cons_default, last_map in Hl. rewrite last_map in Ecl.
      destruct (size_sound rho (last fr f0) sb Hl) as [_ B]. rewrite <- Hb. now apply B. }
    split.
    + rewrite !sem_shape, shp_MZero, Hs, Hr, Hc. now destruct s.
    + rewrite sem_shape, shp_MZero. intros s' Hs' i j Hi Hj. inversion Hs'; subst s'. cbn [fst snd] in *.
      rewrite sem_val, val_MZero. symmetry.
      destruct (sem_MMul_sv rho (Kargs args) (mats args)) as [_ B]. rewrite B. cbn [scale_sv snd].
      assert (Hzero : zero_sv (chain_sv (map (sem rho) (mats args)))).
      { apply (chain_zero _ (sem rho z)); [now apply in_map|].
        destruct z; try discriminate. intros s0 _ i0 j0 _ _. reflexivity. }
      rewrite (Hzero s); [ring | | lia | lia].
      unfold shp in Hs. cbn [sem fst] in Hs. now rewrite chain_sv_shape.
  - destruct (foldM mul_step expanded _) as [st| | |] eqn:Ef; cbn [bind] in Hm; try discriminate.
    assert (HI0 : mul_inv rho [] {| m_keep := []; m_diag := None; m_dense := None; m_ident := None |}).
    { split; [now left|]. split; [intros H; exfalso; apply H; reflexivity|].
      intros _. split; [reflexivity|]. left. split; reflexivity. }
    pose proof (mul_loop_inv rho expanded s [] _ st HI0 Hsh Ef) as (Hone & HB & HC). cbn [app] in *.
    eapply sv_eq_trans; [|exact Hfin].
    (* the kept chain, with the identity put back when nothing else is left *)
    set (keep := match flush st, m_ident st with [], Some n => [MIdent n] | k, _ => k end) in *.
    assert (Hkeep : keep <> [] /\ sv_eq (chain rho expanded) (chain rho keep)).
    { subst keep. destruct (flush st) as [|x l] eqn:EL.
      - destruct (HC eq_refl) as [_ [[E0 _]|[_ (n & Hn & E)]]]; [congruence|].
        rewrite Hn. split; [discriminate|]. rewrite chain_single. exact E.
      - split; [discriminate|]. now apply HB. }
    destruct Hkeep as [Hkne Hk].
    assert (Hgen : sv_eq (sem rho (MMul scalar keep)) (scale_sv scalar (chain rho expanded))).
    { eapply sv_eq_trans; [apply sem_MMul_sveq|]. apply scale_sv_cong. apply sv_eq_sym. exact Hk. }
    destruct keep as [|x [|y l]] eqn:Ek; [congruence | |].
    + destruct (e_eqb scalar e1) eqn:Es.
      * inversion Hm; subst res. apply e_eqb_eq in Es. subst scalar.
        eapply sv_eq_trans; [|apply sv_eq_sym, scale_sv_one]. rewrite chain_single in Hk.
        apply sv_eq_sym. exact Hk.
      * inversion Hm; subst res. exact Hgen.
    + inversion Hm; subst res. exact Hgen.
Qed.

Theorem matrix_mul_value rho args res s :
  matrix_mul args = Ok res ->
  guard_mul_zero args = false ->
  shp rho (naive_mul args) = Some s ->
  shp rho res = Some s /\
  forall i j, i < fst s -> j < snd s -> val rho res i j = val rho (naive_mul args) i j.
Proof.
  intros Hm Hgz Hs. apply sv_eq_value; [|exact Hs].
  destruct args as [|a0 args']; [discriminate|].
  destruct a0 as [q0|e0'], args' as [|a1 args'']; try discriminate.
  - eapply mul_body_value; eauto.
  - (* a single matrix argument *)
    inversion Hm; subst res. rewrite naive_mul_eq. cbn [Kargs mats fold_right flat_map app].
    eapply sv_eq_trans; [|apply sv_eq_sym, sem_MMul_sveq]. rewrite chain_single.
    apply sv_eq_sym, scale_sv_one.
  - eapply mul_body_value; eauto.
Qed.

(* ---------------------------------------------------------------- the remaining defect *)
(* X * ZeroMatrix(3,4) with X a matrix symbol: the result is ZeroMatrix(3,4) whatever the number
   of rows of X *)
Definition mul_zero_witness : list marg := [AMat (MSym 1); AMat (MZero (DInt 3) (DInt 4))].

Theorem matrix_mul_zero_shape_refuted :
  exists args res rho V, matrix_mul args = Ok res /\
    denote rho (naive_mul args) = Some V /\
    forall V', denote rho res = Some V' -> mr V' <> mr V.
Proof.
  exists mul_zero_witness, (MZero (DInt 3) (DInt 4)),
         {| dimv := fun _ => 0; matv := fun _ => mkmat 2 3 (fun _ _ => e0) |}.
  eexists. split; [vm_compute; reflexivity|]. split; [reflexivity|].
  intros V' H. inversion H; subst. cbn. discriminate.
Qed.
