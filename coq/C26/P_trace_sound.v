(* C26 obligation: the scalar returned by trace(e) -- a number plus symbolic dimensions plus
   unevaluated Trace(...) terms -- evaluates to the trace of the (square) dense value of e. *)
From SE Require Import C26.MatSpec C26.MatTraceProofs.
Theorem C26_trace_sound :
  forall (rho : env) (e : mexpr) (t : texpr) (V : mat),
    trace e = Ok t -> denote rho e = Some V -> mr V = mc V ->
    tval rho t (trace_den rho) = Some (trace_of V).
Proof. exact trace_sound. Qed.
Print Assumptions C26_trace_sound.
