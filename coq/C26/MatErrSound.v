(* C26 -- a DomainError ("Matrix dimension mismatch" / empty operand list) is never spurious:
   when matrix_add, hadamard_product or matrix_mul throw it, the dense computation is undefined
   under every environment.  For matrix_mul this covers the size check of adjacent factors and the
   guards of the four folding helpers (mul_diag_diag, mul_dense_dense, mul_diag_dense, mul_dense_diag),
   which compare the accumulated concrete product with the next concrete factor. *)
From SE Require Import C26.MatSpec C26.MatLemmas C26.MatAddProofs C26.MatHadProofs C26.MatUnaryProofs
  C26.MatMulAlg C26.MatMulProofs C26.MatWfAdd.
From Coq Require Import Lia.
Local Open Scope nat_scope.
Local Open Scope res_scope.

Lemma forM_fail {A} (f : A -> res unit) l c :
  forM_ f l = ErrExn c -> exists x, In x l /\ f x = ErrExn c.
Proof.
  induction l as [|x l IH]; cbn [forM_]; [discriminate|].
  destruct (f x) as [[]| | |] eqn:E; cbn [bind]; try discriminate.
  - intros H. destruct (IH H) as (y & Hy & Ey). exists y. split; [now right | assumption].
  - intros H. inversion H; subst. exists x. split; [now left | assumption].
Qed.

Lemma dim_diff_zero_TF' rho x y : dim_diff_zero x y = TF -> dval rho x <> dval rho y.
Proof.
  destruct x as [a|s], y as [b|t]; cbn [dim_diff_zero]; try discriminate.
  - unfold tri_of_bool. destruct (Nat.eqb_spec a b); [discriminate | intros _; cbn; congruence].
  - destruct (s =? t); discriminate.
Qed.

Lemma dim_pair_fail rho a b c :
  dim_pair_check a b = ErrExn c ->
  exists x y, a = Some x /\ b = Some y /\ dval rho x <> dval rho y.
Proof.
  unfold dim_pair_check. destruct a as [x|], b as [y|]; try discriminate.
  destruct (dim_diff_zero x y) eqn:E; cbn [is_false]; try discriminate.
  intros _. exists x, y. repeat split. now apply dim_diff_zero_TF'.
Qed.

Lemma size_pair_fail rho x y s c :
  size_pair_check (size x) (size y) = ErrExn c ->
  shp rho x = Some s -> shp rho y = Some s -> False.
Proof.
  intros H Hx Hy. unfold size_pair_check in H.
  destruct (size_sound rho x s Hx) as [X1 X2]. destruct (size_sound rho y s Hy) as [Y1 Y2].
  destruct (dim_pair_check (fst (size x)) (fst (size y))) as [[]| | |] eqn:E1; cbn [bind] in H; try discriminate.
  - unfold dim_pair_check in H. destruct (snd (size x)) as [a|] eqn:Ea; [|discriminate].
    destruct (snd (size y)) as [b|] eqn:Eb; [|discriminate].
    destruct (dim_diff_zero a b) eqn:Ed; cbn [is_false] in H; try discriminate.
    apply (dim_diff_zero_TF' rho) in Ed. rewrite (X2 a eq_refl), (Y2 b eq_refl) in Ed. congruence.
  - unfold dim_pair_check in E1. destruct (fst (size x)) as [a|] eqn:Ea; [|discriminate].
    destruct (fst (size y)) as [b|] eqn:Eb; [|discriminate].
    destruct (dim_diff_zero a b) eqn:Ed; cbn [is_false] in E1; try discriminate.
    apply (dim_diff_zero_TF' rho) in Ed. rewrite (X1 a eq_refl), (Y1 b eq_refl) in Ed. congruence.
Qed.

Lemma in_removelast' {A} (l : list A) x : In x (removelast l) -> In x l.
Proof.
  induction l as [|y l IH]; [intros []|]. destruct l as [|z l]; [intros []|].
  change (removelast (y :: z :: l)) with (y :: removelast (z :: l)). intros [->|H]; [now left | right; now apply IH].
Qed.

Lemma check_fail_sound rho vec c :
  check_matching_sizes vec = ErrExn c -> shape_all (map (shp rho) vec) = None.
Proof.
  intros H. destruct (shape_all (map (shp rho) vec)) as [s|] eqn:E; [|reflexivity]. exfalso.
  apply shape_all_Forall in E. destruct E as [_ Hall]. rewrite Forall_forall in Hall.
  unfold check_matching_sizes in H. apply forM_fail in H. destruct H as (fs & Hfs & H).
  apply forM_fail in H. destruct H as (ss & Hss & H).
  apply in_removelast' in Hfs. apply in_map_iff in Hfs. destruct Hfs as (x & <- & Hx).
  assert (Hss' : In ss (map size vec)) by (destruct (map size vec); [destruct Hss | now right]).
  apply in_map_iff in Hss'. destruct Hss' as (y & <- & Hy).
  eapply size_pair_fail; eauto.
Qed.

(* errors of the loops are never exceptions *)
Lemma zipc_noexn f a b i c : zipc f a b i <> ErrExn c.
Proof.
  revert i. induction a as [|x a IH]; intros i; cbn [zipc]; [discriminate|].
  unfold rd. destruct (nth_error b i); cbn [bind oob]; [|discriminate].
  specialize (IH (S i)). destruct (zipc f a b (S i)); cbn [bind]; congruence.
Qed.

Lemma add_step_noexn st x c : add_step st x <> ErrExn c.
Proof.
  unfold add_step. destruct x; try discriminate.
  - destruct (a_diag st); [|discriminate]. pose proof (zipc_noexn eadd l d 0 c).
    destruct (zipc eadd l d 0); cbn [bind]; congruence.
  - destruct (a_dense st) as [[[? ?] ?]|]; [|discriminate]. pose proof (zipc_noexn eadd v l 0 c).
    destruct (zipc eadd v l 0); cbn [bind]; congruence.
Qed.

Lemma foldM_noexn {A S} (f : S -> A -> res S) l s c :
  (forall s x, f s x <> ErrExn c) -> foldM f l s <> ErrExn c.
Proof.
  intros H. revert s. induction l as [|x l IH]; intros s; cbn [foldM]; [discriminate|].
  specialize (H s x). destruct (f s x); cbn [bind]; auto; congruence.
Qed.

Lemma mapM_noexn {A B} (f : A -> res B) l c : (forall x, f x <> ErrExn c) -> mapM f l <> ErrExn c.
Proof.
  intros H. induction l as [|x l IH]; cbn [mapM]; [discriminate|].
  specialize (H x). destruct (f x); cbn [bind]; try congruence.
  destruct (mapM f l); cbn [bind]; congruence.
Qed.

Lemma rd_noexn {A} (l : list A) i c : rd l i <> ErrExn c.
Proof. unfold rd, oob. destruct (nth_error l i); discriminate. Qed.

Lemma add_diag_dense_noexn d m n v c : add_diag_dense d m n v <> ErrExn c.
Proof.
  unfold add_diag_dense, tab2. apply mapM_noexn. intros [i j]. cbn [fst snd]. unfold dget.
  destruct (i =? j).
  - pose proof (rd_noexn v (i * n + j) c). destruct (rd v (i * n + j)); cbn [bind]; try congruence.
    pose proof (rd_noexn d i c). destruct (rd d i); cbn [bind]; congruence.
  - apply rd_noexn.
Qed.

Theorem matrix_add_error_sound rho terms :
  matrix_add terms = ErrExn EXN_DOMAIN -> shp rho (MAdd terms) = None.
Proof.
  intros H. rewrite shp_MAdd. destruct (shape_all (map (shp rho) terms)) as [s|] eqn:E; [|reflexivity]. exfalso.
  apply shape_all_Forall in E. destruct E as [Hne Hall].
  unfold matrix_add in H. destruct terms as [|t0 [|t1 rest]]; [congruence | discriminate |].
  set (terms := t0 :: t1 :: rest) in *.
  destruct (check_matching_sizes (flatten_add terms)) as [[]| | |] eqn:Ec; cbn [bind] in H; try discriminate.
  - pose proof (foldM_noexn add_step (flatten_add terms)
                  {| a_keep := []; a_diag := None; a_dense := None; a_zero := None |} EXN_DOMAIN
                  (fun s x => add_step_noexn s x EXN_DOMAIN)) as Hf.
    destruct (foldM add_step (flatten_add terms) _) as [st| | |]; cbn [bind] in H; try discriminate; [|congruence].
    destruct (a_diag st) as [d|].
    + destruct (a_dense st) as [[[m n] v]|].
      * pose proof (add_diag_dense_noexn d m n v EXN_DOMAIN).
        destruct (add_diag_dense d m n v) as [sv| | |]; cbn [bind fst snd] in H; try discriminate; try congruence.
        destruct (a_keep st ++ [MDense m n sv]) as [|? [|? ?]]; [destruct (a_zero st) as [[? ?]|]|..]; discriminate.
      * cbn [bind fst snd] in H.
        destruct (a_keep st ++ [MDiag d]) as [|? [|? ?]]; [destruct (a_zero st) as [[? ?]|]|..]; discriminate.
    + cbn [bind fst snd] in H. destruct (a_dense st) as [[[m n] v]|].
      * destruct (a_keep st ++ [MDense m n v]) as [|? [|? ?]]; [destruct (a_zero st) as [[? ?]|]|..]; discriminate.
      * destruct (a_keep st) as [|? [|? ?]]; [destruct (a_zero st) as [[? ?]|]|..]; discriminate.
  - inversion H; subst.
    pose proof (check_fail_sound rho _ _ Ec) as Hc.
    pose proof (flatten_add_shape rho terms s Hall) as Hfl.
    pose proof (flatten_add_nonempty rho terms s Hne Hall) as Hfne.
    rewrite (Forall_shape_all rho _ s Hfne Hfl) in Hc. discriminate.
Qed.

(* ---------------------------------------------------------------- matrix_mul *)
Lemma check_mul_rest_fail rho : forall rest first c,
  check_mul_rest (map size rest) (size first) = ErrExn c ->
  shape_chain (map (shp rho) (first :: rest)) = None.
Proof.
  induction rest as [|y rest IH]; intros first c H; cbn [map check_mul_rest] in H; [discriminate|].
  change (map (shp rho) (first :: y :: rest)) with (shp rho first :: shp rho y :: map (shp rho) rest).
  rewrite shape_chain_cons.
  destruct (prod_shape (shp rho first) (shape_chain (shp rho y :: map (shp rho) rest))) as [s|] eqn:E; [|reflexivity].
  exfalso. apply prod_shape_Some in E. destruct E as (sa & sb & A & B & C & _).
  change (shp rho y :: map (shp rho) rest) with (map (shp rho) (y :: rest)) in B.
  assert (Hy : exists sy, shp rho y = Some sy /\ fst sy = fst sb).
  { apply shape_chain_Some in B. destruct B as (a & b & Hh & _ & Ha & _). cbn [map hd] in Hh. eauto. }
  destruct Hy as (sy & Hy & Hy').
  destruct (snd (size first)) as [cc|] eqn:Ec.
  - destruct (fst (size y)) as [rr|] eqn:Er.
    + destruct (dim_diff_zero cc rr) eqn:Ed; cbn [is_false] in H.
      * rewrite (IH y c H) in B. discriminate.
      * apply (dim_diff_zero_TF' rho) in Ed.
        destruct (size_sound rho first sa A) as [_ X]. destruct (size_sound rho y sy Hy) as [Y _].
        rewrite (X cc Ec), (Y rr Er) in Ed. congruence.
      * rewrite (IH y c H) in B. discriminate.
    + rewrite (IH y c H) in B. discriminate.
  - rewrite (IH y c H) in B. discriminate.
Qed.

Lemma check_mul_fail_sound rho l :
  check_matching_mul_sizes l = ErrExn EXN_DOMAIN -> shape_chain (map (shp rho) l) = None.
Proof.
  unfold check_matching_mul_sizes. destruct l as [|x l]; [reflexivity|]. cbn [map]. apply check_mul_rest_fail.
Qed.

(* the folding helpers: the only exception is the DomainError of the size guard, and it is thrown
   only when the operand sizes really do not fit *)
Lemma mul_diag_diag_exn a b c :
  mul_diag_diag a b = ErrExn c -> c = EXN_DOMAIN /\ length a <> length b.
Proof.
  unfold mul_diag_diag. destruct (Nat.eqb_spec (length a) (length b)) as [E|E]; cbn [negb].
  - intros H. exfalso. exact (zipc_noexn emul a b 0 c H).
  - intros H. inversion H; subst. split; [reflexivity | exact E].
Qed.

Lemma mul_dense_diag_exn m n v d c :
  mul_dense_diag m n v d = ErrExn c -> c = EXN_DOMAIN /\ length d <> n.
Proof.
  unfold mul_dense_diag. destruct (Nat.eqb_spec (length d) n) as [E|E]; cbn [negb].
  - intros H. exfalso. unfold tab2 in H.
    match type of H with (do p <- mapM ?f ?l; _) = _ => assert (G : mapM f l <> ErrExn c) end.
    { apply mapM_noexn. intros [i j]. cbn [fst snd].
      pose proof (rd_noexn d j c). destruct (rd d j); cbn [bind]; try congruence.
      pose proof (rd_noexn v (i * n + j) c). destruct (rd v (i * n + j)); cbn [bind]; congruence. }
    destruct (mapM _ _); cbn [bind] in H; congruence.
  - intros H. inversion H; subst. split; [reflexivity | exact E].
Qed.

Lemma mul_dense_dense_exn m0 n0 v0 m n v c :
  mul_dense_dense m0 n0 v0 m n v = ErrExn c -> c = EXN_DOMAIN /\ n0 <> m.
Proof.
  unfold mul_dense_dense. destruct (Nat.eqb_spec n0 m) as [E|E]; cbn [negb].
  - intros H. exfalso. unfold tab2 in H.
    match type of H with (do p <- mapM ?f ?l; _) = _ => assert (G : mapM f l <> ErrExn c) end.
    { apply mapM_noexn. intros [i j]. cbn [fst snd]. apply foldM_noexn. intros acc k.
      pose proof (rd_noexn v0 (i * n0 + k) c). destruct (rd v0 (i * n0 + k)); cbn [bind]; try congruence.
      pose proof (rd_noexn v (k * n + j) c). destruct (rd v (k * n + j)); cbn [bind]; congruence. }
    destruct (mapM _ _); cbn [bind] in H; congruence.
  - intros H. inversion H; subst. split; [reflexivity | exact E].
Qed.

Lemma mul_diag_dense_exn d0 m n v c :
  mul_diag_dense d0 m n v = ErrExn c -> c = EXN_DOMAIN /\ length d0 <> m.
Proof.
  unfold mul_diag_dense. destruct (Nat.eqb_spec (length d0) m) as [E|E]; cbn [negb].
  - intros H. exfalso. unfold tab2 in H.
    match type of H with (do p <- mapM ?f ?l; _) = _ => assert (G : mapM f l <> ErrExn c) end.
    { apply mapM_noexn. intros [i j]. cbn [fst snd].
      pose proof (rd_noexn d0 i c). destruct (rd d0 i); cbn [bind]; try congruence.
      pose proof (rd_noexn v (i * n + j) c). destruct (rd v (i * n + j)); cbn [bind]; congruence. }
    destruct (mapM _ _); cbn [bind] in H; congruence.
  - intros H. inversion H; subst. split; [reflexivity | exact E].
Qed.

(* a step of the folding loop throws only when the accumulated concrete product and the next
   concrete factor do not fit: which two operands are multiplied, and their sizes *)
Lemma mul_step_exn st x c :
  mul_step st x = ErrExn c ->
  c = EXN_DOMAIN /\
  ((exists d0 d, m_diag st = Some d0 /\ x = MDiag d /\ length d0 <> length d) \/
   (exists m n v d, m_diag st = None /\ m_dense st = Some (m, n, v) /\ x = MDiag d /\ length d <> n) \/
   (exists m0 n0 v0 m n v, m_dense st = Some (m0, n0, v0) /\ x = MDense m n v /\ n0 <> m) \/
   (exists d0 m n v, m_dense st = None /\ m_diag st = Some d0 /\ x = MDense m n v /\ length d0 <> m)).
Proof.
  unfold mul_step. destruct x; try discriminate.
  - destruct (m_diag st) as [d0|].
    + destruct (mul_diag_diag d0 d) eqn:Em; cbn [bind]; try discriminate.
      intros H. inversion H; subst. destruct (mul_diag_diag_exn _ _ _ Em) as [-> Hl].
      split; [reflexivity|]. left. eauto.
    + destruct (m_dense st) as [[[m n] v]|]; [|discriminate].
      destruct (mul_dense_diag m n v d) eqn:Em; cbn [bind]; try discriminate.
      intros H. inversion H; subst. destruct (mul_dense_diag_exn _ _ _ _ _ Em) as [-> Hl].
      split; [reflexivity|]. right. left. exists m, n, v, d. auto.
  - destruct (m_dense st) as [[[m0 n0] v0]|].
    + destruct (mul_dense_dense m0 n0 v0 m n v) eqn:Em; cbn [bind]; try discriminate.
      intros H. inversion H; subst. destruct (mul_dense_dense_exn _ _ _ _ _ _ _ Em) as [-> Hl].
      split; [reflexivity|]. right. right. left. exists m0, n0, v0, m, n, v. auto.
    + destruct (m_diag st) as [d0|]; [|discriminate].
      destruct (mul_diag_dense d0 m n v) eqn:Em; cbn [bind]; try discriminate.
      intros H. inversion H; subst. destruct (mul_diag_dense_exn _ _ _ _ _ Em) as [-> Hl].
      split; [reflexivity|]. right. right. right. exists d0, m, n, v. auto.
Qed.

(* ... and then the product of the factors processed so far with that factor is undefined *)
Lemma mul_step_exn_undefined rho p st x c :
  mul_inv rho p st -> mul_step st x = ErrExn c -> fst (chain rho (p ++ [x])) = None.
Proof.
  intros (Hone & HB & HC) Hstep.
  destruct (fst (chain rho (p ++ [x]))) as [s|] eqn:Hs; [|reflexivity]. exfalso.
  destruct (mul_step_exn st x c Hstep) as [_ Hcase].
  assert (HL : flush st <> []).
  { unfold flush. destruct Hcase as [(d0 & d & E & _)|[(m & n & v & d & E1 & E2 & _)|[(m0 & n0 & v0 & m & n & v & E & _)|(d0 & m & n & v & _ & E & _)]]].
    - rewrite E. apply app_nonempty.
    - rewrite E1, E2. apply app_nonempty.
    - destruct (m_diag st); [apply app_nonempty|]. rewrite E. apply app_nonempty.
    - rewrite E. apply app_nonempty. }
  destruct (HB HL) as [Hp E].
  assert (Hs' : fst (chain rho (flush st ++ [x])) = Some s).
  { destruct (chain_snoc rho (flush st) x HL) as [E1 _]. rewrite E1.
    destruct (chain_snoc rho p x Hp) as [E2 _]. rewrite E2 in Hs. cbn [prod_sv fst] in *.
    destruct E as [E3 _]. now rewrite <- E3. }
  destruct Hcase as [(d0 & d & Ed & -> & Hl)|[(m & n & v & d & Ed & Ede & -> & Hl)|[(m0 & n0 & v0 & m & n & v & Ede & -> & Hl)|(d0 & m & n & v & Ede & Ed & -> & Hl)]]].
  - rewrite (flush_diag st d0 Ed) in Hs'.
    destruct (chain_defined_last rho _ _ _ _ Hs') as (sa & sb & A & B & C).
    rewrite shp_MDiag in A, B. inversion A; subst sa. inversion B; subst sb. cbn [fst snd] in C. congruence.
  - rewrite (flush_dense st m n v Ed Ede) in Hs'.
    destruct (chain_defined_last rho _ _ _ _ Hs') as (sa & sb & A & B & C).
    apply shp_MDense_Some in A. destruct A as [Lv ->]. rewrite shp_MDiag in B. inversion B; subst sb.
    cbn [fst snd] in C. congruence.
  - assert (Ed : m_diag st = None) by (destruct Hone; congruence).
    rewrite (flush_dense st m0 n0 v0 Ed Ede) in Hs'.
    destruct (chain_defined_last rho _ _ _ _ Hs') as (sa & sb & A & B & C).
    apply shp_MDense_Some in A. destruct A as [Lv0 ->].
    apply shp_MDense_Some in B. destruct B as [Lv ->]. cbn [fst snd] in C. congruence.
  - rewrite (flush_diag st d0 Ed) in Hs'.
    destruct (chain_defined_last rho _ _ _ _ Hs') as (sa & sb & A & B & C).
    rewrite shp_MDiag in A. inversion A; subst sa.
    apply shp_MDense_Some in B. destruct B as [Lv ->]. cbn [fst snd] in C. congruence.
Qed.

Lemma mul_loop_exn_undefined rho l c : forall p st,
  mul_inv rho p st -> foldM mul_step l st = ErrExn c -> fst (chain rho (p ++ l)) = None.
Proof.
  induction l as [|x l IH]; intros p st HI H; cbn [foldM] in H; [discriminate|].
  destruct (fst (chain rho (p ++ x :: l))) as [s|] eqn:Hs; [|reflexivity]. exfalso.
  replace (p ++ x :: l) with ((p ++ [x]) ++ l) in Hs by (rewrite <- app_assoc; reflexivity).
  destruct (chain_prefix_defined rho (p ++ [x]) l s (app_nonempty p x) Hs) as [s1 Hs1].
  destruct (mul_step st x) as [st1| | |] eqn:E; cbn [bind] in H; try discriminate.
  - pose proof (mul_step_inv rho p st x st1 s1 HI Hs1 E) as HI1.
    rewrite (IH _ _ HI1 H) in Hs. discriminate.
  - inversion H; subst. rewrite (mul_step_exn_undefined rho p st x c HI E) in Hs1. discriminate.
Qed.

Theorem matrix_mul_error_sound rho args :
  matrix_mul args = ErrExn EXN_DOMAIN -> shp rho (naive_mul args) = None.
Proof.
  intros H. destruct (shp rho (naive_mul args)) as [s|] eqn:Es; [|reflexivity]. exfalso.
  rewrite naive_mul_eq in Es.
  assert (Hdef : Forall (fun e => exists sh, shp rho e = Some sh) (mats args)).
  { rewrite shp_MMul in Es. eapply defined_operands; eauto. }
  pose proof (expand_sv rho args e1 [] Hdef) as Hexp.
  assert (Hbody : forall args0, args0 = args ->
    (let '(scalar, expanded) := expand_mul args0 e1 [] in
      do _ <- check_matching_mul_sizes expanded;
      match first_zero_arg args0 with
      | Some z => Ok (zero_result expanded z)
      | None =>
          do st <- foldM mul_step expanded {| m_keep := []; m_diag := None; m_dense := None; m_ident := None |};
          let keep := match flush st, m_ident st with [], Some n => [MIdent n] | k, _ => k end in
          match keep with
          | [x] => if e_eqb scalar e1 then Ok x else Ok (MMul scalar keep)
          | _ => Ok (MMul scalar keep)
          end
      end) = ErrExn EXN_DOMAIN -> False).
  { intros args0 -> Hm. destruct (expand_mul args e1 []) as [scalar expanded] eqn:Ee. cbn [fst snd app] in Hexp.
    assert (Hsh : fst (chain rho expanded) = Some s).
    { destruct Hexp as [E _]. cbn [scale_sv fst] in E. rewrite E.
      unfold chain. rewrite chain_sv_shape, map_map. rewrite shp_MMul in Es. exact Es. }
    destruct (check_matching_mul_sizes expanded) as [[]| | |] eqn:Ec; cbn [bind] in Hm; try discriminate.
    - destruct (first_zero_arg args); [discriminate|].
      assert (HI0 : mul_inv rho [] {| m_keep := []; m_diag := None; m_dense := None; m_ident := None |}).
      { split; [now left|]. split; [intros H0; exfalso; apply H0; reflexivity|].
        intros _. split; [reflexivity|]. left. split; reflexivity. }
      pose proof (mul_loop_exn_undefined rho expanded EXN_DOMAIN [] _ HI0) as Hf. cbn [app] in Hf.
      destruct (foldM mul_step expanded _) as [st| | |]; cbn [bind] in Hm; try discriminate;
        [|inversion Hm; subst; rewrite (Hf eq_refl) in Hsh; discriminate].
      cbv zeta in Hm.
      destruct (match flush st, m_ident st with [] , Some n => [MIdent n] | k, _ => k end) as [|x [|y l]];
        cbn iota beta in Hm; try discriminate. destruct (e_eqb scalar e1); discriminate.
    - inversion Hm; subst. apply (check_mul_fail_sound rho) in Ec.
      unfold chain in Hsh. rewrite chain_sv_shape, map_map in Hsh.
      change (map (fun x => fst (sem rho x)) expanded) with (map (shp rho) expanded) in Hsh. congruence. }
  unfold matrix_mul in H.
  destruct args as [|a0 args'].
  - cbn in Es. discriminate.
  - destruct a0 as [q0|e0'], args' as [|a1 args'']; try discriminate.
    + exact (Hbody _ eq_refl H).
    + exact (Hbody _ eq_refl H).
Qed.

(* the former finding C26/matrix_mul:unchecked-fold-after-identity (repaired by 3d415cb): the factors
   around a dropped identity matrix of symbolic size were folded although their sizes had never been
   compared ([1,2] * I_n * [1,2,3]^T gave [5]; longer chains read out of range).  The folding helpers
   now throw DomainError on the former witnesses, and by the theorem above that is not spurious. *)
Definition qz (z : Z) : ent := (Q2Qc (inject_Z z), qc0).

Example fold_after_identity_rejected :
  matrix_mul [AMat (MDense 1 2 [qz 1; qz 2]); AMat (MIdent (DSym 30)); AMat (MDense 3 1 [qz 1; qz 2; qz 3])]
    = ErrExn EXN_DOMAIN /\
  matrix_mul [AMat (MDiag [qz 1; qz 2]); AMat (MIdent (DSym 30)); AMat (MDiag [qz 1; qz 2; qz 3])]
    = ErrExn EXN_DOMAIN /\
  matrix_mul [AMat (MDense 1 2 [qz 2; qz 0]); AMat (MDense 2 4 [qz 0; qz 3; qz 3; qz 0; qz 0; qz 1; qz 0; qz 0]);
              AMat (MIdent (DSym 30)); AScal (qz 1); AMat (MDense 3 1 [qz 0; qz 2; qz (-1)])]
    = ErrExn EXN_DOMAIN /\
  matrix_mul [AMat (MDiag [qz 1; qz 2]); AMat (MIdent (DSym 30)); AMat (MDense 3 1 [qz 1; qz 2; qz 3])]
    = ErrExn EXN_DOMAIN /\
  matrix_mul [AMat (MDense 1 2 [qz 1; qz 2]); AMat (MIdent (DSym 30)); AMat (MDiag [qz 1; qz 2; qz 3])]
    = ErrExn EXN_DOMAIN.
Proof. repeat split; vm_compute; reflexivity. Qed.

(* ---------------------------------------------------------------- hadamard_product *)
Lemma had_step_noexn st x c : had_step st x <> ErrExn c.
Proof.
  unfold had_step. destruct x; try discriminate.
  - destruct (h_ident st); discriminate.
  - destruct (h_diag st); [|discriminate]. pose proof (zipc_noexn emul l d 0 c).
    destruct (zipc emul l d 0); cbn [bind]; congruence.
  - destruct (h_dense st) as [[[? ?] ?]|]; [|discriminate]. pose proof (zipc_noexn emul v l 0 c).
    destruct (zipc emul v l 0); cbn [bind]; congruence.
Qed.

Lemma had_loop_noexn l st c : had_loop l st <> ErrExn c.
Proof.
  revert st. induction l as [|x l IH]; intros st; cbn [had_loop]; [discriminate|].
  pose proof (had_step_noexn st x c). destruct (had_step st x) as [[z|st1]| | |]; cbn [bind]; try congruence; auto.
Qed.

Lemma had_dense_diag_noexn m n v d c : had_dense_diag m n v d <> ErrExn c.
Proof.
  unfold had_dense_diag. apply mapM_noexn. intros i. unfold dget.
  pose proof (rd_noexn v (i * n + i) c). destruct (rd v (i * n + i)); cbn [bind]; try congruence.
  pose proof (rd_noexn d i c). destruct (rd d i); cbn [bind]; congruence.
Qed.

Theorem hadamard_product_error_sound rho fs :
  hadamard_product fs = ErrExn EXN_DOMAIN -> shp rho (MHad fs) = None.
Proof.
  intros H. rewrite shp_MHad. destruct (shape_all (map (shp rho) fs)) as [s|] eqn:E; [|reflexivity]. exfalso.
  apply shape_all_Forall in E. destruct E as [Hne Hall].
  unfold hadamard_product in H. destruct fs as [|t0 [|t1 rest]]; [congruence | discriminate |].
  set (terms := t0 :: t1 :: rest) in *.
  destruct (check_matching_sizes (flatten_had terms)) as [[]| | |] eqn:Ec; cbn [bind] in H; try discriminate.
  - pose proof (had_loop_noexn (flatten_had terms)
                  {| h_keep := []; h_diag := None; h_dense := None; h_ident := false |} EXN_DOMAIN) as Hf.
    destruct (had_loop (flatten_had terms) _) as [[z|st]| | |]; cbn [bind] in H; try discriminate; [|congruence].
    destruct (h_dense st) as [[[m n] v]|].
    + destruct (h_diag st) as [d|].
      * pose proof (had_dense_diag_noexn m n v d EXN_DOMAIN).
        destruct (had_dense_diag m n v d) as [pd| | |]; cbn [bind fst snd] in H; try discriminate; try congruence.
        destruct (h_keep st ++ [MDiag pd]) as [|? [|? ?]]; discriminate.
      * cbn [bind fst snd] in H. destruct (h_keep st ++ [MDense m n v]) as [|? [|? ?]]; discriminate.
    + cbn [bind fst snd] in H. destruct (h_diag st) as [d|].
      * destruct (h_keep st ++ [MDiag d]) as [|? [|? ?]]; discriminate.
      * destruct (h_keep st) as [|? [|? ?]]; discriminate.
  - inversion H; subst.
    pose proof (check_fail_sound rho _ _ Ec) as Hc.
    pose proof (flatten_had_shape rho terms s Hall) as Hfl.
    pose proof (flatten_had_nonempty rho terms s Hne Hall) as Hfne.
    rewrite (Forall_shape_all rho _ s Hfne Hfl) in Hc. discriminate.
Qed.
