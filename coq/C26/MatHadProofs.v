(* C26 -- hadamard_product preserves the value of the entrywise product (hadamard_product.cpp). *)
From SE Require Import C26.MatSpec C26.MatLemmas C26.MatAddProofs.
From Coq Require Import Lia Ring.
Local Open Scope nat_scope.
Local Open Scope res_scope.

(* ---------------------------------------------------------------- flattening *)
Lemma flatten_had_val rho fs i j :
  eprod (map (fun e => val rho e i j) (flatten_had fs)) = eprod (map (fun e => val rho e i j) fs).
Proof.
  unfold flatten_had. induction fs as [|t r IH]; [reflexivity|].
  cbn [flat_map]. rewrite map_app, eprod_app, IH. cbn [map]. rewrite eprod_cons.
  f_equal. destruct t; try (cbn [map]; rewrite eprod_cons, eprod_nil; ring).
  now rewrite val_MHad.
Qed.

Lemma flatten_had_shape rho fs s :
  Forall (fun e => shp rho e = Some s) fs -> Forall (fun e => shp rho e = Some s) (flatten_had fs).
Proof.
  unfold flatten_had. induction 1 as [|t r Ht Hr IH]; [constructor|].
  cbn [flat_map]. apply Forall_app. split; [|assumption].
  destruct t; try (constructor; [assumption | constructor]).
  rewrite shp_MHad in Ht. apply shape_all_Forall in Ht. tauto.
Qed.

Lemma flatten_had_nonempty rho fs s :
  fs <> [] -> Forall (fun e => shp rho e = Some s) fs -> flatten_had fs <> [].
Proof.
  unfold flatten_had. destruct fs as [|t r]; [congruence|]. intros _ H. inversion H; subst.
  cbn [flat_map]. destruct t; try discriminate.
  rewrite shp_MHad in H2. apply shape_all_Forall in H2. destruct H2 as [Hne _].
  destruct fs; [congruence | discriminate].
Qed.

(* ---------------------------------------------------------------- the loop *)
Definition oval1 rho (o : option mexpr) i j : ent :=
  match o with Some e => val rho e i j | None => e1 end.
Definition hst_diag (st : had_state) : option mexpr :=
  match h_diag st with Some d => Some (MDiag d) | None => None end.
Definition hst_dense (st : had_state) : option mexpr :=
  match h_dense st with Some (m, n, v) => Some (MDense m n v) | None => None end.
Definition hv rho (st : had_state) i j : ent :=
  emul (eprod (map (fun e => val rho e i j) (h_keep st)))
       (emul (oval1 rho (hst_diag st) i j) (oval1 rho (hst_dense st) i j)).

Definition had_inv rho (s : shape) (p : list mexpr) (st : had_state) : Prop :=
  Forall (fun e => shp rho e = Some s) (h_keep st) /\
  (forall d, h_diag st = Some d -> shp rho (MDiag d) = Some s) /\
  (forall m n v, h_dense st = Some (m, n, v) -> shp rho (MDense m n v) = Some s) /\
  (h_ident st = true -> exists n, In (MIdent n) (h_keep st)) /\
  (forall i j, hv rho st i j = eprod (map (fun e => val rho e i j) p)) /\
  (p <> [] -> h_keep st <> [] \/ h_diag st <> None \/ h_dense st <> None).

Lemma delta_idem i j : emul (delta i j) (delta i j) = delta i j.
Proof. unfold delta. destruct (i =? j); ring. Qed.

Lemma eprod_absorb_delta {A} (f : A -> ent) (l : list A) x i j :
  In x l -> f x = delta i j -> emul (eprod (map f l)) (delta i j) = eprod (map f l).
Proof.
  induction l as [|y l IH]; cbn [In map]; [tauto|].
  rewrite eprod_cons. intros [->|Hin] Hx.
  - rewrite Hx. rewrite <- (delta_idem i j) at 3. ring.
  - rewrite <- (IH Hin Hx) at 2. ring.
Qed.

Lemma had_step_inv rho s p st factor st' :
  had_inv rho s p st -> shp rho factor = Some s -> had_step st factor = Ok (inr st') ->
  had_inv rho s (p ++ [factor]) st'.
Proof.
  intros (Hk & Hd & Hm & Hi & Hv & Hne) Hs Hstep.
  assert (Hval : forall i j, eprod (map (fun e => val rho e i j) (p ++ [factor]))
                             = emul (eprod (map (fun e => val rho e i j) p)) (val rho factor i j)).
  { intros. rewrite map_app, eprod_app. cbn [map]. rewrite eprod_cons, eprod_nil. ring. }
  unfold had_step in Hstep.
  destruct factor; try (inversion Hstep; subst; clear Hstep;
    (split; [cbn [h_keep]; apply Forall_app; split; [assumption | constructor; [assumption | constructor]]|]);
    (split; [assumption|]); (split; [assumption|]);
    (split; [cbn [h_ident h_keep]; intros Hid; destruct (Hi Hid) as [n0 Hin]; exists n0; apply in_or_app; now left|]);
    (split; [intros i j; rewrite Hval, <- Hv; unfold hv, hst_diag, hst_dense; cbn [h_keep h_diag h_dense];
             rewrite map_app, eprod_app; cbn [map]; rewrite eprod_cons, eprod_nil; ring|]);
    intros _; left; cbn [h_keep]; destruct (h_keep st); discriminate).
  - (* MIdent *)
    destruct (h_ident st) eqn:Eid.
    + injection Hstep as Hst; subst st'.
      split; [assumption|]. split; [assumption|]. split; [assumption|].
      split; [intros _; apply Hi; reflexivity|].
      split.
      * intros i j. rewrite Hval, <- Hv, val_MIdent. unfold hv.
        destruct (Hi eq_refl) as [n0 Hin].
        rewrite <- (eprod_absorb_delta (fun e => val rho e i j) (h_keep st) (MIdent n0) i j Hin (val_MIdent rho n0 i j)) at 1.
        ring.
      * intros _. left. destruct (Hi eq_refl) as [n0 Hin].
        destruct (h_keep st); [destruct Hin | discriminate].
    + inversion Hstep; subst; clear Hstep.
      split; [cbn [h_keep]; apply Forall_app; split; [assumption | constructor; [assumption | constructor]]|].
      split; [assumption|]. split; [assumption|].
      split; [cbn [h_ident h_keep]; intros _; exists n; apply in_or_app; right; now left|].
      split.
      * intros i j. rewrite Hval, <- Hv. unfold hv, hst_diag, hst_dense. cbn [h_keep h_diag h_dense].
        rewrite map_app, eprod_app. cbn [map]. rewrite eprod_cons, eprod_nil. ring.
      * intros _. left. cbn [h_keep]. destruct (h_keep st); discriminate.
  - (* MDiag *)
    destruct (h_diag st) as [d0|] eqn:Ed.
    + destruct (zipc emul d0 d 0) as [r| | |] eqn:Ez; cbn [bind] in Hstep; try discriminate.
      inversion Hstep; subst; clear Hstep.
      pose proof (Hd d0 eq_refl) as Hd0. rewrite shp_MDiag in Hd0, Hs.
      assert (L : length d0 = length d) by congruence.
      pose proof (zipc0_spec _ _ _ _ Ez L) as [Lr _].
      split; [assumption|].
      split; [cbn [h_diag]; intros d' E; inversion E; subst; rewrite shp_MDiag, Lr; assumption|].
      split; [assumption|]. split; [assumption|].
      split.
      * intros i j. rewrite Hval, <- Hv. unfold hv, hst_diag, hst_dense. cbn [h_keep h_diag h_dense].
        rewrite Ed. cbn [oval1].
        rewrite (diag_merge_val rho emul d0 d r i j Ez L) by ring. ring.
      * intros _. right. left. cbn [h_diag]. discriminate.
    + inversion Hstep; subst; clear Hstep.
      split; [assumption|].
      split; [cbn [h_diag]; intros d' E; inversion E; subst; assumption|].
      split; [assumption|]. split; [assumption|].
      split.
      * intros i j. rewrite Hval, <- Hv. unfold hv, hst_diag, hst_dense. cbn [h_keep h_diag h_dense].
        rewrite Ed. cbn [oval1]. ring.
      * intros _. right. left. cbn [h_diag]. discriminate.
  - (* MDense *)
    destruct (h_dense st) as [[[m0 n0] v0]|] eqn:Ed.
    + destruct (zipc emul v v0 0) as [r| | |] eqn:Ez; cbn [bind] in Hstep; try discriminate.
      inversion Hstep; subst; clear Hstep.
      pose proof (Hm m0 n0 v0 eq_refl) as Hd0.
      apply shp_MDense_Some in Hd0. destruct Hd0 as [L0 S0].
      apply shp_MDense_Some in Hs. destruct Hs as [L1 S1].
      assert (E : (m, n) = (m0, n0)) by congruence. inversion E; subst m0 n0; clear E.
      assert (L : length v = length v0) by congruence.
      pose proof (zipc0_spec _ _ _ _ Ez L) as [Lr _].
      split; [assumption|]. split; [assumption|].
      split; [cbn [h_dense]; intros m' n' v' E; inversion E; subst;
              rewrite shp_MDense; rewrite Lr, L1, Nat.eqb_refl; first [reflexivity | congruence]|].
      split; [assumption|].
      split.
      * intros i j. rewrite Hval, <- Hv. unfold hv, hst_diag, hst_dense. cbn [h_keep h_diag h_dense].
        rewrite Ed. cbn [oval1].
        rewrite (dense_merge_val rho emul v v0 n r i j m Ez L) by ring. ring.
      * intros _. right. right. cbn [h_dense]. discriminate.
    + inversion Hstep; subst; clear Hstep.
      split; [assumption|]. split; [assumption|].
      split; [cbn [h_dense]; intros m' n' v' E; inversion E; subst; assumption|].
      split; [assumption|].
      split.
      * intros i j. rewrite Hval, <- Hv. unfold hv, hst_diag, hst_dense. cbn [h_keep h_diag h_dense].
        rewrite Ed. cbn [oval1]. ring.
      * intros _. right. right. cbn [h_dense]. discriminate.
Qed.

Lemma had_step_inl st factor z : had_step st factor = Ok (inl z) -> z = factor /\ is_MZero factor = true.
Proof.
  unfold had_step. destruct factor; intros H; try discriminate;
    try (inversion H; subst; auto; fail).
  - destruct (h_ident st); discriminate.
  - destruct (h_diag st); [destruct (zipc emul l d 0); cbn in H|]; discriminate.
  - destruct (h_dense st) as [[[? ?] ?]|]; [destruct (zipc emul v l 0); cbn in H|]; discriminate.
Qed.

Lemma had_loop_inv rho s l :
  forall p st out, had_inv rho s p st -> Forall (fun e => shp rho e = Some s) l ->
  had_loop l st = Ok out ->
  match out with
  | inr st' => had_inv rho s (p ++ l) st'
  | inl z => In z l /\ is_MZero z = true
  end.
Proof.
  induction l as [|x l IH]; intros p st out HI Hl H; cbn [had_loop] in H.
  - inversion H; subst. now rewrite app_nil_r.
  - inversion Hl; subst.
    destruct (had_step st x) as [[z|st1]| | |] eqn:E; cbn [bind] in H; try discriminate.
    + inversion H; subst. apply had_step_inl in E. destruct E as [-> Hz]. split; [now left | assumption].
    + replace (p ++ x :: l) with ((p ++ [x]) ++ l) by (rewrite <- app_assoc; reflexivity).
      specialize (IH (p ++ [x]) st1 out (had_step_inv rho s p st x st1 HI H2 E) H3 H).
      destruct out; [|assumption]. destruct IH. split; [now right | assumption].
Qed.

(* ---------------------------------------------------------------- dense o diagonal *)
Lemma had_dense_diag_val rho n v d r i j :
  had_dense_diag n n v d = Ok r -> length d = n -> length v = n * n -> i < n -> j < n ->
  length r = n /\
  val rho (MDiag r) i j = emul (val rho (MDense n n v) i j) (val rho (MDiag d) i j).
Proof.
  intros H Ld Lv Hi Hj. unfold had_dense_diag in H.
  pose proof (mapM_length _ _ _ H) as Lr. rewrite seq_length in Lr. split; [assumption|].
  pose proof (mapM_nth _ _ _ 0 e0 i H) as Hn. rewrite seq_length in Hn. specialize (Hn Hi).
  rewrite seq_nth in Hn by assumption. rewrite Nat.add_0_l in Hn.
  unfold dget in Hn. rewrite rd_lt in Hn by nia. cbn [bind] in Hn. rewrite rd_lt in Hn by lia.
  cbn [bind] in Hn. injection Hn as Hx.
  rewrite !val_MDiag, val_MDense. destruct (Nat.eqb_spec i j).
  - subst j. rewrite <- Hx. reflexivity.
  - ring.
Qed.

(* ---------------------------------------------------------------- the theorem *)
Theorem hadamard_value rho fs res s :
  hadamard_product fs = Ok res -> shp rho (MHad fs) = Some s ->
  shp rho res = Some s /\
  forall i j, i < fst s -> j < snd s -> val rho res i j = val rho (MHad fs) i j.
Proof.
  intros Hm Hs. rewrite shp_MHad in Hs. apply shape_all_Forall in Hs. destruct Hs as [Hne Hall].
  unfold hadamard_product in Hm.
  destruct fs as [|t0 [|t1 rest]]; [congruence | |].
  { inversion Hm; subst. inversion Hall; subst. split; [assumption|].
    intros. rewrite val_MHad. cbn [map]. rewrite eprod_cons, eprod_nil. ring. }
  set (terms := t0 :: t1 :: rest) in *.
  destruct (check_matching_sizes (flatten_had terms)); cbn [bind] in Hm; try discriminate.
  destruct (had_loop (flatten_had terms) _) as [out| | |] eqn:Ef; cbn [bind] in Hm; try discriminate.
  pose proof (flatten_had_shape rho terms s Hall) as Hfl.
  pose proof (flatten_had_nonempty rho terms s Hne Hall) as Hfne.
  assert (HI0 : had_inv rho s [] {| h_keep := []; h_diag := None; h_dense := None; h_ident := false |}).
  { unfold had_inv. cbn [h_keep h_diag h_dense h_ident].
    split; [constructor|]. split; [discriminate|]. split; [discriminate|]. split; [discriminate|].
    split; [intros; unfold hv, hst_diag, hst_dense; cbn [h_keep h_diag h_dense map oval1]; rewrite !eprod_nil; ring|].
    intros Hc; congruence. }
  pose proof (had_loop_inv rho s _ [] _ out HI0 Hfl Ef) as Hout.
  destruct out as [z|st].
  - (* a ZeroMatrix factor *)
    destruct Hout as [Hin Hz]. inversion Hm; subst res.
    rewrite Forall_forall in Hfl. split; [now apply Hfl|].
    intros i j _ _. rewrite val_MHad, <- flatten_had_val.
    destruct z; try discriminate. rewrite val_MZero. symmetry. apply eprod_zero.
    apply in_map_iff. exists (MZero m n). split; [reflexivity | assumption].
  - cbn [app] in Hout. destruct Hout as (Hk & Hd & Hde & Hi & Hv & Hnonempty).
    specialize (Hnonempty Hfne).
    assert (Hval : forall i j, val rho (MHad terms) i j = hv rho st i j).
    { intros. rewrite val_MHad, Hv. symmetry. apply flatten_had_val. }
    destruct (h_dense st) as [[[m n] v]|] eqn:Ede.
    + pose proof (Hde m n v eq_refl) as Sde.
      destruct (h_diag st) as [d|] eqn:Ed.
      * pose proof (Hd d eq_refl) as Sd. rewrite shp_MDiag in Sd.
        apply shp_MDense_Some in Sde. destruct Sde as [Lv Sde].
        destruct (had_dense_diag m n v d) as [r| | |] eqn:Ea; cbn [bind fst snd] in Hm; try discriminate.
        assert (m = length d /\ n = length d) as [-> ->] by (split; congruence).
        set (n := length d) in *.
        assert (Hs' : s = (n, n)) by congruence.
        assert (Lr : length r = n).
        { unfold had_dense_diag in Ea. apply mapM_length in Ea. now rewrite seq_length in Ea. }
        assert (Hres : shp rho (MDiag r) = Some s).
        { rewrite shp_MDiag, Lr. congruence. }
        assert (Hrv : forall i j, i < fst s -> j < snd s ->
                  eprod (map (fun e => val rho e i j) (h_keep st ++ [MDiag r])) = val rho (MHad terms) i j).
        { intros i j Hi' Hj'. rewrite Hval. unfold hv, hst_diag, hst_dense. rewrite Ed, Ede. cbn [oval1].
          rewrite map_app, eprod_app. cbn [map]. rewrite eprod_cons, eprod_nil.
          rewrite Hs' in Hi', Hj'. cbn in Hi', Hj'.
          destruct (had_dense_diag_val rho n v d r i j Ea eq_refl Lv Hi' Hj') as [_ ->]. ring. }
        destruct (h_keep st ++ [MDiag r]) as [|x [|y l]] eqn:Ek.
        -- destruct (h_keep st); discriminate.
        -- inversion Hm; subst res. destruct (h_keep st) as [|k0 kr]; [|destruct kr; discriminate].
           cbn in Ek. inversion Ek; subst x. split; [assumption|].
           intros i j Hi' Hj'. rewrite <- Hrv by assumption. cbn [map]. rewrite eprod_cons, eprod_nil. ring.
        -- inversion Hm; subst res. split.
           ++ rewrite shp_MHad. apply Forall_shape_all; [discriminate|]. rewrite <- Ek.
              apply Forall_app. split; [assumption | constructor; [assumption | constructor]].
           ++ intros i j Hi' Hj'. rewrite val_MHad. now apply Hrv.
      * cbn [bind fst snd] in Hm.
        assert (Hrv : forall i j,
                  eprod (map (fun e => val rho e i j) (h_keep st ++ [MDense m n v])) = val rho (MHad terms) i j).
        { intros i j. rewrite Hval. unfold hv, hst_diag, hst_dense. rewrite Ed, Ede. cbn [oval1].
          rewrite map_app, eprod_app. cbn [map]. rewrite eprod_cons, eprod_nil. ring. }
        destruct (h_keep st ++ [MDense m n v]) as [|x [|y l]] eqn:Ek.
        -- destruct (h_keep st); discriminate.
        -- inversion Hm; subst res. destruct (h_keep st) as [|k0 kr]; [|destruct kr; discriminate].
           cbn in Ek. inversion Ek; subst x. split; [assumption|].
           intros i j _ _. rewrite <- Hrv. cbn [map]. rewrite eprod_cons, eprod_nil. ring.
        -- inversion Hm; subst res. split.
           ++ rewrite shp_MHad. apply Forall_shape_all; [discriminate|]. rewrite <- Ek.
              apply Forall_app. split; [assumption | constructor; [assumption | constructor]].
           ++ intros i j _ _. rewrite val_MHad. apply Hrv.
    + cbn [bind fst snd] in Hm.
      destruct (h_diag st) as [d|] eqn:Ed.
      * pose proof (Hd d eq_refl) as Sd.
        assert (Hrv : forall i j,
                  eprod (map (fun e => val rho e i j) (h_keep st ++ [MDiag d])) = val rho (MHad terms) i j).
        { intros i j. rewrite Hval. unfold hv, hst_diag, hst_dense. rewrite Ed, Ede. cbn [oval1].
          rewrite map_app, eprod_app. cbn [map]. rewrite eprod_cons, eprod_nil. ring. }
        destruct (h_keep st ++ [MDiag d]) as [|x [|y l]] eqn:Ek.
        -- destruct (h_keep st); discriminate.
        -- inversion Hm; subst res. destruct (h_keep st) as [|k0 kr]; [|destruct kr; discriminate].
           cbn in Ek. inversion Ek; subst x. split; [assumption|].
           intros i j _ _. rewrite <- Hrv. cbn [map]. rewrite eprod_cons, eprod_nil. ring.
        -- inversion Hm; subst res. split.
           ++ rewrite shp_MHad. apply Forall_shape_all; [discriminate|]. rewrite <- Ek.
              apply Forall_app. split; [assumption | constructor; [assumption | constructor]].
           ++ intros i j _ _. rewrite val_MHad. apply Hrv.
      * assert (Hrv : forall i j,
                  eprod (map (fun e => val rho e i j) (h_keep st)) = val rho (MHad terms) i j).
        { intros i j. rewrite Hval. unfold hv, hst_diag, hst_dense. rewrite Ed, Ede. cbn [oval1]. ring. }
        destruct (h_keep st) as [|x [|y l]] eqn:Ek.
        -- exfalso. destruct Hnonempty as [H|[H|H]]; congruence.
        -- inversion Hm; subst res. inversion Hk; subst. split; [assumption|].
           intros i j _ _. rewrite <- Hrv. cbn [map]. rewrite eprod_cons, eprod_nil. ring.
        -- inversion Hm; subst res. split.
           ++ rewrite shp_MHad. apply Forall_shape_all; [discriminate | assumption].
           ++ intros i j _ _. rewrite val_MHad. apply Hrv.
Qed.
