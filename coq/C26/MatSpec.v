(* C26 -- specification side: the ring of entries, functional matrices, the denotation of a
   matrix expression under an environment (values of dimension symbols and of matrix symbols),
   the schoolbook properties the predicates talk about, well-formedness and the guards that
   name the defect classes found in the code. *)
From SE Require Export C26.MatModel.
From Coq Require Import Lia Ring.
Local Open Scope nat_scope.

(* ---------------------------------------------------------------- the ring of entries *)
Lemma ent_eq (a b : ent) : fst a = fst b -> snd a = snd b -> a = b.
Proof. destruct a, b; cbn; congruence. Qed.

Definition eopp (a : ent) : ent := (Qcopp (fst a), Qcopp (snd a)).
Definition eminus (a b : ent) : ent := eadd a (eopp b).

Lemma ent_ring_theory : ring_theory e0 e1 eadd emul eminus eopp eq.
Proof.
  constructor; intros; try reflexivity;
    repeat match goal with x : ent |- _ => destruct x end;
    apply ent_eq; cbn; unfold qc0, qc1; ring.
Qed.
Add Ring ent_ring : ent_ring_theory.

(* ---------------------------------------------------------------- functional matrices *)
Record mat := mkmat { mr : nat; mc : nat; mf : nat -> nat -> ent }.

Definition meq (A B : mat) : Prop :=
  mr A = mr B /\ mc A = mc B /\ forall i j, i < mr A -> j < mc A -> mf A i j = mf B i j.

Record env := { dimv : nat -> nat; matv : nat -> mat }.

Definition dval (rho : env) (d : dim) : nat :=
  match d with DInt n => n | DSym s => dimv rho s end.

Definition shape := (nat * nat)%type.
Definition shape_eqb (a b : shape) : bool := (fst a =? fst b) && (snd a =? snd b).

(* all operands of a sum / Hadamard product have the same shape *)
Fixpoint shape_all (l : list (option shape)) : option shape :=
  match l with
  | [] => None
  | [s] => s
  | s :: r =>
      match s, shape_all r with
      | Some a, Some b => if shape_eqb a b then Some a else None
      | _, _ => None
      end
  end.

(* the factors of a product chain *)
Fixpoint shape_chain (l : list (option shape)) : option shape :=
  match l with
  | [] => None
  | [s] => s
  | s :: r =>
      match s, shape_chain r with
      | Some a, Some b => if snd a =? fst b then Some (fst a, snd b) else None
      | _, _ => None
      end
  end.

Definition cols_of (s : option shape) : nat := match s with Some a => snd a | None => 0 end.

Definition delta (i j : nat) : ent := if i =? j then e1 else e0.
Definition esum_n (n : nat) (f : nat -> ent) : ent := esum (map f (seq 0 n)).
Definition eprod (l : list ent) : ent := fold_right emul e1 l.

Definition sval := (option shape * (nat -> nat -> ent))%type.

Fixpoint val_chain (l : list sval) : nat -> nat -> ent :=
  match l with
  | [] => fun _ _ => e0
  | [x] => snd x
  | x :: r => fun i j => esum_n (cols_of (fst x)) (fun k => emul (snd x i k) (val_chain r k j))
  end.

(* shape and entries of an expression; the entries are meaningful inside the shape *)
Fixpoint sem (rho : env) (e : mexpr) : sval :=
  match e with
  | MIdent n => (Some (dval rho n, dval rho n), delta)
  | MZero m n => (Some (dval rho m, dval rho n), fun _ _ => e0)
  | MSym x => (Some (mr (matv rho x), mc (matv rho x)), mf (matv rho x))
  | MDiag d => (Some (length d, length d), fun i j => if i =? j then nth i d e0 else e0)
  | MDense m n v => (if length v =? m * n then Some (m, n) else None, fun i j => nth (i * n + j) v e0)
  | MAdd ts =>
      let l := map (sem rho) ts in
      (shape_all (map fst l), fun i j => esum (map (fun x => snd x i j) l))
  | MHad fs =>
      let l := map (sem rho) fs in
      (shape_all (map fst l), fun i j => eprod (map (fun x => snd x i j) l))
  | MMul k fs =>
      let l := map (sem rho) fs in
      (shape_chain (map fst l), fun i j => emul k (val_chain l i j))
  | MConj a => (fst (sem rho a), fun i j => econj (snd (sem rho a) i j))
  | MTrans a => (match fst (sem rho a) with Some s => Some (snd s, fst s) | None => None end,
                 fun i j => snd (sem rho a) j i)
  end.

Definition shp rho e := fst (sem rho e).
Definition val rho e := snd (sem rho e).

(* the dense value of an expression: None when the operand sizes do not fit *)
Definition denote (rho : env) (e : mexpr) : option mat :=
  match shp rho e with
  | Some s => Some (mkmat (fst s) (snd s) (val rho e))
  | None => None
  end.

(* [a] denotes the same matrix as [b] whenever [b] denotes one *)
Definition same_value (rho : env) (a b : mexpr) : Prop :=
  forall V, denote rho b = Some V -> exists V', denote rho a = Some V' /\ meq V' V.

(* ---------------------------------------------------------------- the naive ("dense") computations *)
(* the recipe side of each operation is the corresponding node applied to the operands *)
Definition naive_mul (args : list marg) : mexpr :=
  MMul (fold_right (fun a k => match a with AScal q => emul q k | AMat _ => k end) e1 args)
       (flat_map (fun a => match a with AMat e => [e] | AScal _ => [] end) args).

(* ---------------------------------------------------------------- properties of a dense value *)
Definition P_zero (V : mat) := forall i j, i < mr V -> j < mc V -> mf V i j = e0.
Definition P_real (V : mat) := forall i j, i < mr V -> j < mc V -> snd (mf V i j) = qc0.
Definition P_square (V : mat) := mr V = mc V.
Definition P_diagonal (V : mat) :=
  mr V = mc V /\ forall i j, i < mr V -> j < mc V -> i <> j -> mf V i j = e0.
Definition P_symmetric (V : mat) :=
  mr V = mc V /\ forall i j, i < mr V -> j < mc V -> mf V i j = mf V j i.
Definition P_lower (V : mat) :=
  mr V = mc V /\ forall i j, i < mr V -> j < mc V -> i < j -> mf V i j = e0.
Definition P_upper (V : mat) :=
  mr V = mc V /\ forall i j, i < mr V -> j < mc V -> j < i -> mf V i j = e0.
Definition P_toeplitz (V : mat) :=
  forall i j, S i < mr V -> S j < mc V -> mf V i j = mf V (S i) (S j).
Definition trace_of (V : mat) : ent := esum_n (mr V) (fun i => mf V i i).

(* a predicate answer is sound for P when it is never contradicted by the dense value *)
Definition sound_answer (t : tri) (P : mat -> Prop) (rho : env) (e : mexpr) : Prop :=
  forall V, denote rho e = Some V -> (t = TT -> P V) /\ (t = TF -> ~ P V).

(* value of a trace result *)
Definition tval (rho : env) (t : texpr) (tr : mexpr -> option ent) : option ent :=
  fold_right (fun e acc => match tr e, acc with Some x, Some y => Some (eadd x y) | _, _ => None end)
             (Some (eadd (t_num t) (esum (map (fun s => e_of_nat (dimv rho s)) (t_dims t)))))
             (t_traces t).
Definition trace_den (rho : env) (e : mexpr) : option ent :=
  match denote rho e with
  | Some V => if mr V =? mc V then Some (trace_of V) else None
  | None => None
  end.

(* ---------------------------------------------------------------- well-formedness *)
(* the structural part of the constructors' is_canonical that every operation preserves *)
Definition concrete (e : mexpr) : bool := is_MDiag e || is_MDense e.
Definition count_concrete (l : list mexpr) : nat := length (filter concrete l).
Definition count_ident (l : list mexpr) : nat := length (filter is_MIdent l).

Definition trans_arg_ok (a : mexpr) : bool :=
  match a with MSym _ | MMul _ _ | MConj _ => true | _ => false end.

Fixpoint wf (e : mexpr) : bool :=
  match e with
  | MIdent _ | MZero _ _ | MSym _ => true
  | MDiag d => negb (length d =? 0)
  | MDense m n v => (1 <=? m) && (1 <=? n) && (length v =? m * n)
  | MAdd ts =>
      (2 <=? length ts) && forallb (fun t => negb (is_MZero t || is_MAdd t)) ts
      && (count_concrete ts <=? 1) && forallb wf ts
  | MMul _ fs =>
      (1 <=? length fs)
      && (forallb (fun t => negb (is_MZero t || is_MIdent t || is_MMul t)) fs
          || match fs with [MIdent _] => true | _ => false end)     (* scalar * I *)
      && forallb wf fs
  | MHad fs =>
      (2 <=? length fs) && forallb (fun t => negb (is_MZero t || is_MHad t)) fs
      && (count_concrete fs <=? 1) && (count_ident fs <=? 1) && forallb wf fs
  | MConj a => trans_arg_ok a && wf a
  | MTrans a => trans_arg_ok a && wf a
  end.

(* ---------------------------------------------------------------- guards (defect classes) *)
(* matrix_mul with a ZeroMatrix argument builds ZeroMatrix(rows of the first, columns of the last
   factor); when one of the two is unknown (a MatrixSymbol outermost) it returns the argument
   itself, whose shape is in general not the shape of the product *)
Definition outer_known (expanded : list mexpr) : bool :=
  match map size expanded with
  | [] => false
  | s :: r => match fst s, snd (last r s) with Some _, Some _ => true | _, _ => false end
  end.
Definition guard_mul_zero (args : list marg) : bool :=
  match first_zero_arg args with
  | Some _ => negb (outer_known (snd (expand_mul args e1 [])))
  | None => false
  end.

(* the empty identity matrix is (vacuously) a zero matrix *)
Definition empty_ident (rho : env) (e : mexpr) : bool :=
  match e with MIdent n => dval rho n =? 0 | _ => false end.

(* the complete class invariants (is_canonical of every constructor): NOT preserved by the
   folding rules (known finding C26/noncanonical-result) *)
Definition is_identity_dense_b (n : nat) (v : list ent) : bool := is_identity_dense n v.
Fixpoint canon (e : mexpr) : bool :=
  match e with
  | MIdent _ | MZero _ _ | MSym _ => true
  | MDiag d => negb (length d =? 0) && negb (is_zero_vec d) && negb (is_identity_vec d)
  | MDense m n v =>
      (1 <=? m) && (1 <=? n) && (length v =? m * n) && negb (is_zero_vec v)
      && negb ((m =? n) && is_identity_dense m v) && negb ((m =? n) && is_diagonal_dense m v)
  | MAdd ts =>
      (2 <=? length ts) && forallb (fun t => negb (is_MZero t || is_MAdd t)) ts
      && (count_concrete ts <=? 1) && forallb canon ts
  | MMul k fs =>
      (1 <=? length fs) && negb ((length fs =? 1) && e_eqb k e1)
      && (forallb (fun t => negb (is_MZero t || is_MIdent t || is_MMul t)) fs
          || match fs with [MIdent _] => true | _ => false end)
      && forallb canon fs
  | MHad fs =>
      (2 <=? length fs) && forallb (fun t => negb (is_MZero t || is_MHad t)) fs
      && (count_concrete fs <=? 1) && (count_ident fs <=? 1) && forallb canon fs
  | MConj a => match a with MSym _ | MMul _ _ => true | _ => false end && canon a
  | MTrans a => trans_arg_ok a && canon a
  end.
