(* C26 obligation: whenever matrix_mul returns an expression, it denotes
   (product of the scalar arguments) * (chain product of the matrix arguments), for all
   environments -- outside the one remaining defect class: a ZeroMatrix argument while an outer
   dimension of the product is unknown ([guard_mul_zero], see P_matrix_mul_zero_shape_refuted.v). *)
From SE Require Import C26.MatSpec C26.MatFinal.
Theorem C26_matrix_mul_sound_guarded :
  forall (rho : env) (args : list marg) (res : mexpr),
    matrix_mul args = Ok res -> guard_mul_zero args = false ->
    forall V, denote rho (naive_mul args) = Some V -> exists V', denote rho res = Some V' /\ meq V' V.
Proof. exact matrix_mul_sound_guarded. Qed.
Print Assumptions C26_matrix_mul_sound_guarded.
