(* C26 obligation: an answer of is_symmetric(e) is never contradicted by the dense value, for every
   well-formed expression (sums: one non-symmetric term among symmetric ones decides; Hadamard
   products: all factors symmetric). *)
From SE Require Import C26.MatSpec C26.MatPredSym.
Theorem C26_is_symmetric_sound :
  forall (rho : env) (e : mexpr) (t : tri) (V : mat),
    wf e = true -> is_symmetric e = Ok t -> denote rho e = Some V ->
    (t = TT -> P_symmetric V) /\ (t = TF -> ~ P_symmetric V).
Proof. intros rho e t V Hwf H. apply (is_symmetric_sound rho e Hwf t H). Qed.
Print Assumptions C26_is_symmetric_sound.
