(* C26 obligation: trace throws DomainError only for expressions whose value is not square. *)
From SE Require Import C26.MatSpec C26.MatTraceProofs.
Theorem C26_trace_error_sound :
  forall (rho : env) (e : mexpr) (s : shape),
    trace e = ErrExn EXN_DOMAIN -> shp rho e = Some s -> fst s <> snd s.
Proof. intros rho e s. apply trace_error_sound. Qed.
Print Assumptions C26_trace_error_sound.
