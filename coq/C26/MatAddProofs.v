(* C26 -- matrix_add preserves the value of the sum (matrix_add.cpp). *)
From SE Require Import C26.MatSpec C26.MatLemmas.
From Coq Require Import Lia Ring.
Local Open Scope nat_scope.
Local Open Scope res_scope.

(* ---------------------------------------------------------------- unfolding the denotation *)
Lemma shp_MAdd rho ts : shp rho (MAdd ts) = shape_all (map (shp rho) ts).
Proof. unfold shp. cbn [sem fst]. now rewrite map_map. Qed.
Lemma val_MAdd rho ts i j : val rho (MAdd ts) i j = esum (map (fun e => val rho e i j) ts).
Proof. unfold val. cbn [sem snd]. now rewrite map_map. Qed.
Lemma shp_MHad rho ts : shp rho (MHad ts) = shape_all (map (shp rho) ts).
Proof. unfold shp. cbn [sem fst]. now rewrite map_map. Qed.
Lemma val_MHad rho ts i j : val rho (MHad ts) i j = eprod (map (fun e => val rho e i j) ts).
Proof. unfold val. cbn [sem snd]. now rewrite map_map. Qed.
Lemma shp_MDiag rho d : shp rho (MDiag d) = Some (length d, length d).
Proof. reflexivity. Qed.
Lemma val_MDiag rho d i j : val rho (MDiag d) i j = if i =? j then nth i d e0 else e0.
Proof. reflexivity. Qed.
Lemma shp_MDense rho m n v : shp rho (MDense m n v) = if length v =? m * n then Some (m, n) else None.
Proof. reflexivity. Qed.
Lemma val_MDense rho m n v i j : val rho (MDense m n v) i j = nth (i * n + j) v e0.
Proof. reflexivity. Qed.
Lemma shp_MZero rho m n : shp rho (MZero m n) = Some (dval rho m, dval rho n).
Proof. reflexivity. Qed.
Lemma val_MZero rho m n i j : val rho (MZero m n) i j = e0.
Proof. reflexivity. Qed.
Lemma shp_MIdent rho n : shp rho (MIdent n) = Some (dval rho n, dval rho n).
Proof. reflexivity. Qed.
Lemma val_MIdent rho n i j : val rho (MIdent n) i j = delta i j.
Proof. reflexivity. Qed.

Lemma shp_MDense_Some rho m n v s :
  shp rho (MDense m n v) = Some s -> length v = m * n /\ s = (m, n).
Proof.
  rewrite shp_MDense. destruct (Nat.eqb_spec (length v) (m * n)); [|discriminate].
  intros H; inversion H; auto.
Qed.

Lemma Forall_shape_all rho (l : list mexpr) s :
  l <> [] -> Forall (fun e => shp rho e = Some s) l -> shape_all (map (shp rho) l) = Some s.
Proof.
  intros Hne H. apply shape_all_Some. split.
  - destruct l; [congruence | discriminate].
  - apply Forall_map. assumption.
Qed.

Lemma shape_all_Forall rho (l : list mexpr) s :
  shape_all (map (shp rho) l) = Some s -> l <> [] /\ Forall (fun e => shp rho e = Some s) l.
Proof.
  intros H. apply shape_all_Some in H. destruct H as [Hne H]. split.
  - destruct l; [cbn in Hne; congruence | discriminate].
  - now apply Forall_map in H.
Qed.

(* ---------------------------------------------------------------- flattening *)
Lemma flatten_add_val rho terms i j :
  esum (map (fun e => val rho e i j) (flatten_add terms)) = esum (map (fun e => val rho e i j) terms).
Proof.
  unfold flatten_add. induction terms as [|t r IH]; [reflexivity|].
  cbn [flat_map]. rewrite map_app, esum_app, IH. cbn [map]. rewrite esum_cons.
  f_equal. destruct t; try (cbn [map]; rewrite esum_cons, esum_nil; ring).
  now rewrite val_MAdd.
Qed.

Lemma flatten_add_shape rho terms s :
  Forall (fun e => shp rho e = Some s) terms -> Forall (fun e => shp rho e = Some s) (flatten_add terms).
Proof.
  unfold flatten_add. induction 1 as [|t r Ht Hr IH]; [constructor|].
  cbn [flat_map]. apply Forall_app. split; [|assumption].
  destruct t; try (constructor; [assumption | constructor]).
  rewrite shp_MAdd in Ht. apply shape_all_Forall in Ht. tauto.
Qed.

Lemma flatten_add_nonempty rho terms s :
  terms <> [] -> Forall (fun e => shp rho e = Some s) terms -> flatten_add terms <> [].
Proof.
  unfold flatten_add. destruct terms as [|t r]; [congruence|]. intros _ H. inversion H; subst.
  cbn [flat_map]. destruct t; try discriminate.
  rewrite shp_MAdd in H2. apply shape_all_Forall in H2. destruct H2 as [Hne _].
  destruct ts; [congruence | discriminate].
Qed.

(* ---------------------------------------------------------------- the loop *)
Definition oval rho (o : option mexpr) i j : ent :=
  match o with Some e => val rho e i j | None => e0 end.
Definition st_diag (st : add_state) : option mexpr :=
  match a_diag st with Some d => Some (MDiag d) | None => None end.
Definition st_dense (st : add_state) : option mexpr :=
  match a_dense st with Some (m, n, v) => Some (MDense m n v) | None => None end.
Definition sv rho (st : add_state) i j : ent :=
  eadd (esum (map (fun e => val rho e i j) (a_keep st)))
       (eadd (oval rho (st_diag st) i j) (oval rho (st_dense st) i j)).

Definition add_inv rho (s : shape) (p : list mexpr) (st : add_state) : Prop :=
  Forall (fun e => shp rho e = Some s) (a_keep st) /\
  (forall d, a_diag st = Some d -> shp rho (MDiag d) = Some s) /\
  (forall m n v, a_dense st = Some (m, n, v) -> shp rho (MDense m n v) = Some s) /\
  (forall zm zn, a_zero st = Some (zm, zn) -> shp rho (MZero zm zn) = Some s) /\
  (forall i j, sv rho st i j = esum (map (fun e => val rho e i j) p)) /\
  (p <> [] -> a_keep st <> [] \/ a_diag st <> None \/ a_dense st <> None \/ a_zero st <> None).

Lemma diag_merge_val rho f d0 d r i j :
  zipc f d0 d 0 = Ok r -> length d0 = length d -> f e0 e0 = e0 ->
  val rho (MDiag r) i j = f (val rho (MDiag d0) i j) (val rho (MDiag d) i j).
Proof.
  intros Hz L F0. apply zipc0_spec in Hz; [|assumption]. destruct Hz as [Lr Hn].
  rewrite !val_MDiag. destruct (i =? j); [|now rewrite F0].
  rewrite Hn. destruct (Nat.ltb_spec i (length d0)); [reflexivity|].
  rewrite !nth_overflow by lia. now rewrite F0.
Qed.

Lemma dense_merge_val rho f v v0 n r i j m0 :
  zipc f v v0 0 = Ok r -> length v = length v0 -> f e0 e0 = e0 ->
  val rho (MDense m0 n r) i j = f (val rho (MDense m0 n v) i j) (val rho (MDense m0 n v0) i j).
Proof.
  intros Hz L F0. apply zipc0_spec in Hz; [|assumption]. destruct Hz as [Lr Hn].
  rewrite !val_MDense, Hn. destruct (Nat.ltb_spec (i * n + j) (length v)); [reflexivity|].
  rewrite !nth_overflow by lia. now rewrite F0.
Qed.

Lemma add_step_inv rho s p st term st' :
  add_inv rho s p st -> shp rho term = Some s -> add_step st term = Ok st' ->
  add_inv rho s (p ++ [term]) st'.
Proof.
  intros (Hk & Hd & Hm & Hz & Hv & Hne) Hs Hstep.
  assert (Hval : forall i j, esum (map (fun e => val rho e i j) (p ++ [term]))
                             = eadd (esum (map (fun e => val rho e i j) p)) (val rho term i j)).
  { intros. rewrite map_app, esum_app. cbn [map]. rewrite esum_cons, esum_nil. ring. }
  assert (Hp : p ++ [term] <> []) by (destruct p; discriminate).
  unfold add_step in Hstep.
  destruct term; try (inversion Hstep; subst; clear Hstep;
    (split; [cbn [a_keep]; apply Forall_app; split; [assumption | constructor; [assumption | constructor]]|]);
    (split; [assumption|]); (split; [assumption|]); (split; [assumption|]);
    (split; [intros i j; rewrite Hval, <- Hv; unfold sv, st_diag, st_dense; cbn [a_keep a_diag a_dense];
             rewrite map_app, esum_app; cbn [map]; rewrite esum_cons, esum_nil; ring|]);
    intros _; left; cbn [a_keep]; destruct (a_keep st); discriminate).
  - (* MZero *)
    inversion Hstep; subst; clear Hstep.
    split; [assumption|]. split; [assumption|]. split; [assumption|].
    split; [cbn [a_zero]; intros zm zn E; inversion E; subst; assumption|].
    split.
    + intros i j. rewrite Hval, <- Hv, val_MZero. unfold sv, st_diag, st_dense. cbn [a_keep a_diag a_dense]. ring.
    + intros _. right. right. right. cbn [a_zero]. discriminate.
  - (* MDiag *)
    destruct (a_diag st) as [d0|] eqn:Ed.
    + destruct (zipc eadd d0 d 0) as [r| | |] eqn:Ez; cbn in Hstep; try discriminate.
      inversion Hstep; subst; clear Hstep.
      pose proof (Hd d0 eq_refl) as Hd0. rewrite shp_MDiag in Hd0, Hs.
      assert (L : length d0 = length d) by congruence.
      pose proof (zipc0_spec _ _ _ _ Ez L) as [Lr _].
      split; [assumption|].
      split; [cbn [a_diag]; intros d' E; inversion E; subst; rewrite shp_MDiag, Lr; assumption|].
      split; [assumption|]. split; [assumption|].
      split.
      * intros i j. rewrite Hval, <- Hv. unfold sv, st_diag, st_dense. cbn [a_keep a_diag a_dense].
        rewrite Ed. cbn [oval].
        rewrite (diag_merge_val rho eadd d0 d r i j Ez L) by ring. ring.
      * intros _. right. left. cbn [a_diag]. discriminate.
    + inversion Hstep; subst; clear Hstep.
      split; [assumption|].
      split; [cbn [a_diag]; intros d' E; inversion E; subst; assumption|].
      split; [assumption|]. split; [assumption|].
      split.
      * intros i j. rewrite Hval, <- Hv. unfold sv, st_diag, st_dense. cbn [a_keep a_diag a_dense].
        rewrite Ed. cbn [oval]. ring.
      * intros _. right. left. cbn [a_diag]. discriminate.
  - (* MDense *)
    destruct (a_dense st) as [[[m0 n0] v0]|] eqn:Ed.
    + destruct (zipc eadd v v0 0) as [r| | |] eqn:Ez; cbn in Hstep; try discriminate.
      inversion Hstep; subst; clear Hstep.
      pose proof (Hm m0 n0 v0 eq_refl) as Hd0.
      apply shp_MDense_Some in Hd0. destruct Hd0 as [L0 S0].
      apply shp_MDense_Some in Hs. destruct Hs as [L1 S1].
      assert (E : (m, n) = (m0, n0)) by congruence. inversion E; subst m0 n0; clear E.
      assert (L : length v = length v0) by congruence.
      pose proof (zipc0_spec _ _ _ _ Ez L) as [Lr _].
      split; [assumption|]. split; [assumption|].
      split; [cbn [a_dense]; intros m' n' v' E; inversion E; subst;
              rewrite shp_MDense; rewrite Lr, L1, Nat.eqb_refl; first [reflexivity | congruence]|].
      split; [assumption|].
      split.
      * intros i j. rewrite Hval, <- Hv. unfold sv, st_diag, st_dense. cbn [a_keep a_diag a_dense].
        rewrite Ed. cbn [oval].
        rewrite (dense_merge_val rho eadd v v0 n r i j m Ez L) by ring. ring.
      * intros _. right. right. left. cbn [a_dense]. discriminate.
    + inversion Hstep; subst; clear Hstep.
      split; [assumption|]. split; [assumption|].
      split; [cbn [a_dense]; intros m' n' v' E; inversion E; subst; assumption|].
      split; [assumption|].
      split.
      * intros i j. rewrite Hval, <- Hv. unfold sv, st_diag, st_dense. cbn [a_keep a_diag a_dense].
        rewrite Ed. cbn [oval]. ring.
      * intros _. right. right. left. cbn [a_dense]. discriminate.
Qed.

Lemma add_loop_inv rho s l st :
  Forall (fun e => shp rho e = Some s) l ->
  foldM add_step l {| a_keep := []; a_diag := None; a_dense := None; a_zero := None |} = Ok st ->
  add_inv rho s l st.
Proof.
  intros Hl Hf.
  change l with ([] ++ l).
  eapply (foldM_inv add_step (add_inv rho s)); [| exact Hf |].
  - unfold add_inv. cbn [a_keep a_diag a_dense a_zero].
    split; [constructor|]. split; [discriminate|]. split; [discriminate|]. split; [discriminate|].
    split; [intros; unfold sv, st_diag, st_dense; cbn [a_keep a_diag a_dense map oval]; rewrite !esum_nil; ring|].
    intros Hc; congruence.
  - intros p st0 x st1 HI Hin Hstep. eapply add_step_inv; eauto.
    rewrite Forall_forall in Hl. auto.
Qed.

(* ---------------------------------------------------------------- diagonal + dense *)
Lemma add_diag_dense_val rho d n v r i j :
  add_diag_dense d n n v = Ok r -> length d = n -> length v = n * n -> i < n -> j < n ->
  length r = n * n /\
  val rho (MDense n n r) i j = eadd (val rho (MDense n n v) i j) (val rho (MDiag d) i j).
Proof.
  intros H Ld Lv Hi Hj. unfold add_diag_dense in H.
  apply (tab2_spec _ _ _ _ e0) in H. destruct H as [Lr Hn]. split; [assumption|].
  specialize (Hn i j Hi Hj). rewrite !val_MDense, val_MDiag.
  unfold dget in Hn. destruct (i =? j) eqn:E.
  - rewrite rd_lt in Hn by nia. cbn [bind] in Hn. rewrite rd_lt in Hn by lia. cbn [bind] in Hn.
    injection Hn as Hx. rewrite <- Hx. reflexivity.
  - rewrite rd_lt in Hn by nia. injection Hn as Hx. rewrite <- Hx. ring.
Qed.

(* ---------------------------------------------------------------- the theorem *)
Theorem matrix_add_value rho terms res s :
  matrix_add terms = Ok res -> shp rho (MAdd terms) = Some s ->
  shp rho res = Some s /\
  forall i j, i < fst s -> j < snd s -> val rho res i j = val rho (MAdd terms) i j.
Proof.
  intros Hm Hs. rewrite shp_MAdd in Hs. apply shape_all_Forall in Hs. destruct Hs as [Hne Hall].
  unfold matrix_add in Hm.
  destruct terms as [|t0 [|t1 rest]]; [congruence | |].
  { inversion Hm; subst. inversion Hall; subst. split; [assumption|].
    intros. rewrite val_MAdd. cbn [map]. rewrite esum_cons, esum_nil. ring. }
  set (terms := t0 :: t1 :: rest) in *.
  destruct (check_matching_sizes (flatten_add terms)); cbn [bind] in Hm; try discriminate.
  destruct (foldM add_step (flatten_add terms) _) as [st| | |] eqn:Ef; cbn [bind] in Hm; try discriminate.
  pose proof (flatten_add_shape rho terms s Hall) as Hfl.
  pose proof (flatten_add_nonempty rho terms s Hne Hall) as Hfne.
  pose proof (add_loop_inv rho s _ st Hfl Ef) as (Hk & Hd & Hde & Hz & Hv & Hnonempty).
  specialize (Hnonempty Hfne).
  assert (Hval : forall i j, val rho (MAdd terms) i j = sv rho st i j).
  { intros. rewrite val_MAdd, Hv. symmetry. apply flatten_add_val. }
  (* the diagonal / dense combination *)
  destruct (a_diag st) as [d|] eqn:Ed.
  - pose proof (Hd d eq_refl) as Sd. rewrite shp_MDiag in Sd.
    destruct (a_dense st) as [[[m n] v]|] eqn:Ede.
    + pose proof (Hde m n v eq_refl) as Sde. apply shp_MDense_Some in Sde. destruct Sde as [Lv Sde].
      destruct (add_diag_dense d m n v) as [r| | |] eqn:Ea; cbn [bind] in Hm; try discriminate.
      assert (m = length d /\ n = length d) as [-> ->] by (split; congruence).
      set (n := length d) in *.
      assert (Hs' : s = (n, n)) by congruence.
      assert (Lr : length r = n * n).
      { unfold add_diag_dense in Ea. apply (tab2_spec _ _ _ _ e0) in Ea. tauto. }
      assert (Hres : shp rho (MDense n n r) = Some s).
      { rewrite shp_MDense, Lr, Nat.eqb_refl. congruence. }
      assert (Hrv : forall i j, i < fst s -> j < snd s ->
                esum (map (fun e => val rho e i j) (a_keep st ++ [MDense n n r])) = val rho (MAdd terms) i j).
      { intros i j Hi Hj. rewrite Hval. unfold sv, st_diag, st_dense. rewrite Ed, Ede. cbn [oval].
        rewrite map_app, esum_app. cbn [map]. rewrite esum_cons, esum_nil.
        rewrite Hs' in Hi, Hj. cbn in Hi, Hj.
        destruct (add_diag_dense_val rho d n v r i j Ea eq_refl Lv Hi Hj) as [_ ->]. ring. }
      cbn [bind fst snd] in Hm.
      destruct (a_keep st ++ [MDense n n r]) as [|x [|y l]] eqn:Ek.
      * destruct (a_keep st); discriminate.
      * inversion Hm; subst res. destruct (a_keep st) as [|k0 kr]; [|destruct kr; discriminate].
        cbn in Ek. inversion Ek; subst x. split; [assumption|].
        intros i j Hi Hj. rewrite <- Hrv by assumption. cbn [map]. rewrite esum_cons, esum_nil. ring.
      * inversion Hm; subst res. split.
        -- rewrite shp_MAdd. apply Forall_shape_all; [discriminate|]. rewrite <- Ek.
           apply Forall_app. split; [assumption | constructor; [assumption | constructor]].
        -- intros i j Hi Hj. rewrite val_MAdd. now apply Hrv.
    + cbn [bind fst snd] in Hm.
      assert (Hrv : forall i j,
                esum (map (fun e => val rho e i j) (a_keep st ++ [MDiag d])) = val rho (MAdd terms) i j).
      { intros i j. rewrite Hval. unfold sv, st_diag, st_dense. rewrite Ed, Ede. cbn [oval].
        rewrite map_app, esum_app. cbn [map]. rewrite esum_cons, esum_nil. ring. }
      destruct (a_keep st ++ [MDiag d]) as [|x [|y l]] eqn:Ek.
      * destruct (a_keep st); discriminate.
      * inversion Hm; subst res. destruct (a_keep st) as [|k0 kr]; [|destruct kr; discriminate].
        cbn in Ek. inversion Ek; subst x. split; [rewrite shp_MDiag; assumption|].
        intros i j Hi Hj. rewrite <- Hrv. cbn [map]. rewrite esum_cons, esum_nil. ring.
      * inversion Hm; subst res. split.
        -- rewrite shp_MAdd. apply Forall_shape_all; [discriminate|]. rewrite <- Ek.
           apply Forall_app. split; [assumption | constructor; [rewrite shp_MDiag; assumption | constructor]].
        -- intros i j Hi Hj. rewrite val_MAdd. apply Hrv.
  - cbn [bind fst snd] in Hm.
    destruct (a_dense st) as [[[m n] v]|] eqn:Ede.
    + pose proof (Hde m n v eq_refl) as Sde.
      assert (Hrv : forall i j,
                esum (map (fun e => val rho e i j) (a_keep st ++ [MDense m n v])) = val rho (MAdd terms) i j).
      { intros i j. rewrite Hval. unfold sv, st_diag, st_dense. rewrite Ed, Ede. cbn [oval].
        rewrite map_app, esum_app. cbn [map]. rewrite esum_cons, esum_nil. ring. }
      destruct (a_keep st ++ [MDense m n v]) as [|x [|y l]] eqn:Ek.
      * destruct (a_keep st); discriminate.
      * inversion Hm; subst res. destruct (a_keep st) as [|k0 kr]; [|destruct kr; discriminate].
        cbn in Ek. inversion Ek; subst x. split; [assumption|].
        intros i j Hi Hj. rewrite <- Hrv. cbn [map]. rewrite esum_cons, esum_nil. ring.
      * inversion Hm; subst res. split.
        -- rewrite shp_MAdd. apply Forall_shape_all; [discriminate|]. rewrite <- Ek.
           apply Forall_app. split; [assumption | constructor; [assumption | constructor]].
        -- intros i j Hi Hj. rewrite val_MAdd. apply Hrv.
    + assert (Hrv : forall i j,
                esum (map (fun e => val rho e i j) (a_keep st)) = val rho (MAdd terms) i j).
      { intros i j. rewrite Hval. unfold sv, st_diag, st_dense. rewrite Ed, Ede. cbn [oval]. ring. }
      destruct (a_keep st) as [|x [|y l]] eqn:Ek.
      * destruct (a_zero st) as [[zm zn]|] eqn:Ez.
        -- inversion Hm; subst res. split; [now apply Hz|].
           intros i j _ _. rewrite <- Hrv. reflexivity.
        -- exfalso. destruct Hnonempty as [H|[H|[H|H]]]; congruence.
      * inversion Hm; subst res. inversion Hk; subst. split; [assumption|].
        intros i j _ _. rewrite <- Hrv. cbn [map]. rewrite esum_cons, esum_nil. ring.
      * inversion Hm; subst res. split.
        -- rewrite shp_MAdd. apply Forall_shape_all; [discriminate | assumption].
        -- intros i j _ _. rewrite val_MAdd. apply Hrv.
Qed.
