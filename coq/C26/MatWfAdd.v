(* C26 -- well-formedness is preserved, part 1: the size check, and matrix_add.
   (wf = the structural part of the constructors' is_canonical; it is the hypothesis of the
   predicate theorems, so "every expression the API can build is wf" closes the statement.) *)
From SE Require Import C26.MatSpec C26.MatLemmas.
From Coq Require Import Lia.
Local Open Scope nat_scope.
Local Open Scope res_scope.

(* ---------------------------------------------------------------- check_matching_sizes *)
Lemma forM_Ok {A} (f : A -> res unit) l : forM_ f l = Ok tt <-> Forall (fun x => f x = Ok tt) l.
Proof.
  induction l as [|x l IH]; cbn [forM_].
  - split; [constructor | reflexivity].
  - destruct (f x) as [[]| | |] eqn:E; cbn [bind].
    + rewrite IH. split; [intros; constructor; assumption | intros H; now inversion H].
    + split; [discriminate | intros H; inversion H; congruence].
    + split; [discriminate | intros H; inversion H; congruence].
    + split; [discriminate | intros H; inversion H; congruence].
Qed.

Lemma removelast_app_cons {A} (l : list A) x r : removelast (l ++ x :: r) = l ++ removelast (x :: r).
Proof. apply removelast_app. discriminate. Qed.

Lemma in_removelast_mid {A} (l1 : list A) x l2 y l3 : In x (removelast (l1 ++ x :: l2 ++ y :: l3)).
Proof.
  rewrite removelast_app_cons. apply in_or_app. right.
  change (x :: l2 ++ y :: l3) with ((x :: l2) ++ y :: l3). rewrite removelast_app_cons. cbn. now left.
Qed.

Lemma in_tl_mid {A} (l1 : list A) x l2 y l3 : In y (tl (l1 ++ x :: l2 ++ y :: l3)).
Proof.
  destruct l1 as [|z l1]; cbn [app tl].
  - apply in_or_app. right. now left.
  - apply in_or_app. right. right. apply in_or_app. right. now left.
Qed.

Lemma map_removelast' {A B} (f : A -> B) l : map f (removelast l) = removelast (map f l).
Proof.
  induction l as [|x l IH]; [reflexivity|]. destruct l as [|y l]; [reflexivity|].
  change (removelast (x :: y :: l)) with (x :: removelast (y :: l)).
  change (map f (x :: removelast (y :: l))) with (f x :: map f (removelast (y :: l))).
  rewrite IH. reflexivity.
Qed.

Lemma map_tl' {A B} (f : A -> B) l : map f (tl l) = tl (map f l).
Proof. destruct l; reflexivity. Qed.

Lemma check_pairs vec :
  check_matching_sizes vec = Ok tt ->
  forall l1 x l2 y l3, vec = l1 ++ x :: l2 ++ y :: l3 -> size_pair_check (size x) (size y) = Ok tt.
Proof.
  unfold check_matching_sizes. intros H l1 x l2 y l3 ->.
  apply forM_Ok in H. rewrite Forall_forall in H.
  specialize (H (size x)). rewrite forM_Ok, Forall_forall in H. apply H.
  - rewrite <- map_removelast'. apply in_map. apply in_removelast_mid.
  - rewrite <- map_tl'. apply in_map. apply in_tl_mid.
Qed.

Lemma dim_pair_int a b : dim_pair_check (Some (DInt a)) (Some (DInt b)) = Ok tt -> a = b.
Proof.
  cbn [dim_pair_check dim_diff_zero]. unfold tri_of_bool.
  destruct (Nat.eqb_spec a b); [auto | cbn; discriminate].
Qed.

Lemma dense_pair_check m0 n0 v0 m n v :
  size_pair_check (size (MDense m0 n0 v0)) (size (MDense m n v)) = Ok tt -> m0 = m /\ n0 = n.
Proof.
  unfold size_pair_check. cbn [size fst snd].
  destruct (dim_pair_check (Some (DInt m0)) (Some (DInt m))) as [[]| | |] eqn:E; cbn [bind]; try discriminate.
  intros H. split; now apply dim_pair_int.
Qed.

(* ---------------------------------------------------------------- counting *)
Lemma count_concrete_app l1 l2 : count_concrete (l1 ++ l2) = count_concrete l1 + count_concrete l2.
Proof. unfold count_concrete. now rewrite filter_app, app_length. Qed.

Lemma count_concrete_none l : Forall (fun e => concrete e = false) l -> count_concrete l = 0.
Proof.
  unfold count_concrete. induction 1 as [|x l Hx _ IH]; [reflexivity|]. cbn [filter]. now rewrite Hx.
Qed.

Lemma count_ident_app l1 l2 : count_ident (l1 ++ l2) = count_ident l1 + count_ident l2.
Proof. unfold count_ident. now rewrite filter_app, app_length. Qed.

Lemma forallb_Forall {A} (f : A -> bool) l : forallb f l = true <-> Forall (fun x => f x = true) l.
Proof. rewrite forallb_forall, Forall_forall. reflexivity. Qed.

(* ---------------------------------------------------------------- matrix_add *)
Definition add_kept (e : mexpr) : Prop :=
  wf e = true /\ is_MZero e = false /\ is_MAdd e = false /\ concrete e = false.

Definition add_winv (p : list mexpr) (st : add_state) : Prop :=
  Forall add_kept (a_keep st) /\
  (forall d, a_diag st = Some d -> d <> []) /\
  (forall m n v, a_dense st = Some (m, n, v) ->
     1 <= m /\ 1 <= n /\ length v = m * n /\ exists v', In (MDense m n v') p) /\
  (p <> [] -> a_keep st <> [] \/ a_diag st <> None \/ a_dense st <> None \/ a_zero st <> None).

Lemma wf_MDense m n v : wf (MDense m n v) = true <-> 1 <= m /\ 1 <= n /\ length v = m * n.
Proof. cbn [wf]. rewrite !andb_true_iff, !Nat.leb_le, Nat.eqb_eq. tauto. Qed.

Lemma wf_MDiag d : wf (MDiag d) = true <-> d <> [].
Proof.
  cbn [wf]. rewrite negb_true_iff, Nat.eqb_neq. destruct d; cbn; split; intros; try congruence; try lia; discriminate.
Qed.

Lemma flatten_add_wf terms :
  Forall (fun e => wf e = true) terms ->
  Forall (fun e => wf e = true /\ is_MAdd e = false) (flatten_add terms).
Proof.
  unfold flatten_add. induction 1 as [|t r Ht _ IH]; [constructor|].
  cbn [flat_map]. apply Forall_app. split; [|assumption].
  destruct t; try (constructor; [split; [assumption | reflexivity] | constructor]).
  cbn [wf] in Ht. rewrite !andb_true_iff in Ht. destruct Ht as [[[_ Hk] _] Hw].
  rewrite forallb_forall in Hk, Hw. apply Forall_forall. intros x Hx. split; [auto|].
  specialize (Hk x Hx). apply negb_true_iff, orb_false_iff in Hk. tauto.
Qed.

Lemma add_loop_wf expanded :
  check_matching_sizes expanded = Ok tt ->
  forall rest p st st',
    p ++ rest = expanded -> add_winv p st ->
    Forall (fun e => wf e = true /\ is_MAdd e = false) rest ->
    foldM add_step rest st = Ok st' -> add_winv expanded st'.
Proof.
  intros Hchk. induction rest as [|x rest IH]; intros p st st' Hp HI Hr Hf; cbn [foldM] in Hf.
  - inversion Hf; subst. now rewrite app_nil_r.
  - destruct (add_step st x) as [st1| | |] eqn:Es; cbn [bind] in Hf; try discriminate.
    inversion Hr as [|? ? [Hwx Hax] Hr']; subst.
    apply (IH (p ++ [x]) st1 st'); [now rewrite <- app_assoc | | assumption | assumption].
    clear IH Hf. destruct HI as (Hk & Hd & Hde & Hne).
    assert (Hp' : p ++ [x] <> []) by (destruct p; discriminate).
    assert (Hmono : forall w, In w p -> In w (p ++ [x])) by (intros; apply in_or_app; now left).
    unfold add_step in Es.
    destruct x; try (inversion Es; subst; clear Es; cbn [a_keep a_diag a_dense a_zero];
      (split; [apply Forall_app; split; [assumption|]; constructor; [|constructor];
               unfold add_kept; repeat split; try assumption; reflexivity|]);
      (split; [assumption|]);
      (split; [intros m0 n0 v0 E; destruct (Hde m0 n0 v0 E) as (A & B & C & v' & D); eauto 10|]);
      intros _; left; destruct (a_keep st); discriminate).
    + (* MZero *)
      inversion Es; subst; clear Es. cbn [a_keep a_diag a_dense a_zero].
      split; [assumption|]. split; [assumption|].
      split; [intros m0 n0 v0 E; destruct (Hde m0 n0 v0 E) as (A & B & C & v' & D); eauto 10|].
      intros _. right. right. right. discriminate.
    + (* MDiag *)
      apply wf_MDiag in Hwx.
      destruct (a_diag st) as [d0|] eqn:Ed.
      * destruct (zipc eadd d0 d 0) as [s| | |] eqn:Ez; cbn [bind] in Es; try discriminate.
        inversion Es; subst; clear Es. cbn [a_keep a_diag a_dense a_zero].
        apply zipc_spec in Ez. destruct Ez as (Ls & _ & _).
        split; [assumption|].
        split; [intros d' E; inversion E; subst; pose proof (Hd d0 eq_refl); destruct d0; [congruence|]; destruct d'; [discriminate | discriminate]|].
        split; [intros m0 n0 v0 E; destruct (Hde m0 n0 v0 E) as (A & B & C & v' & D); eauto 10|].
        intros _. right. left. discriminate.
      * inversion Es; subst; clear Es. cbn [a_keep a_diag a_dense a_zero].
        split; [assumption|].
        split; [intros d' E; inversion E; subst; assumption|].
        split; [intros m0 n0 v0 E; destruct (Hde m0 n0 v0 E) as (A & B & C & v' & D); eauto 10|].
        intros _. right. left. discriminate.
    + (* MDense *)
      apply wf_MDense in Hwx. destruct Hwx as (Hm & Hn & Lv).
      destruct (a_dense st) as [[[m0 n0] v0]|] eqn:Ede.
      * destruct (zipc eadd v v0 0) as [s| | |] eqn:Ez; cbn [bind] in Es; try discriminate.
        inversion Es; subst; clear Es. cbn [a_keep a_diag a_dense a_zero].
        destruct (Hde m0 n0 v0 eq_refl) as (A & B & C & v' & D).
        apply in_split in D. destruct D as (l1 & l2 & ->).
        assert (Hpair : size_pair_check (size (MDense m0 n0 v')) (size (MDense m n v)) = Ok tt).
        { apply (check_pairs _ Hchk l1 (MDense m0 n0 v') l2 (MDense m n v) rest).
          rewrite <- app_assoc. reflexivity. }
        apply dense_pair_check in Hpair. destruct Hpair as [-> ->].
        apply zipc_spec in Ez. destruct Ez as (Ls & _ & _).
        split; [assumption|]. split; [assumption|].
        split.
        -- intros m1 n1 v1 E. inversion E; subst. repeat split; try assumption; try lia.
           exists v'. apply in_or_app. left. apply in_or_app. right. now left.
        -- intros _. right. right. left. discriminate.
      * inversion Es; subst; clear Es. cbn [a_keep a_diag a_dense a_zero].
        split; [assumption|]. split; [assumption|].
        split.
        -- intros m1 n1 v1 E. inversion E; subst. repeat split; try assumption.
           exists v1. apply in_or_app. right. now left.
        -- intros _. right. right. left. discriminate.
Qed.

Lemma add_kept_flags l :
  Forall add_kept l ->
  forallb (fun t => negb (is_MZero t || is_MAdd t)) l = true /\ forallb wf l = true /\
  Forall (fun e => concrete e = false) l.
Proof.
  intros H. rewrite !forallb_Forall. repeat split; eapply Forall_impl; try exact H;
    intros e (A & B & C & D); cbn beta; try assumption. now rewrite B, C.
Qed.

(* MatrixAdd(keep ++ tail) with at most one concrete operand, appended last *)
Lemma wf_MAdd_build keep tail :
  Forall add_kept keep ->
  (tail = [] \/ exists c, tail = [c] /\ wf c = true /\ is_MZero c = false /\ is_MAdd c = false) ->
  2 <= length (keep ++ tail) -> wf (MAdd (keep ++ tail)) = true.
Proof.
  intros Hk Ht Hl. destruct (add_kept_flags keep Hk) as (F1 & F2 & F3).
  cbn [wf]. rewrite !andb_true_iff. repeat split.
  - now apply Nat.leb_le.
  - rewrite forallb_app, F1. destruct Ht as [->|(c & -> & A & B & C)]; [reflexivity|].
    cbn [forallb]. now rewrite B, C.
  - apply Nat.leb_le. rewrite count_concrete_app, (count_concrete_none keep F3).
    destruct Ht as [->|(c & -> & _)]; [cbn; lia|]. unfold count_concrete. cbn [filter].
    destruct (concrete c); cbn; lia.
  - rewrite forallb_app, F2. destruct Ht as [->|(c & -> & A & _)]; [reflexivity|].
    cbn [forallb]. now rewrite A.
Qed.

Theorem matrix_add_wf terms res :
  Forall (fun e => wf e = true) terms -> matrix_add terms = Ok res -> wf res = true.
Proof.
  intros Hw Hm. unfold matrix_add in Hm.
  destruct terms as [|t0 [|t1 rest]]; [discriminate | inversion Hm; subst; now inversion Hw |].
  set (terms := t0 :: t1 :: rest) in *.
  destruct (check_matching_sizes (flatten_add terms)) as [[]| | |] eqn:Ec; cbn [bind] in Hm; try discriminate.
  destruct (foldM add_step (flatten_add terms) _) as [st| | |] eqn:Ef; cbn [bind] in Hm; try discriminate.
  pose proof (flatten_add_wf terms Hw) as Hfl.
  assert (Hne : flatten_add terms <> []).
  { unfold terms, flatten_add. cbn [flat_map]. inversion Hw as [|? ? Hw0 _]; subst.
    destruct t0; try discriminate. cbn [wf] in Hw0. rewrite !andb_true_iff in Hw0.
    destruct Hw0 as [[[Hl _] _] _]. apply Nat.leb_le in Hl. destruct ts; [cbn in Hl; lia | discriminate]. }
  assert (HI0 : add_winv [] {| a_keep := []; a_diag := None; a_dense := None; a_zero := None |}).
  { unfold add_winv. cbn [a_keep a_diag a_dense a_zero]. split; [constructor|].
    split; [discriminate|]. split; [discriminate|]. congruence. }
  pose proof (add_loop_wf _ Ec (flatten_add terms) [] _ st eq_refl HI0 Hfl Ef) as (Hk & Hd & Hde & Hnonempty).
  specialize (Hnonempty Hne).
  destruct (a_diag st) as [d|] eqn:Ed.
  - pose proof (Hd d eq_refl) as Hdne.
    destruct (a_dense st) as [[[m n] v]|] eqn:Ede.
    + destruct (Hde m n v eq_refl) as (A & B & C & _).
      destruct (add_diag_dense d m n v) as [s| | |] eqn:Ea; cbn [bind fst snd] in Hm; try discriminate.
      unfold add_diag_dense in Ea. apply (tab2_spec _ _ _ _ e0) in Ea. destruct Ea as [Ls _].
      assert (Hc : wf (MDense m n s) = true) by (apply wf_MDense; auto).
      destruct (a_keep st ++ [MDense m n s]) as [|x [|y l]] eqn:Ek.
      * destruct (a_keep st); discriminate.
      * inversion Hm; subst res. destruct (a_keep st) as [|k0 kr]; [|destruct kr; discriminate].
        cbn in Ek. inversion Ek; subst. exact Hc.
      * inversion Hm; subst res. rewrite <- Ek. apply wf_MAdd_build; [assumption | | rewrite Ek; cbn; lia].
        right. exists (MDense m n s). auto.
    + cbn [bind fst snd] in Hm.
      assert (Hc : wf (MDiag d) = true) by (now apply wf_MDiag).
      destruct (a_keep st ++ [MDiag d]) as [|x [|y l]] eqn:Ek.
      * destruct (a_keep st); discriminate.
      * inversion Hm; subst res. destruct (a_keep st) as [|k0 kr]; [|destruct kr; discriminate].
        cbn in Ek. inversion Ek; subst. exact Hc.
      * inversion Hm; subst res. rewrite <- Ek. apply wf_MAdd_build; [assumption | | rewrite Ek; cbn; lia].
        right. exists (MDiag d). auto.
  - cbn [bind fst snd] in Hm.
    destruct (a_dense st) as [[[m n] v]|] eqn:Ede.
    + destruct (Hde m n v eq_refl) as (A & B & C & _).
      assert (Hc : wf (MDense m n v) = true) by (apply wf_MDense; auto).
      destruct (a_keep st ++ [MDense m n v]) as [|x [|y l]] eqn:Ek.
      * destruct (a_keep st); discriminate.
      * inversion Hm; subst res. destruct (a_keep st) as [|k0 kr]; [|destruct kr; discriminate].
        cbn in Ek. inversion Ek; subst. exact Hc.
      * inversion Hm; subst res. rewrite <- Ek. apply wf_MAdd_build; [assumption | | rewrite Ek; cbn; lia].
        right. exists (MDense m n v). auto.
    + destruct (a_keep st) as [|x [|y l]] eqn:Ek.
      * destruct (a_zero st) as [[zm zn]|] eqn:Ez.
        -- inversion Hm; subst res. reflexivity.
        -- exfalso. destruct Hnonempty as [H|[H|[H|H]]]; congruence.
      * inversion Hm; subst res. inversion Hk as [|? ? (A & _) _]; subst. exact A.
      * inversion Hm; subst res. rewrite <- (app_nil_r (x :: y :: l)).
        apply wf_MAdd_build; [assumption | now left | cbn; lia].
Qed.
