(* C26 -- the property theorems in their final form: every operation of the matrix-expression
   layer returns an expression that denotes the dense computation on the operands' values, and
   every predicate / size / trace answer agrees with the dense value. *)
From SE Require Import C26.MatSpec C26.MatLemmas C26.MatAddProofs C26.MatHadProofs C26.MatUnaryProofs
  C26.MatPredBase C26.MatPredRules C26.MatPredSym C26.MatPredToep C26.MatMulAlg C26.MatMulProofs
  C26.MatTraceProofs.
From Coq Require Import Lia.
Local Open Scope nat_scope.

Lemma value_to_denote rho res e :
  (forall s, shp rho e = Some s ->
     shp rho res = Some s /\ forall i j, i < fst s -> j < snd s -> val rho res i j = val rho e i j) ->
  same_value rho res e.
Proof.
  intros H V HV. apply denote_Some in HV. destruct HV as (s & Hs & ->).
  destruct (H s Hs) as [A B]. exists (mkmat (fst s) (snd s) (val rho res)). split.
  - unfold denote. now rewrite A.
  - split; [reflexivity|]. split; [reflexivity|]. exact B.
Qed.

(* matrix_add({t1, ..., tn}) denotes t1 + ... + tn *)
Theorem matrix_add_sound rho terms res :
  matrix_add terms = Ok res -> same_value rho res (MAdd terms).
Proof. intros H. apply value_to_denote. intros s Hs. eapply matrix_add_value; eauto. Qed.

(* hadamard_product({f1, ..., fn}) denotes the entrywise product *)
Theorem hadamard_product_sound rho fs res :
  hadamard_product fs = Ok res -> same_value rho res (MHad fs).
Proof. intros H. apply value_to_denote. intros s Hs. eapply hadamard_value; eauto. Qed.

(* matrix_mul(args) denotes (product of the scalars) * (chain product of the matrices) *)
Theorem matrix_mul_sound_guarded rho args res :
  matrix_mul args = Ok res -> guard_mul_zero args = false -> same_value rho res (naive_mul args).
Proof. intros H G. apply value_to_denote. intros s Hs. eapply matrix_mul_value; eauto. Qed.

Definition mtranspose (V : mat) : mat := mkmat (mc V) (mr V) (fun i j => mf V j i).
Definition mconj (V : mat) : mat := mkmat (mr V) (mc V) (fun i j => econj (mf V i j)).

Theorem transpose_sound rho e r V :
  transpose e = Ok r -> denote rho e = Some V ->
  exists V', denote rho r = Some V' /\ meq V' (mtranspose V).
Proof.
  intros H HV. apply denote_Some in HV. destruct HV as (s & Hs & ->).
  destruct (transpose_value rho e r s H Hs) as [A B].
  exists (mkmat (snd s) (fst s) (val rho r)). split.
  - unfold denote. now rewrite A.
  - split; [reflexivity|]. split; [reflexivity|]. cbn [mr mc mf mtranspose]. exact B.
Qed.

Theorem conjugate_matrix_sound rho e r V :
  conjugate_matrix e = Ok r -> denote rho e = Some V ->
  exists V', denote rho r = Some V' /\ meq V' (mconj V).
Proof.
  intros H HV. apply denote_Some in HV. destruct HV as (s & Hs & ->).
  destruct (conjugate_value rho e r s H Hs) as [A B].
  exists (mkmat (fst s) (snd s) (val rho r)). split.
  - unfold denote. now rewrite A.
  - split; [reflexivity|]. split; [reflexivity|]. cbn [mr mc mf mconj]. intros i j _ _. apply B.
Qed.

(* a dimension reported by size() is the dimension of the dense value *)
Theorem size_sound_final rho e V :
  denote rho e = Some V ->
  (forall d, fst (size e) = Some d -> dval rho d = mr V) /\
  (forall d, snd (size e) = Some d -> dval rho d = mc V).
Proof.
  intros HV. apply denote_Some in HV. destruct HV as (s & Hs & ->). exact (size_sound rho e s Hs).
Qed.

(* the eight predicates *)
Theorem predicates_sound rho e :
  wf e = true ->
  (empty_ident rho e = false -> sound_answer (is_zero e) P_zero rho e) /\
  sound_answer (is_real e) P_real rho e /\
  sound_answer (is_square e) P_square rho e /\
  (forall t, is_diagonal e = Ok t -> sound_answer t P_diagonal rho e) /\
  (forall t, is_symmetric e = Ok t -> sound_answer t P_symmetric rho e) /\
  (forall t, is_lower e = Ok t -> sound_answer t P_lower rho e) /\
  (forall t, is_upper e = Ok t -> sound_answer t P_upper rho e) /\
  (forall t, is_toeplitz e = Ok t -> sound_answer t P_toeplitz rho e).
Proof.
  intros Hwf.
  split; [intros; now apply is_zero_sound|].
  split; [apply is_real_sound|].
  split; [apply is_square_sound|].
  split; [intros; now apply is_diagonal_sound|].
  split; [intros; now apply is_symmetric_sound|].
  split; [intros; now apply is_lower_sound|].
  split; [intros; now apply is_upper_sound|].
  intros; now apply is_toeplitz_sound.
Qed.
