(* C26 obligation: a dimension reported by size() (an Integer or a dimension symbol) is the
   dimension of the dense value, for every environment in which the expression denotes a matrix. *)
From SE Require Import C26.MatSpec C26.MatFinal.
Theorem C26_size_sound :
  forall (rho : env) (e : mexpr) (V : mat),
    denote rho e = Some V ->
    (forall d, fst (size e) = Some d -> dval rho d = mr V) /\
    (forall d, snd (size e) = Some d -> dval rho d = mc V).
Proof. exact size_sound_final. Qed.
Print Assumptions C26_size_sound.
