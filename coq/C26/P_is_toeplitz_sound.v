(* C26 obligation: an answer of is_toeplitz(e) (over MatrixAdd / HadamardProduct nodes and concrete
   leaves of any size) is never contradicted by the dense value, for every well-formed expression. *)
From SE Require Import C26.MatSpec C26.MatPredToep.
Theorem C26_is_toeplitz_sound :
  forall (rho : env) (e : mexpr) (t : tri) (V : mat),
    wf e = true -> is_toeplitz e = Ok t -> denote rho e = Some V ->
    (t = TT -> P_toeplitz V) /\ (t = TF -> ~ P_toeplitz V).
Proof. intros rho e t V Hwf H. apply (is_toeplitz_sound rho e t Hwf H). Qed.
Print Assumptions C26_is_toeplitz_sound.
