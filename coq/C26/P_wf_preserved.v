(* C26 obligation: each operation maps well-formed operands to a well-formed result. *)
From SE Require Import C26.MatSpec C26.MatWfAdd C26.MatWfOps.
Theorem C26_wf_preserved :
  (forall terms res, Forall (fun e => wf e = true) terms -> matrix_add terms = Ok res -> wf res = true) /\
  (forall fs res, Forall (fun e => wf e = true) fs -> hadamard_product fs = Ok res -> wf res = true) /\
  (forall args res, Forall (fun a => match a with AMat e => wf e = true | AScal _ => True end) args ->
                    matrix_mul args = Ok res -> wf res = true) /\
  (forall e r, wf e = true -> transpose e = Ok r -> wf r = true) /\
  (forall e r, wf e = true -> conjugate_matrix e = Ok r -> wf r = true).
Proof.
  split; [exact matrix_add_wf|]. split; [exact hadamard_product_wf|]. split; [exact matrix_mul_wf|].
  split; [intros e r H1 H2; exact (proj1 (transpose_wf e r H1 H2)) | intros e r H1 H2; exact (proj1 (conjugate_wf e r H1 H2))].
Qed.
Print Assumptions C26_wf_preserved.
