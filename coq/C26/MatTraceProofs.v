(* C26 -- trace is sound (trace.cpp): the value of the returned scalar (number + symbolic
   dimensions + unevaluated Trace(...) terms) is the trace of the dense value. *)
From SE Require Import C26.MatSpec C26.MatLemmas C26.MatAddProofs C26.MatPredBase C26.MatMulAlg.
From Coq Require Import Lia Ring.
Local Open Scope nat_scope.
Local Open Scope res_scope.

(* ---------------------------------------------------------------- the value of a trace result *)
Definition base_of rho (t : texpr) : ent :=
  eadd (t_num t) (esum (map (fun s => e_of_nat (dimv rho s)) (t_dims t))).

Lemma tval_fold (tr : mexpr -> option ent) c l r :
  fold_right (fun e acc => match tr e, acc with Some x, Some y => Some (eadd x y) | _, _ => None end) (Some c) l = Some r <->
  exists xs, Forall2 (fun e x => tr e = Some x) l xs /\ r = eadd (esum xs) c.
Proof.
  revert r. induction l as [|e l IH]; intros r; cbn [fold_right].
  - split.
    + intros H; inversion H; subst. exists []. split; [constructor|]. rewrite esum_nil. ring.
    + intros (xs & H & ->). inversion H; subst. rewrite esum_nil. f_equal. ring.
  - destruct (tr e) as [x|] eqn:Ex.
    + destruct (fold_right _ (Some c) l) as [y|] eqn:Ey.
      * split.
        -- intros H; inversion H; subst. destruct (proj1 (IH y) eq_refl) as (xs & Hxs & ->).
           exists (x :: xs). split; [constructor; assumption|]. rewrite esum_cons. ring.
        -- intros (xs & H & ->). inversion H; subst. rewrite Ex in H2. inversion H2; subst.
           assert (Some y = Some (eadd (esum l') c)) by (apply IH; eauto). inversion H0; subst.
           rewrite esum_cons. f_equal. ring.
      * split; [discriminate|]. intros (xs & H & ->). inversion H; subst.
        assert (None = Some (eadd (esum l') c)) by (apply IH; eauto). discriminate.
    + split; [discriminate|]. intros (xs & H & _). inversion H; subst. congruence.
Qed.

Lemma tval_spec rho t tr r :
  tval rho t tr = Some r <->
  exists xs, Forall2 (fun e x => tr e = Some x) (t_traces t) xs /\ r = eadd (esum xs) (base_of rho t).
Proof. unfold tval. apply tval_fold. Qed.

Lemma tval_of_num rho q tr : tval rho (t_of_num q) tr = Some q.
Proof.
  apply tval_spec. exists []. split; [constructor|]. unfold base_of. cbn [t_of_num t_num t_dims map].
  rewrite !esum_nil. ring.
Qed.

Lemma Forall2_app' {A B} (R : A -> B -> Prop) l1 l2 m1 m2 :
  Forall2 R l1 m1 -> Forall2 R l2 m2 -> Forall2 R (l1 ++ l2) (m1 ++ m2).
Proof. induction 1; cbn; [auto|]. intros. constructor; auto. Qed.

Lemma tval_t_add rho a b tr x y :
  tval rho a tr = Some x -> tval rho b tr = Some y -> tval rho (t_add a b) tr = Some (eadd x y).
Proof.
  rewrite !tval_spec. intros (xs & Hx & ->) (ys & Hy & ->).
  exists (xs ++ ys). split; [cbn [t_add t_traces]; now apply Forall2_app'|].
  unfold base_of. cbn [t_add t_num t_dims]. rewrite map_app, !esum_app. ring.
Qed.

Lemma tval_unevaluated rho e V :
  denote rho e = Some V -> mr V = mc V -> tval rho (t_unevaluated e) (trace_den rho) = Some (trace_of V).
Proof.
  intros HV Hsq. apply tval_spec. exists [trace_of V]. split.
  - cbn [t_unevaluated t_traces]. constructor; [|constructor].
    unfold trace_den. rewrite HV. apply Nat.eqb_eq in Hsq. now rewrite Hsq.
  - unfold base_of. cbn [t_unevaluated t_num t_dims map]. rewrite esum_cons, !esum_nil. ring.
Qed.

(* ---------------------------------------------------------------- numbers of the form n * 1 *)
Lemma e_of_nat_S n : e_of_nat (S n) = eadd (e_of_nat n) e1.
Proof.
  apply ent_eq; unfold e_of_nat, eadd, e1; cbn [fst snd]; [|unfold qc0; ring].
  unfold Qcplus, qc1. apply Q2Qc_eq_iff. cbn [this Q2Qc].
  rewrite !Qred_correct. rewrite Nat2Z.inj_succ. unfold Z.succ. rewrite inject_Z_plus. reflexivity.
Qed.

Lemma esum_n_ones n : esum_n n (fun _ => e1) = e_of_nat n.
Proof.
  induction n as [|n IH].
  - unfold esum_n. cbn [seq map]. rewrite esum_nil. reflexivity.
  - rewrite esum_n_S, IH. symmetry. apply e_of_nat_S.
Qed.

(* ---------------------------------------------------------------- the theorem *)
Lemma trace_of_mk r c f : trace_of (mkmat r c f) = esum_n r (fun i => f i i).
Proof. reflexivity. Qed.

Definition trace_ok rho (e : mexpr) : Prop :=
  forall t s, trace e = Ok t -> shp rho e = Some s -> fst s = snd s ->
    tval rho t (trace_den rho) = Some (esum_n (fst s) (fun i => val rho e i i)).

Lemma trace_fold rho s ts :
  fst s = snd s ->
  Forall (trace_ok rho) ts -> Forall (fun e => shp rho e = Some s) ts ->
  forall acc t a,
    foldM (fun acc t => do x <- trace t; Ok (t_add acc x)) ts acc = Ok t ->
    tval rho acc (trace_den rho) = Some a ->
    tval rho t (trace_den rho) = Some (eadd a (esum (map (fun e => esum_n (fst s) (fun i => val rho e i i)) ts))).
Proof.
  intros Hsq HI Hs. induction ts as [|x ts IH]; intros acc t a Hf Ha; cbn [foldM] in Hf.
  - inversion Hf; subst. cbn [map]. rewrite esum_nil, eadd_0_r. exact Ha.
  - destruct (trace x) as [tx| | |] eqn:Ex; cbn [bind] in Hf; try discriminate.
    inversion HI; subst. inversion Hs; subst.
    pose proof (H1 tx s Ex H3 Hsq) as Hx.
    rewrite (IH H2 H4 _ t _ Hf (tval_t_add rho acc tx _ _ _ Ha Hx)).
    cbn [map]. rewrite esum_cons. f_equal. ring.
Qed.

Theorem trace_sound_sem rho e : trace_ok rho e.
Proof.
  induction e as [n|m n|x|d|m n v|ts IH|k fs IH|fs IH|a IHa|a IHa] using mexpr_ind';
    intros t s Ht Hs Hsq; cbn [trace] in Ht.
  - (* identity *)
    rewrite shp_MIdent in Hs. inversion Hs; subst s. cbn [fst snd] in *.
    assert (Hv : esum_n (dval rho n) (fun i => val rho (MIdent n) i i) = e_of_nat (dval rho n)).
    { rewrite <- esum_n_ones. apply esum_n_ext. intros i _. rewrite val_MIdent. unfold delta. now rewrite Nat.eqb_refl. }
    rewrite Hv. destruct n as [k|sy]; inversion Ht; subst t.
    + apply tval_of_num.
    + apply tval_spec. exists []. split; [constructor|]. unfold base_of. cbn [t_num t_dims map dval].
      rewrite esum_cons, !esum_nil. ring.
  - (* zero *)
    rewrite shp_MZero in Hs. inversion Hs; subst s. cbn [fst snd] in *.
    assert (Hv : esum_n (dval rho m) (fun i => val rho (MZero m n) i i) = e0) by apply esum_n_zero.
    destruct (dim_diff_zero m n) eqn:E; try discriminate; inversion Ht; subst t.
    + rewrite Hv. apply tval_of_num.
    + rewrite <- (trace_of_mk (dval rho m) (dval rho n) (val rho (MZero m n))).
      apply tval_unevaluated; [reflexivity | exact Hsq].
  - (* symbol *)
    inversion Ht; subst t. destruct s as [r c]. cbn [fst snd] in *. subst c.
    rewrite <- (trace_of_mk r r (val rho (MSym x))). apply tval_unevaluated; [|reflexivity].
    unfold denote. rewrite Hs. reflexivity.
  - (* diagonal *)
    inversion Ht; subst t. rewrite shp_MDiag in Hs. inversion Hs; subst s. cbn [fst snd] in *.
    rewrite tval_of_num. f_equal. rewrite esum_as_esum_n. apply esum_n_ext. intros i _.
    now rewrite val_MDiag, Nat.eqb_refl.
  - (* dense *)
    apply shp_MDense_Some in Hs. destruct Hs as [Lv ->]. cbn [fst snd] in *. subst n.
    rewrite Nat.eqb_refl in Ht. cbn [negb] in Ht.
    destruct (mapM (fun i => dget m v i i) (seq 0 m)) as [dg| | |] eqn:E; cbn [bind] in Ht; try discriminate.
    inversion Ht; subst t. rewrite tval_of_num. f_equal. rewrite esum_as_esum_n.
    pose proof (mapM_length _ _ _ E) as Ldg. rewrite seq_length in Ldg. rewrite Ldg.
    apply esum_n_ext. intros i Hi. rewrite val_MDense.
    pose proof (mapM_nth _ _ _ 0 e0 i E) as Hn. rewrite seq_length in Hn. specialize (Hn Hi).
    rewrite seq_nth in Hn by assumption. rewrite Nat.add_0_l in Hn. unfold dget in Hn.
    apply rd_nth in Hn. destruct Hn as [_ Hn]. now symmetry.
  - (* MatrixAdd *)
    rewrite shp_MAdd in Hs. apply shape_all_Forall in Hs. destruct Hs as [_ Hall].
    rewrite (trace_fold rho s ts Hsq IH Hall _ t e0 Ht (tval_of_num rho e0 _)).
    f_equal. rewrite eadd_0_l.
    (* swap the two sums *)
    rewrite (esum_n_ext _ _ (fun i => esum (map (fun e => val rho e i i) ts))) by (intros; apply val_MAdd).
    unfold esum_n. symmetry. apply esum_map_swap.
  - inversion Ht; subst t. destruct s as [r c]. cbn [fst snd] in *. subst c.
    rewrite <- (trace_of_mk r r (val rho (MMul k fs))). apply tval_unevaluated; [|reflexivity].
    unfold denote. rewrite Hs. reflexivity.
  - inversion Ht; subst t. destruct s as [r c]. cbn [fst snd] in *. subst c.
    rewrite <- (trace_of_mk r r (val rho (MHad fs))). apply tval_unevaluated; [|reflexivity].
    unfold denote. rewrite Hs. reflexivity.
  - inversion Ht; subst t. destruct s as [r c]. cbn [fst snd] in *. subst c.
    rewrite <- (trace_of_mk r r (val rho (MConj a))). apply tval_unevaluated; [|reflexivity].
    unfold denote. rewrite Hs. reflexivity.
  - inversion Ht; subst t. destruct s as [r c]. cbn [fst snd] in *. subst c.
    rewrite <- (trace_of_mk r r (val rho (MTrans a))). apply tval_unevaluated; [|reflexivity].
    unfold denote. rewrite Hs. reflexivity.
Qed.

Theorem trace_sound rho e t V :
  trace e = Ok t -> denote rho e = Some V -> mr V = mc V ->
  tval rho t (trace_den rho) = Some (trace_of V).
Proof.
  intros Ht HV Hsq. apply denote_Some in HV. destruct HV as (s & Hs & ->). cbn [mr mc] in Hsq.
  rewrite trace_of_mk. now apply trace_sound_sem.
Qed.

Lemma mapM_dget_noexn n v l c : mapM (fun i => dget n v i i) l <> ErrExn c.
Proof.
  induction l as [|x l IH]; cbn [mapM]; [discriminate|].
  unfold dget at 1, rd. destruct (nth_error v (x * n + x)); cbn [bind oob]; [|discriminate].
  destruct (mapM (fun i => dget n v i i) l); cbn [bind]; congruence.
Qed.

(* a DomainError of trace means that the value is not square *)
Theorem trace_error_sound rho e : forall s,
  trace e = ErrExn EXN_DOMAIN -> shp rho e = Some s -> fst s <> snd s.
Proof.
  induction e as [n|m n|x|d|m n v|ts IH|k fs IH|fs IH|a IHa|a IHa] using mexpr_ind';
    intros s Ht Hs; cbn [trace] in Ht; try discriminate.
  - destruct n; discriminate.
  - rewrite shp_MZero in Hs. inversion Hs; subst s. cbn [fst snd].
    destruct (dim_diff_zero m n) eqn:E; try discriminate. now apply dim_diff_zero_TF.
  - apply shp_MDense_Some in Hs. destruct Hs as [_ ->]. cbn [fst snd].
    destruct (Nat.eqb_spec m n); [|assumption]. cbn [negb] in Ht.
    destruct (mapM (fun i => dget n v i i) (seq 0 m)) eqn:E; cbn [bind] in Ht; try discriminate.
    exfalso. eapply mapM_dget_noexn; eauto.
  - rewrite shp_MAdd in Hs. apply shape_all_Forall in Hs. destruct Hs as [_ Hall].
    revert Ht. generalize (t_of_num e0). induction ts as [|x ts IHts]; intros acc Ht; cbn [foldM] in Ht; [discriminate|].
    inversion IH; subst. inversion Hall; subst.
    destruct (trace x) as [tx| | |] eqn:Ex; cbn [bind] in Ht; try discriminate.
    + eapply IHts; eauto.
    + inversion Ht; subst. now apply H1.
Qed.
