(* C26 obligation: conjugate_matrix(e) denotes the entrywise complex conjugate of the value of e. *)
From SE Require Import C26.MatSpec C26.MatFinal.
Theorem C26_conjugate_matrix_sound :
  forall (rho : env) (e r : mexpr) (V : mat),
    conjugate_matrix e = Ok r -> denote rho e = Some V ->
    exists V', denote rho r = Some V' /\ meq V' (mkmat (mr V) (mc V) (fun i j => econj (mf V i j))).
Proof. exact conjugate_matrix_sound. Qed.
Print Assumptions C26_conjugate_matrix_sound.
