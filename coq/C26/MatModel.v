(* C26 -- executable model of the matrix-expression layer of SymEngine
   (symengine/matrices/*.cpp): the factories identity_matrix / zero_matrix / diagonal_matrix /
   immutable_dense_matrix / matrix_symbol, the merge rules of matrix_add, matrix_mul and
   hadamard_product, the visitors transpose, conjugate_matrix, trace, size and the tribool
   predicates is_zero / is_diagonal / is_symmetric / is_lower / is_upper / is_real / is_square /
   is_toeplitz (called without assumptions).
   Transcription conventions: DESIGN.md appendix B.1.  The model is of the code that exists:
   - entries of concrete leaves are exact numbers Integer / Rational / Complex: Gaussian
     rationals [ent] = (re, im) over canonical rationals [Qc]; add / mul / sub / conjugate /
     is_zero / is_real on them are exact;
   - a dimension of IdentityMatrix / ZeroMatrix is a non-negative Integer or a Symbol ([dim]);
     a MatrixSymbol has no known size (size() returns null RCPs: [None]);
   - std::vector accesses are checked ([ErrOOB]; the library is built with
     -D_GLIBCXX_ASSERTIONS and aborts on the same access); exceptions are [ErrExn];
   - SYMENGINE_ASSERT (is_canonical in the constructors) is compiled out in the release build, so
     results are built exactly as the C++ builds them (make_rcp), canonical or not;
   - branches that look wrong are transcribed as they are (the guards naming the defect classes
     are in MatSpec.v).
   The model follows the library after the repairs 2bc9483 (is_toeplitz bounds), 12652ef
   (check_matching_sizes null column count), 7b2e06b (is_symmetric of a HadamardProduct),
   e8e9441 (scalar * identity) and 0614fb6 (shape of a product with a ZeroMatrix factor). *)
From SE Require Export Base.Prelude.
From Coq Require Export QArith Qcanon.
From Coq Require Export PeanoNat.
Local Open Scope nat_scope.
Local Open Scope res_scope.

Definition EXN_NULL : N := 90.      (* null RCP dereference (SIGSEGV); not produced any more *)
Definition EXN_PRECOND : N := 97.   (* factory called outside the modelled fragment *)

Definition oob {A} (i len : nat) : res A := ErrOOB (N.of_nat i) (N.of_nat len).

(* v[i] *)
Definition rd {A} (l : list A) (i : nat) : res A :=
  match nth_error l i with
  | Some x => Ok x
  | None => oob i (length l)
  end.

Definition mapM {A B} (f : A -> res B) : list A -> res (list B) :=
  fix go (l : list A) : res (list B) :=
    match l with
    | [] => Ok []
    | x :: r => do y <- f x; do ys <- go r; Ok (y :: ys)
    end.

(* for (i = 0; i < m; i++) for (j = 0; j < n; j++) push_back(f i j)   (row-major) *)
Definition tab2 {B} (m n : nat) (f : nat -> nat -> res B) : res (list B) :=
  mapM (fun ij => f (fst ij) (snd ij)) (list_prod (seq 0 m) (seq 0 n)).

(* ---------------------------------------------------------------- entries *)
Definition ent := (Qc * Qc)%type.

Definition qc_eqb (a b : Qc) : bool := Qeq_bool (this a) (this b).
Definition qc0 : Qc := Q2Qc 0.
Definition qc1 : Qc := Q2Qc 1.
Definition e0 : ent := (qc0, qc0).
Definition e1 : ent := (qc1, qc0).
Definition em1 : ent := (Qcopp qc1, qc0).
Definition eadd (a b : ent) : ent := (Qcplus (fst a) (fst b), Qcplus (snd a) (snd b)).
Definition emul (a b : ent) : ent :=
  (Qcminus (Qcmult (fst a) (fst b)) (Qcmult (snd a) (snd b)),
   Qcplus (Qcmult (fst a) (snd b)) (Qcmult (snd a) (fst b))).
(* sub(a, b) = add(a, mul(minus_one, b)) *)
Definition esub (a b : ent) : ent := eadd a (emul em1 b).
Definition econj (a : ent) : ent := (fst a, Qcopp (snd a)).
Definition e_eqb (a b : ent) : bool := qc_eqb (fst a) (fst b) && qc_eqb (snd a) (snd b).
Definition e_is_zero (a : ent) : bool := e_eqb a e0.
Definition e_is_one (a : ent) : bool := e_eqb a e1.
Definition e_is_real (a : ent) : bool := qc_eqb (snd a) qc0.
Definition e_of_nat (n : nat) : ent := (Q2Qc (inject_Z (Z.of_nat n)), qc0).
(* add(vec_basic) *)
Definition esum (l : list ent) : ent := fold_right eadd e0 l.

(* ---------------------------------------------------------------- tribool *)
Inductive tri := TT | TF | TI.
Definition is_true (t : tri) : bool := match t with TT => true | _ => false end.
Definition is_false (t : tri) : bool := match t with TF => true | _ => false end.
Definition is_indet (t : tri) : bool := match t with TI => true | _ => false end.
Definition tri_of_bool (b : bool) : tri := if b then TT else TF.
(* and_tribool: false if either is false, else true only if both are *)
Definition and_tri (a b : tri) : tri :=
  match a, b with
  | TF, _ | _, TF => TF
  | TT, TT => TT
  | _, _ => TI
  end.
(* andwk_tribool: weak Kleene *)
Definition andwk_tri (a b : tri) : tri :=
  match a, b with
  | TI, _ | _, TI => TI
  | TT, TT => TT
  | _, _ => TF
  end.

(* a loop `for x in l { cur = f x cur; if (is_false(cur)) return; }` *)
Definition loop_tri {A} (f : A -> tri -> res tri) : list A -> tri -> res tri :=
  fix go (l : list A) (cur : tri) : res tri :=
    match l with
    | [] => Ok cur
    | x :: r => do c <- f x cur; if is_false c then Ok c else go r c
    end.

(* ---------------------------------------------------------------- dimensions *)
Inductive dim := DInt (n : nat) | DSym (s : nat).
Definition osize := (option dim * option dim)%type.

Definition dim_is_int (d : dim) : bool := match d with DInt _ => true | _ => false end.
(* is_zero( *sub(a, b)) for two dimensions: exact on Integers, n - n = 0, otherwise unknown *)
Definition dim_diff_zero (a b : dim) : tri :=
  match a, b with
  | DInt x, DInt y => tri_of_bool (x =? y)
  | DSym s, DSym t => if s =? t then TT else TI
  | _, _ => TI
  end.

(* ---------------------------------------------------------------- expressions *)
Inductive mexpr :=
| MIdent (n : dim)
| MZero (m n : dim)
| MSym (x : nat)
| MDiag (d : list ent)
| MDense (m n : nat) (v : list ent)        (* row-major *)
| MAdd (ts : list mexpr)
| MMul (k : ent) (fs : list mexpr)
| MHad (fs : list mexpr)
| MConj (a : mexpr)
| MTrans (a : mexpr).

Definition is_MIdent e := match e with MIdent _ => true | _ => false end.
Definition is_MZero e := match e with MZero _ _ => true | _ => false end.
Definition is_MDiag e := match e with MDiag _ => true | _ => false end.
Definition is_MDense e := match e with MDense _ _ _ => true | _ => false end.
Definition is_MAdd e := match e with MAdd _ => true | _ => false end.
Definition is_MMul e := match e with MMul _ _ => true | _ => false end.
Definition is_MHad e := match e with MHad _ => true | _ => false end.

(* ---------------------------------------------------------------- size.cpp *)
Definition both_int (s : osize) : bool :=
  match s with (Some r, Some c) => dim_is_int r && dim_is_int c | _ => false end.

(* the update `if ((!n.is_null() && is_a<Integer>( *n)) || (cur.is_null() && !n.is_null())) cur = n` *)
Definition upd_dim (cur nw : option dim) : option dim :=
  match nw with
  | Some d => if dim_is_int d then nw else match cur with None => nw | Some _ => cur end
  | None => cur
  end.

Fixpoint all_same_rest (rest : list osize) (cur : osize) : osize :=
  match rest with
  | [] => cur
  | s :: r =>
      let cur' := (upd_dim (fst cur) (fst s), upd_dim (snd cur) (snd s)) in
      if both_int cur' then cur' else all_same_rest r cur'
  end.

Definition all_same_size (sizes : list osize) : osize :=
  match sizes with
  | [] => (None, None)                      (* vec[0] of an empty vector: excluded by wf *)
  | s :: r => if both_int s then s else all_same_rest r s
  end.

Fixpoint size (e : mexpr) : osize :=
  match e with
  | MIdent n => (Some n, Some n)
  | MZero m n => (Some m, Some n)
  | MSym _ => (None, None)
  | MDiag d => (Some (DInt (length d)), Some (DInt (length d)))
  | MDense m n _ => (Some (DInt m), Some (DInt n))
  | MAdd ts => all_same_size (map size ts)
  | MHad fs => all_same_size (map size fs)
  | MMul _ fs =>
      match map size fs with
      | [] => (None, None)                  (* excluded by wf *)
      | s :: r => (fst s, snd (last r s))
      end
  | MConj _ | MTrans _ => (None, None)      (* bvisit(const Basic &) *)
  end.

(* ---------------------------------------------------------------- matrix_add.cpp *)
(* body of the inner loop of check_matching_sizes: rows and columns are compared independently,
   each only when both operands know it *)
Definition dim_pair_check (a b : option dim) : res unit :=
  match a, b with
  | Some x, Some y => if is_false (dim_diff_zero x y) then ErrExn EXN_DOMAIN else Ok tt
  | _, _ => Ok tt
  end.

Definition size_pair_check (fs ss : osize) : res unit :=
  do _ <- dim_pair_check (fst fs) (fst ss);
  dim_pair_check (snd fs) (snd ss).

Definition forM_ {A} (f : A -> res unit) : list A -> res unit :=
  fix go (l : list A) : res unit :=
    match l with
    | [] => Ok tt
    | x :: r => do _ <- f x; go r
    end.

(* for (i = 0; i < vec.size() - 1; i++) for (j = 1; j < vec.size(); j++) ... *)
Definition check_matching_sizes (vec : list mexpr) : res unit :=
  let sizes := map size vec in
  forM_ (fun fs => forM_ (fun ss => size_pair_check fs ss) (tl sizes)) (removelast sizes).

(* element-wise combination `for (i = 0; i < a.size(); i++) out[i] = f(a[i], b[i])` *)
Fixpoint zipc (f : ent -> ent -> ent) (a b : list ent) (i : nat) : res (list ent) :=
  match a with
  | [] => Ok []
  | x :: a' => do y <- rd b i; do r <- zipc f a' b (S i); Ok (f x y :: r)
  end.

Definition flatten_add (terms : list mexpr) : list mexpr :=
  flat_map (fun t => match t with MAdd ts => ts | _ => [t] end) terms.

Record add_state := {
  a_keep : list mexpr;
  a_diag : option (list ent);
  a_dense : option (nat * nat * list ent);
  a_zero : option (dim * dim) }.

Definition add_step (st : add_state) (term : mexpr) : res add_state :=
  match term with
  | MZero m n => Ok {| a_keep := a_keep st; a_diag := a_diag st; a_dense := a_dense st; a_zero := Some (m, n) |}
  | MDiag d =>
      match a_diag st with
      | None => Ok {| a_keep := a_keep st; a_diag := Some d; a_dense := a_dense st; a_zero := a_zero st |}
      | Some d0 =>
          do s <- zipc eadd d0 d 0;
          Ok {| a_keep := a_keep st; a_diag := Some s; a_dense := a_dense st; a_zero := a_zero st |}
      end
  | MDense m n v =>
      match a_dense st with
      | None => Ok {| a_keep := a_keep st; a_diag := a_diag st; a_dense := Some (m, n, v); a_zero := a_zero st |}
      | Some (m0, n0, v0) =>
          (* sum[i] = add(vec1[i], vec2[i]) with vec1 the new term, vec2 the accumulated one *)
          do s <- zipc eadd v v0 0;
          Ok {| a_keep := a_keep st; a_diag := a_diag st; a_dense := Some (m0, n0, s); a_zero := a_zero st |}
      end
  | _ => Ok {| a_keep := a_keep st ++ [term]; a_diag := a_diag st; a_dense := a_dense st; a_zero := a_zero st |}
  end.

Definition foldM {A S} (f : S -> A -> res S) : list A -> S -> res S :=
  fix go (l : list A) (s : S) : res S :=
    match l with
    | [] => Ok s
    | x :: r => do s' <- f s x; go r s'
    end.

(* dense->get(i, j) *)
Definition dget (n : nat) (v : list ent) (i j : nat) : res ent := rd v (i * n + j).

Definition add_diag_dense (d : list ent) (m n : nat) (v : list ent) : res (list ent) :=
  tab2 m n (fun i j =>
    if i =? j then do x <- dget n v i j; do y <- rd d i; Ok (eadd x y)
    else dget n v i j).

Definition matrix_add (terms : list mexpr) : res mexpr :=
  match terms with
  | [] => ErrExn EXN_DOMAIN
  | [t] => Ok t
  | _ =>
      let expanded := flatten_add terms in
      do _ <- check_matching_sizes expanded;
      do st <- foldM add_step expanded {| a_keep := []; a_diag := None; a_dense := None; a_zero := None |};
      do kd <-
        match a_diag st with
        | Some d =>
            match a_dense st with
            | Some (m, n, v) => do s <- add_diag_dense d m n v; Ok (a_keep st, Some (m, n, s))
            | None => Ok (a_keep st ++ [MDiag d], None)
            end
        | None => Ok (a_keep st, a_dense st)
        end;
      let keep := match snd kd with Some (m, n, v) => fst kd ++ [MDense m n v] | None => fst kd end in
      match keep, a_zero st with
      | [x], _ => Ok x
      | [], Some (zm, zn) => Ok (MZero zm zn)
      | _, _ => Ok (MAdd keep)
      end
  end.

(* ---------------------------------------------------------------- matrix_mul.cpp *)
Inductive marg := AScal (k : ent) | AMat (e : mexpr).

(* the four folding helpers throw DomainError when their operands do not fit (adjacent factors are the only ones
   check_matching_mul_sizes compares; a dropped identity matrix of symbolic size can hide a mismatch) *)
Definition mul_diag_diag (a b : list ent) : res (list ent) :=
  if negb (Nat.eqb (length a) (length b)) then ErrExn EXN_DOMAIN else zipc emul a b 0.

Definition mul_dense_dense (am an : nat) (av : list ent) (bm bn : nat) (bv : list ent) : res (nat * nat * list ent) :=
  if negb (Nat.eqb an bm) then ErrExn EXN_DOMAIN else
  do p <- tab2 am bn (fun i j =>
            foldM (fun acc k => do x <- rd av (i * an + k); do y <- rd bv (k * bn + j); Ok (eadd acc (emul x y)))
                  (seq 0 an) e0);
  Ok (am, bn, p).

(* product[i*ncols+j] = mul(product[i*ncols+j], A[i]) over the copy of B *)
Definition mul_diag_dense (a : list ent) (bm bn : nat) (bv : list ent) : res (nat * nat * list ent) :=
  if negb (Nat.eqb (length a) bm) then ErrExn EXN_DOMAIN else
  do p <- tab2 bm bn (fun i j => do x <- rd a i; do y <- rd bv (i * bn + j); Ok (emul y x));
  Ok (bm, bn, p).

Definition mul_dense_diag (am an : nat) (av : list ent) (b : list ent) : res (nat * nat * list ent) :=
  if negb (Nat.eqb (length b) an) then ErrExn EXN_DOMAIN else
  do p <- tab2 am an (fun i j => do x <- rd b j; do y <- rd av (i * an + j); Ok (emul y x));
  Ok (am, an, p).

Fixpoint check_mul_rest (rest : list osize) (first : osize) : res unit :=
  match rest with
  | [] => Ok tt
  | second :: r =>
      match snd first, fst second with
      | Some c, Some r2 =>
          if is_false (dim_diff_zero c r2) then ErrExn EXN_DOMAIN else check_mul_rest r second
      | _, _ => check_mul_rest r second
      end
  end.

Definition check_matching_mul_sizes (vec : list mexpr) : res unit :=
  match map size vec with
  | [] => oob 0 0                           (* vec[0] of an empty vector *)
  | s :: r => check_mul_rest r s
  end.

(* expanded factors and the collected scalar *)
Fixpoint expand_mul (args : list marg) (scalar : ent) (acc : list mexpr) : ent * list mexpr :=
  match args with
  | [] => (scalar, acc)
  | AMat (MMul k fs) :: r => expand_mul r (emul scalar k) (acc ++ fs)
  | AMat e :: r => expand_mul r scalar (acc ++ [e])
  | AScal k :: r => expand_mul r (emul scalar k) acc
  end.

Record mul_state := {
  m_keep : list mexpr;
  m_diag : option (list ent);
  m_dense : option (nat * nat * list ent);
  m_ident : option dim }.

Definition flush (st : mul_state) : list mexpr :=
  match m_diag st with
  | Some d => m_keep st ++ [MDiag d]
  | None => match m_dense st with
            | Some (m, n, v) => m_keep st ++ [MDense m n v]
            | None => m_keep st
            end
  end.

Definition mul_step (st : mul_state) (factor : mexpr) : res mul_state :=
  match factor with
  | MIdent n => Ok {| m_keep := m_keep st; m_diag := m_diag st; m_dense := m_dense st; m_ident := Some n |}
  | MDiag d =>
      match m_diag st with
      | Some d0 => do p <- mul_diag_diag d0 d;
                   Ok {| m_keep := m_keep st; m_diag := Some p; m_dense := m_dense st; m_ident := m_ident st |}
      | None =>
          match m_dense st with
          | Some (m, n, v) => do p <- mul_dense_diag m n v d;
                   Ok {| m_keep := m_keep st; m_diag := None; m_dense := Some p; m_ident := m_ident st |}
          | None => Ok {| m_keep := m_keep st; m_diag := Some d; m_dense := None; m_ident := m_ident st |}
          end
      end
  | MDense m n v =>
      match m_dense st with
      | Some (m0, n0, v0) => do p <- mul_dense_dense m0 n0 v0 m n v;
                   Ok {| m_keep := m_keep st; m_diag := m_diag st; m_dense := Some p; m_ident := m_ident st |}
      | None =>
          match m_diag st with
          | Some d0 => do p <- mul_diag_dense d0 m n v;
                   Ok {| m_keep := m_keep st; m_diag := None; m_dense := Some p; m_ident := m_ident st |}
          | None => Ok {| m_keep := m_keep st; m_diag := None; m_dense := Some (m, n, v); m_ident := m_ident st |}
          end
      end
  | _ => Ok {| m_keep := flush st ++ [factor]; m_diag := None; m_dense := None; m_ident := m_ident st |}
  end.

Definition first_zero_arg (args : list marg) : option mexpr :=
  find (fun e => is_MZero e)
       (flat_map (fun a => match a with AMat e => [e] | AScal _ => [] end) args).

(* `return zero_matrix(nrows, ncols)` with the rows of the first and the columns of the last
   expanded factor when both are known, else the ZeroMatrix argument itself *)
Definition zero_result (expanded : list mexpr) (z : mexpr) : mexpr :=
  match map size expanded with
  | [] => z                                   (* not reached: the size check fails first *)
  | s :: r =>
      match fst s, snd (last r s) with
      | Some nr, Some nc => MZero nr nc
      | _, _ => z
      end
  end.

Definition matrix_mul (args : list marg) : res mexpr :=
  match args with
  | [] => ErrExn EXN_DOMAIN
  | [AMat e] => Ok e
  | [AScal _] => ErrExn EXN_PRECOND          (* a lone scalar cast to MatrixExpr: not modelled *)
  | _ =>
      let '(scalar, expanded) := expand_mul args e1 [] in
      do _ <- check_matching_mul_sizes expanded;
      match first_zero_arg args with
      | Some z => Ok (zero_result expanded z)
      | None =>
          do st <- foldM mul_step expanded {| m_keep := []; m_diag := None; m_dense := None; m_ident := None |};
          (* only identity matrices: the product is scalar * I *)
          let keep := match flush st, m_ident st with
                      | [], Some n => [MIdent n]
                      | k, _ => k
                      end in
          match keep with
          | [x] => if e_eqb scalar e1 then Ok x else Ok (MMul scalar keep)
          | _ => Ok (MMul scalar keep)
          end
      end
  end.

(* ---------------------------------------------------------------- hadamard_product.cpp *)
Definition flatten_had (factors : list mexpr) : list mexpr :=
  flat_map (fun t => match t with MHad fs => fs | _ => [t] end) factors.

Record had_state := {
  h_keep : list mexpr;
  h_diag : option (list ent);
  h_dense : option (nat * nat * list ent);
  h_ident : bool }.

(* inl: `return factor` out of the loop (a ZeroMatrix) *)
Definition had_step (st : had_state) (factor : mexpr) : res (mexpr + had_state) :=
  match factor with
  | MZero _ _ => Ok (inl factor)
  | MIdent _ =>
      if h_ident st then Ok (inr st)
      else Ok (inr {| h_keep := h_keep st ++ [factor]; h_diag := h_diag st; h_dense := h_dense st; h_ident := true |})
  | MDiag d =>
      match h_diag st with
      | None => Ok (inr {| h_keep := h_keep st; h_diag := Some d; h_dense := h_dense st; h_ident := h_ident st |})
      | Some d0 => do p <- zipc emul d0 d 0;
                   Ok (inr {| h_keep := h_keep st; h_diag := Some p; h_dense := h_dense st; h_ident := h_ident st |})
      end
  | MDense m n v =>
      match h_dense st with
      | None => Ok (inr {| h_keep := h_keep st; h_diag := h_diag st; h_dense := Some (m, n, v); h_ident := h_ident st |})
      | Some (m0, n0, v0) => do p <- zipc emul v v0 0;
                   Ok (inr {| h_keep := h_keep st; h_diag := h_diag st; h_dense := Some (m0, n0, p); h_ident := h_ident st |})
      end
  | _ => Ok (inr {| h_keep := h_keep st ++ [factor]; h_diag := h_diag st; h_dense := h_dense st; h_ident := h_ident st |})
  end.

Fixpoint had_loop (l : list mexpr) (st : had_state) : res (mexpr + had_state) :=
  match l with
  | [] => Ok (inr st)
  | x :: r => do s <- had_step st x;
              match s with inl z => Ok (inl z) | inr st' => had_loop r st' end
  end.

Definition had_dense_diag (m n : nat) (v : list ent) (d : list ent) : res (list ent) :=
  mapM (fun i => do x <- dget n v i i; do y <- rd d i; Ok (emul x y)) (seq 0 m).

Definition hadamard_product (factors : list mexpr) : res mexpr :=
  match factors with
  | [] => ErrExn EXN_DOMAIN
  | [t] => Ok t
  | _ =>
      let expanded := flatten_had factors in
      do _ <- check_matching_sizes expanded;
      do s <- had_loop expanded {| h_keep := []; h_diag := None; h_dense := None; h_ident := false |};
      match s with
      | inl z => Ok z
      | inr st =>
          do kd <-
            match h_dense st with
            | Some (m, n, v) =>
                match h_diag st with
                | Some d => do p <- had_dense_diag m n v d; Ok (h_keep st, Some p)
                | None => Ok (h_keep st ++ [MDense m n v], None)
                end
            | None => Ok (h_keep st, h_diag st)
            end;
          let keep := match snd kd with Some d => fst kd ++ [MDiag d] | None => fst kd end in
          match keep with
          | [x] => Ok x
          | _ => Ok (MHad keep)
          end
      end
  end.

(* ---------------------------------------------------------------- transpose.cpp *)
Fixpoint transpose (e : mexpr) : res mexpr :=
  match e with
  | MIdent _ => Ok e
  | MZero m n => Ok (MZero n m)
  | MDiag _ => Ok e
  | MDense m n v =>
      (* t[j * nrows + i] = x.get(i, j) *)
      do t <- tab2 n m (fun j i => dget n v i j); Ok (MDense n m t)
  | MTrans a => Ok a
  | MAdd ts => do t <- mapM transpose ts; Ok (MAdd t)
  | MHad fs => do t <- mapM transpose fs; Ok (MHad t)
  | MSym _ | MMul _ _ | MConj _ => Ok (MTrans e)
  end.

(* ---------------------------------------------------------------- conjugate_matrix.cpp *)
Fixpoint conjugate_matrix (e : mexpr) : res mexpr :=
  match e with
  | MIdent _ => Ok e
  | MZero _ _ => Ok e
  | MDiag d => Ok (MDiag (map econj d))
  | MDense m n v => Ok (MDense m n (map econj v))
  | MConj a => Ok a
  | MTrans a => Ok (MTrans (MConj a))
  | MAdd ts => do t <- mapM conjugate_matrix ts; Ok (MAdd t)
  | MHad fs => do t <- mapM conjugate_matrix fs; Ok (MHad t)
  | MSym _ | MMul _ _ => Ok (MConj e)
  end.

(* ---------------------------------------------------------------- is_square.cpp *)
Definition square_vec (p : mexpr -> tri) : list mexpr -> tri :=
  fix go (l : list mexpr) : tri :=
    match l with
    | [] => TI                               (* member left as it was: excluded by wf *)
    | [x] => p x
    | x :: r => let t := p x in if is_indet t then go r else t
    end.

Fixpoint is_square (e : mexpr) : tri :=
  match e with
  | MIdent _ => TT
  | MZero m n => dim_diff_zero m n
  | MDiag _ => TT
  | MDense m n _ => tri_of_bool (m =? n)
  | MAdd ts => square_vec is_square ts
  | MHad fs => square_vec is_square fs
  | _ => TI
  end.

(* ---------------------------------------------------------------- trace.cpp *)
(* the scalar returned by trace(): number + symbolic dimensions + unevaluated Trace(arg) terms *)
Record texpr := { t_num : ent; t_dims : list nat; t_traces : list mexpr }.
Definition t_of_num (q : ent) : texpr := {| t_num := q; t_dims := []; t_traces := [] |}.
Definition t_add (a b : texpr) : texpr :=
  {| t_num := eadd (t_num a) (t_num b); t_dims := t_dims a ++ t_dims b; t_traces := t_traces a ++ t_traces b |}.
Definition t_unevaluated (e : mexpr) : texpr := {| t_num := e0; t_dims := []; t_traces := [e] |}.

Fixpoint trace (e : mexpr) : res texpr :=
  match e with
  | MIdent (DInt n) => Ok (t_of_num (e_of_nat n))
  | MIdent (DSym s) => Ok {| t_num := e0; t_dims := [s]; t_traces := [] |}
  | MZero m n =>
      match dim_diff_zero m n with
      | TT => Ok (t_of_num e0)
      | TF => ErrExn EXN_DOMAIN
      | TI => Ok (t_unevaluated e)
      end
  | MDiag d => Ok (t_of_num (esum d))
  | MDense m n v =>
      if negb (m =? n) then ErrExn EXN_DOMAIN
      else do dg <- mapM (fun i => dget n v i i) (seq 0 m); Ok (t_of_num (esum dg))
  | MAdd ts =>
      foldM (fun acc t => do x <- trace t; Ok (t_add acc x)) ts (t_of_num e0)
  | _ => Ok (t_unevaluated e)
  end.

(* ---------------------------------------------------------------- is_zero.cpp *)
Definition tz (a : ent) : tri := tri_of_bool (e_is_zero a).

(* for e in container: next = is_zero(e); if false return false; current = andwk(current, next) *)
Fixpoint diag_all (p : ent -> tri) (l : list ent) (cur : tri) : tri :=
  match l with
  | [] => cur
  | x :: r => let nx := p x in if is_false nx then nx else diag_all p r (andwk_tri cur nx)
  end.

(* for e in values: cur = and_tribool(cur, visitor.apply(e)); if false return *)
Fixpoint dense_all (p : ent -> tri) (l : list ent) (cur : tri) : tri :=
  match l with
  | [] => cur
  | x :: r => let c := and_tri cur (p x) in if is_false c then c else dense_all p r c
  end.

Definition is_zero (e : mexpr) : tri :=
  match e with
  | MIdent _ => TF
  | MZero _ _ => TT
  | MDiag d => diag_all tz d TT
  | MDense _ _ v => dense_all tz v TT
  | _ => TI
  end.

(* ---------------------------------------------------------------- is_real.cpp *)
Definition trl (a : ent) : tri := tri_of_bool (e_is_real a).
Definition is_real (e : mexpr) : tri :=
  match e with
  | MIdent _ => TT
  | MZero _ _ => TT
  | MDiag d => diag_all trl d TT
  | MDense _ _ v => dense_all trl v TT
  | _ => TI
  end.

(* ---------------------------------------------------------------- the MatrixAdd / HadamardProduct rules *)
(* MatrixAdd in is_diagonal / is_symmetric / is_lower / is_upper (check_vector) *)
Definition add_rule (p : mexpr -> res tri) : list mexpr -> bool -> res tri :=
  fix go (l : list mexpr) (found : bool) : res tri :=
    match l with
    | [] => Ok (if found then TF else TT)
    | x :: r =>
        do t <- p x;
        match t with
        | TI => Ok TI
        | TF => if found then Ok TF else go r true
        | TT => go r found
        end
    end.

(* HadamardProduct in is_diagonal / is_lower / is_upper *)
Definition had_rule (p : mexpr -> res tri) : list mexpr -> res tri :=
  fix go (l : list mexpr) : res tri :=
    match l with
    | [] => Ok TI
    | x :: r => do t <- p x; if is_true t then Ok TT else go r
    end.

(* HadamardProduct in is_symmetric: all factors symmetric => symmetric, otherwise unknown *)
Definition sym_had_rule (p : mexpr -> res tri) (l : list mexpr) : res tri :=
  match l with
  | [] => Ok TI                               (* member left as it was: excluded by wf *)
  | _ =>
      (fix go (l : list mexpr) : res tri :=
         match l with
         | [] => Ok TT
         | x :: r => do t <- p x; if is_true t then go r else Ok TI
         end) l
  end.

(* ---------------------------------------------------------------- is_diagonal.cpp *)
Definition pairs (m n : nat) : list (nat * nat) := list_prod (seq 0 m) (seq 0 n).

Definition dense_is_diagonal (m n : nat) (v : list ent) : res tri :=
  if negb (m =? n) then Ok TF
  else loop_tri (fun ij cur =>
         if negb (snd ij =? fst ij) then do e <- rd v (fst ij * n + snd ij); Ok (and_tri cur (tz e))
         else Ok cur) (pairs n n) TT.

Fixpoint is_diagonal (e : mexpr) : res tri :=
  match e with
  | MIdent _ => Ok TT
  | MZero _ _ => Ok (is_square e)
  | MDiag _ => Ok TT
  | MDense m n v => dense_is_diagonal m n v
  | MAdd ts => add_rule is_diagonal ts false
  | MHad fs => had_rule is_diagonal fs
  | _ => Ok TI
  end.

(* ---------------------------------------------------------------- is_symmetric.cpp *)
(* for i < ncols, j <= i: if (j != i) cur = and(cur, is_zero(get(i,j) - get(j,i))); if false return *)
Definition lower_pairs (n : nat) : list (nat * nat) :=
  flat_map (fun i => map (fun j => (i, j)) (seq 0 (S i))) (seq 0 n).

Definition dense_is_symmetric (m n : nat) (v : list ent) : res tri :=
  if negb (m =? n) then Ok TF
  else loop_tri (fun ij cur =>
         if negb (snd ij =? fst ij)
         then do e1 <- dget n v (fst ij) (snd ij); do e2 <- dget n v (snd ij) (fst ij);
              Ok (and_tri cur (tz (esub e1 e2)))
         else Ok cur) (lower_pairs n) TT.

Fixpoint is_symmetric (e : mexpr) : res tri :=
  match e with
  | MIdent _ => Ok TT
  | MZero _ _ => Ok (is_square e)
  | MDiag _ => Ok TT
  | MDense m n v => dense_is_symmetric m n v
  | MAdd ts => add_rule is_symmetric ts false
  | MHad fs => sym_had_rule is_symmetric fs
  | _ => Ok TI
  end.

(* ---------------------------------------------------------------- is_lower.cpp / is_upper.cpp *)
(* for i < nrows, j = i+1 .. nrows-1 *)
Definition upper_strict_pairs (n : nat) : list (nat * nat) :=
  flat_map (fun i => map (fun j => (i, j)) (seq (S i) (n - S i))) (seq 0 n).
(* for i = 1 .. nrows-1, j < i *)
Definition lower_strict_pairs (n : nat) : list (nat * nat) :=
  flat_map (fun i => map (fun j => (i, j)) (seq 0 i)) (seq 1 (n - 1)).

Definition dense_tri_check (ps : list (nat * nat)) (m n : nat) (v : list ent) : res tri :=
  if negb (m =? n) then Ok TF
  else loop_tri (fun ij cur => do e <- dget n v (fst ij) (snd ij); Ok (and_tri cur (tz e))) ps TT.

Fixpoint is_lower (e : mexpr) : res tri :=
  match e with
  | MIdent _ => Ok TT
  | MZero _ _ => Ok (is_square e)
  | MDiag _ => Ok TT
  | MDense m n v => dense_tri_check (upper_strict_pairs m) m n v
  | MAdd ts => add_rule is_lower ts false
  | MHad fs => had_rule is_lower fs
  | _ => Ok TI
  end.

Fixpoint is_upper (e : mexpr) : res tri :=
  match e with
  | MIdent _ => Ok TT
  | MZero _ _ => Ok (is_square e)
  | MDiag _ => Ok TT
  | MDense m n v => dense_tri_check (lower_strict_pairs m) m n v
  | MAdd ts => add_rule is_upper ts false
  | MHad fs => had_rule is_upper fs
  | _ => Ok TI
  end.

(* ---------------------------------------------------------------- is_toeplitz.cpp *)
(* for (auto it = vec.begin() + 1; ...) { next = is_zero(first - *it); if false return false;
   current = andwk(current, next) } *)
Definition diag_is_toeplitz (d : list ent) : tri :=
  match d with
  | [] => TT                                  (* excluded by wf *)
  | [_] => TT
  | first :: rest => diag_all (fun x => tz (esub first x)) rest TT
  end.

(* the diagonal starts visited by the loops over w and k, in order *)
Definition toeplitz_starts (m n : nat) : list (nat * nat) :=
  flat_map (fun w =>
      (if w <? n then [(0, w)] else []) ++
      (if (w <? m) && negb (w =? 0) then [(w, 0)] else []))
    (seq 0 (Nat.max m n - 1)).

Definition dense_is_toeplitz (m n : nat) (v : list ent) : res tri :=
  loop_tri (fun st cur =>
      do first <- dget n v (fst st) (snd st);
      loop_tri (fun k cur' =>
          do e <- dget n v (fst st + S k) (snd st + S k);
          Ok (and_tri cur' (tz (esub first e))))
        (seq 0 (Nat.min (m - S (fst st)) (n - S (snd st)))) cur)
    (toeplitz_starts m n) TT.

Definition is_toeplitz (e : mexpr) : res tri :=
  match e with
  | MIdent _ => Ok TT
  | MZero _ _ => Ok TT
  | MDiag d => Ok (diag_is_toeplitz d)
  | MDense m n v => dense_is_toeplitz m n v
  | _ => Ok TI
  end.

(* ---------------------------------------------------------------- factories *)
Definition is_zero_vec (l : list ent) : bool := forallb e_is_zero l.
Definition is_identity_vec (l : list ent) : bool := forallb e_is_one l.

Definition identity_matrix (n : dim) : res mexpr := Ok (MIdent n).
Definition zero_matrix (m n : dim) : res mexpr := Ok (MZero m n).
Definition matrix_symbol (x : nat) : res mexpr := Ok (MSym x).

Definition diagonal_matrix (d : list ent) : res mexpr :=
  if is_zero_vec d then Ok (MZero (DInt (length d)) (DInt (length d)))
  else if is_identity_vec d then Ok (MIdent (DInt (length d)))
  else Ok (MDiag d).

Definition is_identity_dense (n : nat) (v : list ent) : bool :=
  forallb (fun ij => match nth_error v (fst ij * n + snd ij) with
                     | Some e => if snd ij =? fst ij then e_is_one e else e_is_zero e
                     | None => false end) (pairs n n).
Definition is_diagonal_dense (n : nat) (v : list ent) : bool :=
  forallb (fun ij => match nth_error v (fst ij * n + snd ij) with
                     | Some e => if snd ij =? fst ij then true else e_is_zero e
                     | None => false end) (pairs n n).
Definition extract_diagonal (n : nat) (v : list ent) : list ent :=
  map (fun i => nth (i * n + i) v e0) (seq 0 n).

(* the model covers calls with m, n >= 1 and m * n values *)
Definition immutable_dense_matrix (m n : nat) (v : list ent) : res mexpr :=
  if negb ((1 <=? m) && (1 <=? n) && (length v =? m * n)) then ErrExn EXN_PRECOND
  else if is_zero_vec v then Ok (MZero (DInt m) (DInt n))
  else if (m =? n) && is_identity_dense m v then Ok (MIdent (DInt m))
  else if (m =? n) && is_diagonal_dense m v then Ok (MDiag (extract_diagonal m v))
  else Ok (MDense m n v).

(* ---------------------------------------------------------------- recipes (the tie's stack programs) *)
Inductive tok :=
| KIdent (n : dim) | KZero (m n : dim) | KSym (x : nat) | KDiag (d : list ent)
| KDense (m n : nat) (v : list ent) | KScal (k : ent)
| KAdd (n : nat) | KMul (n : nat) | KHad (n : nat) | KTrans | KConj.

Definition mats_of (args : list marg) : option (list mexpr) :=
  fold_right (fun a acc => match a, acc with AMat e, Some l => Some (e :: l) | _, _ => None end) (Some []) args.

(* pop the last n entries of the stack (in push order) *)
Definition popn {A} (n : nat) (st : list A) : option (list A * list A) :=
  if n <=? length st then Some (firstn (length st - n) st, skipn (length st - n) st) else None.

Definition push_mat (st : list marg) (r : res mexpr) : res (list marg) :=
  do e <- r; Ok (st ++ [AMat e]).

Definition step (st : list marg) (t : tok) : res (list marg) :=
  match t with
  | KIdent n => push_mat st (identity_matrix n)
  | KZero m n => push_mat st (zero_matrix m n)
  | KSym x => push_mat st (matrix_symbol x)
  | KDiag d => push_mat st (diagonal_matrix d)
  | KDense m n v => push_mat st (immutable_dense_matrix m n v)
  | KScal k => Ok (st ++ [AScal k])
  | KAdd n =>
      match popn n st with
      | Some (st', args) => match mats_of args with Some l => push_mat st' (matrix_add l) | None => ErrExn EXN_PRECOND end
      | None => ErrExn EXN_PRECOND end
  | KHad n =>
      match popn n st with
      | Some (st', args) => match mats_of args with Some l => push_mat st' (hadamard_product l) | None => ErrExn EXN_PRECOND end
      | None => ErrExn EXN_PRECOND end
  | KMul n =>
      match popn n st with
      | Some (st', args) => push_mat st' (matrix_mul args)
      | None => ErrExn EXN_PRECOND end
  | KTrans =>
      match popn 1 st with
      | Some (st', [AMat e]) => push_mat st' (transpose e)
      | _ => ErrExn EXN_PRECOND end
  | KConj =>
      match popn 1 st with
      | Some (st', [AMat e]) => push_mat st' (conjugate_matrix e)
      | _ => ErrExn EXN_PRECOND end
  end.

Definition run (prog : list tok) : res mexpr :=
  do st <- foldM step prog [];
  match st with
  | [AMat e] => Ok e
  | _ => ErrExn EXN_PRECOND
  end.

(* everything the tie prints about a result *)
Record report := {
  r_size : osize;
  r_zero : tri; r_real : tri; r_square : tri;
  r_diagonal : res tri; r_symmetric : res tri; r_lower : res tri; r_upper : res tri;
  r_trace : res texpr;
  r_toeplitz : res tri }.

Definition report_of (e : mexpr) : report :=
  {| r_size := size e; r_zero := is_zero e; r_real := is_real e; r_square := is_square e;
     r_diagonal := is_diagonal e; r_symmetric := is_symmetric e; r_lower := is_lower e;
     r_upper := is_upper e; r_trace := trace e; r_toeplitz := is_toeplitz e |}.
