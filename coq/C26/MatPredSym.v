(* C26 -- predicates, part 3: is_symmetric (is_symmetric.cpp).  (Before the repair 7b2e06b the
   HadamardProduct case reused the MatrixAdd rule and answered "false" for symmetric values.) *)
From SE Require Import C26.MatSpec C26.MatLemmas C26.MatAddProofs C26.MatPredBase C26.MatPredRules.
From Coq Require Import Lia Ring.
Local Open Scope nat_scope.
Local Open Scope res_scope.

Definition chk_sym (n : nat) (v : list ent) (ij : nat * nat) : res tri :=
  if negb (snd ij =? fst ij)
  then (do a <- rd v (fst ij * n + snd ij); do b <- rd v (snd ij * n + fst ij); Ok (tz (esub a b)))
  else Ok TT.

Lemma chk_sym_step n v (ij : nat * nat) cur :
  (if negb (snd ij =? fst ij)
   then (do a <- dget n v (fst ij) (snd ij); do b <- dget n v (snd ij) (fst ij); Ok (and_tri cur (tz (esub a b))))
   else Ok cur)
  = (do b <- chk_sym n v ij; Ok (and_tri cur b)).
Proof.
  unfold chk_sym, dget. destruct (negb (snd ij =? fst ij)).
  - destruct (rd v (fst ij * n + snd ij)); cbn [bind]; try reflexivity.
    destruct (rd v (snd ij * n + fst ij)); reflexivity.
  - cbn [bind]. now rewrite and_tri_TT_r.
Qed.

Lemma dense_is_symmetric_sound rho m n v t :
  dense_is_symmetric m n v = Ok t -> sound_answer t P_symmetric rho (MDense m n v).
Proof.
  intros H V HV. apply denote_Some in HV. destruct HV as (s & Hs & ->).
  apply shp_MDense_Some in Hs. destruct Hs as [Lv ->]. unfold P_symmetric. cbn [fst snd mr mc mf].
  unfold dense_is_symmetric in H. destruct (Nat.eqb_spec m n) as [->|Hne]; cbn [negb] in H.
  2:{ inversion H; subst. split; [discriminate|]. intros _ [A _]. congruence. }
  rewrite (loop_tri_ext _ (fun ij cur => do b <- chk_sym n v ij; Ok (and_tri cur b))) in H
    by (intros; apply chk_sym_step).
  assert (Hdef : forall x, In x (lower_pairs n) -> chk_sym n v x = Ok TT \/ chk_sym n v x = Ok TF).
  { intros [i j] Hin. apply in_lower_pairs in Hin. unfold chk_sym. cbn [fst snd].
    destruct (negb (j =? i)); [|now left].
    rewrite !rd_lt by (rewrite Lv; nia). cbn [bind].
    destruct (tz_cases (esub (nth (i * n + j) v e0) (nth (j * n + i) v e0))) as [-> | ->]; auto. }
  destruct (loop_and_spec (chk_sym n v) (lower_pairs n) Hdef) as [[E A]|[E (x & Hx & Ex)]].
  - rewrite E in H. inversion H; subst. split; [|discriminate]. intros _. split; [reflexivity|].
    assert (G : forall i j, j < i -> i < n -> nth (i * n + j) v e0 = nth (j * n + i) v e0).
    { intros i j Hji Hi. specialize (A (i, j)). unfold chk_sym in A. cbn [fst snd] in A.
      assert (Hin : In (i, j) (lower_pairs n)) by (apply in_lower_pairs; lia).
      specialize (A Hin). destruct (Nat.eqb_spec j i); [lia|]. cbn [negb] in A.
      rewrite !rd_lt in A by (rewrite Lv; nia). cbn [bind] in A. injection A as A.
      apply tz_TT in A. now apply esub_zero_iff. }
    intros i j Hi Hj. rewrite !val_MDense.
    destruct (Nat.lt_trichotomy i j) as [L|[->|L]]; [symmetry; now apply G | reflexivity | now apply G].
  - rewrite E in H. inversion H; subst. split; [discriminate|]. intros _ [_ B].
    destruct x as [i j]. apply in_lower_pairs in Hx. unfold chk_sym in Ex. cbn [fst snd] in Ex.
    destruct (negb (j =? i)); [|discriminate].
    rewrite !rd_lt in Ex by (rewrite Lv; nia). cbn [bind] in Ex. injection Ex as Ex.
    apply tz_TF in Ex. apply Ex. apply esub_zero_iff.
    specialize (B i j). rewrite !val_MDense in B. apply B; lia.
Qed.

Lemma dense_is_symmetric_total m n v : length v = m * n -> exists t, dense_is_symmetric m n v = Ok t.
Proof.
  intros Lv. unfold dense_is_symmetric. destruct (Nat.eqb_spec m n) as [->|]; cbn [negb]; [|eauto].
  rewrite (loop_tri_ext _ (fun ij cur => do b <- chk_sym n v ij; Ok (and_tri cur b)))
    by (intros; apply chk_sym_step).
  destruct (loop_and_spec (chk_sym n v) (lower_pairs n)) as [[E _]|[E _]]; [|eauto|eauto].
  intros [i j] Hin. apply in_lower_pairs in Hin. unfold chk_sym. cbn [fst snd].
  destruct (negb (j =? i)); [|now left].
  rewrite !rd_lt by (rewrite Lv; nia). cbn [bind].
  destruct (tz_cases (esub (nth (i * n + j) v e0) (nth (j * n + i) v e0))) as [-> | ->]; auto.
Qed.

Definition sym_go (p : mexpr -> res tri) : list mexpr -> res tri :=
  fix go (l : list mexpr) : res tri :=
    match l with
    | [] => Ok TT
    | x :: r => do t <- p x; if is_true t then go r else Ok TI
    end.

Lemma sym_had_rule_eq p l : sym_had_rule p l = match l with [] => Ok TI | _ => sym_go p l end.
Proof. destruct l; reflexivity. Qed.

Lemma sym_go_spec p l t :
  sym_go p l = Ok t -> t <> TF /\ (t = TT -> forall x, In x l -> p x = Ok TT).
Proof.
  revert t. induction l as [|x l IH]; intros t H; cbn [sym_go] in H.
  - inversion H; subst. split; [discriminate | intros _ y []].
  - destruct (p x) as [tx| | |] eqn:Ex; cbn [bind] in H; try discriminate.
    destruct (is_true tx) eqn:E.
    + destruct tx; try discriminate. destruct (IH t H) as [A B]. split; [assumption|].
      intros Et y [<-|Hy]; [assumption | now apply B].
    + inversion H; subst. split; discriminate.
Qed.

Lemma sym_had_rule_spec p l t :
  sym_had_rule p l = Ok t -> t <> TF /\ (t = TT -> l <> [] /\ forall x, In x l -> p x = Ok TT).
Proof.
  rewrite sym_had_rule_eq. destruct l as [|x0 l0].
  - intros H; inversion H; subst. split; discriminate.
  - intros H. destruct (sym_go_spec p _ t H) as [A B]. split; [assumption|].
    intros Et. split; [discriminate | now apply B].
Qed.

Lemma eprod_map_ext {A} (f g : A -> ent) l :
  (forall x, In x l -> f x = g x) -> eprod (map f l) = eprod (map g l).
Proof.
  induction l as [|x r IH]; intros H; cbn [map]; [reflexivity|]. rewrite !eprod_cons.
  rewrite H by (now left). rewrite IH; [reflexivity|]. intros; apply H; now right.
Qed.

Lemma is_symmetric_TF_concrete e :
  is_symmetric e = Ok TF -> is_MZero e = false -> is_MAdd e = false -> concrete e = true.
Proof.
  destruct e; cbn [is_symmetric is_MZero is_MAdd concrete is_MDiag is_MDense orb];
    intros H Hz Ha; try discriminate; try reflexivity.
  apply sym_had_rule_spec in H. destruct H as [H _]. congruence.
Qed.

Theorem is_symmetric_sound rho e :
  wf e = true -> forall t, is_symmetric e = Ok t -> sound_answer t P_symmetric rho e.
Proof.
  induction e as [n|m n|x|d|m n v|ts IH|k fs IH|fs IH|a IHa|a IHa] using mexpr_ind';
    intros Hwf t Ht; cbn [is_symmetric] in Ht; try (inversion Ht; subst; intros V _; split; discriminate).
  - inversion Ht; subst. intros V HV. split; [|discriminate]. intros _.
    apply denote_Some in HV. destruct HV as (s & Hs & ->). rewrite shp_MIdent in Hs. inversion Hs; subst.
    split; [reflexivity|]. cbn [mr mc mf fst snd]. intros i j _ _. rewrite !val_MIdent. unfold delta. now rewrite Nat.eqb_sym.
  - inversion Ht; subst. intros V HV. destruct (is_square_sound rho (MZero m n) V HV) as [A B].
    split.
    + intros E. split; [now apply A|]. apply denote_Some in HV. destruct HV as (s & Hs & ->). reflexivity.
    + intros E [C _]. now apply B.
  - inversion Ht; subst. intros V HV. split; [|discriminate]. intros _.
    apply denote_Some in HV. destruct HV as (s & Hs & ->). rewrite shp_MDiag in Hs. inversion Hs; subst.
    split; [reflexivity|]. cbn [mr mc mf fst snd]. intros i j _ _. rewrite !val_MDiag.
    rewrite (Nat.eqb_sym j i). destruct (Nat.eqb_spec i j); [subst; reflexivity | reflexivity].
  - now apply dense_is_symmetric_sound.
  - (* MatrixAdd *)
    intros V HV. apply denote_Some in HV. destruct HV as (s & Hs & ->).
    rewrite shp_MAdd in Hs. apply shape_all_Forall in Hs. destruct Hs as [Hne Hall].
    cbn [wf] in Hwf. apply andb_true_iff in Hwf. destruct Hwf as [Hwf Hwfs].
    apply andb_true_iff in Hwf. destruct Hwf as [Hwf Hcc].
    apply andb_true_iff in Hwf. destruct Hwf as [_ Hkinds].
    rewrite forallb_forall in Hwfs, Hkinds. apply Nat.leb_le in Hcc.
    rewrite Forall_forall in IH, Hall.
    destruct (add_rule_sound is_symmetric (good_at rho P_symmetric s) ts false t) as [A B]; try assumption.
    + intros x Hin Ex. eapply sound_answer_good; eauto.
    + intros x Hin Ex. split.
      * eapply sound_answer_good; eauto.
      * specialize (Hkinds x Hin). apply negb_true_iff, orb_false_iff in Hkinds. destruct Hkinds.
        apply is_symmetric_TF_concrete; eauto.
    + lia.
    + unfold P_symmetric. cbn [mr mc mf]. split.
      * intros E. destruct (A E) as [_ G]. rewrite Forall_forall in G. split.
        -- destruct ts as [|x0 ?]; [congruence|]. destruct (G x0 (or_introl eq_refl)) as [Sq _]. exact Sq.
        -- intros i j Hi Hj. rewrite !val_MAdd. apply esum_map_ext. intros x Hin.
           destruct (G x Hin) as [_ G2]. now apply G2.
      * intros E [Sq HP]. destruct (B E) as [[C _]|[_ (l1 & x & l2 & El & Nx & G1 & G2)]]; [discriminate|].
        apply Nx. split; [exact Sq|]. cbn [mr mc mf]. intros i j Hi Hj.
        specialize (HP i j Hi Hj). rewrite !val_MAdd, El, !map_app, !esum_app in HP.
        cbn [map] in HP. rewrite !esum_cons in HP.
        rewrite Forall_forall in G1, G2.
        assert (E1 : esum (map (fun e => val rho e i j) l1) = esum (map (fun e => val rho e j i) l1)).
        { apply esum_map_ext. intros y Hy. destruct (G1 y Hy) as [_ Gy]. now apply Gy. }
        assert (E2 : esum (map (fun e => val rho e i j) l2) = esum (map (fun e => val rho e j i) l2)).
        { apply esum_map_ext. intros y Hy. destruct (G2 y Hy) as [_ Gy]. now apply Gy. }
        rewrite E1, E2 in HP.
        set (a1 := esum (map (fun e => val rho e j i) l1)) in *.
        set (a2 := esum (map (fun e => val rho e j i) l2)) in *.
        assert (Hx : val rho x i j = eadd (eadd (eadd a1 (eadd (val rho x i j) a2)) (emul em1 a1)) (emul em1 a2)).
        { unfold em1. generalize (val rho x i j) a1 a2. intros [p1 p2] [q1 q2] [r1 r2].
          apply ent_eq; unfold eadd, emul, qc0, qc1; cbn [fst snd]; ring. }
        rewrite Hx, HP.
        unfold em1. generalize (val rho x j i) a1 a2. intros [p1 p2] [q1 q2] [r1 r2].
        apply ent_eq; unfold eadd, emul, qc0, qc1; cbn [fst snd]; ring.
  - (* HadamardProduct: all factors symmetric *)
    intros V HV. apply denote_Some in HV. destruct HV as (s & Hs & ->).
    rewrite shp_MHad in Hs. apply shape_all_Forall in Hs. destruct Hs as [Hne Hall].
    cbn [wf] in Hwf. apply andb_true_iff in Hwf. destruct Hwf as [_ Hwfs].
    rewrite forallb_forall in Hwfs. rewrite Forall_forall in IH, Hall.
    apply sym_had_rule_spec in Ht. destruct Ht as [NF HT]. split; [|intros E; congruence].
    intros E. destruct (HT E) as [_ Hallsym].
    assert (G : forall x, In x fs -> good_at rho P_symmetric s x).
    { intros x Hin.
      destruct (sound_answer_good rho P_symmetric s x TT (Hall x Hin) (IH x Hin (Hwfs x Hin) TT (Hallsym x Hin))) as [G _].
      now apply G. }
    unfold P_symmetric. cbn [mr mc mf]. split.
    + destruct fs as [|x0 ?]; [congruence|]. destruct (G x0 (or_introl eq_refl)) as [Sq _]. exact Sq.
    + intros i j Hi Hj. rewrite !val_MHad. apply eprod_map_ext. intros x Hin.
      destruct (G x Hin) as [_ G2]. now apply G2.
Qed.
