(* C26 -- transpose, conjugate_matrix and size are sound (transpose.cpp, conjugate_matrix.cpp, size.cpp). *)
From SE Require Import C26.MatSpec C26.MatLemmas C26.MatAddProofs.
From Coq Require Import Lia Ring.
Local Open Scope nat_scope.
Local Open Scope res_scope.

Lemma esum_Forall2 {A B} (f : A -> ent) (g : B -> ent) l1 l2 :
  Forall2 (fun a b => f a = g b) l1 l2 -> esum (map f l1) = esum (map g l2).
Proof. induction 1; cbn [map]; [reflexivity|]. rewrite !esum_cons. congruence. Qed.

Lemma eprod_Forall2 {A B} (f : A -> ent) (g : B -> ent) l1 l2 :
  Forall2 (fun a b => f a = g b) l1 l2 -> eprod (map f l1) = eprod (map g l2).
Proof. induction 1; cbn [map]; [reflexivity|]. rewrite !eprod_cons. congruence. Qed.

Lemma Forall2_nonempty {A B} (R : A -> B -> Prop) l1 l2 : Forall2 R l1 l2 -> l1 <> [] -> l2 <> [].
Proof. destruct 1; [congruence | discriminate]. Qed.

Lemma shp_MTrans rho a : shp rho (MTrans a) = match shp rho a with Some s => Some (snd s, fst s) | None => None end.
Proof. reflexivity. Qed.
Lemma val_MTrans rho a i j : val rho (MTrans a) i j = val rho a j i.
Proof. reflexivity. Qed.
Lemma shp_MConj rho a : shp rho (MConj a) = shp rho a.
Proof. reflexivity. Qed.
Lemma val_MConj rho a i j : val rho (MConj a) i j = econj (val rho a i j).
Proof. reflexivity. Qed.

Lemma delta_sym i j : delta i j = delta j i.
Proof. unfold delta. now rewrite Nat.eqb_sym. Qed.

(* ---------------------------------------------------------------- transpose *)
(* a list of results, each the transpose of the corresponding operand *)
Definition is_transpose_of rho (s : shape) (r e : mexpr) : Prop :=
  shp rho e = Some s ->
  shp rho r = Some (snd s, fst s) /\
  forall i j, i < snd s -> j < fst s -> val rho r i j = val rho e j i.

Lemma transpose_list rho s ts t :
  Forall2 (fun x y => transpose x = Ok y) ts t ->
  Forall (fun e => forall r s, transpose e = Ok r -> is_transpose_of rho s r e) ts ->
  Forall (fun e => shp rho e = Some s) ts ->
  Forall (fun e => shp rho e = Some (snd s, fst s)) t /\
  forall i j, i < snd s -> j < fst s ->
    Forall2 (fun y x => val rho y i j = val rho x j i) t ts.
Proof.
  induction 1 as [|x y ts t Hxy _ IH]; intros HI Hs.
  - split; [constructor | intros; constructor].
  - inversion HI; subst. inversion Hs; subst.
    destruct (IH H2 H4) as [A B]. destruct (H1 y s Hxy H3) as [C D].
    split; [constructor; assumption|]. intros i j Hi Hj. constructor; auto.
Qed.

Theorem transpose_value rho e : forall r s, transpose e = Ok r -> is_transpose_of rho s r e.
Proof.
  induction e as [n|m n|x|d|m n v|ts H|k fs H|fs H|a IHa|a IHa] using mexpr_ind'; intros r s Ht Hs; cbn [transpose] in Ht.
  - inversion Ht; subst. rewrite shp_MIdent in *. inversion Hs; subst. cbn [fst snd]. split; [reflexivity|].
    intros. rewrite !val_MIdent. apply delta_sym.
  - inversion Ht; subst. rewrite shp_MZero in *. inversion Hs; subst. cbn [fst snd]. split; [reflexivity|].
    intros. reflexivity.
  - inversion Ht; subst. rewrite shp_MTrans, Hs. split; [reflexivity|]. intros. reflexivity.
  - inversion Ht; subst. rewrite shp_MDiag in *. inversion Hs; subst. cbn [fst snd]. split; [reflexivity|].
    intros. rewrite !val_MDiag. rewrite (Nat.eqb_sym j i). destruct (Nat.eqb_spec i j); [subst; reflexivity | reflexivity].
  - destruct (tab2 n m (fun j i => dget n v i j)) as [t| | |] eqn:E; cbn [bind] in Ht; try discriminate.
    inversion Ht; subst. apply shp_MDense_Some in Hs. destruct Hs as [Lv ->]. cbn [fst snd].
    apply (tab2_spec _ _ _ _ e0) in E. destruct E as [Lt Hn].
    split; [rewrite shp_MDense, Lt, Nat.eqb_refl; reflexivity|].
    intros i j Hi Hj. rewrite !val_MDense. specialize (Hn i j Hi Hj). unfold dget in Hn.
    apply rd_nth in Hn. destruct Hn as [_ Hn]. symmetry. exact Hn.
  - destruct (mapM transpose ts) as [t| | |] eqn:E; cbn [bind] in Ht; try discriminate.
    inversion Ht; subst. apply mapM_Forall2 in E.
    rewrite shp_MAdd in Hs. apply shape_all_Forall in Hs. destruct Hs as [Hne Hall].
    destruct (transpose_list rho s ts t E H Hall) as [A B].
    split.
    + rewrite shp_MAdd. apply Forall_shape_all; [|assumption].
      eapply Forall2_nonempty; eauto.
    + intros i j Hi Hj. rewrite !val_MAdd. apply esum_Forall2. now apply B.
  - inversion Ht; subst. rewrite shp_MTrans, Hs. split; [reflexivity|]. intros. reflexivity.
  - destruct (mapM transpose fs) as [t| | |] eqn:E; cbn [bind] in Ht; try discriminate.
    inversion Ht; subst. apply mapM_Forall2 in E.
    rewrite shp_MHad in Hs. apply shape_all_Forall in Hs. destruct Hs as [Hne Hall].
    destruct (transpose_list rho s fs t E H Hall) as [A B].
    split.
    + rewrite shp_MHad. apply Forall_shape_all; [|assumption].
      eapply Forall2_nonempty; eauto.
    + intros i j Hi Hj. rewrite !val_MHad. apply eprod_Forall2. now apply B.
  - inversion Ht; subst. rewrite shp_MTrans, Hs. split; [reflexivity|]. intros. reflexivity.
  - injection Ht as Hr; subst r. rewrite shp_MTrans in Hs. destruct (shp rho a) as [sa|] eqn:Ea; [|discriminate].
    inversion Hs; subst. cbn [fst snd]. destruct sa; cbn [fst snd]. split; [reflexivity|].
    intros. reflexivity.
Qed.

(* ---------------------------------------------------------------- conjugate_matrix *)
Definition is_conj_of rho (s : shape) (r e : mexpr) : Prop :=
  shp rho e = Some s ->
  shp rho r = Some s /\ forall i j, val rho r i j = econj (val rho e i j).

Lemma econj_invol a : econj (econj a) = a.
Proof. destruct a; apply ent_eq; unfold econj; cbn [fst snd]; ring. Qed.

Lemma econj_esum l : econj (esum l) = esum (map econj l).
Proof.
  induction l as [|x l IH]; cbn [map]; [rewrite esum_nil; apply econj_0|].
  rewrite !esum_cons, econj_add, IH. reflexivity.
Qed.

Lemma econj_eprod l : econj (eprod l) = eprod (map econj l).
Proof.
  induction l as [|x l IH]; cbn [map]; [rewrite eprod_nil; apply econj_1|].
  rewrite !eprod_cons, econj_mul, IH. reflexivity.
Qed.

Lemma conj_list rho s ts t :
  Forall2 (fun x y => conjugate_matrix x = Ok y) ts t ->
  Forall (fun e => forall r s, conjugate_matrix e = Ok r -> is_conj_of rho s r e) ts ->
  Forall (fun e => shp rho e = Some s) ts ->
  Forall (fun e => shp rho e = Some s) t /\
  forall i j, Forall2 (fun y x => val rho y i j = econj (val rho x i j)) t ts.
Proof.
  induction 1 as [|x y ts t Hxy _ IH]; intros HI Hs.
  - split; [constructor | intros; constructor].
  - inversion HI; subst. inversion Hs; subst.
    destruct (IH H2 H4) as [A B]. destruct (H1 y s Hxy H3) as [C D].
    split; [constructor; assumption|]. intros i j. constructor; auto.
Qed.

Lemma nth_map_econj i d : nth i (map econj d) e0 = econj (nth i d e0).
Proof. rewrite <- econj_0 at 1. apply map_nth. Qed.

Theorem conjugate_value rho e : forall r s, conjugate_matrix e = Ok r -> is_conj_of rho s r e.
Proof.
  induction e as [n|m n|x|d|m n v|ts H|k fs H|fs H|a IHa|a IHa] using mexpr_ind'; intros r s Ht Hs; cbn [conjugate_matrix] in Ht.
  - inversion Ht; subst. split; [assumption|]. intros. rewrite !val_MIdent. unfold delta.
    destruct (i =? j); [now rewrite econj_1 | now rewrite econj_0].
  - inversion Ht; subst. split; [assumption|]. intros. rewrite !val_MZero. now rewrite econj_0.
  - inversion Ht; subst. split; [assumption|]. intros. reflexivity.
  - inversion Ht; subst. rewrite shp_MDiag in *. split; [now rewrite map_length|].
    intros. rewrite !val_MDiag. destruct (i =? j); [apply nth_map_econj | now rewrite econj_0].
  - inversion Ht; subst. rewrite shp_MDense in *. split; [now rewrite map_length|].
    intros. rewrite !val_MDense. apply nth_map_econj.
  - destruct (mapM conjugate_matrix ts) as [t| | |] eqn:E; cbn [bind] in Ht; try discriminate.
    inversion Ht; subst. apply mapM_Forall2 in E.
    rewrite shp_MAdd in Hs. apply shape_all_Forall in Hs. destruct Hs as [Hne Hall].
    destruct (conj_list rho s ts t E H Hall) as [A B].
    split.
    + rewrite shp_MAdd. apply Forall_shape_all; [|assumption]. eapply Forall2_nonempty; eauto.
    + intros i j. rewrite !val_MAdd, econj_esum, map_map. apply esum_Forall2. apply B.
  - inversion Ht; subst. split; [assumption|]. intros. reflexivity.
  - destruct (mapM conjugate_matrix fs) as [t| | |] eqn:E; cbn [bind] in Ht; try discriminate.
    inversion Ht; subst. apply mapM_Forall2 in E.
    rewrite shp_MHad in Hs. apply shape_all_Forall in Hs. destruct Hs as [Hne Hall].
    destruct (conj_list rho s fs t E H Hall) as [A B].
    split.
    + rewrite shp_MHad. apply Forall_shape_all; [|assumption]. eapply Forall2_nonempty; eauto.
    + intros i j. rewrite !val_MHad, econj_eprod, map_map. apply eprod_Forall2. apply B.
  - inversion Ht; subst. rewrite shp_MConj in Hs. split; [assumption|].
    intros. rewrite val_MConj. now rewrite econj_invol.
  - inversion Ht; subst. split; [assumption|]. intros. reflexivity.
Qed.

(* ---------------------------------------------------------------- size *)
(* a reported dimension is the true one *)
Definition size_ok rho (sz : osize) (s : shape) : Prop :=
  (forall d, fst sz = Some d -> dval rho d = fst s) /\
  (forall d, snd sz = Some d -> dval rho d = snd s).

Lemma upd_dim_cases cur nw : upd_dim cur nw = cur \/ upd_dim cur nw = nw.
Proof.
  unfold upd_dim. destruct nw as [d|]; [|now left].
  destruct (dim_is_int d); [now right|]. destruct cur; [now left | now right].
Qed.

Lemma all_same_rest_ok rho s rest cur :
  size_ok rho cur s -> Forall (fun z => size_ok rho z s) rest -> size_ok rho (all_same_rest rest cur) s.
Proof.
  revert cur. induction rest as [|z rest IH]; intros cur Hc Hr; cbn [all_same_rest]; [assumption|].
  inversion Hr; subst.
  assert (Hn : size_ok rho (upd_dim (fst cur) (fst z), upd_dim (snd cur) (snd z)) s).
  { destruct Hc as [C1 C2], H1 as [Z1 Z2]. split; cbn [fst snd]; intros d Hd.
    - destruct (upd_dim_cases (fst cur) (fst z)) as [E|E]; rewrite E in Hd; auto.
    - destruct (upd_dim_cases (snd cur) (snd z)) as [E|E]; rewrite E in Hd; auto. }
  destruct (both_int _); [assumption|]. now apply IH.
Qed.

Lemma all_same_size_ok rho s sizes :
  Forall (fun z => size_ok rho z s) sizes -> size_ok rho (all_same_size sizes) s.
Proof.
  destruct sizes as [|z r]; intros H; cbn [all_same_size].
  - split; cbn; discriminate.
  - inversion H; subst. destruct (both_int z); [assumption|]. now apply all_same_rest_ok.
Qed.

Lemma shape_chain_Some l s :
  shape_chain l = Some s ->
  exists a b, hd None l = Some a /\ last l None = Some b /\ fst a = fst s /\ snd b = snd s.
Proof.
  revert s. induction l as [|x l IH]; intros s H; cbn [shape_chain] in H; [discriminate|].
  destruct l as [|y l'].
  - subst x. exists s, s. cbn. auto.
  - destruct x as [a|]; [|discriminate].
    destruct (shape_chain (y :: l')) as [b|] eqn:E; [|discriminate].
    destruct (snd a =? fst b); [|discriminate]. inversion H; subst. cbn [fst snd].
    destruct (IH b eq_refl) as (a' & b' & _ & Hl & _ & Hb).
    exists a, b'. cbn [hd]. split; [reflexivity|]. split; [exact Hl|]. split; [reflexivity | assumption].
Qed.

Lemma last_map {A B} (f : A -> B) l d : last (map f l) (f d) = f (last l d).
Proof.
  revert d. induction l as [|x l IH]; intros d; [reflexivity|].
  cbn [map]. destruct l as [|y l]; [reflexivity|].
  change (last (f x :: map f (y :: l)) (f d)) with (last (map f (y :: l)) (f d)).
  change (last (x :: y :: l) d) with (last (y :: l) d). apply IH.
Qed.

Lemma last_default_irrel {A} (l : list A) d d' : l <> [] -> last l d = last l d'.
Proof.
  induction l as [|x l IH]; intros H; [congruence|].
  destruct l as [|y l]; [reflexivity|].
  change (last (x :: y :: l) d) with (last (y :: l) d).
  change (last (x :: y :: l) d') with (last (y :: l) d'). apply IH. discriminate.
Qed.

Lemma last_cons_default {A} (x : A) l d : last (x :: l) d = last l x.
Proof.
  destruct l as [|y l]; [reflexivity|].
  change (last (x :: y :: l) d) with (last (y :: l) d). apply last_default_irrel. discriminate.
Qed.

Lemma last_In_cons {A} (x : A) l : In (last l x) (x :: l).
Proof.
  revert x. induction l as [|y l IH]; intros x; [now left|].
  right. rewrite last_cons_default. apply IH.
Qed.

Lemma shp_MMul rho k fs : shp rho (MMul k fs) = shape_chain (map (shp rho) fs).
Proof. unfold shp. cbn [sem fst]. now rewrite map_map. Qed.

Theorem size_sound rho e : forall s, shp rho e = Some s -> size_ok rho (size e) s.
Proof.
  induction e as [n|m n|x|d|m n v|ts H|k fs H|fs H|a IHa|a IHa] using mexpr_ind'; intros s Hs; cbn [size].
  - rewrite shp_MIdent in Hs. inversion Hs; subst. split; cbn [fst snd]; intros d E; inversion E; reflexivity.
  - rewrite shp_MZero in Hs. inversion Hs; subst. split; cbn [fst snd]; intros d E; inversion E; reflexivity.
  - split; cbn; discriminate.
  - rewrite shp_MDiag in Hs. inversion Hs; subst. split; cbn [fst snd]; intros d0 E; inversion E; reflexivity.
  - apply shp_MDense_Some in Hs. destruct Hs as [_ ->]. split; cbn [fst snd]; intros d0 E; inversion E; reflexivity.
  - rewrite shp_MAdd in Hs. apply shape_all_Forall in Hs. destruct Hs as [_ Hall].
    apply all_same_size_ok. apply Forall_map. rewrite Forall_forall in *. intros x Hx. apply H; auto.
  - rewrite shp_MMul in Hs. apply shape_chain_Some in Hs.
    destruct Hs as (a & b & Hh & Hl & Ha & Hb).
    destruct fs as [|f0 fr]; [discriminate|]. cbn [map hd] in Hh.
    inversion H; subst.
    cbn [map]. split; cbn [fst snd]; intros d E.
    + destruct (H2 a Hh) as [A _]. rewrite <- Ha. now apply A.
    + assert (Hlast : exists fl, In fl (f0 :: fr) /\ last (map size fr) (size f0) = size fl
                                 /\ shp rho fl = Some b).
      { exists (last fr f0). split; [apply last_In_cons|]. split; [apply last_map|].
        cbn [map] in Hl. rewrite last_cons_default in Hl. now rewrite last_map in Hl. }
      destruct Hlast as (fl & Hin & E1 & E2). rewrite E1 in E.
      rewrite Forall_forall in H. destruct (H fl Hin b E2) as [_ B]. rewrite <- Hb. now apply B.
  - rewrite shp_MHad in Hs. apply shape_all_Forall in Hs. destruct Hs as [_ Hall].
    apply all_same_size_ok. apply Forall_map. rewrite Forall_forall in *. intros x Hx. apply H; auto.
  - split; cbn; discriminate.
  - split; cbn; discriminate.
Qed.
