(* C26 -- predicates, part 4: is_toeplitz (is_toeplitz.cpp, after the repair 2bc9483 of the
   diagonal start bounds). *)
From SE Require Import C26.MatSpec C26.MatLemmas C26.MatAddProofs C26.MatPredBase C26.MatPredRules.
From Coq Require Import Lia Ring.
Local Open Scope nat_scope.
Local Open Scope res_scope.

(* ---------------------------------------------------------------- diagonal matrices *)
Lemma diag_is_toeplitz_sound rho d :
  sound_answer (diag_is_toeplitz d) P_toeplitz rho (MDiag d).
Proof.
  intros V HV. apply denote_Some in HV. destruct HV as (s & Hs & ->).
  rewrite shp_MDiag in Hs. inversion Hs; subst s. unfold P_toeplitz. cbn [fst snd mr mc mf].
  destruct d as [|first [|x1 rest]].
  - cbn. split; [|discriminate]. intros _ i j Hi; lia.
  - cbn [diag_is_toeplitz length]. split; [|discriminate]. intros _ i j Hi; lia.
  - cbn [diag_is_toeplitz].
    set (d := first :: x1 :: rest).
    assert (Hdef : forall x, tz (esub first x) = TT \/ tz (esub first x) = TF) by (intros; apply tz_cases).
    destruct (diag_all_spec (fun x => tz (esub first x)) Hdef (x1 :: rest)) as [[E H]|[E H]]; rewrite E.
    + split; [|discriminate]. intros _ i j Hi Hj. rewrite !val_MDiag.
      assert (Hall : forall k, k < length d -> nth k d e0 = first).
      { intros [|k] Hk; [reflexivity|]. change (nth (S k) d e0) with (nth k (x1 :: rest) e0).
        assert (Hk' : k < length (x1 :: rest)) by (unfold d in Hk; cbn [length] in *; lia).
        pose proof (Forall_nth_e0 _ _ k H Hk') as G. cbn beta in G. apply tz_TT in G. apply (proj1 (esub_zero_iff _ _)) in G.
        exact (eq_sym G). }
      change (S i =? S j) with (i =? j). destruct (i =? j); [|reflexivity].
      rewrite !Hall by lia. reflexivity.
    + split; [discriminate|]. intros _ HP. apply (Exists_nth _ _ e0) in H. destruct H as (k & Hk & Hp).
      apply tz_TF in Hp. apply Hp. apply esub_zero_iff.
      (* all diagonal entries are equal *)
      assert (G : forall q, S q < length d -> nth (S q) d e0 = nth 0 d e0).
      { induction q as [|q IHq]; intros Hq.
        - specialize (HP 0 0 Hq Hq). rewrite !val_MDiag in HP. cbn [Nat.eqb] in HP. now symmetry.
        - specialize (HP (S q) (S q) Hq Hq). rewrite !val_MDiag, !Nat.eqb_refl in HP.
          rewrite <- HP. apply IHq. lia. }
      symmetry. apply (G k). unfold d. cbn [length] in *. lia.
Qed.

(* ---------------------------------------------------------------- dense matrices *)
Definition tchk (n : nat) (v : list ent) (first : ent) (st : nat * nat) (k : nat) : res tri :=
  do e <- dget n v (fst st + S k) (snd st + S k); Ok (tz (esub first e)).

Lemma in_toeplitz_starts m n i0 j0 :
  In (i0, j0) (toeplitz_starts m n) <->
  exists w, w < Nat.max m n - 1 /\ ((i0 = 0 /\ j0 = w /\ w < n) \/ (i0 = w /\ j0 = 0 /\ w < m /\ w <> 0)).
Proof.
  unfold toeplitz_starts. rewrite in_flat_map. split.
  - intros (w & Hw & Hin). apply in_seq in Hw. exists w. split; [lia|].
    apply in_app_or in Hin. destruct Hin as [Hin|Hin].
    + destruct (Nat.ltb_spec w n); [|destruct Hin]. destruct Hin as [E|[]]. inversion E; subst. left. auto.
    + destruct (Nat.ltb_spec w m); cbn [andb] in Hin; [|destruct Hin].
      destruct (Nat.eqb_spec w 0); cbn [negb] in Hin; [destruct Hin|].
      destruct Hin as [E|[]]. inversion E; subst. right. auto.
  - intros (w & Hw & [(-> & -> & Hn)|(-> & -> & Hm & Hz)]); exists w.
    + split; [apply in_seq; lia|]. apply in_or_app. left.
      apply Nat.ltb_lt in Hn. rewrite Hn. now left.
    + split; [apply in_seq; lia|]. apply in_or_app. right.
      apply Nat.ltb_lt in Hm. rewrite Hm. apply Nat.eqb_neq in Hz. rewrite Hz. now left.
Qed.

Definition tcnt (m n : nat) (st : nat * nat) : nat := Nat.min (m - S (fst st)) (n - S (snd st)).

(* the nested loops, under the hypothesis that every read succeeds *)
Lemma toeplitz_loops m n v (starts : list (nat * nat)) :
  (forall st, In st starts -> fst st * n + snd st < length v) ->
  (forall st k, In st starts -> k < tcnt m n st -> (fst st + S k) * n + (snd st + S k) < length v) ->
  let first st := nth (fst st * n + snd st) v e0 in
  let outer := loop_tri (fun st cur =>
      do f <- dget n v (fst st) (snd st);
      loop_tri (fun k cur' =>
          do e <- dget n v (fst st + S k) (snd st + S k);
          Ok (and_tri cur' (tz (esub f e))))
        (seq 0 (tcnt m n st)) cur) starts TT in
  exists t, outer = Ok t /\
    ((t = TT /\ forall st k, In st starts -> k < tcnt m n st -> tchk n v (first st) st k = Ok TT) \/
     (t = TF /\ exists st k, In st starts /\ k < tcnt m n st /\ tchk n v (first st) st k = Ok TF)).
Proof.
  intros Hget Hget2 first. cbn zeta.
  induction starts as [|st starts IH]; cbn [loop_tri].
  - exists TT. split; [reflexivity|]. left. split; [reflexivity | intros st k []].
  - unfold dget at 1. rewrite rd_lt by (apply Hget; now left). cbn [bind]. fold (first st).
    rewrite (loop_tri_ext _ (fun k cur' => do b <- tchk n v (first st) st k; Ok (and_tri cur' b))).
    2:{ intros k cur' _. unfold tchk. destruct (dget n v (fst st + S k) (snd st + S k)); reflexivity. }
    assert (Hdef : forall k, In k (seq 0 (tcnt m n st)) ->
                     tchk n v (first st) st k = Ok TT \/ tchk n v (first st) st k = Ok TF).
    { intros k Hk. apply in_seq in Hk. unfold tchk, dget.
      rewrite rd_lt by (apply Hget2; [now left | lia]). cbn [bind].
      destruct (tz_cases (esub (first st) (nth ((fst st + S k) * n + (snd st + S k)) v e0))) as [-> | ->]; auto. }
    destruct (loop_and_spec (tchk n v (first st) st) (seq 0 (tcnt m n st)) Hdef) as [[E A]|[E (k & Hk & Ek)]];
      rewrite E; cbn [bind is_false].
    + destruct IH as (t' & E' & H').
      * intros; apply Hget; now right.
      * intros; apply Hget2; [now right | assumption].
      * exists t'. split; [exact E'|]. destruct H' as [[-> A']|[-> (st' & k' & Hin & Hk' & Ek')]].
        -- left. split; [reflexivity|]. intros st0 k0 [<-|Hin] Hk0.
           ++ apply A. apply in_seq. lia.
           ++ now apply A'.
        -- right. split; [reflexivity|]. exists st', k'. split; [now right | auto].
    + exists TF. split; [reflexivity|]. right. split; [reflexivity|].
      exists st, k. apply in_seq in Hk. split; [now left|]. split; [lia | assumption].
Qed.

Lemma diag_const (f : nat -> nat -> ent) m n i0 j0 :
  (forall i j, S i < m -> S j < n -> f i j = f (S i) (S j)) ->
  forall k, i0 + k < m -> j0 + k < n -> f (i0 + k) (j0 + k) = f i0 j0.
Proof.
  intros H. induction k as [|k IH]; intros Hi Hj.
  - now rewrite !Nat.add_0_r.
  - rewrite !Nat.add_succ_r. rewrite <- H by lia. apply IH; lia.
Qed.

Lemma dense_is_toeplitz_sound rho m n v t :
  1 <= m -> 1 <= n ->
  dense_is_toeplitz m n v = Ok t -> sound_answer t P_toeplitz rho (MDense m n v).
Proof.
  intros Hm1 Hn1 H V HV. apply denote_Some in HV. destruct HV as (s & Hs & ->).
  apply shp_MDense_Some in Hs. destruct Hs as [Lv ->]. unfold P_toeplitz. cbn [fst snd mr mc mf].
  unfold dense_is_toeplitz in H.
  assert (Hget : forall st, In st (toeplitz_starts m n) -> fst st * n + snd st < length v).
  { intros [i0 j0] Hin. apply in_toeplitz_starts in Hin. cbn [fst snd]. rewrite Lv.
    destruct Hin as (w & Hw & [(-> & -> & Hn)|(-> & -> & Hm & Hz)]); nia. }
  assert (Hget2 : forall st k, In st (toeplitz_starts m n) -> k < tcnt m n st ->
                    (fst st + S k) * n + (snd st + S k) < length v).
  { intros [i0 j0] k Hin Hk. unfold tcnt in Hk. cbn [fst snd] in *. rewrite Lv. nia. }
  destruct (toeplitz_loops m n v (toeplitz_starts m n) Hget Hget2) as (t0 & E & [[-> A]|[-> (st & k & Hin & Hk & Ek)]]);
    unfold tcnt in *; rewrite E in H; inversion H; subst t.
  - split; [|discriminate]. intros _ i j Hi Hj. rewrite !val_MDense.
    (* the diagonal through (i, j) starts at (i - d, j - d), d = min i j *)
    set (d := Nat.min i j). set (i0 := i - d). set (j0 := j - d).
    assert (Hst : In (i0, j0) (toeplitz_starts m n)).
    { apply in_toeplitz_starts. subst i0 j0 d.
      destruct (Nat.le_gt_cases j i).
      - rewrite Nat.min_r by lia. destruct (Nat.eq_dec i j) as [->|Hne].
        + exists 0. split; [lia|]. left. repeat split; lia.
        + exists (i - j). split; [lia|]. right. repeat split; lia.
      - rewrite Nat.min_l by lia. exists (j - i). split; [lia|]. left. repeat split; lia. }
    assert (Hq : forall q, i0 + S q < m -> j0 + S q < n ->
               nth ((i0 + S q) * n + (j0 + S q)) v e0 = nth (i0 * n + j0) v e0).
    { intros q Hq1 Hq2. specialize (A (i0, j0) q Hst). cbn [fst snd] in A.
      assert (Hlt : q < Nat.min (m - S i0) (n - S j0)) by lia. specialize (A Hlt).
      unfold tchk, dget in A. cbn [fst snd] in A. rewrite rd_lt in A by (rewrite Lv; nia).
      cbn [bind] in A. injection A as A. apply tz_TT in A. apply (proj1 (esub_zero_iff _ _)) in A. now symmetry. }
    assert (Ei : i = i0 + d) by (subst i0 d; lia). assert (Ej : j = j0 + d) by (subst j0 d; lia).
    clearbody i0 j0 d.
    destruct d as [|d'].
    + rewrite Nat.add_0_r in Ei, Ej. subst i j.
      replace (S i0) with (i0 + 1) by lia. replace (S j0) with (j0 + 1) by lia.
      symmetry. apply Hq; lia.
    + rewrite Ei, Ej.
      replace (S (i0 + S d')) with (i0 + S (S d')) by lia. replace (S (j0 + S d')) with (j0 + S (S d')) by lia.
      rewrite (Hq d') by lia. symmetry. apply Hq; lia.
  - split; [discriminate|]. intros _ HP. destruct st as [i0 j0]. cbn [fst snd] in *.
    unfold tchk, dget in Ek. cbn [fst snd] in Ek. rewrite rd_lt in Ek by (rewrite Lv; nia).
    cbn [bind] in Ek. injection Ek as Ek. apply tz_TF in Ek. apply Ek. apply esub_zero_iff.
    pose proof (diag_const (fun a b => nth (a * n + b) v e0) m n i0 j0) as G. cbn beta in G.
    symmetry. apply G; [|lia|lia].
    intros a b Ha Hb. specialize (HP a b Ha Hb). now rewrite !val_MDense in HP.
Qed.

Lemma dense_is_toeplitz_total m n v :
  1 <= m -> 1 <= n -> length v = m * n -> exists t, dense_is_toeplitz m n v = Ok t.
Proof.
  intros Hm1 Hn1 Lv. unfold dense_is_toeplitz.
  assert (Hget : forall st, In st (toeplitz_starts m n) -> fst st * n + snd st < length v).
  { intros [i0 j0] Hin. apply in_toeplitz_starts in Hin. cbn [fst snd]. rewrite Lv.
    destruct Hin as (w & Hw & [(-> & -> & Hn)|(-> & -> & Hm & Hz)]); nia. }
  assert (Hget2 : forall st k, In st (toeplitz_starts m n) -> k < tcnt m n st ->
                    (fst st + S k) * n + (snd st + S k) < length v).
  { intros [i0 j0] k Hin Hk. unfold tcnt in Hk. cbn [fst snd] in *. rewrite Lv. nia. }
  destruct (toeplitz_loops m n v (toeplitz_starts m n) Hget Hget2) as (t0 & E & _);
    unfold tcnt in *; rewrite E; eauto.
Qed.

Theorem is_toeplitz_sound rho e t :
  wf e = true -> is_toeplitz e = Ok t -> sound_answer t P_toeplitz rho e.
Proof.
  intros Hwf H. destruct e; cbn [is_toeplitz] in H; try (inversion H; subst; intros V _; split; discriminate).
  - inversion H; subst. intros V HV. split; [|discriminate]. intros _ i j _ _.
    apply denote_Some in HV. destruct HV as (s & Hs & ->). cbn [mf]. rewrite !val_MIdent. unfold delta.
    change (S i =? S j) with (i =? j). reflexivity.
  - inversion H; subst. intros V HV. split; [|discriminate]. intros _ i j _ _.
    apply denote_Some in HV. destruct HV as (s & Hs & ->). reflexivity.
  - inversion H; subst. apply diag_is_toeplitz_sound.
  - cbn [wf] in Hwf. apply andb_true_iff in Hwf. destruct Hwf as [Hwf _].
    apply andb_true_iff in Hwf. destruct Hwf as [A B]. apply Nat.leb_le in A. apply Nat.leb_le in B.
    now apply dense_is_toeplitz_sound.
Qed.
