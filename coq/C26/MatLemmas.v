(* C26 -- basic lemmas: induction on expressions, entries, sums, the monadic loops of the model. *)
From SE Require Import C26.MatSpec.
From Coq Require Import Lia Ring.
Local Open Scope nat_scope.
Local Open Scope res_scope.

Global Arguments eadd : simpl never.
Global Arguments emul : simpl never.
Global Arguments esub : simpl never.
Global Arguments econj : simpl never.
Global Arguments e_eqb : simpl never.
Global Arguments e_is_zero : simpl never.
Global Arguments e_is_one : simpl never.
Global Arguments e_is_real : simpl never.
Global Arguments e_of_nat : simpl never.
Global Arguments tz : simpl never.
Global Arguments trl : simpl never.
Global Arguments Nat.mul : simpl never.
Global Arguments Nat.add : simpl never.
Global Arguments Nat.sub : simpl never.

(* ---------------------------------------------------------------- induction on expressions *)
Section MexprInd.
  Variable P : mexpr -> Prop.
  Hypothesis HI : forall n, P (MIdent n).
  Hypothesis HZ : forall m n, P (MZero m n).
  Hypothesis HS : forall x, P (MSym x).
  Hypothesis HD : forall d, P (MDiag d).
  Hypothesis HM : forall m n v, P (MDense m n v).
  Hypothesis HA : forall ts, Forall P ts -> P (MAdd ts).
  Hypothesis HP : forall k fs, Forall P fs -> P (MMul k fs).
  Hypothesis HH : forall fs, Forall P fs -> P (MHad fs).
  Hypothesis HC : forall a, P a -> P (MConj a).
  Hypothesis HT : forall a, P a -> P (MTrans a).

  Fixpoint mexpr_ind' (e : mexpr) : P e :=
    match e with
    | MIdent n => HI n
    | MZero m n => HZ m n
    | MSym x => HS x
    | MDiag d => HD d
    | MDense m n v => HM m n v
    | MAdd ts => HA ts ((fix go (l : list mexpr) : Forall P l :=
                           match l with [] => Forall_nil _ | x :: r => Forall_cons _ (mexpr_ind' x) (go r) end) ts)
    | MMul k fs => HP k fs ((fix go (l : list mexpr) : Forall P l :=
                           match l with [] => Forall_nil _ | x :: r => Forall_cons _ (mexpr_ind' x) (go r) end) fs)
    | MHad fs => HH fs ((fix go (l : list mexpr) : Forall P l :=
                           match l with [] => Forall_nil _ | x :: r => Forall_cons _ (mexpr_ind' x) (go r) end) fs)
    | MConj a => HC a (mexpr_ind' a)
    | MTrans a => HT a (mexpr_ind' a)
    end.
End MexprInd.

(* ---------------------------------------------------------------- entries *)
Lemma qc_eqb_eq (a b : Qc) : qc_eqb a b = true <-> a = b.
Proof.
  unfold qc_eqb. rewrite Qeq_bool_iff. split.
  - apply Qc_is_canon.
  - intros ->. reflexivity.
Qed.

Lemma e_eqb_eq (a b : ent) : e_eqb a b = true <-> a = b.
Proof.
  unfold e_eqb. rewrite andb_true_iff, !qc_eqb_eq. destruct a, b; cbn. split.
  - intros [-> ->]; reflexivity.
  - intros H; inversion H; auto.
Qed.

Lemma e_is_zero_iff a : e_is_zero a = true <-> a = e0.
Proof. apply e_eqb_eq. Qed.
Lemma e_is_zero_false a : e_is_zero a = false <-> a <> e0.
Proof. rewrite <- e_is_zero_iff. destruct (e_is_zero a); split; congruence. Qed.
Lemma e_is_real_iff a : e_is_real a = true <-> snd a = qc0.
Proof. apply qc_eqb_eq. Qed.
Lemma e_is_real_false a : e_is_real a = false <-> snd a <> qc0.
Proof. rewrite <- e_is_real_iff. destruct (e_is_real a); split; congruence. Qed.

Lemma esub_zero_iff a b : esub a b = e0 <-> a = b.
Proof.
  unfold esub. split; intros H.
  - assert (E : a = eadd (eadd a (emul em1 b)) b).
    { destruct a, b; apply ent_eq; unfold eadd, emul, em1, qc0, qc1; cbn [fst snd]; ring. }
    rewrite E, H. ring.
  - subst. destruct b; apply ent_eq; unfold eadd, emul, em1, e0, qc0, qc1; cbn [fst snd]; ring.
Qed.

Lemma tz_TT a : tz a = TT <-> a = e0.
Proof. unfold tz, tri_of_bool. rewrite <- e_is_zero_iff. destruct (e_is_zero a); split; congruence. Qed.
Lemma tz_TF a : tz a = TF <-> a <> e0.
Proof. unfold tz, tri_of_bool. rewrite <- e_is_zero_false. destruct (e_is_zero a); split; congruence. Qed.
Lemma tz_cases a : tz a = TT \/ tz a = TF.
Proof. unfold tz, tri_of_bool. destruct (e_is_zero a); auto. Qed.

Lemma emul_0_l a : emul e0 a = e0. Proof. ring. Qed.
Lemma emul_0_r a : emul a e0 = e0. Proof. ring. Qed.
Lemma eadd_0_l a : eadd e0 a = a. Proof. ring. Qed.
Lemma eadd_0_r a : eadd a e0 = a. Proof. ring. Qed.
Lemma emul_1_l a : emul e1 a = a. Proof. ring. Qed.
Lemma emul_1_r a : emul a e1 = a. Proof. ring. Qed.

Lemma econj_add a b : econj (eadd a b) = eadd (econj a) (econj b).
Proof. destruct a, b; apply ent_eq; unfold econj, eadd; cbn [fst snd]; ring. Qed.
Lemma econj_mul a b : econj (emul a b) = emul (econj a) (econj b).
Proof. destruct a, b; apply ent_eq; unfold econj, emul; cbn [fst snd]; ring. Qed.
Lemma econj_0 : econj e0 = e0.
Proof. apply ent_eq; unfold econj, e0, qc0; cbn [fst snd]; ring. Qed.
Lemma econj_1 : econj e1 = e1.
Proof. apply ent_eq; unfold econj, e1, qc0, qc1; cbn [fst snd]; ring. Qed.

(* ---------------------------------------------------------------- sums and products *)
Lemma esum_nil : esum [] = e0. Proof. reflexivity. Qed.
Lemma esum_cons x l : esum (x :: l) = eadd x (esum l). Proof. reflexivity. Qed.
Lemma eprod_nil : eprod [] = e1. Proof. reflexivity. Qed.
Lemma eprod_cons x l : eprod (x :: l) = emul x (eprod l). Proof. reflexivity. Qed.
Global Arguments esum : simpl never.
Global Arguments eprod : simpl never.
Ltac sumsimp := cbn [app map]; rewrite ?esum_cons, ?esum_nil, ?eprod_cons, ?eprod_nil.

Lemma esum_app l1 l2 : esum (l1 ++ l2) = eadd (esum l1) (esum l2).
Proof. induction l1 as [|x r IH]; sumsimp; [ring|]. rewrite IH. ring. Qed.

Lemma eprod_app l1 l2 : eprod (l1 ++ l2) = emul (eprod l1) (eprod l2).
Proof. induction l1 as [|x r IH]; sumsimp; [ring|]. rewrite IH. ring. Qed.

Lemma eprod_zero l : In e0 l -> eprod l = e0.
Proof.
  induction l as [|x r IH]; cbn [In]; [tauto|]. sumsimp.
  intros [->|H]; [ring|]. rewrite IH by assumption. ring.
Qed.

Lemma esum_map_ext {A} (f g : A -> ent) l :
  (forall x, In x l -> f x = g x) -> esum (map f l) = esum (map g l).
Proof.
  induction l as [|x r IH]; intros H; sumsimp; [reflexivity|].
  rewrite H by (now left). rewrite IH; [reflexivity|]. intros; apply H; now right.
Qed.

Lemma esum_map_add {A} (f g : A -> ent) l :
  esum (map (fun x => eadd (f x) (g x)) l) = eadd (esum (map f l)) (esum (map g l)).
Proof. induction l as [|x r IH]; sumsimp; [ring|]. rewrite IH. ring. Qed.

Lemma esum_map_scale_l {A} c (f : A -> ent) l :
  esum (map (fun x => emul c (f x)) l) = emul c (esum (map f l)).
Proof. induction l as [|x r IH]; sumsimp; [ring|]. rewrite IH. ring. Qed.

Lemma esum_map_scale_r {A} c (f : A -> ent) l :
  esum (map (fun x => emul (f x) c) l) = emul (esum (map f l)) c.
Proof. induction l as [|x r IH]; sumsimp; [ring|]. rewrite IH. ring. Qed.

Lemma esum_map_zero {A} (l : list A) : esum (map (fun _ => e0) l) = e0.
Proof. induction l as [|x r IH]; sumsimp; [reflexivity|]. rewrite IH. ring. Qed.

Lemma esum_map_swap {A B} (f : A -> B -> ent) la lb :
  esum (map (fun a => esum (map (fun b => f a b) lb)) la)
  = esum (map (fun b => esum (map (fun a => f a b) la)) lb).
Proof.
  induction la as [|a r IH]; sumsimp.
  - now rewrite esum_map_zero.
  - rewrite IH, <- esum_map_add. apply esum_map_ext. intros b _. reflexivity.
Qed.

Lemma esum_n_ext n f g : (forall k, k < n -> f k = g k) -> esum_n n f = esum_n n g.
Proof. intros H. apply esum_map_ext. intros x Hx. apply in_seq in Hx. apply H. lia. Qed.

Lemma esum_n_zero n : esum_n n (fun _ => e0) = e0.
Proof. apply esum_map_zero. Qed.

Lemma esum_n_add n f g : esum_n n (fun k => eadd (f k) (g k)) = eadd (esum_n n f) (esum_n n g).
Proof. apply esum_map_add. Qed.

Lemma esum_n_scale_l n c f : esum_n n (fun k => emul c (f k)) = emul c (esum_n n f).
Proof. apply esum_map_scale_l. Qed.

Lemma esum_n_scale_r n c f : esum_n n (fun k => emul (f k) c) = emul (esum_n n f) c.
Proof. apply esum_map_scale_r. Qed.

Lemma esum_n_swap n m f :
  esum_n n (fun k => esum_n m (fun l => f k l)) = esum_n m (fun l => esum_n n (fun k => f k l)).
Proof. apply esum_map_swap. Qed.

Lemma esum_n_S n f : esum_n (S n) f = eadd (esum_n n f) (f n).
Proof.
  unfold esum_n. rewrite seq_S, map_app, esum_app. sumsimp. rewrite Nat.add_0_l. ring.
Qed.

(* sum of f k * [k = k0] *)
Lemma esum_n_delta_r n f k0 :
  esum_n n (fun k => emul (f k) (delta k k0)) = if k0 <? n then f k0 else e0.
Proof.
  induction n as [|n IH].
  - reflexivity.
  - rewrite esum_n_S, IH. unfold delta.
    destruct (Nat.ltb_spec k0 n), (Nat.ltb_spec k0 (S n)), (Nat.eqb_spec n k0); try lia; subst; ring.
Qed.

Lemma esum_n_delta_l n f k0 :
  esum_n n (fun k => emul (delta k0 k) (f k)) = if k0 <? n then f k0 else e0.
Proof.
  rewrite <- esum_n_delta_r. apply esum_n_ext. intros k _. unfold delta.
  rewrite (Nat.eqb_sym k0 k). ring.
Qed.

(* ---------------------------------------------------------------- monadic loops *)
Lemma rd_Ok {A} (l : list A) i x : rd l i = Ok x <-> nth_error l i = Some x.
Proof. unfold rd, oob. destruct (nth_error l i); split; congruence. Qed.

Lemma rd_nth (l : list ent) i x : rd l i = Ok x -> i < length l /\ nth i l e0 = x.
Proof.
  rewrite rd_Ok. intros H. split.
  - apply nth_error_Some. congruence.
  - now apply nth_error_nth.
Qed.

Lemma rd_lt (l : list ent) i : i < length l -> rd l i = Ok (nth i l e0).
Proof.
  intros H. apply rd_Ok. apply nth_error_nth'. assumption.
Qed.

Lemma rd_ge {A} (l : list A) i : length l <= i -> rd l i = oob i (length l).
Proof. intros H. unfold rd. apply nth_error_None in H. now rewrite H. Qed.

Lemma mapM_Forall2 {A B} (f : A -> res B) l r :
  mapM f l = Ok r <-> Forall2 (fun x y => f x = Ok y) l r.
Proof.
  revert r. induction l as [|x l IH]; intros r; cbn.
  - split; intros H; [inversion H; constructor | inversion H; reflexivity].
  - destruct (f x) as [y| | |] eqn:E; cbn; try (split; intros H; [discriminate | inversion H; congruence]).
    destruct (mapM f l) as [ys| | |] eqn:E2; cbn;
      try (split; intros H; [discriminate | inversion H; subst; apply IH in H4; congruence]).
    split; intros H.
    + inversion H; subst. constructor; [assumption | now apply IH].
    + inversion H; subst. apply IH in H4. congruence.
Qed.

Lemma mapM_length {A B} (f : A -> res B) l r : mapM f l = Ok r -> length r = length l.
Proof. rewrite mapM_Forall2. intros H. induction H; cbn; congruence. Qed.

Lemma mapM_nth {A B} (f : A -> res B) l r da db i :
  mapM f l = Ok r -> i < length l -> f (nth i l da) = Ok (nth i r db).
Proof.
  rewrite mapM_Forall2. intros H. revert i. induction H; intros i Hi; cbn in *; [lia|].
  destruct i; [assumption|]. apply IHForall2. lia.
Qed.

Lemma mapM_total {A B} (f : A -> res B) l :
  (forall x, In x l -> exists y, f x = Ok y) -> exists r, mapM f l = Ok r.
Proof.
  induction l as [|x l IH]; intros H; cbn.
  - eauto.
  - destruct (H x (or_introl eq_refl)) as [y ->]. cbn.
    destruct IH as [r ->]; [intros; apply H; now right|]. cbn. eauto.
Qed.

Lemma mapM_ext {A B} (f g : A -> res B) l :
  (forall x, In x l -> f x = g x) -> mapM f l = mapM g l.
Proof.
  induction l as [|x l IH]; intros H; cbn; [reflexivity|].
  rewrite H by (now left). rewrite IH; [reflexivity|]. intros; apply H; now right.
Qed.

(* row-major enumeration *)
Lemma list_prod_nth (m n i j : nat) :
  i < m -> j < n -> nth (i * n + j) (list_prod (seq 0 m) (seq 0 n)) (0, 0) = (i, j).
Proof.
  intros Hi Hj.
  assert (G : forall a, nth (i * n + j) (list_prod (seq a m) (seq 0 n)) (0, 0) = (a + i, j)).
  { revert i Hi. induction m as [|m IH]; intros i Hi a; [lia|].
    cbn [seq list_prod].
    destruct i as [|i].
    - cbn [Nat.mul Nat.add]. rewrite app_nth1 by (rewrite map_length, seq_length; assumption).
      rewrite (nth_indep _ (0,0) ((fun y => (a, y)) 0)) by (rewrite map_length, seq_length; assumption).
      rewrite map_nth, seq_nth by assumption. f_equal; lia.
    - rewrite app_nth2 by (rewrite map_length, seq_length; lia).
      rewrite map_length, seq_length.
      replace (S i * n + j - n) with (i * n + j) by lia.
      rewrite IH by lia. f_equal; lia. }
  apply G.
Qed.

Lemma list_prod_length {A B} (l1 : list A) (l2 : list B) : length (list_prod l1 l2) = length l1 * length l2.
Proof. apply prod_length. Qed.

Lemma tab2_spec {B} (m n : nat) (f : nat -> nat -> res B) r d :
  tab2 m n f = Ok r ->
  length r = m * n /\ forall i j, i < m -> j < n -> f i j = Ok (nth (i * n + j) r d).
Proof.
  unfold tab2. intros H. split.
  - apply mapM_length in H. rewrite H, list_prod_length, !seq_length. reflexivity.
  - intros i j Hi Hj.
    pose proof (mapM_nth _ _ _ (0,0) d (i * n + j) H) as G.
    rewrite list_prod_length, !seq_length in G.
    rewrite list_prod_nth in G by assumption. cbn in G. apply G. nia.
Qed.

Lemma tab2_total {B} (m n : nat) (f : nat -> nat -> res B) :
  (forall i j, i < m -> j < n -> exists y, f i j = Ok y) -> exists r, tab2 m n f = Ok r.
Proof.
  intros H. apply mapM_total. intros [i j] Hin. apply in_prod_iff in Hin.
  destruct Hin as [Hi Hj]. apply in_seq in Hi. apply in_seq in Hj. cbn. apply H; lia.
Qed.

Lemma zipc_spec f a b i r :
  zipc f a b i = Ok r ->
  length r = length a /\ i + length a <= length b + (if length a =? 0 then i else 0) /\
  forall k, k < length a -> nth k r e0 = f (nth k a e0) (nth (i + k) b e0).
Proof.
  revert i r. induction a as [|x a IH]; intros i r; cbn.
  - intros H; inversion H; subst. cbn. split; [reflexivity|]. split; [lia|]. intros; lia.
  - destruct (rd b i) as [y| | |] eqn:E; cbn; try discriminate.
    destruct (zipc f a b (S i)) as [r'| | |] eqn:E2; cbn; try discriminate.
    intros H; inversion H; subst. apply IH in E2. destruct E2 as (L & Hb & Hn).
    apply rd_nth in E. destruct E as [Ei Ey].
    split; [cbn; lia|]. split.
    + destruct (length a =? 0) eqn:Z.
      * apply Nat.eqb_eq in Z. lia.
      * lia.
    + intros k Hk. destruct k; cbn.
      * rewrite Nat.add_0_r. now rewrite Ey.
      * rewrite Hn by lia. f_equal. f_equal. lia.
Qed.

Lemma zipc_total f a b i : i + length a <= length b -> exists r, zipc f a b i = Ok r.
Proof.
  revert i. induction a as [|x a IH]; intros i H; cbn in *.
  - eauto.
  - rewrite rd_lt by lia. cbn. destruct (IH (S i)) as [r ->]; [lia|]. cbn. eauto.
Qed.

Lemma zipc0_spec f a b r :
  zipc f a b 0 = Ok r -> length a = length b ->
  length r = length a /\ forall k, nth k r e0 = if k <? length a then f (nth k a e0) (nth k b e0) else e0.
Proof.
  intros H L. apply zipc_spec in H. destruct H as (Lr & _ & Hn). split; [assumption|].
  intros k. destruct (Nat.ltb_spec k (length a)).
  - now rewrite Hn.
  - apply nth_overflow. lia.
Qed.

Lemma foldM_app {A S} (f : S -> A -> res S) l1 l2 s :
  foldM f (l1 ++ l2) s = (do s' <- foldM f l1 s; foldM f l2 s').
Proof.
  revert s. induction l1 as [|x l1 IH]; intros s; cbn; [reflexivity|].
  destruct (f s x); cbn; auto.
Qed.

(* a loop invariant for foldM *)
Lemma foldM_inv {A S} (f : S -> A -> res S) (I : list A -> S -> Prop) l :
  forall p s s', I p s -> foldM f l s = Ok s' ->
  (forall p s x s', I p s -> In x l -> f s x = Ok s' -> I (p ++ [x]) s') ->
  I (p ++ l) s'.
Proof.
  induction l as [|x l IH]; intros p s s' HI H Hstep; cbn in H.
  - inversion H; subst. now rewrite app_nil_r.
  - destruct (f s x) as [s1| | |] eqn:E; cbn in H; try discriminate.
    replace (p ++ x :: l) with ((p ++ [x]) ++ l) by (rewrite <- app_assoc; reflexivity).
    eapply IH; [| eassumption |].
    + eapply Hstep; eauto. now left.
    + intros. eapply Hstep; eauto. now right.
Qed.

(* ---------------------------------------------------------------- shapes *)
Lemma shape_eqb_eq a b : shape_eqb a b = true <-> a = b.
Proof.
  unfold shape_eqb. rewrite andb_true_iff, !Nat.eqb_eq. destruct a, b; cbn. split.
  - intros [-> ->]; reflexivity.
  - intros H; inversion H; auto.
Qed.

Lemma shape_all_Some l s :
  shape_all l = Some s <-> l <> [] /\ Forall (fun x => x = Some s) l.
Proof.
  induction l as [|x l IH]; cbn.
  - split; [discriminate | intros [H _]; congruence].
  - destruct l as [|y l'].
    + split.
      * intros ->. split; [discriminate | repeat constructor].
      * intros [_ H]. inversion H; subst. reflexivity.
    + destruct x as [a|].
      2:{ split; [discriminate | intros [_ H]; inversion H; discriminate]. }
      destruct (shape_all (y :: l')) as [b|] eqn:E.
      * destruct (shape_eqb a b) eqn:Eb.
        -- apply shape_eqb_eq in Eb. subst b. split.
           ++ intros H; inversion H; subst. split; [discriminate|]. constructor; [reflexivity|].
              apply IH. reflexivity.
           ++ intros [_ H]. inversion H; subst. congruence.
        -- split; [discriminate|]. intros [_ H]. inversion H; subst. inversion H2; subst.
           assert (Some b = Some s) by (apply IH; split; [discriminate | assumption]).
           inversion H0; subst. rewrite (proj2 (shape_eqb_eq s s) eq_refl) in Eb. discriminate.
      * split; [discriminate|]. intros [_ H]. inversion H; subst.
        assert (None = Some s) by (apply IH; split; [discriminate | assumption]). discriminate.
Qed.

Lemma shape_all_app_Some l1 l2 s :
  l1 <> [] -> l2 <> [] ->
  (shape_all (l1 ++ l2) = Some s <-> shape_all l1 = Some s /\ shape_all l2 = Some s).
Proof.
  intros H1 H2. rewrite !shape_all_Some, Forall_app. split.
  - intros [_ [A B]]. auto.
  - intros [[_ A] [_ B]]. split; [|auto]. destruct l1; [congruence | discriminate].
Qed.
