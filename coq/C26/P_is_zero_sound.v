(* C26 obligation: is_zero(e) = true implies every entry of the dense value is zero, = false
   implies some entry is not (the empty identity matrix I_0, which is vacuously zero, excepted). *)
From SE Require Import C26.MatSpec C26.MatPredBase.
Theorem C26_is_zero_sound :
  forall (rho : env) (e : mexpr) (V : mat),
    empty_ident rho e = false -> denote rho e = Some V ->
    (is_zero e = TT -> P_zero V) /\ (is_zero e = TF -> ~ P_zero V).
Proof. intros rho e V G. apply (is_zero_sound rho e G). Qed.
Print Assumptions C26_is_zero_sound.
