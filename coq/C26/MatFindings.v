(* C26 -- the known finding C26/noncanonical-result in the model: the folding rules build their
   results with make_rcp, so the complete class invariants ([canon] = is_canonical of every
   constructor) are not preserved although the values are. *)
From SE Require Import C26.MatSpec.
Local Open Scope nat_scope.

Definition qz (z : Z) : ent := (Q2Qc (inject_Z z), qc0).

Theorem canon_not_preserved :
  (exists terms r, Forall (fun e => canon e = true) terms /\ matrix_add terms = Ok r /\ canon r = false) /\
  (exists args r, Forall (fun a => match a with AMat e => canon e = true | AScal _ => True end) args /\
                  matrix_mul args = Ok r /\ canon r = false) /\
  (exists e r, canon e = true /\ conjugate_matrix e = Ok r /\ canon r = false).
Proof.
  split; [|split].
  - exists [MDiag [qz 1; qz 2]; MDiag [qz (-1); qz (-2)]]. eexists.
    split; [repeat constructor|]. split; [vm_compute; reflexivity | vm_compute; reflexivity].
  - exists [AMat (MDense 2 2 [qz 1; qz 1; qz 0; qz 1]); AMat (MDense 2 2 [qz 1; qz (-1); qz 0; qz 1])]. eexists.
    split; [repeat constructor|]. split; [vm_compute; reflexivity | vm_compute; reflexivity].
  - exists (MTrans (MConj (MSym 1))). eexists.
    split; [reflexivity|]. split; [vm_compute; reflexivity | vm_compute; reflexivity].
Qed.
