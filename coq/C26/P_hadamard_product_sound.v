(* C26 obligation: whenever hadamard_product returns an expression, it denotes the entrywise
   product of the operands' dense values (all environments, any number of operands). *)
From SE Require Import C26.MatSpec C26.MatFinal.
Theorem C26_hadamard_product_sound :
  forall (rho : env) (fs : list mexpr) (res : mexpr),
    hadamard_product fs = Ok res ->
    forall V, denote rho (MHad fs) = Some V -> exists V', denote rho res = Some V' /\ meq V' V.
Proof. exact hadamard_product_sound. Qed.
Print Assumptions C26_hadamard_product_sound.
