(* C26 obligation: on every well-formed expression the predicates that index into dense
   matrices return an answer -- no out-of-range access (the class of the is_toeplitz defect
   repaired by 2bc9483), for matrices of every size. *)
From SE Require Import C26.MatSpec C26.MatTotal.
Theorem C26_predicates_total :
  forall e : mexpr, wf e = true ->
    (exists t, is_diagonal e = Ok t) /\ (exists t, is_symmetric e = Ok t) /\
    (exists t, is_lower e = Ok t) /\ (exists t, is_upper e = Ok t) /\ (exists t, is_toeplitz e = Ok t).
Proof. exact predicates_total. Qed.
Print Assumptions C26_predicates_total.
