(* C26 refutation (known finding C26/matrix_mul:zero-factor-shape): the unguarded statement of
   P_matrix_mul_sound_guarded.v is false.  matrix_mul({X, ZeroMatrix(3,4)}) with X a MatrixSymbol
   returns ZeroMatrix(3,4); for X a 2x3 matrix the product is 2x4. *)
From SE Require Import C26.MatSpec C26.MatMulProofs.
Theorem C26_matrix_mul_zero_shape_refuted :
  exists (args : list marg) (res : mexpr) (rho : env) (V : mat),
    matrix_mul args = Ok res /\ denote rho (naive_mul args) = Some V /\
    forall V', denote rho res = Some V' -> mr V' <> mr V.
Proof. exact matrix_mul_zero_shape_refuted. Qed.
Print Assumptions C26_matrix_mul_zero_shape_refuted.
