(* C26 obligation: transpose (on well-formed expressions) and conjugate_matrix always return;
   trace returns or throws DomainError -- no out-of-range access. *)
From SE Require Import C26.MatSpec C26.MatTotal.
Theorem C26_unary_total :
  (forall e, wf e = true -> exists r, transpose e = Ok r) /\
  (forall e, exists r, conjugate_matrix e = Ok r) /\
  (forall e, wf e = true -> (exists t, trace e = Ok t) \/ trace e = ErrExn EXN_DOMAIN).
Proof. split; [exact transpose_total | split; [exact conjugate_total | exact trace_total]]. Qed.
Print Assumptions C26_unary_total.
