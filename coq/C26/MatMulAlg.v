(* C26 -- the algebra of (shape, entries) pairs under the matrix product: congruence,
   associativity, identities, scalars, and the products of concrete leaves computed by
   mul_diag_diag / mul_dense_diag / mul_diag_dense / mul_dense_dense (matrix_mul.cpp). *)
From SE Require Import C26.MatSpec C26.MatLemmas C26.MatAddProofs.
From Coq Require Import Lia Ring.
Local Open Scope nat_scope.
Local Open Scope res_scope.

Definition prod_shape (a b : option shape) : option shape :=
  match a, b with
  | Some sa, Some sb => if snd sa =? fst sb then Some (fst sa, snd sb) else None
  | _, _ => None
  end.

Definition prod_sv (a b : sval) : sval :=
  (prod_shape (fst a) (fst b),
   fun i j => esum_n (cols_of (fst a)) (fun k => emul (snd a i k) (snd b k j))).

Fixpoint chain_sv (l : list sval) : sval :=
  match l with
  | [] => (None, fun _ _ => e0)
  | [x] => x
  | x :: r => prod_sv x (chain_sv r)
  end.

Definition scale_sv (k : ent) (a : sval) : sval := (fst a, fun i j => emul k (snd a i j)).
Definition ident_sv (n : nat) : sval := (Some (n, n), delta).

(* same shape, same entries inside the shape *)
Definition sv_eq (a b : sval) : Prop :=
  fst a = fst b /\
  forall s, fst a = Some s -> forall i j, i < fst s -> j < snd s -> snd a i j = snd b i j.

Lemma sv_eq_refl a : sv_eq a a.
Proof. split; [reflexivity | intros; reflexivity]. Qed.
Lemma sv_eq_sym a b : sv_eq a b -> sv_eq b a.
Proof. intros [A B]. split; [auto|]. intros s Hs i j Hi Hj. symmetry. apply (B s); congruence. Qed.
Lemma sv_eq_trans a b c : sv_eq a b -> sv_eq b c -> sv_eq a c.
Proof.
  intros [A B] [C D]. split; [congruence|]. intros s Hs i j Hi Hj.
  rewrite (B s) by assumption. apply (D s); congruence.
Qed.

Lemma chain_sv_cons x y r : chain_sv (x :: y :: r) = prod_sv x (chain_sv (y :: r)).
Proof. reflexivity. Qed.

(* the chain of the specification is the iterated product *)
Lemma shape_chain_cons a b r : shape_chain (a :: b :: r) = prod_shape a (shape_chain (b :: r)).
Proof. reflexivity. Qed.

Lemma chain_sv_shape l : fst (chain_sv l) = shape_chain (map fst l).
Proof.
  induction l as [|x l IH]; [reflexivity|]. destruct l as [|y l]; [reflexivity|].
  rewrite chain_sv_cons. change (map fst (x :: y :: l)) with (fst x :: fst y :: map fst l).
  rewrite shape_chain_cons. change (fst y :: map fst l) with (map fst (y :: l)). rewrite <- IH. reflexivity.
Qed.

Lemma val_chain_cons x y r i j :
  val_chain (x :: y :: r) i j = esum_n (cols_of (fst x)) (fun k => emul (snd x i k) (val_chain (y :: r) k j)).
Proof. reflexivity. Qed.

Lemma chain_sv_val l i j : snd (chain_sv l) i j = val_chain l i j.
Proof.
  revert i j. induction l as [|x l IH]; intros i j; [reflexivity|]. destruct l as [|y l]; [reflexivity|].
  rewrite chain_sv_cons, val_chain_cons. cbn [prod_sv snd]. apply esum_n_ext. intros k _. now rewrite IH.
Qed.

Lemma sem_MMul_sv rho k fs :
  fst (sem rho (MMul k fs)) = fst (scale_sv k (chain_sv (map (sem rho) fs))) /\
  forall i j, snd (sem rho (MMul k fs)) i j = snd (scale_sv k (chain_sv (map (sem rho) fs))) i j.
Proof.
  cbn [sem fst snd scale_sv]. split.
  - now rewrite chain_sv_shape.
  - intros. now rewrite chain_sv_val.
Qed.

(* ---------------------------------------------------------------- congruence, associativity *)
Lemma prod_sv_cong a a' b b' : sv_eq a a' -> sv_eq b b' -> sv_eq (prod_sv a b) (prod_sv a' b').
Proof.
  intros [A1 A2] [B1 B2]. split.
  - cbn [prod_sv fst]. now rewrite A1, B1.
  - cbn [prod_sv fst snd]. intros s Hs i j Hi Hj. rewrite <- A1.
    unfold prod_shape in Hs. destruct (fst a) as [sa|] eqn:Ea; [|discriminate].
    destruct (fst b) as [sb|] eqn:Eb; [|discriminate].
    destruct (Nat.eqb_spec (snd sa) (fst sb)) as [E|]; [|discriminate]. inversion Hs; subst s. cbn [fst snd] in *.
    cbn [cols_of]. apply esum_n_ext. intros k Hk.
    rewrite (A2 sa eq_refl i k Hi Hk). rewrite (B2 sb eq_refl k j) by lia. reflexivity.
Qed.

Lemma prod_shape_assoc a b c :
  prod_shape (prod_shape a b) c = prod_shape a (prod_shape b c).
Proof.
  unfold prod_shape. destruct a as [sa|], b as [sb|], c as [sc|]; try reflexivity.
  - destruct (snd sa =? fst sb) eqn:E1, (snd sb =? fst sc) eqn:E2; cbn [fst snd]; rewrite ?E1, ?E2; reflexivity.
  - destruct (snd sa =? fst sb); reflexivity.
Qed.

Lemma prod_shape_cols a b s : prod_shape a b = Some s -> cols_of (prod_shape a b) = cols_of b.
Proof.
  unfold prod_shape. destruct a as [sa|], b as [sb|]; try discriminate.
  destruct (snd sa =? fst sb); [|discriminate]. reflexivity.
Qed.

Lemma prod_sv_assoc a b c : sv_eq (prod_sv (prod_sv a b) c) (prod_sv a (prod_sv b c)).
Proof.
  split.
  - cbn [prod_sv fst]. apply prod_shape_assoc.
  - cbn [prod_sv fst snd]. intros s Hs i j _ _.
    assert (Hab : exists sab, prod_shape (fst a) (fst b) = Some sab).
    { unfold prod_shape in Hs at 1. destruct (prod_shape (fst a) (fst b)); [eauto | discriminate]. }
    destruct Hab as [sab Hab]. rewrite (prod_shape_cols _ _ _ Hab).
    (* sum over l < cols b of (sum over k < cols a of a i k * b k l) * c l j *)
    rewrite (esum_n_ext _ _ (fun l => esum_n (cols_of (fst a)) (fun k => emul (snd a i k) (emul (snd b k l) (snd c l j))))).
    2:{ intros l _. rewrite <- esum_n_scale_r. apply esum_n_ext. intros k _. ring. }
    rewrite esum_n_swap. apply esum_n_ext. intros k _. now rewrite esum_n_scale_l.
Qed.

Lemma chain_sv_app la lb :
  la <> [] -> lb <> [] -> sv_eq (chain_sv (la ++ lb)) (prod_sv (chain_sv la) (chain_sv lb)).
Proof.
  intros Ha Hb. induction la as [|x la IH]; [congruence|].
  destruct la as [|y la].
  - cbn [app]. destruct lb as [|z lb]; [congruence|]. rewrite chain_sv_cons. apply sv_eq_refl.
  - change ((x :: y :: la) ++ lb) with (x :: ((y :: la) ++ lb)).
    assert (E : exists z r, (y :: la) ++ lb = z :: r) by (cbn; eauto). destruct E as (z & r & E).
    rewrite E, chain_sv_cons, <- E. rewrite chain_sv_cons.
    eapply sv_eq_trans; [apply prod_sv_cong; [apply sv_eq_refl | apply IH; discriminate]|].
    apply sv_eq_sym. apply prod_sv_assoc.
Qed.

(* ---------------------------------------------------------------- identities *)
Lemma prod_ident_r a s : fst a = Some s -> sv_eq (prod_sv a (ident_sv (snd s))) a.
Proof.
  destruct a as [sa fa]. cbn [fst]. intros ->. destruct s as [r c]. split.
  - cbn [prod_sv ident_sv fst snd prod_shape]. now rewrite Nat.eqb_refl.
  - cbn [prod_sv ident_sv fst snd prod_shape cols_of]. rewrite Nat.eqb_refl.
    intros s' Hs' i j Hi Hj. inversion Hs'; subst s'. cbn [fst snd] in *.
    rewrite esum_n_delta_r. apply Nat.ltb_lt in Hj. now rewrite Hj.
Qed.

Lemma prod_ident_l a s : fst a = Some s -> sv_eq (prod_sv (ident_sv (fst s)) a) a.
Proof.
  destruct a as [sa fa]. cbn [fst]. intros ->. destruct s as [r c]. split.
  - cbn [prod_sv ident_sv fst snd prod_shape]. now rewrite Nat.eqb_refl.
  - cbn [prod_sv ident_sv fst snd prod_shape cols_of]. rewrite Nat.eqb_refl.
    intros s' Hs' i j Hi Hj. inversion Hs'; subst s'. cbn [fst snd] in *.
    rewrite esum_n_delta_l. apply Nat.ltb_lt in Hi. now rewrite Hi.
Qed.

(* ---------------------------------------------------------------- scalars *)
Lemma scale_sv_cong k a b : sv_eq a b -> sv_eq (scale_sv k a) (scale_sv k b).
Proof.
  intros [A B]. split; [exact A|]. cbn [scale_sv fst snd]. intros s Hs i j Hi Hj. now rewrite (B s Hs i j Hi Hj).
Qed.

Lemma scale_sv_one a : sv_eq (scale_sv e1 a) a.
Proof. split; [reflexivity|]. cbn [scale_sv snd]. intros. ring. Qed.

Lemma scale_sv_scale k1 k2 a : sv_eq (scale_sv k1 (scale_sv k2 a)) (scale_sv (emul k1 k2) a).
Proof. split; [reflexivity|]. cbn [scale_sv snd]. intros. ring. Qed.

Lemma scale_sv_eq k k' a : k = k' -> sv_eq (scale_sv k a) (scale_sv k' a).
Proof. intros ->. apply sv_eq_refl. Qed.

Lemma prod_scale_l k a b : sv_eq (prod_sv (scale_sv k a) b) (scale_sv k (prod_sv a b)).
Proof.
  split; [reflexivity|]. cbn [prod_sv scale_sv fst snd]. intros s _ i j _ _.
  rewrite <- esum_n_scale_l. apply esum_n_ext. intros. ring.
Qed.

Lemma prod_scale_r k a b : sv_eq (prod_sv a (scale_sv k b)) (scale_sv k (prod_sv a b)).
Proof.
  split; [reflexivity|]. cbn [prod_sv scale_sv fst snd]. intros s _ i j _ _.
  rewrite <- esum_n_scale_l. apply esum_n_ext. intros. ring.
Qed.

(* ---------------------------------------------------------------- replacing a segment of a chain *)
Lemma chain_replace_r k m m' lb :
  m <> [] -> m' <> [] -> sv_eq (chain_sv m) (scale_sv k (chain_sv m')) ->
  sv_eq (chain_sv (m ++ lb)) (scale_sv k (chain_sv (m' ++ lb))).
Proof.
  intros Hm Hm' H. destruct lb as [|z lb]; [now rewrite !app_nil_r|].
  eapply sv_eq_trans; [apply chain_sv_app; [assumption | discriminate]|].
  eapply sv_eq_trans; [apply prod_sv_cong; [exact H | apply sv_eq_refl]|].
  eapply sv_eq_trans; [apply prod_scale_l|].
  apply scale_sv_cong. apply sv_eq_sym. apply chain_sv_app; [assumption | discriminate].
Qed.

Lemma chain_replace_l k la m m' :
  m <> [] -> m' <> [] -> sv_eq (chain_sv m) (scale_sv k (chain_sv m')) ->
  sv_eq (chain_sv (la ++ m)) (scale_sv k (chain_sv (la ++ m'))).
Proof.
  intros Hm Hm' H. destruct la as [|z la]; [exact H|].
  eapply sv_eq_trans; [apply chain_sv_app; [discriminate | assumption]|].
  eapply sv_eq_trans; [apply prod_sv_cong; [apply sv_eq_refl | exact H]|].
  eapply sv_eq_trans; [apply prod_scale_r|].
  apply scale_sv_cong. apply sv_eq_sym. apply chain_sv_app; [discriminate | assumption].
Qed.

Lemma chain_replace k la m m' lb :
  m <> [] -> m' <> [] -> sv_eq (chain_sv m) (scale_sv k (chain_sv m')) ->
  sv_eq (chain_sv (la ++ m ++ lb)) (scale_sv k (chain_sv (la ++ m' ++ lb))).
Proof.
  intros Hm Hm' H. apply chain_replace_l.
  - destruct m; [congruence | discriminate].
  - destruct m'; [congruence | discriminate].
  - now apply chain_replace_r.
Qed.

Lemma chain_replace1 la m m' lb :
  m <> [] -> m' <> [] -> sv_eq (chain_sv m) (chain_sv m') ->
  sv_eq (chain_sv (la ++ m ++ lb)) (chain_sv (la ++ m' ++ lb)).
Proof.
  intros Hm Hm' H.
  eapply sv_eq_trans; [apply (chain_replace e1); eauto|].
  - eapply sv_eq_trans; [exact H | apply sv_eq_sym, scale_sv_one].
  - apply scale_sv_one.
Qed.

(* ---------------------------------------------------------------- products of concrete leaves *)
Lemma val_MDiag_delta rho d i j : val rho (MDiag d) i j = emul (nth i d e0) (delta i j).
Proof. rewrite val_MDiag. unfold delta. destruct (i =? j); ring. Qed.

Lemma sem_shape rho e : fst (sem rho e) = shp rho e. Proof. reflexivity. Qed.
Lemma sem_val rho e i j : snd (sem rho e) i j = val rho e i j. Proof. reflexivity. Qed.

Lemma mul_diag_diag_sv rho d0 d p :
  mul_diag_diag d0 d = Ok p -> length d0 = length d ->
  sv_eq (sem rho (MDiag p)) (prod_sv (sem rho (MDiag d0)) (sem rho (MDiag d))).
Proof.
  intros H L. unfold mul_diag_diag in H. destruct (Nat.eqb _ _) eqn:EG in H; cbn [negb] in H; [|discriminate]. apply zipc0_spec in H; [|assumption]. destruct H as [Lp Hn].
  split.
  - cbn [prod_sv fst]. rewrite !sem_shape, !shp_MDiag. unfold prod_shape. cbn [fst snd].
    rewrite L, Nat.eqb_refl, Lp. congruence.
  - rewrite sem_shape, shp_MDiag. intros s Hs i j Hi Hj. inversion Hs; subst s. cbn [fst snd] in *.
    cbn [prod_sv snd]. rewrite !sem_shape, shp_MDiag. cbn [cols_of snd].
    rewrite sem_val, val_MDiag_delta.
    rewrite (esum_n_ext _ _ (fun k => emul (nth i d0 e0) (emul (delta i k) (emul (nth k d e0) (delta k j))))).
    2:{ intros k _. rewrite !sem_val, !val_MDiag_delta. ring. }
    rewrite esum_n_scale_l, esum_n_delta_l.
    assert (Hi' : i <? length d0 = true) by (apply Nat.ltb_lt; lia). rewrite Hi'.
    rewrite Hn. rewrite Lp in Hi. apply Nat.ltb_lt in Hi. rewrite Hi. ring.
Qed.

Lemma mul_dense_diag_sv rho m n v d r :
  mul_dense_diag m n v d = Ok r -> length v = m * n -> length d = n ->
  exists p, r = (m, n, p) /\ length p = m * n /\
    sv_eq (sem rho (MDense m n p)) (prod_sv (sem rho (MDense m n v)) (sem rho (MDiag d))).
Proof.
  intros H Lv Ld. unfold mul_dense_diag in H. destruct (Nat.eqb _ _) eqn:EG in H; cbn [negb] in H; [|discriminate].
  destruct (tab2 m n _) as [p| | |] eqn:E; cbn [bind] in H; try discriminate.
  inversion H; subst r. exists p. split; [reflexivity|].
  apply (tab2_spec _ _ _ _ e0) in E. destruct E as [Lp Hn]. split; [assumption|].
  split.
  - cbn [prod_sv fst]. rewrite !sem_shape, !shp_MDense, shp_MDiag, Lp, Lv, Nat.eqb_refl.
    unfold prod_shape. cbn [fst snd]. rewrite Ld, Nat.eqb_refl. reflexivity.
  - rewrite sem_shape, shp_MDense, Lp, Nat.eqb_refl. intros s Hs i j Hi Hj. inversion Hs; subst s. cbn [fst snd] in *.
    cbn [prod_sv snd]. rewrite !sem_shape, shp_MDense, Lv, Nat.eqb_refl. cbn [cols_of snd].
    rewrite sem_val, val_MDense.
    rewrite (esum_n_ext _ _ (fun k => emul (emul (nth (i * n + k) v e0) (nth k d e0)) (delta k j))).
    2:{ intros k _. rewrite !sem_val, val_MDense, val_MDiag_delta. ring. }
    rewrite esum_n_delta_r. assert (Hj' : j <? n = true) by (now apply Nat.ltb_lt). rewrite Hj'.
    specialize (Hn i j Hi Hj). rewrite rd_lt in Hn by lia. cbn [bind] in Hn.
    rewrite rd_lt in Hn by (rewrite Lv; nia). cbn [bind] in Hn. injection Hn as Hn. now rewrite <- Hn.
Qed.

Lemma mul_diag_dense_sv rho d m n v r :
  mul_diag_dense d m n v = Ok r -> length v = m * n -> length d = m ->
  exists p, r = (m, n, p) /\ length p = m * n /\
    sv_eq (sem rho (MDense m n p)) (prod_sv (sem rho (MDiag d)) (sem rho (MDense m n v))).
Proof.
  intros H Lv Ld. unfold mul_diag_dense in H. destruct (Nat.eqb _ _) eqn:EG in H; cbn [negb] in H; [|discriminate].
  destruct (tab2 m n _) as [p| | |] eqn:E; cbn [bind] in H; try discriminate.
  inversion H; subst r. exists p. split; [reflexivity|].
  apply (tab2_spec _ _ _ _ e0) in E. destruct E as [Lp Hn]. split; [assumption|].
  split.
  - cbn [prod_sv fst]. rewrite !sem_shape, !shp_MDense, shp_MDiag, Lp, Lv, Nat.eqb_refl.
    unfold prod_shape. cbn [fst snd]. rewrite Ld, Nat.eqb_refl. reflexivity.
  - rewrite sem_shape, shp_MDense, Lp, Nat.eqb_refl. intros s Hs i j Hi Hj. inversion Hs; subst s. cbn [fst snd] in *.
    cbn [prod_sv snd]. rewrite !sem_shape, shp_MDiag. cbn [cols_of snd].
    rewrite sem_val, val_MDense.
    rewrite (esum_n_ext _ _ (fun k => emul (delta i k) (emul (nth i d e0) (nth (k * n + j) v e0)))).
    2:{ intros k _. rewrite !sem_val, val_MDense, val_MDiag_delta. ring. }
    rewrite esum_n_delta_l. assert (Hi' : i <? length d = true) by (apply Nat.ltb_lt; lia). rewrite Hi'.
    specialize (Hn i j Hi Hj). rewrite rd_lt in Hn by lia. cbn [bind] in Hn.
    rewrite rd_lt in Hn by (rewrite Lv; nia). cbn [bind] in Hn. injection Hn as Hn. rewrite <- Hn. ring.
Qed.

Lemma foldM_ext_step {A S} (f g : S -> A -> res S) :
  (forall s x, f s x = g s x) -> forall l s, foldM f l s = foldM g l s.
Proof.
  intros H l. induction l as [|x l IH]; intros s; cbn [foldM]; [reflexivity|].
  rewrite H. destruct (g s x); cbn [bind]; auto.
Qed.

(* the accumulation loop of mul_dense_dense *)
Lemma foldM_sum (g : nat -> res ent) l a r :
  foldM (fun acc k => do t <- g k; Ok (eadd acc t)) l a = Ok r ->
  exists ts, mapM g l = Ok ts /\ r = eadd a (esum ts).
Proof.
  revert a r. induction l as [|k l IH]; intros a r H; cbn [foldM mapM] in *.
  - inversion H; subst. exists []. split; [reflexivity|]. rewrite esum_nil. ring.
  - destruct (g k) as [t| | |] eqn:E; cbn [bind] in *; try discriminate.
    destruct (IH _ _ H) as (ts & Hts & Hr). rewrite Hts. cbn [bind]. exists (t :: ts).
    split; [reflexivity|]. rewrite Hr, esum_cons. ring.
Qed.

Lemma esum_as_esum_n (ts : list ent) : esum ts = esum_n (length ts) (fun k => nth k ts e0).
Proof.
  induction ts as [|t ts IH] using rev_ind; [reflexivity|].
  rewrite esum_app, app_length. cbn [length]. rewrite Nat.add_1_r, esum_n_S.
  rewrite esum_cons, esum_nil, IH. f_equal.
  - apply esum_n_ext. intros k Hk. now rewrite app_nth1.
  - rewrite app_nth2, Nat.sub_diag by lia. cbn. ring.
Qed.

Lemma mul_dense_dense_sv rho am an av bm bn bv r :
  mul_dense_dense am an av bm bn bv = Ok r -> length av = am * an -> length bv = bm * bn -> an = bm ->
  exists p, r = (am, bn, p) /\ length p = am * bn /\
    sv_eq (sem rho (MDense am bn p)) (prod_sv (sem rho (MDense am an av)) (sem rho (MDense bm bn bv))).
Proof.
  intros H La Lb Hab. subst bm. unfold mul_dense_dense in H. destruct (Nat.eqb _ _) eqn:EG in H; cbn [negb] in H; [|discriminate].
  destruct (tab2 am bn _) as [p| | |] eqn:E; cbn [bind] in H; try discriminate.
  inversion H; subst r. exists p. split; [reflexivity|].
  apply (tab2_spec _ _ _ _ e0) in E. destruct E as [Lp Hn]. split; [assumption|].
  split.
  - cbn [prod_sv fst]. rewrite !sem_shape, !shp_MDense, Lp, La, Lb, !Nat.eqb_refl.
    unfold prod_shape. cbn [fst snd]. rewrite Nat.eqb_refl. reflexivity.
  - rewrite sem_shape, shp_MDense, Lp, Nat.eqb_refl. intros s Hs i j Hi Hj. inversion Hs; subst s. cbn [fst snd] in *.
    cbn [prod_sv snd]. rewrite !sem_shape, shp_MDense, La, Nat.eqb_refl. cbn [cols_of snd].
    rewrite sem_val, val_MDense.
    specialize (Hn i j Hi Hj).
    set (g := fun k => do x <- rd av (i * an + k); do y <- rd bv (k * bn + j); Ok (emul x y)).
    rewrite (foldM_ext_step _ (fun acc k => do t <- g k; Ok (eadd acc t))) in Hn.
    2:{ intros acc k. unfold g. destruct (rd av (i * an + k)); cbn [bind]; try reflexivity.
        destruct (rd bv (k * bn + j)); reflexivity. }
    apply foldM_sum in Hn. destruct Hn as (ts & Hts & Hr).
    rewrite Hr, esum_as_esum_n.
    pose proof (mapM_length _ _ _ Hts) as Lts. rewrite seq_length in Lts. rewrite Lts.
    rewrite eadd_0_l. apply esum_n_ext. intros k Hk.
    pose proof (mapM_nth _ _ _ 0 e0 k Hts) as Hk'. rewrite seq_length in Hk'. specialize (Hk' Hk).
    rewrite seq_nth in Hk' by assumption. rewrite Nat.add_0_l in Hk'. unfold g in Hk'.
    rewrite rd_lt in Hk' by (rewrite La; nia). cbn [bind] in Hk'.
    rewrite rd_lt in Hk' by (rewrite Lb; nia). cbn [bind] in Hk'. injection Hk' as Hk'.
    rewrite <- Hk', !sem_val, !val_MDense. reflexivity.
Qed.
