(* C04 for mul: on the power-product fragment with sorted dictionaries the result of mul(a, b) is
   determined by the coefficient product and the exponent SUMS of the atoms; hence mul(a, b) and
   mul(b, a) are eq. *)
From SE Require Export Expr.ArithMulProofs.
From SE Require Import Num.NumSpec Num.NumQi Expr.CmpProofs.
From Coq Require Import QArith Lia Permutation Setoid Morphisms.
Local Open Scope Z_scope.

(* the Mul dictionary read as an Add-style dictionary: key -> exponent *)
Definition to_ad (d : mdict) : adict := map (fun p => (fst p, num_of (snd p))) d.
Definition esum (d : mdict) (k : expr) : qi := coefsum (to_ad d) k.

Lemma to_ad_app : forall d1 d2, to_ad (d1 ++ d2) = to_ad d1 ++ to_ad d2.
Proof. intros. unfold to_ad. apply map_app. Qed.

Lemma esum_app : forall d1 d2 k, qi_eq (esum (d1 ++ d2) k) (qi_add (esum d1 k) (esum d2 k)).
Proof. intros. unfold esum. rewrite to_ad_app. apply coefsum_app. Qed.

Lemma esum_cons : forall k v d x, esum ((k, v) :: d) x = qi_add (contrib x (k, num_of v)) (esum d x).
Proof. reflexivity. Qed.
Lemma esum_nil : forall x, esum [] x = qi_zero.
Proof. reflexivity. Qed.

Lemma mentries_keys_wf : forall d p, mentries_ok d = true -> In p d -> wf (fst p) = true.
Proof. intros d p D Hp. apply (mentries_wf d D p Hp). Qed.

(* ---------- exponent sums after one dict_add_term_new ---------- *)
Lemma dstep_esum : forall d t q k, mentries_ok d = true -> atom_ok t = true -> qexp_ok q = true -> wf k = true ->
  qi_eq (esum (dstep d (t, ENum q)) k) (qi_add (esum d k) (delta t k q)).
Proof.
  intros d t q k D T Q Wk. destruct (atom_ok_inv _ T) as (Wt & _ & _).
  unfold dstep. cbn [fst snd num_of]. unfold datn_frag.
  destruct (mscan t d) as [d1 k0 v d2 -> A B L S E | d1 d2 -> L I]; rewrite L.
  - assert (Hin : In (k0, v) (d1 ++ (k0, v) :: d2)) by (apply in_or_app; right; left; reflexivity).
    destruct (mentry_ok_inv k0 v (mentries_in _ _ D Hin)) as (Tk & vn & -> & Qv).
    destruct (atom_ok_inv _ Tk) as (W0 & _ & _).
    pose proof (incomparable_eq k0 t W0 Wt A B) as E0.
    pose proof (qexp_ok_xok _ Qv) as Xv. pose proof (qexp_ok_xok _ Q) as Xq.
    cbn [num_of]. cbv zeta.
    assert (SUM : qi_eq (qi_add (contrib k (k0, vn)) (delta t k q)) (contrib k (k0, xadd vn q))).
    { unfold contrib, delta. cbn [fst snd]. rewrite <- (eqb_cong_wf k0 t k W0 Wt Wk E0).
      destruct (expr_eqb k0 k); [symmetry; now apply xadd_val | apply qi_add_0_l]. }
    destruct (num_is_zero (xadd vn q)) eqn:Z; cbn [snd].
    + rewrite E. rewrite !esum_app, esum_cons. cbn [num_of].
      apply qi_rearr_erase. etransitivity; [exact SUM|].
      unfold contrib. cbn [fst snd]. destruct (expr_eqb k0 k); [|reflexivity]. apply is_zero_val; auto using xadd_xok.
    + rewrite S. rewrite !esum_app, !esum_cons. cbn [num_of]. apply qi_rearr_set. exact SUM.
  - cbn [snd]. rewrite I. rewrite !esum_app, esum_cons. cbn [num_of]. rewrite contrib_delta.
    destruct (esum d1 k), (esum d2 k), (delta t k q). qi_unfold. split; ring.
Qed.

Lemma dmerge_esum : forall l d k, mentries_ok d = true -> mentries_ok l = true -> wf k = true ->
  qi_eq (esum (dmerge d l) k) (qi_add (esum d k) (esum l k)).
Proof.
  unfold dmerge. induction l as [|[t v] l IH]; intros d k D L Wk; cbn [fold_left].
  - rewrite esum_nil. symmetry. apply qi_add_0_r.
  - cbn [mentries_ok forallb] in L. apply andb_prop in L. destruct L as [E L].
    destruct (mentry_ok_inv t v E) as (T & q & -> & Q).
    rewrite IH by auto using dstep_entries. rewrite dstep_esum by assumption.
    rewrite esum_cons. cbn [num_of]. rewrite contrib_delta. symmetry. apply qi_add_assoc.
Qed.

(* ---------- the order on well-formed keys ---------- *)
Lemma kl_irrefl : forall a, wf a = true -> expr_keyless a a = false.
Proof. intros a W. destruct keyless_strict_weak_order as (H & _ & _). now apply H. Qed.
Lemma kl_trans : forall a b c, wf a = true -> wf b = true -> wf c = true ->
  expr_keyless a b = true -> expr_keyless b c = true -> expr_keyless a c = true.
Proof. intros a b c Wa Wb Wc. destruct keyless_strict_weak_order as (_ & H & _). now apply H. Qed.
Lemma kl_eq_iff : forall a b, wf a = true -> wf b = true ->
  (expr_keyless a b = false /\ expr_keyless b a = false <-> expr_eqb a b = true).
Proof. intros a b Wa Wb. destruct keyless_strict_weak_order as (_ & _ & H). now apply H. Qed.
Lemma kl_lt_ne : forall a b, wf a = true -> wf b = true -> expr_keyless a b = true ->
  expr_eqb a b = false /\ expr_eqb b a = false.
Proof.
  intros a b Wa Wb L. split.
  - destruct (expr_eqb a b) eqn:E; [|reflexivity]. apply (kl_eq_iff a b Wa Wb) in E. destruct E as [E _]. congruence.
  - destruct (expr_eqb b a) eqn:E; [|reflexivity]. apply (kl_eq_iff b a Wb Wa) in E. destruct E as [_ E]. congruence.
Qed.
Lemma kl_total : forall a b, wf a = true -> wf b = true -> expr_eqb a b = false ->
  expr_keyless a b = true \/ expr_keyless b a = true.
Proof.
  intros a b Wa Wb NE. destruct (expr_keyless a b) eqn:A; [left; reflexivity|].
  destruct (expr_keyless b a) eqn:B; [right; reflexivity|].
  assert (E : expr_eqb a b = true) by (apply (kl_eq_iff a b Wa Wb); auto). congruence.
Qed.
(* a < b and b eq c give a < c *)
Lemma kl_lt_eq : forall a b c, wf a = true -> wf b = true -> wf c = true ->
  expr_keyless a b = true -> expr_eqb b c = true -> expr_keyless a c = true.
Proof.
  intros a b c Wa Wb Wc L E. destruct (expr_keyless a c) eqn:AC; [reflexivity|]. exfalso.
  apply (kl_eq_iff b c Wb Wc) in E. destruct E as [BC CB].
  destruct (expr_keyless c a) eqn:CA.
  - (* c < a < b contradicts not (c < b) *) rewrite (kl_trans c a b Wc Wa Wb CA L) in CB. discriminate.
  - (* a, c incomparable: a eq c, so c < b *)
    assert (E2 : expr_eqb a c = true) by (apply (kl_eq_iff a c Wa Wc); auto).
    destruct (expr_keyless c b) eqn:CB2; [congruence|].
    (* b, c incomparable and a, c incomparable: then a eq b by transitivity of eq, contradiction with a < b *)
    assert (E3 : expr_eqb c b = true) by (apply (kl_eq_iff c b Wc Wb); auto).
    pose proof (eqb_trans_wf a c b Wa Wc Wb E2 E3) as E4.
    destruct (kl_lt_ne a b Wa Wb L). congruence.
Qed.

(* ---------- strongly sorted dictionaries ---------- *)
Fixpoint ssorted (d : mdict) : Prop :=
  match d with
  | [] => True
  | p :: r => (forall q, In q r -> expr_keyless (fst p) (fst q) = true) /\ ssorted r
  end.

Lemma msorted_ssorted : forall d, (forall p, In p d -> wf (fst p) = true) -> msorted d = true -> ssorted d.
Proof.
  induction d as [|p d IH]; intros W S; [exact I|]. cbn [ssorted]. destruct d as [|q d].
  - split; [intros q []|exact I].
  - cbn [msorted] in S. apply andb_prop in S. destruct S as [L S].
    assert (SS : ssorted (q :: d)) by (apply IH; [intros x Hx; apply W; right; exact Hx | exact S]).
    split; [|exact SS]. intros x [<-|Hx]; [exact L|].
    destruct SS as [Lq _]. apply (kl_trans (fst p) (fst q) (fst x)); auto; apply W; cbn; auto.
Qed.
Lemma ssorted_msorted : forall d, ssorted d -> msorted d = true.
Proof.
  induction d as [|p d IH]; intros S; [reflexivity|]. destruct S as [L S]. destruct d as [|q d]; [reflexivity|].
  cbn [msorted]. rewrite (L q (or_introl eq_refl)). now apply IH.
Qed.

Lemma ssorted_app : forall d1 d2, ssorted (d1 ++ d2) <->
  ssorted d1 /\ ssorted d2 /\ (forall p q, In p d1 -> In q d2 -> expr_keyless (fst p) (fst q) = true).
Proof.
  induction d1 as [|a d1 IH]; intros d2; cbn [app ssorted].
  - split; [intros S; repeat split; auto; intros p q [] | intros (_ & S & _); exact S].
  - rewrite IH. split.
    + intros (L & S1 & S2 & C). repeat split; auto.
      * intros q Hq. apply L. apply in_or_app. left. exact Hq.
      * intros p q [<-|Hp] Hq; [apply L; apply in_or_app; right; exact Hq | now apply C].
    + intros ((L & S1) & S2 & C). repeat split; auto.
      * intros q Hq. apply in_app_or in Hq. destruct Hq as [Hq|Hq]; [now apply L | apply C; [left; reflexivity | exact Hq]].
      * intros p q Hp Hq. apply C; [right; exact Hp | exact Hq].
Qed.

(* the scan with the order facts *)
Lemma mscan_order : forall t d,
  (exists d1 k v d2, d = d1 ++ (k, v) :: d2 /\ mlookup t d = Some (k, v) /\
     (forall p, In p d1 -> expr_keyless (fst p) t = true)) \/
  (exists d1 d2, d = d1 ++ d2 /\ mlookup t d = None /\ (forall s, minsert t s d = d1 ++ (t, s) :: d2) /\
     (forall p, In p d1 -> expr_keyless (fst p) t = true) /\
     match d2 with [] => True | q :: _ => expr_keyless t (fst q) = true end).
Proof.
  intros t. induction d as [|[k v] d IH].
  - right. exists [], []. repeat split; auto; try (intros p []).
  - cbn [mlookup minsert]. destruct (expr_keyless k t) eqn:A.
    + destruct IH as [(d1 & k0 & v0 & d2 & -> & L & O)|(d1 & d2 & -> & L & I & O & H)].
      * left. exists ((k, v) :: d1), k0, v0, d2. repeat split; auto. intros p [<-|Hp]; auto.
      * right. exists ((k, v) :: d1), d2. repeat split; auto.
        -- intros s. cbn [app]. now rewrite I.
        -- intros p [<-|Hp]; auto.
    + destruct (expr_keyless t k) eqn:B.
      * right. exists [], ((k, v) :: d). repeat split; auto; try (intros p []).
      * left. exists [], k, v, d. repeat split; auto; try (intros p []).
Qed.

Lemma dstep_sorted : forall d t q, mentries_ok d = true -> atom_ok t = true -> qexp_ok q = true ->
  ssorted d -> ssorted (dstep d (t, ENum q)).
Proof.
  intros d t q D T Q S. destruct (atom_ok_inv _ T) as (Wt & _ & _).
  unfold dstep. cbn [fst snd num_of]. unfold datn_frag.
  destruct (mscan t d) as [d1 k0 v d2 -> A B L SE E | d1' d2' EQ L I].
  - rewrite L. cbv zeta. apply ssorted_app in S. destruct S as (S1 & S2 & C). cbn [ssorted] in S2. destruct S2 as [L2 S2].
    destruct (num_is_zero _); cbn [snd].
    + rewrite E. apply ssorted_app. repeat split; auto. intros p x Hp Hx. apply C; [exact Hp | right; exact Hx].
    + rewrite SE. apply ssorted_app. repeat split; auto.
      intros p x Hp [<-|Hx]; [apply (C p (k0, v)); [exact Hp | left; reflexivity] | apply C; [exact Hp | right; exact Hx]].
  - rewrite L. cbn [snd]. clear d1' d2' EQ I.
    destruct (mscan_order t d) as [(d1 & k0 & v0 & d2 & _ & L' & _)|(d1 & d2 & -> & _ & I & O & H)]; [congruence|].
    rewrite I. apply ssorted_app in S. destruct S as (S1 & S2 & C).
    assert (W2 : forall x, In x d2 -> wf (fst x) = true).
    { intros x Hx. apply (mentries_keys_wf _ x D). apply in_or_app. right. exact Hx. }
    apply ssorted_app. split; [exact S1|]. split.
    + cbn [ssorted]. split; [|exact S2]. intros x Hx. cbn [fst].
      destruct d2 as [|y d2]; [contradiction|]. destruct Hx as [<-|Hx]; [exact H|].
      destruct S2 as [Ly _]. apply (kl_trans t (fst y) (fst x)); auto; apply W2; cbn; auto.
    + intros p x Hp [<-|Hx]; [cbn [fst]; now apply O | now apply C].
Qed.

Lemma dmerge_sorted : forall l d, mentries_ok d = true -> mentries_ok l = true -> ssorted d -> ssorted (dmerge d l).
Proof.
  unfold dmerge. induction l as [|[t v] l IH]; intros d D L S; cbn [fold_left]; [exact S|].
  cbn [mentries_ok forallb] in L. apply andb_prop in L. destruct L as [E L].
  destruct (mentry_ok_inv t v E) as (T & q & -> & Q).
  apply IH; auto using dstep_entries, dstep_sorted.
Qed.

(* ---------- uniqueness of sorted dictionaries with given exponent sums ---------- *)
Lemma kl_eq_lt : forall a b c, wf a = true -> wf b = true -> wf c = true ->
  expr_eqb a b = true -> expr_keyless a c = true -> expr_keyless b c = true.
Proof.
  intros a b c Wa Wb Wc E L. destruct (expr_keyless b c) eqn:BC; [reflexivity|]. exfalso.
  destruct (expr_keyless c b) eqn:CB.
  - pose proof (kl_trans a c b Wa Wc Wb L CB) as AB. destruct (kl_lt_ne a b Wa Wb AB). congruence.
  - assert (E2 : expr_eqb b c = true) by (apply (kl_eq_iff b c Wb Wc); auto).
    pose proof (eqb_trans_wf a b c Wa Wb Wc E E2) as E3. destruct (kl_lt_ne a c Wa Wc L). congruence.
Qed.

Lemma esum_above : forall d x, wf x = true -> (forall q, In q d -> wf (fst q) = true) ->
  (forall q, In q d -> expr_keyless x (fst q) = true) -> qi_eq (esum d x) qi_zero.
Proof.
  intros d x Wx W L. unfold esum. apply coefsum_absent. intros p Hp. unfold to_ad in Hp. apply in_map_iff in Hp.
  destruct Hp as (q & <- & Hq). cbn [fst]. apply (kl_lt_ne x (fst q)); auto.
Qed.

Lemma qi_add_cancel_l : forall a b c, qi_eq (qi_add a b) (qi_add a c) -> qi_eq b c.
Proof.
  intros [a1 a2] [b1 b2] [c1 c2] [H1 H2]. qi_unfold. split.
  - apply (Qplus_inj_l _ _ a1). exact H1.
  - apply (Qplus_inj_l _ _ a2). exact H2.
Qed.

Lemma head_nonzero : forall n, qexp_ok n = true -> ~ qi_eq (qval n) qi_zero.
Proof.
  intros n Q H. apply (is_zero_val n (qexp_ok_xok _ Q)) in H. rewrite (qexp_ok_nz _ Q) in H. discriminate.
Qed.

Theorem sorted_unique : forall d d', mentries_ok d = true -> mentries_ok d' = true -> ssorted d -> ssorted d' ->
  (forall k, wf k = true -> qi_eq (esum d k) (esum d' k)) ->
  list_eqb expr_eqb (flat d) (flat d') = true.
Proof.
  induction d as [|[k v] r IH]; intros [|[k' v'] r'] D D' S S' H.
  - reflexivity.
  - exfalso. cbn [mentries_ok forallb] in D'. apply andb_prop in D'. destruct D' as [E' D'].
    destruct (mentry_ok_inv k' v' E') as (T' & n' & -> & Q'). destruct (atom_ok_inv _ T') as (W' & _ & _).
    destruct S' as [L' S'].
    specialize (H k' W'). rewrite esum_nil, esum_cons in H. unfold contrib in H. cbn [fst snd num_of] in H.
    rewrite (eqb_refl_wf k' W') in H.
    rewrite (esum_above r' k' W') in H; [|intros q Hq; apply (mentries_keys_wf r' q D' Hq) | exact L'].
    rewrite qi_add_0_r in H. symmetry in H. exact (head_nonzero n' Q' H).
  - exfalso. cbn [mentries_ok forallb] in D. apply andb_prop in D. destruct D as [E D].
    destruct (mentry_ok_inv k v E) as (T & n & -> & Q). destruct (atom_ok_inv _ T) as (W & _ & _).
    destruct S as [L S].
    specialize (H k W). rewrite esum_nil, esum_cons in H. unfold contrib in H. cbn [fst snd num_of] in H.
    rewrite (eqb_refl_wf k W) in H.
    rewrite (esum_above r k W) in H; [|intros q Hq; apply (mentries_keys_wf r q D Hq) | exact L].
    rewrite qi_add_0_r in H. exact (head_nonzero n Q H).
  - cbn [mentries_ok forallb] in D, D'. apply andb_prop in D, D'. destruct D as [E D]. destruct D' as [E' D'].
    fold (mentries_ok r) in D. fold (mentries_ok r') in D'.
    destruct (mentry_ok_inv k v E) as (T & n & -> & Q). destruct (atom_ok_inv _ T) as (W & _ & _).
    destruct (mentry_ok_inv k' v' E') as (T' & n' & -> & Q'). destruct (atom_ok_inv _ T') as (W' & _ & _).
    destruct S as [L S]. destruct S' as [L' S']. cbn [fst] in L, L'.
    assert (Wr : forall q, In q r -> wf (fst q) = true) by (intros q Hq; apply (mentries_keys_wf r q D Hq)).
    assert (Wr' : forall q, In q r' -> wf (fst q) = true) by (intros q Hq; apply (mentries_keys_wf r' q D' Hq)).
    assert (HK : forall x, wf x = true -> qi_eq (qi_add (contrib x (k, n)) (esum r x)) (qi_add (contrib x (k', n')) (esum r' x))).
    { intros x Wx. specialize (H x Wx). rewrite !esum_cons in H. exact H. }
    (* the heads are eq *)
    assert (EK : expr_eqb k k' = true).
    { destruct (expr_eqb k k') eqn:NE; [reflexivity|]. exfalso.
      destruct (kl_total k k' W W' NE) as [LT|LT].
      - (* k is below every key of d' *)
        pose proof (HK k W) as Hk. unfold contrib in Hk. cbn [fst snd] in Hk. rewrite (eqb_refl_wf k W) in Hk.
        destruct (kl_lt_ne k k' W W' LT) as [_ N2]. rewrite N2 in Hk.
        rewrite (esum_above r k W Wr L) in Hk.
        rewrite (esum_above r' k W Wr') in Hk; [|intros q Hq; apply (kl_trans k k' (fst q)); auto].
        repeat rewrite qi_add_0_r in Hk; repeat rewrite qi_add_0_l in Hk. exact (head_nonzero n Q Hk).
      - pose proof (HK k' W') as Hk. unfold contrib in Hk. cbn [fst snd] in Hk. rewrite (eqb_refl_wf k' W') in Hk.
        destruct (kl_lt_ne k' k W' W LT) as [_ N2]. rewrite N2 in Hk.
        rewrite (esum_above r' k' W' Wr' L') in Hk.
        rewrite (esum_above r k' W' Wr) in Hk; [|intros q Hq; apply (kl_trans k' k (fst q)); auto].
        repeat rewrite qi_add_0_r in Hk; repeat rewrite qi_add_0_l in Hk. symmetry in Hk. exact (head_nonzero n' Q' Hk). }
    (* hence the exponents are equal *)
    assert (EN : n = n').
    { pose proof (HK k W) as Hk. unfold contrib in Hk. cbn [fst snd] in Hk. rewrite (eqb_refl_wf k W) in Hk.
      rewrite (eqb_sym_wf k' k W' W), EK in Hk.
      rewrite (esum_above r k W Wr L) in Hk.
      rewrite (esum_above r' k W Wr') in Hk; [|intros q Hq; apply (kl_eq_lt k' k (fst q)); auto; rewrite eqb_sym_wf by assumption; exact EK].
      rewrite !qi_add_0_r in Hk. apply qval_inj; auto using qexp_ok_xok. }
    subst n'.
    cbn [flat flat_map app list_eqb fst snd]. rewrite EK. rewrite eqb_ENum, (cmp_num_eqb_refl n (qexp_ok_xok _ Q)). cbn [andb].
    apply IH; auto. intros x Wx. specialize (HK x Wx).
    assert (CE : contrib x (k, n) = contrib x (k', n)).
    { unfold contrib. cbn [fst snd]. now rewrite (eqb_cong_wf k k' x W W' Wx EK). }
    rewrite CE in HK. exact (qi_add_cancel_l _ _ _ HK).
Qed.

(* ---------- Mul::from_dict respects eq of sorted dictionaries ---------- *)
Lemma flat_length_eq : forall (d d' : mdict), list_eqb expr_eqb (flat d) (flat d') = true -> length d = length d'.
Proof.
  induction d as [|[k v] d IH]; intros [|[k' v'] d'] H; cbn [flat flat_map app list_eqb] in H; try discriminate H; [reflexivity|].
  apply andb_prop in H. destruct H as [_ H]. apply andb_prop in H. destruct H as [_ H]. cbn [length]. f_equal. now apply IH.
Qed.

Lemma mfd_cong : forall c d d', xok c = true -> mentries_ok d = true -> mentries_ok d' = true ->
  list_eqb expr_eqb (flat d) (flat d') = true -> expr_eqb (mul_from_dict c d) (mul_from_dict c d') = true.
Proof.
  intros c d d' Xc D D' H. pose proof (cmp_num_eqb_refl c Xc) as RC. pose proof (flat_length_eq d d' H) as L.
  unfold mul_from_dict. destruct (num_is_zero c); [now rewrite eqb_ENum|].
  destruct d as [|[k v] [|p2 d]]; destruct d' as [|[k' v'] [|q2 d']]; try discriminate L.
  - now rewrite eqb_ENum.
  - cbn [flat flat_map app list_eqb fst snd] in H. apply andb_prop in H. destruct H as [Ek H]. apply andb_prop in H. destruct H as [Ev _].
    cbn [mentries_ok forallb] in D, D'. rewrite andb_true_r in D, D'.
    destruct (mentry_ok_inv k v D) as (T & n & -> & Q). destruct (mentry_ok_inv k' v' D') as (T' & n' & -> & Q').
    rewrite eqb_ENum in Ev. apply cmp_num_eqb_eq in Ev; auto using qexp_ok_xok. subst n'.
    assert (M : expr_eqb (EMul c [(k, ENum n)]) (EMul c [(k', ENum n)]) = true).
    { rewrite eqb_EMul, RC. cbn [flat flat_map app list_eqb fst snd]. rewrite Ek, eqb_ENum, (cmp_num_eqb_refl n (qexp_ok_xok _ Q)). reflexivity. }
    assert (P : expr_eqb (EPow k (ENum n)) (EPow k' (ENum n)) = true).
    { rewrite eqb_EPow, Ek, eqb_ENum, (cmp_num_eqb_refl n (qexp_ok_xok _ Q)). reflexivity. }
    destruct (num_is_one c).
    + destruct n as [z| | | | | | ]; try (destruct (expr_eqb _ e_one); assumption).
      destruct (z =? 1); [exact Ek|]. destruct (expr_eqb _ e_one); assumption.
    + destruct n; exact M.
  - rewrite eqb_EMul, RC. exact H.
Qed.

(* ---------- mul(a, b) on sorted operands ---------- *)
Lemma mul_sorted_ok : forall x, mul_operand_sorted x = true -> mul_operand_ok x = true.
Proof.
  intros x H. unfold mul_operand_sorted, mul_operand_ok in *.
  destruct x; cbn [mul_operand_ok_gen] in *; try exact H.
  repeat (apply andb_prop in H; destruct H as [H ?]).
  repeat (apply andb_true_intro; split); auto.
Qed.

Lemma mul_sorted_terms : forall x, mul_operand_sorted x = true -> ssorted (mterms x).
Proof.
  intros x H. pose proof (mul_sorted_ok x H) as O. destruct (mul_operand_ok_terms _ x O) as [_ T].
  apply msorted_ssorted; [intros p Hp; apply (mentries_keys_wf _ p T Hp)|].
  unfold mul_operand_sorted in H. unfold mterms.
  destruct x; cbn [mlin snd mul_operand_ok_gen] in *; try reflexivity.
  repeat (apply andb_prop in H; destruct H as [H ?]). assumption.
Qed.

Theorem e_mul_spec_sorted : forall f a b, mul_operand_sorted a = true -> mul_operand_sorted b = true ->
  exists d, e_mul (S (S f)) a b = Ok (mul_from_dict (xmul (mconst a) (mconst b)) d) /\
    mentries_ok d = true /\ ssorted d /\
    forall k, wf k = true -> qi_eq (esum d k) (qi_add (esum (mterms a) k) (esum (mterms b) k)).
Proof.
  intros f a b Ha Hb. pose proof (mul_sorted_ok a Ha) as Oa. pose proof (mul_sorted_ok b Hb) as Ob.
  destruct (mul_operand_ok_terms _ a Oa) as [Xa Ta]. destruct (mul_operand_ok_terms _ b Ob) as [Xb Tb].
  pose proof (mul_sorted_terms a Ha) as Sa. pose proof (mul_sorted_terms b Hb) as Sb.
  destruct (e_mul_spec f a b Oa Ob) as (X & Y & E & XY). exists (dmerge X Y). split; [exact E|].
  destruct XY as [[-> ->]|[[-> ->]|[-> ->]]].
  - split; [now apply dmerge_entries|]. split; [now apply dmerge_sorted|]. intros k Wk. now apply dmerge_esum.
  - split; [now apply dmerge_entries|]. split; [now apply dmerge_sorted|]. intros k Wk.
    rewrite dmerge_esum by assumption. apply qi_add_comm.
  - assert (T0 : mentries_ok (dmerge [] (mterms a)) = true) by (apply dmerge_entries; auto).
    split; [now apply dmerge_entries|]. split; [apply dmerge_sorted; auto; apply dmerge_sorted; auto; exact I|].
    intros k Wk. rewrite dmerge_esum by assumption. rewrite (dmerge_esum (mterms a) []) by auto.
    rewrite esum_nil, qi_add_0_l. reflexivity.
Qed.

Theorem mul_comm : forall fuel fuel' a b r1 r2, mul_operand_sorted a = true -> mul_operand_sorted b = true ->
  e_mul fuel a b = Ok r1 -> e_mul fuel' b a = Ok r2 -> expr_eqb r1 r2 = true.
Proof.
  intros fuel fuel' a b r1 r2 Ha Hb E1 E2.
  destruct (e_mul_spec_sorted fuel a b Ha Hb) as (d1 & F1 & D1 & S1 & H1).
  destruct (e_mul_spec_sorted fuel' b a Hb Ha) as (d2 & F2 & D2 & S2 & H2).
  pose proof (le_ok _ _ _ r1 (e_mul_mono fuel (S (S fuel)) a b ltac:(lia)) E1) as G1.
  pose proof (le_ok _ _ _ r2 (e_mul_mono fuel' (S (S fuel')) b a ltac:(lia)) E2) as G2.
  rewrite F1 in G1. rewrite F2 in G2. injection G1 as <-. injection G2 as <-.
  destruct (mul_operand_ok_terms _ a (mul_sorted_ok a Ha)) as [Xa _]. destruct (mul_operand_ok_terms _ b (mul_sorted_ok b Hb)) as [Xb _].
  rewrite (xmul_comm (mconst b) (mconst a)) by assumption.
  apply mfd_cong; auto using xmul_xok. apply sorted_unique; auto.
  intros k Wk. rewrite (H1 k Wk), (H2 k Wk). apply qi_add_comm.
Qed.

(* ---------- grouping ---------- *)
Lemma mlin_mfd : forall c d, xok c = true -> mentries_ok d = true ->
  mlin (mul_from_dict c d) = if num_is_zero c then (c, []) else (c, d).
Proof.
  intros c d Xc D. unfold mul_from_dict. destruct (num_is_zero c) eqn:Zc; [reflexivity|].
  destruct d as [|[k v] [|p2 d]]; [reflexivity | | reflexivity].
  cbn [mentries_ok forallb] in D. rewrite andb_true_r in D. destruct (mentry_ok_inv k v D) as (T & n & -> & Q).
  destruct (atom_ok_inv _ T) as (_ & _ & A).
  destruct (num_is_one c) eqn:Oc.
  - rewrite (is_one_eq c Xc Oc).
    assert (ATOM : mlin k = (NInt 1, [(k, e_one)])) by (destruct k; try discriminate A; reflexivity).
    assert (G : n <> NInt 1 -> mlin (if expr_eqb (ENum n) e_one then k else EPow k (ENum n)) = (NInt 1, [(k, ENum n)])).
    { intros NE. destruct (qexp_not_one n Q NE) as [_ E]. rewrite E. reflexivity. }
    destruct n as [z| | | | | | ]; try (apply G; discriminate).
    destruct (z =? 1) eqn:Z1; [apply Z.eqb_eq in Z1; subst; exact ATOM|]. apply G. intros Q1. injection Q1 as ->. discriminate Z1.
  - destruct n; reflexivity.
Qed.

Lemma mconst_mfd : forall c d, xok c = true -> mentries_ok d = true -> mconst (mul_from_dict c d) = c.
Proof. intros. unfold mconst. rewrite mlin_mfd by assumption. destruct (num_is_zero c); reflexivity. Qed.
Lemma mterms_mfd_nz : forall c d, xok c = true -> mentries_ok d = true -> num_is_zero c = false ->
  mterms (mul_from_dict c d) = d.
Proof. intros c d X D Z. unfold mterms. rewrite mlin_mfd by assumption. now rewrite Z. Qed.

Lemma xmul_zero_l : forall a b, xok a = true -> xok b = true -> num_is_zero a = true -> num_is_zero (xmul a b) = true.
Proof.
  intros a b Xa Xb Z. apply (is_zero_val _ (xmul_xok a b Xa Xb)). unfold qi_is_zero.
  rewrite (xmul_val a b Xa Xb). apply (is_zero_val a Xa) in Z. unfold qi_is_zero in Z. rewrite Z. apply qi_mul_0_l.
Qed.
Lemma xmul_zero_r : forall a b, xok a = true -> xok b = true -> num_is_zero b = true -> num_is_zero (xmul a b) = true.
Proof. intros a b Xa Xb Z. rewrite xmul_comm by assumption. now apply xmul_zero_l. Qed.

Lemma mfd_zero : forall c d, num_is_zero c = true -> mul_from_dict c d = ENum c.
Proof. intros c d Z. unfold mul_from_dict. now rewrite Z. Qed.

Lemma mfd_sorted_closed : forall c d, xok c = true -> mentries_ok d = true -> ssorted d ->
  mul_operand_sorted (mul_from_dict c d) = true.
Proof. intros c d X D S. apply mfd_closed; auto. intros _. now apply ssorted_msorted. Qed.

Theorem mul_assoc : forall f1 f2 f3 f4 a b c ab bc r1 r2,
  mul_operand_sorted a = true -> mul_operand_sorted b = true -> mul_operand_sorted c = true ->
  e_mul f1 a b = Ok ab -> e_mul f2 ab c = Ok r1 -> e_mul f3 b c = Ok bc -> e_mul f4 a bc = Ok r2 ->
  expr_eqb r1 r2 = true.
Proof.
  intros f1 f2 f3 f4 a b c ab bc r1 r2 Ha Hb Hc Eab E1 Ebc E2.
  destruct (mul_operand_ok_terms _ a (mul_sorted_ok a Ha)) as [Xa Ta].
  destruct (mul_operand_ok_terms _ b (mul_sorted_ok b Hb)) as [Xb Tb].
  destruct (mul_operand_ok_terms _ c (mul_sorted_ok c Hc)) as [Xc Tc].
  destruct (e_mul_spec_sorted f1 a b Ha Hb) as (dab & Fab & Dab & Sab & Hab').
  pose proof (le_ok _ _ _ ab (e_mul_mono f1 (S (S f1)) a b ltac:(lia)) Eab) as G. rewrite Fab in G. injection G as <-.
  destruct (e_mul_spec_sorted f3 b c Hb Hc) as (dbc & Fbc & Dbc & Sbc & Hbc').
  pose proof (le_ok _ _ _ bc (e_mul_mono f3 (S (S f3)) b c ltac:(lia)) Ebc) as G. rewrite Fbc in G. injection G as <-.
  set (cab := xmul (mconst a) (mconst b)) in *. set (cbc := xmul (mconst b) (mconst c)) in *.
  assert (Xab : xok cab = true) by (unfold cab; auto using xmul_xok).
  assert (Xbc : xok cbc = true) by (unfold cbc; auto using xmul_xok).
  pose proof (mfd_sorted_closed cab dab Xab Dab Sab) as Oab. pose proof (mfd_sorted_closed cbc dbc Xbc Dbc Sbc) as Obc.
  destruct (e_mul_spec_sorted f2 _ c Oab Hc) as (d1 & F1 & D1 & S1 & H1).
  pose proof (le_ok _ _ _ r1 (e_mul_mono f2 (S (S f2)) _ c ltac:(lia)) E1) as G. rewrite F1 in G. injection G as <-.
  destruct (e_mul_spec_sorted f4 a _ Ha Obc) as (d2 & F2 & D2 & S2 & H2).
  pose proof (le_ok _ _ _ r2 (e_mul_mono f4 (S (S f4)) a _ ltac:(lia)) E2) as G. rewrite F2 in G. injection G as <-.
  rewrite !mconst_mfd by assumption.
  assert (CE : xmul cab (mconst c) = xmul (mconst a) cbc) by (unfold cab, cbc; symmetry; now apply xmul_assoc).
  rewrite CE. set (C := xmul (mconst a) cbc) in *.
  assert (XC : xok C = true) by (unfold C; auto using xmul_xok).
  destruct (num_is_zero C) eqn:ZC.
  - rewrite !mfd_zero by assumption. rewrite eqb_ENum. now apply cmp_num_eqb_refl.
  - assert (Zab : num_is_zero cab = false).
    { destruct (num_is_zero cab) eqn:Z; [|reflexivity]. rewrite <- CE in ZC. rewrite xmul_zero_l in ZC; auto. }
    assert (Zbc : num_is_zero cbc = false).
    { destruct (num_is_zero cbc) eqn:Z; [|reflexivity]. unfold C in ZC. rewrite xmul_zero_r in ZC; auto. }
    rewrite mterms_mfd_nz in H1, H2 by assumption.
    apply mfd_cong; auto. apply sorted_unique; auto.
    intros k Wk. rewrite (H1 k Wk), (H2 k Wk), (Hab' k Wk), (Hbc' k Wk). symmetry. apply qi_add_assoc.
Qed.
