(* L2 -- the type-code guard (a conjunct of [wf], Wf.v).  Nothing in the syntax [expr] constrains
   the free [code] field of the constructors EF1 / EF2 / EFN / ELex / EAtom.  The model's [cmp] (like the C++ __cmp__) first
   compares type codes and then assumes both operands belong to the same class; a model tree
   such as [EAtom 0] (type code 0 = Integer, but not an Integer) therefore breaks the order
   theorems although no implementation-produced tree looks like that.  [codes_ok] states that the
   code of every node belongs to the class of its constructor, as in harness/dump.h. *)
From SE Require Export Expr.Cmp.
Local Open Scope N_scope.

(* index of the constructor *)
Definition ctor_kind (e : expr) : N :=
  match e with
  | ENum _ => 0 | ESym _ => 1 | EDummy _ _ => 2 | EConst _ => 3 | EAdd _ _ => 4 | EMul _ _ => 5
  | EPow _ _ => 6 | EF1 _ _ => 7 | EF2 _ _ _ => 8 | EFN _ _ => 9 | EFunSym _ _ => 10
  | ELex _ _ _ => 11 | EDeriv _ _ => 12 | ESubs _ _ => 13 | EPw _ => 14 | EBool _ => 15
  | EInterval _ _ _ _ => 16 | EAtom _ => 17
  end.

(* OneArgFunction subclasses, and Not *)
Definition f1_codes : list N :=
  [TC_Log; TC_Conjugate; TC_Sign; TC_Floor; TC_Ceiling; TC_Truncate;
   TC_Sin; TC_Cos; TC_Tan; TC_Cot; TC_Csc; TC_Sec;
   TC_ASin; TC_ACos; TC_ASec; TC_ACsc; TC_ATan; TC_ACot;
   TC_Sinh; TC_Csch; TC_Cosh; TC_Sech; TC_Tanh; TC_Coth;
   TC_ASinh; TC_ACsch; TC_ACosh; TC_ATanh; TC_ACoth; TC_ASech;
   TC_LambertW; TC_Dirichlet_eta; TC_Erf; TC_Erfc; TC_Gamma; TC_LogGamma; TC_Abs;
   TC_PrimePi; TC_Primorial; TC_UnevaluatedExpr; TC_Not].
(* TwoArgFunction subclasses, and the Relational classes *)
Definition f2_codes : list N :=
  [TC_ATan2; TC_Zeta; TC_KroneckerDelta; TC_PolyGamma; TC_LowerGamma; TC_UpperGamma; TC_Beta;
   TC_Equality; TC_Unequality; TC_LessThan; TC_StrictLessThan].
(* MultiArgFunction subclasses (other than FunctionSymbol), And, Or, Xor and the set classes
   that hash and compare their members in container order *)
Definition fn_codes : list N :=
  [TC_LeviCivita; TC_Max; TC_Min; TC_And; TC_Or; TC_Xor; TC_FiniteSet; TC_Union; TC_Intersection].
Definition lex_codes : list N := [TC_Contains; TC_Complement].
Definition atom_codes : list N :=
  [TC_Reals; TC_Rationals; TC_Integers; TC_Naturals; TC_Naturals0; TC_Complexes; TC_EmptySet;
   TC_UniversalSet].
Definition num_codes : list N :=
  [TC_Integer; TC_Rational; TC_Complex; TC_ComplexDouble; TC_RealDouble; TC_Infty; TC_NaN].

Definition memN (c : N) (l : list N) : bool := existsb (N.eqb c) l.

(* the constructor (by index) that models the class with type code [c]; 99 = not modelled *)
Definition kind_of_code (c : N) : N :=
  if memN c num_codes then 0
  else if c =? TC_Symbol then 1
  else if c =? TC_Dummy then 2
  else if c =? TC_Constant then 3
  else if c =? TC_Add then 4
  else if c =? TC_Mul then 5
  else if c =? TC_Pow then 6
  else if memN c f1_codes then 7
  else if memN c f2_codes then 8
  else if memN c fn_codes then 9
  else if c =? TC_FunctionSymbol then 10
  else if memN c lex_codes then 11
  else if c =? TC_Derivative then 12
  else if c =? TC_Subs then 13
  else if c =? TC_Piecewise then 14
  else if c =? TC_BooleanAtom then 15
  else if c =? TC_Interval then 16
  else if memN c atom_codes then 17
  else 99.

Definition node_ok (e : expr) : bool := kind_of_code (type_code e) =? ctor_kind e.

Fixpoint codes_ok (e : expr) : bool :=
  node_ok e &&
  match e with
  | ENum _ | ESym _ | EConst _ | EBool _ | EAtom _ | EDummy _ _ => true
  | EAdd _ d => forallb (fun p => codes_ok (fst p)) d
  | EMul _ d => forallb (fun p => codes_ok (fst p) && codes_ok (snd p)) d
  | EPow b x => codes_ok b && codes_ok x
  | EF1 _ a => codes_ok a
  | EF2 _ a b => codes_ok a && codes_ok b
  | EFN _ l => forallb codes_ok l
  | EFunSym _ l => forallb codes_ok l
  | ELex _ a b => codes_ok a && codes_ok b
  | EDeriv a l => codes_ok a && forallb codes_ok l
  | ESubs a d => codes_ok a && forallb (fun p => codes_ok (fst p) && codes_ok (snd p)) d
  | EPw l => forallb (fun p => codes_ok (fst p) && codes_ok (snd p)) l
  | EInterval s x _ _ => codes_ok s && codes_ok x
  end.

Lemma codes_ok_node : forall e, codes_ok e = true -> node_ok e = true.
Proof. intros e H. destruct e; cbn [codes_ok] in H; apply andb_prop in H; apply H. Qed.

(* the point of the guard: equal type codes => same constructor *)
Lemma node_ok_same_kind : forall a b,
  node_ok a = true -> node_ok b = true -> type_code a = type_code b -> ctor_kind a = ctor_kind b.
Proof.
  unfold node_ok. intros a b Ha Hb E.
  apply N.eqb_eq in Ha. apply N.eqb_eq in Hb. rewrite <- Ha, <- Hb, E. reflexivity.
Qed.

(* number nodes always satisfy the guard *)
Lemma codes_ok_num : forall n, codes_ok (ENum n) = true.
Proof. destruct n; vm_compute; reflexivity. Qed.

(* Why the guard is needed (documentation): without it the order theorems of C02 fail on
   trees that satisfy every other well-formedness condition. *)
Example guard_needed_cmp_eq_iff :
  let a := EAtom 0 in let b := ENum (NInt 0) in
  codes_ok a = false /\ expr_cmp a b = 0%Z /\ expr_eqb a b = false /\ hash a = hash b /\
  expr_keyless a b = false /\ expr_keyless b a = false.
Proof. vm_compute. repeat split; reflexivity. Qed.
Example guard_needed_cmp_trans :
  let a := EPow (ENum (NInt 7)) (ENum (NInt 0)) in
  let b := EPow (EAtom 0) (ENum (NInt 1)) in
  let c := EPow (ENum (NInt 5)) (ENum (NInt 2)) in
  codes_ok b = false /\ expr_cmp a b = (-1)%Z /\ expr_cmp b c = (-1)%Z /\ expr_cmp a c = 1%Z.
Proof. vm_compute. repeat split; reflexivity. Qed.
Example guard_needed_map_insert :
  let d1 := [(EAtom 0, NInt 1); (ENum (NInt 0), NInt 2)] in
  let d2 := [(ENum (NInt 0), NInt 2); (EAtom 0, NInt 1)] in
  expr_eqb (EAtom 0) (ENum (NInt 0)) = false /\
  map_of_umap expr_eqb expr_cmp d1 = [(EAtom 0, NInt 1)] /\
  map_of_umap expr_eqb expr_cmp d2 = [(ENum (NInt 0), NInt 2)].
Proof. vm_compute. repeat split; reflexivity. Qed.

(* non-vacuity: the examples of C01/C02 P_nonvacuous satisfy the guard *)
Example codes_ok_example :
  codes_ok (EPow (ESym [120]) (EAdd (NRat 1 2) [(ESym [120], NInt 1);
     (EMul (NInt 3) [(ESym [120], ENum (NInt 2)); (EF1 TC_Sin (ESym [121]), ENum (NRat 1 2))], NInt 2)]))
  = true.
Proof. vm_compute. reflexivity. Qed.
