(* pow(a, n) for an Integer n on the power-product fragment: numbers, atoms, powers of atoms and
   products (Mul::power_num with an Integer exponent): closure, canonical form (C03). *)
From SE Require Export Expr.ArithMulProofs.
From SE Require Import Num.NumSpec Num.NumQi Num.NumC05 Expr.CmpProofs.
From Coq Require Import QArith Lia Permutation Setoid Morphisms.
Local Open Scope Z_scope.

(* ---------- number ** Integer ---------- *)
(* the exponent is in the range GMP accepts and 0 is not raised to a negative power *)
Definition npow_ok (c : number) (n : Z) : bool :=
  pow_in_range c n && ((0 <=? n) || negb (num_is_zero c)).

Lemma num_pow_x : forall c n, xok c = true -> npow_ok c n = true ->
  exists r, num_pow c (NInt n) = Ok r /\ xok r = true /\ qi_eq (qval r) (qi_powz (qval c) n).
Proof.
  intros c n Xc H. unfold npow_ok in H. apply andb_prop in H. destruct H as [R Z].
  assert (HZ : 0 <= n \/ ~ qi_is_zero (qval c)).
  { apply orb_prop in Z. destruct Z as [Z|Z]; [left; now apply Z.leb_le|right].
    intros Q. apply (is_zero_val c Xc) in Q. rewrite Q in Z. discriminate. }
  destruct (num_powint_correct c n (qval c) (qval_some c Xc) R HZ) as (r & z & E & V & Q).
  exists r. split; [exact E|].
  assert (EX : num_is_exact r = true) by (destruct r; cbn in V; try discriminate; reflexivity).
  destruct (pow_good c n r (xok_exact _ Xc) (xok_nwf _ Xc) E) as [W _].
  split; [unfold xok; now rewrite EX, W|]. unfold qval. now rewrite V.
Qed.

Definition xpow (c : number) (n : Z) : number := match num_pow c (NInt n) with Ok r => r | _ => NInt 0 end.
Lemma xpow_spec : forall c n, xok c = true -> npow_ok c n = true ->
  num_pow c (NInt n) = Ok (xpow c n) /\ xok (xpow c n) = true /\ qi_eq (qval (xpow c n)) (qi_powz (qval c) n).
Proof. intros c n X H. destruct (num_pow_x c n X H) as (r & E & Xr & V). unfold xpow. rewrite E. auto. Qed.

(* product of two Integer / Rational exponents, one of them an Integer *)
Lemma xmul_exp : forall v n, qexp_ok v = true -> n <> 0 -> qexp_ok (xmul v (NInt n)) = true.
Proof.
  intros v n Q NZ. pose proof (qexp_ok_xok _ Q) as Xv. pose proof (xmul_xok v (NInt n) Xv (xok_int n)) as X.
  pose proof (xmul_val v (NInt n) Xv (xok_int n)) as V.
  unfold qexp_ok. rewrite X. cbn [andb].
  assert (NZv : ~ qi_is_zero (qval v)).
  { intros Z. apply (is_zero_val v Xv) in Z. rewrite (qexp_ok_nz _ Q) in Z. discriminate. }
  assert (NZn : ~ qi_is_zero (qval (NInt n))).
  { rewrite qval_int. intros [Z _]. cbn [fst] in Z. unfold Qeq in Z. cbn in Z. lia. }
  assert (NZp : num_is_zero (xmul v (NInt n)) = false).
  { destruct (num_is_zero (xmul v (NInt n))) eqn:Z; [|reflexivity]. exfalso.
    apply (is_zero_val _ X) in Z. unfold qi_is_zero in Z. rewrite V in Z. exact (qi_mul_nonzero _ _ NZv NZn Z). }
  rewrite NZp. cbn [negb andb].
  destruct (xmul v (NInt n)) as [z|p q|rn rd imn imd| | | | ] eqn:E; try reflexivity; try discriminate X.
  exfalso. destruct (xok_cplx_low _ _ _ _ X) as (_ & _ & NI). apply NI.
  destruct V as [_ V2]. unfold qval in V2. cbn [valQi snd] in V2.
  unfold qexp_ok in Q. apply andb_prop in Q. destruct Q as [_ K].
  destruct v; try discriminate K; cbn [valQi qi_mul fst snd] in V2; unfold Qeq in V2; cbn in V2; lia.
Qed.

(* ---------- the calls made by power_num, on numbers ---------- *)
Lemma eqb_int_lit : forall n z, expr_eqb (ENum (NInt n)) (ENum (NInt z)) = (n =? z).
Proof. intros. rewrite eqb_ENum. reflexivity. Qed.

Lemma rE_pow_num : forall f c n, xok c = true -> npow_ok c n = true -> n <> 0 ->
  exists r, rE (arith (S f)) (CPow (ENum c) (ENum (NInt n))) = Ok (ENum r) /\ xok r = true.
Proof.
  intros f c n Xc H NZ. unfold rE. rewrite arith_S. cbn [step]. unfold step_pow. cbv zeta.
  cbn [num_is_zero]. rewrite (proj2 (Z.eqb_neq n 0) NZ).
  unfold e_one, e_zero, e_minus_one, e_int. rewrite eqb_int_lit.
  destruct (n =? 1) eqn:N1; [cbn [bind]; eauto|].
  rewrite !eqb_ENum.
  destruct (SE.Expr.Cmp.num_eqb c (NInt 0)) eqn:C0.
  - cbn [num_is_positive num_is_negative]. destruct (0 <? n) eqn:P; [cbn [bind]; exists (NInt 0); auto|].
    exfalso. apply cmp_num_eqb_eq in C0; auto. subst c. unfold npow_ok in H. apply andb_prop in H. destruct H as [_ H].
    cbn [num_is_zero Z.eqb negb] in H. rewrite orb_false_r in H. apply Z.leb_le in H.
    assert (0 < n) by lia. apply Z.ltb_lt in H0. congruence.
  - destruct (SE.Expr.Cmp.num_eqb c (NInt (-1))) eqn:C1.
    + cbn [bind]. destruct (Z.even n); [exists (NInt 1) | exists (NInt (-1))]; auto.
    + destruct (xpow_spec c n Xc H) as (E & Xr & _). rewrite E. cbn [bind]. eauto.
Qed.

Lemma mfd_nil : forall c, mul_from_dict c [] = ENum c.
Proof. intros c. unfold mul_from_dict. destruct (num_is_zero c); reflexivity. Qed.

Lemma rE_mul_num : forall rec v w, xok v = true -> xok w = true ->
  rE (fun c => step rec c) (CMul (ENum v) (ENum w)) = Ok (ENum (xmul v w)).
Proof.
  intros rec v w Xv Xw. unfold rE. cbn [step]. unfold step_mul. cbn [mul_operand].
  rewrite (num_mul_ok (NInt 1) v (xok_int 1) Xv). cbn [bind fst snd]. rewrite xmul_1_l by assumption.
  rewrite (num_mul_ok v w Xv Xw). cbn [bind fst snd]. now rewrite mfd_nil.
Qed.
Lemma rE_mul_num_S : forall f v w, xok v = true -> xok w = true ->
  rE (arith (S f)) (CMul (ENum v) (ENum w)) = Ok (ENum (xmul v w)).
Proof. intros f v w Xv Xw. apply (rE_mul_num (arith f)); assumption. Qed.

(* ---------- Mul::power_num with an Integer exponent ---------- *)
Definition pow_entries (d : mdict) (n : Z) : mdict :=
  map (fun p => (fst p, ENum (xmul (num_of (snd p)) (NInt n)))) d.

Lemma pow_entries_ok : forall d n, mentries_ok d = true -> n <> 0 -> mentries_ok (pow_entries d n) = true.
Proof.
  intros d n D NZ. unfold mentries_ok, pow_entries. apply forallb_forall. intros p' Hp'.
  apply in_map_iff in Hp'. destruct Hp' as ([k v] & <- & Hp).
  destruct (mentry_ok_inv k v (mentries_in _ _ D Hp)) as (T & q & -> & Q).
  unfold mentry_ok. cbn [fst snd num_of]. rewrite T. cbn [andb]. now apply xmul_exp.
Qed.

Lemma power_num_loop : forall f n sd coef d, n <> 0 -> mentries_ok sd = true -> mentries_ok d = true ->
  fold_res (fun st p =>
     bind (rE (arith (S (S f))) (CMul (snd p) (ENum (NInt n)))) (fun ne =>
     match ne, fst p with
     | ENum (NInt z), EMul kc kd => rS (arith (S (S f))) (CPowerNum kc kd (fst st) (snd st) (NInt z))
     | _, _ => rS (arith (S (S f))) (CDatn (fst st) (snd st) ne (fst p))
     end)) sd (coef, d) = Ok (coef, dmerge d (pow_entries sd n)).
Proof.
  intros f n. induction sd as [|[k v] sd IH]; intros coef d NZ SD D; cbn [fold_res]; [reflexivity|].
  cbn [mentries_ok forallb] in SD. apply andb_prop in SD. destruct SD as [E SD].
  destruct (mentry_ok_inv k v E) as (T & q & -> & Q). destruct (atom_ok_inv _ T) as (_ & _ & A).
  cbn [fst snd]. rewrite rE_mul_num_S by auto using qexp_ok_xok, xok_int. cbn [bind].
  pose proof (xmul_exp q n Q NZ) as Q'.
  assert (DAT : match ENum (xmul q (NInt n)), k with
                | ENum (NInt z), EMul kc kd => rS (arith (S (S f))) (CPowerNum kc kd coef d (NInt z))
                | _, _ => rS (arith (S (S f))) (CDatn coef d (ENum (xmul q (NInt n))) k)
                end = Ok (coef, dstep d (k, ENum (xmul q (NInt n))))).
  { rewrite <- (rS_datn_frag (S f) coef d (xmul q (NInt n)) k D T Q').
    destruct (xmul q (NInt n)); try reflexivity. destruct k; try discriminate A; reflexivity. }
  rewrite DAT. cbn [bind]. unfold pow_entries. cbn [map fst snd num_of]. unfold dmerge. cbn [fold_left].
  apply IH; auto. now apply dstep_entries.
Qed.

Lemma step_power_num_int : forall f sc sd n, xok sc = true -> npow_ok sc n = true -> n <> 0 -> mentries_ok sd = true ->
  exists r, step_power_num (arith (S (S f))) sc sd (NInt 1) [] (NInt n) = Ok (r, dmerge [] (pow_entries sd n)) /\ xok r = true.
Proof.
  intros f sc sd n Xc H NZ SD. unfold step_power_num. cbn [num_is_zero]. rewrite (proj2 (Z.eqb_neq n 0) NZ).
  destruct (rE_pow_num (S f) sc n Xc H NZ) as (r & E & Xr). rewrite E. cbn [bind].
  rewrite power_num_loop by (auto; reflexivity). cbn [bind fst snd].
  rewrite (num_mul_ok (NInt 1) r (xok_int 1) Xr). cbn [bind]. rewrite xmul_1_l by assumption. eauto.
Qed.

(* ---------- pow(a, n) ---------- *)
Definition pow_operand_ok (a : expr) (n : Z) : bool :=
  mul_operand_ok a &&
  match a with
  | ENum c => npow_ok c n
  | EMul c _ => npow_ok c n
  | _ => true
  end.

(* operands of the fragment are themselves canonical and well formed *)
Lemma mul_operand_good : forall a, mul_operand_ok a = true -> canonical a = true /\ wf a = true.
Proof.
  intros a H. unfold mul_operand_ok in H.
  assert (ATOM : atom_ok a = true -> canonical a = true /\ wf a = true).
  { intros T. destruct (atom_ok_inv _ T) as (W & C & _). auto. }
  destruct a as [n1|nm1|nm1 i1|nm1|ac1 ad1|mc1 md1|pb1 pe1|fc1 fa1|fc1 fa1 fb1|fc1 fl1|nm1 fl1|fc1 fa1 fb1|fa1 fl1|fa1 fd1|fl1|bb1|is1 ie1 lo1 ro1|tc1];
    cbn [mul_operand_ok_gen] in H; try (now apply ATOM).
  - split; [cbn [canonical node_canonical]; now rewrite (xok_canonical n1 H) | now apply wf_ENum_x].
  - apply andb_prop in H. destruct H as [H O]. apply andb_prop in H. destruct H as [H NE].
    apply andb_prop in H. destruct H as [H _]. apply andb_prop in H. destruct H as [H D].
    apply andb_prop in H. destruct H as [X Z]. apply negb_true_iff in Z, O.
    split.
    + apply canonical_EMul_frag; auto.
      * intros ->. discriminate NE.
      * destruct (num_is_one mc1); [right|left; reflexivity].
        destruct md1 as [|p [|q r]]; [discriminate NE | discriminate O | cbn [length]; lia].
    + apply wf_EMul_intro; auto. now apply mentries_wf.
  - destruct pe1 as [n| | | | | | | | | | | | | | | | | ]; try discriminate H.
    apply andb_prop in H. destruct H as [H O]. apply andb_prop in H. destruct H as [T Q]. apply negb_true_iff in O.
    assert (NE : n <> NInt 1) by (intros ->; discriminate O).
    split; [now apply canonical_EPow_frag|]. apply wf_EPow_intro; [apply (atom_ok_inv _ T) | apply wf_ENum_x; now apply qexp_ok_xok].
Qed.

Lemma step_pow_atom : forall rec a e, atom_ok a = true -> qexp_ok e = true ->
  step_pow rec a (ENum e) = Ok (if SE.Expr.Cmp.num_eqb e (NInt 1) then a else EPow a (ENum e)).
Proof.
  intros rec a e T Q. destruct (atom_ok_inv _ T) as (_ & _ & A).
  unfold step_pow. cbv zeta. rewrite (qexp_ok_nz _ Q). unfold e_one, e_zero, e_minus_one, e_int. rewrite eqb_ENum.
  destruct (SE.Expr.Cmp.num_eqb e (NInt 1)); [reflexivity|].
  assert (K : ctor_kind a <> 0%N) by (destruct a; try discriminate A; discriminate).
  rewrite !(eqb_num_r _ a K).
  pose proof (qexp_ok_xok _ Q) as X. pose proof (xok_exact _ X) as EX.
  destruct a; try discriminate A; cbn [negb]; rewrite ?EX; cbn [negb];
    try (match goal with |- context [expr_eqb ?x e_E] => destruct (expr_eqb x e_E) end); reflexivity.
Qed.

Lemma qexp_int : forall n, n <> 0 -> qexp_ok (NInt n) = true.
Proof. intros n NZ. unfold qexp_ok. cbn [xok num_is_exact NumModel.num_wf num_is_zero andb]. now rewrite (proj2 (Z.eqb_neq n 0) NZ). Qed.

Lemma pow_atom_result : forall a e, atom_ok a = true -> qexp_ok e = true ->
  let r := if SE.Expr.Cmp.num_eqb e (NInt 1) then a else EPow a (ENum e) in
  mul_operand_ok r = true /\ canonical r = true /\ wf r = true.
Proof.
  intros a e T Q r. subst r. pose proof (qexp_ok_xok _ Q) as X.
  destruct (SE.Expr.Cmp.num_eqb e (NInt 1)) eqn:E.
  - destruct (atom_ok_inv _ T) as (W & C & _). split; [now apply atom_operand | auto].
  - assert (NE : e <> NInt 1) by (intros ->; discriminate E).
    destruct (qexp_not_one e Q NE) as [O _].
    split; [unfold mul_operand_ok; cbn [mul_operand_ok_gen]; now rewrite T, Q, O|].
    split; [now apply canonical_EPow_frag|]. apply wf_EPow_intro; [apply (atom_ok_inv _ T) | now apply wf_ENum_x].
Qed.

Theorem pow_int_total_closed : forall f a n, pow_operand_ok a n = true ->
  exists r, e_pow (S (S (S (S f)))) a (ENum (NInt n)) = Ok r /\
    mul_operand_ok r = true /\ canonical r = true /\ wf r = true.
Proof.
  intros f a n H. unfold pow_operand_ok in H. apply andb_prop in H. destruct H as [Ha Hn].
  destruct (mul_operand_good a Ha) as [Ca Wa].
  unfold e_pow. 
  destruct (Z.eq_dec n 0) as [->|NZ].
  { exists (ENum (NInt 1)). split; [|repeat split; reflexivity]. unfold rE. rewrite arith_S. cbn [step]. unfold step_pow. reflexivity. }
  destruct (Z.eq_dec n 1) as [->|N1].
  { exists a. split; [|auto]. unfold rE. rewrite arith_S. cbn [step]. unfold step_pow. cbv zeta. cbn [num_is_zero Z.eqb].
    replace (expr_eqb (ENum (NInt 1)) e_one) with true by reflexivity. reflexivity. }
  assert (SHAPE : (exists c, a = ENum c) \/ (exists c d, a = EMul c d) \/ (exists b q, a = EPow b (ENum q)) \/ atom_ok a = true).
  { unfold mul_operand_ok in Ha. destruct a; cbn [mul_operand_ok_gen] in Ha; eauto 6.
    destruct a2; try discriminate Ha. eauto 6. }
  destruct SHAPE as [(c & ->)|[(c & d & ->)|[(b & q & ->)|T]]].
  - (* number *)
    unfold mul_operand_ok in Ha. cbn [mul_operand_ok_gen] in Ha.
    destruct (rE_pow_num (S (S (S f))) c n Ha Hn NZ) as (r & E & Xr). exists (ENum r). split; [exact E|].
    split; [exact Xr|]. split; [cbn [canonical node_canonical]; now rewrite (xok_canonical r Xr) | now apply wf_ENum_x].
  - (* product *)
    destruct (mul_operand_ok_terms _ _ Ha) as [Xc D]. unfold mconst, mterms in Xc, D. cbn [mlin fst snd] in Xc, D.
    destruct (step_power_num_int f c d n Xc Hn NZ D) as (r & E & Xr).
    exists (mul_from_dict r (dmerge [] (pow_entries d n))).
    assert (DD : mentries_ok (dmerge [] (pow_entries d n)) = true).
    { apply dmerge_entries; [reflexivity | now apply pow_entries_ok]. }
    split; [|split; [apply mfd_closed; auto; discriminate | split; [now apply mfd_canonical | now apply mfd_wf]]].
    unfold rE. rewrite arith_S. cbn [step]. unfold step_pow. cbv zeta. cbn [num_is_zero]. rewrite (proj2 (Z.eqb_neq n 0) NZ).
    unfold e_one, e_zero, e_minus_one, e_int. rewrite eqb_int_lit, (proj2 (Z.eqb_neq n 1) N1).
    rewrite !(eqb_num_r _ (EMul c d)) by discriminate.
    unfold rS. rewrite arith_S. cbn [step]. rewrite E. reflexivity.
  - (* power of an atom *)
    unfold mul_operand_ok in Ha. cbn [mul_operand_ok_gen] in Ha.
    apply andb_prop in Ha. destruct Ha as [Ha O]. apply andb_prop in Ha. destruct Ha as [T Q].
    pose proof (xmul_exp q n Q NZ) as Q'.
    exists (if SE.Expr.Cmp.num_eqb (xmul q (NInt n)) (NInt 1) then b else EPow b (ENum (xmul q (NInt n)))).
    split; [|now apply pow_atom_result].
    unfold rE at 1. rewrite arith_S. cbn [step]. unfold step_pow. cbv zeta. cbn [num_is_zero]. rewrite (proj2 (Z.eqb_neq n 0) NZ).
    unfold e_one, e_zero, e_minus_one, e_int. rewrite eqb_int_lit, (proj2 (Z.eqb_neq n 1) N1).
    rewrite !(eqb_num_r _ (EPow b (ENum q))) by discriminate.
    cbn [is_Integer]. rewrite rE_mul_num_S by auto using qexp_ok_xok, xok_int. cbn [bind].
    unfold rE. rewrite arith_S. cbn [step]. rewrite step_pow_atom by assumption. reflexivity.
  - (* atom *)
    pose proof (qexp_int n NZ) as Q.
    exists (if SE.Expr.Cmp.num_eqb (NInt n) (NInt 1) then a else EPow a (ENum (NInt n))).
    split; [|now apply pow_atom_result].
    unfold rE. rewrite arith_S. cbn [step]. rewrite step_pow_atom by assumption. reflexivity.
Qed.

Theorem pow_int_canonical : forall fuel a n r, pow_operand_ok a n = true ->
  e_pow fuel a (ENum (NInt n)) = Ok r -> mul_operand_ok r = true /\ canonical r = true /\ wf r = true.
Proof.
  intros fuel a n r H E. destruct (pow_int_total_closed fuel a n H) as (r' & E' & C).
  pose proof (le_ok _ _ _ r (e_pow_mono fuel (S (S (S (S fuel)))) a (ENum (NInt n)) ltac:(lia)) E) as E2.
  rewrite E' in E2. injection E2 as ->. exact C.
Qed.

(* ---------- div(a, b) = mul(a, pow(b, -1)) ---------- *)
Theorem div_canonical : forall fuel a b r, mul_operand_ok a = true -> pow_operand_ok b (-1) = true ->
  e_div fuel a b = Ok r -> mul_operand_ok r = true /\ canonical r = true /\ wf r = true.
Proof.
  intros fuel a b r Ha Hb E. unfold e_div in E.
  assert (NZ : is_number_and_zero b = false).
  { unfold pow_operand_ok in Hb. apply andb_prop in Hb. destruct Hb as [_ Hb].
    destruct b; try reflexivity. cbn [is_number_and_zero]. unfold npow_ok in Hb. apply andb_prop in Hb. destruct Hb as [_ Hb].
    cbn [Z.leb orb] in Hb. destruct (num_is_zero n); [discriminate Hb | reflexivity]. }
  rewrite NZ in E. destruct (e_pow fuel b e_minus_one) as [p| | |] eqn:P; try discriminate E. cbn [bind] in E.
  destruct (pow_int_canonical fuel b (-1) p Hb P) as (Hp & _ & _).
  exact (mul_canonical fuel a p r Ha Hp E).
Qed.
