(* pow(a, n) for an Integer n on the power-product fragment: numbers, atoms, powers of atoms and
   products (Mul::power_num with an Integer exponent): closure, canonical form (C03). *)
From SE Require Export Expr.ArithMulProofs.
From SE Require Import Num.NumSpec Num.NumQi Num.NumC05 Expr.CmpProofs.
From Coq Require Import QArith Lia Permutation Setoid Morphisms.
Local Open Scope Z_scope.

(* ---------- number ** Integer ---------- *)
(* the exponent is in the range GMP accepts and 0 is not raised to a negative power *)
Definition npow_ok (c : number) (n : Z) : bool :=
  pow_in_range c n && ((0 <=? n) || negb (num_is_zero c)).

Lemma num_pow_x : forall c n, xok c = true -> npow_ok c n = true ->
  exists r, num_pow c (NInt n) = Ok r /\ xok r = true /\ qi_eq (qval r) (qi_powz (qval c) n).
Proof.
  intros c n Xc H. unfold npow_ok in H. apply andb_prop in H. destruct H as [R Z].
  assert (HZ : 0 <= n \/ ~ qi_is_zero (qval c)).
  { apply orb_prop in Z. destruct Z as [Z|Z]; [left; now apply Z.leb_le|right].
    intros Q. apply (is_zero_val c Xc) in Q. rewrite Q in Z. discriminate. }
  destruct (num_powint_correct c n (qval c) (qval_some c Xc) R HZ) as (r & z & E & V & Q).
  exists r. split; [exact E|].
  assert (EX : num_is_exact r = true) by (destruct r; cbn in V; try discriminate; reflexivity).
  destruct (pow_good c n r (xok_exact _ Xc) (xok_nwf _ Xc) E) as [W _].
  split; [unfold xok; now rewrite EX, W|]. unfold qval. now rewrite V.
Qed.

Definition xpow (c : number) (n : Z) : number := match num_pow c (NInt n) with Ok r => r | _ => NInt 0 end.
Lemma xpow_spec : forall c n, xok c = true -> npow_ok c n = true ->
  num_pow c (NInt n) = Ok (xpow c n) /\ xok (xpow c n) = true /\ qi_eq (qval (xpow c n)) (qi_powz (qval c) n).
Proof. intros c n X H. destruct (num_pow_x c n X H) as (r & E & Xr & V). unfold xpow. rewrite E. auto. Qed.

(* product of two Integer / Rational exponents, one of them an Integer *)
Lemma xmul_exp : forall v n, qexp_ok v = true -> n <> 0 -> qexp_ok (xmul v (NInt n)) = true.
Proof.
  intros v n Q NZ. pose proof (qexp_ok_xok _ Q) as Xv. pose proof (xmul_xok v (NInt n) Xv (xok_int n)) as X.
  pose proof (xmul_val v (NInt n) Xv (xok_int n)) as V.
  unfold qexp_ok. rewrite X. cbn [andb].
  assert (NZv : ~ qi_is_zero (qval v)).
  { intros Z. apply (is_zero_val v Xv) in Z. rewrite (qexp_ok_nz _ Q) in Z. discriminate. }
  assert (NZn : ~ qi_is_zero (qval (NInt n))).
  { rewrite qval_int. intros [Z _]. cbn [fst] in Z. unfold Qeq in Z. cbn in Z. lia. }
  assert (NZp : num_is_zero (xmul v (NInt n)) = false).
  { destruct (num_is_zero (xmul v (NInt n))) eqn:Z; [|reflexivity]. exfalso.
    apply (is_zero_val _ X) in Z. unfold qi_is_zero in Z. rewrite V in Z. exact (qi_mul_nonzero _ _ NZv NZn Z). }
  rewrite NZp. cbn [negb andb].
  destruct (xmul v (NInt n)) as [z|p q|rn rd imn imd| | | | ] eqn:E; try reflexivity; try discriminate X.
  exfalso. destruct (xok_cplx_low _ _ _ _ X) as (_ & _ & NI). apply NI.
  destruct V as [_ V2]. unfold qval in V2. cbn [valQi snd] in V2.
  unfold qexp_ok in Q. apply andb_prop in Q. destruct Q as [_ K].
  destruct v; try discriminate K; cbn [valQi qi_mul fst snd] in V2; unfold Qeq in V2; cbn in V2; lia.
Qed.

(* ---------- the calls made by power_num, on numbers ---------- *)
Lemma eqb_int_lit : forall n z, expr_eqb (ENum (NInt n)) (ENum (NInt z)) = (n =? z).
Proof. intros. rewrite eqb_ENum. reflexivity. Qed.

Lemma rE_pow_num : forall f c n, xok c = true -> npow_ok c n = true -> n <> 0 ->
  exists r, rE (arith (S f)) (CPow (ENum c) (ENum (NInt n))) = Ok (ENum r) /\ xok r = true.
Proof.
  intros f c n Xc H NZ. unfold rE. rewrite arith_S. cbn [step]. unfold step_pow. cbv zeta.
  cbn [num_is_zero]. rewrite (proj2 (Z.eqb_neq n 0) NZ).
  unfold e_one, e_zero, e_minus_one, e_int. rewrite eqb_int_lit.
  destruct (n =? 1) eqn:N1; [cbn [bind]; eauto|].
  rewrite !eqb_ENum.
  destruct (SE.Expr.Cmp.num_eqb c (NInt 0)) eqn:C0.
  - cbn [num_is_positive num_is_negative]. destruct (0 <? n) eqn:P; [cbn [bind]; exists (NInt 0); auto|].
    exfalso. apply cmp_num_eqb_eq in C0; auto. subst c. unfold npow_ok in H. apply andb_prop in H. destruct H as [_ H].
    cbn [num_is_zero Z.eqb negb] in H. rewrite orb_false_r in H. apply Z.leb_le in H.
    assert (0 < n) by lia. apply Z.ltb_lt in H0. congruence.
  - destruct (SE.Expr.Cmp.num_eqb c (NInt (-1))) eqn:C1.
    + cbn [bind]. destruct (Z.even n); [exists (NInt 1) | exists (NInt (-1))]; auto.
    + destruct (xpow_spec c n Xc H) as (E & Xr & _). rewrite E. cbn [bind]. eauto.
Qed.

Lemma mfd_nil : forall c, mul_from_dict c [] = ENum c.
Proof. intros c. unfold mul_from_dict. destruct (num_is_zero c); reflexivity. Qed.

Lemma rE_mul_num : forall rec v w, xok v = true -> xok w = true ->
  rE (fun c => step rec c) (CMul (ENum v) (ENum w)) = Ok (ENum (xmul v w)).
Proof.
  intros rec v w Xv Xw. unfold rE. cbn [step]. unfold step_mul. cbn [mul_operand].
  rewrite (num_mul_ok (NInt 1) v (xok_int 1) Xv). cbn [bind fst snd]. rewrite xmul_1_l by assumption.
  rewrite (num_mul_ok v w Xv Xw). cbn [bind fst snd]. now rewrite mfd_nil.
Qed.
Lemma rE_mul_num_S : forall f v w, xok v = true -> xok w = true ->
  rE (arith (S f)) (CMul (ENum v) (ENum w)) = Ok (ENum (xmul v w)).
Proof. intros f v w Xv Xw. apply (rE_mul_num (arith f)); assumption. Qed.

(* ---------- Mul::power_num with an Integer exponent ---------- *)
Definition pow_entries (d : mdict) (n : Z) : mdict :=
  map (fun p => (fst p, ENum (xmul (num_of (snd p)) (NInt n)))) d.

Lemma pow_entries_ok : forall d n, mentries_ok d = true -> n <> 0 -> mentries_ok (pow_entries d n) = true.
Proof.
  intros d n D NZ. unfold mentries_ok, pow_entries. apply forallb_forall. intros p' Hp'.
  apply in_map_iff in Hp'. destruct Hp' as ([k v] & <- & Hp).
  destruct (mentry_ok_inv k v (mentries_in _ _ D Hp)) as (T & q & -> & Q).
  unfold mentry_ok. cbn [fst snd num_of]. rewrite T. cbn [andb]. now apply xmul_exp.
Qed.

Lemma power_num_loop : forall f n sd coef d, n <> 0 -> mentries_ok sd = true -> mentries_ok d = true ->
  fold_res (fun st p =>
     bind (rE (arith (S (S f))) (CMul (snd p) (ENum (NInt n)))) (fun ne =>
     match ne, fst p with
     | ENum (NInt z), EMul kc kd => rS (arith (S (S f))) (CPowerNum kc kd (fst st) (snd st) (NInt z))
     | _, _ => rS (arith (S (S f))) (CDatn (fst st) (snd st) ne (fst p))
     end)) sd (coef, d) = Ok (coef, dmerge d (pow_entries sd n)).
Proof.
  intros f n. induction sd as [|[k v] sd IH]; intros coef d NZ SD D; cbn [fold_res]; [reflexivity|].
  cbn [mentries_ok forallb] in SD. apply andb_prop in SD. destruct SD as [E SD].
  destruct (mentry_ok_inv k v E) as (T & q & -> & Q). destruct (atom_ok_inv _ T) as (_ & _ & A).
  cbn [fst snd]. rewrite rE_mul_num_S by auto using qexp_ok_xok, xok_int. cbn [bind].
  pose proof (xmul_exp q n Q NZ) as Q'.
  assert (DAT : match ENum (xmul q (NInt n)), k with
                | ENum (NInt z), EMul kc kd => rS (arith (S (S f))) (CPowerNum kc kd coef d (NInt z))
                | _, _ => rS (arith (S (S f))) (CDatn coef d (ENum (xmul q (NInt n))) k)
                end = Ok (coef, dstep d (k, ENum (xmul q (NInt n))))).
  { rewrite <- (rS_datn_frag (S f) coef d (xmul q (NInt n)) k D T Q').
    destruct (xmul q (NInt n)); try reflexivity. destruct k; try discriminate A; reflexivity. }
  rewrite DAT. cbn [bind]. unfold pow_entries. cbn [map fst snd num_of]. unfold dmerge. cbn [fold_left].
  apply IH; auto. now apply dstep_entries.
Qed.

Lemma step_power_num_int : forall f sc sd n, xok sc = true -> npow_ok sc n = true -> n <> 0 -> mentries_ok sd = true ->
  exists r, step_power_num (arith (S (S f))) sc sd (NInt 1) [] (NInt n) = Ok (r, dmerge [] (pow_entries sd n)) /\ xok r = true.
Proof.
  intros f sc sd n Xc H NZ SD. unfold step_power_num. cbn [num_is_zero]. rewrite (proj2 (Z.eqb_neq n 0) NZ).
  destruct (rE_pow_num (S f) sc n Xc H NZ) as (r & E & Xr). rewrite E. cbn [bind].
  rewrite power_num_loop by (auto; reflexivity). cbn [bind fst snd].
  rewrite (num_mul_ok (NInt 1) r (xok_int 1) Xr). cbn [bind]. rewrite xmul_1_l by assumption. eauto.
Qed.
