(* C01: eq is an equivalence on well-formed expressions, the hash respects it, the hash of a
   sum is independent of dictionary order, hash-keyed insertion creates no duplicate keys. *)
From SE Require Export Expr.Dict.
From Coq Require Import Lia ZifyBool ZifyNat ZifyN Permutation.
Local Open Scope N_scope.

Theorem add_hash_order_independent :
  forall (c : number) (d1 d2 : list (expr * number)),
    Permutation d1 d2 -> hash (EAdd c d1) = hash (EAdd c d2).
Proof.
  intros c d1 d2 H. cbn [hash].
  apply (xor_fold_perm (fun p => hash_combine (hash (fst p)) (hash_num (snd p)))). exact H.
Qed.

(* ---------- element lists ---------- *)
Lemma list_eqb_refl : forall l, (forall x, In x l -> expr_eqb x x = true) ->
  list_eqb expr_eqb l l = true.
Proof. induction l; cbn; intros H; [reflexivity|]. rewrite H, IHl; auto. Qed.

Lemma list_eqb_sym : forall l1 l2,
  (forall x y, In x l1 -> In y l2 -> expr_eqb x y = true -> expr_eqb y x = true) ->
  list_eqb expr_eqb l1 l2 = true -> list_eqb expr_eqb l2 l1 = true.
Proof.
  induction l1; destruct l2; cbn; intros H E; try discriminate; [reflexivity|].
  apply andb_prop in E. destruct E as [E1 E2]. rewrite (H a e), IHl1; auto.
Qed.

Lemma list_eqb_trans : forall l1 l2 l3,
  (forall x y z, In x l1 -> In y l2 -> In z l3 ->
     expr_eqb x y = true -> expr_eqb y z = true -> expr_eqb x z = true) ->
  list_eqb expr_eqb l1 l2 = true -> list_eqb expr_eqb l2 l3 = true -> list_eqb expr_eqb l1 l3 = true.
Proof.
  induction l1; destruct l2; destruct l3; cbn; intros H E1 E2; try discriminate; [reflexivity|].
  apply andb_prop in E1. destruct E1 as [E1 E1']. apply andb_prop in E2. destruct E2 as [E2 E2'].
  rewrite (H a e e0), (IHl1 l2 l3); auto.
  intros x y z ? ? ?. apply H; auto.
Qed.

Lemma list_eqb_hash : forall l1 l2,
  (forall x y, In x l1 -> In y l2 -> expr_eqb x y = true -> hash x = hash y) ->
  list_eqb expr_eqb l1 l2 = true ->
  forall s, fold_left (fun seed a => hash_combine seed (hash a)) l1 s =
            fold_left (fun seed a => hash_combine seed (hash a)) l2 s.
Proof.
  induction l1; destruct l2; cbn; intros H E s; try discriminate; [reflexivity|].
  apply andb_prop in E. destruct E as [E1 E2]. rewrite (H a e); auto.
Qed.

(* ---------- the induction on size ---------- *)
Definition Pn (n : nat) (x : expr) : Prop := wf x = true /\ (size x < n)%nat.

Lemma child_P : forall n a x, wf a = true -> (size a < S n)%nat -> In x (children a) -> Pn n x.
Proof.
  intros n a x W S H. split; [eapply children_wf; eassumption|].
  apply children_size in H. lia.
Qed.

Lemma add_dict_ok : forall n c d, wf (EAdd c d) = true -> (size (EAdd c d) < S n)%nat ->
  dict_ok (Pn n) d.
Proof.
  intros n c d W S. destruct (wf_add c d W) as [_ [K NE]]. split; [|exact NE].
  intros p Hp. split; [|apply K; exact Hp].
  apply (child_P n (EAdd c d)); auto. cbn [children]. apply in_map. exact Hp.
Qed.

Ltac solveP :=
  match goal with
  | W : wf ?a = true, S : (size ?a < S _)%nat |- Pn _ _ =>
      solve [apply (child_P _ a _ W S); cbn [children In]; tauto]
  end.

Ltac split_hyps :=
  repeat match goal with
  | H : (_ && _)%bool = true |- _ => apply andb_prop in H; destruct H
  end;
  repeat match goal with
  | H : (_ =? _)%N = true |- _ => apply N.eqb_eq in H; subst
  | H : bytes_eqb _ _ = true |- _ => apply bytes_eqb_eq in H; subst
  | H : Bool.eqb _ _ = true |- _ => apply Bool.eqb_prop in H; subst
  end.

Ltac split_goal :=
  repeat match goal with |- (_ && _)%bool = true => apply andb_true_intro; split end.

Ltac num_side :=
  match goal with
  | W : wf ?a = true |- num_wf _ = true => exact (wf_coef a W)
  end.

Section Step.
  Variable n : nat.
  Hypothesis IHrefl : forall x, Pn n x -> expr_eqb x x = true.
  Hypothesis IHsym : forall x y, Pn n x -> Pn n y -> expr_eqb x y = true -> expr_eqb y x = true.
  Hypothesis IHtrans : forall x y z, Pn n x -> Pn n y -> Pn n z ->
    expr_eqb x y = true -> expr_eqb y z = true -> expr_eqb x z = true.
  Hypothesis IHhash : forall x y, Pn n x -> Pn n y -> expr_eqb x y = true -> hash x = hash y.

  Lemma step_refl : forall a, wf a = true -> (size a < S n)%nat -> expr_eqb a a = true.
  Proof.
    intros a W S. rewrite expr_eqb_unfold.
    destruct a; cbn [eqb_body]; split_goal;
      first [ apply N.eqb_refl | apply bytes_eqb_refl | apply Bool.eqb_reflx
            | apply num_eqb_refl; num_side
            | apply IHrefl; solveP
            | apply list_eqb_refl; intros; apply IHrefl; solveP
            | apply (umap_eqb_refl (Pn n)); auto; eapply add_dict_ok; eassumption ].
  Qed.

  Lemma step_sym : forall a b, wf a = true -> wf b = true ->
    (size a < S n)%nat -> (size b < S n)%nat -> expr_eqb a b = true -> expr_eqb b a = true.
  Proof.
    intros a b Wa Wb Sa Sb. rewrite !expr_eqb_unfold.
    destruct a; destruct b; cbn [eqb_body]; intros E; try discriminate E; split_hyps; split_goal;
      first [ apply N.eqb_refl | apply bytes_eqb_refl | apply Bool.eqb_reflx
            | rewrite num_eqb_sym; assumption
            | apply IHsym; [solveP | solveP | assumption]
            | apply list_eqb_sym; [intros; apply IHsym; [solveP | solveP | assumption] | assumption]
            | apply (umap_eqb_sym (Pn n)); auto; eapply add_dict_ok; eassumption ].
  Qed.

  Lemma step_trans : forall a b c, wf a = true -> wf b = true -> wf c = true ->
    (size a < S n)%nat -> (size b < S n)%nat -> (size c < S n)%nat ->
    expr_eqb a b = true -> expr_eqb b c = true -> expr_eqb a c = true.
  Proof.
    intros a b c Wa Wb Wc Sa Sb Sc. rewrite !expr_eqb_unfold.
    destruct a; destruct b; cbn [eqb_body]; intros E1; try discriminate E1;
      destruct c; cbn [eqb_body]; intros E2; try discriminate E2; split_hyps; split_goal;
      first [ apply N.eqb_refl | apply bytes_eqb_refl | apply Bool.eqb_reflx
            | match goal with
              | H1 : num_eqb ?x ?y = true, H2 : num_eqb ?y ?z = true |- num_eqb ?x ?z = true =>
                  apply (num_eqb_trans x y z); auto; num_side
              end
            | match goal with
              | H1 : expr_eqb ?x ?y = true, H2 : expr_eqb ?y ?z = true |- expr_eqb ?x ?z = true =>
                  apply (IHtrans x y z); [solveP | solveP | solveP | assumption | assumption]
              end
            | match goal with
              | H1 : list_eqb _ ?x ?y = true, H2 : list_eqb _ ?y ?z = true |- list_eqb _ ?x ?z = true =>
                  apply (list_eqb_trans x y z); [ | assumption | assumption];
                  intros x0 y0 z0 ? ? ?; apply (IHtrans x0 y0 z0); solveP
              end
            | match goal with
              | H1 : umap_eqb _ ?x ?y = true, H2 : umap_eqb _ ?y ?z = true |- umap_eqb _ ?x ?z = true =>
                  apply (umap_eqb_trans (Pn n)) with (d2 := y); auto; eapply add_dict_ok; eassumption
              end ].
  Qed.

  Lemma step_hash : forall a b, wf a = true -> wf b = true ->
    (size a < S n)%nat -> (size b < S n)%nat -> expr_eqb a b = true -> hash a = hash b.
  Proof.
    intros a b Wa Wb Sa Sb. rewrite !expr_eqb_unfold.
    destruct a; destruct b; cbn [eqb_body]; intros E; try discriminate E; split_hyps;
      cbn [hash]; rewrite ?hash_pairs_flat;
      repeat match goal with
      | H : num_eqb ?x ?y = true |- _ =>
          rewrite (num_eqb_hash x y) by (try assumption; num_side); clear H
      | H : expr_eqb ?x ?y = true |- _ =>
          rewrite (IHhash x y) by (try assumption; solveP); clear H
      | H : list_eqb _ ?x ?y = true |- _ =>
          rewrite (list_eqb_hash x y) by (try assumption; intros; apply IHhash; (assumption || solveP));
          clear H
      | H : umap_eqb _ ?x ?y = true |- _ =>
          rewrite (umap_eqb_hash (Pn n) IHsym IHtrans IHhash x y)
            by (try assumption; eapply add_dict_ok; eassumption);
          clear H
      end; reflexivity.
  Qed.
End Step.

Lemma eq_all : forall n,
  (forall x, Pn n x -> expr_eqb x x = true) /\
  (forall x y, Pn n x -> Pn n y -> expr_eqb x y = true -> expr_eqb y x = true) /\
  (forall x y z, Pn n x -> Pn n y -> Pn n z ->
    expr_eqb x y = true -> expr_eqb y z = true -> expr_eqb x z = true) /\
  (forall x y, Pn n x -> Pn n y -> expr_eqb x y = true -> hash x = hash y).
Proof.
  induction n as [|n [IH1 [IH2 [IH3 IH4]]]].
  - unfold Pn. repeat split; intros; exfalso; lia.
  - unfold Pn in *. repeat split.
    + intros x [W S]. apply (step_refl n); auto.
    + intros x y [Wx Sx] [Wy Sy]. apply (step_sym n); auto.
    + intros x y z [Wx Sx] [Wy Sy] [Wz Sz]. apply (step_trans n); auto.
    + intros x y [Wx Sx] [Wy Sy]. apply (step_hash n); auto.
Qed.

Definition big (a b c : expr) : nat := S (size a + size b + size c).

Lemma expr_eqb_refl : forall a, wf a = true -> expr_eqb a a = true.
Proof. intros a W. apply (proj1 (eq_all (big a a a))). unfold Pn, big. split; [assumption|lia]. Qed.
Lemma expr_eqb_sym : forall a b, wf a = true -> wf b = true ->
  expr_eqb a b = true -> expr_eqb b a = true.
Proof.
  intros a b Wa Wb. apply (proj1 (proj2 (eq_all (big a b b)))); unfold Pn, big; (split; [assumption|lia]).
Qed.
Lemma expr_eqb_trans : forall a b c, wf a = true -> wf b = true -> wf c = true ->
  expr_eqb a b = true -> expr_eqb b c = true -> expr_eqb a c = true.
Proof.
  intros a b c Wa Wb Wc.
  apply (proj1 (proj2 (proj2 (eq_all (big a b c))))); unfold Pn, big; (split; [assumption|lia]).
Qed.

Theorem hash_respects_eq :
  forall a b : expr, wf a = true -> wf b = true -> expr_eqb a b = true -> hash a = hash b.
Proof.
  intros a b Wa Wb.
  apply (proj2 (proj2 (proj2 (eq_all (big a b b))))); unfold Pn, big; (split; [assumption|lia]).
Qed.

Theorem eq_equivalence :
  (forall a, wf a = true -> expr_eqb a a = true) /\
  (forall a b, wf a = true -> wf b = true -> expr_eqb a b = true -> expr_eqb b a = true) /\
  (forall a b c, wf a = true -> wf b = true -> wf c = true ->
     expr_eqb a b = true -> expr_eqb b c = true -> expr_eqb a c = true).
Proof. exact (conj expr_eqb_refl (conj expr_eqb_sym expr_eqb_trans)). Qed.

Lemma expr_eqb_sym_eq : forall a b, wf a = true -> wf b = true -> expr_eqb a b = expr_eqb b a.
Proof.
  intros a b Wa Wb. destruct (expr_eqb a b) eqn:E1; destruct (expr_eqb b a) eqn:E2; try reflexivity.
  - rewrite (expr_eqb_sym a b) in E2; auto.
  - rewrite (expr_eqb_sym b a) in E1; auto.
Qed.

(* ---------- hash-keyed insertion ---------- *)
Lemma find_none_ne : forall k d, wf k = true -> (forall p, In p d -> wf (fst p) = true) ->
  umap_find expr_eqb k d = None -> forall y, In y (map fst d) -> expr_eqb k y = false.
Proof.
  induction d as [|[k0 v0] d IH]; cbn [umap_find map In]; intros W K F y Hy; [contradiction|].
  destruct ((hash k0 =? hash k) && expr_eqb k0 k) eqn:T; [discriminate|].
  destruct Hy as [<-|Hy]; [|apply IH; auto].
  cbn [fst]. destruct (expr_eqb k k0) eqn:E; [|reflexivity].
  assert (W0 : wf k0 = true) by (apply (K (k0, v0)); auto).
  rewrite (expr_eqb_sym k k0), (hash_respects_eq k0 k), N.eqb_refl in T; auto; try discriminate.
  apply expr_eqb_sym; auto.
Qed.

Theorem container_no_dup :
  forall (k : expr) (v : number) (d : list (expr * number)),
    wf k = true -> forallb (fun p => wf (fst p)) d = true ->
    pairwise_ne (map fst d) = true ->
    pairwise_ne (map fst (match umap_find expr_eqb k d with
                          | Some _ => d
                          | None => (k, v) :: d
                          end)) = true.
Proof.
  intros k v d W K NE. destruct (umap_find expr_eqb k d) eqn:F; [exact NE|].
  cbn [map fst pairwise_ne]. rewrite NE, andb_true_r. apply forallb_forall. intros y Hy.
  rewrite (find_none_ne k d W) with (y := y); auto.
  intros p Hp. eapply forallb_forall in K; [exact K | exact Hp].
Qed.
