(* Number-level and string-level lemmas for the eq / hash / compare theorems (C01, C02). *)
From SE Require Export Expr.Wf.
From Coq Require Import Lia ZifyBool ZifyNat ZifyN Znumtheory.
Local Open Scope Z_scope.

(* full transitivity of a three-way comparison on a triple *)
Definition FT {A} (c : A -> A -> Z) (x y z : A) : Prop :=
  (c x y = -1 -> c y z = -1 -> c x z = -1) /\
  (c x y = 0 -> c y z = 0 -> c x z = 0) /\
  (c x y = 0 -> c y z = -1 -> c x z = -1) /\
  (c x y = -1 -> c y z = 0 -> c x z = -1).

Definition in_range (t : Z) : Prop := t = -1 \/ t = 0 \/ t = 1.

Ltac dif :=
  repeat match goal with
  | |- context[if ?c then _ else _] => destruct c eqn:?
  | H : context[if ?c then _ else _] |- _ => destruct c eqn:?
  end.

(* ---------- Zcmp / Ncmp ---------- *)
Lemma Zcmp_lt : forall a b, Zcmp a b = -1 <-> a < b.
Proof. intros; unfold Zcmp; dif; lia. Qed.
Lemma Zcmp_eq : forall a b, Zcmp a b = 0 <-> a = b.
Proof. intros; unfold Zcmp; dif; lia. Qed.
Lemma Zcmp_gt : forall a b, Zcmp a b = 1 <-> b < a.
Proof. intros; unfold Zcmp; dif; lia. Qed.
Lemma Zcmp_range : forall a b, in_range (Zcmp a b).
Proof. intros; unfold in_range, Zcmp; dif; lia. Qed.
Lemma Zcmp_antisym : forall a b, Zcmp a b = - Zcmp b a.
Proof. intros; unfold Zcmp; dif; lia. Qed.
Lemma Zcmp_FT : forall a b c, FT Zcmp a b c.
Proof. intros; unfold FT; rewrite ?Zcmp_lt, ?Zcmp_eq; lia. Qed.

(* ---------- integer-level lexicographic combination ---------- *)
Definition FTz (xy yz xz : Z) : Prop :=
  (xy = -1 -> yz = -1 -> xz = -1) /\ (xy = 0 -> yz = 0 -> xz = 0) /\
  (xy = 0 -> yz = -1 -> xz = -1) /\ (xy = -1 -> yz = 0 -> xz = -1).
Definition lexZ (t u : Z) : Z := if t =? 0 then u else t.

Lemma FT_FTz : forall {A} (c : A -> A -> Z) x y z, FT c x y z = FTz (c x y) (c y z) (c x z).
Proof. reflexivity. Qed.

Lemma FTz_lex : forall t1 t2 t3 u1 u2 u3,
  in_range t1 -> in_range t2 -> in_range t3 -> FTz t1 t2 t3 -> FTz u1 u2 u3 ->
  FTz (lexZ t1 u1) (lexZ t2 u2) (lexZ t3 u3).
Proof.
  unfold in_range, FTz, lexZ. intros t1 t2 t3 u1 u2 u3 R1 R2 R3 [T1 [T2 [T3 T4]]] [U1 [U2 [U3 U4]]].
  destruct R1 as [-> | [-> | ->]]; destruct R2 as [-> | [-> | ->]]; destruct R3 as [-> | [-> | ->]];
    cbn [Z.eqb Pos.eqb]; repeat split; intros A B; try discriminate; try reflexivity; auto;
    exfalso; try (discriminate (T1 eq_refl eq_refl)); try (discriminate (T2 eq_refl eq_refl));
    try (discriminate (T3 eq_refl eq_refl)); try (discriminate (T4 eq_refl eq_refl)).
Qed.
Lemma lexZ_range : forall t u, in_range t -> in_range u -> in_range (lexZ t u).
Proof. unfold lexZ. intros. destruct (t =? 0); assumption. Qed.
Lemma lexZ_antisym : forall t u t' u', t' = - t -> u' = - u -> lexZ t' u' = - lexZ t u.
Proof. unfold lexZ. intros. subst. destruct (t =? 0) eqn:E1, (- t =? 0) eqn:E2; lia. Qed.
Lemma lexZ_zero : forall t u, lexZ t u = 0 <-> t = 0 /\ u = 0.
Proof. unfold lexZ. intros. destruct (t =? 0) eqn:E1; lia. Qed.


(* ---------- byte strings ---------- *)
Lemma bytes_cmp_range : forall a b, in_range (bytes_cmp a b).
Proof.
  unfold in_range. induction a; destruct b; cbn [bytes_cmp]; try lia.
  dif; auto; lia.
Qed.
Lemma bytes_cmp_eq : forall a b, bytes_cmp a b = 0 <-> a = b.
Proof.
  induction a; destruct b; cbn [bytes_cmp]; split; intros H; try reflexivity; try discriminate.
  - destruct (N.eqb_spec a n) as [E|E].
    + apply IHa in H. subst. reflexivity.
    + destruct (a <? n)%N; discriminate.
  - inversion H; subst. rewrite N.eqb_refl. apply IHa. reflexivity.
Qed.
Lemma bytes_cmp_antisym : forall a b, bytes_cmp a b = - bytes_cmp b a.
Proof.
  induction a; destruct b; cbn [bytes_cmp]; try reflexivity.
  rewrite (N.eqb_sym n a). dif; try lia; try apply IHa.
Qed.
Lemma bytes_cmp_FT : forall a b c, FT bytes_cmp a b c.
Proof.
  unfold FT. induction a; destruct b; destruct c; cbn [bytes_cmp]; try lia.
  specialize (IHa b c).
  pose proof (bytes_cmp_range a0 b). pose proof (bytes_cmp_range b c). unfold in_range in *.
  dif; lia.
Qed.
Lemma bytes_eqb_eq : forall a b, bytes_eqb a b = true <-> a = b.
Proof. intros. unfold bytes_eqb. rewrite Z.eqb_eq. apply bytes_cmp_eq. Qed.
Lemma bytes_eqb_refl : forall a, bytes_eqb a a = true.
Proof. intros. apply bytes_eqb_eq. reflexivity. Qed.

(* ---------- rationals in lowest terms ---------- *)
Lemma rat_canon : forall n1 d1 n2 d2,
  Z.gcd n1 (Zpos d1) = 1 -> Z.gcd n2 (Zpos d2) = 1 ->
  n1 * Zpos d2 = n2 * Zpos d1 -> n1 = n2 /\ d1 = d2.
Proof.
  intros n1 d1 n2 d2 G1 G2 E.
  assert (D12 : (Zpos d1 | Zpos d2)).
  { apply Z.gauss with (m := n1).
    - exists n2. lia.
    - rewrite Z.gcd_comm. exact G1. }
  assert (D21 : (Zpos d2 | Zpos d1)).
  { apply Z.gauss with (m := n2).
    - exists n1. lia.
    - rewrite Z.gcd_comm. exact G2. }
  assert (Zpos d1 = Zpos d2) by (apply Z.divide_antisym_nonneg; auto; lia).
  split; [nia | congruence].
Qed.

Lemma Qeq_pair_canon : forall n1 d1 n2 d2,
  (Z.gcd n1 (Zpos d1) =? 1) = true -> (Z.gcd n2 (Zpos d2) =? 1) = true ->
  Qeq_pair n1 d1 n2 d2 = true -> n1 = n2 /\ d1 = d2.
Proof.
  unfold Qeq_pair. intros. apply rat_canon; lia.
Qed.
Lemma Qeq_pair_refl : forall n d, Qeq_pair n d n d = true.
Proof. unfold Qeq_pair. intros. lia. Qed.
Lemma Qeq_pair_cmp : forall n1 d1 n2 d2, Qeq_pair n1 d1 n2 d2 = true <-> Qcmp_pair n1 d1 n2 d2 = 0.
Proof. unfold Qeq_pair, Qcmp_pair. intros. rewrite Zcmp_eq. lia. Qed.
Lemma Qcmp_pair_range : forall n1 d1 n2 d2, in_range (Qcmp_pair n1 d1 n2 d2).
Proof. intros. apply Zcmp_range. Qed.
Lemma Qcmp_pair_antisym : forall n1 d1 n2 d2, Qcmp_pair n1 d1 n2 d2 = - Qcmp_pair n2 d2 n1 d1.
Proof. intros. apply Zcmp_antisym. Qed.
Lemma Qcmp_pair_lt_trans : forall n1 d1 n2 d2 n3 d3,
  Qcmp_pair n1 d1 n2 d2 = -1 -> Qcmp_pair n2 d2 n3 d3 = -1 -> Qcmp_pair n1 d1 n3 d3 = -1.
Proof.
  unfold Qcmp_pair. intros n1 d1 n2 d2 n3 d3. rewrite !Zcmp_lt. intros A B.
  assert (n1 * Zpos d2 * Zpos d3 < n2 * Zpos d1 * Zpos d3) by (apply Z.mul_lt_mono_pos_r; lia).
  assert (n2 * Zpos d3 * Zpos d1 < n3 * Zpos d2 * Zpos d1) by (apply Z.mul_lt_mono_pos_r; lia).
  apply Z.mul_lt_mono_pos_r with (p := Zpos d2); lia.
Qed.
Lemma Qcmp_pair_refl : forall n d, Qcmp_pair n d n d = 0.
Proof. intros. apply Qeq_pair_cmp, Qeq_pair_refl. Qed.

(* ---------- doubles ---------- *)
Lemma dbl_ok_spec : forall b, dbl_ok b = true -> dbl_is_nan b = false /\ (b < W64)%N.
Proof. unfold dbl_ok. intros. lia. Qed.

Ltac Zify.zify_post_hook ::= Z.div_mod_to_equations.

Lemma dbl_key_hash_bits : forall a b,
  (a < W64)%N -> (b < W64)%N -> dbl_key a = dbl_key b -> dbl_hash_bits a = dbl_hash_bits b.
Proof.
  unfold dbl_key, dbl_hash_bits, W64. intros a b Ha Hb.
  dif; lia.
Qed.

Ltac Zify.zify_post_hook ::= idtac.

Lemma dbl_eq_hash_bits : forall a b,
  dbl_ok a = true -> dbl_ok b = true -> dbl_eq a b = true -> dbl_hash_bits a = dbl_hash_bits b.
Proof.
  intros a b Ha Hb E. apply dbl_ok_spec in Ha. apply dbl_ok_spec in Hb.
  apply dbl_key_hash_bits; try tauto. unfold dbl_eq in E. lia.
Qed.
Lemma dbl_eq_key : forall a b, dbl_ok a = true -> dbl_ok b = true ->
  dbl_eq a b = (dbl_key a =? dbl_key b).
Proof.
  intros a b Ha Hb. apply dbl_ok_spec in Ha. apply dbl_ok_spec in Hb. unfold dbl_eq.
  destruct Ha as [-> _]. destruct Hb as [-> _]. reflexivity.
Qed.
Lemma dbl_lt_key : forall a b, dbl_ok a = true -> dbl_ok b = true ->
  dbl_lt a b = (dbl_key a <? dbl_key b).
Proof.
  intros a b Ha Hb. apply dbl_ok_spec in Ha. apply dbl_ok_spec in Hb. unfold dbl_lt.
  destruct Ha as [-> _]. destruct Hb as [-> _]. reflexivity.
Qed.

Ltac dblkey :=
  repeat match goal with
  | |- context[dbl_eq ?a ?b] => rewrite (dbl_eq_key a b) by assumption
  | |- context[dbl_lt ?a ?b] => rewrite (dbl_lt_key a b) by assumption
  | H : context[dbl_eq ?a ?b] |- _ => rewrite (dbl_eq_key a b) in H by assumption
  | H : context[dbl_lt ?a ?b] |- _ => rewrite (dbl_lt_key a b) in H by assumption
  end.

(* ---------- num_eqb ---------- *)
Ltac num_wf_split :=
  repeat match goal with
  | H : num_wf _ = true |- _ => cbn [num_wf] in H
  | H : (_ && _)%bool = true |- _ => apply andb_prop in H; destruct H
  end.

Lemma num_eqb_refl : forall a, num_wf a = true -> num_eqb a a = true.
Proof.
  destruct a; intros W; cbn [num_eqb]; num_wf_split;
    rewrite ?Qeq_pair_refl, ?Z.eqb_refl; try reflexivity.
  - dblkey. lia.
  - dblkey. lia.
Qed.

Lemma dbl_eq_sym : forall a b, dbl_eq a b = dbl_eq b a.
Proof. intros. unfold dbl_eq. rewrite (Z.eqb_sym (dbl_key a)). destruct (dbl_is_nan a), (dbl_is_nan b); reflexivity. Qed.
Lemma Qeq_pair_sym : forall n1 d1 n2 d2, Qeq_pair n1 d1 n2 d2 = Qeq_pair n2 d2 n1 d1.
Proof. intros. unfold Qeq_pair. apply Z.eqb_sym. Qed.

Lemma num_eqb_sym : forall a b, num_eqb a b = num_eqb b a.
Proof.
  destruct a, b; cbn [num_eqb]; try reflexivity;
    rewrite ?(Qeq_pair_sym n d), ?(Qeq_pair_sym rn rd), ?(Qeq_pair_sym imn imd),
            ?(dbl_eq_sym bits), ?(dbl_eq_sym re), ?(dbl_eq_sym im); try reflexivity; apply Z.eqb_sym.
Qed.

Ltac qcanon :=
  repeat match goal with
  | H : Qeq_pair ?a ?b ?c ?d = true |- _ =>
      apply Qeq_pair_canon in H; [destruct H; subst c d | assumption | assumption]
  end.

(* on well-formed numbers eq is structural equality except for signed zeros of doubles *)
Lemma num_eqb_trans : forall a b c, num_wf a = true -> num_wf b = true -> num_wf c = true ->
  num_eqb a b = true -> num_eqb b c = true -> num_eqb a c = true.
Proof.
  destruct a, b; cbn [num_eqb]; try discriminate; destruct c; cbn [num_eqb]; try discriminate;
    intros Wa Wb Wc E1 E2; num_wf_split.
  - lia.
  - qcanon. apply Qeq_pair_refl.
  - qcanon. rewrite !Qeq_pair_refl. reflexivity.
  - dblkey. lia.
  - dblkey. lia.
  - lia.
  - reflexivity.
Qed.

Lemma num_eqb_hash : forall a b, num_wf a = true -> num_wf b = true ->
  num_eqb a b = true -> hash_num a = hash_num b.
Proof.
  destruct a, b; cbn [num_eqb]; try discriminate; intros Wa Wb E; num_wf_split; cbn [hash_num].
  - apply Z.eqb_eq in E. subst. reflexivity.
  - qcanon. reflexivity.
  - qcanon. reflexivity.
  - rewrite (dbl_eq_hash_bits bits bits0) by assumption. reflexivity.
  - rewrite (dbl_eq_hash_bits re re0), (dbl_eq_hash_bits im im0) by assumption. reflexivity.
  - apply Z.eqb_eq in E. subst. reflexivity.
  - reflexivity.
Qed.

(* ---------- num_cmp ---------- *)
Lemma num_tc_same : forall a b, num_type_code a = num_type_code b ->
  match a, b with
  | NInt _, NInt _ | NRat _ _, NRat _ _ | NCplx _ _ _ _, NCplx _ _ _ _ | NDbl _, NDbl _
  | NCDbl _ _, NCDbl _ _ | NInf _, NInf _ | NNaN, NNaN => True
  | _, _ => False
  end.
Proof. destruct a, b; intros H; try exact I; vm_compute in H; discriminate. Qed.

Lemma num_cmp_same_range : forall a b, in_range (num_cmp_same a b).
Proof.
  destruct a, b; cbn [num_cmp_same]; try (right; left; reflexivity);
    try apply Zcmp_range; try apply Qcmp_pair_range; unfold in_range; dif; lia.
Qed.
Lemma num_cmp_range : forall a b, in_range (num_cmp a b).
Proof.
  intros. unfold num_cmp. pose proof (num_cmp_same_range a b). unfold in_range in *. dif; lia.
Qed.

Lemma num_cmp_same_eq_iff : forall a b, num_wf a = true -> num_wf b = true ->
  num_type_code a = num_type_code b -> (num_cmp_same a b = 0 <-> num_eqb a b = true).
Proof.
  intros a b Wa Wb T. apply num_tc_same in T.
  destruct a, b; try contradiction; cbn [num_cmp_same num_eqb]; num_wf_split.
  - rewrite Zcmp_eq. lia.
  - rewrite Qeq_pair_cmp. tauto.
  - destruct (Qeq_pair rn rd rn0 rd0); destruct (Qeq_pair imn imd imn0 imd0); cbn [andb];
      dif; split; intros; try reflexivity; try lia; try discriminate.
  - dif; split; intros; try reflexivity; try lia; try discriminate.
  - destruct (dbl_eq re re0), (dbl_eq im im0); cbn [andb]; dif; split; intros; try reflexivity; try lia; try discriminate.
  - rewrite Zcmp_eq. lia.
  - tauto.
Qed.

Lemma num_cmp_eq_iff : forall a b, num_wf a = true -> num_wf b = true ->
  (num_cmp a b = 0 <-> num_eqb a b = true).
Proof.
  intros a b Wa Wb. unfold num_cmp.
  destruct (N.eqb_spec (num_type_code a) (num_type_code b)) as [E|E].
  - apply num_cmp_same_eq_iff; assumption.
  - split.
    + dif; lia.
    + intros H. exfalso. apply E. destruct a, b; cbn [num_eqb] in H; try discriminate; reflexivity.
Qed.

Lemma num_cmp_same_antisym : forall a b, num_wf a = true -> num_wf b = true ->
  num_cmp_same a b = - num_cmp_same b a.
Proof.
  destruct a, b; cbn [num_cmp_same]; try reflexivity; intros Wa Wb; num_wf_split.
  - apply Zcmp_antisym.
  - apply Qcmp_pair_antisym.
  - rewrite (Qeq_pair_sym rn0 rd0), (Qeq_pair_sym imn0 imd0).
    pose proof (Qcmp_pair_antisym rn rd rn0 rd0). pose proof (Qcmp_pair_antisym imn imd imn0 imd0).
    pose proof (Qeq_pair_cmp rn rd rn0 rd0). pose proof (Qeq_pair_cmp imn imd imn0 imd0).
    pose proof (Qcmp_pair_range rn rd rn0 rd0). pose proof (Qcmp_pair_range imn imd imn0 imd0).
    unfold in_range in *.
    destruct (Qeq_pair rn rd rn0 rd0); destruct (Qeq_pair imn imd imn0 imd0); dif; try lia;
      intuition (try lia; try discriminate).
  - dblkey. dif; lia.
  - dblkey.
    destruct (dbl_key re =? dbl_key re0) eqn:?, (dbl_key im =? dbl_key im0) eqn:?,
             (dbl_key re0 =? dbl_key re) eqn:?, (dbl_key im0 =? dbl_key im) eqn:?; cbn [andb]; dif; lia.
  - apply Zcmp_antisym.
Qed.

Lemma num_cmp_antisym : forall a b, num_wf a = true -> num_wf b = true ->
  num_cmp a b = - num_cmp b a.
Proof.
  intros a b Wa Wb. unfold num_cmp. rewrite (N.eqb_sym (num_type_code b)).
  pose proof (num_cmp_same_antisym a b Wa Wb). dif; lia.
Qed.

Lemma cplx_cmp_lex : forall a1 b1 c1 d1 a2 b2 c2 d2,
  num_cmp_same (NCplx a1 b1 c1 d1) (NCplx a2 b2 c2 d2) =
  lexZ (Qcmp_pair a1 b1 a2 b2) (Qcmp_pair c1 d1 c2 d2).
Proof.
  intros. cbn [num_cmp_same]. unfold Qeq_pair, Qcmp_pair, Zcmp, lexZ. dif; lia.
Qed.

Lemma Qcmp_pair_FTz : forall n1 d1 n2 d2 n3 d3,
  (Z.gcd n1 (Zpos d1) =? 1) = true -> (Z.gcd n2 (Zpos d2) =? 1) = true ->
  (Z.gcd n3 (Zpos d3) =? 1) = true ->
  FTz (Qcmp_pair n1 d1 n2 d2) (Qcmp_pair n2 d2 n3 d3) (Qcmp_pair n1 d1 n3 d3).
Proof.
  intros n1 d1 n2 d2 n3 d3 G1 G2 G3. unfold FTz. rewrite <- !Qeq_pair_cmp.
  repeat split; intros A B.
  - eapply Qcmp_pair_lt_trans; eassumption.
  - apply Qeq_pair_canon in A; try assumption. destruct A; subst. exact B.
  - apply Qeq_pair_canon in A; try assumption. destruct A; subst. exact B.
  - apply Qeq_pair_canon in B; try assumption. destruct B; subst. exact A.
Qed.

Lemma num_cmp_same_FT : forall a b c, num_wf a = true -> num_wf b = true -> num_wf c = true ->
  num_type_code a = num_type_code b -> num_type_code b = num_type_code c ->
  FT num_cmp_same a b c.
Proof.
  intros a b c Wa Wb Wc T1 T2. apply num_tc_same in T1. apply num_tc_same in T2.
  destruct a, b; try contradiction; destruct c; try contradiction; num_wf_split.
  - apply Zcmp_FT.
  - unfold FT. cbn [num_cmp_same]. rewrite <- !Qeq_pair_cmp. repeat split; intros A B.
    + eapply Qcmp_pair_lt_trans; eassumption.
    + apply Qeq_pair_canon in A; try assumption. destruct A; subst. exact B.
    + apply Qeq_pair_canon in A; try assumption. destruct A; subst. exact B.
    + apply Qeq_pair_canon in B; try assumption. destruct B; subst. exact A.
  - (* NCplx *)
    rewrite FT_FTz. rewrite !cplx_cmp_lex.
    apply FTz_lex; try apply Qcmp_pair_range; apply Qcmp_pair_FTz; assumption.
  - unfold FT. cbn [num_cmp_same]. dblkey.
    repeat split; intros A B; dif; lia.
  - unfold FT. cbn [num_cmp_same]. dblkey.
    destruct (dbl_key re =? dbl_key re0) eqn:?, (dbl_key im =? dbl_key im0) eqn:?,
             (dbl_key re0 =? dbl_key re1) eqn:?, (dbl_key im0 =? dbl_key im1) eqn:?,
             (dbl_key re =? dbl_key re1) eqn:?, (dbl_key im =? dbl_key im1) eqn:?; cbn [andb];
    repeat split; intros A B; dif; lia.
  - apply Zcmp_FT.
  - unfold FT. cbn [num_cmp_same]. tauto.
Qed.

Lemma num_cmp_FT : forall a b c, num_wf a = true -> num_wf b = true -> num_wf c = true ->
  FT num_cmp a b c.
Proof.
  intros a b c Wa Wb Wc. unfold FT, num_cmp.
  destruct (N.eqb_spec (num_type_code a) (num_type_code b)) as [E1|E1];
  destruct (N.eqb_spec (num_type_code b) (num_type_code c)) as [E2|E2];
  destruct (N.eqb_spec (num_type_code a) (num_type_code c)) as [E3|E3];
    try (exfalso; congruence).
  - apply num_cmp_same_FT; assumption.
  - rewrite E1. repeat split; intros A B; dif; lia.
  - rewrite <- E2. repeat split; intros A B; dif; lia.
  - repeat split; intros A B; dif; lia.
  - repeat split; intros A B; dif; lia.
Qed.
