(* Fuel monotonicity of the arithmetic model: once [arith fuel c] returns a value or an exception
   (anything but ErrFuel), every larger fuel returns the same.  Holds for ALL inputs. *)
From SE Require Export Expr.Arith.
Local Open Scope Z_scope.

(* x is ErrFuel, or y is the same result *)
Definition le_res {A} (x y : res A) : Prop := x = ErrFuel \/ x = y.

Lemma le_refl : forall A (x : res A), le_res x x.
Proof. intros. right. reflexivity. Qed.

Lemma bind_mono : forall A B (x x' : res A) (k k' : A -> res B),
  le_res x x' -> (forall a, le_res (k a) (k' a)) -> le_res (bind x k) (bind x' k').
Proof.
  intros A B x x' k k' [-> | ->] H; [left; reflexivity|].
  destruct x' as [a| | |]; cbn [bind]; try (right; reflexivity). apply H.
Qed.

Lemma fold_res_mono : forall A B (f f' : A -> B -> res A) l a,
  (forall a x, le_res (f a x) (f' a x)) -> le_res (fold_res f l a) (fold_res f' l a).
Proof.
  induction l as [|x l IH]; intros a H; cbn [fold_res]; [apply le_refl|].
  apply bind_mono; [apply H | intros; apply IH; exact H].
Qed.

Section Mono.
  Variables rec rec' : call -> res ret.
  Hypothesis H : forall c, le_res (rec c) (rec' c).

  Lemma rE_mono : forall c, le_res (rE rec c) (rE rec' c).
  Proof. intros c. unfold rE. apply bind_mono; [apply H | intros; apply le_refl]. Qed.
  Lemma rS_mono : forall c, le_res (rS rec c) (rS rec' c).
  Proof. intros c. unfold rS. apply bind_mono; [apply H | intros; apply le_refl]. Qed.

  Lemma datn_loop_mono : forall coef d l, le_res (datn_loop rec coef d l) (datn_loop rec' coef d l).
  Proof. intros. unfold datn_loop. apply fold_res_mono. intros. apply rS_mono. Qed.

  Lemma rat_pow_mono : forall t en ed, le_res (rat_pow rec t en ed) (rat_pow rec' t en ed).
  Proof. intros. unfold rat_pow. destruct t; try apply le_refl; apply rE_mono. Qed.

  Ltac mono :=
    repeat first
      [ apply le_refl
      | apply rE_mono | apply rS_mono | apply datn_loop_mono | apply rat_pow_mono
      | apply bind_mono; [|intros ?]
      | apply fold_res_mono; intros ? ?
      | match goal with
        | |- le_res (match ?x with _ => _ end) (match ?x with _ => _ end) => destruct x
        | |- le_res (if ?x then _ else _) (if ?x then _ else _) => destruct x
        end ].

  Lemma step_datn_mono : forall coef d exp t, le_res (step_datn rec coef d exp t) (step_datn rec' coef d exp t).
  Proof. intros. unfold step_datn. cbv zeta. mono. Qed.

  Lemma step_power_num_mono : forall sc sd coef d exp,
    le_res (step_power_num rec sc sd coef d exp) (step_power_num rec' sc sd coef d exp).
  Proof. intros. unfold step_power_num. cbv zeta. mono. Qed.

  Lemma mul_operand_mono : forall coef d x, le_res (mul_operand rec coef d x) (mul_operand rec' coef d x).
  Proof. intros. unfold mul_operand. mono. Qed.

  Lemma step_mul_mono : forall a b, le_res (step_mul rec a b) (step_mul rec' a b).
  Proof. intros. unfold step_mul. cbv zeta. pose proof mul_operand_mono. mono. Qed.

  Lemma step_rpowrat_mono : forall num den other, le_res (step_rpowrat rec num den other) (step_rpowrat rec' num den other).
  Proof. intros. unfold step_rpowrat. cbv zeta. mono. Qed.

  Lemma step_powrat_mono : forall bn bd en ed, le_res (step_powrat rec bn bd en ed) (step_powrat rec' bn bd en ed).
  Proof. intros. unfold step_powrat. mono. Qed.

  Lemma step_pow_mono : forall a b, le_res (step_pow rec a b) (step_pow rec' a b).
  Proof. intros. unfold step_pow. cbv zeta. mono. Qed.

  Lemma step_mono : forall c, le_res (step rec c) (step rec' c).
  Proof.
    intros c. unfold step. destruct c; (apply bind_mono; [|intros; apply le_refl]).
    - apply step_mul_mono.
    - apply step_pow_mono.
    - apply step_datn_mono.
    - apply step_power_num_mono.
    - apply step_rpowrat_mono.
    - apply step_powrat_mono.
  Qed.
End Mono.

