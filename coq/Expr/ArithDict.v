(* Add's dictionary under the invariant of the theorems: keys well formed and pairwise not eq,
   coefficients exact, normalised, non-zero.  The coefficient of a key is characterised as a SUM
   over the entries (which makes merging, permutation and extensionality arguments uniform). *)
From SE Require Export Expr.ArithNum.
From SE Require Import Num.NumSpec Num.NumQi Expr.CmpProofs.
From Coq Require Import QArith Lia Permutation Setoid Morphisms.
Local Open Scope Z_scope.

(* ---------- eq on well-formed keys ---------- *)
Lemma eqb_refl_wf : forall x, wf x = true -> expr_eqb x x = true.
Proof. exact expr_eqb_refl. Qed.
Lemma eqb_sym_wf : forall x y, wf x = true -> wf y = true -> expr_eqb x y = expr_eqb y x.
Proof. exact expr_eqb_sym_eq. Qed.
Lemma eqb_trans_wf : forall x y z, wf x = true -> wf y = true -> wf z = true ->
  expr_eqb x y = true -> expr_eqb y z = true -> expr_eqb x z = true.
Proof. exact expr_eqb_trans. Qed.
(* eq is a congruence for "eq to k" *)
Lemma eqb_cong_wf : forall x y k, wf x = true -> wf y = true -> wf k = true ->
  expr_eqb x y = true -> expr_eqb x k = expr_eqb y k.
Proof.
  intros x y k Wx Wy Wk E.
  destruct (expr_eqb x k) eqn:A; destruct (expr_eqb y k) eqn:B; try reflexivity.
  - rewrite eqb_sym_wf in E by assumption.
    rewrite (eqb_trans_wf y x k) in B by assumption. discriminate.
  - rewrite (eqb_trans_wf x y k) in A by assumption. discriminate.
Qed.

Lemma key_match_wf : forall k k', wf k = true -> wf k' = true -> key_match k k' = expr_eqb k' k.
Proof.
  intros k k' Wk Wk'. unfold key_match. destruct (expr_eqb k' k) eqn:E.
  - rewrite (hash_respects_eq k' k) by assumption. rewrite N.eqb_refl. reflexivity.
  - apply andb_false_r.
Qed.

(* ---------- the dictionary invariant ---------- *)
Definition keys_wf (d : adict) : Prop := forall p, In p d -> wf (fst p) = true.

(* the coefficient of key k: sum over the entries whose key is eq to k *)
Definition contrib (k : expr) (p : expr * number) : qi :=
  if expr_eqb (fst p) k then qval (snd p) else qi_zero.
Fixpoint coefsum (d : adict) (k : expr) : qi :=
  match d with
  | [] => qi_zero
  | p :: r => qi_add (contrib k p) (coefsum r k)
  end.

Lemma coefsum_app : forall d1 d2 k, qi_eq (coefsum (d1 ++ d2) k) (qi_add (coefsum d1 k) (coefsum d2 k)).
Proof.
  induction d1 as [|p d1 IH]; intros d2 k; cbn [app coefsum].
  - symmetry. apply qi_add_0_l.
  - rewrite IH. apply qi_add_assoc.
Qed.

Lemma coefsum_perm : forall d1 d2 k, Permutation d1 d2 -> qi_eq (coefsum d1 k) (coefsum d2 k).
Proof.
  intros d1 d2 k P. induction P; cbn [coefsum].
  - reflexivity.
  - now rewrite IHP.
  - rewrite !qi_add_assoc. rewrite (qi_add_comm (contrib k y) (contrib k x)). reflexivity.
  - etransitivity; eassumption.
Qed.

(* a general linear functional over the entries:  sum  value * phi(key), for phi respecting eq *)
Definition respects (phi : expr -> qi) : Prop :=
  forall x y, wf x = true -> wf y = true -> expr_eqb x y = true -> qi_eq (phi x) (phi y).
Fixpoint wsum (phi : expr -> qi) (d : adict) : qi :=
  match d with
  | [] => qi_zero
  | p :: r => qi_add (qi_mul (qval (snd p)) (phi (fst p))) (wsum phi r)
  end.
Lemma wsum_app : forall phi d1 d2, qi_eq (wsum phi (d1 ++ d2)) (qi_add (wsum phi d1) (wsum phi d2)).
Proof.
  induction d1 as [|p d1 IH]; intros d2; cbn [app wsum].
  - symmetry. apply qi_add_0_l.
  - rewrite IH. apply qi_add_assoc.
Qed.

(* find / erase / set in terms of eq alone *)
Lemma umap_find_wf : forall k d, wf k = true -> keys_wf d ->
  umap_find expr_eqb k d =
  match find (fun p => expr_eqb (fst p) k) d with Some p => Some (snd p) | None => None end.
Proof.
  intros k d Wk. induction d as [|[k0 v0] d IH]; intros K; cbn [umap_find find fst snd]; [reflexivity|].
  assert (W0 : wf k0 = true) by (apply (K (k0, v0)); left; reflexivity).
  fold (key_match k k0). rewrite key_match_wf by assumption.
  destruct (expr_eqb k0 k); [reflexivity|]. apply IH. intros p Hp. apply K. right. exact Hp.
Qed.

(* decomposition of a dictionary at the entry found for k *)
Lemma find_split : forall k d v, wf k = true -> keys_wf d -> umap_find expr_eqb k d = Some v ->
  exists d1 k0 d2, d = d1 ++ (k0, v) :: d2 /\ expr_eqb k0 k = true /\
    (forall p, In p d1 -> expr_eqb (fst p) k = false) /\
    (forall s, umap_set k s d = d1 ++ (k0, s) :: d2) /\ umap_erase k d = d1 ++ d2.
Proof.
  intros k d v Wk. induction d as [|[k1 v1] d IH]; intros K F; cbn [umap_find] in F; [discriminate|].
  assert (W1 : wf k1 = true) by (apply (K (k1, v1)); left; reflexivity).
  assert (K' : keys_wf d) by (intros p Hp; apply K; right; exact Hp).
  fold (key_match k k1) in F. cbn [umap_set umap_erase]. rewrite key_match_wf in * by assumption.
  destruct (expr_eqb k1 k) eqn:E.
  - injection F as <-. exists [], k1, d. cbn [app]. repeat split; auto. intros p [].
  - destruct (IH K' F) as (d1 & k0 & d2 & -> & E0 & N & S & R).
    exists ((k1, v1) :: d1), k0, d2. cbn [app]. repeat split; auto.
    + intros p [<-|Hp]; [exact E | now apply N].
    + intros s. now rewrite S.
    + now rewrite R.
Qed.

Lemma find_none_all : forall k d, wf k = true -> keys_wf d -> umap_find expr_eqb k d = None ->
  forall p, In p d -> expr_eqb (fst p) k = false.
Proof.
  intros k d Wk. induction d as [|[k1 v1] d IH]; intros K F p Hp; [contradiction|].
  cbn [umap_find] in F. fold (key_match k k1) in F.
  assert (W1 : wf k1 = true) by (apply (K (k1, v1)); left; reflexivity).
  rewrite key_match_wf in F by assumption.
  destruct (expr_eqb k1 k) eqn:E; [discriminate|].
  destruct Hp as [<-|Hp]; [exact E|]. apply IH; auto. intros q Hq. apply K. right. exact Hq.
Qed.

Lemma coefsum_none : forall d k, (forall p, In p d -> expr_eqb (fst p) k = false) -> coefsum d k = qi_zero \/ qi_eq (coefsum d k) qi_zero.
Proof.
  induction d as [|p d IH]; intros k H; [left; reflexivity|]. right. cbn [coefsum]. unfold contrib.
  rewrite (H p) by (left; reflexivity).
  destruct (IH k) as [E|E]; [intros q Hq; apply H; right; exact Hq | rewrite E | rewrite E]; apply qi_add_0_l.
Qed.
Lemma coefsum_none' : forall d k, (forall p, In p d -> expr_eqb (fst p) k = false) -> qi_eq (coefsum d k) qi_zero.
Proof. intros d k H. destruct (coefsum_none d k H) as [E|E]; [rewrite E; reflexivity | exact E]. Qed.

(* ---------- well-formed dictionaries with pairwise distinct keys ---------- *)
Record dinv (d : adict) : Prop := {
  dinv_wf : keys_wf d;
  dinv_val : forall p, In p d -> xok (snd p) = true /\ num_is_zero (snd p) = false;
  dinv_ne : pairwise_ne (map fst d) = true
}.

Lemma dinv_nil : dinv [].
Proof. split; [intros p [] | intros p [] | reflexivity]. Qed.

Lemma pairwise_ne_app_one : forall l x, pairwise_ne l = true ->
  (forall y, In y l -> expr_eqb y x = false) -> pairwise_ne (l ++ [x]) = true.
Proof.
  induction l as [|a l IH]; intros x H N; cbn [app pairwise_ne]; [reflexivity|].
  cbn [pairwise_ne] in H. apply andb_prop in H. destruct H as [H1 H2].
  apply andb_true_intro. split.
  - rewrite forallb_app. rewrite H1. cbn [forallb]. rewrite (N a) by (left; reflexivity). reflexivity.
  - apply IH; auto. intros y Hy. apply N. right. exact Hy.
Qed.

Lemma pairwise_ne_remove : forall l1 x l2, pairwise_ne (l1 ++ x :: l2) = true -> pairwise_ne (l1 ++ l2) = true.
Proof.
  induction l1 as [|a l1 IH]; intros x l2 H; cbn [app pairwise_ne] in *.
  - apply andb_prop in H. apply H.
  - apply andb_prop in H. destruct H as [H1 H2]. apply andb_true_intro. split; [|eapply IH; eassumption].
    rewrite forallb_app in *. apply andb_prop in H1. destruct H1 as [A B]. cbn [forallb] in B.
    apply andb_prop in B. destruct B as [_ B]. now rewrite A, B.
Qed.

Lemma dinv_set : forall d1 k0 v s d2, dinv (d1 ++ (k0, v) :: d2) -> xok s = true -> num_is_zero s = false ->
  dinv (d1 ++ (k0, s) :: d2).
Proof.
  intros d1 k0 v s d2 [K V N] Xs Zs. split.
  - intros p Hp. apply in_app_or in Hp. destruct Hp as [Hp|[<-|Hp]].
    + apply K. apply in_or_app. left. exact Hp.
    + apply (K (k0, v)). apply in_or_app. right. left. reflexivity.
    + apply K. apply in_or_app. right. right. exact Hp.
  - intros p Hp. apply in_app_or in Hp. destruct Hp as [Hp|[<-|Hp]].
    + apply V. apply in_or_app. left. exact Hp.
    + cbn [snd]. auto.
    + apply V. apply in_or_app. right. right. exact Hp.
  - rewrite map_app in *. cbn [map fst] in *. exact N.
Qed.

Lemma dinv_erase : forall d1 p d2, dinv (d1 ++ p :: d2) -> dinv (d1 ++ d2).
Proof.
  intros d1 p d2 [K V N]. split.
  - intros q Hq. apply K. apply in_app_or in Hq. apply in_or_app. cbn. tauto.
  - intros q Hq. apply V. apply in_app_or in Hq. apply in_or_app. cbn. tauto.
  - rewrite map_app in *. cbn [map] in N. eapply pairwise_ne_remove. exact N.
Qed.

Lemma dinv_snoc : forall d t c, dinv d -> wf t = true -> xok c = true -> num_is_zero c = false ->
  (forall p, In p d -> expr_eqb (fst p) t = false) -> dinv (d ++ [(t, c)]).
Proof.
  intros d t c [K V N] Wt Xc Zc F. split.
  - intros p Hp. apply in_app_or in Hp. destruct Hp as [Hp|[<-|[]]]; auto.
  - intros p Hp. apply in_app_or in Hp. destruct Hp as [Hp|[<-|[]]]; auto.
  - rewrite map_app. cbn [map fst]. apply pairwise_ne_app_one; auto.
    intros y Hy. apply in_map_iff in Hy. destruct Hy as [p [<- Hp]]. now apply F.
Qed.

(* in a dictionary with distinct keys the sum is the value of the entry *)
Lemma coefsum_entry : forall d k v k', dinv d -> wf k' = true -> In (k, v) d -> expr_eqb k k' = true ->
  qi_eq (coefsum d k') (qval v).
Proof.
  intros d k v k' [K V N] Wk' Hin E.
  apply in_split in Hin. destruct Hin as [d1 [d2 ->]].
  rewrite coefsum_app. cbn [coefsum]. unfold contrib at 1. cbn [fst snd]. rewrite E.
  assert (Wk : wf k = true) by (apply (K (k, v)); apply in_or_app; right; left; reflexivity).
  assert (Z1 : qi_eq (coefsum d1 k') qi_zero).
  { apply coefsum_none'. intros p Hp.
    assert (Wp : wf (fst p) = true) by (apply K; apply in_or_app; left; exact Hp).
    destruct (expr_eqb (fst p) k') eqn:A; [|reflexivity]. exfalso.
    assert (B : expr_eqb (fst p) k = true).
    { apply (eqb_trans_wf (fst p) k' k); auto. rewrite eqb_sym_wf by assumption. exact E. }
    rewrite map_app in N. cbn [map fst] in N.
    clear - N Hp B. induction d1 as [|a d1 IH]; [contradiction|].
    cbn [map app pairwise_ne] in N. apply andb_prop in N. destruct N as [N1 N2].
    destruct Hp as [->|Hp]; [|now apply IH].
    rewrite forallb_app in N1. apply andb_prop in N1. destruct N1 as [_ N1]. cbn [forallb] in N1.
    rewrite B in N1. discriminate. }
  assert (Z2 : qi_eq (coefsum d2 k') qi_zero).
  { apply coefsum_none'. intros p Hp.
    assert (Wp : wf (fst p) = true) by (apply K; apply in_or_app; right; right; exact Hp).
    destruct (expr_eqb (fst p) k') eqn:A; [|reflexivity]. exfalso.
    assert (B : expr_eqb k (fst p) = true).
    { apply (eqb_trans_wf k k' (fst p)); auto. rewrite eqb_sym_wf by assumption. exact A. }
    rewrite map_app in N. cbn [map fst] in N.
    assert (N' : pairwise_ne (k :: map fst d2) = true).
    { clear - N. induction d1 as [|a d1 IH]; [exact N|]. cbn [map app pairwise_ne] in N.
      apply andb_prop in N. apply IH. apply N. }
    cbn [pairwise_ne] in N'. apply andb_prop in N'. destruct N' as [N' _].
    eapply forallb_forall in N'; [|apply in_map; exact Hp]. rewrite B in N'. discriminate. }
  rewrite Z1, Z2. rewrite qi_add_0_l. apply qi_add_0_r.
Qed.

Lemma coefsum_absent : forall d k, (forall p, In p d -> expr_eqb (fst p) k = false) -> qi_eq (coefsum d k) qi_zero.
Proof. exact coefsum_none'. Qed.

(* either some entry is eq to k, or none *)
Lemma entry_dec : forall (d : adict) k, (exists p, In p d /\ expr_eqb (fst p) k = true) \/ (forall p, In p d -> expr_eqb (fst p) k = false).
Proof.
  induction d as [|a d IH]; intros k; [right; intros p []|].
  destruct (expr_eqb (fst a) k) eqn:E; [left; exists a; split; [left; reflexivity|exact E]|].
  destruct (IH k) as [[p [Hp Ep]]|N]; [left; exists p; split; [right; exact Hp|exact Ep]|].
  right. intros p [<-|Hp]; auto.
Qed.

(* ---------- extensionality: equal coefficient functions give equal dictionaries ---------- *)
Lemma dinv_dict_ok : forall d, dinv d -> dict_ok Pwf d.
Proof.
  intros d [K V N]. split; [|exact N]. intros p Hp. split; [apply K; exact Hp|].
  apply xok_wf. apply V. exact Hp.
Qed.

Lemma dinv_match : forall d1 d2, dinv d1 -> dinv d2 ->
  (forall k, wf k = true -> qi_eq (coefsum d1 k) (coefsum d2 k)) ->
  forall p, In p d1 -> exists q, In q d2 /\ entry_rel p q.
Proof.
  intros d1 d2 I1 I2 H [k v] Hp.
  assert (Wk : wf k = true) by (apply (dinv_wf _ I1 (k, v)); exact Hp).
  assert (S1 : qi_eq (coefsum d1 k) (qval v)) by (eapply coefsum_entry; eauto using eqb_refl_wf).
  destruct (entry_dec d2 k) as [[[k' v'] [Hq Eq]]|N].
  - cbn [fst] in Eq. exists (k', v'). split; [exact Hq|]. unfold entry_rel. cbn [fst snd]. split; [exact Eq|].
    assert (S2 : qi_eq (coefsum d2 k) (qval v')) by (eapply coefsum_entry; eauto).
    assert (v = v').
    { apply qval_inj; [apply (dinv_val _ I1 (k, v) Hp) | apply (dinv_val _ I2 (k', v') Hq)|].
      rewrite <- S1, <- S2. apply H. exact Wk. }
    subst. apply cmp_num_eqb_refl. apply (dinv_val _ I2 (k', v') Hq).
  - exfalso. apply coefsum_absent in N. rewrite <- (H k Wk), S1 in N.
    destruct (dinv_val _ I1 (k, v) Hp) as [X Z]. cbn [snd] in *.
    apply (is_zero_val v X) in N. congruence.
Qed.

Lemma dinv_ext : forall d1 d2, dinv d1 -> dinv d2 ->
  (forall k, wf k = true -> qi_eq (coefsum d1 k) (coefsum d2 k)) ->
  umap_eqb expr_eqb d1 d2 = true.
Proof.
  intros d1 d2 I1 I2 H.
  pose proof (dinv_dict_ok _ I1) as O1. pose proof (dinv_dict_ok _ I2) as O2.
  apply (umap_eqb_spec Pwf expr_eqb_sym expr_eqb_trans hash_respects_eq d1 d2 O1 O2).
  pose proof (dinv_match d1 d2 I1 I2 H) as M12.
  assert (M21 : forall p, In p d2 -> exists q, In q d1 /\ entry_rel p q).
  { apply dinv_match; auto. intros k Wk. symmetry. now apply H. }
  split; [|exact M12].
  destruct (matching Pwf expr_eqb_sym expr_eqb_trans d1 d2 O1) as (l2' & rest & P12 & F12); auto.
  { intros q Hq. apply (dinv_wf _ I2). exact Hq. }
  destruct (matching Pwf expr_eqb_sym expr_eqb_trans d2 d1 O2) as (l1' & rest' & P21 & F21); auto.
  { intros q Hq. apply (dinv_wf _ I1). exact Hq. }
  apply Permutation_length in P12, P21. rewrite app_length in *.
  apply Forall2_length' in F12, F21. lia.
Qed.

Lemma wsum_perm : forall phi d1 d2, Permutation d1 d2 -> qi_eq (wsum phi d1) (wsum phi d2).
Proof.
  intros phi d1 d2 P. induction P; cbn [wsum].
  - reflexivity.
  - now rewrite IHP.
  - rewrite !qi_add_assoc. apply qi_add_proper; [apply qi_add_comm | reflexivity].
  - etransitivity; eassumption.
Qed.
