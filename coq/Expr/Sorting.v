(* The ordered container model ([map_insert], [map_of_umap]): insertion sort by a comparator
   that is a strict order on the keys at hand. *)
From SE Require Export Expr.Dict.
From Coq Require Import Lia Permutation.

Section Sorting.
  Variable eqr : expr -> expr -> bool.
  Variable cmpr : expr -> expr -> Z.
  Notation lt := (keyless eqr cmpr).
  Variable P : expr -> Prop.
  Hypothesis lt_trans : forall x y z, P x -> P y -> P z ->
    lt x y = true -> lt y z = true -> lt x z = true.
  Hypothesis lt_asym : forall x y, P x -> P y -> lt x y = true -> lt y x = false.

  Definition keysP (m : list (expr * number)) : Prop := forall p, In p m -> P (fst p).
  Definition ssorted (m : list (expr * number)) : Prop :=
    ForallOrdPairs (fun p q => lt (fst p) (fst q) = true) m.
  Definition comparable (x y : expr) : Prop := lt x y = true \/ lt y x = true.

  Lemma keysP_tail : forall p m, keysP (p :: m) -> keysP m.
  Proof. intros p m K q Hq. apply K. right. exact Hq. Qed.

  Lemma map_insert_sorted : forall k v m, P k -> keysP m -> ssorted m ->
    ssorted (map_insert eqr cmpr k v m).
  Proof.
    induction m as [|[k' v'] m IH]; cbn [map_insert]; intros Pk Km S.
    - constructor; constructor.
    - inversion S as [|? ? Hhd Htl]; subst.
      assert (Pk' : P k') by (apply (Km (k', v')); left; reflexivity).
      destruct (lt k' k) eqn:L1.
      + constructor.
        * apply Forall_forall. intros q Hq. apply map_insert_in in Hq.
          destruct Hq as [->|Hq]; [exact L1|]. eapply Forall_forall in Hhd; eauto.
        * apply IH; auto. eapply keysP_tail; eassumption.
      + destruct (lt k k') eqn:L2; [|exact S].
        constructor; [|exact S].
        constructor; [exact L2|]. apply Forall_forall. intros q Hq.
        eapply Forall_forall in Hhd; [|exact Hq]. cbn [fst] in *.
        apply (lt_trans k k' (fst q)); auto. apply Km. right. exact Hq.
  Qed.

  Lemma map_insert_perm : forall k v m,
    (forall p, In p m -> comparable (fst p) k) ->
    Permutation (map_insert eqr cmpr k v m) ((k, v) :: m).
  Proof.
    induction m as [|[k' v'] m IH]; cbn [map_insert]; intros C; [apply Permutation_refl|].
    destruct (lt k' k) eqn:L1.
    - eapply perm_trans; [apply perm_skip; apply IH; intros; apply C; right; assumption|].
      apply perm_swap.
    - destruct (lt k k') eqn:L2; [apply Permutation_refl|].
      exfalso. destruct (C (k', v') (or_introl eq_refl)) as [H|H]; cbn [fst] in H; congruence.
  Qed.

  Lemma map_insert_keysP : forall k v m, P k -> keysP m -> keysP (map_insert eqr cmpr k v m).
  Proof.
    intros k v m Pk Km p Hp. apply map_insert_in in Hp. destruct Hp as [->|Hp]; [exact Pk|]. apply Km; exact Hp.
  Qed.

  Lemma fold_insert_sorted : forall d m, keysP d -> keysP m -> ssorted m ->
    ssorted (fold_left (fun m p => map_insert eqr cmpr (fst p) (snd p) m) d m).
  Proof.
    induction d as [|[k v] d IH]; cbn [fold_left fst snd]; intros m Kd Km S; [exact S|].
    apply IH.
    - eapply keysP_tail; eassumption.
    - apply map_insert_keysP; auto. apply (Kd (k, v)). left. reflexivity.
    - apply map_insert_sorted; auto. apply (Kd (k, v)). left. reflexivity.
  Qed.

  Lemma map_of_umap_sorted : forall d, keysP d -> ssorted (map_of_umap eqr cmpr d).
  Proof.
    intros d Kd. unfold map_of_umap. apply fold_insert_sorted; auto.
    - intros p Hp. contradiction.
    - constructor.
  Qed.

  (* no entry is dropped when distinct entries have comparable keys *)
  Definition all_comparable (l : list (expr * number)) : Prop :=
    NoDup l /\ forall p q, In p l -> In q l -> p <> q -> comparable (fst p) (fst q).

  Lemma all_comparable_perm : forall l1 l2, Permutation l1 l2 -> all_comparable l1 -> all_comparable l2.
  Proof.
    intros l1 l2 Pm [ND C]. split; [eapply Permutation_NoDup; eassumption|].
    intros p q Hp Hq. apply C; eapply Permutation_in; try eassumption; apply Permutation_sym; assumption.
  Qed.

  Lemma fold_insert_perm : forall d m, all_comparable (m ++ d) ->
    Permutation (fold_left (fun m p => map_insert eqr cmpr (fst p) (snd p) m) d m) (m ++ d).
  Proof.
    induction d as [|[k v] d IH]; cbn [fold_left fst snd]; intros m AC.
    - rewrite app_nil_r. apply Permutation_refl.
    - assert (PI : Permutation (map_insert eqr cmpr k v m) ((k, v) :: m)).
      { apply map_insert_perm. intros p Hp. destruct AC as [ND C]. apply (C p (k, v)).
        - apply in_or_app. left. exact Hp.
        - apply in_or_app. right. left. reflexivity.
        - intros ->. apply NoDup_remove_2 in ND. apply ND. apply in_or_app. left. exact Hp. }
      assert (PM : Permutation (map_insert eqr cmpr k v m ++ d) (m ++ (k, v) :: d)).
      { eapply perm_trans; [apply Permutation_app_tail; exact PI|].
        cbn [app]. apply Permutation_middle. }
      eapply perm_trans; [apply IH|exact PM].
      eapply all_comparable_perm; [apply Permutation_sym; exact PM | exact AC].
  Qed.

  Lemma map_of_umap_perm : forall d, all_comparable d -> Permutation (map_of_umap eqr cmpr d) d.
  Proof. intros d AC. unfold map_of_umap. apply (fold_insert_perm d []). exact AC. Qed.

  (* a strictly sorted list is determined by its set of entries *)
  Lemma ssorted_in : forall p m q, ssorted (p :: m) -> In q m -> lt (fst p) (fst q) = true.
  Proof.
    intros p m q S Hq. inversion S as [|? ? Hhd _]; subst. eapply Forall_forall in Hhd; eauto.
  Qed.
  Lemma ssorted_tail : forall p m, ssorted (p :: m) -> ssorted m.
  Proof. intros p m S. inversion S; assumption. Qed.

  Lemma sorted_perm_unique : forall l1 l2, keysP l1 -> ssorted l1 -> ssorted l2 ->
    Permutation l1 l2 -> l1 = l2.
  Proof.
    induction l1 as [|h1 t1 IH]; intros l2 K S1 S2 Pm.
    - apply Permutation_nil in Pm. congruence.
    - destruct l2 as [|h2 t2]; [apply Permutation_sym, Permutation_nil in Pm; discriminate|].
      assert (E : h1 = h2).
      { assert (H1 : In h1 (h2 :: t2)) by (eapply Permutation_in; [exact Pm | left; reflexivity]).
        assert (H2 : In h2 (h1 :: t1))
          by (eapply Permutation_in; [apply Permutation_sym; exact Pm | left; reflexivity]).
        destruct H1 as [H1|H1]; [congruence|]. destruct H2 as [H2|H2]; [congruence|].
        pose proof (ssorted_in _ _ _ S2 H1) as L1. pose proof (ssorted_in _ _ _ S1 H2) as L2.
        rewrite (lt_asym (fst h1) (fst h2)) in L1; auto; [discriminate | apply K; left; reflexivity|].
        apply K. right. exact H2. }
      subst h2. f_equal. apply IH.
      + eapply keysP_tail; eassumption.
      + eapply ssorted_tail; eassumption.
      + eapply ssorted_tail; eassumption.
      + eapply Permutation_cons_inv; eassumption.
  Qed.

  (* two strictly sorted lists whose entries correspond under a relation that implies
     equivalence of the keys correspond position by position *)
  Section Match.
    Variable R : expr * number -> expr * number -> Prop.
    Variable E : expr -> expr -> Prop.     (* equivalence of keys *)
    Hypothesis R_E : forall p q, R p q -> E (fst p) (fst q).
    Hypothesis E_sym : forall x y, P x -> P y -> E x y -> E y x.
    Hypothesis E_trans : forall x y z, P x -> P y -> P z -> E x y -> E y z -> E x z.
    Hypothesis E_lt : forall x y, P x -> P y -> E x y -> lt x y = false.
    Hypothesis lt_E : forall x y z, P x -> P y -> P z -> lt x y = true -> E y z -> lt x z = true.

    Lemma sorted_match : forall m1 m2, keysP m1 -> keysP m2 -> ssorted m1 -> ssorted m2 ->
      (forall p, In p m1 -> exists q, In q m2 /\ R p q) ->
      (forall q, In q m2 -> exists p, In p m1 /\ R p q) ->
      Forall2 R m1 m2.
    Proof.
      induction m1 as [|h1 t1 IH]; intros m2 K1 K2 S1 S2 H12 H21.
      - destruct m2 as [|h2 t2]; [constructor|].
        destruct (H21 h2 (or_introl eq_refl)) as [p [[] _]].
      - destruct m2 as [|h2 t2]; [destruct (H12 h1 (or_introl eq_refl)) as [q [[] _]]|].
        assert (P1 : P (fst h1)) by (apply K1; left; reflexivity).
        assert (P2 : P (fst h2)) by (apply K2; left; reflexivity).
        assert (RH : R h1 h2).
        { destruct (H12 h1 (or_introl eq_refl)) as [q [[<-|Hq] Rq]]; [exact Rq|].
          destruct (H21 h2 (or_introl eq_refl)) as [p [[<-|Hp] Rp]]; [exact Rp|].
          exfalso.
          assert (Pq : P (fst q)) by (apply K2; right; exact Hq).
          assert (Pp : P (fst p)) by (apply K1; right; exact Hp).
          pose proof (ssorted_in _ _ _ S2 Hq) as L2. (* h2 < q ~ h1 *)
          pose proof (ssorted_in _ _ _ S1 Hp) as L1. (* h1 < p ~ h2 *)
          assert (A : lt (fst h2) (fst h1) = true).
          { apply (lt_E (fst h2) (fst q) (fst h1)); auto; try (apply E_sym; auto). }
          assert (B : lt (fst h1) (fst h2) = true).
          { apply (lt_E (fst h1) (fst p) (fst h2)); auto. }
          rewrite (lt_asym (fst h1) (fst h2)) in A; auto. discriminate. }
        constructor; [exact RH|].
        apply IH.
        + eapply keysP_tail; eassumption.
        + eapply keysP_tail; eassumption.
        + eapply ssorted_tail; eassumption.
        + eapply ssorted_tail; eassumption.
        + intros p Hp. destruct (H12 p (or_intror Hp)) as [q [[<-|Hq] Rq]]; [|exists q; auto].
          exfalso. assert (Pp : P (fst p)) by (apply K1; right; exact Hp).
          pose proof (ssorted_in _ _ _ S1 Hp) as L1.
          rewrite (E_lt (fst h1) (fst p)) in L1; auto; [discriminate|].
          apply (E_trans (fst h1) (fst h2) (fst p)); auto; try (apply E_sym; auto).
        + intros q Hq. destruct (H21 q (or_intror Hq)) as [p [[<-|Hp] Rp]]; [|exists p; auto].
          exfalso. assert (Pq : P (fst q)) by (apply K2; right; exact Hq).
          pose proof (ssorted_in _ _ _ S2 Hq) as L2.
          rewrite (E_lt (fst h2) (fst q)) in L2; auto; [discriminate|].
          apply (E_trans (fst h2) (fst h1) (fst q)); auto; try (apply E_sym; auto).
    Qed.
  End Match.
End Sorting.
