(* C07 -- semantics of the rational-function fragment: the value of an expression in Q(i) (pairs of
   rationals, Num/NumSpec.v) under a valuation of the symbols and constants.  Total: anything outside
   the fragment (inexact numbers, non-integer exponents, function applications) has the junk value 0
   and [dfn] = false; division by zero is Q's 1/0 = 0 and [dfn] = false. *)
From SE Require Export Expr.ArithAddProofs.
From SE Require Import Num.NumSpec Num.NumQi Num.NumC05 Expr.CmpProofs.
From Coq Require Import QArith Lia Permutation Setoid Morphisms.
Local Open Scope Z_scope.

Definition qi_zerob (v : qi) : bool := Qeq_bool (fst v) 0 && Qeq_bool (snd v) 0.

(* v ^ x for an exponent expression: integer literals only *)
Definition qpow (v : qi) (x : expr) : qi :=
  match x with ENum (NInt z) => qi_powz v z | _ => qi_zero end.
Definition pow_dfn (v : qi) (x : expr) : bool :=
  match x with ENum (NInt z) => (0 <=? z) || negb (qi_zerob v) | _ => false end.

Section Denote.
  Variable rho : list N -> qi.       (* values of the symbols, by name *)
  Variable rhoc : list N -> qi.      (* values of the constants (pi, E, ...), by name *)

  Fixpoint denote (e : expr) : qi :=
    match e with
    | ENum n => qval n
    | ESym name => rho name
    | EConst name => rhoc name
    | EAdd c d =>
        qi_add (qval c) (fold_right (fun p acc => qi_add (qi_mul (qval (snd p)) (denote (fst p))) acc) qi_zero d)
    | EMul c d => fold_right (fun p acc => qi_mul (qpow (denote (fst p)) (snd p)) acc) (qval c) d
    | EPow b x => qpow (denote b) x
    | _ => qi_zero
    end.

  Definition wprod (d : mdict) : qi :=
    fold_right (fun p acc => qi_mul (qpow (denote (fst p)) (snd p)) acc) qi_one d.

  Fixpoint dfn (e : expr) : bool :=
    match e with
    | ENum n => num_is_exact n
    | ESym _ | EConst _ => true
    | EAdd c d => num_is_exact c && forallb (fun p => num_is_exact (snd p) && dfn (fst p)) d
    | EMul c d => num_is_exact c && forallb (fun p => dfn (fst p) && pow_dfn (denote (fst p)) (snd p)) d
    | EPow b x => dfn b && pow_dfn (denote b) x
    | _ => false
    end.

  Lemma wsum_fold : forall (phi : expr -> qi) d,
    wsum phi d = fold_right (fun p acc => qi_add (qi_mul (qval (snd p)) (phi (fst p))) acc) qi_zero d.
  Proof. induction d as [|p d IH]; cbn [wsum fold_right]; [reflexivity | now rewrite IH]. Qed.

  Lemma denote_EAdd : forall c d, denote (EAdd c d) = qi_add (qval c) (wsum denote d).
  Proof. intros. cbn [denote]. now rewrite wsum_fold. Qed.
  Lemma denote_EMul : forall c d, denote (EMul c d) = fold_right (fun p acc => qi_mul (qpow (denote (fst p)) (snd p)) acc) (qval c) d.
  Proof. reflexivity. Qed.

  (* ---------- eq expressions have the same value ---------- *)
  Lemma qval_num_eqb : forall x y, Wf.num_wf x = true -> Wf.num_wf y = true ->
    SE.Expr.Cmp.num_eqb x y = true -> qi_eq (qval x) (qval y).
  Proof.
    intros x y Wx Wy E. destruct (num_is_exact x) eqn:EX.
    - assert (EY : num_is_exact y = true) by (destruct x; destruct y; try discriminate E; try discriminate EX; reflexivity).
      rewrite (cmp_num_eqb_eq x y (wf_xok x EX Wx) (wf_xok y EY Wy) E). reflexivity.
    - assert (EY : num_is_exact y = false) by (destruct x; destruct y; try discriminate E; try discriminate EX; reflexivity).
      unfold qval. destruct x; try discriminate EX; destruct y; try discriminate EY; reflexivity.
  Qed.

  Lemma int_literal_eq : forall z x, wf x = true -> expr_eqb (ENum (NInt z)) x = true -> x = ENum (NInt z).
  Proof.
    intros z x W E. pose proof (expr_eqb_kind _ _ E) as K. destruct x; try discriminate K.
    rewrite eqb_ENum in E. destruct n; try discriminate E. cbn in E. apply Z.eqb_eq in E. now subst.
  Qed.

  Lemma qpow_respects : forall v v' x x', wf x = true -> wf x' = true -> expr_eqb x x' = true ->
    qi_eq v v' -> qi_eq (qpow v x) (qpow v' x').
  Proof.
    intros v v' x x' W W' E V.
    assert (C : (exists z, x = ENum (NInt z)) \/ (forall z, x <> ENum (NInt z))).
    { destruct x as [[z| | | | | | ]| | | | | | | | | | | | | | | | | ]; try (right; intros; discriminate). left. eauto. }
    destruct C as [[z ->]|NL].
    - rewrite (int_literal_eq z x' W' E). cbn [qpow]. now apply qi_powz_proper.
    - assert (NL' : forall z, x' <> ENum (NInt z)).
      { intros z ->. rewrite eqb_sym_wf in E by assumption. apply int_literal_eq in E; auto. eapply NL; eauto. }
      assert (Z1 : qpow v x = qi_zero).
      { destruct x as [[z| | | | | | ]| | | | | | | | | | | | | | | | | ]; try reflexivity. exfalso. eapply NL; eauto. }
      assert (Z2 : qpow v' x' = qi_zero).
      { destruct x' as [[z| | | | | | ]| | | | | | | | | | | | | | | | | ]; try reflexivity. exfalso. eapply NL'; eauto. }
      rewrite Z1, Z2. reflexivity.
  Qed.

  Lemma wsum_forall2 : forall (phi : expr -> qi) d1 d2,
    Forall2 (fun p q => qi_eq (phi (fst p)) (phi (fst q)) /\ qi_eq (qval (snd p)) (qval (snd q))) d1 d2 ->
    qi_eq (wsum phi d1) (wsum phi d2).
  Proof.
    intros phi d1 d2 F. induction F as [|p q d1 d2 [A B] F IH]; cbn [wsum]; [reflexivity|].
    apply qi_add_proper; [apply qi_mul_proper; assumption | exact IH].
  Qed.

  Lemma denote_respects_n : forall n a b, (size a < n)%nat -> wf a = true -> wf b = true ->
    expr_eqb a b = true -> qi_eq (denote a) (denote b).
  Proof.
    induction n as [|n IH]; intros a b Sz Wa Wb E; [lia|].
    pose proof E as E0. rewrite expr_eqb_unfold in E.
    destruct a as [n1|nm1|nm1 i1|nm1|ac1 ad1|mc1 md1|pb1 pe1|fc1 fa1|fc1 fa1 fb1|fc1 fl1|nm1 fl1|fc1 fa1 fb1|fa1 fl1|fa1 fd1|fl1|bb1|is1 ie1 lo1 ro1|tc1];
    destruct b as [n2|nm2|nm2 i2|nm2|ac2 ad2|mc2 md2|pb2 pe2|fc2 fa2|fc2 fa2 fb2|fc2 fl2|nm2 fl2|fc2 fa2 fb2|fa2 fl2|fa2 fd2|fl2|bb2|is2 ie2 lo2 ro2|tc2];
      cbn [eqb_body] in E; try discriminate E; try reflexivity.
    - (* numbers *) rewrite wf_num in Wa, Wb. cbn [denote]. now apply qval_num_eqb.
    - (* symbols *) apply bytes_eqb_eq in E. subst. reflexivity.
    - (* constants *) apply bytes_eqb_eq in E. subst. reflexivity.
    - (* Add *)
      apply andb_prop in E. destruct E as [EC EU].
      destruct (wf_add _ _ Wa) as (Wc1 & K1 & N1). destruct (wf_add _ _ Wb) as (Wc2 & K2 & N2).
      rewrite !denote_EAdd. apply qi_add_proper; [now apply qval_num_eqb|].
      assert (O1 : dict_ok Pwf ad1) by (split; [exact K1 | exact N1]).
      assert (O2 : dict_ok Pwf ad2) by (split; [exact K2 | exact N2]).
      destruct (umap_eqb_matching Pwf expr_eqb_sym expr_eqb_trans hash_respects_eq ad1 ad2 O1 O2 EU) as (l2 & P & F).
      etransitivity; [|symmetry; apply wsum_perm; exact P].
      apply wsum_forall2.
      assert (INl2 : forall q, In q l2 -> In q ad2) by (intros q Hq; eapply Permutation_in; [apply Permutation_sym; exact P | exact Hq]).
      assert (SZ : forall p, In p ad1 -> (size (fst p) < n)%nat).
      { intros p Hp. assert (size (fst p) < size (EAdd ac1 ad1))%nat; [|lia].
        apply children_size. cbn [children]. now apply in_map. }
      assert (G : forall d1 d2,
                (forall p, In p d1 -> (wf (fst p) = true /\ Wf.num_wf (snd p) = true) /\ (size (fst p) < n)%nat) ->
                (forall q, In q d2 -> wf (fst q) = true /\ Wf.num_wf (snd q) = true) ->
                Forall2 entry_rel d1 d2 ->
                Forall2 (fun p q => qi_eq (denote (fst p)) (denote (fst q)) /\ qi_eq (qval (snd p)) (qval (snd q))) d1 d2).
      { clear - IH. intros d1 d2 H1 H2 F. induction F as [|p q d1 d2 [R1 R2] F IHF]; constructor.
        - destruct (H1 p (or_introl eq_refl)) as [[Wp Vp] Sp]. destruct (H2 q (or_introl eq_refl)) as [Wq Vq].
          split; [|now apply qval_num_eqb].
          apply IH; auto. rewrite eqb_sym_wf by assumption. exact R1.
        - apply IHF; intros; [apply H1 | apply H2]; right; assumption. }
      apply G; auto.
    - (* Mul *)
      apply andb_prop in E. destruct E as [EC EL].
      pose proof (wf_coef _ Wa) as Wc1. pose proof (wf_coef _ Wb) as Wc2. cbn beta iota in Wc1, Wc2.
      rewrite !denote_EMul.
      assert (CH1 : forall x, In x (flat md1) -> wf x = true /\ (size x < n)%nat).
      { intros x Hx. split; [apply (children_wf _ x Wa); exact Hx|].
        assert (size x < size (EMul mc1 md1))%nat by (apply children_size; exact Hx). lia. }
      assert (CH2 : forall x, In x (flat md2) -> wf x = true).
      { intros x Hx. apply (children_wf _ x Wb). exact Hx. }
      clear Wa Wb Sz E0. revert md2 EL CH2. induction md1 as [|[k1 v1] md1 IHm]; intros [|[k2 v2] md2] EL CH2;
        cbn [flat flat_map app list_eqb fst snd] in EL; try discriminate EL; cbn [fold_right fst snd].
      + now apply qval_num_eqb.
      + apply andb_prop in EL. destruct EL as [Ek EL]. apply andb_prop in EL. destruct EL as [Ev EL].
        destruct (CH1 k1) as [Wk1 Sk1]; [cbn; auto|]. destruct (CH1 v1) as [Wv1 _]; [cbn; auto|].
        assert (Wk2 : wf k2 = true) by (apply CH2; cbn; auto). assert (Wv2 : wf v2 = true) by (apply CH2; cbn; auto).
        apply qi_mul_proper.
        * apply qpow_respects; auto.
        * apply IHm; auto; intros x Hx; [apply CH1 | apply CH2]; cbn [flat flat_map app]; right; right; exact Hx.
    - (* Pow *)
      apply andb_prop in E. destruct E as [Eb Ee]. cbn [denote].
      assert (Wb1 : wf pb1 = true) by (apply (children_wf _ pb1 Wa); cbn; auto).
      assert (We1 : wf pe1 = true) by (apply (children_wf _ pe1 Wa); cbn; auto).
      assert (Wb2 : wf pb2 = true) by (apply (children_wf _ pb2 Wb); cbn; auto).
      assert (We2 : wf pe2 = true) by (apply (children_wf _ pe2 Wb); cbn; auto).
      apply qpow_respects; auto. apply IH; auto. cbn [size] in Sz. lia.
  Qed.

  Theorem denote_respects : forall a b, wf a = true -> wf b = true -> expr_eqb a b = true ->
    qi_eq (denote a) (denote b).
  Proof. intros a b. apply (denote_respects_n (S (size a))). lia. Qed.

  Lemma denote_respects' : respects denote.
  Proof. exact denote_respects. Qed.


  (* ---------- products ---------- *)
  Lemma fold_mul_init : forall d a,
    qi_eq (fold_right (fun p acc => qi_mul (qpow (denote (fst p)) (snd p)) acc) a d) (qi_mul (wprod d) a).
  Proof.
    induction d as [|p d IH]; intros a; unfold wprod; cbn [fold_right].
    - symmetry. apply qi_mul_1_l.
    - rewrite IH. fold (wprod d). apply qi_mul_assoc.
  Qed.
  Lemma denote_EMul' : forall c d, qi_eq (denote (EMul c d)) (qi_mul (wprod d) (qval c)).
  Proof. intros. rewrite denote_EMul. apply fold_mul_init. Qed.

  Lemma qi_powz_1 : forall x, qi_eq (qi_powz x 1) x.
  Proof. intros x. cbn. apply qi_mul_1_r. Qed.

  Lemma eqb_one_literal : forall v, expr_eqb v e_one = true -> v = e_one.
  Proof.
    intros v E. pose proof (expr_eqb_kind _ _ E) as K. destruct v; try discriminate K.
    unfold e_one, e_int in *. rewrite eqb_ENum in E. destruct n; try discriminate E.
    cbn in E. apply Z.eqb_eq in E. now subst.
  Qed.

  Lemma den_mul_from_dict_1 : forall d, qi_eq (denote (mul_from_dict (NInt 1) d)) (wprod d).
  Proof.
    intros d. destruct d as [|[k v] [|p2 d]].
    - reflexivity.
    - assert (ONE : qi_eq (denote k) (wprod [(k, e_one)])).
      { unfold wprod. cbn [fold_right fst snd qpow e_one e_int]. rewrite qi_mul_1_r. symmetry. apply qi_powz_1. }
      assert (GEN : qi_eq (denote (if expr_eqb v e_one then k else EPow k v)) (wprod [(k, v)])).
      { destruct (expr_eqb v e_one) eqn:E; [rewrite (eqb_one_literal v E); exact ONE|].
        unfold wprod. cbn [denote fold_right fst snd]. symmetry. apply qi_mul_1_r. }
      unfold mul_from_dict. cbn [num_is_zero num_is_one Z.eqb].
      destruct v as [[z| | | | | | ]| | | | | | | | | | | | | | | | | ]; try exact GEN.
      destruct (z =? 1) eqn:Z1; [|exact GEN]. apply Z.eqb_eq in Z1. subst. exact ONE.
    - rewrite mul_from_dict_ge2 by reflexivity. rewrite denote_EMul'. apply qi_mul_1_r.
  Qed.

  Lemma den_as_coef_term : forall x,
    qi_eq (denote x) (qi_mul (qval (fst (as_coef_term x))) (denote (snd (as_coef_term x)))).
  Proof.
    intros x.
    assert (TRIV : qi_eq (denote x) (qi_mul (qval (NInt 1)) (denote x))) by (symmetry; apply qi_mul_1_l).
    destruct x; try exact TRIV.
    - cbn [as_coef_term fst snd denote]. symmetry. apply qi_mul_1_r.
    - cbn [as_coef_term]. destruct (num_neq_int coef 1) eqn:NE; cbn [fst snd]; [|exact TRIV].
      rewrite denote_EMul'. rewrite den_mul_from_dict_1. apply qi_mul_comm.
  Qed.

  (* ---------- the value of a linear form ---------- *)
  Lemma den_lin : forall x, add_operand_ok x = true ->
    qi_eq (denote x) (qi_add (qval (lconst x)) (wsum denote (lterms x))).
  Proof.
    intros x H. destruct (aok_inv x H) as [Xc D].
    assert (CX : (exists cx dx, x = EAdd cx dx) \/ not_add x) by (destruct x; unfold not_add; eauto).
    destruct CX as [(cx & dx & ->)|NA]; [apply eq_subrelation; [typeclasses eauto | apply denote_EAdd]|].
    destruct (nonadd_cases x H NA) as [n EQ Xn | c t CT LIN T Xct Zc NK NN].
    - subst x. unfold lconst, lterms. cbn [lin_of fst snd wsum denote]. symmetry. apply qi_add_0_r.
    - unfold lconst, lterms. rewrite LIN. cbn [fst snd wsum]. rewrite qval_int.
      pose proof (den_as_coef_term x) as DC. rewrite CT in DC. cbn [fst snd] in DC.
      etransitivity; [exact DC|]. rewrite qi_add_0_l. symmetry. apply qi_add_0_r.
  Qed.

  Lemma den_single_term_mul : forall v k, num_is_zero v = false -> term_ok k = true ->
    qi_eq (denote (single_term_mul v k)) (qi_mul (qval v) (denote k)).
  Proof.
    intros v k Zv T. unfold term_ok in T. apply andb_prop in T. destruct T as [_ T].
    assert (ATOM : forall a, qi_eq (denote (EMul v [(a, e_one)])) (qi_mul (qval v) (denote a))).
    { intros a. rewrite denote_EMul'. unfold wprod. cbn [fold_right fst snd qpow e_one e_int].
      rewrite qi_mul_1_r, qi_powz_1. apply qi_mul_comm. }
    destruct k as [n1|nm1|nm1 i1|nm1|ac1 ad1|mc1 md1|pb1 pe1|fc1 fa1|fc1 fa1 fb1|fc1 fl1|nm1 fl1|fc1 fa1 fb1|fa1 fl1|fa1 fd1|fl1|bb1|is1 ie1 lo1 ro1|tc1];
      try discriminate T; cbn [single_term_mul]; try apply ATOM.
    - destruct mc1 as [[|[| |]|]| | | | | | ]; try discriminate T.
      destruct md1 as [|p1 [|p2 md1]]; try discriminate T.
      rewrite mul_from_dict_ge2 by assumption. rewrite !denote_EMul'. rewrite qval_int.
      rewrite (qi_mul_comm (wprod _) (qval v)). apply qi_mul_proper; [reflexivity|]. symmetry. apply qi_mul_1_r.
    - rewrite denote_EMul'. unfold wprod. cbn [fold_right fst snd denote]. rewrite qi_mul_1_r. apply qi_mul_comm.
  Qed.

  Lemma den_afd : forall c d, xok c = true -> adict_ok d = true ->
    qi_eq (denote (add_from_dict c d)) (qi_add (qval c) (wsum denote d)).
  Proof.
    intros c d Xc D. destruct d as [|[k v] [|p2 d]]; cbn [add_from_dict].
    - cbn [denote wsum]. symmetry. apply qi_add_0_r.
    - destruct (entry_ok_inv _ (aok_entry _ (k, v) D (or_introl eq_refl))) as (T & Xv & Zv). cbn [fst snd] in *.
      destruct (num_is_zero c) eqn:Zc; [|apply eq_subrelation; [typeclasses eauto | apply denote_EAdd]].
      rewrite (is_zero_eq c Xc Zc). rewrite qval_int. cbn [wsum fst snd].
      assert (STM : qi_eq (denote (single_term_mul v k))
                          (qi_add (inject_Z 0, 0%Q) (qi_add (qi_mul (qval v) (denote k)) qi_zero))).
      { rewrite den_single_term_mul by assumption. rewrite qi_add_0_r. symmetry. apply qi_add_0_l. }
      destruct v as [z| | | | | | ]; try exact STM.
      destruct (z =? 0) eqn:Z0; [apply Z.eqb_eq in Z0; subst; discriminate Zv|].
      destruct (z =? 1) eqn:Z1; [|exact STM]. apply Z.eqb_eq in Z1. subst z.
      rewrite qi_add_0_r. rewrite qi_add_0_l. rewrite qval_int. symmetry. apply qi_mul_1_l.
    - apply eq_subrelation; [typeclasses eauto | apply denote_EAdd].
  Qed.

  (* C07: add(a, b) has the value of a plus the value of b *)
  Theorem add_sound : forall a b r, add_operand_ok a = true -> add_operand_ok b = true ->
    e_add a b = Ok r -> qi_eq (denote r) (qi_add (denote a) (denote b)).
  Proof.
    intros a b r Ha Hb E.
    destruct (aok_inv a Ha) as [Xa _]. destruct (aok_inv b Hb) as [Xb _].
    destruct (e_add_spec a b Ha Hb) as (d & F & D & _ & WS). rewrite F in E. injection E as <-.
    rewrite den_afd by auto using xadd_xok.
    rewrite (den_lin a Ha), (den_lin b Hb), (WS denote denote_respects'), (xadd_val _ _ Xa Xb).
    destruct (qval (lconst a)), (qval (lconst b)), (wsum denote (lterms a)), (wsum denote (lterms b)).
    qi_unfold. split; ring.
  Qed.

End Denote.
