(* L2 -- well-formedness side conditions under which the eq/hash/compare theorems are stated.
   They are boolean, so that an `Example` can exhibit satisfying values and the checks can
   classify an implementation-produced tree.  Each excluded class has a matching refutation
   theorem (C01/C02) showing that the exclusion is necessary for the code as it is:
     - NaN doubles (== is false even for itself; compare returns 1 both ways),
     - the double -0.0 (== to +0.0 but hashed by its bit pattern). *)
From SE Require Export Expr.Cmp.
Local Open Scope N_scope.

Definition dbl_ok (b : N) : bool :=
  negb (dbl_is_nan b) && negb (b =? 9223372036854775808) && (b <? W64).

Definition num_wf (n : number) : bool :=
  match n with
  | NInt _ => true
  | NRat p q => (Z.gcd p (Zpos q) =? 1)%Z && (1 <? Zpos q)%Z
  | NCplx rn rd imn imd =>
      (Z.gcd rn (Zpos rd) =? 1)%Z && (Z.gcd imn (Zpos imd) =? 1)%Z && negb (imn =? 0)%Z
  | NDbl b => dbl_ok b
  | NCDbl re im => dbl_ok re && dbl_ok im
  | NInf d => (d =? 1)%Z || (d =? 0)%Z || (d =? -1)%Z
  | NNaN => true
  end.

(* no two keys of a dictionary are eq *)
Fixpoint pairwise_ne (l : list expr) : bool :=
  match l with
  | [] => true
  | x :: r => forallb (fun y => negb (expr_eqb x y)) r && pairwise_ne r
  end.

Fixpoint wf (e : expr) : bool :=
  match e with
  | ENum n => num_wf n
  | ESym _ | EConst _ | EBool _ | EAtom _ => true
  | EDummy _ idx => idx <? W64
  | EAdd c d =>
      num_wf c && forallb (fun p => wf (fst p) && num_wf (snd p)) d && pairwise_ne (map fst d)
  | EMul c d => num_wf c && forallb (fun p => wf (fst p) && wf (snd p)) d
  | EPow b x => wf b && wf x
  | EF1 _ a => wf a
  | EF2 _ a b => wf a && wf b
  | EFN _ l => forallb wf l
  | EFunSym _ l => forallb wf l
  | ELex _ a b => wf a && wf b
  | EDeriv a l => wf a && forallb wf l
  | ESubs a d => wf a && forallb (fun p => wf (fst p) && wf (snd p)) d
  | EPw l => forallb (fun p => wf (fst p) && wf (snd p)) l
  | EInterval s x _ _ => wf s && wf x
  end.
