(* L2 -- well-formedness side conditions under which the eq/hash/compare theorems are stated.
   They are boolean, so that an `Example` can exhibit satisfying values and the checks can
   classify an implementation-produced tree.  Each excluded class has a matching refutation
   theorem (C01/C02) showing that the exclusion is necessary for the code as it is:
     - NaN doubles (== is false even for itself; compare returns 1 both ways).
   (-0.0 == +0.0: since the fix of RealDouble::__hash__ both hash alike, and [num_eqb]
   identifies them, so they need no exclusion; structural uniqueness is not claimed.) *)
From SE Require Export Expr.Guards.
Local Open Scope N_scope.

Definition dbl_ok (b : N) : bool :=
  negb (dbl_is_nan b) && (b <? W64).

Definition num_wf (n : number) : bool :=
  match n with
  | NInt _ => true
  | NRat p q => (Z.gcd p (Zpos q) =? 1)%Z && (1 <? Zpos q)%Z
  | NCplx rn rd imn imd =>
      (Z.gcd rn (Zpos rd) =? 1)%Z && (Z.gcd imn (Zpos imd) =? 1)%Z && negb (imn =? 0)%Z
  | NDbl b => dbl_ok b
  | NCDbl re im => dbl_ok re && dbl_ok im
  | NInf d => (d =? 1)%Z || (d =? 0)%Z || (d =? -1)%Z
  | NNaN => true
  end.

(* no two keys of a dictionary are eq *)
Fixpoint pairwise_ne (l : list expr) : bool :=
  match l with
  | [] => true
  | x :: r => forallb (fun y => negb (expr_eqb x y)) r && pairwise_ne r
  end.

(* the structural side conditions (numbers in canonical form, no NaN double, dictionary keys
   pairwise not eq) *)
Fixpoint wf_struct (e : expr) : bool :=
  match e with
  | ENum n => num_wf n
  | ESym _ | EConst _ | EBool _ | EAtom _ => true
  | EDummy _ idx => idx <? W64
  | EAdd c d =>
      num_wf c && forallb (fun p => wf_struct (fst p) && num_wf (snd p)) d && pairwise_ne (map fst d)
  | EMul c d => num_wf c && forallb (fun p => wf_struct (fst p) && wf_struct (snd p)) d
  | EPow b x => wf_struct b && wf_struct x
  | EF1 _ a => wf_struct a
  | EF2 _ a b => wf_struct a && wf_struct b
  | EFN _ l => forallb wf_struct l
  | EFunSym _ l => forallb wf_struct l
  | ELex _ a b => wf_struct a && wf_struct b
  | EDeriv a l => wf_struct a && forallb wf_struct l
  | ESubs a d => wf_struct a && forallb (fun p => wf_struct (fst p) && wf_struct (snd p)) d
  | EPw l => forallb (fun p => wf_struct (fst p) && wf_struct (snd p)) l
  | EInterval s x _ _ => wf_struct s && wf_struct x
  end.

(* well-formed = the structural conditions, and every node's type code belongs to the class of
   its constructor (Guards.v: without this conjunct the order theorems of C02 fail on trees such
   as [EAtom 0], see the [guard_needed_*] examples there) *)
Definition wf (e : expr) : bool := wf_struct e && codes_ok e.

(* the counterexamples of Guards.v satisfy all structural conditions: only the guard excludes them *)
Example guard_needed_struct :
  wf_struct (EAtom 0) = true /\ wf_struct (ENum (NInt 0)) = true /\
  wf_struct (EPow (EAtom 0) (ENum (NInt 1))) = true /\ wf (EAtom 0) = false.
Proof. vm_compute. repeat split; reflexivity. Qed.
