(* L2 -- the arithmetic constructors of add.cpp, mul.cpp, pow.cpp, rational.cpp (rpowrat / powrat),
   integer.cpp (i_nth_root), pow.h (sqrt, cbrt), transcribed branch by branch on the [expr] type
   (C03, C04, C07).  No proofs here (the model must extract when a proof breaks).

   Conventions
   - numbers: the number tower of Num/NumModel.v ([num_add], [num_mul], [num_pow], [num_rdiv],
     predicates [num_is_zero] ...).  C++ eq(a, b) on two numbers is [Cmp.num_eqb].
   - Add's dictionary (unordered_map keyed by hash and eq) is an association list looked up with
     [umap_find expr_eqb] (Cmp.v); its iteration order is NOT modelled: new entries go to the end,
     operand dictionaries are used in the order the dump gives them.  Everything the library
     computes from an Add (hash, eq, compare, the results of add / mul / pow) is independent of
     that order as long as hash and eq are consistent (C01); the correspondence compares Add
     dictionaries after sorting.
   - Mul's dictionary (std::map ordered by RCPBasicKeyLess) is a list kept sorted by
     [expr_keyless]; find = lower_bound + equivalence test, exactly as std::map does it.
   - add(a,b) does not call mul or pow.  mul, pow, Mul::dict_add_term_new, Mul::power_num,
     Rational::rpowrat and Rational::powrat are mutually recursive: ONE fuelled function
     [arith fuel call]; every nested C++ call costs one unit of fuel (fuel = call depth).
   - exceptions are [ErrExn c]; a process death is [ErrExn EXN_SIGFPE] / [ErrExn EXN_SIGSEGV];
     libm results are [ErrExn EXN_LIBM] (outside the model). *)
From SE Require Export Expr.Cmp Num.NumModel.
From Coq Require Import QArith.
Local Open Scope Z_scope.

Definition EXN_UNMODELLED : N := 97%N.   (* outside the modelled fragment *)
Definition EXN_INTERNAL : N := 96%N.     (* model-internal: a call returned the wrong kind (never happens) *)
Definition EXN_SIGSEGV : N := 211%N.     (* undefined behaviour observed as SIGSEGV (printed CRASH:11); unused since the fix of dict_add_term_new *)

Definition adict := list (expr * number).
Definition mdict := list (expr * expr).

Definition e_int (z : Z) : expr := ENum (NInt z).
Definition e_one : expr := e_int 1.
Definition e_zero : expr := e_int 0.
Definition e_minus_one : expr := e_int (-1).
Definition e_E : expr := EConst [69%N].           (* the Constant named "E" *)
Definition e_half : expr := ENum (NRat 1 2).

Definition as_num (e : expr) : option number := match e with ENum n => Some n | _ => None end.
Definition is_number (e : expr) : bool := match e with ENum _ => true | _ => false end.
Definition is_Integer (e : expr) : bool := match e with ENum (NInt _) => true | _ => false end.
Definition is_number_and_zero (e : expr) : bool :=
  match e with ENum n => num_is_zero n | _ => false end.
(* neq(c, one), neq(c, minus_one) on a Number c *)
Definition num_neq_int (c : number) (z : Z) : bool := negb (SE.Expr.Cmp.num_eqb c (NInt z)).

Fixpoint fold_res {A B : Type} (f : A -> B -> res A) (l : list B) (a : A) : res A :=
  match l with
  | [] => Ok a
  | x :: r => bind (f a x) (fun a' => fold_res f r a')
  end.

Local Open Scope res_scope.

(* ------------------------------------------------------------------ unordered_map (Add) *)

Definition key_match (k k' : expr) : bool := (hash k' =? hash k)%N && expr_eqb k' k.

(* d.erase(it) / it->second = v, for the entry found by d.find(k) *)
Fixpoint umap_erase (k : expr) (d : adict) : adict :=
  match d with
  | [] => []
  | (k', v) :: r => if key_match k k' then r else (k', v) :: umap_erase k r
  end.
Fixpoint umap_set (k : expr) (v : number) (d : adict) : adict :=
  match d with
  | [] => []
  | (k', v') :: r => if key_match k k' then (k', v) :: r else (k', v') :: umap_set k v r
  end.

(* ------------------------------------------------------------------ std::map (Mul) *)

(* d.find(t): lower_bound (first stored key not less than t), then "t not less than it" *)
Fixpoint mlookup (t : expr) (d : mdict) : option (expr * expr) :=
  match d with
  | [] => None
  | (k, v) :: r =>
      if expr_keyless k t then mlookup t r
      else if expr_keyless t k then None else Some (k, v)
  end.
(* insert(d, t, v) = d.insert({t, v}): an equivalent stored key wins *)
Fixpoint minsert (t v : expr) (d : mdict) : mdict :=
  match d with
  | [] => [(t, v)]
  | (k, kv) :: r =>
      if expr_keyless k t then (k, kv) :: minsert t v r
      else if expr_keyless t k then (t, v) :: d else d
  end.
(* it->second = v / d.erase(it) for it = d.find(t) *)
Fixpoint mset (t v : expr) (d : mdict) : mdict :=
  match d with
  | [] => []
  | (k, kv) :: r =>
      if expr_keyless k t then (k, kv) :: mset t v r
      else if expr_keyless t k then d else (k, v) :: r
  end.
Fixpoint merase (t : expr) (d : mdict) : mdict :=
  match d with
  | [] => []
  | (k, kv) :: r =>
      if expr_keyless k t then (k, kv) :: merase t r
      else if expr_keyless t k then d else r
  end.

(* ------------------------------------------------------------------ Mul::from_dict *)

Definition mul_from_dict (coef : number) (d : mdict) : expr :=
  if num_is_zero coef then ENum coef
  else
    match d with
    | [] => ENum coef
    | [(k, v)] =>
        let generic :=
          if num_is_one coef then (if expr_eqb v e_one then k else EPow k v) else EMul coef d in
        match v with
        | ENum (NInt z) =>
            if num_is_one coef then (if z =? 1 then k else generic) else EMul coef d
        | _ => generic
        end
    | _ => EMul coef d
    end.

(* ------------------------------------------------------------------ Add *)

(* Add::as_coef_term *)
Definition as_coef_term (self : expr) : number * expr :=
  match self with
  | EMul c d => if num_neq_int c 1 then (c, mul_from_dict (NInt 1) d) else (NInt 1, self)
  | ENum n => (n, e_one)
  | _ => (NInt 1, self)
  end.

(* the Mul built by Add::from_dict for the single term  v * k  (the coefficient of a Mul key is
   dropped: it is 1 in a canonical Add) *)
Definition single_term_mul (v : number) (k : expr) : expr :=
  match k with
  | EMul _ kd => mul_from_dict v kd
  | EPow b e => EMul v [(b, e)]
  | _ => EMul v [(k, e_one)]
  end.

(* Add::from_dict *)
Definition add_from_dict (coef : number) (d : adict) : expr :=
  match d with
  | [] => ENum coef
  | [(k, v)] =>
      if num_is_zero coef then
        match v with
        | NInt z => if z =? 0 then ENum v else if z =? 1 then k else single_term_mul v k
        | _ => single_term_mul v k
        end
      else EAdd coef d
  | _ => EAdd coef d
  end.

(* Add::dict_add_term *)
Definition add_dict_add_term (d : adict) (coef : number) (t : expr) : res adict :=
  match umap_find expr_eqb t d with
  | None => if num_is_zero coef then Ok d else Ok (d ++ [(t, coef)])
  | Some v =>
      do s <- num_add v coef;
      if num_is_zero s then Ok (umap_erase t d) else Ok (umap_set t s d)
  end.

Definition add_dict_add_terms (d : adict) (l : adict) : res adict :=
  fold_res (fun d p => add_dict_add_term d (snd p) (fst p)) l d.

(* Add::coef_dict_add_term *)
Definition coef_dict_add_term (coef : number) (d : adict) (c : number) (term : expr)
  : res (number * adict) :=
  match term with
  | ENum n => do m <- num_mul c n; do s <- num_add coef m; Ok (s, d)
  | EAdd tc td =>
      if num_is_one c then
        do d' <- add_dict_add_terms d td;
        do s <- num_add coef tc; Ok (s, d')
      else do d' <- add_dict_add_term d c term; Ok (coef, d')
  | _ =>
      let ct := as_coef_term term in
      do m <- num_mul c (fst ct);
      do d' <- add_dict_add_term d m (snd ct); Ok (coef, d')
  end.

(* add(a, b) with exactly one Add operand  (Add = EAdd ca da, the other operand = x) *)
Definition add_into (ca : number) (da : adict) (x : expr) : res expr :=
  match x with
  | ENum n =>
      if negb (num_is_zero n) then do c <- num_add ca n; Ok (add_from_dict c da)
      else Ok (add_from_dict ca da)
  | _ =>
      let ct := as_coef_term x in
      do d <- add_dict_add_term da (fst ct) (snd ct); Ok (add_from_dict ca d)
  end.

(* add(a, b) *)
Definition e_add (a b : expr) : res expr :=
  match a, b with
  | EAdd ca da, EAdd cb db =>
      do d <- add_dict_add_terms da db;
      do c <- num_add ca cb; Ok (add_from_dict c d)
  | EAdd ca da, _ => add_into ca da b
  | _, EAdd cb db => add_into cb db a
  | _, _ =>
      let ct1 := as_coef_term a in
      do d1 <- add_dict_add_term [] (fst ct1) (snd ct1);
      let ct2 := as_coef_term b in
      do d2 <- add_dict_add_term d1 (fst ct2) (snd ct2);
      match umap_find expr_eqb e_one d2 with
      | None => Ok (add_from_dict (NInt 0) d2)
      | Some v => Ok (add_from_dict v (umap_erase e_one d2))
      end
  end.

(* add(const vec_basic &) *)
Definition e_addv (l : list expr) : res expr :=
  do st <- fold_res (fun st x => coef_dict_add_term (fst st) (snd st) (NInt 1) x) l (NInt 0, []);
  Ok (add_from_dict (fst st) (snd st)).

(* ------------------------------------------------------------------ integer roots *)

(* mpz_root(t, a, n) for a >= 0: t = floor(a^(1/n)), result <> 0 iff the root is exact *)
Fixpoint iroot_bits (k : nat) (a n r : Z) : Z :=
  match k with
  | O => r
  | S k' =>
      let c := r + 2 ^ Z.of_nat k' in
      if c ^ n <=? a then iroot_bits k' a n c else iroot_bits k' a n r
  end.
Definition iroot (a : Z) (n : positive) : Z * bool :=
  if a <=? 1 then (a, true)
  else if Z.log2 a <? Zpos n then (1, false)
  else
    let r := iroot_bits (S (Z.to_nat (Z.log2 a / Zpos n))) a (Zpos n) 0 in
    (r, r ^ Zpos n =? a).

(* ------------------------------------------------------------------ Mul::as_base_exp *)

(* returns (exp, base) *)
Definition as_base_exp (self : expr) : res (expr * expr) :=
  match self with
  | ENum (NRat n d) =>
      if Z.abs n <? Zpos d then
        do b <- num_rdiv (NRat n d) (NInt 1); Ok (e_minus_one, ENum b)
      else Ok (e_one, self)
  | ENum _ => Ok (e_one, self)
  | EPow b e => Ok (e, b)
  | _ => Ok (e_one, self)
  end.

(* ------------------------------------------------------------------ the recursive knot *)

Inductive call :=
| CMul (a b : expr)                                         (* mul(a, b) *)
| CPow (a b : expr)                                         (* pow(a, b) *)
| CDatn (coef : number) (d : mdict) (exp t : expr)          (* Mul::dict_add_term_new(coef, d, exp, t) *)
| CPowerNum (sc : number) (sd : mdict) (coef : number) (d : mdict) (exp : number)
                                                            (* Mul(sc, sd).power_num(coef, d, exp) *)
| CRpowrat (num : Z) (den : positive) (other : Z)           (* Rational(num/den).rpowrat(Integer other) = other^(num/den) *)
| CPowrat (bn : Z) (bd : positive) (en : Z) (ed : positive). (* Rational(bn/bd).powrat(Rational en/ed) *)

Inductive ret :=
| RE (e : expr)
| RS (coef : number) (d : mdict).

Section Step.
  Variable rec : call -> res ret.

  Definition rE (c : call) : res expr :=
    do r <- rec c; match r with RE e => Ok e | RS _ _ => ErrExn EXN_INTERNAL end.
  Definition rS (c : call) : res (number * mdict) :=
    do r <- rec c; match r with RS coef d => Ok (coef, d) | RE _ => ErrExn EXN_INTERNAL end.

  (* for (auto &p : m->dict_) Mul::dict_add_term_new(coef, d, p.second, p.first); *)
  Definition datn_loop (coef : number) (d : mdict) (l : mdict) : res (number * mdict) :=
    fold_res (fun st p => rS (CDatn (fst st) (snd st) (snd p) (fst p))) l (coef, d).

  (* imulnum(coef, pownum(t, e)) *)
  Definition coef_times_pow (coef t e : number) : res number :=
    do p <- num_pow t e; num_mul coef p.

  (* exponent.rpowrat(Integer t)  /  Rational(t).powrat(exponent) *)
  Definition rat_pow (t : number) (en : Z) (ed : positive) : res expr :=
    match t with
    | NInt z => rE (CRpowrat en ed z)
    | NRat n d => rE (CPowrat n d en ed)
    | _ => ErrExn EXN_INTERNAL
    end.

  (* Mul::dict_add_term_new *)
  (* a term b**e arriving with an Integer exponent n is added as b with exponent e*n *)
  Definition pow_int_term (t exp : expr) : option (expr * expr) :=
    match t, exp with
    | EPow tb te, ENum (NInt _) => Some (tb, te)
    | _, _ => None
    end.

  Definition step_datn (coef : number) (d : mdict) (exp t : expr) : res (number * mdict) :=
    match pow_int_term t exp with
    | Some (tb, te) => do e' <- rE (CMul te exp); rS (CDatn coef d e' tb)
    | None =>
    let ins (_ : unit) : res (number * mdict) := Ok (coef, minsert t exp d) in
    match mlookup t d with
    | None =>
        match t with
        | ENum tn =>
            if num_is_exact tn then
              match exp with
              | ENum (NInt e) => do c <- coef_times_pow coef tn (NInt e); Ok (c, d)
              | ENum (NRat en ed) =>
                  match tn with
                  | NCplx _ _ _ _ => ins tt
                  | _ =>
                      do r <- rat_pow tn en ed;
                      match r with
                      | ENum rn => do c <- num_mul coef rn; Ok (c, d)
                      | EMul mc md => do c <- num_mul coef mc; datn_loop c d md
                      | _ => ins tt
                      end
                  end
              | ENum en =>
                  if negb (num_is_exact en) then do c <- coef_times_pow coef tn en; Ok (c, d)
                  else ins tt
              | _ => ins tt
              end
            else
              match exp with
              | ENum en => do c <- coef_times_pow coef tn en; Ok (c, d)
              | _ => ins tt
              end
        | _ => ins tt
        end
    | Some (k, v) =>
        do newv <- match exp, v with
                   | ENum en, ENum vn => do s <- num_add vn en; Ok (ENum s)
                   | _, _ => e_add v exp
                   end;
        let d1 := mset t newv d in          (* it->second = newv *)
        let dE := merase t d in             (* d.erase(it) *)
        let tail (_ : unit) : res (number * mdict) :=
          match newv with
          | ENum n =>
              if num_is_zero n then do c <- coef_times_pow coef n (NInt 0); Ok (c, dE)
              else
                match k with
                | EMul mc md =>
                    if is_Integer newv || (num_neq_int mc 1 && num_neq_int mc (-1))
                    then rS (CPowerNum mc md coef dE n)
                    else Ok (coef, d1)
                | _ =>
                    if expr_eqb k e_E then
                      (if negb (num_is_exact n) then ErrExn EXN_LIBM else Ok (coef, d1))
                    else
                      match t with
                      | ENum tn =>
                          if negb (num_is_exact n) || negb (num_is_exact tn) then
                            (* t ** (summed exponent) is folded into the coefficient, the entry dropped *)
                            do c <- coef_times_pow coef tn n; Ok (c, dE)
                          else Ok (coef, d1)
                      | _ => Ok (coef, d1)
                      end
                end
          | _ => Ok (coef, d1)
          end in
        (* a Pow key whose exponents sum to a non-zero Integer n:  (b**e)**n = b**(e*n) *)
        let pow_key (_ : unit) : res (number * mdict) :=
          match k with
          | EPow kb ke => do e' <- rE (CMul ke newv); rS (CDatn coef dE e' kb)
          | _ => tail tt
          end in
        match newv with
        | ENum (NInt z) =>
            match t with
            | ENum tn =>
                if num_is_exact tn then
                  (if negb (z =? 0) then do c <- coef_times_pow coef tn (NInt z); Ok (c, dE)
                   else Ok (coef, dE))
                else if z =? 0 then Ok (coef, dE) else pow_key tt
            | _ => if z =? 0 then Ok (coef, dE) else pow_key tt
            end
        | ENum (NRat rn rd) =>
            match t with
            | ENum ((NInt _ | NRat _ _) as tn) =>
                do r <- rat_pow tn rn rd;
                match r with
                | ENum rr => do c <- num_mul coef rr; Ok (c, dE)
                | EMul mc md => do c <- num_mul coef mc; datn_loop c dE md
                | _ => tail tt
                end
            | _ => tail tt
            end
        | _ => tail tt
        end
    end
    end.

  (* Mul::power_num, self = Mul(sc, sd) *)
  Definition step_power_num (sc : number) (sd : mdict) (coef : number) (d : mdict) (exp : number)
    : res (number * mdict) :=
    if num_is_zero exp then do c <- coef_times_pow coef exp (NInt 0); Ok (c, d)
    else
      do ncst <-
        match exp with
        | NInt _ =>
            do nc <- rE (CPow (ENum sc) (ENum exp));
            do st <- fold_res (fun st p =>
                       do ne <- rE (CMul (snd p) (ENum exp));
                       match ne, fst p with
                       | ENum (NInt z), EMul kc kd => rS (CPowerNum kc kd (fst st) (snd st) (NInt z))
                       | _, _ => rS (CDatn (fst st) (snd st) ne (fst p))
                       end) sd (coef, d);
            Ok (nc, st)
        | _ =>
            if num_is_negative sc && negb (num_is_minus_one sc) then
              do nsc <- num_mul sc (NInt (-1));
              do nc <- rE (CPow (ENum nsc) (ENum exp));
              do st <- rS (CDatn coef d (ENum exp) (mul_from_dict (NInt (-1)) sd));
              Ok (nc, st)
            else if num_is_positive sc && negb (num_is_one sc) then
              do nc <- rE (CPow (ENum sc) (ENum exp));
              do st <- rS (CDatn coef d (ENum exp) (mul_from_dict (NInt 1) sd));
              Ok (nc, st)
            else
              do st <- rS (CDatn coef d (ENum exp) (EMul sc sd));
              Ok (e_one, st)
        end;
      let nc := fst ncst in
      let coef' := fst (snd ncst) in
      let d' := snd (snd ncst) in
      match nc with
      | ENum n => do c <- num_mul coef' n; Ok (c, d')
      | EMul tc td => do c <- num_mul coef' tc; datn_loop c d' td
      | _ => do et <- as_base_exp nc; rS (CDatn coef' d' (fst et) (snd et))
      end.

  (* one operand of mul(a, b) that is not a Mul *)
  Definition mul_operand (coef : number) (d : mdict) (x : expr) : res (number * mdict) :=
    match x with
    | ENum n => do c <- num_mul coef n; Ok (c, d)
    | _ => do et <- as_base_exp x; rS (CDatn coef d (fst et) (snd et))
    end.

  (* mul(a, b) *)
  Definition step_mul (a b : expr) : res expr :=
    do st <-
      match a, b with
      | EMul ca da, EMul cb db =>
          do coef <- (if negb (num_is_one ca) || negb (num_is_one cb) then num_mul ca cb
                      else Ok (NInt 1));
          datn_loop coef da db
      | EMul ca da, _ => mul_operand ca da b
      | _, EMul cb db => mul_operand cb db a
      | _, _ => do st <- mul_operand (NInt 1) [] a; mul_operand (fst st) (snd st) b
      end;
    Ok (mul_from_dict (fst st) (snd st)).

  (* Rational(num/den).rpowrat(Integer other) *)
  Definition step_rpowrat (num : Z) (den : positive) (other : Z) : res expr :=
    if other =? 1 then Ok e_one
    else
      let general (_ : unit) : res expr :=
        let q := num / Zpos den in
        let r := num mod Zpos den in
        do coef <- int_powint other q;
        if (other <? 0) && (den =? 2)%positive then
          do c <- num_mul coef I_unit;
          Ok (mul_from_dict c (if other =? -1 then []
                               else [(e_int (- other), ENum (from_mpq (Qmake r den)))]))
        else Ok (mul_from_dict coef [(e_int other, ENum (from_mpq (Qmake r den)))]) in
      if fits_ulong (Zpos den) then
        if other <? 0 then
          let rt := iroot (- other) den in
          if negb (other =? -1) && snd rt then
            do m1 <- rE (CRpowrat num den (-1));
            do p <- int_powint (fst rt) num;
            rE (CMul m1 (ENum p))
          else general tt
        else
          let rt := iroot other den in
          if snd rt then do p <- int_powint (fst rt) num; Ok (ENum p)
          else general tt
      else general tt.

  (* Rational(bn/bd).powrat(Rational en/ed) *)
  Definition step_powrat (bn : Z) (bd : positive) (en : Z) (ed : positive) : res expr :=
    do x <- rE (CRpowrat en ed bn);
    do y <- rE (CRpowrat (- en) ed (Zpos bd));
    rE (CMul x y).

  (* pow(a, b) *)
  Definition step_pow (a b : expr) : res expr :=
    let num_result (r : res number) : res expr := do x <- r; Ok (ENum x) in
    (* the last three rules of pow() *)
    let cont3 (_ : unit) : res expr :=
      match a with
      | EPow ab ae =>
          if is_Integer b then do e' <- rE (CMul ae b); rE (CPow ab e')
          else if expr_eqb ae e_minus_one then
            do nb <- rE (CMul e_minus_one b); rE (CPow ab nb)
          else Ok (EPow a b)
      | _ => Ok (EPow a b)
      end in
    (* if (is_a_Number( *b )) { ... } *)
    let cont2 (_ : unit) : res expr :=
      match b with
      | ENum bn =>
          match a with
          | ENum an =>
              match bn with
              | NInt _ => num_result (num_pow an bn)
              | NRat en ed =>
                  match an with
                  | NRat n d => rE (CPowrat n d en ed)
                  | NInt z => rE (CRpowrat en ed z)
                  | NCplx _ _ _ _ => Ok (EPow a b)
                  | _ => num_result (num_pow an bn)
                  end
              | NCplx _ _ _ _ =>
                  if num_is_exact an then (if num_is_one an then Ok e_one else Ok (EPow a b))
                  else num_result (num_pow an bn)
              | _ => num_result (num_pow an bn)
              end
          | EMul sc sd =>
              do st <- rS (CPowerNum sc sd (NInt 1) [] bn);
              Ok (mul_from_dict (fst st) (snd st))
          | _ =>
              if expr_eqb a e_E then
                (if negb (num_is_exact bn) then ErrExn EXN_LIBM else cont3 tt)
              else cont3 tt
          end
      | _ => cont3 tt
      end in
    match b with
    | ENum bn => if num_is_zero bn then num_result (num_add (NInt 1) bn) else
        if expr_eqb b e_one then Ok a
        else if expr_eqb a e_zero then
          (if num_is_positive bn then Ok e_zero
           else if num_is_negative bn then Ok (ENum (NInf 0))
           else Ok (EPow a b))
        else if expr_eqb a e_minus_one then
          match bn with
          | NInt z => Ok (if Z.even z then e_one else e_minus_one)    (* is_a<Integer>(div(b, 2)) *)
          | NRat _ _ => if expr_eqb b e_half then Ok (ENum I_unit) else cont2 tt
          | _ => cont2 tt
          end
        else cont2 tt
    | _ =>
        if expr_eqb a e_zero then Ok (EPow a b)
        else if expr_eqb a e_one then Ok e_one
        else cont2 tt
    end.

  Definition step (c : call) : res ret :=
    match c with
    | CMul a b => do e <- step_mul a b; Ok (RE e)
    | CPow a b => do e <- step_pow a b; Ok (RE e)
    | CDatn coef d exp t => do st <- step_datn coef d exp t; Ok (RS (fst st) (snd st))
    | CPowerNum sc sd coef d exp =>
        do st <- step_power_num sc sd coef d exp; Ok (RS (fst st) (snd st))
    | CRpowrat num den other => do e <- step_rpowrat num den other; Ok (RE e)
    | CPowrat bn bd en ed => do e <- step_powrat bn bd en ed; Ok (RE e)
    end.
End Step.

Fixpoint arith (fuel : nat) (c : call) : res ret :=
  match fuel with
  | O => ErrFuel
  | S f => step (arith f) c
  end.

(* ------------------------------------------------------------------ the public API *)

Definition e_mul (fuel : nat) (a b : expr) : res expr := rE (arith fuel) (CMul a b).
Definition e_pow (fuel : nat) (a b : expr) : res expr := rE (arith fuel) (CPow a b).
Definition e_neg (fuel : nat) (a : expr) : res expr := e_mul fuel e_minus_one a.
Definition e_sub (fuel : nat) (a b : expr) : res expr :=
  do nb <- e_mul fuel e_minus_one b; e_add a nb.
Definition e_div (fuel : nat) (a b : expr) : res expr :=
  if is_number_and_zero b then
    (if is_number_and_zero a then Ok (ENum NNaN) else Ok (ENum (NInf 0)))
  else do p <- e_pow fuel b e_minus_one; e_mul fuel a p.
Definition e_sqrt (fuel : nat) (x : expr) : res expr :=
  do h <- e_div fuel e_one (e_int 2); e_pow fuel x h.
Definition e_cbrt (fuel : nat) (x : expr) : res expr :=
  do h <- e_div fuel e_one (e_int 3); e_pow fuel x h.

(* mul(const vec_basic &) *)
Definition e_mulv (fuel : nat) (l : list expr) : res expr :=
  do st <- fold_res (fun st x =>
             match x with
             | EMul xc xd =>
                 do c <- num_mul (fst st) xc;
                 datn_loop (arith fuel) c (snd st) xd
             | _ => mul_operand (arith fuel) (fst st) (snd st) x
             end) l (NInt 1, []);
  Ok (mul_from_dict (fst st) (snd st)).

(* Mul::dict_add_term (used by expand and others; not by mul) *)
Definition mul_dict_add_term (d : mdict) (exp t : expr) : res mdict :=
  match mlookup t d with
  | None => Ok (minsert t exp d)
  | Some (k, v) =>
      match v, exp with
      | ENum vn, ENum en =>
          do s <- num_add vn en;
          if num_is_zero s then Ok (merase t d) else Ok (mset t (ENum s) d)
      | _, _ =>
          do s <- e_add v exp;
          if is_number_and_zero s then Ok (merase t d) else Ok (mset t s d)
      end
  end.

Inductive apiop := OAdd | OSub | OMul | ODiv | OPow | ONeg | OSqrt | OCbrt | OAddV | OMulV.

Definition api (fuel : nat) (op : apiop) (args : list expr) : res expr :=
  match op, args with
  | OAdd, [a; b] => e_add a b
  | OSub, [a; b] => e_sub fuel a b
  | OMul, [a; b] => e_mul fuel a b
  | ODiv, [a; b] => e_div fuel a b
  | OPow, [a; b] => e_pow fuel a b
  | ONeg, [a] => e_neg fuel a
  | OSqrt, [a] => e_sqrt fuel a
  | OCbrt, [a] => e_cbrt fuel a
  | OAddV, l => e_addv l
  | OMulV, l => e_mulv fuel l
  | _, _ => ErrExn EXN_INTERNAL
  end.

(* the fuel used by the extracted model and in the theorems: call depth is bounded by the nesting
   of the operands (power_num descends into Mul keys, pow into Pow bases, rpowrat twice) *)
Definition args_size (l : list expr) : nat := fold_right (fun e acc => (size e + acc)%nat) 0%nat l.
Definition api_fuel (l : list expr) : nat := (4 * args_size l + 40)%nat.
Definition api_run (op : apiop) (args : list expr) : res expr := api (api_fuel args) op args.
