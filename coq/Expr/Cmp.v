(* L2 -- __eq__, compare / __cmp__, RCPBasicKeyLess, transcribed (C01, C02).
   [eqb] and [cmp] recurse on explicit fuel ([size a + size b] is always enough);
   the wrappers [expr_eqb], [expr_cmp] supply it. *)
From SE Require Export Expr.Hash.
Local Open Scope N_scope.

(* ---------- IEEE doubles on their bit patterns (== and < of C++) ---------- *)
Definition dbl_is_nan (b : N) : bool :=
  ((b / 4503599627370496) mod 2048 =? 2047) && negb (b mod 4503599627370496 =? 0).
Definition dbl_key (b : N) : Z :=
  let mag := Z.of_N (b mod 9223372036854775808) in
  if b <? 9223372036854775808 then mag else (- mag)%Z.
Definition dbl_eq (a b : N) : bool :=
  negb (dbl_is_nan a) && negb (dbl_is_nan b) && (dbl_key a =? dbl_key b)%Z.
Definition dbl_lt (a b : N) : bool :=
  negb (dbl_is_nan a) && negb (dbl_is_nan b) && (dbl_key a <? dbl_key b)%Z.

Definition Zcmp (a b : Z) : Z :=
  if (a =? b)%Z then 0%Z else if (a <? b)%Z then (-1)%Z else 1%Z.
Definition Ncmp (a b : N) : Z := Zcmp (Z.of_N a) (Z.of_N b).
(* rationals n1/d1 vs n2/d2 with positive denominators *)
Definition Qeq_pair (n1 : Z) (d1 : positive) (n2 : Z) (d2 : positive) : bool :=
  (n1 * Zpos d2 =? n2 * Zpos d1)%Z.
Definition Qcmp_pair (n1 : Z) (d1 : positive) (n2 : Z) (d2 : positive) : Z :=
  Zcmp (n1 * Zpos d2) (n2 * Zpos d1).

(* ---------- numbers ---------- *)
Definition num_eqb (a b : number) : bool :=
  match a, b with
  | NInt x, NInt y => (x =? y)%Z
  | NRat n1 d1, NRat n2 d2 => Qeq_pair n1 d1 n2 d2
  | NCplx a1 b1 c1 d1, NCplx a2 b2 c2 d2 => Qeq_pair a1 b1 a2 b2 && Qeq_pair c1 d1 c2 d2
  | NDbl x, NDbl y => dbl_eq x y
  | NCDbl r1 i1, NCDbl r2 i2 => dbl_eq r1 r2 && dbl_eq i1 i2
  | NInf d1, NInf d2 => (d1 =? d2)%Z
  | NNaN, NNaN => true
  | _, _ => false
  end.

(* Number::compare for two numbers of the same class *)
Definition num_cmp_same (a b : number) : Z :=
  match a, b with
  | NInt x, NInt y => Zcmp x y
  | NRat n1 d1, NRat n2 d2 => Qcmp_pair n1 d1 n2 d2
  | NCplx a1 b1 c1 d1, NCplx a2 b2 c2 d2 =>
      if Qeq_pair a1 b1 a2 b2 then
        (if Qeq_pair c1 d1 c2 d2 then 0%Z
         else if (Qcmp_pair c1 d1 c2 d2 =? -1)%Z then (-1)%Z else 1%Z)
      else if (Qcmp_pair a1 b1 a2 b2 =? -1)%Z then (-1)%Z else 1%Z
  | NDbl x, NDbl y => if dbl_eq x y then 0%Z else if dbl_lt x y then (-1)%Z else 1%Z
  | NCDbl r1 i1, NCDbl r2 i2 =>
      if dbl_eq r1 r2 && dbl_eq i1 i2 then 0%Z
      else if dbl_eq r1 r2 then (if dbl_lt i1 i2 then (-1)%Z else 1%Z)
      else if dbl_lt r1 r2 then (-1)%Z else 1%Z
  | NInf d1, NInf d2 => Zcmp d1 d2
  | _, _ => 0%Z
  end.

(* Basic::__cmp__ on two numbers *)
Definition num_cmp (a b : number) : Z :=
  if num_type_code a =? num_type_code b then num_cmp_same a b
  else if num_type_code a <? num_type_code b then (-1)%Z else 1%Z.

(* std::string comparison: lexicographic on unsigned bytes, shorter prefix first *)
Fixpoint bytes_cmp (a b : list N) : Z :=
  match a, b with
  | [], [] => 0%Z
  | [], _ => (-1)%Z
  | _, [] => 1%Z
  | x :: a', y :: b' => if x =? y then bytes_cmp a' b' else if x <? y then (-1)%Z else 1%Z
  end.
Definition bytes_eqb (a b : list N) : bool := (bytes_cmp a b =? 0)%Z.

(* ---------- generic helpers, parameterised by the recursive call ---------- *)
Section WithRec.
  Variable eqr : expr -> expr -> bool.
  Variable cmpr : expr -> expr -> Z.

  Fixpoint list_eqb (l1 l2 : list expr) : bool :=
    match l1, l2 with
    | [], [] => true
    | x :: r1, y :: r2 => eqr x y && list_eqb r1 r2
    | _, _ => false
    end.

  Fixpoint pairs_eqb (l1 l2 : list (expr * expr)) : bool :=
    match l1, l2 with
    | [], [] => true
    | (k1, v1) :: r1, (k2, v2) :: r2 => eqr k1 k2 && eqr v1 v2 && pairs_eqb r1 r2
    | _, _ => false
    end.

  (* unordered_map::find: a stored key with the same hash that is eq *)
  Fixpoint umap_find (k : expr) (d : list (expr * number)) : option number :=
    match d with
    | [] => None
    | (k', v) :: r => if (hash k' =? hash k) && eqr k' k then Some v else umap_find k r
    end.

  (* unordered_eq *)
  Definition umap_eqb (d1 d2 : list (expr * number)) : bool :=
    (length d1 =? length d2)%nat &&
    forallb (fun p => match umap_find (fst p) d2 with
                      | Some v => num_eqb (snd p) v
                      | None => false
                      end) d1.

  (* ordered_compare on element lists of equal length: first nonzero comparison *)
  Fixpoint lex_cmp (l1 l2 : list expr) : Z :=
    match l1, l2 with
    | x :: r1, y :: r2 => let t := cmpr x y in if (t =? 0)%Z then lex_cmp r1 r2 else t
    | _, _ => 0%Z
    end.
  (* ordered_compare: size first *)
  Definition sized_cmp (l1 l2 : list expr) : Z :=
    if (length l1 =? length l2)%nat then lex_cmp l1 l2
    else if (length l1 <? length l2)%nat then (-1)%Z else 1%Z.

  Fixpoint pairs_lex_cmp (l1 l2 : list (expr * expr)) : Z :=
    match l1, l2 with
    | (k1, v1) :: r1, (k2, v2) :: r2 =>
        let t := cmpr k1 k2 in
        if (t =? 0)%Z then
          let u := cmpr v1 v2 in if (u =? 0)%Z then pairs_lex_cmp r1 r2 else u
        else t
    | _, _ => 0%Z
    end.
  Definition pairs_sized_cmp (l1 l2 : list (expr * expr)) : Z :=
    if (length l1 =? length l2)%nat then pairs_lex_cmp l1 l2
    else if (length l1 <? length l2)%nat then (-1)%Z else 1%Z.

  (* RCPBasicKeyLess *)
  Definition keyless (x y : expr) : bool :=
    if negb (hash x =? hash y) then hash x <? hash y
    else if eqr x y then false
    else (cmpr x y =? -1)%Z.

  (* std::map<_, _, RCPBasicKeyLess> built by successive insertion: sorted list;
     a key equivalent to a stored one is dropped *)
  Fixpoint map_insert (k : expr) (v : number) (m : list (expr * number)) : list (expr * number) :=
    match m with
    | [] => [(k, v)]
    | (k', v') :: r =>
        if keyless k' k then (k', v') :: map_insert k v r
        else if keyless k k' then (k, v) :: m
        else m
    end.
  Definition map_of_umap (d : list (expr * number)) : list (expr * number) :=
    fold_left (fun m p => map_insert (fst p) (snd p) m) d [].

  Fixpoint numpairs_lex_cmp (l1 l2 : list (expr * number)) : Z :=
    match l1, l2 with
    | (k1, v1) :: r1, (k2, v2) :: r2 =>
        let t := cmpr k1 k2 in
        if (t =? 0)%Z then
          let u := num_cmp v1 v2 in if (u =? 0)%Z then numpairs_lex_cmp r1 r2 else u
        else t
    | _, _ => 0%Z
    end.
  Definition numpairs_sized_cmp (l1 l2 : list (expr * number)) : Z :=
    if (length l1 =? length l2)%nat then numpairs_lex_cmp l1 l2
    else if (length l1 <? length l2)%nat then (-1)%Z else 1%Z.
End WithRec.

(* ---------- __eq__ ---------- *)
Fixpoint eqb (fuel : nat) (a b : expr) : bool :=
  match fuel with
  | O => false
  | S f =>
      match a, b with
      | ENum x, ENum y => num_eqb x y
      | ESym x, ESym y => bytes_eqb x y
      | EDummy x i, EDummy y j => bytes_eqb x y && (i =? j)
      | EConst x, EConst y => bytes_eqb x y
      | EAdd c1 d1, EAdd c2 d2 => num_eqb c1 c2 && umap_eqb (eqb f) d1 d2
      | EMul c1 d1, EMul c2 d2 => num_eqb c1 c2 && pairs_eqb (eqb f) d1 d2
      | EPow b1 e1, EPow b2 e2 => eqb f b1 b2 && eqb f e1 e2
      | EF1 c1 a1, EF1 c2 a2 => (c1 =? c2) && eqb f a1 a2
      | EF2 c1 a1 b1, EF2 c2 a2 b2 => (c1 =? c2) && eqb f a1 a2 && eqb f b1 b2
      | EFN c1 l1, EFN c2 l2 => (c1 =? c2) && list_eqb (eqb f) l1 l2
      | EFunSym n1 l1, EFunSym n2 l2 => bytes_eqb n1 n2 && list_eqb (eqb f) l1 l2
      | ELex c1 a1 b1, ELex c2 a2 b2 => (c1 =? c2) && eqb f a1 a2 && eqb f b1 b2
      | EDeriv a1 l1, EDeriv a2 l2 => eqb f a1 a2 && list_eqb (eqb f) l1 l2
      | ESubs a1 d1, ESubs a2 d2 => eqb f a1 a2 && pairs_eqb (eqb f) d1 d2
      | EPw l1, EPw l2 => pairs_eqb (eqb f) l1 l2
      | EBool x, EBool y => Bool.eqb x y
      | EInterval s1 e1 l1 r1, EInterval s2 e2 l2 r2 =>
          Bool.eqb l1 l2 && Bool.eqb r1 r2 && eqb f s1 s2 && eqb f e1 e2
      | EAtom c1, EAtom c2 => c1 =? c2
      | _, _ => false
      end
  end.

Definition expr_eqb (a b : expr) : bool := eqb (size a + size b) a b.

(* ---------- compare / __cmp__ ---------- *)
Fixpoint cmp (fuel : nat) (a b : expr) : Z :=
  match fuel with
  | O => 0%Z
  | S f =>
      if negb (type_code a =? type_code b) then
        (if type_code a <? type_code b then (-1)%Z else 1%Z)
      else
      match a, b with
      | ENum x, ENum y => num_cmp_same x y
      | ESym x, ESym y => bytes_cmp x y
      | EDummy x i, EDummy y j => if bytes_eqb x y then Ncmp i j else bytes_cmp x y
      | EConst x, EConst y => bytes_cmp x y
      | EAdd c1 d1, EAdd c2 d2 =>
          if negb (length d1 =? length d2)%nat then
            (if (length d1 <? length d2)%nat then (-1)%Z else 1%Z)
          else
            let t := num_cmp c1 c2 in
            if negb (t =? 0)%Z then t
            else numpairs_sized_cmp (cmp f)
                   (map_of_umap (eqb (size a + size b)) (cmp f) d1)
                   (map_of_umap (eqb (size a + size b)) (cmp f) d2)
      | EMul c1 d1, EMul c2 d2 =>
          if negb (length d1 =? length d2)%nat then
            (if (length d1 <? length d2)%nat then (-1)%Z else 1%Z)
          else
            let t := num_cmp c1 c2 in
            if negb (t =? 0)%Z then t else pairs_sized_cmp (cmp f) d1 d2
      | EPow b1 e1, EPow b2 e2 =>
          let t := cmp f b1 b2 in if (t =? 0)%Z then cmp f e1 e2 else t
      | EF1 _ a1, EF1 _ a2 => cmp f a1 a2
      | EF2 _ a1 b1, EF2 _ a2 b2 =>
          if negb (eqb (size a + size b) a1 a2) then cmp f a1 a2 else cmp f b1 b2
      | EFN _ l1, EFN _ l2 => sized_cmp (cmp f) l1 l2
      | EFunSym n1 l1, EFunSym n2 l2 =>
          if bytes_eqb n1 n2 then sized_cmp (cmp f) l1 l2
          else if (bytes_cmp n1 n2 =? -1)%Z then (-1)%Z else 1%Z
      | ELex _ a1 b1, ELex _ a2 b2 =>
          let t := cmp f a1 a2 in if (t =? 0)%Z then cmp f b1 b2 else t
      | EDeriv a1 l1, EDeriv a2 l2 =>
          let t := cmp f a1 a2 in if (t =? 0)%Z then sized_cmp (cmp f) l1 l2 else t
      | ESubs a1 d1, ESubs a2 d2 =>
          let t := cmp f a1 a2 in if (t =? 0)%Z then pairs_sized_cmp (cmp f) d1 d2 else t
      | EPw l1, EPw l2 => pairs_sized_cmp (cmp f) l1 l2
      | EBool x, EBool y =>
          if x then (if y then 0%Z else 1%Z) else (if y then (-1)%Z else 0%Z)
      | EInterval s1 e1 lo1 ro1, EInterval s2 e2 lo2 ro2 =>
          if lo1 && negb lo2 then (-1)%Z
          else if negb lo1 && lo2 then 1%Z
          else if ro1 && negb ro2 then 1%Z
          else if negb ro1 && ro2 then (-1)%Z
          else let t := cmp f s1 s2 in if (t =? 0)%Z then cmp f e1 e2 else t
      | EAtom _, EAtom _ => 0%Z
      | _, _ => 0%Z
      end
  end.

Definition expr_cmp (a b : expr) : Z := cmp (size a + size b) a b.

Definition expr_keyless (a b : expr) : bool := keyless expr_eqb expr_cmp a b.
