(* C02: compare is a three-way comparison with range {-1,0,1}, zero exactly on eq, antisymmetric
   and transitive on well-formed expressions; RCPBasicKeyLess is a strict weak order whose
   incomparability is eq; the ordered container is independent of the insertion order. *)
From SE Require Export Expr.Keyless.
From Coq Require Import Lia ZifyBool ZifyNat ZifyN Permutation.
Local Open Scope Z_scope.

(* ---------- range (all expressions) ---------- *)
Lemma cmp_range_f : forall f a b, in_range (cmp f a b).
Proof.
  induction f; intros a b; cbn [cmp]; [right; left; reflexivity|].
  destruct (negb (type_code a =? type_code b)%N); [unfold in_range; dif; lia|].
  destruct a; destruct b; try (right; left; reflexivity);
    rewrite ?pairs_sized_cmp_flat; cbv zeta; unfold Ncmp;
    repeat match goal with
    | |- in_range (if ?c then _ else _) => destruct c
    end;
    first [ apply IHf | apply num_cmp_same_range | apply num_cmp_range | apply bytes_cmp_range
          | apply Zcmp_range | apply sized_cmp_range; intros; apply IHf
          | apply numpairs_sized_cmp_range; intros; apply IHf
          | unfold in_range; lia ].
Qed.

Theorem cmp_range :
  forall a b : expr, expr_cmp a b = (-1)%Z \/ expr_cmp a b = 0%Z \/ expr_cmp a b = 1%Z.
Proof. intros. apply cmp_range_f. Qed.

Lemma expr_cmp_range : forall a b, in_range (expr_cmp a b).
Proof. exact cmp_range. Qed.

(* ---------- normal forms of the per-class comparisons ---------- *)
Lemma neg_lex : forall t u, (if negb (t =? 0) then t else u) = lexZ t u.
Proof. intros. unfold lexZ. destruct (t =? 0); reflexivity. Qed.
Lemma f2_lex : forall (e : bool) t u, (t = 0 <-> e = true) -> (if negb e then t else u) = lexZ t u.
Proof.
  intros e t u H. unfold lexZ. destruct e; cbn [negb].
  - destruct H as [_ H]. rewrite (H eq_refl). reflexivity.
  - destruct (Z.eqb_spec t 0) as [E|E]; [apply H in E; discriminate | reflexivity].
Qed.
Lemma funsym_lex : forall n1 n2 u,
  (if bytes_eqb n1 n2 then u else if bytes_cmp n1 n2 =? -1 then -1 else 1) = lexZ (bytes_cmp n1 n2) u.
Proof.
  intros. unfold bytes_eqb, lexZ. pose proof (bytes_cmp_range n1 n2) as R. unfold in_range in R.
  dif; lia.
Qed.

Definition locmp (a b : bool) : Z := if a && negb b then -1 else if negb a && b then 1 else 0.
Definition rocmp (a b : bool) : Z := if a && negb b then 1 else if negb a && b then -1 else 0.
Definition boolcmp (x y : bool) : Z := if x then (if y then 0 else 1) else (if y then -1 else 0).
Lemma interval_lex : forall lo1 lo2 ro1 ro2 u,
  (if lo1 && negb lo2 then -1 else if negb lo1 && lo2 then 1
   else if ro1 && negb ro2 then 1 else if negb ro1 && ro2 then -1 else u) =
  lexZ (locmp lo1 lo2) (lexZ (rocmp ro1 ro2) u).
Proof. intros. destruct lo1, lo2, ro1, ro2; reflexivity. Qed.

Lemma locmp_range : forall a b, in_range (locmp a b).
Proof. unfold in_range. destruct a, b; cbn; lia. Qed.
Lemma rocmp_range : forall a b, in_range (rocmp a b).
Proof. unfold in_range. destruct a, b; cbn; lia. Qed.
Lemma boolcmp_range : forall a b, in_range (boolcmp a b).
Proof. unfold in_range. destruct a, b; cbn; lia. Qed.
Lemma locmp_antisym : forall a b, locmp a b = - locmp b a.
Proof. destruct a, b; reflexivity. Qed.
Lemma rocmp_antisym : forall a b, rocmp a b = - rocmp b a.
Proof. destruct a, b; reflexivity. Qed.
Lemma boolcmp_antisym : forall a b, boolcmp a b = - boolcmp b a.
Proof. destruct a, b; reflexivity. Qed.
Lemma locmp_zero : forall a b, locmp a b = 0 <-> Bool.eqb a b = true.
Proof. destruct a, b; cbn; split; intros; try reflexivity; discriminate. Qed.
Lemma rocmp_zero : forall a b, rocmp a b = 0 <-> Bool.eqb a b = true.
Proof. destruct a, b; cbn; split; intros; try reflexivity; discriminate. Qed.
Lemma boolcmp_zero : forall a b, boolcmp a b = 0 <-> Bool.eqb a b = true.
Proof. destruct a, b; cbn; split; intros; try reflexivity; discriminate. Qed.
Lemma locmp_FTz : forall a b c, FTz (locmp a b) (locmp b c) (locmp a c).
Proof. unfold FTz. destruct a, b, c; cbn; lia. Qed.
Lemma rocmp_FTz : forall a b c, FTz (rocmp a b) (rocmp b c) (rocmp a c).
Proof. unfold FTz. destruct a, b, c; cbn; lia. Qed.
Lemma boolcmp_FTz : forall a b c, FTz (boolcmp a b) (boolcmp b c) (boolcmp a c).
Proof. unfold FTz. destruct a, b, c; cbn; lia. Qed.

Lemma Ncmp_antisym : forall a b, Ncmp a b = - Ncmp b a.
Proof. intros. apply Zcmp_antisym. Qed.
Lemma Ncmp_range : forall a b, in_range (Ncmp a b).
Proof. intros. apply Zcmp_range. Qed.
Lemma Ncmp_zero : forall a b, Ncmp a b = 0 <-> (a =? b)%N = true.
Proof. intros. unfold Ncmp. rewrite Zcmp_eq. lia. Qed.
Lemma Ncmp_FTz : forall a b c, FTz (Ncmp a b) (Ncmp b c) (Ncmp a c).
Proof. intros. apply (Zcmp_FT (Z.of_N a) (Z.of_N b) (Z.of_N c)). Qed.

Ltac norm :=
  cbn [cmp_same]; cbv zeta; unfold bytes_eqb;
  rewrite ?natcmp_lex, ?neg_lex, ?interval_lex;
  repeat match goal with
  | |- context[if ?t =? 0 then ?u else ?t] => change (if t =? 0 then u else t) with (lexZ t u)
  end.

Lemma funsym_lex' : forall n1 n2 u,
  (if bytes_cmp n1 n2 =? 0 then u else if bytes_cmp n1 n2 =? -1 then -1 else 1) = lexZ (bytes_cmp n1 n2) u.
Proof. exact funsym_lex. Qed.

(* entries of the sorted dictionary of a well-formed sum *)
Lemma add_entry_P : forall n c d p, wf (EAdd c d) = true -> (size (EAdd c d) < S n)%nat ->
  In p (map_of_umap expr_eqb expr_cmp d) -> Pn n (fst p) /\ num_wf (snd p) = true.
Proof.
  intros n c d p W S H. apply map_of_umap_in in H. apply (proj1 (add_dict_ok n c d W S) p H).
Qed.
Lemma add_sorted_nwf : forall n c d, wf (EAdd c d) = true -> (size (EAdd c d) < S n)%nat ->
  nwf (map_of_umap expr_eqb expr_cmp d).
Proof. intros n c d W S p Hp. apply (add_entry_P n c d p W S Hp). Qed.

Lemma expr_eqb_tc : forall a b, expr_eqb a b = true -> type_code a = type_code b.
Proof.
  intros a b. rewrite expr_eqb_unfold.
  destruct a; destruct b; cbn [eqb_body type_code]; intros H; try discriminate H; try reflexivity;
    split_hyps; try reflexivity.
  destruct n, n0; cbn [num_eqb] in H; try discriminate H; reflexivity.
Qed.

Ltac entryP :=
  match goal with
  | Hp : In ?p (map_of_umap _ _ ?d), W : wf (EAdd ?c ?d) = true, S : (size (EAdd ?c ?d) < _)%nat
    |- Pn _ (fst ?p) => exact (proj1 (add_entry_P _ c d p W S Hp))
  end.

Section Step.
  Variable n : nat.
  Hypothesis IHA : forall x y, Pn n x -> Pn n y -> expr_cmp x y = - expr_cmp y x.
  Hypothesis IHE : forall x y, Pn n x -> Pn n y -> (expr_cmp x y = 0 <-> expr_eqb x y = true).
  Hypothesis IHT : forall x y z, Pn n x -> Pn n y -> Pn n z -> FT expr_cmp x y z.

  Lemma Pn_wf : forall x, Pn n x -> wf x = true.
  Proof. intros x [W _]. exact W. Qed.

  Lemma step_A : forall a b, wf a = true -> wf b = true ->
    (size a < S n)%nat -> (size b < S n)%nat -> expr_cmp a b = - expr_cmp b a.
  Proof.
    intros a b Wa Wb Sa Sb.
    destruct (N.eq_dec (type_code a) (type_code b)) as [Htc|Htc].
    2:{ rewrite (expr_cmp_tc_ne a b), (expr_cmp_tc_ne b a) by congruence. dif; lia. }
    rewrite (expr_cmp_tc_eq a b), (expr_cmp_tc_eq b a) by congruence.
    pose proof (wf_same_kind a b Wa Wb Htc) as K.
    destruct a; destruct b; cbn [ctor_kind] in K; try discriminate K; clear K;
      cbn [type_code] in Htc; norm; rewrite ?funsym_lex';
      repeat match goal with
      | |- context[if negb (expr_eqb ?x ?y) then expr_cmp ?x ?y else ?u] =>
          rewrite (f2_lex (expr_eqb x y) (expr_cmp x y) u (IHE x y ltac:(solveP) ltac:(solveP)))
      end;
      repeat apply lexZ_antisym;
      first [ reflexivity
            | apply natcmp_antisym
            | apply num_cmp_antisym; num_side
            | apply num_cmp_same_antisym; num_side
            | apply bytes_cmp_antisym
            | apply Ncmp_antisym
            | apply locmp_antisym | apply rocmp_antisym | apply boolcmp_antisym
            | apply IHA; solveP
            | apply sized_cmp_antisym; intros; apply IHA; solveP
            | apply numpairs_sized_cmp_antisym;
              [ eapply add_sorted_nwf; eassumption | eapply add_sorted_nwf; eassumption
              | intros p q Hp Hq; apply IHA; entryP ] ].
  Qed.

  Ltac f2norm :=
    repeat match goal with
    | |- context[if negb (expr_eqb ?x ?y) then expr_cmp ?x ?y else ?u] =>
        rewrite (f2_lex (expr_eqb x y) (expr_cmp x y) u (IHE x y ltac:(solveP) ltac:(solveP)))
    end.

  Lemma step_E_add : forall c d c0 d0, wf (EAdd c d) = true -> wf (EAdd c0 d0) = true ->
    (size (EAdd c d) < S n)%nat -> (size (EAdd c0 d0) < S n)%nat ->
    (length d = length d0 /\ num_cmp c c0 = 0 /\
     numpairs_sized_cmp expr_cmp (map_of_umap expr_eqb expr_cmp d) (map_of_umap expr_eqb expr_cmp d0) = 0
     <-> num_eqb c c0 = true /\ umap_eqb expr_eqb d d0 = true).
  Proof.
    intros c d c0 d0 Wa Wb Sa Sb.
    pose proof (add_dict_ok n c d Wa Sa) as OK1. pose proof (add_dict_ok n c0 d0 Wb Sb) as OK2.
    rewrite (num_cmp_eq_iff c c0) by num_side.
    split.
    - intros [L [C Xz]]. split; [exact C|].
      apply (sorted_eq_iff (Pn n) Pn_wf expr_cmp_range IHA IHE IHT d d0 OK1 OK2 L). exact Xz.
    - intros [C U].
      assert (L : length d = length d0).
      { unfold umap_eqb in U. apply andb_prop in U. destruct U as [U _]. apply Nat.eqb_eq in U. exact U. }
      repeat split; auto.
      apply (sorted_eq_iff (Pn n) Pn_wf expr_cmp_range IHA IHE IHT d d0 OK1 OK2 L). exact U.
  Qed.

  Lemma step_E : forall a b, wf a = true -> wf b = true ->
    (size a < S n)%nat -> (size b < S n)%nat -> (expr_cmp a b = 0 <-> expr_eqb a b = true).
  Proof.
    intros a b Wa Wb Sa Sb.
    destruct (N.eq_dec (type_code a) (type_code b)) as [Htc|Htc].
    2:{ rewrite (expr_cmp_tc_ne a b) by assumption. split; [dif; lia|].
        intros E. apply expr_eqb_tc in E. contradiction. }
    rewrite (expr_cmp_tc_eq a b) by assumption. rewrite expr_eqb_unfold.
    pose proof (wf_same_kind a b Wa Wb Htc) as K.
    destruct a; destruct b; cbn [ctor_kind] in K; try discriminate K; clear K;
      cbn [type_code] in Htc; cbn [eqb_body]; norm; rewrite ?funsym_lex'; f2norm;
      rewrite ?lexZ_zero, ?andb_true_iff, ?natcmp_zero;
      first [ apply num_cmp_same_eq_iff; [num_side | num_side | exact Htc]
            | apply boolcmp_zero
            | apply step_E_add; assumption
            | try (subst; rewrite N.eqb_refl);
              repeat match goal with
              | |- context[expr_cmp ?x ?y = 0] => rewrite (IHE x y ltac:(solveP) ltac:(solveP))
              | |- context[sized_cmp expr_cmp ?l1 ?l2 = 0] =>
                  rewrite (sized_cmp_eq_iff expr_cmp expr_eqb l1 l2) by (intros; apply IHE; solveP)
              | |- context[num_cmp ?x ?y = 0] => rewrite (num_cmp_eq_iff x y) by num_side
              end;
              rewrite ?Ncmp_zero, ?locmp_zero, ?rocmp_zero, ?Z.eqb_eq;
              first [ tauto
                    | split; [tauto|]; intros [A B]; repeat split; auto;
                      apply list_eqb_length in B; rewrite !length_flat in B; lia ] ].
  Qed.

  Lemma step_T : forall a b c, wf a = true -> wf b = true -> wf c = true ->
    (size a < S n)%nat -> (size b < S n)%nat -> (size c < S n)%nat -> FT expr_cmp a b c.
  Proof.
    intros a b c Wa Wb Wc Sa Sb Sc.
    destruct (N.eq_dec (type_code a) (type_code b)) as [H1|H1];
    destruct (N.eq_dec (type_code b) (type_code c)) as [H2|H2].
    2:{ assert (H3 : type_code a <> type_code c) by congruence.
        unfold FT. rewrite (expr_cmp_tc_ne b c H2), (expr_cmp_tc_ne a c H3), H1.
        repeat split; intros A B; dif; lia. }
    2:{ assert (H3 : type_code a <> type_code c) by congruence.
        unfold FT. rewrite (expr_cmp_tc_ne a b H1), (expr_cmp_tc_ne a c H3), <- H2.
        repeat split; intros A B; dif; lia. }
    2:{ unfold FT. rewrite (expr_cmp_tc_ne a b H1), (expr_cmp_tc_ne b c H2).
        destruct (N.eq_dec (type_code a) (type_code c)) as [H3|H3];
          [| rewrite (expr_cmp_tc_ne a c H3)]; repeat split; intros A B; dif; lia. }
    assert (H3 : type_code a = type_code c) by congruence.
    rewrite FT_FTz, (expr_cmp_tc_eq a b H1), (expr_cmp_tc_eq b c H2), (expr_cmp_tc_eq a c H3).
    pose proof (wf_same_kind a b Wa Wb H1) as K1. pose proof (wf_same_kind b c Wb Wc H2) as K2.
    destruct a; destruct b; cbn [ctor_kind] in K1; try discriminate K1;
      destruct c; cbn [ctor_kind] in K2; try discriminate K2; clear K1 K2;
      cbn [type_code] in H1, H2, H3; norm; rewrite ?funsym_lex'; f2norm;
      repeat match goal with
      | |- FTz (lexZ _ _) (lexZ _ _) (lexZ _ _) => apply FTz_lex
      end;
      first [ apply natcmp_range | apply num_cmp_range | apply bytes_cmp_range | apply expr_cmp_range
            | apply locmp_range | apply rocmp_range | apply Ncmp_range
            | apply natcmp_FTz
            | apply num_cmp_FT; num_side
            | apply num_cmp_same_FT; [num_side | num_side | num_side | exact H1 | exact H2]
            | apply bytes_cmp_FT
            | apply Ncmp_FTz | apply locmp_FTz | apply rocmp_FTz | apply boolcmp_FTz
            | apply IHT; solveP
            | apply sized_cmp_FT; [apply expr_cmp_range | intros; apply IHT; solveP]
            | apply numpairs_sized_cmp_FT;
              [ eapply add_sorted_nwf; eassumption | eapply add_sorted_nwf; eassumption
              | eapply add_sorted_nwf; eassumption | apply expr_cmp_range
              | intros p q r Hp Hq Hr; apply IHT; entryP ]
            | unfold FTz; lia ].
  Qed.
End Step.

Lemma cmp_all : forall n,
  (forall x y, Pn n x -> Pn n y -> expr_cmp x y = - expr_cmp y x) /\
  (forall x y, Pn n x -> Pn n y -> (expr_cmp x y = 0 <-> expr_eqb x y = true)) /\
  (forall x y z, Pn n x -> Pn n y -> Pn n z -> FT expr_cmp x y z).
Proof.
  induction n as [|n [IA [IE IT]]].
  - unfold Pn. repeat split; intros; exfalso; lia.
  - repeat split.
    + intros x y [Wx Sx] [Wy Sy]. apply (step_A n); auto.
    + destruct H as [Wx Sx]. destruct H0 as [Wy Sy]. apply (step_E n); auto.
    + destruct H as [Wx Sx]. destruct H0 as [Wy Sy]. apply (step_E n); auto.
    + destruct H as [Wx Sx]. destruct H0 as [Wy Sy]. destruct H1 as [Wz Sz].
      apply (step_T n IA IE IT x y z); auto.
    + destruct H as [Wx Sx]. destruct H0 as [Wy Sy]. destruct H1 as [Wz Sz].
      apply (step_T n IA IE IT x y z); auto.
    + destruct H as [Wx Sx]. destruct H0 as [Wy Sy]. destruct H1 as [Wz Sz].
      apply (step_T n IA IE IT x y z); auto.
    + destruct H as [Wx Sx]. destruct H0 as [Wy Sy]. destruct H1 as [Wz Sz].
      apply (step_T n IA IE IT x y z); auto.
Qed.

Theorem cmp_antisym :
  forall a b : expr, wf a = true -> wf b = true -> expr_cmp a b = (- expr_cmp b a)%Z.
Proof.
  intros a b Wa Wb. apply (proj1 (cmp_all (big a b b))); unfold Pn, big; (split; [assumption|lia]).
Qed.

Theorem cmp_eq_iff :
  forall a b : expr, wf a = true -> wf b = true ->
    (expr_cmp a b = 0%Z <-> expr_eqb a b = true).
Proof.
  intros a b Wa Wb. apply (proj1 (proj2 (cmp_all (big a b b)))); unfold Pn, big; (split; [assumption|lia]).
Qed.

Lemma cmp_FT : forall a b c, wf a = true -> wf b = true -> wf c = true -> FT expr_cmp a b c.
Proof.
  intros a b c Wa Wb Wc.
  apply (proj2 (proj2 (cmp_all (big a b c)))); unfold Pn, big; (split; [assumption|lia]).
Qed.

Theorem cmp_trans :
  forall a b c : expr, wf a = true -> wf b = true -> wf c = true ->
    expr_cmp a b = (-1)%Z -> expr_cmp b c = (-1)%Z -> expr_cmp a c = (-1)%Z.
Proof. intros a b c Wa Wb Wc. apply (cmp_FT a b c Wa Wb Wc). Qed.

(* ---------- RCPBasicKeyLess ---------- *)
Definition Pwf (x : expr) : Prop := wf x = true.
Lemma Pwf_wf : forall x, Pwf x -> wf x = true.
Proof. intros x H. exact H. Qed.

Theorem keyless_strict_weak_order :
  (forall a, wf a = true -> expr_keyless a a = false) /\
  (forall a b c, wf a = true -> wf b = true -> wf c = true ->
     expr_keyless a b = true -> expr_keyless b c = true -> expr_keyless a c = true) /\
  (forall a b, wf a = true -> wf b = true ->
     (expr_keyless a b = false /\ expr_keyless b a = false <-> expr_eqb a b = true)).
Proof.
  unfold expr_keyless. repeat split.
  - intros a Wa. apply (kl_irrefl Pwf Pwf_wf); auto.
  - intros a b c Wa Wb Wc. apply (kl_trans Pwf Pwf_wf expr_cmp_range cmp_antisym cmp_eq_iff cmp_FT); auto.
  - intros [A B]. apply (kl_total Pwf Pwf_wf expr_cmp_range cmp_antisym cmp_eq_iff cmp_FT); auto.
  - apply (kl_eq_false Pwf Pwf_wf); auto.
  - apply (kl_eq_false Pwf Pwf_wf); auto. apply expr_eqb_sym; auto.
Qed.

Theorem map_insert_order_independent :
  forall d1 d2 : list (expr * number),
    Permutation d1 d2 ->
    forallb (fun p => wf (fst p)) d1 = true -> pairwise_ne (map fst d1) = true ->
    map_of_umap expr_eqb expr_cmp d1 = map_of_umap expr_eqb expr_cmp d2.
Proof.
  intros d1 d2 PM K NE.
  assert (K1 : kok Pwf d1).
  { split; [|exact NE]. intros p Hp. eapply forallb_forall in K; [exact K | exact Hp]. }
  assert (K2 : kok Pwf d2) by (apply (kok_perm Pwf Pwf_wf d1 d2 PM K1)).
  apply (sortd_perm_eq Pwf Pwf_wf expr_cmp_range cmp_antisym cmp_eq_iff cmp_FT d1 d2 K1 K2 PM).
Qed.
