(* L2 -- the per-class __hash__ functions, transcribed (C01).
   Basic::hash() caches __hash__() in hash_ (0 = "not cached"); the value returned is
   always __hash__(), so the cache is not part of the model's value semantics. *)
From SE Require Export Expr.ExprDefs.
Local Open Scope N_scope.

(* Integer::__hash__ : ((hash_t) mp_get_ui(i)) * (hash_t) mp_sign(i)   (mod 2^64) *)
Definition hash_int (z : Z) : N :=
  match z with
  | Z0 => 0
  | Zpos _ => mp_get_ui z
  | Zneg _ => w64 (W64 - mp_get_ui z)
  end.

(* -0.0 is hashed as +0.0 (the classes' __eq__ uses ==) *)
Definition dbl_hash_bits (b : N) : N := if b =? 9223372036854775808 then 0 else b.

Definition hash_num (n : number) : N :=
  match n with
  | NInt z => hash_int z
  | NRat p q =>
      hash_combine (hash_combine TC_Rational (mp_get_si_w64 p)) (mp_get_si_w64 (Zpos q))
  | NCplx rn rd imn imd =>
      hash_combine (hash_combine (hash_combine (hash_combine TC_Complex
        (mp_get_si_w64 rn)) (mp_get_si_w64 (Zpos rd))) (mp_get_si_w64 imn)) (mp_get_si_w64 (Zpos imd))
  | NDbl b => hash_combine TC_RealDouble (dbl_hash_bits b)
  | NCDbl re im => hash_combine (hash_combine TC_ComplexDouble (dbl_hash_bits re)) (dbl_hash_bits im)
  | NInf dir => hash_combine TC_Infty (hash_int dir)
  | NNaN => TC_NaN
  end.

Fixpoint hash (e : expr) : N :=
  match e with
  | ENum n => hash_num n
  | ESym name => hash_string 0 name
  | EDummy name idx => hash_combine (hash_string 0 name) (w64 idx)
  | EConst name => hash_string TC_Constant name
  | EAdd coef d =>
      fold_left (fun seed p => N.lxor seed (hash_combine (hash (fst p)) (hash_num (snd p))))
                d (hash_combine TC_Add (hash_num coef))
  | EMul coef d =>
      fold_left (fun seed p => hash_combine (hash_combine seed (hash (fst p))) (hash (snd p)))
                d (hash_combine TC_Mul (hash_num coef))
  | EPow b x => hash_combine (hash_combine TC_Pow (hash b)) (hash x)
  | EF1 c a => hash_combine c (hash a)
  | EF2 c a b => hash_combine (hash_combine c (hash a)) (hash b)
  | EFN c args => fold_left (fun seed a => hash_combine seed (hash a)) args c
  | EFunSym name args =>
      hash_string (fold_left (fun seed a => hash_combine seed (hash a)) args TC_FunctionSymbol) name
  | ELex c a b => hash_combine (hash_combine c (hash a)) (hash b)
  | EDeriv a xs => fold_left (fun seed x => hash_combine seed (hash x)) xs (hash_combine TC_Derivative (hash a))
  | ESubs a d =>
      fold_left (fun seed p => hash_combine (hash_combine seed (hash (fst p))) (hash (snd p)))
                d (hash_combine TC_Subs (hash a))
  | EPw l =>
      fold_left (fun seed p => hash_combine (hash_combine seed (hash (fst p))) (hash (snd p)))
                l TC_Piecewise
  | EBool b => if b then TC_BooleanAtom + 1 else TC_BooleanAtom
  | EInterval s x lo ro =>
      hash_combine (hash_combine (hash_combine (hash_combine TC_Interval (hash s)) (hash x))
                                 (if lo then 1 else 0)) (if ro then 1 else 0)
  | EAtom c => c
  end.
