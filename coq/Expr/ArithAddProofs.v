(* add(a, b), add(vec), sub: what they compute on operands satisfying [add_operand_ok]
   (ArithGuards.v): the result is Add::from_dict of the merged linear forms, it satisfies the
   guard again (closure), it is canonical (C03), and it does not depend on operand order or
   grouping (C04). *)
From SE Require Export Expr.ArithDict.
From SE Require Import Num.NumSpec Num.NumQi Expr.CmpProofs.
From Coq Require Import QArith Lia Permutation Setoid Morphisms.
Local Open Scope Z_scope.

Definition delta (t k : expr) (c : number) : qi := if expr_eqb t k then qval c else qi_zero.

Lemma contrib_delta : forall k t c, contrib k (t, c) = delta t k c.
Proof. reflexivity. Qed.

Lemma qi_rearr_set : forall a b c d e, qi_eq (qi_add b c) e ->
  qi_eq (qi_add a (qi_add e d)) (qi_add (qi_add a (qi_add b d)) c).
Proof.
  intros [a1 a2] [b1 b2] [c1 c2] [d1 d2] [e1 e2] [H1 H2]. qi_unfold. split; [rewrite <- H1 | rewrite <- H2]; ring.
Qed.
Lemma qi_rearr_erase : forall a b c d, qi_eq (qi_add b c) qi_zero ->
  qi_eq (qi_add a d) (qi_add (qi_add a (qi_add b d)) c).
Proof.
  intros [a1 a2] [b1 b2] [c1 c2] [d1 d2] [H1 H2]. qi_unfold. split.
  - transitivity (a1 + d1 + (b1 + c1))%Q; [rewrite H1|]; ring.
  - transitivity (a2 + d2 + (b2 + c2))%Q; [rewrite H2|]; ring.
Qed.

Lemma qi_mul_add_r : forall v c x, qi_eq (qi_add (qi_mul v x) (qi_mul c x)) (qi_mul (qi_add v c) x).
Proof. intros [a b] [c d] [e f]. qi_unfold. split; ring. Qed.
Lemma qi_mul_zero_l : forall v x, qi_eq v qi_zero -> qi_eq (qi_mul v x) qi_zero.
Proof. intros [a b] [e f] [H1 H2]. qi_unfold. rewrite H1, H2. split; ring. Qed.

(* ---------- Add::dict_add_term ---------- *)
Definition keys_from (d' d : adict) (t : expr) : Prop :=
  forall p, In p d' -> (exists q, In q d /\ fst q = fst p) \/ fst p = t.

Lemma datm_spec : forall d c t, dinv d -> wf t = true -> xok c = true ->
  exists d', add_dict_add_term d c t = Ok d' /\ dinv d' /\
    (forall k, wf k = true -> qi_eq (coefsum d' k) (qi_add (coefsum d k) (delta t k c))) /\
    keys_from d' d t /\
    (forall phi, respects phi -> qi_eq (wsum phi d') (qi_add (wsum phi d) (qi_mul (qval c) (phi t)))).
Proof.
  intros d c t I Wt Xc. unfold add_dict_add_term.
  destruct (umap_find expr_eqb t d) as [v|] eqn:F.
  - destruct (find_split t d v Wt (dinv_wf _ I) F) as (d1 & k0 & d2 & -> & E0 & N & S & R).
    assert (Hin : In (k0, v) (d1 ++ (k0, v) :: d2)) by (apply in_or_app; right; left; reflexivity).
    destruct (dinv_val _ I _ Hin) as [Xv Zv]. cbn [snd] in Xv, Zv.
    assert (W0 : wf k0 = true) by (apply (dinv_wf _ I _ Hin)).
    rewrite (num_add_ok v c Xv Xc). cbn [bind].
    assert (SUM : forall k, wf k = true ->
              qi_eq (qi_add (contrib k (k0, v)) (delta t k c)) (contrib k (k0, xadd v c))).
    { intros k Wk. unfold contrib, delta. cbn [fst snd].
      rewrite <- (eqb_cong_wf k0 t k W0 Wt Wk E0).
      destruct (expr_eqb k0 k); [symmetry; now apply xadd_val | apply qi_add_0_l]. }
    destruct (num_is_zero (xadd v c)) eqn:Z.
    + exists (d1 ++ d2). rewrite R. split; [reflexivity|]. split; [eapply dinv_erase; exact I|]. split.
      * intros k Wk.
        assert (Q : qi_eq (contrib k (k0, xadd v c)) qi_zero).
        { unfold contrib. cbn [fst snd]. destruct (expr_eqb k0 k); [|reflexivity].
          apply is_zero_val; auto using xadd_xok. }
        etransitivity; [apply coefsum_app|].
        etransitivity; [|apply qi_add_proper; [symmetry; apply coefsum_app | reflexivity]].
        cbn [coefsum]. apply qi_rearr_erase. etransitivity; [apply (SUM k Wk) | exact Q].
      * split.
        { intros p Hp. left. exists p. split; [|reflexivity].
          apply in_app_or in Hp. apply in_or_app. cbn. tauto. }
        intros phi RP.
        etransitivity; [apply wsum_app|].
        etransitivity; [|apply qi_add_proper; [symmetry; apply wsum_app | reflexivity]].
        cbn [wsum fst snd]. apply qi_rearr_erase.
        etransitivity; [apply qi_add_proper; [reflexivity | apply qi_mul_proper; [reflexivity | symmetry; apply (RP k0 t W0 Wt E0)]]|].
        etransitivity; [apply qi_mul_add_r|]. apply qi_mul_zero_l.
        etransitivity; [symmetry; apply (xadd_val v c Xv Xc)|]. apply is_zero_val; auto using xadd_xok.
    + exists (d1 ++ (k0, xadd v c) :: d2). rewrite S. split; [reflexivity|].
      split; [eapply dinv_set; eauto using xadd_xok|]. split.
      * intros k Wk.
        etransitivity; [apply coefsum_app|].
        etransitivity; [|apply qi_add_proper; [symmetry; apply coefsum_app | reflexivity]].
        cbn [coefsum]. apply qi_rearr_set. apply (SUM k Wk).
      * split.
        { intros p Hp. left. apply in_app_or in Hp. destruct Hp as [Hp|[<-|Hp]].
          -- exists p. split; [apply in_or_app; left; exact Hp | reflexivity].
          -- exists (k0, v). split; [exact Hin | reflexivity].
          -- exists p. split; [apply in_or_app; right; right; exact Hp | reflexivity]. }
        intros phi RP.
        etransitivity; [apply wsum_app|].
        etransitivity; [|apply qi_add_proper; [symmetry; apply wsum_app | reflexivity]].
        cbn [wsum fst snd]. apply qi_rearr_set.
        etransitivity; [apply qi_add_proper; [reflexivity | apply qi_mul_proper; [reflexivity | symmetry; apply (RP k0 t W0 Wt E0)]]|].
        etransitivity; [apply qi_mul_add_r|]. apply qi_mul_proper; [|reflexivity].
        symmetry. apply (xadd_val v c Xv Xc).
  - pose proof (find_none_all t d Wt (dinv_wf _ I) F) as N.
    destruct (num_is_zero c) eqn:Z.
    + exists d. split; [reflexivity|]. split; [exact I|]. split.
      * intros k Wk. unfold delta. destruct (expr_eqb t k); [|symmetry; apply qi_add_0_r].
        apply (is_zero_val c Xc) in Z. unfold qi_is_zero in Z. rewrite Z. symmetry. apply qi_add_0_r.
      * split; [intros p Hp; left; exists p; auto|].
        intros phi RP. symmetry. etransitivity; [|apply qi_add_0_r].
        apply qi_add_proper; [reflexivity|]. apply qi_mul_zero_l. now apply (is_zero_val c Xc).
    + exists (d ++ [(t, c)]). split; [reflexivity|]. split; [apply dinv_snoc; auto|]. split.
      * intros k Wk. etransitivity; [apply coefsum_app|]. cbn [coefsum]. rewrite contrib_delta.
        apply qi_add_proper; [reflexivity | apply qi_add_0_r].
      * split; [intros p Hp; apply in_app_or in Hp; destruct Hp as [Hp|[<-|[]]]; [left; exists p; auto | right; reflexivity]|].
        intros phi RP. etransitivity; [apply wsum_app|]. cbn [wsum fst snd].
        apply qi_add_proper; [reflexivity | apply qi_add_0_r].
Qed.

(* the loop over the entries of another dictionary *)
Lemma datms_spec : forall l d, dinv d -> (forall p, In p l -> wf (fst p) = true /\ xok (snd p) = true) ->
  exists d', add_dict_add_terms d l = Ok d' /\ dinv d' /\
    (forall k, wf k = true -> qi_eq (coefsum d' k) (qi_add (coefsum d k) (coefsum l k))) /\
    (forall p, In p d' -> exists q, In q (d ++ l) /\ fst q = fst p) /\
    (forall phi, respects phi -> qi_eq (wsum phi d') (qi_add (wsum phi d) (wsum phi l))).
Proof.
  unfold add_dict_add_terms.
  induction l as [|[t c] l IH]; intros d I H; cbn [fold_res].
  - exists d. split; [reflexivity|]. split; [exact I|]. split.
    + intros k _. cbn [coefsum]. symmetry. apply qi_add_0_r.
    + split; [intros p Hp; exists p; rewrite app_nil_r; auto|].
      intros phi _. cbn [wsum]. symmetry. apply qi_add_0_r.
  - destruct (H (t, c) (or_introl eq_refl)) as [Wt Xc]. cbn [fst snd] in Wt, Xc.
    destruct (datm_spec d c t I Wt Xc) as (d1 & E1 & I1 & S1 & K1 & W1).
    cbn [fst snd]. rewrite E1. cbn [bind].
    destruct (IH d1 I1) as (d2 & E2 & I2 & S2 & K2 & W2); [intros p Hp; apply H; right; exact Hp|].
    exists d2. split; [exact E2|]. split; [exact I2|]. split; [|split].
    + intros k Wk. etransitivity; [apply (S2 k Wk)|].
      etransitivity; [apply qi_add_proper; [apply (S1 k Wk) | reflexivity]|].
      cbn [coefsum]. rewrite contrib_delta. symmetry. apply qi_add_assoc.
    + intros p Hp. destruct (K2 p Hp) as [q [Hq Eq]]. apply in_app_or in Hq. destruct Hq as [Hq|Hq].
      * destruct (K1 q Hq) as [[q' [Hq' Eq']]|Et].
        -- exists q'. split; [apply in_or_app; left; exact Hq' | congruence].
        -- exists (t, c). split; [apply in_or_app; right; left; reflexivity | cbn [fst]; congruence].
      * exists q. split; [apply in_or_app; right; right; exact Hq | exact Eq].
    + intros phi RP. etransitivity; [apply (W2 phi RP)|].
      etransitivity; [apply qi_add_proper; [apply (W1 phi RP) | reflexivity]|].
      cbn [wsum fst snd]. symmetry. apply qi_add_assoc.
Qed.

(* ---------- the boolean guard and the invariant ---------- *)
Lemma term_ok_wf : forall t, term_ok t = true -> wf t = true.
Proof. intros t H. unfold term_ok in H. apply andb_prop in H. destruct H as [H _]. apply andb_prop in H. apply H. Qed.
Lemma term_ok_canonical : forall t, term_ok t = true -> canonical t = true.
Proof. intros t H. unfold term_ok in H. apply andb_prop in H. destruct H as [H _]. apply andb_prop in H. apply H. Qed.
Lemma term_ok_not_num : forall t, term_ok t = true -> ctor_kind t <> 0%N.
Proof.
  intros t H. unfold term_ok in H. apply andb_prop in H. destruct H as [_ H].
  destruct t; cbn [ctor_kind]; try discriminate.
Qed.

Lemma entry_ok_inv : forall p, entry_ok p = true ->
  term_ok (fst p) = true /\ xok (snd p) = true /\ num_is_zero (snd p) = false.
Proof.
  intros p H. unfold entry_ok in H. apply andb_prop in H. destruct H as [H Z]. apply andb_prop in H.
  destruct H as [T X]. apply negb_true_iff in Z. auto.
Qed.

Lemma aok_dinv : forall d, adict_ok d = true -> dinv d.
Proof.
  intros d H. unfold adict_ok in H. apply andb_prop in H. destruct H as [F N]. rewrite forallb_forall in F.
  split; [| |exact N].
  - intros p Hp. apply term_ok_wf. apply (entry_ok_inv p (F p Hp)).
  - intros p Hp. destruct (entry_ok_inv p (F p Hp)) as (_ & X & Z). auto.
Qed.
Lemma aok_entry : forall d p, adict_ok d = true -> In p d -> entry_ok p = true.
Proof. intros d p H Hp. unfold adict_ok in H. apply andb_prop in H. destruct H as [F _]. rewrite forallb_forall in F. auto. Qed.

Lemma aok_intro : forall d, dinv d -> (forall p, In p d -> term_ok (fst p) = true) -> adict_ok d = true.
Proof.
  intros d [K V N] T. unfold adict_ok. rewrite N, andb_true_r. apply forallb_forall. intros p Hp.
  unfold entry_ok. rewrite (T p Hp). destruct (V p Hp) as [X Z]. rewrite X, Z. reflexivity.
Qed.

Lemma aok_nil : adict_ok [] = true. Proof. reflexivity. Qed.

(* a number is never eq to a non-number *)
Lemma eqb_num_l : forall n t, ctor_kind t <> 0%N -> expr_eqb (ENum n) t = false.
Proof.
  intros n t H. destruct (expr_eqb (ENum n) t) eqn:E; [|reflexivity].
  apply expr_eqb_kind in E. cbn [ctor_kind] in E. congruence.
Qed.
Lemma eqb_num_r : forall n t, ctor_kind t <> 0%N -> expr_eqb t (ENum n) = false.
Proof.
  intros n t H. destruct (expr_eqb t (ENum n)) eqn:E; [|reflexivity].
  apply expr_eqb_kind in E. cbn [ctor_kind] in E. congruence.
Qed.

(* ---------- Add::from_dict respects equality of dictionaries ---------- *)
Lemma eqb_EMul : forall c1 d1 c2 d2,
  expr_eqb (EMul c1 d1) (EMul c2 d2) = SE.Expr.Cmp.num_eqb c1 c2 && list_eqb expr_eqb (flat d1) (flat d2).
Proof. intros. rewrite expr_eqb_unfold. reflexivity. Qed.
Lemma eqb_EPow : forall b1 e1 b2 e2, expr_eqb (EPow b1 e1) (EPow b2 e2) = expr_eqb b1 b2 && expr_eqb e1 e2.
Proof. intros. rewrite expr_eqb_unfold. reflexivity. Qed.
Lemma eqb_EAdd : forall c1 d1 c2 d2,
  expr_eqb (EAdd c1 d1) (EAdd c2 d2) = SE.Expr.Cmp.num_eqb c1 c2 && umap_eqb expr_eqb d1 d2.
Proof. intros. rewrite expr_eqb_unfold. reflexivity. Qed.
Lemma eqb_ENum : forall a b, expr_eqb (ENum a) (ENum b) = SE.Expr.Cmp.num_eqb a b.
Proof. intros. rewrite expr_eqb_unfold. reflexivity. Qed.

Lemma eqb_one_one : expr_eqb e_one e_one = true.
Proof. reflexivity. Qed.

Lemma mul_from_dict_ge2 : forall c p1 p2 d, num_is_zero c = false ->
  mul_from_dict c (p1 :: p2 :: d) = EMul c (p1 :: p2 :: d).
Proof. intros c [k1 v1] p2 d Z. unfold mul_from_dict. rewrite Z. reflexivity. Qed.

Lemma single_term_mul_cong : forall v k k', xok v = true -> num_is_zero v = false ->
  term_ok k = true -> term_ok k' = true -> expr_eqb k k' = true ->
  expr_eqb (single_term_mul v k) (single_term_mul v k') = true.
Proof.
  intros v k k' Xv Zv Tk Tk' E.
  pose proof (expr_eqb_kind k k' E) as KK.
  pose proof (cmp_num_eqb_refl v Xv) as RV.
  unfold term_ok in Tk, Tk'. apply andb_prop in Tk, Tk'. destruct Tk as [_ Tk]. destruct Tk' as [_ Tk'].
  destruct k as [n1|nm1|nm1 i1|nm1|ac1 ad1|mc1 md1|pb1 pe1|fc1 fa1|fc1 fa1 fb1|fc1 fl1|nm1 fl1|fc1 fa1 fb1|fa1 fl1|fa1 fd1|fl1|bb1|is1 ie1 lo1 ro1|tc1]; try discriminate Tk;
  destruct k' as [n2|nm2|nm2 i2|nm2|ac2 ad2|mc2 md2|pb2 pe2|fc2 fa2|fc2 fa2 fb2|fc2 fl2|nm2 fl2|fc2 fa2 fb2|fa2 fl2|fa2 fd2|fl2|bb2|is2 ie2 lo2 ro2|tc2]; try discriminate Tk'; try discriminate KK;
    cbn [single_term_mul];
    try (rewrite eqb_EMul, RV; cbn [flat flat_map app list_eqb fst snd]; rewrite E, eqb_one_one; reflexivity).
  - (* Mul keys with coefficient 1 and >= 2 factors *)
    destruct mc1 as [[|[| |]|]| | | | | | ]; try discriminate Tk.
    destruct mc2 as [[|[| |]|]| | | | | | ]; try discriminate Tk'.
    rewrite eqb_EMul in E. apply andb_prop in E. destruct E as [_ E].
    destruct md1 as [|p1 [|p2 md1]]; try discriminate Tk. destruct md2 as [|q1 [|q2 md2]]; try discriminate Tk'.
    rewrite !mul_from_dict_ge2 by exact Zv.
    rewrite eqb_EMul, RV. exact E.
  - (* Pow keys *)
    rewrite eqb_EPow in E. rewrite eqb_EMul, RV. cbn [flat flat_map app list_eqb fst snd].
    apply andb_prop in E. destruct E as [E1 E2]. rewrite E1, E2. reflexivity.
Qed.

Lemma afd_cong : forall c d d', xok c = true -> adict_ok d = true -> adict_ok d' = true ->
  umap_eqb expr_eqb d d' = true -> expr_eqb (add_from_dict c d) (add_from_dict c d') = true.
Proof.
  intros c d d' Xc D D' U.
  pose proof (cmp_num_eqb_refl c Xc) as RC.
  assert (L : length d = length d').
  { unfold umap_eqb in U. apply andb_prop in U. destruct U as [U _]. now apply Nat.eqb_eq in U. }
  destruct d as [|[k v] [|p2 d]]; destruct d' as [|[k' v'] [|q2 d']]; try discriminate L; cbn [add_from_dict].
  - now rewrite eqb_ENum.
  - (* single entries *)
    unfold umap_eqb in U. cbn [length Nat.eqb forallb umap_find fst snd] in U.
    rewrite andb_true_r in U. cbn [andb] in U.
    destruct ((hash k' =? hash k)%N && expr_eqb k' k) eqn:M; [|discriminate U].
    apply andb_prop in M. destruct M as [_ M].
    destruct (entry_ok_inv _ (aok_entry _ (k, v) D (or_introl eq_refl))) as (Tk & Xv & Zv).
    destruct (entry_ok_inv _ (aok_entry _ (k', v') D' (or_introl eq_refl))) as (Tk' & Xv' & Zv').
    cbn [fst snd] in *.
    assert (v = v') by (apply cmp_num_eqb_eq; auto). subst v'.
    assert (E : expr_eqb k k' = true).
    { rewrite eqb_sym_wf by auto using term_ok_wf. exact M. }
    destruct (num_is_zero c).
    + destruct v as [z| | | | | | ]; try (apply single_term_mul_cong; assumption).
      destruct (z =? 0); [now rewrite eqb_ENum|]. destruct (z =? 1); [exact E|].
      apply single_term_mul_cong; assumption.
    + rewrite eqb_EAdd, RC. cbn [andb]. unfold umap_eqb. cbn [length Nat.eqb forallb umap_find fst snd].
      rewrite M. rewrite (hash_respects_eq k' k) by auto using term_ok_wf. rewrite N.eqb_refl. cbn [andb].
      rewrite (cmp_num_eqb_refl v Xv). reflexivity.
  - rewrite eqb_EAdd, RC. exact U.
Qed.

(* ---------- the linear form of a result of Add::from_dict ---------- *)
Lemma neq_one_of_not_one : forall v, xok v = true -> (forall z, v = NInt z -> z <> 1) -> num_neq_int v 1 = true.
Proof.
  intros v Xv H. unfold num_neq_int. apply negb_true_iff.
  destruct (SE.Expr.Cmp.num_eqb v (NInt 1)) eqn:E; [|reflexivity].
  apply cmp_num_eqb_eq in E; auto. exfalso. eapply H; eauto.
Qed.

Lemma eqb_e_one_false : forall e, wf e = true -> is_int_val e 1 = false -> expr_eqb e e_one = false.
Proof.
  intros e W H. destruct (expr_eqb e e_one) eqn:E; [|reflexivity].
  pose proof (expr_eqb_kind _ _ E) as K. destruct e; try discriminate K.
  unfold e_one, e_int in E. rewrite eqb_ENum in E.
  rewrite wf_num in W. destruct n; try discriminate E. cbn in E. apply Z.eqb_eq in E. subst. discriminate H.
Qed.

Lemma pow_exp_not_one : forall b e, canonical (EPow b e) = true -> is_int_val e 1 = false.
Proof.
  intros b e C. cbn [canonical node_canonical] in C. apply andb_prop in C. destruct C as [C _].
  unfold pow_node_canonical in C. destruct (is_int_val b 0).
  - destruct e; try reflexivity. discriminate C.
  - repeat (apply andb_prop in C; destruct C as [C ?]).
    destruct (is_int_val e 1); [discriminate|reflexivity].
Qed.

Lemma lin_single_term : forall v k, xok v = true -> num_is_zero v = false ->
  (forall z, v = NInt z -> z <> 1) -> term_ok k = true ->
  lin_of (single_term_mul v k) = (NInt 0, [(k, v)]).
Proof.
  intros v k Xv Zv N1 Tk.
  pose proof (neq_one_of_not_one v Xv N1) as NE.
  pose proof (term_ok_wf _ Tk) as Wk. pose proof (term_ok_canonical _ Tk) as Ck.
  unfold term_ok in Tk. apply andb_prop in Tk. destruct Tk as [_ Tk].
  destruct k as [n1|nm1|nm1 i1|nm1|ac1 ad1|mc1 md1|pb1 pe1|fc1 fa1|fc1 fa1 fb1|fc1 fl1|nm1 fl1|fc1 fa1 fb1|fa1 fl1|fa1 fd1|fl1|bb1|is1 ie1 lo1 ro1|tc1]; try discriminate Tk; cbn [single_term_mul];
    try (unfold lin_of, as_coef_term; rewrite NE; cbn [fst snd]; reflexivity).
  - (* Mul *)
    destruct mc1 as [[|[| |]|]| | | | | | ]; try discriminate Tk.
    destruct md1 as [|p1 [|p2 md1]]; try discriminate Tk.
    rewrite mul_from_dict_ge2 by exact Zv. unfold lin_of, as_coef_term. rewrite NE. cbn [fst snd].
    rewrite mul_from_dict_ge2 by reflexivity. reflexivity.
  - (* Pow *)
    unfold lin_of, as_coef_term. rewrite NE. cbn [fst snd]. f_equal. f_equal. f_equal.
    pose proof (pow_exp_not_one _ _ Ck) as P1.
    assert (We : wf pe1 = true) by (apply (children_wf (EPow pb1 pe1)); [exact Wk | cbn; auto]).
    unfold mul_from_dict. cbn [num_is_zero num_is_one Z.eqb]. rewrite (eqb_e_one_false pe1 We P1).
    destruct pe1 as [[z| | | | | | ]| | | | | | | | | | | | | | | | | ]; try reflexivity.
    cbn [is_int_val] in P1. rewrite P1. reflexivity.
Qed.

Theorem lin_of_afd : forall c d, xok c = true -> adict_ok d = true -> lin_of (add_from_dict c d) = (c, d).
Proof.
  intros c d Xc D. destruct d as [|[k v] [|p2 d]]; cbn [add_from_dict]; try reflexivity.
  destruct (entry_ok_inv _ (aok_entry _ (k, v) D (or_introl eq_refl))) as (Tk & Xv & Zv). cbn [fst snd] in *.
  destruct (num_is_zero c) eqn:Zc; [|reflexivity].
  rewrite (is_zero_eq c Xc Zc).
  assert (ATOM : lin_of k = (NInt 0, [(k, NInt 1)])).
  { pose proof (term_ok_not_num _ Tk) as NN. unfold term_ok in Tk. apply andb_prop in Tk. destruct Tk as [_ Tk].
    destruct k as [n1|nm1|nm1 i1|nm1|ac1 ad1|mc1 md1|pb1 pe1|fc1 fa1|fc1 fa1 fb1|fc1 fl1|nm1 fl1|fc1 fa1 fb1|fa1 fl1|fa1 fd1|fl1|bb1|is1 ie1 lo1 ro1|tc1]; try discriminate Tk; try reflexivity.
    destruct mc1 as [[|[| |]|]| | | | | | ]; try discriminate Tk. reflexivity. }
  destruct v as [z| | | | | | ]; try (apply lin_single_term; auto; intros; discriminate).
  destruct (z =? 0) eqn:Z0; [apply Z.eqb_eq in Z0; subst; discriminate Zv|].
  destruct (z =? 1) eqn:Z1; [apply Z.eqb_eq in Z1; subst; exact ATOM|].
  apply lin_single_term; auto. intros z' Q. injection Q as <-. now apply Z.eqb_neq.
Qed.

(* ---------- add(a, b) ---------- *)
Definition lconst (x : expr) : number := fst (lin_of x).
Definition lterms (x : expr) : adict := snd (lin_of x).

Lemma aok_inv : forall x, add_operand_ok x = true -> xok (lconst x) = true /\ adict_ok (lterms x) = true.
Proof. intros x H. unfold add_operand_ok, lin_ok in H. apply andb_prop in H. exact H. Qed.

Lemma aok_of : forall c d, xok c = true -> adict_ok d = true -> add_operand_ok (add_from_dict c d) = true.
Proof. intros c d X D. unfold add_operand_ok. rewrite lin_of_afd by assumption. unfold lin_ok. cbn [fst snd]. now rewrite X, D. Qed.

(* the shape of an operand that is not an Add *)
Inductive nonadd_shape (x : expr) : Prop :=
| NS_num : forall n, x = ENum n -> xok n = true -> nonadd_shape x
| NS_term : forall c t, as_coef_term x = (c, t) -> lin_of x = (NInt 0, [(t, c)]) ->
            term_ok t = true -> xok c = true -> num_is_zero c = false -> ctor_kind x <> 0%N ->
            (match x with ENum _ => False | _ => True end) -> nonadd_shape x.

Lemma lin_of_other : forall x, (match x with ENum _ | EAdd _ _ => False | _ => True end) ->
  lin_of x = (NInt 0, [(snd (as_coef_term x), fst (as_coef_term x))]).
Proof. intros x H. destruct x; try contradiction; reflexivity. Qed.

Lemma nonadd_cases : forall x, add_operand_ok x = true -> (match x with EAdd _ _ => False | _ => True end) ->
  nonadd_shape x.
Proof.
  intros x H NA. destruct (aok_inv x H) as [Xc D]. unfold lconst, lterms in *.
  assert (G : (match x with ENum _ | EAdd _ _ => False | _ => True end) -> nonadd_shape x).
  { intros O. pose proof (lin_of_other x O) as L. rewrite L in D. cbn [snd] in D.
    destruct (entry_ok_inv _ (aok_entry _ _ D (or_introl eq_refl))) as (T & X & Z). cbn [fst snd] in T, X, Z.
    apply (NS_term _ (fst (as_coef_term x)) (snd (as_coef_term x))); auto.
    - destruct (as_coef_term x); reflexivity.
    - destruct x; try contradiction; discriminate.
    - destruct x; try contradiction; exact I. }
  destruct x; try contradiction; try (apply G; exact I).
  apply (NS_num _ n); auto.
Qed.

Lemma find_one_none : forall d, (forall p, In p d -> ctor_kind (fst p) <> 0%N) -> umap_find expr_eqb e_one d = None.
Proof.
  induction d as [|[k v] d IH]; intros H; [reflexivity|]. cbn [umap_find].
  unfold e_one, e_int. rewrite (eqb_num_r (NInt 1) k) by (apply (H (k, v)); left; reflexivity).
  rewrite andb_false_r. apply IH. intros p Hp. apply H. right. exact Hp.
Qed.

Lemma dinv_single : forall t c, wf t = true -> xok c = true -> num_is_zero c = false -> dinv [(t, c)].
Proof.
  intros t c W X Z. split.
  - intros p [<-|[]]. exact W.
  - intros p [<-|[]]. auto.
  - reflexivity.
Qed.

Lemma coefsum_single : forall t c k, coefsum [(t, c)] k = qi_add (delta t k c) qi_zero.
Proof. reflexivity. Qed.

Lemma xadd_00 : xadd (NInt 0) (NInt 0) = NInt 0. Proof. reflexivity. Qed.

Lemma add_into_spec : forall ca da x, xok ca = true -> adict_ok da = true -> add_operand_ok x = true ->
  (match x with EAdd _ _ => False | _ => True end) ->
  exists d, add_into ca da x = Ok (add_from_dict (xadd ca (lconst x)) d) /\ adict_ok d = true /\
    (forall k, wf k = true -> qi_eq (coefsum d k) (qi_add (coefsum da k) (coefsum (lterms x) k))) /\
    (forall phi, respects phi -> qi_eq (wsum phi d) (qi_add (wsum phi da) (wsum phi (lterms x)))).
Proof.
  intros ca da x Xa Da Hx NA. destruct (nonadd_cases x Hx NA) as [n EQ Xn | c t CT LIN T Xc Zc NK NN].
  - subst x. unfold lconst, lterms. cbn [add_into lin_of fst snd coefsum].
    exists da. destruct (num_is_zero n) eqn:Z; cbn [negb].
    + rewrite (is_zero_eq n Xn Z), xadd_0_r by assumption. split; [reflexivity|]. split; [exact Da|].
      split; [intros k _ | intros phi _]; symmetry; apply qi_add_0_r.
    + rewrite (num_add_ok ca n Xa Xn). cbn [bind]. split; [reflexivity|]. split; [exact Da|].
      split; [intros k _ | intros phi _]; symmetry; apply qi_add_0_r.
  - unfold lconst, lterms. rewrite LIN. cbn [fst snd]. rewrite xadd_0_r by assumption.
    assert (AI : add_into ca da x = bind (add_dict_add_term da c t) (fun d => Ok (add_from_dict ca d))).
    { destruct x; try contradiction; cbn [add_into]; rewrite CT; reflexivity. }
    rewrite AI.
    destruct (datm_spec da c t (aok_dinv _ Da) (term_ok_wf _ T) Xc) as (d' & E & I' & S & KF & WS).
    rewrite E. cbn [bind]. exists d'. split; [reflexivity|]. split; [|split].
    + apply aok_intro; auto. intros p Hp. destruct (KF p Hp) as [[q [Hq <-]] | ->]; [|exact T].
      apply (entry_ok_inv _ (aok_entry _ q Da Hq)).
    + intros k Wk. etransitivity; [apply (S k Wk)|]. rewrite coefsum_single.
      apply qi_add_proper; [reflexivity | symmetry; apply qi_add_0_r].
    + intros phi RP. etransitivity; [apply (WS phi RP)|]. cbn [wsum fst snd].
      apply qi_add_proper; [reflexivity | symmetry; apply qi_add_0_r].
Qed.

Definition not_add (x : expr) : Prop := match x with EAdd _ _ => False | _ => True end.

Definition e_add_generic (a b : expr) : res expr :=
  let ct1 := as_coef_term a in
  bind (add_dict_add_term [] (fst ct1) (snd ct1)) (fun d1 =>
  let ct2 := as_coef_term b in
  bind (add_dict_add_term d1 (fst ct2) (snd ct2)) (fun d2 =>
  match umap_find expr_eqb e_one d2 with
  | None => Ok (add_from_dict (NInt 0) d2)
  | Some v => Ok (add_from_dict v (umap_erase e_one d2))
  end)).

Lemma e_add_nonadd : forall a b, not_add a -> not_add b -> e_add a b = e_add_generic a b.
Proof. intros a b Ha Hb. destruct a; try contradiction; destruct b; try contradiction; reflexivity. Qed.
Lemma e_add_add_l : forall ca da b, not_add b -> e_add (EAdd ca da) b = add_into ca da b.
Proof. intros ca da b Hb. destruct b; try contradiction; reflexivity. Qed.
Lemma e_add_add_r : forall a cb db, not_add a -> e_add a (EAdd cb db) = add_into cb db a.
Proof. intros a cb db Ha. destruct a; try contradiction; reflexivity. Qed.

Lemma datm_nil : forall c t, add_dict_add_term [] c t = Ok (if num_is_zero c then [] else [(t, c)]).
Proof. intros. unfold add_dict_add_term. cbn [umap_find]. destruct (num_is_zero c); reflexivity. Qed.

Lemma hash_eqb_refl : forall k, (hash k =? hash k)%N = true.
Proof. intros. apply N.eqb_refl. Qed.

Lemma aok_single : forall t c, term_ok t = true -> xok c = true -> num_is_zero c = false -> adict_ok [(t, c)] = true.
Proof. intros t c T X Z. unfold adict_ok, entry_ok. cbn [forallb map fst snd pairwise_ne]. now rewrite T, X, Z. Qed.

Lemma km_one : key_match e_one e_one = true.
Proof. reflexivity. Qed.
Lemma find_one_hd : forall v d, umap_find expr_eqb e_one ((e_one, v) :: d) = Some v.
Proof. intros. cbn [umap_find]. fold (key_match e_one e_one). now rewrite km_one. Qed.
Lemma erase_one_hd : forall v d, umap_erase e_one ((e_one, v) :: d) = d.
Proof. intros. cbn [umap_erase]. now rewrite km_one. Qed.
Lemma set_one_hd : forall v s d, umap_set e_one s ((e_one, v) :: d) = (e_one, s) :: d.
Proof. intros. cbn [umap_set]. now rewrite km_one. Qed.
Lemma km_one_t : forall t, ctor_kind t <> 0%N -> key_match e_one t = false.
Proof. intros t H. unfold key_match, e_one, e_int. rewrite eqb_num_r by assumption. apply andb_false_r. Qed.
Lemma km_t_one : forall t, ctor_kind t <> 0%N -> key_match t e_one = false.
Proof. intros t H. unfold key_match, e_one, e_int. rewrite eqb_num_l by assumption. apply andb_false_r. Qed.
Lemma find_one_skip : forall t v d, ctor_kind t <> 0%N ->
  umap_find expr_eqb e_one ((t, v) :: d) = umap_find expr_eqb e_one d.
Proof. intros. cbn [umap_find]. fold (key_match e_one t). now rewrite km_one_t. Qed.
Lemma erase_one_skip : forall t v d, ctor_kind t <> 0%N ->
  umap_erase e_one ((t, v) :: d) = (t, v) :: umap_erase e_one d.
Proof. intros. cbn [umap_erase]. now rewrite km_one_t. Qed.
Lemma find_t_skip_one : forall t v d, ctor_kind t <> 0%N ->
  umap_find expr_eqb t ((e_one, v) :: d) = umap_find expr_eqb t d.
Proof. intros. cbn [umap_find]. fold (key_match t e_one). now rewrite km_t_one. Qed.

Theorem e_add_spec : forall a b, add_operand_ok a = true -> add_operand_ok b = true ->
  exists d, e_add a b = Ok (add_from_dict (xadd (lconst a) (lconst b)) d) /\ adict_ok d = true /\
    (forall k, wf k = true -> qi_eq (coefsum d k) (qi_add (coefsum (lterms a) k) (coefsum (lterms b) k))) /\
    (forall phi, respects phi -> qi_eq (wsum phi d) (qi_add (wsum phi (lterms a)) (wsum phi (lterms b)))).
Proof.
  intros a b Ha Hb.
  destruct (aok_inv a Ha) as [Xa Da]. destruct (aok_inv b Hb) as [Xb Db].
  assert (CA : (exists ca da, a = EAdd ca da) \/ not_add a) by (destruct a; unfold not_add; eauto).
  assert (CB : (exists cb db, b = EAdd cb db) \/ not_add b) by (destruct b; unfold not_add; eauto).
  destruct CA as [(ca & da & ->)|NAa]; destruct CB as [(cb & db & ->)|NAb].
  - (* Add + Add *)
    unfold lconst, lterms in *. cbn [lin_of fst snd] in *. cbn [e_add].
    destruct (datms_spec db da (aok_dinv _ Da)) as (d' & E & I' & S & KF & WS).
    { intros p Hp. destruct (entry_ok_inv _ (aok_entry _ p Db Hp)) as (T & X & _). auto using term_ok_wf. }
    rewrite E. cbn [bind]. rewrite (num_add_ok ca cb Xa Xb). cbn [bind].
    exists d'. split; [reflexivity|]. split; [|split; [exact S | exact WS]].
    apply aok_intro; auto. intros p Hp. destruct (KF p Hp) as [q [Hq <-]].
    apply in_app_or in Hq. destruct Hq as [Hq|Hq]; [apply (entry_ok_inv _ (aok_entry _ q Da Hq)) | apply (entry_ok_inv _ (aok_entry _ q Db Hq))].
  - (* Add + other *)
    rewrite e_add_add_l by assumption.
    unfold lconst at 1, lterms at 1. cbn [lin_of fst snd]. unfold lconst, lterms in Xa, Da. cbn [lin_of fst snd] in Xa, Da.
    apply add_into_spec; auto.
  - (* other + Add *)
    rewrite e_add_add_r by assumption.
    unfold lconst at 2, lterms at 2. cbn [lin_of fst snd]. unfold lconst, lterms in Xb, Db. cbn [lin_of fst snd] in Xb, Db.
    destruct (add_into_spec cb db a Xb Db Ha NAa) as (d & E & D & S & WS).
    exists d. rewrite (xadd_comm (lconst a) cb) by assumption. split; [exact E|]. split; [exact D|]. split.
    + intros k Wk. etransitivity; [apply (S k Wk)|]. apply qi_add_comm.
    + intros phi RP. etransitivity; [apply (WS phi RP)|]. apply qi_add_comm.
  - (* neither is an Add *)
    rewrite e_add_nonadd by assumption. unfold e_add_generic.
    destruct (nonadd_cases a Ha NAa) as [n1 EQ1 Xn1 | c1 t1 CT1 LIN1 T1 Xc1 Zc1 NK1 NN1];
    destruct (nonadd_cases b Hb NAb) as [n2 EQ2 Xn2 | c2 t2 CT2 LIN2 T2 Xc2 Zc2 NK2 NN2].
    + (* number + number *)
      subst a b. unfold lconst, lterms. cbn [lin_of fst snd as_coef_term coefsum]. rewrite datm_nil. cbn [bind].
      exists []. split; [|split; [reflexivity | split; [intros k _ | intros phi _]; symmetry; apply qi_add_0_l]].
      destruct (num_is_zero n1) eqn:Z1.
      * rewrite datm_nil. cbn [bind]. rewrite (is_zero_eq n1 Xn1 Z1). rewrite xadd_0_l by assumption.
        destruct (num_is_zero n2) eqn:Z2.
        -- cbn [umap_find]. now rewrite (is_zero_eq n2 Xn2 Z2).
        -- rewrite find_one_hd, erase_one_hd. reflexivity.
      * unfold add_dict_add_term. rewrite find_one_hd.
        rewrite (num_add_ok n1 n2 Xn1 Xn2). cbn [bind]. rewrite erase_one_hd, set_one_hd.
        destruct (num_is_zero (xadd n1 n2)) eqn:Z; cbn [bind].
        -- cbn [umap_find]. now rewrite (is_zero_eq _ (xadd_xok n1 n2 Xn1 Xn2) Z).
        -- rewrite find_one_hd, erase_one_hd. reflexivity.
    + (* number + term *)
      subst a. unfold lconst, lterms. rewrite LIN2. cbn [lin_of fst snd as_coef_term]. rewrite CT2. cbn [fst snd].
      rewrite xadd_0_r by assumption. rewrite datm_nil. cbn [bind].
      exists [(t2, c2)]. split; [|split; [now apply aok_single | split; [intros k _ | intros phi _]; symmetry; apply qi_add_0_l]].
      pose proof (term_ok_not_num _ T2) as K2.
      destruct (num_is_zero n1) eqn:Z1.
      * rewrite datm_nil, Zc2. cbn [bind]. rewrite find_one_skip by assumption. cbn [umap_find].
        now rewrite (is_zero_eq n1 Xn1 Z1).
      * unfold add_dict_add_term. rewrite find_t_skip_one by assumption. cbn [umap_find]. rewrite Zc2.
        cbn [bind app]. rewrite find_one_hd, erase_one_hd. reflexivity.
    + (* term + number *)
      subst b. unfold lconst, lterms. rewrite LIN1. cbn [lin_of fst snd as_coef_term]. rewrite CT1. cbn [fst snd].
      rewrite xadd_0_l by assumption. rewrite datm_nil, Zc1. cbn [bind].
      exists [(t1, c1)]. split; [|split; [now apply aok_single | split; [intros k _ | intros phi _]; symmetry; apply qi_add_0_r]].
      pose proof (term_ok_not_num _ T1) as K1.
      unfold add_dict_add_term. rewrite find_one_skip by assumption. cbn [umap_find].
      destruct (num_is_zero n2) eqn:Z2.
      * cbn [bind]. rewrite find_one_skip by assumption. cbn [umap_find]. now rewrite (is_zero_eq n2 Xn2 Z2).
      * cbn [bind app]. rewrite find_one_skip by assumption. rewrite find_one_hd.
        rewrite erase_one_skip by assumption. rewrite erase_one_hd. reflexivity.
    + (* term + term *)
      unfold lconst, lterms. rewrite LIN1, LIN2, CT1, CT2. cbn [fst snd]. rewrite xadd_00.
      rewrite datm_nil, Zc1. cbn [bind].
      pose proof (dinv_single t1 c1 (term_ok_wf _ T1) Xc1 Zc1) as I1.
      destruct (datm_spec [(t1, c1)] c2 t2 I1 (term_ok_wf _ T2) Xc2) as (d2 & E & I2 & S & KF & WS).
      rewrite E. cbn [bind].
      assert (KT : forall p, In p d2 -> term_ok (fst p) = true).
      { intros p Hp. destruct (KF p Hp) as [[q [[<-|[]] <-]] | ->]; assumption. }
      rewrite find_one_none by (intros p Hp; apply term_ok_not_num; now apply KT).
      exists d2. split; [reflexivity|]. split; [now apply aok_intro|]. split.
      * intros k Wk. etransitivity; [apply (S k Wk)|]. rewrite !coefsum_single.
        apply qi_add_proper; [reflexivity | symmetry; apply qi_add_0_r].
      * intros phi RP. etransitivity; [apply (WS phi RP)|]. cbn [wsum fst snd].
        apply qi_add_proper; [reflexivity | symmetry; apply qi_add_0_r].
Qed.

(* ---------- closure, totality ---------- *)
Theorem add_total_closed : forall a b, add_operand_ok a = true -> add_operand_ok b = true ->
  exists r, e_add a b = Ok r /\ add_operand_ok r = true.
Proof.
  intros a b Ha Hb. destruct (e_add_spec a b Ha Hb) as (d & E & D & _ & _).
  eexists. split; [exact E|]. apply aok_of; auto.
  apply xadd_xok; [apply (aok_inv a Ha) | apply (aok_inv b Hb)].
Qed.

Theorem add_closed : forall a b r, add_operand_ok a = true -> add_operand_ok b = true ->
  e_add a b = Ok r -> add_operand_ok r = true.
Proof.
  intros a b r Ha Hb E. destruct (add_total_closed a b Ha Hb) as (r' & E' & C). congruence.
Qed.

(* ---------- canonical form and well-formedness of Add::from_dict ---------- *)
Lemma xok_canonical : forall n, xok n = true -> num_canonical n = true.
Proof.
  intros n H. apply andb_prop in H. destruct H as [E W].
  destruct n; try discriminate E; cbn [num_canonical NumModel.num_wf] in *; assumption.
Qed.

Lemma wf_intro : forall e, wf_struct e = true -> codes_ok e = true -> wf e = true.
Proof. intros e A B. unfold wf. now rewrite A, B. Qed.
Lemma wf_parts : forall e, wf e = true -> wf_struct e = true /\ codes_ok e = true.
Proof. intros e H. unfold wf in H. now apply andb_prop in H. Qed.

Lemma node_ok_Add : forall c d, node_ok (EAdd c d) = true. Proof. reflexivity. Qed.
Lemma node_ok_Mul : forall c d, node_ok (EMul c d) = true. Proof. reflexivity. Qed.

Lemma wf_EAdd_intro : forall c d, xok c = true -> dinv d -> wf (EAdd c d) = true.
Proof.
  intros c d Xc [K V N]. apply wf_intro.
  - cbn [wf_struct]. rewrite (xok_wf c Xc), N, andb_true_r. cbn [andb]. apply forallb_forall. intros p Hp.
    destruct (wf_parts _ (K p Hp)) as [A _]. rewrite A. cbn [andb]. apply xok_wf. apply (V p Hp).
  - cbn [codes_ok]. rewrite node_ok_Add. cbn [andb]. apply forallb_forall. intros p Hp.
    apply (wf_parts _ (K p Hp)).
Qed.

Lemma wf_EMul_coef : forall c v d, wf (EMul c d) = true -> xok v = true -> wf (EMul v d) = true.
Proof.
  intros c v d W Xv. destruct (wf_parts _ W) as [A B]. apply wf_intro.
  - cbn [wf_struct] in *. apply andb_prop in A. destruct A as [_ A]. now rewrite A, (xok_wf v Xv).
  - cbn [codes_ok] in *. exact B.
Qed.

Lemma wf_EMul_single : forall v b e, xok v = true -> wf b = true -> wf e = true -> wf (EMul v [(b, e)]) = true.
Proof.
  intros v b e Xv Wb We. destruct (wf_parts _ Wb) as [A1 B1]. destruct (wf_parts _ We) as [A2 B2]. apply wf_intro.
  - cbn [wf_struct forallb fst snd]. now rewrite (xok_wf v Xv), A1, A2.
  - cbn [codes_ok forallb fst snd]. now rewrite node_ok_Mul, B1, B2.
Qed.

Lemma wf_single_term_mul : forall v k, xok v = true -> term_ok k = true -> wf (single_term_mul v k) = true.
Proof.
  intros v k Xv T. pose proof (term_ok_wf _ T) as W.
  unfold term_ok in T. apply andb_prop in T. destruct T as [_ T].
  destruct k as [n1|nm1|nm1 i1|nm1|ac1 ad1|mc1 md1|pb1 pe1|fc1 fa1|fc1 fa1 fb1|fc1 fl1|nm1 fl1|fc1 fa1 fb1|fa1 fl1|fa1 fd1|fl1|bb1|is1 ie1 lo1 ro1|tc1];
    try discriminate T; cbn [single_term_mul];
    try (apply wf_EMul_single; auto; reflexivity).
  - destruct md1 as [|p1 [|p2 md1]]; try (destruct mc1 as [[|[| |]|]| | | | | | ]; discriminate T).
    destruct (num_is_zero v) eqn:Z.
    + unfold mul_from_dict. rewrite Z. now apply xok_wf_expr.
    + rewrite mul_from_dict_ge2 by assumption. eapply wf_EMul_coef; eauto.
  - apply wf_EMul_single; auto; apply (children_wf (EPow pb1 pe1)); auto; cbn; auto.
Qed.

Lemma wf_afd : forall c d, xok c = true -> adict_ok d = true -> wf (add_from_dict c d) = true.
Proof.
  intros c d Xc D. pose proof (aok_dinv _ D) as I.
  destruct d as [|[k v] [|p2 d]]; cbn [add_from_dict].
  - now apply xok_wf_expr.
  - destruct (entry_ok_inv _ (aok_entry _ (k, v) D (or_introl eq_refl))) as (T & Xv & Zv). cbn [fst snd] in *.
    destruct (num_is_zero c); [|now apply wf_EAdd_intro].
    destruct v as [z| | | | | | ]; try (now apply wf_single_term_mul).
    destruct (z =? 0); [now apply xok_wf_expr|]. destruct (z =? 1); [now apply term_ok_wf|].
    now apply wf_single_term_mul.
  - now apply wf_EAdd_intro.
Qed.

(* the deep canonical predicate *)
Lemma canonical_EMul_coef : forall v d, xok v = true -> num_is_zero v = false ->
  canonical (EMul (NInt 1) d) = true -> (2 <= length d)%nat -> canonical (EMul v d) = true.
Proof.
  intros v d Xv Zv C L. cbn [canonical node_canonical] in *. apply andb_prop in C. destruct C as [C1 C2].
  rewrite C2, andb_true_r. rewrite (xok_canonical v Xv). cbn [andb].
  unfold mul_node_canonical in *. rewrite Zv. cbn [negb andb].
  destruct d as [|p1 [|p2 d]]; cbn [length] in L; try lia.
  cbn [num_canonical num_is_zero Z.eqb negb andb] in C1. exact C1.
Qed.

Lemma not_one_is_one : forall v, xok v = true -> (forall z, v = NInt z -> z <> 1) -> num_is_one v = false.
Proof.
  intros v Xv H. destruct (num_is_one v) eqn:O; [|reflexivity].
  apply is_one_eq in O; auto. exfalso. eapply H; eauto.
Qed.

Lemma canonical_single_term_mul : forall v k, xok v = true -> num_is_zero v = false ->
  (forall z, v = NInt z -> z <> 1) -> term_ok k = true -> canonical (single_term_mul v k) = true.
Proof.
  intros v k Xv Zv N1 T. pose proof (term_ok_canonical _ T) as C. pose proof (not_one_is_one v Xv N1) as O.
  unfold term_ok in T. apply andb_prop in T. destruct T as [_ T].
  assert (ATOM : forall a, canonical a = true -> is_number a = false -> is_Mul a = false -> is_Pow a = false ->
             canonical (EMul v [(a, e_one)]) = true).
  { intros a Ca NA NM NP. cbn [canonical node_canonical forallb fst snd]. rewrite Ca, (xok_canonical v Xv).
    unfold mul_node_canonical. rewrite Zv, O. cbn [negb andb forallb]. unfold mul_entry_canonical. cbn [fst snd].
    unfold is_IntOrRat, is_int_val. destruct a; try discriminate NA; try discriminate NM; try discriminate NP; reflexivity. }
  destruct k as [n1|nm1|nm1 i1|nm1|ac1 ad1|mc1 md1|pb1 pe1|fc1 fa1|fc1 fa1 fb1|fc1 fl1|nm1 fl1|fc1 fa1 fb1|fa1 fl1|fa1 fd1|fl1|bb1|is1 ie1 lo1 ro1|tc1];
    try discriminate T; cbn [single_term_mul]; try (apply ATOM; auto; reflexivity).
  - destruct mc1 as [[|[| |]|]| | | | | | ]; try discriminate T.
    destruct md1 as [|p1 [|p2 md1]]; try discriminate T.
    rewrite mul_from_dict_ge2 by assumption. apply canonical_EMul_coef; auto. cbn [length]. lia.
  - cbn [canonical node_canonical] in C. apply andb_prop in C. destruct C as [_ C].
    cbn [canonical node_canonical forallb fst snd]. rewrite C, (xok_canonical v Xv).
    unfold mul_node_canonical. rewrite Zv, O. cbn [negb andb forallb]. now rewrite T.
Qed.

Theorem canonical_afd : forall c d, xok c = true -> adict_ok d = true -> canonical (add_from_dict c d) = true.
Proof.
  intros c d Xc D.
  assert (KEYS : forallb (fun p : expr * number => canonical (fst p)) d = true).
  { apply forallb_forall. intros p Hp. apply term_ok_canonical. apply (entry_ok_inv _ (aok_entry _ p D Hp)). }
  assert (ENT : forallb add_entry_canonical d = true).
  { apply forallb_forall. intros p Hp. destruct (entry_ok_inv _ (aok_entry _ p D Hp)) as (T & X & Z).
    unfold add_entry_canonical. rewrite Z. pose proof (term_ok_not_num _ T) as NN.
    unfold term_ok in T. apply andb_prop in T. destruct T as [_ T].
    destruct (fst p); try discriminate T; try reflexivity.
    destruct coef as [[|[| |]|]| | | | | | ]; try discriminate T. reflexivity. }
  assert (VALS : forallb (fun p : expr * number => num_canonical (snd p)) d = true).
  { apply forallb_forall. intros p Hp. apply xok_canonical. apply (entry_ok_inv _ (aok_entry _ p D Hp)). }
  assert (EADD : forall p q r, d = p :: q :: r \/ (d = [p] /\ num_is_zero c = false) -> canonical (EAdd c d) = true).
  { intros p q r Hd. cbn [canonical node_canonical]. rewrite KEYS, VALS, (xok_canonical c Xc). cbn [andb].
    rewrite andb_true_r. unfold add_node_canonical.
    destruct Hd as [->|[-> Z]]; [exact ENT | rewrite Z; exact ENT]. }
  destruct d as [|[k v] [|p2 d]]; cbn [add_from_dict].
  - cbn [canonical node_canonical]. rewrite (xok_canonical c Xc). reflexivity.
  - destruct (entry_ok_inv _ (aok_entry _ (k, v) D (or_introl eq_refl))) as (T & Xv & Zv). cbn [fst snd] in *.
    destruct (num_is_zero c) eqn:Zc; [|apply (EADD (k, v) (k, v) []); right; auto].
    destruct v as [z| | | | | | ]; try (apply canonical_single_term_mul; auto; intros; discriminate).
    destruct (z =? 0) eqn:Z0; [apply Z.eqb_eq in Z0; subst; discriminate Zv|].
    destruct (z =? 1) eqn:Z1; [now apply term_ok_canonical|].
    apply canonical_single_term_mul; auto. intros z' Q. injection Q as <-. now apply Z.eqb_neq.
  - apply (EADD (k, v) p2 d). left. reflexivity.
Qed.

Theorem add_canonical : forall a b r, add_operand_ok a = true -> add_operand_ok b = true ->
  e_add a b = Ok r -> canonical r = true /\ wf r = true.
Proof.
  intros a b r Ha Hb E. destruct (e_add_spec a b Ha Hb) as (d & E' & D & _ & _).
  assert (X : xok (xadd (lconst a) (lconst b)) = true).
  { apply xadd_xok; [apply (aok_inv a Ha) | apply (aok_inv b Hb)]. }
  rewrite E' in E. injection E as <-. split; [now apply canonical_afd | now apply wf_afd].
Qed.

(* ---------- uniqueness: operand order and grouping (C04) ---------- *)
Lemma afd_eq_of_sums : forall c d d', xok c = true -> adict_ok d = true -> adict_ok d' = true ->
  (forall k, wf k = true -> qi_eq (coefsum d k) (coefsum d' k)) ->
  expr_eqb (add_from_dict c d) (add_from_dict c d') = true.
Proof.
  intros c d d' Xc D D' H. apply afd_cong; auto. apply dinv_ext; auto using aok_dinv.
Qed.

Theorem add_comm : forall a b r1 r2, add_operand_ok a = true -> add_operand_ok b = true ->
  e_add a b = Ok r1 -> e_add b a = Ok r2 -> expr_eqb r1 r2 = true.
Proof.
  intros a b r1 r2 Ha Hb E1 E2.
  destruct (e_add_spec a b Ha Hb) as (d1 & F1 & D1 & S1 & _).
  destruct (e_add_spec b a Hb Ha) as (d2 & F2 & D2 & S2 & _).
  destruct (aok_inv a Ha) as [Xa _]. destruct (aok_inv b Hb) as [Xb _].
  rewrite F1 in E1. rewrite F2 in E2. injection E1 as <-. injection E2 as <-.
  rewrite (xadd_comm (lconst b) (lconst a)) by assumption.
  apply afd_eq_of_sums; auto using xadd_xok.
  intros k Wk. etransitivity; [apply (S1 k Wk)|]. etransitivity; [apply qi_add_comm|]. symmetry. apply (S2 k Wk).
Qed.

Lemma lconst_afd : forall c d, xok c = true -> adict_ok d = true -> lconst (add_from_dict c d) = c.
Proof. intros. unfold lconst. now rewrite lin_of_afd. Qed.
Lemma lterms_afd : forall c d, xok c = true -> adict_ok d = true -> lterms (add_from_dict c d) = d.
Proof. intros. unfold lterms. now rewrite lin_of_afd. Qed.

Theorem add_assoc : forall a b c ab bc r1 r2,
  add_operand_ok a = true -> add_operand_ok b = true -> add_operand_ok c = true ->
  e_add a b = Ok ab -> e_add ab c = Ok r1 -> e_add b c = Ok bc -> e_add a bc = Ok r2 ->
  expr_eqb r1 r2 = true.
Proof.
  intros a b c ab bc r1 r2 Ha Hb Hc Eab E1 Ebc E2.
  destruct (aok_inv a Ha) as [Xa _]. destruct (aok_inv b Hb) as [Xb _]. destruct (aok_inv c Hc) as [Xc _].
  destruct (e_add_spec a b Ha Hb) as (dab & Fab & Dab & Sab & _). rewrite Fab in Eab. injection Eab as <-.
  destruct (e_add_spec b c Hb Hc) as (dbc & Fbc & Dbc & Sbc & _). rewrite Fbc in Ebc. injection Ebc as <-.
  assert (Xab : xok (xadd (lconst a) (lconst b)) = true) by auto using xadd_xok.
  assert (Xbc : xok (xadd (lconst b) (lconst c)) = true) by auto using xadd_xok.
  assert (Hab : add_operand_ok (add_from_dict (xadd (lconst a) (lconst b)) dab) = true) by now apply aok_of.
  assert (Hbc : add_operand_ok (add_from_dict (xadd (lconst b) (lconst c)) dbc) = true) by now apply aok_of.
  destruct (e_add_spec _ c Hab Hc) as (d1 & F1 & D1 & S1 & _). rewrite F1 in E1. injection E1 as <-.
  destruct (e_add_spec a _ Ha Hbc) as (d2 & F2 & D2 & S2 & _). rewrite F2 in E2. injection E2 as <-.
  rewrite !lconst_afd in * by assumption. rewrite !lterms_afd in S1, S2 by assumption.
  rewrite <- xadd_assoc by assumption.
  apply afd_eq_of_sums; auto using xadd_xok.
  intros k Wk. etransitivity; [apply (S1 k Wk)|]. etransitivity; [|symmetry; apply (S2 k Wk)].
  etransitivity; [apply qi_add_proper; [apply (Sab k Wk) | reflexivity]|].
  etransitivity; [|apply qi_add_proper; [reflexivity | symmetry; apply (Sbc k Wk)]].
  symmetry. apply qi_add_assoc.
Qed.

(* ---------- the n-ary add ---------- *)
(* coefficient sums over a list of operands *)
Fixpoint lsum (l : list expr) (k : expr) : qi :=
  match l with [] => qi_zero | x :: r => qi_add (coefsum (lterms x) k) (lsum r k) end.
Fixpoint csum (l : list expr) : number :=
  match l with [] => NInt 0 | x :: r => xadd (lconst x) (csum r) end.

Lemma csum_xok : forall l, (forall x, In x l -> add_operand_ok x = true) -> xok (csum l) = true.
Proof.
  induction l as [|x l IH]; intros H; [reflexivity|]. cbn [csum]. apply xadd_xok.
  - apply (aok_inv x). apply H. left. reflexivity.
  - apply IH. intros y Hy. apply H. right. exact Hy.
Qed.

Lemma cdat_spec : forall coef d x, xok coef = true -> adict_ok d = true -> add_operand_ok x = true ->
  exists d', coef_dict_add_term coef d (NInt 1) x = Ok (xadd coef (lconst x), d') /\ adict_ok d' = true /\
    forall k, wf k = true -> qi_eq (coefsum d' k) (qi_add (coefsum d k) (coefsum (lterms x) k)).
Proof.
  intros coef d x Xc D Hx. destruct (aok_inv x Hx) as [Xx Dx].
  assert (CX : (exists cx dx, x = EAdd cx dx) \/ not_add x) by (destruct x; unfold not_add; eauto).
  destruct CX as [(cx & dx & ->)|NA].
  - unfold lconst, lterms in *. cbn [lin_of fst snd] in *. cbn [coef_dict_add_term num_is_one Z.eqb].
    destruct (datms_spec dx d (aok_dinv _ D)) as (d' & E & I' & S & KF & _).
    { intros p Hp. destruct (entry_ok_inv _ (aok_entry _ p Dx Hp)) as (T & X & _). auto using term_ok_wf. }
    rewrite E. cbn [bind]. rewrite (num_add_ok coef cx Xc Xx). cbn [bind].
    exists d'. split; [reflexivity|]. split; [|exact S].
    apply aok_intro; auto. intros p Hp. destruct (KF p Hp) as [q [Hq <-]].
    apply in_app_or in Hq. destruct Hq as [Hq|Hq]; [apply (entry_ok_inv _ (aok_entry _ q D Hq)) | apply (entry_ok_inv _ (aok_entry _ q Dx Hq))].
  - destruct (nonadd_cases x Hx NA) as [n EQ Xn | c t CT LIN T Xct Zc NK NN].
    + subst x. unfold lconst, lterms. cbn [lin_of fst snd coef_dict_add_term coefsum].
      rewrite (num_mul_ok (NInt 1) n (xok_int 1) Xn). cbn [bind]. rewrite xmul_1_l by assumption.
      rewrite (num_add_ok coef n Xc Xn). cbn [bind]. exists d. split; [reflexivity|]. split; [exact D|].
      intros k _. symmetry. apply qi_add_0_r.
    + unfold lconst, lterms. rewrite LIN. cbn [fst snd]. rewrite xadd_0_r by assumption.
      assert (CD : coef_dict_add_term coef d (NInt 1) x =
                   bind (num_mul (NInt 1) c) (fun m => bind (add_dict_add_term d m t) (fun d' => Ok (coef, d')))).
      { destruct x; try contradiction; cbn [coef_dict_add_term]; rewrite CT; reflexivity. }
      rewrite CD. rewrite (num_mul_ok (NInt 1) c (xok_int 1) Xct). cbn [bind]. rewrite xmul_1_l by assumption.
      destruct (datm_spec d c t (aok_dinv _ D) (term_ok_wf _ T) Xct) as (d' & E & I' & S & KF & _).
      rewrite E. cbn [bind]. exists d'. split; [reflexivity|]. split.
      * apply aok_intro; auto. intros p Hp. destruct (KF p Hp) as [[q [Hq <-]] | ->]; [|exact T].
        apply (entry_ok_inv _ (aok_entry _ q D Hq)).
      * intros k Wk. etransitivity; [apply (S k Wk)|]. rewrite coefsum_single.
        apply qi_add_proper; [reflexivity | symmetry; apply qi_add_0_r].
Qed.

Lemma addv_fold_spec : forall l coef d, xok coef = true -> adict_ok d = true ->
  (forall x, In x l -> add_operand_ok x = true) ->
  exists c' d', fold_res (fun st x => coef_dict_add_term (fst st) (snd st) (NInt 1) x) l (coef, d) = Ok (c', d') /\
    xok c' = true /\ adict_ok d' = true /\
    qi_eq (qval c') (qi_add (qval coef) (qval (csum l))) /\
    forall k, wf k = true -> qi_eq (coefsum d' k) (qi_add (coefsum d k) (lsum l k)).
Proof.
  induction l as [|x l IH]; intros coef d Xc D H; cbn [fold_res].
  - exists coef, d. split; [reflexivity|]. split; [exact Xc|]. split; [exact D|]. split.
    + cbn [csum]. rewrite qval_int. symmetry. apply qi_add_0_r.
    + intros k _. cbn [lsum]. symmetry. apply qi_add_0_r.
  - assert (Hx : add_operand_ok x = true) by (apply H; left; reflexivity).
    destruct (aok_inv x Hx) as [Xx _].
    destruct (cdat_spec coef d x Xc D Hx) as (d1 & E1 & D1 & S1). cbn [fst snd]. rewrite E1. cbn [bind].
    destruct (IH (xadd coef (lconst x)) d1) as (c' & d' & E & X' & D' & V & S); auto using xadd_xok.
    { intros y Hy. apply H. right. exact Hy. }
    exists c', d'. split; [exact E|]. split; [exact X'|]. split; [exact D'|]. split.
    + etransitivity; [exact V|]. cbn [csum].
      assert (Xr : xok (csum l) = true) by (apply csum_xok; intros y Hy; apply H; right; exact Hy).
      rewrite (xadd_val coef (lconst x)), (xadd_val (lconst x) (csum l)) by assumption.
      symmetry. apply qi_add_assoc.
    + intros k Wk. etransitivity; [apply (S k Wk)|]. cbn [lsum].
      etransitivity; [apply qi_add_proper; [apply (S1 k Wk) | reflexivity]|]. symmetry. apply qi_add_assoc.
Qed.

Theorem e_addv_spec : forall l, (forall x, In x l -> add_operand_ok x = true) ->
  exists d, e_addv l = Ok (add_from_dict (csum l) d) /\ adict_ok d = true /\
    forall k, wf k = true -> qi_eq (coefsum d k) (lsum l k).
Proof.
  intros l H. unfold e_addv.
  destruct (addv_fold_spec l (NInt 0) [] (xok_int 0) aok_nil H) as (c' & d' & E & X' & D' & V & S).
  unfold adict in *. rewrite E. cbn [bind fst snd]. exists d'.
  assert (c' = csum l).
  { apply qval_inj; auto using csum_xok. etransitivity; [exact V|]. rewrite qval_int. apply qi_add_0_l. }
  subst c'. split; [reflexivity|]. split; [exact D'|].
  intros k Wk. etransitivity; [apply (S k Wk)|]. cbn [coefsum]. apply qi_add_0_l.
Qed.

Lemma lsum_perm : forall l l' k, Permutation l l' -> qi_eq (lsum l k) (lsum l' k).
Proof.
  intros l l' k P. induction P; cbn [lsum].
  - reflexivity.
  - now apply qi_add_proper.
  - rewrite !qi_add_assoc. apply qi_add_proper; [apply qi_add_comm | reflexivity].
  - etransitivity; eassumption.
Qed.
Lemma csum_val : forall l, (forall x, In x l -> add_operand_ok x = true) ->
  qi_eq (qval (csum l)) (fold_right (fun x acc => qi_add (qval (lconst x)) acc) qi_zero l).
Proof.
  induction l as [|x l IH]; intros H; cbn [csum fold_right]; [reflexivity|].
  rewrite xadd_val.
  - apply qi_add_proper; [reflexivity|]. apply IH. intros y Hy. apply H. right. exact Hy.
  - apply (aok_inv x). apply H. left. reflexivity.
  - apply csum_xok. intros y Hy. apply H. right. exact Hy.
Qed.
Lemma csum_perm : forall l l', (forall x, In x l -> add_operand_ok x = true) -> Permutation l l' -> csum l = csum l'.
Proof.
  intros l l' H P.
  assert (H' : forall x, In x l' -> add_operand_ok x = true).
  { intros x Hx. apply H. eapply Permutation_in; [apply Permutation_sym; exact P | exact Hx]. }
  apply qval_inj; auto using csum_xok. rewrite (csum_val l H), (csum_val l' H').
  clear H H'. induction P; cbn [fold_right].
  - reflexivity.
  - now apply qi_add_proper.
  - rewrite !qi_add_assoc. apply qi_add_proper; [apply qi_add_comm | reflexivity].
  - etransitivity; eassumption.
Qed.

Theorem add_nary_perm : forall l l' r r', (forall x, In x l -> add_operand_ok x = true) ->
  Permutation l l' -> e_addv l = Ok r -> e_addv l' = Ok r' -> expr_eqb r r' = true.
Proof.
  intros l l' r r' H P E E'.
  assert (H' : forall x, In x l' -> add_operand_ok x = true).
  { intros x Hx. apply H. eapply Permutation_in; [apply Permutation_sym; exact P | exact Hx]. }
  destruct (e_addv_spec l H) as (d & F & D & S). destruct (e_addv_spec l' H') as (d' & F' & D' & S').
  rewrite F in E. rewrite F' in E'. injection E as <-. injection E' as <-.
  rewrite <- (csum_perm l l' H P).
  apply afd_eq_of_sums; auto using csum_xok.
  intros k Wk. etransitivity; [apply (S k Wk)|]. etransitivity; [apply lsum_perm; exact P|]. symmetry. apply (S' k Wk).
Qed.

(* n-ary add = nested binary add *)
Fixpoint add_fold (l : list expr) : res expr :=
  match l with
  | [] => Ok e_zero
  | x :: r => bind (add_fold r) (fun acc => e_add x acc)
  end.

Lemma aok_zero : add_operand_ok e_zero = true. Proof. reflexivity. Qed.

Lemma add_fold_spec : forall l, (forall x, In x l -> add_operand_ok x = true) ->
  exists d, add_fold l = Ok (add_from_dict (csum l) d) /\ adict_ok d = true /\
    forall k, wf k = true -> qi_eq (coefsum d k) (lsum l k).
Proof.
  induction l as [|x l IH]; intros H; cbn [add_fold csum lsum].
  - exists []. split; [reflexivity|]. split; [reflexivity|]. intros; reflexivity.
  - destruct IH as (d & E & D & S); [intros y Hy; apply H; right; exact Hy|].
    assert (Hx : add_operand_ok x = true) by (apply H; left; reflexivity).
    assert (Xr : xok (csum l) = true) by (apply csum_xok; intros y Hy; apply H; right; exact Hy).
    rewrite E. cbn [bind].
    destruct (e_add_spec x (add_from_dict (csum l) d) Hx (aok_of _ _ Xr D)) as (d' & E' & D' & S' & _).
    rewrite lconst_afd in E' by assumption. rewrite lterms_afd in S' by assumption.
    exists d'. split; [exact E'|]. split; [exact D'|].
    intros k Wk. etransitivity; [apply (S' k Wk)|]. apply qi_add_proper; [reflexivity | apply (S k Wk)].
Qed.

Theorem add_nary_binary : forall l r r', (forall x, In x l -> add_operand_ok x = true) ->
  e_addv l = Ok r -> add_fold l = Ok r' -> expr_eqb r r' = true.
Proof.
  intros l r r' H E E'.
  destruct (e_addv_spec l H) as (d & F & D & S). destruct (add_fold_spec l H) as (d' & F' & D' & S').
  rewrite F in E. rewrite F' in E'. injection E as <-. injection E' as <-.
  apply afd_eq_of_sums; auto using csum_xok.
  intros k Wk. etransitivity; [apply (S k Wk)|]. symmetry. apply (S' k Wk).
Qed.
