(* Extraction of the expression core (hash / eq / compare). *)
From SE Require Import Expr.IO.
Require Import ExtrOcamlBasic.
Extraction "semodel.ml" N_of_digits Z_of_digits digits_of_N tc_lookup pool_hashes pool_eq pool_cmp pool_wf wf
  hash expr_eqb expr_cmp expr_keyless.
