(* Boolean guards: the hypotheses under which the theorems about the arithmetic model are stated
   (C03 / C04 / C07).  Definitions only (model side): the checks evaluate them on implementation
   dumps to count how many explored inputs satisfy the hypotheses of the theorems. *)
From SE Require Export Expr.Canon Expr.Wf.
Local Open Scope Z_scope.

(* an exact number (Integer, Rational, Complex) in the normal form of its class *)
Definition xok (n : number) : bool := num_is_exact n && NumModel.num_wf n.

(* a legal key of an Add dictionary: well formed, canonical, not a Number, not an Add (a nested Add
   key is the non-uniqueness of DESIGN row 42), a Mul key has coefficient 1 and >= 2 factors, a Pow
   key is also legal as the single entry of a Mul *)
Definition term_ok (t : expr) : bool :=
  wf t && canonical t &&
  match t with
  | ENum _ | EAdd _ _ => false
  | EMul c d => match c with NInt 1 => (2 <=? length d)%nat | _ => false end
  | EPow b e => mul_entry_canonical (b, e)
  | _ => true
  end.

(* the linear form  const + sum coefficient * term  that add() reads off an operand *)
Definition lin_of (x : expr) : number * adict :=
  match x with
  | ENum n => (n, [])
  | EAdd c d => (c, d)
  | _ => let ct := as_coef_term x in (NInt 0, [(snd ct, fst ct)])
  end.

Definition entry_ok (p : expr * number) : bool :=
  term_ok (fst p) && xok (snd p) && negb (num_is_zero (snd p)).
Definition adict_ok (d : adict) : bool := forallb entry_ok d && pairwise_ne (map fst d).
Definition lin_ok (cd : number * adict) : bool := xok (fst cd) && adict_ok (snd cd).

(* operands of add / sub / addv covered by the theorems *)
Definition add_operand_ok (x : expr) : bool := lin_ok (lin_of x).

(* ---------- the power-product fragment of mul / pow / div ---------- *)
(* bases: anything that is not a Number, a Mul or a Pow (symbols, constants, function applications,
   sums), well formed and canonical *)
Definition is_atom (k : expr) : bool :=
  match k with ENum _ | EMul _ _ | EPow _ _ => false | _ => true end.
Definition atom_ok (k : expr) : bool := wf k && canonical k && is_atom k.
(* exponents: non-zero Integers and Rationals in normal form *)
Definition qexp_ok (n : number) : bool :=
  xok n && negb (num_is_zero n) && match n with NInt _ | NRat _ _ => true | _ => false end.
Definition mentry_ok (p : expr * expr) : bool :=
  atom_ok (fst p) && match snd p with ENum n => qexp_ok n | _ => false end.
Definition mentries_ok (d : mdict) : bool := forallb mentry_ok d.
Fixpoint msorted (d : mdict) : bool :=
  match d with
  | [] => true
  | p :: r => match r with [] => true | q :: _ => expr_keyless (fst p) (fst q) && msorted r end
  end.
Definition mdict_ok (d : mdict) : bool := mentries_ok d && msorted d.

(* operands of mul / div / integer pow covered by the theorems; [sorted] = also require the Mul
   dictionaries to be strictly sorted (needed for uniqueness, C04; not for C03 / C07) *)
Definition mul_operand_ok_gen (sorted : bool) (x : expr) : bool :=
  match x with
  | ENum n => xok n
  | EMul c d =>
      xok c && negb (num_is_zero c) && mentries_ok d && (if sorted then msorted d else true)
      && negb (match d with [] => true | _ => false end)
      && negb (num_is_one c && match d with [_] => true | _ => false end)
  | EPow b (ENum n) => atom_ok b && qexp_ok n && negb (num_is_one n)
  | EPow _ _ => false
  | _ => atom_ok x
  end.
Definition mul_operand_ok (x : expr) : bool := mul_operand_ok_gen false x.
Definition mul_operand_sorted (x : expr) : bool := mul_operand_ok_gen true x.
