(* RCPBasicKeyLess on a set of expressions where compare is a strict total order modulo eq, and
   its consequences for the sorted dictionaries used by Add::compare. *)
From SE Require Export Expr.CmpLists.
From Coq Require Import Lia ZifyBool ZifyNat ZifyN Permutation.
Local Open Scope Z_scope.

Notation kl := (keyless expr_eqb expr_cmp).

Section Keyless.
  Variable P : expr -> Prop.
  Hypothesis P_wf : forall x, P x -> wf x = true.
  Hypothesis HR : forall x y, in_range (expr_cmp x y).
  Hypothesis HA : forall x y, P x -> P y -> expr_cmp x y = - expr_cmp y x.
  Hypothesis HE : forall x y, P x -> P y -> (expr_cmp x y = 0 <-> expr_eqb x y = true).
  Hypothesis HT : forall x y z, P x -> P y -> P z -> FT expr_cmp x y z.

  Lemma Peq_refl : forall x, P x -> expr_eqb x x = true.
  Proof. intros. apply expr_eqb_refl; auto. Qed.
  Lemma Peq_sym : forall x y, P x -> P y -> expr_eqb x y = true -> expr_eqb y x = true.
  Proof. intros. apply expr_eqb_sym; auto. Qed.
  Lemma Peq_trans : forall x y z, P x -> P y -> P z ->
    expr_eqb x y = true -> expr_eqb y z = true -> expr_eqb x z = true.
  Proof. intros x y z ? ? ?. apply expr_eqb_trans; auto. Qed.
  Lemma Peq_hash : forall x y, P x -> P y -> expr_eqb x y = true -> hash x = hash y.
  Proof. intros. apply hash_respects_eq; auto. Qed.

  Lemma kl_eq_false : forall x y, P x -> P y -> expr_eqb x y = true -> kl x y = false.
  Proof.
    intros x y Px Py E. unfold keyless. rewrite (Peq_hash x y Px Py E), N.eqb_refl, E. reflexivity.
  Qed.

  Lemma kl_irrefl : forall x, P x -> kl x x = false.
  Proof. intros. apply kl_eq_false; auto. apply Peq_refl; auto. Qed.

  Lemma kl_total : forall x y, P x -> P y -> kl x y = false -> kl y x = false -> expr_eqb x y = true.
  Proof.
    intros x y Px Py. unfold keyless. rewrite (N.eqb_sym (hash y) (hash x)).
    pose proof (HA x y Px Py). pose proof (HE x y Px Py) as E. pose proof (HR x y) as R.
    unfold in_range in R.
    destruct (hash x =? hash y)%N eqn:Hh; cbn [negb].
    - destruct (expr_eqb x y) eqn:E1; [reflexivity|].
      destruct (expr_eqb y x) eqn:E2; [apply Peq_sym in E2; auto; congruence|].
      intros A B. exfalso. assert (expr_cmp x y = 0) by lia. apply E in H0. discriminate.
    - intros A B. exfalso. lia.
  Qed.

  Lemma kl_asym : forall x y, P x -> P y -> kl x y = true -> kl y x = false.
  Proof.
    intros x y Px Py. unfold keyless. rewrite (N.eqb_sym (hash y) (hash x)).
    pose proof (HA x y Px Py).
    destruct (hash x =? hash y)%N eqn:Hh; cbn [negb].
    - destruct (expr_eqb x y) eqn:E1; [discriminate|].
      destruct (expr_eqb y x) eqn:E2; [reflexivity|]. lia.
    - lia.
  Qed.

  Lemma kl_trans : forall x y z, P x -> P y -> P z -> kl x y = true -> kl y z = true -> kl x z = true.
  Proof.
    intros x y z Px Py Pz. unfold keyless.
    pose proof (HT x y z Px Py Pz) as [T1 _]. pose proof (HE x z Px Pz) as E.
    destruct (hash x =? hash y)%N eqn:H1; destruct (hash y =? hash z)%N eqn:H2;
      destruct (hash x =? hash z)%N eqn:H3; cbn [negb]; try lia.
    destruct (expr_eqb x y); [discriminate|]. destruct (expr_eqb y z); [discriminate|].
    intros A B. destruct (expr_eqb x z) eqn:E3.
    - exfalso. destruct E as [_ E]. specialize (E eq_refl). lia.
    - lia.
  Qed.

  Lemma kl_lt_E : forall x y z, P x -> P y -> P z ->
    kl x y = true -> expr_eqb y z = true -> kl x z = true.
  Proof.
    intros x y z Px Py Pz L E.
    destruct (kl x z) eqn:A; [reflexivity|]. exfalso.
    destruct (kl z x) eqn:B.
    - (* z < x < y and y ~ z *)
      pose proof (kl_trans z x y Pz Px Py B L) as C.
      rewrite (kl_eq_false z y) in C; auto; [discriminate|]. apply Peq_sym; auto.
    - pose proof (kl_total x z Px Pz A B) as E2.
      rewrite (kl_eq_false x y) in L; auto; [discriminate|].
      apply (Peq_trans x z y); auto. apply Peq_sym; auto.
  Qed.

  (* ----- dictionaries with keys in P ----- *)
  Definition dok := dict_ok P.
  (* the conditions on the keys only *)
  Definition kok (d : list (expr * number)) : Prop :=
    (forall p, In p d -> P (fst p)) /\ pairwise_ne (map fst d) = true.

  Lemma dok_kok : forall d, dok d -> kok d.
  Proof. intros d [K NE]. split; [intros p Hp; apply (K p Hp) | exact NE]. Qed.

  Lemma kok_tail : forall p d, kok (p :: d) -> kok d.
  Proof.
    intros p d [H1 H2]. split; [intros; apply H1; right; assumption|].
    cbn [map] in H2. apply pairwise_ne_cons in H2. apply H2.
  Qed.

  Lemma kok_unique : forall d p q, kok d -> In p d -> In q d ->
    expr_eqb (fst p) (fst q) = true -> p = q.
  Proof.
    induction d as [|e d IH]; intros p q OK Hp Hq E; [contradiction|].
    pose proof (kok_tail _ _ OK) as OK'. destruct OK as [K NE].
    cbn [map] in NE. apply pairwise_ne_cons in NE. destruct NE as [NE _].
    destruct Hp as [->|Hp]; destruct Hq as [->|Hq].
    - reflexivity.
    - rewrite (NE (fst q)) in E by (apply in_map; assumption). discriminate.
    - apply Peq_sym in E; [| apply K; right; assumption | apply K; left; reflexivity].
      rewrite (NE (fst p)) in E by (apply in_map; assumption). discriminate.
    - apply IH; assumption.
  Qed.

  Lemma kok_nodup : forall d, kok d -> NoDup d.
  Proof.
    induction d as [|p d IH]; intros OK; constructor.
    - intros Hin. pose proof (proj1 OK p (or_introl eq_refl)) as Pp.
      destruct OK as [_ NE]. cbn [map] in NE. apply pairwise_ne_cons in NE. destruct NE as [NE _].
      specialize (NE (fst p) (in_map fst d p Hin)). rewrite (Peq_refl (fst p) Pp) in NE. discriminate.
    - apply IH. eapply kok_tail; eassumption.
  Qed.

  Lemma kok_all_comparable : forall d, kok d -> all_comparable expr_eqb expr_cmp d.
  Proof.
    intros d OK. split; [apply kok_nodup; exact OK|].
    intros p q Hp Hq Npq. unfold comparable.
    pose proof (proj1 OK p Hp) as Pp. pose proof (proj1 OK q Hq) as Pq.
    destruct (kl (fst p) (fst q)) eqn:A; [left; reflexivity|].
    destruct (kl (fst q) (fst p)) eqn:B; [right; reflexivity|].
    exfalso. apply Npq. apply (kok_unique d); auto. apply kl_total; auto.
  Qed.

  Lemma pairwise_ne_cons_intro : forall x l,
    (forall y, In y l -> expr_eqb x y = false) -> pairwise_ne l = true -> pairwise_ne (x :: l) = true.
  Proof.
    intros x l H1 H2. cbn [pairwise_ne]. rewrite H2, andb_true_r. apply forallb_forall.
    intros y Hy. rewrite (H1 y Hy). reflexivity.
  Qed.

  Lemma pne_perm : forall l1 l2, Permutation l1 l2 -> (forall x, In x l1 -> P x) ->
    pairwise_ne l1 = true -> pairwise_ne l2 = true.
  Proof.
    induction 1; intros K NE.
    - reflexivity.
    - apply pairwise_ne_cons in NE. destruct NE as [NE1 NE2]. apply pairwise_ne_cons_intro.
      + intros y Hy. apply NE1. eapply Permutation_in; [apply Permutation_sym; eassumption | exact Hy].
      + apply IHPermutation; auto. intros; apply K; right; assumption.
    - apply pairwise_ne_cons in NE. destruct NE as [NEy NE]. apply pairwise_ne_cons in NE. destruct NE as [NEx NE].
      apply pairwise_ne_cons_intro; [|apply pairwise_ne_cons_intro; [|exact NE]].
      + intros z [<-|Hz]; [|apply NEx; exact Hz].
        destruct (expr_eqb x y) eqn:E; [|reflexivity].
        apply Peq_sym in E; [| apply K; right; left; reflexivity | apply K; left; reflexivity].
        rewrite (NEy x) in E by (left; reflexivity). discriminate.
      + intros z Hz. apply NEy. right. exact Hz.
    - apply IHPermutation2; [|apply IHPermutation1; assumption].
      intros x Hx. apply K. eapply Permutation_in; [apply Permutation_sym; eassumption | exact Hx].
  Qed.

  Lemma kok_perm : forall d1 d2, Permutation d1 d2 -> kok d1 -> kok d2.
  Proof.
    intros d1 d2 PM [K NE]. split.
    - intros p Hp. apply K. eapply Permutation_in; [apply Permutation_sym; exact PM | exact Hp].
    - apply (pne_perm (map fst d1) (map fst d2)); [apply Permutation_map; exact PM | | exact NE].
      intros x Hx. apply in_map_iff in Hx. destruct Hx as [p [<- Hp]]. apply K; exact Hp.
  Qed.

  Lemma kok_keysP : forall d, kok d -> keysP P d.
  Proof. intros d OK p Hp. apply (proj1 OK p Hp). Qed.

  Notation sortd := (map_of_umap expr_eqb expr_cmp).

  Lemma sortd_perm : forall d, kok d -> Permutation (sortd d) d.
  Proof. intros. apply map_of_umap_perm. apply kok_all_comparable. assumption. Qed.
  Lemma sortd_sorted : forall d, kok d -> ssorted expr_eqb expr_cmp (sortd d).
  Proof. intros. apply (map_of_umap_sorted expr_eqb expr_cmp P kl_trans). apply kok_keysP. assumption. Qed.
  Lemma sortd_keysP : forall d, kok d -> keysP P (sortd d).
  Proof.
    intros d OK p Hp. apply (kok_keysP d OK). eapply Permutation_in; [apply sortd_perm; exact OK | exact Hp].
  Qed.
  Lemma sortd_nwf : forall d, dok d -> nwf (sortd d).
  Proof.
    intros d OK p Hp. apply (proj1 OK p).
    eapply Permutation_in; [apply sortd_perm; apply dok_kok; exact OK | exact Hp].
  Qed.

  (* the sorted images of two dictionaries compare equal iff the dictionaries are eq *)
  Lemma sorted_eq_iff : forall d1 d2, dok d1 -> dok d2 -> length d1 = length d2 ->
    (numpairs_sized_cmp expr_cmp (sortd d1) (sortd d2) = 0 <-> umap_eqb expr_eqb d1 d2 = true).
  Proof.
    intros d1 d2 OK1 OK2 L.
    rewrite (numpairs_sized_cmp_eq_iff expr_cmp expr_eqb);
      [ | apply sortd_nwf; assumption | apply sortd_nwf; assumption
        | intros p q Hp Hq; apply HE; [apply (sortd_keysP d1 (dok_kok d1 OK1) p Hp) | apply (sortd_keysP d2 (dok_kok d2 OK2) q Hq)] ].
    rewrite (umap_eqb_spec P Peq_sym Peq_trans Peq_hash d1 d2 OK1 OK2).
    pose proof (dok_kok d1 OK1) as KK1. pose proof (dok_kok d2 OK2) as KK2.
    pose proof (sortd_perm d1 KK1) as PM1. pose proof (sortd_perm d2 KK2) as PM2.
    split.
    - intros F. split; [exact L|]. intros p Hp.
      assert (Hp' : In p (sortd d1)) by (eapply Permutation_in; [apply Permutation_sym; exact PM1 | exact Hp]).
      destruct (Forall2_in_l _ _ _ _ F Hp') as [q [Hq [E1 E2]]].
      exists q. split; [eapply Permutation_in; [exact PM2 | exact Hq]|].
      split; [|exact E2]. apply Peq_sym; auto; [apply (sortd_keysP d1 KK1 p Hp') | apply (sortd_keysP d2 KK2 q Hq)].
    - intros [_ H12].
      assert (H21 : forall q, In q d2 -> exists p, In p d1 /\ entry_rel q p).
      { assert (U : umap_eqb expr_eqb d1 d2 = true)
          by (apply (umap_eqb_spec P Peq_sym Peq_trans Peq_hash d1 d2 OK1 OK2); auto).
        apply (umap_eqb_sym P Peq_sym Peq_trans Peq_hash d1 d2 OK1 OK2) in U.
        apply (umap_eqb_spec P Peq_sym Peq_trans Peq_hash d2 d1 OK2 OK1) in U. apply U. }
      apply (sorted_match expr_eqb expr_cmp P kl_asym (entry_eq expr_eqb) (fun x y => expr_eqb x y = true)).
      + intros p q [E _]. exact E.
      + exact Peq_sym.
      + exact Peq_trans.
      + exact kl_eq_false.
      + exact kl_lt_E.
      + apply sortd_keysP; assumption.
      + apply sortd_keysP; assumption.
      + apply sortd_sorted; assumption.
      + apply sortd_sorted; assumption.
      + intros p Hp.
        assert (Hp' : In p d1) by (eapply Permutation_in; [exact PM1 | exact Hp]).
        destruct (H12 p Hp') as [q [Hq [E1 E2]]].
        exists q. split; [eapply Permutation_in; [apply Permutation_sym; exact PM2 | exact Hq]|].
        split; [|exact E2]. apply Peq_sym; auto; [apply (proj1 OK2 q Hq) | apply (proj1 OK1 p Hp')].
      + intros q Hq.
        assert (Hq' : In q d2) by (eapply Permutation_in; [exact PM2 | exact Hq]).
        destruct (H21 q Hq') as [p [Hp [E1 E2]]].
        exists p. split; [eapply Permutation_in; [apply Permutation_sym; exact PM1 | exact Hp]|].
        split; [exact E1|]. rewrite num_eqb_sym. exact E2.
  Qed.

  (* the ordered container does not depend on the insertion order *)
  Lemma sortd_perm_eq : forall d1 d2, kok d1 -> kok d2 -> Permutation d1 d2 -> sortd d1 = sortd d2.
  Proof.
    intros d1 d2 OK1 OK2 PM.
    apply (sorted_perm_unique expr_eqb expr_cmp P kl_asym).
    - apply sortd_keysP; assumption.
    - apply sortd_sorted; assumption.
    - apply sortd_sorted; assumption.
    - eapply perm_trans; [apply sortd_perm; exact OK1|].
      eapply perm_trans; [exact PM|]. apply Permutation_sym. apply sortd_perm; exact OK2.
  Qed.
End Keyless.
