(* C07 -- value preservation of pow(a, n) for an Integer n and of div on the rational-function
   fragment.  In the total semantics (1/0 = 0) the laws (x*y)^n = x^n * y^n and (x^a)^n = x^(a*n)
   hold unconditionally; only the merging of equal bases (x^a * x^b = x^(a+b)) needs definedness. *)
From SE Require Export Expr.DenoteMul Expr.ArithPowProofs.
From SE Require Import Num.NumSpec Num.NumQi Num.NumC05 Expr.CmpProofs.
From Coq Require Import QArith Lia Permutation Setoid Morphisms.
Local Open Scope Z_scope.

(* ---------- more integer-power laws in Q(i) ---------- *)
Lemma qi_zero_dec : forall x : qi, {qi_is_zero x} + {~ qi_is_zero x}.
Proof.
  intros [a b]. destruct (Qeq_dec a 0) as [A|A]; destruct (Qeq_dec b 0) as [B|B].
  - left. split; assumption.
  - right. intros [_ H]. contradiction.
  - right. intros [H _]. contradiction.
  - right. intros [H _]. contradiction.
Qed.

Lemma qi_inv_zero : forall x, qi_is_zero x -> qi_eq (qi_inv x) qi_zero.
Proof.
  intros [a b] [A B]. cbn [fst snd] in A, B. unfold qi_inv. qi_unfold.
  assert (N : (a * a + b * b == 0)%Q) by (rewrite A, B; ring).
  split; unfold Qdiv; rewrite N; change (/ 0)%Q with 0%Q; ring.
Qed.

Lemma qi_mul_zero_r' : forall x y, qi_is_zero y -> qi_is_zero (qi_mul x y).
Proof. intros [a b] [c d] [C D]. cbn [fst snd] in C, D. unfold qi_is_zero. qi_unfold. rewrite C, D. split; ring. Qed.
Lemma qi_mul_zero_l' : forall x y, qi_is_zero x -> qi_is_zero (qi_mul x y).
Proof. intros [a b] [c d] [A B]. cbn [fst snd] in A, B. unfold qi_is_zero. qi_unfold. rewrite A, B. split; ring. Qed.

Lemma qi_inv_mul_total : forall x y, qi_eq (qi_inv (qi_mul x y)) (qi_mul (qi_inv x) (qi_inv y)).
Proof.
  intros x y. destruct (qi_zero_dec x) as [X|X]; [|destruct (qi_zero_dec y) as [Y|Y]].
  - rewrite (qi_inv_zero _ (qi_mul_zero_l' x y X)). rewrite (qi_inv_zero x X). symmetry. apply qi_mul_0_l.
  - rewrite (qi_inv_zero _ (qi_mul_zero_r' x y Y)). rewrite (qi_inv_zero y Y).
    symmetry. rewrite qi_mul_comm. apply qi_mul_0_l.
  - now apply qi_inv_mul.
Qed.

Lemma powz_mul_base : forall x y n, qi_eq (qi_powz (qi_mul x y) n) (qi_mul (qi_powz x n) (qi_powz y n)).
Proof.
  intros x y [|p|p]; cbn [qi_powz].
  - symmetry. apply qi_mul_1_l.
  - apply qi_pow_nat_mul_base.
  - rewrite qi_pow_nat_mul_base. apply qi_inv_mul_total.
Qed.

Lemma pow_nat_one : forall k, qi_eq (qi_pow_nat qi_one k) qi_one.
Proof. induction k as [|k IH]; cbn [qi_pow_nat]; [reflexivity|]. rewrite IH. apply qi_mul_1_l. Qed.
Lemma powz_one : forall n, qi_eq (qi_powz qi_one n) qi_one.
Proof. intros [|p|p]; cbn [qi_powz]; [reflexivity | apply pow_nat_one |]. rewrite pow_nat_one. apply qi_inv_one. Qed.

Lemma pow_nat_zero : forall x k, qi_is_zero x -> (0 < k)%nat -> qi_is_zero (qi_pow_nat x k).
Proof. intros x [|k] X L; [lia|]. cbn [qi_pow_nat]. now apply qi_mul_zero_l'. Qed.

Lemma powz_zero_base : forall x n, qi_is_zero x -> n <> 0 -> qi_is_zero (qi_powz x n).
Proof.
  intros x [|p|p] X NZ; [contradiction| |]; cbn [qi_powz].
  - apply pow_nat_zero; [exact X | lia].
  - unfold qi_is_zero. apply qi_inv_zero. apply pow_nat_zero; [exact X | lia].
Qed.

Lemma powz_nz : forall x n, ~ qi_is_zero x -> ~ qi_is_zero (qi_powz x n).
Proof.
  intros x [|p|p] X; cbn [qi_powz].
  - intros [H _]. cbn in H. discriminate H.
  - now apply qi_pow_nat_nonzero.
  - intros H. pose proof (qi_pow_nat_nonzero x (Pos.to_nat p) X) as N.
    pose proof (qi_inv_l _ N) as I. unfold qi_is_zero in H. rewrite H in I. rewrite qi_mul_0_l in I.
    destruct I as [I _]. cbn in I. discriminate I.
Qed.

(* (x^a)^n = x^(a*n), for a non-zero base by induction on n; for a zero base both sides are 0 or 1 *)
Lemma powz_powz_nz : forall x a n, ~ qi_is_zero x -> qi_eq (qi_powz (qi_powz x a) n) (qi_powz x (a * n)).
Proof.
  intros x a n X. pose proof (powz_nz x a X) as XA. revert n. apply Z.peano_ind.
  - rewrite Z.mul_0_r. reflexivity.
  - intros n IH. replace (Z.succ n) with (n + 1) by lia. rewrite powz_succ by assumption.
    rewrite IH. replace (a * (n + 1)) with (a * n + a) by lia. symmetry. now apply powz_add_nz.
  - intros n IH. apply (qi_mul_cancel_r _ _ (qi_powz x a) XA).
    rewrite <- powz_succ by assumption. replace (Z.pred n + 1) with n by lia. rewrite IH.
    rewrite <- powz_add_nz by assumption. replace (a * Z.pred n + a) with (a * n) by lia. reflexivity.
Qed.

Lemma powz_powz : forall x a n, qi_eq (qi_powz (qi_powz x a) n) (qi_powz x (a * n)).
Proof.
  intros x a n. destruct (qi_zero_dec x) as [X|X]; [|now apply powz_powz_nz].
  destruct (Z.eq_dec a 0) as [->|A].
  - cbn [qi_powz Z.mul]. apply powz_one.
  - destruct (Z.eq_dec n 0) as [->|N]; [rewrite Z.mul_0_r; reflexivity|].
    pose proof (powz_zero_base x a X A) as ZA.
    pose proof (powz_zero_base _ n ZA N) as L. pose proof (powz_zero_base x (a * n) X ltac:(lia)) as R.
    unfold qi_is_zero in L, R. now rewrite L, R.
Qed.

Lemma powz_m1 : forall n, qi_eq (qi_powz (inject_Z (-1), 0%Q) n) (if Z.even n then qi_one else (inject_Z (-1), 0%Q)).
Proof.
  set (m := (inject_Z (-1), 0%Q) : qi).
  assert (NZ : ~ qi_is_zero m) by (intros [H _]; cbn in H; discriminate H).
  assert (MM : qi_eq (qi_mul m m) qi_one) by (unfold m; qi_unfold; split; reflexivity).
  apply Z.peano_ind.
  - reflexivity.
  - intros n IH. replace (Z.succ n) with (n + 1) by lia. rewrite powz_succ by assumption. rewrite IH.
    rewrite Z.add_1_r, Z.even_succ. rewrite <- Z.negb_even. destruct (Z.even n); cbn [negb]; [apply qi_mul_1_l | exact MM].
  - intros n IH. apply (qi_mul_cancel_r _ _ m NZ). rewrite <- powz_succ by assumption.
    replace (Z.pred n + 1) with n by lia. rewrite IH.
    rewrite Z.even_pred. rewrite <- Z.negb_even. destruct (Z.even n); cbn [negb]; [symmetry; exact MM | symmetry; apply qi_mul_1_l].
Qed.

Lemma rE_pow_num_val : forall f c n, xok c = true -> npow_ok c n = true -> n <> 0 ->
  exists r, rE (arith (S f)) (CPow (ENum c) (ENum (NInt n))) = Ok (ENum r) /\ xok r = true /\
            qi_eq (qval r) (qi_powz (qval c) n).
Proof.
  intros f c n Xc H NZ. unfold rE. rewrite arith_S. cbn [step]. unfold step_pow. cbv zeta.
  cbn [num_is_zero]. rewrite (proj2 (Z.eqb_neq n 0) NZ).
  unfold e_one, e_zero, e_minus_one, e_int. rewrite eqb_int_lit.
  destruct (n =? 1) eqn:N1.
  { cbn [bind]. exists c. apply Z.eqb_eq in N1. subst n. split; [reflexivity|]. split; [exact Xc|]. symmetry. apply qi_powz_1. }
  rewrite !eqb_ENum.
  destruct (SE.Expr.Cmp.num_eqb c (NInt 0)) eqn:C0.
  - apply cmp_num_eqb_eq in C0; auto. subst c.
    cbn [num_is_positive num_is_negative]. destruct (0 <? n) eqn:P.
    + cbn [bind]. exists (NInt 0). split; [reflexivity|]. split; [reflexivity|]. rewrite !qval_int. symmetry.
      apply (powz_zero_base (inject_Z 0, 0%Q) n); [split; reflexivity | exact NZ].
    + exfalso. unfold npow_ok in H. apply andb_prop in H. destruct H as [_ H].
      cbn [num_is_zero Z.eqb negb] in H. rewrite orb_false_r in H. apply Z.leb_le in H.
      assert (0 < n) by lia. apply Z.ltb_lt in H0. congruence.
  - destruct (SE.Expr.Cmp.num_eqb c (NInt (-1))) eqn:C1.
    + apply cmp_num_eqb_eq in C1; auto. subst c. cbn [bind]. rewrite qval_int.
      pose proof (powz_m1 n) as M. destruct (Z.even n); [exists (NInt 1) | exists (NInt (-1))];
        (split; [reflexivity|]; split; [reflexivity|]; rewrite qval_int; symmetry; exact M).
    + destruct (xpow_spec c n Xc H) as (E & Xr & V). rewrite E. cbn [bind]. eauto.
Qed.

Section PowSound.
  Variable rho : list N -> qi.
  Variable rhoc : list N -> qi.
  Notation den := (denote rho rhoc).
  Notation wp := (wprod rho rhoc).
  Notation ddfn := (ddfn rho rhoc).

  (* the value of the exponent-scaled dictionary *)
  Lemma wp_pow_entries : forall d n, mentries_ok d = true -> ddfn d = true ->
    qi_eq (wp (pow_entries d n)) (qi_powz (wp d) n).
  Proof.
    induction d as [|[k v] d IH]; intros n D DD.
    - unfold pow_entries, wprod. cbn [map fold_right]. symmetry. apply powz_one.
    - cbn [mentries_ok forallb] in D. apply andb_prop in D. destruct D as [E D].
      unfold DenoteMul.ddfn in DD. cbn [forallb fst snd] in DD. apply andb_prop in DD. destruct DD as [PK DD].
      destruct (pow_dfn_int _ _ PK) as (z & -> & _).
      unfold pow_entries. cbn [map fst snd num_of]. rewrite !wp_cons. cbn [fst snd qpow]. fold (pow_entries d n).
      rewrite powz_mul_base. rewrite (IH n D DD). change (xmul (NInt z) (NInt n)) with (NInt (z * n)). cbn [qpow].
      apply qi_mul_proper; [symmetry; apply powz_powz | reflexivity].
  Qed.

  Definition pow_dfn_ok (a : expr) (n : Z) : bool := ddfn (pow_entries (mterms a) n).

  Theorem pow_int_sound : forall fuel a n r, pow_operand_ok a n = true ->
    mul_dfn rho rhoc a = true -> pow_dfn_ok a n = true ->
    e_pow fuel a (ENum (NInt n)) = Ok r ->
    qi_eq (den r) (qi_powz (den a) n) /\ mul_dfn rho rhoc r = true.
  Proof.
    intros fuel a n r H Da Dn E.
    assert (SPEC : exists r', e_pow (S (S (S (S fuel)))) a (ENum (NInt n)) = Ok r' /\
                     qi_eq (den r') (qi_powz (den a) n) /\ mul_dfn rho rhoc r' = true).
    { clear E r. unfold pow_operand_ok in H. apply andb_prop in H. destruct H as [Ha Hn]. unfold e_pow.
      destruct (Z.eq_dec n 0) as [->|NZ].
      { exists (ENum (NInt 1)). split; [|split; [reflexivity | reflexivity]]. unfold rE. rewrite arith_S. cbn [step]. unfold step_pow. reflexivity. }
      destruct (Z.eq_dec n 1) as [->|N1].
      { exists a. split; [|split; [symmetry; apply qi_powz_1 | exact Da]]. unfold rE. rewrite arith_S. cbn [step]. unfold step_pow. cbv zeta. cbn [num_is_zero Z.eqb].
        replace (expr_eqb (ENum (NInt 1)) e_one) with true by reflexivity. reflexivity. }
      assert (SHAPE : (exists c, a = ENum c) \/ (exists c d, a = EMul c d) \/ (exists b q, a = EPow b (ENum q)) \/ atom_ok a = true).
      { unfold mul_operand_ok in Ha. destruct a; cbn [mul_operand_ok_gen] in Ha; eauto 6.
        destruct a2; try discriminate Ha. eauto 6. }
      destruct SHAPE as [(c & ->)|[(c & d & ->)|[(b & q & ->)|T]]].
      - unfold mul_operand_ok in Ha. cbn [mul_operand_ok_gen] in Ha.
        destruct (rE_pow_num_val (S (S (S fuel))) c n Ha Hn NZ) as (r & E & Xr & V). exists (ENum r). split; [exact E|].
        split; [exact V | reflexivity].
      - destruct (mul_operand_ok_terms _ _ Ha) as [Xc D]. unfold mconst, mterms in Xc, D. cbn [mlin fst snd] in Xc, D.
        unfold mul_dfn, mterms in Da. cbn [mlin snd] in Da. unfold pow_dfn_ok, mterms in Dn. cbn [mlin snd] in Dn.
        destruct (rE_pow_num_val (S fuel) c n Xc Hn NZ) as (r & E & Xr & V).
        assert (PN : step_power_num (arith (S (S fuel))) c d (NInt 1) [] (NInt n) = Ok (r, dmerge [] (pow_entries d n))).
        { unfold step_power_num. cbn [num_is_zero]. rewrite (proj2 (Z.eqb_neq n 0) NZ). rewrite E. cbn [bind].
          rewrite power_num_loop by (auto; reflexivity). cbn [bind fst snd].
          rewrite (num_mul_ok (NInt 1) r (xok_int 1) Xr). cbn [bind]. now rewrite xmul_1_l. }
        pose proof (pow_entries_ok d n D NZ) as PE.
        destruct (dmerge_value rho rhoc (pow_entries d n) [] eq_refl PE eq_refl Dn) as [V2 D2].
        exists (mul_from_dict r (dmerge [] (pow_entries d n))).
        split; [|split].
        + unfold rE. rewrite arith_S. cbn [step]. unfold step_pow. cbv zeta. cbn [num_is_zero]. rewrite (proj2 (Z.eqb_neq n 0) NZ).
          unfold e_one, e_zero, e_minus_one, e_int. rewrite eqb_int_lit, (proj2 (Z.eqb_neq n 1) N1).
          rewrite !(eqb_num_r _ (EMul c d)) by discriminate.
          unfold rS. rewrite arith_S. cbn [step]. rewrite PN. reflexivity.
        + rewrite den_mfd by assumption. rewrite V2, V. rewrite (wp_pow_entries d n D Da).
          rewrite denote_EMul'. rewrite powz_mul_base. apply qi_mul_proper; [|reflexivity].
          unfold wprod at 1. cbn [fold_right]. apply qi_mul_1_l.
        + unfold mul_dfn. apply mfd_dfn; auto. apply dmerge_entries; auto.
      - unfold mul_operand_ok in Ha. cbn [mul_operand_ok_gen] in Ha.
        apply andb_prop in Ha. destruct Ha as [Ha O]. apply andb_prop in Ha. destruct Ha as [T Q].
        pose proof (xmul_exp q n Q NZ) as Q'.
        unfold mul_dfn, mterms in Da. cbn [mlin snd] in Da. unfold DenoteMul.ddfn in Da. cbn [forallb fst snd] in Da. rewrite andb_true_r in Da.
        destruct (pow_dfn_int _ _ Da) as (z & Ez & _). injection Ez as ->.
        unfold pow_dfn_ok, mterms, pow_entries in Dn. cbn [mlin snd map fst num_of] in Dn.
        exists (if SE.Expr.Cmp.num_eqb (xmul (NInt z) (NInt n)) (NInt 1) then b else EPow b (ENum (xmul (NInt z) (NInt n)))).
        split; [|split].
        + unfold rE at 1. rewrite arith_S. cbn [step]. unfold step_pow. cbv zeta. cbn [num_is_zero]. rewrite (proj2 (Z.eqb_neq n 0) NZ).
          unfold e_one, e_zero, e_minus_one, e_int. rewrite eqb_int_lit, (proj2 (Z.eqb_neq n 1) N1).
          rewrite !(eqb_num_r _ (EPow b (ENum (NInt z)))) by discriminate.
          cbn [is_Integer]. rewrite rE_mul_num_S by auto using xok_int. cbn [bind].
          unfold rE. rewrite arith_S. cbn [step]. rewrite step_pow_atom by assumption. reflexivity.
        + change (xmul (NInt z) (NInt n)) with (NInt (z * n)). cbn [denote qpow SE.Expr.Cmp.num_eqb].
          destruct (z * n =? 1) eqn:ZN.
          * apply Z.eqb_eq in ZN. rewrite powz_powz, ZN. symmetry. apply qi_powz_1.
          * cbn [denote qpow]. symmetry. apply powz_powz.
        + change (xmul (NInt z) (NInt n)) with (NInt (z * n)) in *. cbn [SE.Expr.Cmp.num_eqb].
          destruct (z * n =? 1); [unfold mul_dfn; rewrite (mterms_atom b T); reflexivity | exact Dn].
      - pose proof (qexp_int n NZ) as Q.
        exists (if SE.Expr.Cmp.num_eqb (NInt n) (NInt 1) then a else EPow a (ENum (NInt n))).
        cbn [SE.Expr.Cmp.num_eqb]. rewrite (proj2 (Z.eqb_neq n 1) N1).
        split; [|split].
        + unfold rE. rewrite arith_S. cbn [step]. rewrite step_pow_atom by assumption.
          cbn [SE.Expr.Cmp.num_eqb]. now rewrite (proj2 (Z.eqb_neq n 1) N1).
        + reflexivity.
        + unfold pow_dfn_ok in Dn. rewrite (mterms_atom a T) in Dn. unfold pow_entries in Dn. cbn [map fst snd num_of e_one e_int] in Dn.
          change (xmul (NInt 1) (NInt n)) with (NInt (1 * n)) in Dn. rewrite Z.mul_1_l in Dn. exact Dn. }
    destruct SPEC as (r' & E' & V & D').
    pose proof (le_ok _ _ _ r (e_pow_mono fuel (S (S (S (S fuel)))) a (ENum (NInt n)) ltac:(lia)) E) as E2.
    rewrite E' in E2. injection E2 as ->. auto.
  Qed.
End PowSound.

Lemma powz_m1_exp : forall x, qi_eq (qi_powz x (-1)) (qi_inv x).
Proof. intros x. cbn [qi_powz]. change (Pos.to_nat 1) with 1%nat. cbn [qi_pow_nat]. apply qi_inv_proper. apply qi_mul_1_r. Qed.

Theorem div_sound : forall (rho rhoc : list N -> qi) fuel a b r,
  mul_operand_ok a = true -> pow_operand_ok b (-1) = true ->
  mul_dfn rho rhoc a = true -> mul_dfn rho rhoc b = true -> pow_dfn_ok rho rhoc b (-1) = true ->
  e_div fuel a b = Ok r ->
  qi_eq (denote rho rhoc r) (qi_mul (denote rho rhoc a) (qi_inv (denote rho rhoc b))) /\ mul_dfn rho rhoc r = true.
Proof.
  intros rho rhoc fuel a b r Ha Hb Da Db Dp E. unfold e_div in E.
  assert (NZ : is_number_and_zero b = false).
  { unfold pow_operand_ok in Hb. apply andb_prop in Hb. destruct Hb as [_ Hb].
    destruct b; try reflexivity. cbn [is_number_and_zero]. unfold npow_ok in Hb. apply andb_prop in Hb. destruct Hb as [_ Hb].
    cbn [Z.leb orb] in Hb. destruct (num_is_zero n); [discriminate Hb | reflexivity]. }
  rewrite NZ in E. destruct (e_pow fuel b e_minus_one) as [p| | |] eqn:P; try discriminate E. cbn [bind] in E.
  destruct (pow_int_sound rho rhoc fuel b (-1) p Hb Db Dp P) as [Vp Dpp].
  destruct (pow_int_canonical fuel b (-1) p Hb P) as (Hp & _ & _).
  destruct (mul_sound rho rhoc fuel a p r Ha Hp Da Dpp E) as [V D]. split; [|exact D].
  rewrite V, Vp. apply qi_mul_proper; [reflexivity | apply powz_m1_exp].
Qed.
