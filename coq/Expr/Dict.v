(* Reasoning about Add's unordered dictionary: [umap_find] / [umap_eqb] when eq is an equivalence
   on the keys that respects the hash, and the keys of each dictionary are pairwise not eq. *)
From SE Require Export Expr.Unfold.
From Coq Require Import Lia ZifyBool ZifyNat ZifyN Permutation.
Local Open Scope N_scope.

(* ---------- XOR folds ---------- *)
Lemma xor_fold_perm : forall {A} (f : A -> N) d1 d2, Permutation d1 d2 ->
  forall s, fold_left (fun seed p => N.lxor seed (f p)) d1 s =
            fold_left (fun seed p => N.lxor seed (f p)) d2 s.
Proof.
  induction 1; intros s; cbn [fold_left].
  - reflexivity.
  - apply IHPermutation.
  - f_equal. rewrite !N.lxor_assoc. f_equal. apply N.lxor_comm.
  - rewrite IHPermutation1. apply IHPermutation2.
Qed.

Lemma xor_fold_forall2 : forall {A} (f : A -> N) d1 d2, Forall2 (fun p q => f p = f q) d1 d2 ->
  forall s, fold_left (fun seed p => N.lxor seed (f p)) d1 s =
            fold_left (fun seed p => N.lxor seed (f p)) d2 s.
Proof. induction 1; intros s; cbn [fold_left]; [reflexivity|]. rewrite H. apply IHForall2. Qed.

Lemma Forall2_in_r : forall {A B} (R : A -> B -> Prop) l1 l2 y,
  Forall2 R l1 l2 -> In y l2 -> exists x, In x l1 /\ R x y.
Proof.
  induction 1; cbn; intros Hy; [contradiction|].
  destruct Hy as [<-|Hy]; [exists x; auto|]. destruct (IHForall2 Hy) as [x' [? ?]]. exists x'; auto.
Qed.
Lemma Forall2_in_l : forall {A B} (R : A -> B -> Prop) l1 l2 x,
  Forall2 R l1 l2 -> In x l1 -> exists y, In y l2 /\ R x y.
Proof.
  induction 1; cbn; intros Hx; [contradiction|].
  destruct Hx as [<-|Hx]; [exists y; auto|]. destruct (IHForall2 Hx) as [y' [? ?]]. exists y'; auto.
Qed.
Lemma Forall2_length' : forall {A B} (R : A -> B -> Prop) l1 l2, Forall2 R l1 l2 -> length l1 = length l2.
Proof. induction 1; cbn; congruence. Qed.

(* ---------- generic facts about umap_find ---------- *)
Lemma find_some_in : forall r k d v, umap_find r k d = Some v ->
  exists k', In (k', v) d /\ hash k' = hash k /\ r k' k = true.
Proof.
  induction d as [|[k0 v0] d IH]; cbn [umap_find]; intros v H; [discriminate|].
  destruct ((hash k0 =? hash k) && r k0 k) eqn:T.
  - inversion H; subst. apply andb_prop in T. destruct T as [T1 T2]. apply N.eqb_eq in T1.
    exists k0. cbn. auto.
  - destruct (IH v H) as [k' [? ?]]. exists k'. cbn. tauto.
Qed.

Lemma pairwise_ne_cons : forall x l, pairwise_ne (x :: l) = true ->
  (forall y, In y l -> expr_eqb x y = false) /\ pairwise_ne l = true.
Proof.
  intros x l H. cbn [pairwise_ne] in H. apply andb_prop in H. destruct H as [H1 H2]. split; [|exact H2].
  intros y Hy. eapply forallb_forall in H1; [|exact Hy]. destruct (expr_eqb x y); [discriminate|reflexivity].
Qed.

Definition entry_rel (p q : expr * number) : Prop :=
  expr_eqb (fst q) (fst p) = true /\ num_eqb (snd p) (snd q) = true.

Section Dict.
  Variable P : expr -> Prop.
  Hypothesis Prefl : forall x, P x -> expr_eqb x x = true.
  Hypothesis Psym : forall x y, P x -> P y -> expr_eqb x y = true -> expr_eqb y x = true.
  Hypothesis Ptrans : forall x y z, P x -> P y -> P z ->
    expr_eqb x y = true -> expr_eqb y z = true -> expr_eqb x z = true.
  Hypothesis Phash : forall x y, P x -> P y -> expr_eqb x y = true -> hash x = hash y.

  Definition dict_ok (d : list (expr * number)) : Prop :=
    (forall p, In p d -> P (fst p) /\ num_wf (snd p) = true) /\ pairwise_ne (map fst d) = true.

  Lemma dict_ok_tail : forall p d, dict_ok (p :: d) -> dict_ok d.
  Proof.
    intros p d [H1 H2]. split; [intros; apply H1; right; assumption|].
    cbn [map] in H2. apply pairwise_ne_cons in H2. apply H2.
  Qed.

  (* two entries with eq keys are the same entry *)
  Lemma dict_unique : forall d p q, dict_ok d -> In p d -> In q d ->
    expr_eqb (fst p) (fst q) = true -> p = q.
  Proof.
    induction d as [|e d IH]; intros p q OK Hp Hq E; [contradiction|].
    pose proof (dict_ok_tail _ _ OK) as OK'. destruct OK as [K NE].
    cbn [map] in NE. apply pairwise_ne_cons in NE. destruct NE as [NE _].
    destruct Hp as [->|Hp]; destruct Hq as [->|Hq].
    - reflexivity.
    - rewrite (NE (fst q)) in E by (apply in_map; assumption). discriminate.
    - apply Psym in E; [| apply K; right; assumption | apply K; left; reflexivity].
      rewrite (NE (fst p)) in E by (apply in_map; assumption). discriminate.
    - apply IH; assumption.
  Qed.

  Lemma find_in : forall d k k' v, dict_ok d -> P k -> In (k', v) d -> expr_eqb k' k = true ->
    umap_find expr_eqb k d = Some v.
  Proof.
    induction d as [|[k0 v0] d IH]; intros k k' v OK Pk Hin E; [contradiction|].
    cbn [umap_find].
    assert (Pk' : P k') by (apply (proj1 OK (k', v)); assumption).
    assert (Pk0 : P k0) by (apply (proj1 OK (k0, v0)); left; reflexivity).
    destruct ((hash k0 =? hash k) && expr_eqb k0 k) eqn:T.
    - apply andb_prop in T. destruct T as [_ T].
      assert (E2 : expr_eqb k0 k' = true).
      { apply (Ptrans k0 k k'); auto. }
      assert (Q : (k0, v0) = (k', v)).
      { apply (dict_unique ((k0, v0) :: d)); auto. left; reflexivity. }
      inversion Q; subst. reflexivity.
    - destruct Hin as [Q|Hin].
      + inversion Q; subst. rewrite E, (Phash k' k) in T by auto. rewrite N.eqb_refl in T. discriminate.
      + apply (IH k k' v); auto. eapply dict_ok_tail; eassumption.
  Qed.

  Lemma umap_eqb_spec : forall d1 d2, dict_ok d1 -> dict_ok d2 ->
    (umap_eqb expr_eqb d1 d2 = true <->
     length d1 = length d2 /\ forall p, In p d1 -> exists q, In q d2 /\ entry_rel p q).
  Proof.
    intros d1 d2 OK1 OK2. unfold umap_eqb. rewrite andb_true_iff, Nat.eqb_eq, forallb_forall.
    split; intros [L H]; (split; [exact L|]); intros p Hp.
    - specialize (H p Hp). destruct (umap_find expr_eqb (fst p) d2) as [v|] eqn:F; [|discriminate].
      apply find_some_in in F. destruct F as [k' [Hin [_ E]]].
      exists (k', v). unfold entry_rel. cbn [fst snd]. auto.
    - destruct (H p Hp) as [[k' v] [Hq [E1 E2]]]. cbn [fst snd] in *.
      rewrite (find_in d2 (fst p) k' v); auto. apply (proj1 OK1 p Hp).
  Qed.

  (* the entries of d1 can be matched injectively with entries of d2 *)
  Lemma matching : forall l1 l2, dict_ok l1 -> (forall q, In q l2 -> P (fst q)) ->
    (forall p, In p l1 -> exists q, In q l2 /\ entry_rel p q) ->
    exists l2' rest, Permutation l2 (l2' ++ rest) /\ Forall2 entry_rel l1 l2'.
  Proof.
    induction l1 as [|x t IH]; intros l2 OK K2 H.
    - exists [], l2. split; [apply Permutation_refl | constructor].
    - destruct (H x (or_introl eq_refl)) as [y [Hy Rxy]].
      apply in_split in Hy. destruct Hy as [a [b ->]].
      pose proof (dict_ok_tail _ _ OK) as OK'. destruct OK as [K NE].
      cbn [map] in NE. apply pairwise_ne_cons in NE. destruct NE as [NE _].
      destruct (IH (a ++ b) OK') as [l2'' [rest [Pm F]]].
      + intros q Hq. apply K2. apply in_app_or in Hq. apply in_or_app. cbn. tauto.
      + intros p Hp. destruct (H p (or_intror Hp)) as [q [Hq Rpq]]. exists q. split; [|exact Rpq].
        apply in_app_or in Hq. apply in_or_app. destruct Hq as [Hq|[Hq|Hq]]; auto.
        exfalso. subst q. destruct Rxy as [E1 _]. destruct Rpq as [E2 _].
        assert (Py : P (fst y)) by (apply K2; apply in_or_app; cbn; auto).
        assert (Px : P (fst x)) by (apply K; left; reflexivity).
        assert (Pp : P (fst p)) by (apply K; right; assumption).
        assert (E : expr_eqb (fst x) (fst p) = true).
        { apply (Ptrans (fst x) (fst y) (fst p)); auto. }
        rewrite (NE (fst p)) in E by (apply in_map; assumption). discriminate.
      + exists (y :: l2''), rest. split; [|constructor; assumption].
        cbn [app]. apply Permutation_sym. apply Permutation_cons_app. apply Permutation_sym. exact Pm.
  Qed.

  Lemma umap_eqb_matching : forall d1 d2, dict_ok d1 -> dict_ok d2 ->
    umap_eqb expr_eqb d1 d2 = true ->
    exists l2', Permutation d2 l2' /\ Forall2 entry_rel d1 l2'.
  Proof.
    intros d1 d2 OK1 OK2 H. apply umap_eqb_spec in H; auto. destruct H as [L H].
    destruct (matching d1 d2 OK1) as [l2' [rest [Pm F]]]; auto.
    { intros q Hq. apply (proj1 OK2 q Hq). }
    exists l2'. split; [|exact F].
    assert (rest = []).
    { pose proof (Permutation_length Pm) as PL. pose proof (Forall2_length' _ _ _ F) as FL.
      rewrite app_length in PL. destruct rest; [reflexivity | cbn in PL; lia]. }
    subst. rewrite app_nil_r in Pm. exact Pm.
  Qed.

  Lemma umap_eqb_refl : forall d, dict_ok d -> umap_eqb expr_eqb d d = true.
  Proof.
    intros d OK. apply umap_eqb_spec; auto. split; [reflexivity|].
    intros p Hp. exists p. split; [exact Hp|]. destruct (proj1 OK p Hp) as [Pp Wp].
    split; [apply Prefl; exact Pp | apply num_eqb_refl; exact Wp].
  Qed.

  Lemma umap_eqb_sym : forall d1 d2, dict_ok d1 -> dict_ok d2 ->
    umap_eqb expr_eqb d1 d2 = true -> umap_eqb expr_eqb d2 d1 = true.
  Proof.
    intros d1 d2 OK1 OK2 H.
    destruct (umap_eqb_matching d1 d2 OK1 OK2 H) as [l2' [Pm F]].
    apply umap_eqb_spec in H; auto. destruct H as [L _].
    apply umap_eqb_spec; auto. split; [symmetry; exact L|].
    intros q Hq. assert (Hq' : In q l2') by (eapply Permutation_in; eassumption).
    destruct (Forall2_in_r _ _ _ _ F Hq') as [p [Hp [E1 E2]]].
    exists p. split; [exact Hp|]. split.
    - apply Psym; auto; [apply (proj1 OK2 q Hq) | apply (proj1 OK1 p Hp)].
    - rewrite num_eqb_sym. exact E2.
  Qed.

  Lemma umap_eqb_trans : forall d1 d2 d3, dict_ok d1 -> dict_ok d2 -> dict_ok d3 ->
    umap_eqb expr_eqb d1 d2 = true -> umap_eqb expr_eqb d2 d3 = true ->
    umap_eqb expr_eqb d1 d3 = true.
  Proof.
    intros d1 d2 d3 OK1 OK2 OK3 H12 H23.
    apply umap_eqb_spec in H12; auto. apply umap_eqb_spec in H23; auto. apply umap_eqb_spec; auto.
    destruct H12 as [L12 H12]. destruct H23 as [L23 H23]. split; [congruence|].
    intros p Hp. destruct (H12 p Hp) as [q [Hq [E1 E2]]]. destruct (H23 q Hq) as [r [Hr [E3 E4]]].
    exists r. split; [exact Hr|].
    destruct (proj1 OK1 p Hp), (proj1 OK2 q Hq), (proj1 OK3 r Hr).
    split; [apply (Ptrans (fst r) (fst q) (fst p)); auto | apply (num_eqb_trans (snd p) (snd q) (snd r)); auto].
  Qed.

  Lemma umap_eqb_hash : forall d1 d2, dict_ok d1 -> dict_ok d2 ->
    umap_eqb expr_eqb d1 d2 = true -> forall s,
    fold_left (fun seed p => N.lxor seed (hash_combine (hash (fst p)) (hash_num (snd p)))) d1 s =
    fold_left (fun seed p => N.lxor seed (hash_combine (hash (fst p)) (hash_num (snd p)))) d2 s.
  Proof.
    intros d1 d2 OK1 OK2 H s.
    destruct (umap_eqb_matching d1 d2 OK1 OK2 H) as [l2' [Pm F]].
    rewrite (xor_fold_perm _ d2 l2' Pm).
    apply (xor_fold_forall2 (fun p => hash_combine (hash (fst p)) (hash_num (snd p)))).
    assert (K : forall q, In q l2' -> P (fst q) /\ num_wf (snd q) = true).
    { intros q Hq. apply (proj1 OK2). eapply Permutation_in; [apply Permutation_sym; exact Pm | exact Hq]. }
    destruct OK1 as [K1 _]. clear -F K K1 Phash.
    induction F; constructor.
    - destruct H as [E1 E2]. destruct (K1 x (or_introl eq_refl)), (K y (or_introl eq_refl)).
      rewrite (Phash (fst y) (fst x)) by auto. rewrite (num_eqb_hash (snd x) (snd y)) by auto. reflexivity.
    - apply IHF; intros; [apply K1 | apply K]; right; assumption.
  Qed.

End Dict.
