(* Helpers for the OCaml reader/printer glue (ocaml/expr_io.ml): numerals as digit lists, so
   that no OCaml int ever holds model data, and the class-name -> type-code lookup. *)
From SE Require Export Expr.Wf.
Local Open Scope N_scope.

Definition N_of_digits (base : N) (ds : list N) : N := fold_left (fun a d => a * base + d) ds 0.
Definition Z_of_digits (neg : bool) (ds : list N) : Z :=
  let n := Z.of_N (N_of_digits 10 ds) in if neg then (- n)%Z else n.

Fixpoint digits_aux (fuel : nat) (n : N) (acc : list N) : list N :=
  match fuel with
  | O => acc
  | S f => if n <? 10 then n :: acc else digits_aux f (n / 10) (n mod 10 :: acc)
  end.
Definition digits_of_N (n : N) : list N := digits_aux (S (N.to_nat (N.size n))) n [].

Fixpoint tc_find (name : list N) (t : list (list N * N)) : option N :=
  match t with
  | [] => None
  | (n, c) :: r => if bytes_eqb n name then Some c else tc_find name r
  end.
Definition tc_lookup (name : list N) : option N := tc_find name tc_table.

(* all-pairs matrices for a pool of expressions *)
Definition pool_hashes (l : list expr) : list N := map hash l.
Definition pool_eq (l : list expr) : list (list bool) := map (fun a => map (expr_eqb a) l) l.
Definition pool_cmp (l : list expr) : list (list Z) := map (fun a => map (expr_cmp a) l) l.
(* which trees of a pool satisfy the hypotheses of the C01/C02 theorems *)
Definition pool_wf (l : list expr) : list bool := map wf l.
