(* mul(a, b), Mul::dict_add_term_new, Mul::power_num, pow(a, integer) on the power-product fragment
   (ArithGuards.v: [mul_operand_ok]): what they compute, closure of the guard, canonical form (C03). *)
From SE Require Export Expr.ArithAddProofs Expr.ArithFuelMono.
From SE Require Import Num.NumSpec Num.NumQi Expr.CmpProofs.
From Coq Require Import QArith Lia Permutation Setoid Morphisms.
Local Open Scope Z_scope.

(* ---------- the scan performed by find / insert / erase on the std::map ---------- *)
Inductive mscan_res (t : expr) (d : mdict) : Prop :=
| MS_found : forall d1 k v d2, d = d1 ++ (k, v) :: d2 ->
    expr_keyless k t = false -> expr_keyless t k = false ->
    mlookup t d = Some (k, v) ->
    (forall s, mset t s d = d1 ++ (k, s) :: d2) -> merase t d = d1 ++ d2 -> mscan_res t d
| MS_absent : forall d1 d2, d = d1 ++ d2 -> mlookup t d = None ->
    (forall s, minsert t s d = d1 ++ (t, s) :: d2) -> mscan_res t d.

Lemma mscan : forall t d, mscan_res t d.
Proof.
  intros t. induction d as [|[k v] d IH].
  - apply (MS_absent t [] [] []); reflexivity.
  - destruct (expr_keyless k t) eqn:A.
    + destruct IH as [d1 k0 v0 d2 -> B1 B2 L S E | d1 d2 -> L I].
      * apply (MS_found t _ ((k, v) :: d1) k0 v0 d2); cbn [app mlookup mset merase]; rewrite ?A; auto.
        -- intros s. now rewrite S.
        -- now rewrite E.
      * apply (MS_absent t _ ((k, v) :: d1) d2); cbn [app mlookup minsert]; rewrite ?A; auto.
        intros s. now rewrite I.
    + destruct (expr_keyless t k) eqn:B.
      * apply (MS_absent t _ [] ((k, v) :: d)); cbn [app mlookup minsert]; rewrite ?A, ?B; auto.
      * apply (MS_found t _ [] k v d); cbn [app mlookup mset merase]; rewrite ?A, ?B; auto.
Qed.

(* incomparable well-formed keys are eq *)
Lemma incomparable_eq : forall k t, wf k = true -> wf t = true ->
  expr_keyless k t = false -> expr_keyless t k = false -> expr_eqb k t = true.
Proof.
  intros k t Wk Wt A B. destruct keyless_strict_weak_order as (_ & _ & H). apply (H k t Wk Wt). auto.
Qed.

(* ---------- guards ---------- *)
Lemma atom_ok_inv : forall k, atom_ok k = true -> wf k = true /\ canonical k = true /\ is_atom k = true.
Proof. intros k H. unfold atom_ok in H. apply andb_prop in H. destruct H as [H A]. apply andb_prop in H. tauto. Qed.

Lemma qexp_ok_inv : forall n, qexp_ok n = true ->
  xok n = true /\ num_is_zero n = false /\ (exists z, n = NInt z) \/ xok n = true /\ num_is_zero n = false /\ (exists p q, n = NRat p q).
Proof.
  intros n H. unfold qexp_ok in H. apply andb_prop in H. destruct H as [H K]. apply andb_prop in H. destruct H as [X Z].
  apply negb_true_iff in Z. destruct n; try discriminate K; [left|right]; eauto 6.
Qed.
Lemma qexp_ok_xok : forall n, qexp_ok n = true -> xok n = true.
Proof. intros n H. unfold qexp_ok in H. apply andb_prop in H. destruct H as [H _]. apply andb_prop in H. apply H. Qed.
Lemma qexp_ok_nz : forall n, qexp_ok n = true -> num_is_zero n = false.
Proof. intros n H. unfold qexp_ok in H. apply andb_prop in H. destruct H as [H _]. apply andb_prop in H. destruct H as [_ H]. now apply negb_true_iff. Qed.

Lemma mentry_ok_inv : forall k v, mentry_ok (k, v) = true -> atom_ok k = true /\ exists n, v = ENum n /\ qexp_ok n = true.
Proof.
  intros k v H. unfold mentry_ok in H. cbn [fst snd] in H. apply andb_prop in H. destruct H as [A B].
  split; [exact A|]. destruct v; try discriminate B. eauto.
Qed.

Lemma mentries_app : forall d1 d2, mentries_ok (d1 ++ d2) = mentries_ok d1 && mentries_ok d2.
Proof. intros. unfold mentries_ok. apply forallb_app. Qed.

(* sum of two Integer / Rational exponents is an Integer or a Rational *)
Lemma xadd_int_rat : forall a b, qexp_ok a = true -> qexp_ok b = true ->
  match xadd a b with NInt _ | NRat _ _ => True | _ => False end.
Proof.
  intros a b Ha Hb. pose proof (qexp_ok_xok _ Ha) as Xa. pose proof (qexp_ok_xok _ Hb) as Xb.
  pose proof (xadd_xok a b Xa Xb) as X. pose proof (xadd_val a b Xa Xb) as V.
  destruct (xadd a b) as [z|n d|rn rd imn imd| | | | ] eqn:E; try exact I; try discriminate X.
  exfalso. destruct (xok_cplx_low _ _ _ _ X) as (_ & _ & NZ). apply NZ.
  destruct V as [_ V2]. unfold qval in V2. cbn [valQi snd] in V2.
  unfold qexp_ok in Ha, Hb. apply andb_prop in Ha, Hb. destruct Ha as [_ Ka]. destruct Hb as [_ Kb].
  destruct a; try discriminate Ka; destruct b; try discriminate Kb; cbn [valQi qi_add fst snd] in V2;
    unfold Qeq in V2; cbn in V2; lia.
Qed.

(* ---------- Mul::dict_add_term_new on the fragment ---------- *)
Definition num_of (e : expr) : number := match e with ENum n => n | _ => NInt 0 end.

Definition datn_frag (coef : number) (d : mdict) (q : number) (t : expr) : number * mdict :=
  match mlookup t d with
  | None => (coef, minsert t (ENum q) d)
  | Some (k, v) =>
      let s := xadd (num_of v) q in
      if num_is_zero s then (coef, merase t d) else (coef, mset t (ENum s) d)
  end.

Lemma mlookup_in : forall t d k v, mlookup t d = Some (k, v) -> In (k, v) d.
Proof.
  intros t d k v H. destruct (mscan t d) as [d1 k0 v0 d2 -> _ _ L _ _ | d1 d2 -> L _].
  - rewrite L in H. injection H as <- <-. apply in_or_app. right. left. reflexivity.
  - rewrite L in H. discriminate.
Qed.

Lemma mentries_in : forall d p, mentries_ok d = true -> In p d -> mentry_ok p = true.
Proof. intros d p H Hp. unfold mentries_ok in H. rewrite forallb_forall in H. auto. Qed.

Lemma rat_not_zero : forall n d, xok (NRat n d) = true -> num_is_zero (NRat n d) = false.
Proof.
  intros n d X. destruct (xok_rat_low _ _ X) as [L D]. cbn [num_is_zero]. apply Z.eqb_neq. intros ->.
  unfold NumQ.qlow in L. cbn in L. destruct d; cbn in L; try lia.
Qed.

Lemma step_datn_frag : forall rec coef d q t, mentries_ok d = true -> atom_ok t = true -> qexp_ok q = true ->
  step_datn rec coef d (ENum q) t = Ok (datn_frag coef d q t).
Proof.
  intros rec coef d q t D T Q. destruct (atom_ok_inv _ T) as (Wt & Ct & At).
  unfold step_datn, datn_frag. cbv zeta.
  assert (PT : pow_int_term t (ENum q) = None) by (destruct t; try discriminate At; reflexivity). rewrite PT.
  destruct (mlookup t d) as [[k v]|] eqn:L.
  - pose proof (mlookup_in _ _ _ _ L) as Hin.
    destruct (mentry_ok_inv k v (mentries_in _ _ D Hin)) as (Tk & vn & -> & Qv).
    destruct (atom_ok_inv _ Tk) as (Wk & Ck & Ak).
    cbn [num_of]. rewrite (num_add_ok vn q (qexp_ok_xok _ Qv) (qexp_ok_xok _ Q)). cbn [bind].
    pose proof (xadd_int_rat vn q Qv Q) as K.
    pose proof (xadd_xok vn q (qexp_ok_xok _ Qv) (qexp_ok_xok _ Q)) as X.
    destruct (xadd vn q) as [z|n dd| | | | | ] eqn:E; try contradiction.
    + cbn [num_is_zero]. destruct (z =? 0) eqn:Z0.
      * destruct t; try discriminate At; reflexivity.
      * cbn [negb num_is_zero is_Integer num_is_exact].
        destruct k; try discriminate Ak; destruct t; try discriminate At;
          cbn [negb]; match goal with |- context [expr_eqb ?a e_E] => destruct (expr_eqb a e_E) end; reflexivity.
    + rewrite (rat_not_zero n dd X).
      destruct k; try discriminate Ak; destruct t; try discriminate At;
        cbn [negb num_is_exact]; match goal with |- context [expr_eqb ?a e_E] => destruct (expr_eqb a e_E) end; reflexivity.
  - destruct t; try discriminate At; reflexivity.
Qed.

(* the result keeps the guard; its keys are those of d plus t *)
Lemma datn_frag_entries : forall coef d q t, mentries_ok d = true -> atom_ok t = true -> qexp_ok q = true ->
  fst (datn_frag coef d q t) = coef /\ mentries_ok (snd (datn_frag coef d q t)) = true.
Proof.
  intros coef d q t D T Q. unfold datn_frag.
  destruct (mscan t d) as [d1 k v d2 -> A B L S E | d1 d2 -> L I]; rewrite L.
  - assert (Hin : In (k, v) (d1 ++ (k, v) :: d2)) by (apply in_or_app; right; left; reflexivity).
    destruct (mentry_ok_inv k v (mentries_in _ _ D Hin)) as (Tk & vn & -> & Qv). cbn [num_of].
    rewrite mentries_app in D. apply andb_prop in D. destruct D as [D1 D2]. cbn [mentries_ok forallb] in D2.
    apply andb_prop in D2. destruct D2 as [_ D2]. fold (mentries_ok d2) in D2.
    cbv zeta. destruct (num_is_zero (xadd vn q)) eqn:Z; cbn [fst snd].
    + split; [reflexivity|]. rewrite E, mentries_app. now rewrite D1, D2.
    + split; [reflexivity|]. rewrite S, mentries_app. cbn [mentries_ok forallb]. fold (mentries_ok d2).
      rewrite D1, D2, andb_true_r. cbn [andb]. unfold mentry_ok. cbn [fst snd]. rewrite Tk. cbn [andb].
      pose proof (xadd_int_rat vn q Qv Q) as K.
      unfold qexp_ok. rewrite (xadd_xok vn q (qexp_ok_xok _ Qv) (qexp_ok_xok _ Q)), Z. cbn [negb andb].
      destruct (xadd vn q); try contradiction; reflexivity.
  - cbn [fst snd]. split; [reflexivity|]. rewrite I. rewrite mentries_app in *. apply andb_prop in D. destruct D as [D1 D2].
    cbn [mentries_ok forallb]. fold (mentries_ok d2). rewrite D1, D2, andb_true_r. cbn [andb].
    unfold mentry_ok. cbn [fst snd]. now rewrite T, Q.
Qed.

(* ---------- mul(a, b) on the fragment ---------- *)
(* an operand as coefficient * product of atom^exponent *)
Definition mlin (x : expr) : number * mdict :=
  match x with
  | ENum n => (n, [])
  | EMul c d => (c, d)
  | EPow b e => (NInt 1, [(b, e)])
  | _ => (NInt 1, [(x, e_one)])
  end.
Definition mconst (x : expr) : number := fst (mlin x).
Definition mterms (x : expr) : mdict := snd (mlin x).

Definition dstep (d : mdict) (p : expr * expr) : mdict := snd (datn_frag (NInt 0) d (num_of (snd p)) (fst p)).
Definition dmerge (d l : mdict) : mdict := fold_left dstep l d.

Lemma datn_frag_coef : forall c c' d q t, snd (datn_frag c d q t) = snd (datn_frag c' d q t).
Proof. intros. unfold datn_frag. destruct (mlookup t d) as [[k v]|]; cbv zeta; [destruct (num_is_zero _)|]; reflexivity. Qed.
Lemma datn_frag_pair : forall c d q t, datn_frag c d q t = (c, dstep d (t, ENum q)).
Proof.
  intros. unfold dstep. cbn [fst snd num_of]. rewrite (datn_frag_coef (NInt 0) c).
  unfold datn_frag. destruct (mlookup t d) as [[k v]|]; cbv zeta; [destruct (num_is_zero _)|]; reflexivity.
Qed.

Lemma one_qexp : qexp_ok (NInt 1) = true. Proof. reflexivity. Qed.

Lemma mul_operand_ok_terms : forall s x, mul_operand_ok_gen s x = true ->
  xok (mconst x) = true /\ mentries_ok (mterms x) = true.
Proof.
  intros s x H. unfold mconst, mterms.
  destruct x as [n1|nm1|nm1 i1|nm1|ac1 ad1|mc1 md1|pb1 pe1|fc1 fa1|fc1 fa1 fb1|fc1 fl1|nm1 fl1|fc1 fa1 fb1|fa1 fl1|fa1 fd1|fl1|bb1|is1 ie1 lo1 ro1|tc1];
    cbn [mlin fst snd mul_operand_ok_gen] in *;
    try (split; [reflexivity|]; cbn [mentries_ok forallb]; unfold mentry_ok; cbn [fst snd e_one e_int]; rewrite H, one_qexp; reflexivity).
  - split; [exact H | reflexivity].
  - apply andb_prop in H. destruct H as [H _]. apply andb_prop in H. destruct H as [H _].
    apply andb_prop in H. destruct H as [H _]. apply andb_prop in H. destruct H as [H E].
    apply andb_prop in H. destruct H as [X _]. auto.
  - destruct pe1; try discriminate H. apply andb_prop in H. destruct H as [H _]. apply andb_prop in H. destruct H as [A Q].
    split; [reflexivity|]. cbn [mentries_ok forallb]. unfold mentry_ok. cbn [fst snd]. now rewrite A, Q.
Qed.

Lemma arith_S : forall f c, arith (S f) c = step (arith f) c.
Proof. reflexivity. Qed.

Lemma rS_datn_frag : forall f coef d q t, mentries_ok d = true -> atom_ok t = true -> qexp_ok q = true ->
  rS (arith (S f)) (CDatn coef d (ENum q) t) = Ok (coef, dstep d (t, ENum q)).
Proof.
  intros f coef d q t D T Q. unfold rS. rewrite arith_S. cbn [step]. rewrite step_datn_frag by assumption.
  cbn [bind]. rewrite datn_frag_pair. reflexivity.
Qed.

Lemma dstep_entries : forall d t q, mentries_ok d = true -> atom_ok t = true -> qexp_ok q = true ->
  mentries_ok (dstep d (t, ENum q)) = true.
Proof. intros d t q D T Q. unfold dstep. cbn [fst snd num_of]. now apply datn_frag_entries. Qed.

Lemma dmerge_entries : forall l d, mentries_ok d = true -> mentries_ok l = true -> mentries_ok (dmerge d l) = true.
Proof.
  unfold dmerge. induction l as [|[t v] l IH]; intros d D L; cbn [fold_left]; [exact D|].
  cbn [mentries_ok forallb] in L. apply andb_prop in L. destruct L as [E L].
  destruct (mentry_ok_inv t v E) as (T & q & -> & Q). apply IH; auto. now apply dstep_entries.
Qed.

Lemma datn_loop_frag : forall f l coef d, mentries_ok d = true -> mentries_ok l = true ->
  datn_loop (arith (S f)) coef d l = Ok (coef, dmerge d l).
Proof.
  unfold datn_loop, dmerge. induction l as [|[t v] l IH]; intros coef d D L; cbn [fold_res fold_left]; [reflexivity|].
  cbn [mentries_ok forallb] in L. apply andb_prop in L. destruct L as [E L].
  destruct (mentry_ok_inv t v E) as (T & q & -> & Q). cbn [fst snd].
  rewrite rS_datn_frag by assumption. cbn [bind fst snd]. apply IH; auto. now apply dstep_entries.
Qed.

(* one operand that is not a Mul *)
Lemma mul_operand_frag : forall f coef d x, xok coef = true -> mentries_ok d = true -> mul_operand_ok x = true ->
  (match x with EMul _ _ => False | _ => True end) ->
  mul_operand (arith (S f)) coef d x = Ok (xmul coef (mconst x), dmerge d (mterms x)).
Proof.
  intros f coef d x Xc D H NM. destruct (mul_operand_ok_terms _ x H) as [Xx Tx].
  unfold mconst, mterms in *. unfold mul_operand.
  destruct x as [n1|nm1|nm1 i1|nm1|ac1 ad1|mc1 md1|pb1 pe1|fc1 fa1|fc1 fa1 fb1|fc1 fl1|nm1 fl1|fc1 fa1 fb1|fa1 fl1|fa1 fd1|fl1|bb1|is1 ie1 lo1 ro1|tc1];
    try contradiction; cbn [mlin fst snd as_base_exp bind] in *;
    try (rewrite xmul_1_r by assumption; cbn [mentries_ok forallb] in Tx; rewrite andb_true_r in Tx;
         destruct (mentry_ok_inv _ _ Tx) as (T & q & Eq & Q); unfold e_one, e_int in Eq; injection Eq as <-;
         unfold e_one, e_int; rewrite rS_datn_frag by assumption; reflexivity).
  - rewrite (num_mul_ok coef n1 Xc Xx). reflexivity.
  - rewrite xmul_1_r by assumption. cbn [mentries_ok forallb] in Tx. rewrite andb_true_r in Tx.
    destruct (mentry_ok_inv _ _ Tx) as (T & q & -> & Q). rewrite rS_datn_frag by assumption. reflexivity.
Qed.

Lemma mul_from_dict_one_one : xmul (NInt 1) (NInt 1) = NInt 1. Proof. reflexivity. Qed.

Theorem e_mul_spec : forall f a b, mul_operand_ok a = true -> mul_operand_ok b = true ->
  exists X Y, e_mul (S (S f)) a b = Ok (mul_from_dict (xmul (mconst a) (mconst b)) (dmerge X Y)) /\
    ((X = mterms a /\ Y = mterms b) \/ (X = mterms b /\ Y = mterms a) \/ (X = dmerge [] (mterms a) /\ Y = mterms b)).
Proof.
  intros f a b Ha Hb.
  destruct (mul_operand_ok_terms _ a Ha) as [Xa Ta]. destruct (mul_operand_ok_terms _ b Hb) as [Xb Tb].
  unfold e_mul, rE. rewrite arith_S. cbn [step]. unfold step_mul.
  assert (CA : (exists ca da, a = EMul ca da) \/ (match a with EMul _ _ => False | _ => True end)) by (destruct a; eauto).
  assert (CB : (exists cb db, b = EMul cb db) \/ (match b with EMul _ _ => False | _ => True end)) by (destruct b; eauto).
  destruct CA as [(ca & da & ->)|NA]; destruct CB as [(cb & db & ->)|NB].
  - unfold mconst, mterms in *. cbn [mlin fst snd] in *.
    exists da, db. split; [|left; auto].
    assert (C : (if negb (num_is_one ca) || negb (num_is_one cb) then num_mul ca cb else Ok (NInt 1)) = Ok (xmul ca cb)).
    { destruct (num_is_one ca) eqn:O1; destruct (num_is_one cb) eqn:O2; cbn [negb orb]; try (now apply num_mul_ok).
      rewrite (is_one_eq ca Xa O1), (is_one_eq cb Xb O2). reflexivity. }
    rewrite C. cbn [bind]. rewrite datn_loop_frag by assumption. reflexivity.
  - assert (SM : forall ca da, (match b with EMul _ _ => False | _ => True end) ->
                 match EMul ca da, b with
                 | EMul ca0 da0, EMul cb db => bind (if negb (num_is_one ca0) || negb (num_is_one cb) then num_mul ca0 cb else Ok (NInt 1)) (fun coef => datn_loop (arith (S f)) coef da0 db)
                 | EMul ca0 da0, _ => mul_operand (arith (S f)) ca0 da0 b
                 | _, EMul cb db => mul_operand (arith (S f)) cb db (EMul ca da)
                 | _, _ => bind (mul_operand (arith (S f)) (NInt 1) [] (EMul ca da)) (fun st => mul_operand (arith (S f)) (fst st) (snd st) b)
                 end = mul_operand (arith (S f)) ca da b) by (intros; destruct b; try contradiction; reflexivity).
    rewrite SM by assumption. unfold mconst at 1. unfold mterms in *. cbn [mlin fst snd] in *.
    rewrite mul_operand_frag by assumption. cbn [bind fst snd].
    exists da, (snd (mlin b)). split; [reflexivity | left; auto].
  - assert (SM : forall cb db, (match a with EMul _ _ => False | _ => True end) ->
                 match a, EMul cb db with
                 | EMul ca da, EMul cb0 db0 => bind (if negb (num_is_one ca) || negb (num_is_one cb0) then num_mul ca cb0 else Ok (NInt 1)) (fun coef => datn_loop (arith (S f)) coef da db0)
                 | EMul ca da, _ => mul_operand (arith (S f)) ca da (EMul cb db)
                 | _, EMul cb0 db0 => mul_operand (arith (S f)) cb0 db0 a
                 | _, _ => bind (mul_operand (arith (S f)) (NInt 1) [] a) (fun st => mul_operand (arith (S f)) (fst st) (snd st) (EMul cb db))
                 end = mul_operand (arith (S f)) cb db a) by (intros; destruct a; try contradiction; reflexivity).
    rewrite SM by assumption. unfold mconst at 2. unfold mterms in *. cbn [mlin fst snd] in *.
    rewrite mul_operand_frag by assumption. cbn [bind fst snd].
    rewrite (xmul_comm cb (mconst a)) by assumption.
    exists db, (snd (mlin a)). split; [reflexivity | right; left; auto].
  - assert (SM : match a, b with
                 | EMul ca da, EMul cb db => bind (if negb (num_is_one ca) || negb (num_is_one cb) then num_mul ca cb else Ok (NInt 1)) (fun coef => datn_loop (arith (S f)) coef da db)
                 | EMul ca da, _ => mul_operand (arith (S f)) ca da b
                 | _, EMul cb db => mul_operand (arith (S f)) cb db a
                 | _, _ => bind (mul_operand (arith (S f)) (NInt 1) [] a) (fun st => mul_operand (arith (S f)) (fst st) (snd st) b)
                 end = bind (mul_operand (arith (S f)) (NInt 1) [] a) (fun st => mul_operand (arith (S f)) (fst st) (snd st) b)).
    { destruct a; try contradiction; destruct b; try contradiction; reflexivity. }
    rewrite SM. rewrite mul_operand_frag by (auto; reflexivity). cbn [bind fst snd].
    rewrite xmul_1_l by assumption.
    rewrite mul_operand_frag; auto; [|apply dmerge_entries; auto; reflexivity].
    cbn [bind fst snd]. exists (dmerge [] (mterms a)), (mterms b). split; [reflexivity | right; right; auto].
Qed.

(* ---------- Mul::from_dict on the fragment: closure, well-formedness, canonical form ---------- *)
Lemma atom_operand : forall k, atom_ok k = true -> forall s, mul_operand_ok_gen s k = true.
Proof.
  intros k H s. destruct (atom_ok_inv _ H) as (_ & _ & A).
  destruct k; try discriminate A; exact H.
Qed.

Lemma qexp_not_one : forall n, qexp_ok n = true -> n <> NInt 1 -> num_is_one n = false /\ expr_eqb (ENum n) e_one = false.
Proof.
  intros n Q NE. pose proof (qexp_ok_xok _ Q) as X. split.
  - destruct (num_is_one n) eqn:O; [|reflexivity]. apply is_one_eq in O; auto. contradiction.
  - unfold e_one, e_int. rewrite eqb_ENum. destruct (SE.Expr.Cmp.num_eqb n (NInt 1)) eqn:E; [|reflexivity].
    apply cmp_num_eqb_eq in E; auto. contradiction.
Qed.

Lemma msorted_single : forall p, msorted [p] = true. Proof. reflexivity. Qed.

Theorem mfd_closed : forall s c d, xok c = true -> mentries_ok d = true -> (s = true -> msorted d = true) ->
  mul_operand_ok_gen s (mul_from_dict c d) = true.
Proof.
  intros s c d Xc D SD. unfold mul_from_dict. destruct (num_is_zero c) eqn:Zc; [exact Xc|].
  assert (MUL : forall p r, d = p :: r -> (num_is_one c = false \/ r <> []) -> mul_operand_ok_gen s (EMul c d) = true).
  { intros p r -> H. cbn [mul_operand_ok_gen]. rewrite Xc, Zc, D. cbn [negb andb].
    assert (S' : (if s then msorted (p :: r) else true) = true) by (destruct s; auto).
    rewrite S'. cbn [andb]. destruct H as [O|NE]; [rewrite O; reflexivity|].
    destruct r; [contradiction|]. now rewrite andb_false_r. }
  destruct d as [|[k v] [|p2 d]].
  - exact Xc.
  - cbn [mentries_ok forallb] in D. rewrite andb_true_r in D. destruct (mentry_ok_inv k v D) as (T & n & -> & Q).
    destruct (num_is_one c) eqn:Oc.
    + assert (G : n <> NInt 1 -> mul_operand_ok_gen s (if expr_eqb (ENum n) e_one then k else EPow k (ENum n)) = true).
      { intros NE. destruct (qexp_not_one n Q NE) as [O E]. rewrite E. cbn [mul_operand_ok_gen]. now rewrite T, Q, O. }
      destruct n as [z| | | | | | ]; try (apply G; discriminate).
      destruct (z =? 1) eqn:Z1; [now apply atom_operand|]. apply G. intros Q1. injection Q1 as ->. discriminate Z1.
    + assert (M : mul_operand_ok_gen s (EMul c [(k, ENum n)]) = true).
      { apply (MUL (k, ENum n) []); auto. }
      destruct n; exact M.
  - apply (MUL (k, v) (p2 :: d)); auto. right. discriminate.
Qed.

Lemma wf_ENum_x : forall n, xok n = true -> wf (ENum n) = true.
Proof. exact xok_wf_expr. Qed.

Lemma wf_EMul_intro : forall c d, xok c = true -> (forall p, In p d -> wf (fst p) = true /\ wf (snd p) = true) ->
  wf (EMul c d) = true.
Proof.
  intros c d Xc H. apply wf_intro.
  - cbn [wf_struct]. rewrite (xok_wf c Xc). cbn [andb]. apply forallb_forall. intros p Hp.
    destruct (H p Hp) as [A B]. now rewrite (proj1 (wf_parts _ A)), (proj1 (wf_parts _ B)).
  - cbn [codes_ok]. rewrite node_ok_Mul. cbn [andb]. apply forallb_forall. intros p Hp.
    destruct (H p Hp) as [A B]. now rewrite (proj2 (wf_parts _ A)), (proj2 (wf_parts _ B)).
Qed.

Lemma node_ok_Pow : forall b e, node_ok (EPow b e) = true. Proof. reflexivity. Qed.
Lemma wf_EPow_intro : forall b e, wf b = true -> wf e = true -> wf (EPow b e) = true.
Proof.
  intros b e A B. apply wf_intro.
  - cbn [wf_struct]. now rewrite (proj1 (wf_parts _ A)), (proj1 (wf_parts _ B)).
  - cbn [codes_ok]. now rewrite node_ok_Pow, (proj2 (wf_parts _ A)), (proj2 (wf_parts _ B)).
Qed.

Lemma mentries_wf : forall d, mentries_ok d = true -> forall p, In p d -> wf (fst p) = true /\ wf (snd p) = true.
Proof.
  intros d D [k v] Hp. destruct (mentry_ok_inv k v (mentries_in _ _ D Hp)) as (T & n & -> & Q). cbn [fst snd].
  split; [apply (atom_ok_inv _ T) | apply wf_ENum_x; now apply qexp_ok_xok].
Qed.

Theorem mfd_wf : forall c d, xok c = true -> mentries_ok d = true -> wf (mul_from_dict c d) = true.
Proof.
  intros c d Xc D. unfold mul_from_dict. destruct (num_is_zero c); [now apply wf_ENum_x|].
  pose proof (mentries_wf d D) as W.
  destruct d as [|[k v] [|p2 d]]; [now apply wf_ENum_x | | now apply wf_EMul_intro].
  destruct (W (k, v) (or_introl eq_refl)) as [Wk Wv]. cbn [fst snd] in *.
  assert (G : wf (if num_is_one c then if expr_eqb v e_one then k else EPow k v else EMul c [(k, v)]) = true).
  { destruct (num_is_one c); [destruct (expr_eqb v e_one); [exact Wk | now apply wf_EPow_intro] | now apply wf_EMul_intro]. }
  destruct v as [[z| | | | | | ]| | | | | | | | | | | | | | | | | ]; try exact G.
  destruct (num_is_one c); [|now apply wf_EMul_intro]. destruct (z =? 1); [exact Wk | exact G].
Qed.

Lemma mentry_canonical : forall k n, atom_ok k = true -> qexp_ok n = true ->
  mul_entry_canonical (k, ENum n) = true /\ canonical k = true /\ canonical (ENum n) = true.
Proof.
  intros k n T Q. destruct (atom_ok_inv _ T) as (_ & C & A). split; [|split; [exact C|]].
  - unfold mul_entry_canonical. cbn [fst snd is_number_and_zero]. rewrite (qexp_ok_nz _ Q).
    destruct k; try discriminate A; reflexivity.
  - cbn [canonical node_canonical]. rewrite (xok_canonical n (qexp_ok_xok _ Q)). reflexivity.
Qed.

Lemma canonical_EMul_frag : forall c d, xok c = true -> num_is_zero c = false -> mentries_ok d = true ->
  d <> [] -> (num_is_one c = false \/ (2 <= length d)%nat) -> canonical (EMul c d) = true.
Proof.
  intros c d Xc Zc D NE H. cbn [canonical node_canonical]. rewrite (xok_canonical c Xc). cbn [andb].
  assert (ENT : forallb mul_entry_canonical d = true /\ forallb (fun p => canonical (fst p) && canonical (snd p)) d = true).
  { split; apply forallb_forall; intros [k v] Hp;
      destruct (mentry_ok_inv k v (mentries_in _ _ D Hp)) as (T & n & -> & Q);
      destruct (mentry_canonical k n T Q) as (A & B & C'); cbn [fst snd]; [exact A | now rewrite B, C']. }
  destruct ENT as [E1 E2]. rewrite E2, andb_true_r. unfold mul_node_canonical. rewrite Zc. cbn [negb andb].
  destruct d as [|p [|q d]]; [contradiction | | exact E1].
  destruct H as [O|L]; [rewrite O; exact E1 | cbn [length] in L; lia].
Qed.

Lemma canonical_EPow_frag : forall k n, atom_ok k = true -> qexp_ok n = true -> n <> NInt 1 ->
  canonical (EPow k (ENum n)) = true.
Proof.
  intros k n T Q NE. destruct (mentry_canonical k n T Q) as (_ & Ck & Cn). destruct (atom_ok_inv _ T) as (_ & _ & A).
  change (canonical (EPow k (ENum n))) with (node_canonical (EPow k (ENum n)) && (canonical k && canonical (ENum n))).
  rewrite Ck, Cn, andb_true_r. cbn [node_canonical].
  unfold pow_node_canonical. cbn [is_number_and_zero]. rewrite (qexp_ok_nz _ Q).
  assert (I1 : is_int_val (ENum n) 1 = false).
  { cbn [is_int_val]. destruct n; try reflexivity. apply Z.eqb_neq. intros ->. contradiction. }
  rewrite I1. destruct k; try discriminate A; reflexivity.
Qed.

Theorem mfd_canonical : forall c d, xok c = true -> mentries_ok d = true -> canonical (mul_from_dict c d) = true.
Proof.
  intros c d Xc D. unfold mul_from_dict.
  assert (NUM : canonical (ENum c) = true) by (cbn [canonical node_canonical]; now rewrite (xok_canonical c Xc)).
  destruct (num_is_zero c) eqn:Zc; [exact NUM|].
  destruct d as [|[k v] [|p2 d]]; [exact NUM | |].
  - cbn [mentries_ok forallb] in D. pose proof D as D'. rewrite andb_true_r in D'.
    destruct (mentry_ok_inv k v D') as (T & n & -> & Q).
    assert (M : num_is_one c = false -> canonical (EMul c [(k, ENum n)]) = true).
    { intros O. apply canonical_EMul_frag; auto. discriminate. }
    destruct (num_is_one c) eqn:Oc.
    + assert (G : n <> NInt 1 -> canonical (if expr_eqb (ENum n) e_one then k else EPow k (ENum n)) = true).
      { intros NE. destruct (qexp_not_one n Q NE) as [_ E]. rewrite E. now apply canonical_EPow_frag. }
      destruct n as [z| | | | | | ]; try (apply G; discriminate).
      destruct (z =? 1) eqn:Z1; [apply (atom_ok_inv _ T)|]. apply G. intros Q1. injection Q1 as ->. discriminate Z1.
    + destruct n; now apply M.
  - apply canonical_EMul_frag; auto; [discriminate | right; cbn [length]; lia].
Qed.

(* ---------- C03: mul on the fragment ---------- *)
Theorem mul_total_closed : forall f a b, mul_operand_ok a = true -> mul_operand_ok b = true ->
  exists r, e_mul (S (S f)) a b = Ok r /\ mul_operand_ok r = true /\ canonical r = true /\ wf r = true.
Proof.
  intros f a b Ha Hb. destruct (e_mul_spec f a b Ha Hb) as (X & Y & E & XY).
  destruct (mul_operand_ok_terms _ a Ha) as [Xa Ta]. destruct (mul_operand_ok_terms _ b Hb) as [Xb Tb].
  assert (D : mentries_ok (dmerge X Y) = true).
  { destruct XY as [[-> ->]|[[-> ->]|[-> ->]]]; apply dmerge_entries; auto. apply dmerge_entries; auto. }
  assert (Xc : xok (xmul (mconst a) (mconst b)) = true) by auto using xmul_xok.
  eexists. split; [exact E|]. split; [|split].
  - apply mfd_closed; auto. discriminate.
  - now apply mfd_canonical.
  - now apply mfd_wf.
Qed.

Theorem mul_canonical : forall fuel a b r, mul_operand_ok a = true -> mul_operand_ok b = true ->
  e_mul fuel a b = Ok r -> mul_operand_ok r = true /\ canonical r = true /\ wf r = true.
Proof.
  intros fuel a b r Ha Hb E.
  destruct (mul_total_closed fuel a b Ha Hb) as (r' & E' & C).
  assert (L : (fuel <= S (S fuel))%nat) by lia.
  pose proof (le_ok _ _ _ r (e_mul_mono fuel (S (S fuel)) a b L) E) as E2.
  rewrite E' in E2. injection E2 as ->. exact C.
Qed.
