(* Fuel independence of [eqb] / [cmp] and fuel-free unfolding equations for [expr_eqb] and
   [expr_cmp]; sizes of children; pair lists flattened to element lists. *)
From SE Require Export Expr.NumProofs.
From Coq Require Import Lia ZifyBool ZifyNat ZifyN.
Local Open Scope Z_scope.

(* ---------- sizes ---------- *)
Lemma size_pos : forall e, (1 <= size e)%nat.
Proof. destruct e; cbn [size]; lia. Qed.

(* a list of pairs as the list of its components, in order *)
Definition flat (l : list (expr * expr)) : list expr := flat_map (fun p => [fst p; snd p]) l.

Definition lsize (l : list expr) : nat := fold_right (fun x acc => size x + acc)%nat 0%nat l.

Lemma lsize_flat : forall l,
  fold_right (fun p acc => size (fst p) + size (snd p) + acc)%nat 0%nat l = lsize (flat l).
Proof.
  unfold lsize, flat. induction l; cbn [fold_right flat_map app]; [reflexivity|]. rewrite IHl. lia.
Qed.

Lemma in_lsize : forall x l, In x l -> (size x <= lsize l)%nat.
Proof.
  unfold lsize. induction l; cbn [In fold_right]; [tauto|]. intros [->|H]; [lia|]. apply IHl in H. lia.
Qed.
Lemma in_size_list : forall x l, In x l ->
  (size x <= fold_right (fun x acc => size x + acc) 0 l)%nat.
Proof. exact in_lsize. Qed.
Lemma in_size_flat : forall x l, In x (flat l) ->
  (size x <= fold_right (fun p acc => size (fst p) + size (snd p) + acc) 0 l)%nat.
Proof. intros. rewrite lsize_flat. apply in_lsize. assumption. Qed.
Lemma in_size_keys : forall x (l : list (expr * number)), In x (map fst l) ->
  (size x < fold_right (fun p acc => size (fst p) + 1 + acc) 0 l)%nat.
Proof.
  induction l; cbn [In map fold_right]; [tauto|]. intros [<-|H]; [lia|]. apply IHl in H. lia.
Qed.

Ltac szb :=
  repeat match goal with
  | H : In _ (map fst _) |- _ => apply in_size_keys in H
  | H : In _ (flat _) |- _ => apply in_size_flat in H
  | H : In _ _ |- _ => apply in_size_list in H
  end; cbn [size] in *; lia.

(* ---------- pair lists as flat lists ---------- *)
Lemma pairs_eqb_flat : forall r l1 l2, pairs_eqb r l1 l2 = list_eqb r (flat l1) (flat l2).
Proof.
  induction l1 as [|[k1 v1] l1 IH]; destruct l2 as [|[k2 v2] l2]; cbn; try reflexivity.
  unfold flat in IH. rewrite IH, andb_assoc. reflexivity.
Qed.
Lemma pairs_lex_cmp_flat : forall c l1 l2, pairs_lex_cmp c l1 l2 = lex_cmp c (flat l1) (flat l2).
Proof.
  induction l1 as [|[k1 v1] l1 IH]; destruct l2 as [|[k2 v2] l2]; cbn; try reflexivity.
  unfold flat in IH. rewrite IH. reflexivity.
Qed.
Lemma length_flat : forall l, length (flat l) = (2 * length l)%nat.
Proof. induction l; cbn; [reflexivity|]. unfold flat in IHl. rewrite IHl. lia. Qed.
Lemma pairs_sized_cmp_flat : forall c l1 l2, pairs_sized_cmp c l1 l2 = sized_cmp c (flat l1) (flat l2).
Proof.
  intros. unfold pairs_sized_cmp, sized_cmp. rewrite !length_flat, pairs_lex_cmp_flat.
  destruct (Nat.eqb_spec (length l1) (length l2)), (Nat.eqb_spec (2 * length l1) (2 * length l2));
    try lia; try reflexivity.
  destruct (Nat.ltb_spec (length l1) (length l2)), (Nat.ltb_spec (2 * length l1) (2 * length l2));
    try lia; reflexivity.
Qed.
Lemma hash_pairs_flat : forall l s,
  fold_left (fun seed p => hash_combine (hash_combine seed (hash (fst p))) (hash (snd p))) l s =
  fold_left (fun seed a => hash_combine seed (hash a)) (flat l) s.
Proof. induction l; intros; cbn; [reflexivity|]. apply IHl. Qed.
Lemma forallb_flat : forall (f : expr -> bool) l,
  forallb (fun p => f (fst p) && f (snd p)) l = forallb f (flat l).
Proof. induction l; cbn; [reflexivity|]. unfold flat in IHl. rewrite IHl, andb_assoc. reflexivity. Qed.

(* ---------- extensionality of the helpers in the recursive call ---------- *)
Lemma list_eqb_ext : forall r1 r2 l1 l2,
  (forall x y, In x l1 -> In y l2 -> r1 x y = r2 x y) -> list_eqb r1 l1 l2 = list_eqb r2 l1 l2.
Proof.
  induction l1; destruct l2; cbn; intros H; try reflexivity.
  rewrite H by auto. rewrite IHl1 by auto. reflexivity.
Qed.
Lemma umap_find_ext : forall r1 r2 k d,
  (forall y, In y (map fst d) -> r1 y k = r2 y k) -> umap_find r1 k d = umap_find r2 k d.
Proof.
  induction d as [|[k' v] d IH]; cbn; intros H; [reflexivity|].
  rewrite H by auto. rewrite IH by auto. reflexivity.
Qed.
Lemma forallb_ext_In : forall {A} (f g : A -> bool) l,
  (forall x, In x l -> f x = g x) -> forallb f l = forallb g l.
Proof. induction l; cbn; intros H; [reflexivity|]. rewrite H by auto. rewrite IHl by auto. reflexivity. Qed.
Lemma umap_eqb_ext : forall r1 r2 d1 d2,
  (forall x y, In x (map fst d1) -> In y (map fst d2) -> r1 y x = r2 y x) ->
  umap_eqb r1 d1 d2 = umap_eqb r2 d1 d2.
Proof.
  intros. unfold umap_eqb. f_equal. apply forallb_ext_In.
  intros p Hp. rewrite (umap_find_ext r1 r2); [reflexivity|].
  intros y Hy. apply H; [apply in_map; assumption | assumption].
Qed.
Lemma lex_cmp_ext : forall c1 c2 l1 l2,
  (forall x y, In x l1 -> In y l2 -> c1 x y = c2 x y) -> lex_cmp c1 l1 l2 = lex_cmp c2 l1 l2.
Proof.
  induction l1; destruct l2; cbn; intros H; try reflexivity.
  rewrite H by auto. rewrite IHl1 by auto. reflexivity.
Qed.
Lemma sized_cmp_ext : forall c1 c2 l1 l2,
  (forall x y, In x l1 -> In y l2 -> c1 x y = c2 x y) -> sized_cmp c1 l1 l2 = sized_cmp c2 l1 l2.
Proof. intros. unfold sized_cmp. rewrite (lex_cmp_ext c1 c2) by assumption. reflexivity. Qed.
Lemma numpairs_lex_cmp_ext : forall c1 c2 l1 l2,
  (forall x y, In x (map fst l1) -> In y (map fst l2) -> c1 x y = c2 x y) ->
  numpairs_lex_cmp c1 l1 l2 = numpairs_lex_cmp c2 l1 l2.
Proof.
  induction l1 as [|[k1 v1] l1 IH]; destruct l2 as [|[k2 v2] l2]; cbn; intros H; try reflexivity.
  rewrite H by auto. rewrite IH by auto. reflexivity.
Qed.
Lemma numpairs_sized_cmp_ext : forall c1 c2 l1 l2,
  (forall x y, In x (map fst l1) -> In y (map fst l2) -> c1 x y = c2 x y) ->
  numpairs_sized_cmp c1 l1 l2 = numpairs_sized_cmp c2 l1 l2.
Proof. intros. unfold numpairs_sized_cmp. rewrite (numpairs_lex_cmp_ext c1 c2) by assumption. reflexivity. Qed.

Lemma map_insert_in : forall e c k v m p, In p (map_insert e c k v m) -> p = (k, v) \/ In p m.
Proof.
  induction m as [|[k' v'] m IH]; cbn; intros p H.
  - destruct H; [left; congruence | contradiction].
  - destruct (keyless e c k' k).
    + destruct H as [H|H]; [right; left; exact H|]. apply IH in H. tauto.
    + destruct (keyless e c k k'); [destruct H; [left; congruence | right; exact H] | right; exact H].
Qed.
Lemma map_of_umap_in_gen : forall e c d m p,
  In p (fold_left (fun m p => map_insert e c (fst p) (snd p) m) d m) -> In p m \/ In p d.
Proof.
  induction d as [|[k v] d IH]; cbn; intros m p H; [tauto|].
  apply IH in H. destruct H as [H|H]; [|tauto].
  apply map_insert_in in H. destruct H; [right; left; congruence | tauto].
Qed.
Lemma map_of_umap_in : forall e c d p, In p (map_of_umap e c d) -> In p d.
Proof. intros. apply map_of_umap_in_gen in H. cbn in H. tauto. Qed.
Lemma map_of_umap_keys : forall e c d x, In x (map fst (map_of_umap e c d)) -> In x (map fst d).
Proof.
  intros. apply in_map_iff in H. destruct H as [p [<- H]]. apply in_map. eapply map_of_umap_in; eassumption.
Qed.

(* [map_insert] only compares keys at distinct positions of the dictionary: it is enough that
   the two pairs of functions agree on pairs of keys of bounded total size *)
Definition ksize (d : list (expr * number)) : nat :=
  fold_right (fun p acc => size (fst p) + 1 + acc)%nat 0%nat d.

Lemma map_insert_ksize : forall e c k v m,
  (ksize (map_insert e c k v m) <= ksize m + size k + 1)%nat.
Proof.
  unfold ksize. induction m as [|[k' v'] m IH]; cbn [map_insert fold_right fst]; [lia|].
  destruct (keyless e c k' k); [cbn [fold_right fst]; lia|].
  destruct (keyless e c k k'); cbn [fold_right fst]; lia.
Qed.
Lemma map_insert_ext : forall B e1 c1 e2 c2 k v m,
  (forall x y, (size x + size y + 2 <= B)%nat -> e1 x y = e2 x y /\ c1 x y = c2 x y) ->
  (ksize m + size k + 1 <= B)%nat ->
  map_insert e1 c1 k v m = map_insert e2 c2 k v m.
Proof.
  intros B e1 c1 e2 c2 k v m H. unfold ksize.
  induction m as [|[k' v'] m IH]; cbn [map_insert fold_right fst]; intros Hb; [reflexivity|].
  assert (K1 : keyless e1 c1 k' k = keyless e2 c2 k' k).
  { unfold keyless. destruct (H k' k) as [-> ->]; [lia|reflexivity]. }
  assert (K2 : keyless e1 c1 k k' = keyless e2 c2 k k').
  { unfold keyless. destruct (H k k') as [-> ->]; [lia|reflexivity]. }
  rewrite K1, K2, IH by lia. reflexivity.
Qed.
Lemma map_of_umap_ext : forall e1 c1 e2 c2 d,
  (forall x y, (size x + size y + 2 <= ksize d)%nat -> e1 x y = e2 x y /\ c1 x y = c2 x y) ->
  map_of_umap e1 c1 d = map_of_umap e2 c2 d.
Proof.
  intros e1 c1 e2 c2 d H. unfold map_of_umap.
  assert (G : forall d' m, (ksize m + ksize d' <= ksize d)%nat ->
    fold_left (fun m p => map_insert e1 c1 (fst p) (snd p) m) d' m =
    fold_left (fun m p => map_insert e2 c2 (fst p) (snd p) m) d' m).
  { induction d' as [|[k v] d' IH]; intros m Hb; [reflexivity|].
    cbn [fold_left fst snd].
    assert (Hk : (ksize ((k, v) :: d') = size k + 1 + ksize d')%nat) by reflexivity.
    rewrite <- (map_insert_ext (ksize d) e1 c1 e2 c2 k v m) by (auto; lia).
    apply IH. pose proof (map_insert_ksize e1 c1 k v m). lia. }
  apply G. cbn. lia.
Qed.

(* ---------- fuel independence ---------- *)
Lemma eqb_fuel : forall f1 f2 a b,
  (size a + size b <= f1)%nat -> (size a + size b <= f2)%nat -> eqb f1 a b = eqb f2 a b.
Proof.
  induction f1; intros f2 a b H1 H2; [pose proof (size_pos a); lia|].
  destruct f2; [pose proof (size_pos a); lia|].
  destruct a; destruct b; cbn [eqb]; try reflexivity; rewrite ?pairs_eqb_flat;
  repeat match goal with
  | |- (_ && _)%bool = (_ && _)%bool => apply (f_equal2 andb)
  | |- eqb _ ?a ?b = eqb _ ?a ?b => apply IHf1; szb
  | |- list_eqb _ _ _ = list_eqb _ _ _ => apply list_eqb_ext; intros; apply IHf1; szb
  | |- umap_eqb _ _ _ = umap_eqb _ _ _ => apply umap_eqb_ext; intros; apply IHf1; szb
  | |- ?x = ?x => reflexivity
  end.
Qed.

Lemma eqb_big : forall f a b, (size a + size b <= f)%nat -> eqb f a b = expr_eqb a b.
Proof. intros. unfold expr_eqb. apply eqb_fuel; lia. Qed.

Lemma cmp_fuel : forall f1 f2 a b,
  (size a + size b <= f1)%nat -> (size a + size b <= f2)%nat -> cmp f1 a b = cmp f2 a b.
Proof.
  induction f1; intros f2 a b H1 H2; [pose proof (size_pos a); lia|].
  destruct f2; [pose proof (size_pos a); lia|].
  cbn [cmp]. destruct (negb (type_code a =? type_code b)%N); [reflexivity|].
  destruct a; destruct b; try reflexivity; rewrite ?pairs_sized_cmp_flat; cbn [size] in H1, H2;
    try (rewrite (IHf1 f2) by szb);
    try (rewrite (IHf1 f2 a2 b2) by szb);
    try (rewrite (IHf1 f2 a3 b4) by szb);
    try (rewrite (sized_cmp_ext (cmp f1) (cmp f2)) by (intros; apply IHf1; szb));
    try reflexivity.
  - (* Add *)
    set (E := eqb (size (EAdd coef d) + size (EAdd coef0 d0))).
    fold (ksize d) in H1, H2. fold (ksize d0) in H1, H2.
    rewrite (map_of_umap_ext E (cmp f1) E (cmp f2) d);
      [ | intros x y Hb; (split; [reflexivity | apply IHf1; lia]) ].
    rewrite (map_of_umap_ext E (cmp f1) E (cmp f2) d0);
      [ | intros x y Hb; (split; [reflexivity | apply IHf1; lia]) ].
    rewrite (numpairs_sized_cmp_ext (cmp f1) (cmp f2)); [reflexivity|].
    intros x y Hx Hy. apply map_of_umap_keys in Hx. apply map_of_umap_keys in Hy.
    apply in_size_keys in Hx. apply in_size_keys in Hy. fold (ksize d) in Hx. fold (ksize d0) in Hy.
    apply IHf1; lia.
Qed.

Lemma cmp_big : forall f a b, (size a + size b <= f)%nat -> cmp f a b = expr_cmp a b.
Proof. intros. unfold expr_cmp. apply cmp_fuel; lia. Qed.

(* ---------- fuel-free unfolding ---------- *)
Definition eqb_body (a b : expr) : bool :=
  match a, b with
  | ENum x, ENum y => num_eqb x y
  | ESym x, ESym y => bytes_eqb x y
  | EDummy x i, EDummy y j => bytes_eqb x y && (i =? j)%N
  | EConst x, EConst y => bytes_eqb x y
  | EAdd c1 d1, EAdd c2 d2 => num_eqb c1 c2 && umap_eqb expr_eqb d1 d2
  | EMul c1 d1, EMul c2 d2 => num_eqb c1 c2 && list_eqb expr_eqb (flat d1) (flat d2)
  | EPow b1 e1, EPow b2 e2 => expr_eqb b1 b2 && expr_eqb e1 e2
  | EF1 c1 a1, EF1 c2 a2 => (c1 =? c2)%N && expr_eqb a1 a2
  | EF2 c1 a1 b1, EF2 c2 a2 b2 => (c1 =? c2)%N && expr_eqb a1 a2 && expr_eqb b1 b2
  | EFN c1 l1, EFN c2 l2 => (c1 =? c2)%N && list_eqb expr_eqb l1 l2
  | EFunSym n1 l1, EFunSym n2 l2 => bytes_eqb n1 n2 && list_eqb expr_eqb l1 l2
  | ELex c1 a1 b1, ELex c2 a2 b2 => (c1 =? c2)%N && expr_eqb a1 a2 && expr_eqb b1 b2
  | EDeriv a1 l1, EDeriv a2 l2 => expr_eqb a1 a2 && list_eqb expr_eqb l1 l2
  | ESubs a1 d1, ESubs a2 d2 => expr_eqb a1 a2 && list_eqb expr_eqb (flat d1) (flat d2)
  | EPw l1, EPw l2 => list_eqb expr_eqb (flat l1) (flat l2)
  | EBool x, EBool y => Bool.eqb x y
  | EInterval s1 e1 l1 r1, EInterval s2 e2 l2 r2 =>
      Bool.eqb l1 l2 && Bool.eqb r1 r2 && expr_eqb s1 s2 && expr_eqb e1 e2
  | EAtom c1, EAtom c2 => (c1 =? c2)%N
  | _, _ => false
  end.

Lemma expr_eqb_S : forall a b, expr_eqb a b = eqb (S (size a + size b)) a b.
Proof. intros. symmetry. apply eqb_big. lia. Qed.

Lemma expr_eqb_unfold : forall a b, expr_eqb a b = eqb_body a b.
Proof.
  intros. rewrite expr_eqb_S.
  destruct a; destruct b; cbn [eqb eqb_body]; try reflexivity; rewrite ?pairs_eqb_flat;
  repeat match goal with
  | |- (_ && _)%bool = (_ && _)%bool => apply (f_equal2 andb)
  | |- eqb _ ?a ?b = expr_eqb ?a ?b => apply eqb_big; szb
  | |- list_eqb _ _ _ = list_eqb _ _ _ => apply list_eqb_ext; intros; apply eqb_big; szb
  | |- umap_eqb _ _ _ = umap_eqb _ _ _ => apply umap_eqb_ext; intros; apply eqb_big; szb
  | |- ?x = ?x => reflexivity
  end.
Qed.

Lemma expr_eqb_kind : forall a b, expr_eqb a b = true -> ctor_kind a = ctor_kind b.
Proof.
  intros a b. rewrite expr_eqb_unfold.
  destruct a; destruct b; cbn [eqb_body ctor_kind]; intros H; try reflexivity; discriminate.
Qed.

Definition cmp_same (a b : expr) : Z :=
  match a, b with
  | ENum x, ENum y => num_cmp_same x y
  | ESym x, ESym y => bytes_cmp x y
  | EDummy x i, EDummy y j => if bytes_eqb x y then Ncmp i j else bytes_cmp x y
  | EConst x, EConst y => bytes_cmp x y
  | EAdd c1 d1, EAdd c2 d2 =>
      if negb (length d1 =? length d2)%nat then
        (if (length d1 <? length d2)%nat then -1 else 1)
      else
        let t := num_cmp c1 c2 in
        if negb (t =? 0) then t
        else numpairs_sized_cmp expr_cmp
               (map_of_umap expr_eqb expr_cmp d1) (map_of_umap expr_eqb expr_cmp d2)
  | EMul c1 d1, EMul c2 d2 =>
      if negb (length d1 =? length d2)%nat then
        (if (length d1 <? length d2)%nat then -1 else 1)
      else
        let t := num_cmp c1 c2 in
        if negb (t =? 0) then t else sized_cmp expr_cmp (flat d1) (flat d2)
  | EPow b1 e1, EPow b2 e2 =>
      let t := expr_cmp b1 b2 in if (t =? 0) then expr_cmp e1 e2 else t
  | EF1 _ a1, EF1 _ a2 => expr_cmp a1 a2
  | EF2 _ a1 b1, EF2 _ a2 b2 =>
      if negb (expr_eqb a1 a2) then expr_cmp a1 a2 else expr_cmp b1 b2
  | EFN _ l1, EFN _ l2 => sized_cmp expr_cmp l1 l2
  | EFunSym n1 l1, EFunSym n2 l2 =>
      if bytes_eqb n1 n2 then sized_cmp expr_cmp l1 l2
      else if (bytes_cmp n1 n2 =? -1) then -1 else 1
  | ELex _ a1 b1, ELex _ a2 b2 =>
      let t := expr_cmp a1 a2 in if (t =? 0) then expr_cmp b1 b2 else t
  | EDeriv a1 l1, EDeriv a2 l2 =>
      let t := expr_cmp a1 a2 in if (t =? 0) then sized_cmp expr_cmp l1 l2 else t
  | ESubs a1 d1, ESubs a2 d2 =>
      let t := expr_cmp a1 a2 in if (t =? 0) then sized_cmp expr_cmp (flat d1) (flat d2) else t
  | EPw l1, EPw l2 => sized_cmp expr_cmp (flat l1) (flat l2)
  | EBool x, EBool y =>
      if x then (if y then 0 else 1) else (if y then -1 else 0)
  | EInterval s1 e1 lo1 ro1, EInterval s2 e2 lo2 ro2 =>
      if lo1 && negb lo2 then -1
      else if negb lo1 && lo2 then 1
      else if ro1 && negb ro2 then 1
      else if negb ro1 && ro2 then -1
      else let t := expr_cmp s1 s2 in if (t =? 0) then expr_cmp e1 e2 else t
  | _, _ => 0
  end.

Definition cmp_body (a b : expr) : Z :=
  if negb (type_code a =? type_code b)%N then
    (if (type_code a <? type_code b)%N then -1 else 1)
  else cmp_same a b.

Lemma expr_cmp_S : forall a b, expr_cmp a b = cmp (S (size a + size b)) a b.
Proof. intros. symmetry. apply cmp_big. lia. Qed.

Lemma expr_cmp_unfold : forall a b, expr_cmp a b = cmp_body a b.
Proof.
  intros. rewrite expr_cmp_S. unfold cmp_body, cmp_same. cbn [cmp].
  destruct (negb (type_code a =? type_code b)%N); [reflexivity|].
  destruct a; destruct b; try reflexivity; rewrite ?pairs_sized_cmp_flat;
    repeat match goal with
    | |- context[cmp _ ?x ?y] => rewrite (cmp_big _ x y) by szb
    | |- context[eqb _ ?x ?y] => rewrite (eqb_big _ x y) by szb
    | |- context[sized_cmp (cmp ?f) ?l1 ?l2] =>
        rewrite (sized_cmp_ext (cmp f) expr_cmp l1 l2) by (intros; apply cmp_big; szb)
    end; try reflexivity.
  (* Add *)
  set (F := (size (EAdd coef d) + size (EAdd coef0 d0))%nat).
  assert (HF : (F = S (ksize d) + S (ksize d0))%nat) by reflexivity.
  rewrite (map_of_umap_ext (eqb F) (cmp F) expr_eqb expr_cmp d);
    [ | intros x y Hb; (split; [apply eqb_big | apply cmp_big]; lia) ].
  rewrite (map_of_umap_ext (eqb F) (cmp F) expr_eqb expr_cmp d0);
    [ | intros x y Hb; (split; [apply eqb_big | apply cmp_big]; lia) ].
  rewrite (numpairs_sized_cmp_ext (cmp F) expr_cmp); [reflexivity|].
  intros x y Hx Hy. apply map_of_umap_keys in Hx. apply map_of_umap_keys in Hy.
  apply in_size_keys in Hx. apply in_size_keys in Hy. fold (ksize d) in Hx. fold (ksize d0) in Hy.
  apply cmp_big; lia.
Qed.

Lemma expr_cmp_kind_diff : forall a b, ctor_kind a <> ctor_kind b ->
  expr_cmp a b = if negb (type_code a =? type_code b)%N then
                   (if (type_code a <? type_code b)%N then -1 else 1) else 0.
Proof.
  intros a b H. rewrite expr_cmp_unfold. unfold cmp_body, cmp_same.
  destruct (negb (type_code a =? type_code b)%N); [reflexivity|].
  destruct a; destruct b; try reflexivity; exfalso; apply H; reflexivity.
Qed.

Lemma expr_cmp_tc_ne : forall a b, type_code a <> type_code b ->
  expr_cmp a b = if (type_code a <? type_code b)%N then -1 else 1.
Proof.
  intros a b H. rewrite expr_cmp_unfold. unfold cmp_body.
  destruct (N.eqb_spec (type_code a) (type_code b)); [contradiction|reflexivity].
Qed.
Lemma expr_cmp_tc_eq : forall a b, type_code a = type_code b -> expr_cmp a b = cmp_same a b.
Proof.
  intros a b H. rewrite expr_cmp_unfold. unfold cmp_body. rewrite H, N.eqb_refl. reflexivity.
Qed.

(* equal type codes on well-formed expressions: same constructor *)
Lemma wf_same_kind : forall a b, wf a = true -> wf b = true -> type_code a = type_code b ->
  ctor_kind a = ctor_kind b.
Proof.
  unfold wf. intros a b Wa Wb. apply andb_prop in Wa. apply andb_prop in Wb.
  apply node_ok_same_kind; apply codes_ok_node; tauto.
Qed.

(* ---------- children ---------- *)
Definition children (e : expr) : list expr :=
  match e with
  | EAdd _ d => map fst d
  | EMul _ d => flat d
  | EPow b x => [b; x]
  | EF1 _ a => [a]
  | EF2 _ a b => [a; b]
  | EFN _ l => l
  | EFunSym _ l => l
  | ELex _ a b => [a; b]
  | EDeriv a l => a :: l
  | ESubs a d => a :: flat d
  | EPw l => flat l
  | EInterval s x _ _ => [s; x]
  | _ => []
  end.

Lemma children_size : forall e x, In x (children e) -> (size x < size e)%nat.
Proof.
  destruct e; cbn [children In]; intros x H; try contradiction;
    repeat match goal with H : _ \/ _ |- _ => destruct H | H : False |- _ => contradiction end;
    subst; try szb.
Qed.

Lemma children_codes_ok : forall e x, codes_ok e = true -> In x (children e) -> codes_ok x = true.
Proof.
  destruct e; cbn [children In codes_ok]; intros x W H; try contradiction;
    rewrite ?forallb_flat in W;
    repeat match goal with
    | H : (_ && _)%bool = true |- _ => apply andb_prop in H; destruct H
    | H : _ \/ _ |- _ => destruct H
    | H : False |- _ => contradiction
    end; subst; try assumption;
    try (eapply forallb_forall in H; [exact H | eassumption]).
  apply in_map_iff in H. destruct H as [p [<- Hp]].
  eapply forallb_forall in H1; [exact H1 | exact Hp].
Qed.

Lemma children_wf_struct : forall e x, wf_struct e = true -> In x (children e) -> wf_struct x = true.
Proof.
  destruct e; cbn [children In wf_struct]; intros x W H; try contradiction;
    rewrite ?forallb_flat in W;
    repeat match goal with
    | H : (_ && _)%bool = true |- _ => apply andb_prop in H; destruct H
    | H : _ \/ _ |- _ => destruct H
    | H : False |- _ => contradiction
    end; subst; try assumption;
    try (eapply forallb_forall in H; [exact H | eassumption]).
  apply in_map_iff in H. destruct H as [p [<- Hp]].
  eapply forallb_forall in H2; [|exact Hp]. apply andb_prop in H2. apply H2.
Qed.

Lemma children_wf : forall e x, wf e = true -> In x (children e) -> wf x = true.
Proof.
  unfold wf. intros e x W H. apply andb_prop in W. destruct W as [W1 W2].
  rewrite (children_wf_struct e x W1 H), (children_codes_ok e x W2 H). reflexivity.
Qed.

(* what [wf] says about a sum *)
Lemma wf_add : forall c d, wf (EAdd c d) = true ->
  num_wf c = true /\ (forall p, In p d -> wf (fst p) = true /\ num_wf (snd p) = true) /\
  pairwise_ne (map fst d) = true.
Proof.
  intros c d W. pose proof (fun x => children_wf _ x W) as CW. unfold wf in W. cbn [wf_struct] in W.
  repeat match goal with H : (_ && _)%bool = true |- _ => apply andb_prop in H; destruct H end.
  repeat split; try assumption.
  - apply CW. cbn [children]. apply in_map. assumption.
  - eapply forallb_forall in H2; [|eassumption]. apply andb_prop in H2. apply H2.
Qed.
Lemma wf_num : forall n, wf (ENum n) = num_wf n.
Proof. intros. unfold wf. rewrite codes_ok_num. cbn [wf_struct]. apply andb_true_r. Qed.
Lemma wf_coef : forall e, wf e = true ->
  match e with EAdd c _ | EMul c _ => num_wf c = true | ENum n => num_wf n = true
             | EDummy _ i => (i <? W64)%N = true | _ => True end.
Proof.
  intros e W. unfold wf in W. apply andb_prop in W. destruct W as [W _].
  destruct e; try exact I; cbn [wf_struct] in W;
    repeat match goal with H : (_ && _)%bool = true |- _ => apply andb_prop in H; destruct H end;
    assumption.
Qed.
