(* Fuel monotonicity of [arith], of the wrappers and of the API (continuation of ArithFuel.v). *)
From SE Require Export Expr.ArithFuel.
Local Open Scope Z_scope.

Lemma le_trans : forall A (x y z : res A), le_res x y -> le_res y z -> le_res x z.
Proof. intros A x y z [-> | ->] H; [left; reflexivity | exact H]. Qed.

Lemma arith_mono_S : forall f c, le_res (arith f c) (arith (S f) c).
Proof.
  induction f as [|f IH]; intros c; [left; reflexivity|].
  change (le_res (step (arith f) c) (step (arith (S f)) c)). apply step_mono. exact IH.
Qed.

Lemma arith_mono : forall f f' c, (f <= f')%nat -> le_res (arith f c) (arith f' c).
Proof.
  intros f f' c L. induction L as [|f' L IH]; [apply le_refl|].
  eapply le_trans; [exact IH | apply arith_mono_S].
Qed.

(* the statement used by the properties: a result (value or exception) obtained with some fuel
   is the result for every larger fuel *)
Theorem arith_fuel_mono : forall f f' c r, (f <= f')%nat -> arith f c = r -> r <> ErrFuel -> arith f' c = r.
Proof.
  intros f f' c r L E NF. destruct (arith_mono f f' c L) as [Q|Q]; [congruence|]. congruence.
Qed.

Lemma e_mul_mono : forall f f' a b, (f <= f')%nat -> le_res (e_mul f a b) (e_mul f' a b).
Proof. intros. unfold e_mul. apply rE_mono. intros c. now apply arith_mono. Qed.
Lemma e_pow_mono : forall f f' a b, (f <= f')%nat -> le_res (e_pow f a b) (e_pow f' a b).
Proof. intros. unfold e_pow. apply rE_mono. intros c. now apply arith_mono. Qed.

Lemma le_ok : forall A (x y : res A) r, le_res x y -> x = Ok r -> y = Ok r.
Proof. intros A x y r [-> | ->] E; [discriminate | exact E]. Qed.

Theorem api_fuel_mono : forall f f' op args, (f <= f')%nat -> le_res (api f op args) (api f' op args).
Proof.
  intros f f' op args L.
  assert (M : forall a b, le_res (e_mul f a b) (e_mul f' a b)) by (intros; now apply e_mul_mono).
  assert (P : forall a b, le_res (e_pow f a b) (e_pow f' a b)) by (intros; now apply e_pow_mono).
  assert (D : forall a b, le_res (e_div f a b) (e_div f' a b)).
  { intros a b. unfold e_div. destruct (is_number_and_zero b); [apply le_refl|].
    apply bind_mono; [apply P | intros; apply M]. }
  unfold api. destruct op.
  - destruct args as [|a [|b [|c l]]]; apply le_refl.
  - destruct args as [|a [|b [|c l]]]; try apply le_refl.
    unfold e_sub. apply bind_mono; [apply M | intros; apply le_refl].
  - destruct args as [|a [|b [|c l]]]; try apply le_refl. apply M.
  - destruct args as [|a [|b [|c l]]]; try apply le_refl. apply D.
  - destruct args as [|a [|b [|c l]]]; try apply le_refl. apply P.
  - destruct args as [|a [|b l]]; try apply le_refl. unfold e_neg. apply M.
  - destruct args as [|a [|b l]]; try apply le_refl. unfold e_sqrt. apply bind_mono; [apply D | intros; apply P].
  - destruct args as [|a [|b l]]; try apply le_refl. unfold e_cbrt. apply bind_mono; [apply D | intros; apply P].
  - apply le_refl.
  - unfold e_mulv. apply bind_mono; [|intros; apply le_refl]. apply fold_res_mono. intros st x.
    destruct x; try (apply mul_operand_mono; intros; now apply arith_mono).
    apply bind_mono; [apply le_refl | intros; apply datn_loop_mono; intros; now apply arith_mono].
Qed.
