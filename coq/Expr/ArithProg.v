(* C03: canonical form over PROGRAMS of API calls.  A program is a list of calls whose operands are
   earlier results (registers); [run] executes it with the model, checking before each call the
   guard of the theorem that covers it.  Every value ever produced is canonical and well formed. *)
From SE Require Export Expr.ArithMulProofs.
Local Open Scope Z_scope.

Inductive instr := ICall (op : apiop) (srcs : list nat).

Definition op_guard (op : apiop) (args : list expr) : bool :=
  match op, args with
  | OAdd, [a; b] => add_operand_ok a && add_operand_ok b
  | OAddV, l => forallb add_operand_ok l
  | OMul, [a; b] => mul_operand_ok a && mul_operand_ok b
  | ONeg, [a] => mul_operand_ok a
  | _, _ => false
  end.

Fixpoint fetch (env : list expr) (srcs : list nat) : option (list expr) :=
  match srcs with
  | [] => Some []
  | i :: r => match nth_error env i, fetch env r with Some x, Some l => Some (x :: l) | _, _ => None end
  end.

(* None: a register is missing, a guard does not hold, or the call did not return a value *)
Fixpoint run (fuel : nat) (prog : list instr) (env : list expr) : option (list expr) :=
  match prog with
  | [] => Some env
  | ICall op srcs :: rest =>
      match fetch env srcs with
      | Some args =>
          if op_guard op args then
            match api fuel op args with
            | Ok r => run fuel rest (env ++ [r])
            | _ => None
            end
          else None
      | None => None
      end
  end.

Definition good (e : expr) : Prop := canonical e = true /\ wf e = true.

Lemma addv_canonical : forall l r, (forall x, In x l -> add_operand_ok x = true) -> e_addv l = Ok r -> good r.
Proof.
  intros l r H E. destruct (e_addv_spec l H) as (d & F & D & _). rewrite F in E. injection E as <-.
  split; [apply canonical_afd | apply wf_afd]; auto using csum_xok.
Qed.

Lemma call_good : forall fuel op args r, op_guard op args = true -> api fuel op args = Ok r -> good r.
Proof.
  intros fuel op args r G E. unfold op_guard in G. unfold api in E.
  destruct op; try discriminate G.
  - destruct args as [|a [|b [|c l]]]; try discriminate G. apply andb_prop in G. destruct G as [Ha Hb].
    destruct (add_canonical a b r Ha Hb E). split; assumption.
  - destruct args as [|a [|b [|c l]]]; try discriminate G. apply andb_prop in G. destruct G as [Ha Hb].
    destruct (mul_canonical fuel a b r Ha Hb E) as (_ & C & W). split; assumption.
  - destruct args as [|a [|b l]]; try discriminate G. unfold e_neg in E.
    destruct (mul_canonical fuel e_minus_one a r eq_refl G E) as (_ & C & W). split; assumption.
  - apply (addv_canonical args r); auto. intros x Hx. rewrite forallb_forall in G. auto.
Qed.

Theorem api_guarded_reachable_canonical : forall fuel prog env env',
  Forall good env -> run fuel prog env = Some env' -> Forall good env'.
Proof.
  intros fuel prog. induction prog as [|[op srcs] rest IH]; intros env env' H R; cbn [run] in R.
  - injection R as <-. exact H.
  - destruct (fetch env srcs) as [args|]; [|discriminate R].
    destruct (op_guard op args) eqn:G; [|discriminate R].
    destruct (api fuel op args) as [r| | |] eqn:E; try discriminate R.
    apply (IH (env ++ [r]) env'); auto. apply Forall_app. split; [exact H|].
    constructor; [|constructor]. eapply call_good; eauto.
Qed.
