(* L2 -- the structural canonical-form invariant (C03): Add::is_canonical, Mul::is_canonical,
   Pow::is_canonical and the representation invariants of Rational / Complex, transcribed, and the
   DEEP predicate [canonical] (every node of the tree satisfies the predicate of its class).
   Function applications, relationals, sets ... are opaque here: only their arguments are
   checked (their own is_canonical predicates are evaluated on the library by the driver). *)
From SE Require Export Expr.Arith.
Local Open Scope Z_scope.

(* the invariants of the number classes: Rational in lowest terms with denominator > 1,
   Complex with both parts in lowest terms and a non-zero imaginary part, Infty with a direction
   in {-1, 0, 1}; doubles are any 64-bit pattern *)
Definition num_canonical (a : number) : bool :=
  match a with
  | NInt _ => true
  | NRat n d => q_lowest n d && negb (d =? 1)%positive
  | NCplx rn rd imn imd => q_lowest rn rd && q_lowest imn imd && negb (imn =? 0)
  | NDbl b => (b <? 18446744073709551616)%N
  | NCDbl re im => (re <? 18446744073709551616)%N && (im <? 18446744073709551616)%N
  | NInf d => (d =? 1) || (d =? 0) || (d =? -1)
  | NNaN => true
  end.

Definition mul_coef_of (e : expr) : option number :=
  match e with EMul c _ => Some c | _ => None end.
Definition is_Mul (e : expr) : bool := match e with EMul _ _ => true | _ => false end.
Definition is_Pow (e : expr) : bool := match e with EPow _ _ => true | _ => false end.
Definition is_IntOrRat (e : expr) : bool :=
  match e with ENum (NInt _) | ENum (NRat _ _) => true | _ => false end.
Definition is_inexact_number (e : expr) : bool :=
  match e with ENum n => negb (num_is_exact n) | _ => false end.

(* Add::is_canonical(coef, dict) *)
Definition add_entry_canonical (p : expr * number) : bool :=
  let k := fst p in let v := snd p in
  negb (is_number k)                                   (* e.g. 2*3; also the key 1 *)
  && negb (num_is_zero v)                               (* e.g. x*0 *)
  && match k with EMul c _ => num_is_one c | _ => true end.   (* e.g. {3x: 2} *)
Definition add_node_canonical (coef : number) (d : adict) : bool :=
  match d with
  | [] => false
  | [_] => negb (num_is_zero coef) && forallb add_entry_canonical d
  | _ => forallb add_entry_canonical d
  end.

Definition is_int_val (e : expr) (z : Z) : bool :=
  match e with ENum (NInt x) => x =? z | _ => false end.

(* Mul::is_canonical(coef, dict) *)
Definition mul_entry_canonical (p : expr * expr) : bool :=
  let k := fst p in let v := snd p in
  negb (is_IntOrRat k && is_Integer v)                  (* e.g. 2^3, (2/3)^4 *)
  && negb (is_int_val k 0) && negb (is_int_val k 1)     (* e.g. 0^x, 1^x *)
  && negb (is_number_and_zero v)                        (* e.g. x^0 *)
  && match k with
     | EMul c _ =>
         negb (is_Integer v)                            (* e.g. (x*y)^2 *)
         && negb (is_number v && num_neq_int c 1 && num_neq_int c (-1))   (* e.g. (2x)^(1/2) *)
     | _ => true
     end
  && negb (is_Pow k && is_Integer v)                    (* e.g. (x^y)^2 *)
  && negb (is_number k && is_number v && (is_inexact_number k || is_inexact_number v)).
                                                        (* e.g. 0.5^2.0 *)
Definition mul_node_canonical (coef : number) (d : mdict) : bool :=
  negb (num_is_zero coef)
  && match d with
     | [] => false
     | [_] => negb (num_is_one coef) && forallb mul_entry_canonical d
     | _ => forallb mul_entry_canonical d
     end.

(* Pow::is_canonical(base, exp) *)
Definition rat_outside_unit (e : expr) : bool :=
  match e with ENum (NRat n d) => (n <? 0) || (Zpos d <? n) | _ => false end.
Definition is_re_zero_complex (e : expr) : bool :=
  match e with ENum (NCplx rn _ _ _) => rn =? 0 | _ => false end.
Definition pow_node_canonical (b e : expr) : bool :=
  if is_int_val b 0 then negb (is_number e)
  else
    negb (is_int_val b 1)
    && negb (is_number_and_zero e)
    && negb (is_int_val e 1)
    && negb (is_IntOrRat b && is_Integer e)
    && negb (is_Mul b && is_Integer e)
    && negb (is_Pow b && is_Integer e)
    && negb (is_IntOrRat b && rat_outside_unit e)
    && negb (is_re_zero_complex b && is_Integer e)
    && negb (is_number b && is_number e && (is_inexact_number b || is_inexact_number e)).

(* the predicate of the node itself *)
Definition node_canonical (e : expr) : bool :=
  match e with
  | ENum n => num_canonical n
  | EAdd c d => num_canonical c && forallb (fun p => num_canonical (snd p)) d && add_node_canonical c d
  | EMul c d => num_canonical c && mul_node_canonical c d
  | EPow b x => pow_node_canonical b x
  | _ => true
  end.

(* every node of the tree *)
Fixpoint canonical (e : expr) : bool :=
  node_canonical e &&
  match e with
  | ENum _ | ESym _ | EConst _ | EBool _ | EAtom _ | EDummy _ _ => true
  | EAdd _ d => forallb (fun p => canonical (fst p)) d
  | EMul _ d => forallb (fun p => canonical (fst p) && canonical (snd p)) d
  | EPow b x => canonical b && canonical x
  | EF1 _ a => canonical a
  | EF2 _ a b => canonical a && canonical b
  | EFN _ l => forallb canonical l
  | EFunSym _ l => forallb canonical l
  | ELex _ a b => canonical a && canonical b
  | EDeriv a l => canonical a && forallb canonical l
  | ESubs a d => canonical a && forallb (fun p => canonical (fst p) && canonical (snd p)) d
  | EPw l => forallb (fun p => canonical (fst p) && canonical (snd p)) l
  | EInterval s x _ _ => canonical s && canonical x
  end.

(* the first node (pre-order) that violates its class predicate, for diagnostics *)
Fixpoint first_bad (fuel : nat) (e : expr) : option expr :=
  match fuel with
  | O => None
  | S f =>
      if negb (node_canonical e) then Some e
      else
        let first (l : list expr) :=
          fold_left (fun acc x => match acc with Some _ => acc | None => first_bad f x end) l None in
        match e with
        | EAdd _ d => first (map fst d)
        | EMul _ d => first (flat_map (fun p => [fst p; snd p]) d)
        | EPow b x => first [b; x]
        | EF1 _ a => first [a]
        | EF2 _ a b | ELex _ a b | EInterval a b _ _ => first [a; b]
        | EFN _ l | EFunSym _ l => first l
        | EDeriv a l => first (a :: l)
        | ESubs a d => first (a :: flat_map (fun p => [fst p; snd p]) d)
        | EPw l => first (flat_map (fun p => [fst p; snd p]) l)
        | _ => None
        end
  end.
Definition canonical_witness (e : expr) : option expr := first_bad (size e) e.

(* ---------- diagnostics: WHICH rule a node violates (0 = none); used only to name the class of a
   violation found on an implementation result *)
Local Open Scope N_scope.
Definition first_rule {A : Type} (f : A -> N) (l : list A) : N :=
  fold_left (fun acc x => if acc =? 0 then f x else acc) l 0.
Definition num_rule (a : number) : N :=
  if num_canonical a then 0
  else match a with NRat _ _ => 40 | NCplx _ _ _ _ => 41 | NInf _ => 43 | _ => 42 end.
Definition add_entry_rule (p : expr * number) : N :=
  if is_number (fst p) then 3
  else if num_is_zero (snd p) then 4
  else match fst p with EMul c _ => if num_is_one c then 0 else 5 | _ => 0 end.
Definition mul_entry_rule (p : expr * expr) : N :=
  let k := fst p in let v := snd p in
  if is_IntOrRat k && is_Integer v then 13
  else if is_int_val k 0 then 14
  else if is_int_val k 1 then 15
  else if is_number_and_zero v then 16
  else if is_Mul k && is_Integer v then 17
  else if match k with EMul c _ => is_number v && num_neq_int c 1 && num_neq_int c (-1) | _ => false end then 18
  else if is_Pow k && is_Integer v then 19
  else if is_number k && is_number v && (is_inexact_number k || is_inexact_number v) then 20
  else 0.
Definition pow_rule (b e : expr) : N :=
  if is_int_val b 0 then (if is_number e then 30 else 0)
  else if is_int_val b 1 then 31
  else if is_number_and_zero e then 32
  else if is_int_val e 1 then 33
  else if is_IntOrRat b && is_Integer e then 34
  else if is_Mul b && is_Integer e then 35
  else if is_Pow b && is_Integer e then 36
  else if is_IntOrRat b && rat_outside_unit e then 37
  else if is_re_zero_complex b && is_Integer e then 38
  else if is_number b && is_number e && (is_inexact_number b || is_inexact_number e) then 39
  else 0.
Definition node_rule (e : expr) : N :=
  match e with
  | ENum n => num_rule n
  | EAdd c d =>
      if negb (num_canonical c && forallb (fun p => num_canonical (snd p)) d) then 44
      else match d with
           | [] => 1
           | [_] => if num_is_zero c then 2 else first_rule add_entry_rule d
           | _ => first_rule add_entry_rule d
           end
  | EMul c d =>
      if negb (num_canonical c) then 44
      else if num_is_zero c then 10
      else match d with
           | [] => 11
           | [_] => if num_is_one c then 12 else first_rule mul_entry_rule d
           | _ => first_rule mul_entry_rule d
           end
  | EPow b x => pow_rule b x
  | _ => 0
  end.
