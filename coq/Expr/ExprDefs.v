(* L2 -- the expression core: abstract syntax of SymEngine's Basic trees.
   A value of [expr] is exactly what the drivers' canonical dump (harness/dump.h) prints:
   the tree with type codes, integer values, double bit patterns, and dictionary
   entries IN THE ORDER THE IMPLEMENTATION ITERATES THEM (hash-bucket order for Add's
   unordered_map, RCPBasicKeyLess order for Mul's map, vector order elsewhere). *)
From SE Require Export Base.Word64 Num.NumDefs Gen.TypeCodes.
Local Open Scope N_scope.

Inductive expr :=
| ENum (n : number)
| ESym (name : list N)                        (* Symbol: name bytes *)
| EDummy (name : list N) (idx : N)            (* Dummy: name, dummy_index *)
| EConst (name : list N)                      (* Constant: pi, E, EulerGamma, ... *)
| EAdd (coef : number) (d : list (expr * number))   (* Add: coef_ + sum key*value *)
| EMul (coef : number) (d : list (expr * expr))     (* Mul: coef_ * prod key**value *)
| EPow (b e : expr)
| EF1 (code : N) (a : expr)                   (* OneArgFunction subclasses, Not *)
| EF2 (code : N) (a b : expr)                 (* TwoArgBasic<Function|Relational> subclasses *)
| EFN (code : N) (args : list expr)           (* MultiArgFunction subclasses, And, Or, Xor,
                                                 FiniteSet, Union, Intersection: hash in order,
                                                 compare = size then lexicographic *)
| EFunSym (name : list N) (args : list expr)  (* FunctionSymbol *)
| ELex (code : N) (a b : expr)                (* Contains, Complement: lexicographic compare *)
| EDeriv (a : expr) (xs : list expr)          (* Derivative: arg, multiset of symbols in order *)
| ESubs (a : expr) (d : list (expr * expr))   (* Subs: arg, map in order *)
| EPw (l : list (expr * expr))                (* Piecewise: (expr, condition) pairs *)
| EBool (b : bool)                            (* BooleanAtom *)
| EInterval (s e : expr) (lo ro : bool)       (* Interval start end left_open right_open *)
| EAtom (code : N).                           (* classes without fields: Reals, EmptySet, ... *)

(* number of constructors, used as fuel for the fuelled recursive functions *)
Fixpoint size (e : expr) : nat :=
  match e with
  | ENum _ | ESym _ | EDummy _ _ | EConst _ | EBool _ | EAtom _ => 1
  | EAdd _ d => S (fold_right (fun p acc => size (fst p) + 1 + acc) 0 d)%nat
  | EMul _ d => S (fold_right (fun p acc => size (fst p) + size (snd p) + acc) 0 d)%nat
  | EPow b e => S (size b + size e)
  | EF1 _ a => S (size a)
  | EF2 _ a b => S (size a + size b)
  | EFN _ l => S (fold_right (fun x acc => size x + acc) 0 l)%nat
  | EFunSym _ l => S (fold_right (fun x acc => size x + acc) 0 l)%nat
  | ELex _ a b => S (size a + size b)
  | EDeriv a l => S (size a + fold_right (fun x acc => size x + acc) 0 l)%nat
  | ESubs a d => S (size a + fold_right (fun p acc => size (fst p) + size (snd p) + acc) 0 d)%nat
  | EPw l => S (fold_right (fun p acc => size (fst p) + size (snd p) + acc) 0 l)%nat
  | EInterval s e _ _ => S (size s + size e)
  end.

(* the type code of a node (Basic::get_type_code) *)
Definition num_type_code (n : number) : N :=
  match n with
  | NInt _ => TC_Integer
  | NRat _ _ => TC_Rational
  | NCplx _ _ _ _ => TC_Complex
  | NDbl _ => TC_RealDouble
  | NCDbl _ _ => TC_ComplexDouble
  | NInf _ => TC_Infty
  | NNaN => TC_NaN
  end.

Definition type_code (e : expr) : N :=
  match e with
  | ENum n => num_type_code n
  | ESym _ => TC_Symbol
  | EDummy _ _ => TC_Dummy
  | EConst _ => TC_Constant
  | EAdd _ _ => TC_Add
  | EMul _ _ => TC_Mul
  | EPow _ _ => TC_Pow
  | EF1 c _ | EF2 c _ _ | EFN c _ | ELex c _ _ | EAtom c => c
  | EFunSym _ _ => TC_FunctionSymbol
  | EDeriv _ _ => TC_Derivative
  | ESubs _ _ => TC_Subs
  | EPw _ => TC_Piecewise
  | EBool _ => TC_BooleanAtom
  | EInterval _ _ _ _ => TC_Interval
  end.
