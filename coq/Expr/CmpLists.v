(* Lexicographic comparison of element lists: range, antisymmetry, zero iff pointwise eq,
   full transitivity -- from the corresponding facts about the elements. *)
From SE Require Export Expr.HashProofs Expr.Sorting.
From Coq Require Import Lia ZifyBool ZifyNat ZifyN.
Local Open Scope Z_scope.

(* comparison of two naturals (lengths) / two codes *)
Definition natcmp (n m : nat) : Z := if (n =? m)%nat then 0 else if (n <? m)%nat then -1 else 1.
Lemma natcmp_range : forall n m, in_range (natcmp n m).
Proof. unfold natcmp, in_range. intros. dif; lia. Qed.
Lemma natcmp_antisym : forall n m, natcmp m n = - natcmp n m.
Proof. unfold natcmp. intros. dif; lia. Qed.
Lemma natcmp_zero : forall n m, natcmp n m = 0 <-> n = m.
Proof. unfold natcmp. intros. dif; lia. Qed.
Lemma natcmp_FTz : forall n m k, FTz (natcmp n m) (natcmp m k) (natcmp n k).
Proof. unfold natcmp, FTz. intros. dif; lia. Qed.
Lemma natcmp_lex : forall n m u,
  (if negb (n =? m)%nat then (if (n <? m)%nat then -1 else 1) else u) = lexZ (natcmp n m) u.
Proof. unfold natcmp, lexZ. intros. dif; try reflexivity; try lia; discriminate. Qed.

Section Lists.
  Variable c : expr -> expr -> Z.

  Lemma lex_cmp_range : forall l1 l2, (forall x y, in_range (c x y)) -> in_range (lex_cmp c l1 l2).
  Proof.
    intros l1 l2 H. revert l2. induction l1; destruct l2 as [|e0 l2]; cbn [lex_cmp]; try (right; left; reflexivity).
    destruct (c a e0 =? 0); [apply IHl1 | apply H].
  Qed.
  Lemma sized_cmp_range : forall l1 l2, (forall x y, in_range (c x y)) -> in_range (sized_cmp c l1 l2).
  Proof.
    intros. unfold sized_cmp. pose proof (lex_cmp_range l1 l2 H). unfold in_range in *. dif; lia.
  Qed.

  Lemma lex_cmp_range_in : forall l1 l2, (forall x y, In x l1 -> In y l2 -> in_range (c x y)) ->
    in_range (lex_cmp c l1 l2).
  Proof.
    induction l1; destruct l2 as [|e0 l2]; cbn [lex_cmp]; intros H; try (right; left; reflexivity).
    destruct (c a e0 =? 0); [apply IHl1; intros; apply H; right; assumption | apply H; left; reflexivity].
  Qed.

  Lemma lex_cmp_antisym : forall l1 l2,
    (forall x y, In x l1 -> In y l2 -> c x y = - c y x) -> lex_cmp c l1 l2 = - lex_cmp c l2 l1.
  Proof.
    induction l1; destruct l2 as [|e0 l2]; cbn [lex_cmp]; intros H; try reflexivity.
    rewrite (H a e0) by (left; reflexivity).
    rewrite IHl1 by (intros; apply H; right; assumption).
    destruct (c e0 a =? 0) eqn:E1; destruct (- c e0 a =? 0) eqn:E2; lia.
  Qed.
  Lemma sized_cmp_antisym : forall l1 l2,
    (forall x y, In x l1 -> In y l2 -> c x y = - c y x) -> sized_cmp c l1 l2 = - sized_cmp c l2 l1.
  Proof.
    intros. unfold sized_cmp. rewrite (lex_cmp_antisym l1 l2 H). dif; lia.
  Qed.

End Lists.

Section ListsE.
  Variable c : expr -> expr -> Z.
  Variable e : expr -> expr -> bool.

  Lemma list_eqb_length : forall l1 l2, list_eqb e l1 l2 = true -> length l1 = length l2.
  Proof.
    induction l1; destruct l2 as [|e0 l2]; cbn; intros H; try discriminate; [reflexivity|].
    apply andb_prop in H. f_equal. apply IHl1. apply H.
  Qed.

  Lemma lex_cmp_eq_iff : forall l1 l2, length l1 = length l2 ->
    (forall x y, In x l1 -> In y l2 -> (c x y = 0 <-> e x y = true)) ->
    (lex_cmp c l1 l2 = 0 <-> list_eqb e l1 l2 = true).
  Proof.
    induction l1; destruct l2 as [|e0 l2]; cbn [lex_cmp list_eqb length]; intros L H; try discriminate L.
    - tauto.
    - pose proof (H a e0 (or_introl eq_refl) (or_introl eq_refl)) as Ha.
      assert (IH : lex_cmp c l1 l2 = 0 <-> list_eqb e l1 l2 = true).
      { apply IHl1; [lia|]. intros; apply H; right; assumption. }
      destruct (c a e0 =? 0) eqn:E1; destruct (e a e0) eqn:E2; cbn [andb]; try tauto.
      + apply Z.eqb_eq in E1. apply Ha in E1. discriminate.
      + apply Z.eqb_neq in E1. destruct Ha as [_ Ha]. specialize (Ha eq_refl). contradiction.
  Qed.
  Lemma sized_cmp_eq_iff : forall l1 l2,
    (forall x y, In x l1 -> In y l2 -> (c x y = 0 <-> e x y = true)) ->
    (sized_cmp c l1 l2 = 0 <-> list_eqb e l1 l2 = true).
  Proof.
    intros l1 l2 H. unfold sized_cmp. destruct (Nat.eqb_spec (length l1) (length l2)) as [L|L].
    - apply lex_cmp_eq_iff; assumption.
    - split; [dif; lia|]. intros E. apply list_eqb_length in E. contradiction.
  Qed.

End ListsE.

Section ListsT.
  Variable c : expr -> expr -> Z.

  Lemma lex_cmp_FT : forall l1 l2 l3, length l1 = length l2 -> length l2 = length l3 ->
    (forall x y, in_range (c x y)) ->
    (forall x y z, In x l1 -> In y l2 -> In z l3 -> FT c x y z) ->
    FT (lex_cmp c) l1 l2 l3.
  Proof.
    induction l1; destruct l2 as [|e0 l2]; destruct l3 as [|e1 l3]; cbn [length]; intros L1 L2 R H;
      try discriminate L1; try discriminate L2.
    - unfold FT. cbn [lex_cmp]. lia.
    - assert (IH : FT (lex_cmp c) l1 l2 l3).
      { apply IHl1; try lia; auto. intros; apply H; right; assumption. }
      pose proof (H a e0 e1 (or_introl eq_refl) (or_introl eq_refl) (or_introl eq_refl)) as Ha.
      pose proof (R a e0). pose proof (R e0 e1). pose proof (R a e1).
      rewrite FT_FTz in *. cbn [lex_cmp]. apply (FTz_lex (c a e0) (c e0 e1) (c a e1)); assumption.
  Qed.
  Lemma sized_cmp_FT : forall l1 l2 l3,
    (forall x y, in_range (c x y)) ->
    (forall x y z, In x l1 -> In y l2 -> In z l3 -> FT c x y z) ->
    FT (sized_cmp c) l1 l2 l3.
  Proof.
    intros l1 l2 l3 R H. pose proof (lex_cmp_FT l1 l2 l3) as LF.
    unfold FT in *. unfold sized_cmp.
    destruct (Nat.eqb_spec (length l1) (length l2)) as [L1|L1];
    destruct (Nat.eqb_spec (length l2) (length l3)) as [L2|L2];
    destruct (Nat.eqb_spec (length l1) (length l3)) as [L3|L3]; try lia;
      first [ apply LF; assumption | clear LF H; repeat split; intros A B; dif; lia ].
  Qed.
End ListsT.

(* ---------- lists of (key, coefficient) entries ---------- *)
Section NumPairs.
  Variable c : expr -> expr -> Z.

  Definition nwf (m : list (expr * number)) : Prop := forall p, In p m -> num_wf (snd p) = true.
  Lemma nwf_tail : forall p m, nwf (p :: m) -> nwf m.
  Proof. intros p m H q Hq. apply H. right. exact Hq. Qed.

  Lemma numpairs_lex_cmp_range : forall l1 l2, (forall x y, in_range (c x y)) ->
    in_range (numpairs_lex_cmp c l1 l2).
  Proof.
    intros l1 l2 H. revert l2.
    induction l1 as [|[k1 v1] l1 IH]; destruct l2 as [|[k2 v2] l2]; cbn [numpairs_lex_cmp];
      try (right; left; reflexivity).
    destruct (c k1 k2 =? 0); [|apply H]. destruct (num_cmp v1 v2 =? 0); [apply IH | apply num_cmp_range].
  Qed.
  Lemma numpairs_sized_cmp_range : forall l1 l2, (forall x y, in_range (c x y)) ->
    in_range (numpairs_sized_cmp c l1 l2).
  Proof.
    intros. unfold numpairs_sized_cmp. pose proof (numpairs_lex_cmp_range l1 l2 H).
    unfold in_range in *. dif; lia.
  Qed.

  Lemma numpairs_lex_cmp_antisym : forall l1 l2, nwf l1 -> nwf l2 ->
    (forall p q, In p l1 -> In q l2 -> c (fst p) (fst q) = - c (fst q) (fst p)) ->
    numpairs_lex_cmp c l1 l2 = - numpairs_lex_cmp c l2 l1.
  Proof.
    induction l1 as [|[k1 v1] l1 IH]; destruct l2 as [|[k2 v2] l2]; cbn [numpairs_lex_cmp];
      intros W1 W2 H; try reflexivity.
    change (lexZ (c k1 k2) (lexZ (num_cmp v1 v2) (numpairs_lex_cmp c l1 l2)) =
            - lexZ (c k2 k1) (lexZ (num_cmp v2 v1) (numpairs_lex_cmp c l2 l1))).
    apply lexZ_antisym.
    - apply (H (k1, v1) (k2, v2)); left; reflexivity.
    - apply lexZ_antisym.
      + apply num_cmp_antisym; [apply (W1 (k1, v1)) | apply (W2 (k2, v2))]; left; reflexivity.
      + apply IH; [eapply nwf_tail; eassumption | eapply nwf_tail; eassumption |].
        intros; apply H; right; assumption.
  Qed.
  Lemma numpairs_sized_cmp_antisym : forall l1 l2, nwf l1 -> nwf l2 ->
    (forall p q, In p l1 -> In q l2 -> c (fst p) (fst q) = - c (fst q) (fst p)) ->
    numpairs_sized_cmp c l1 l2 = - numpairs_sized_cmp c l2 l1.
  Proof.
    intros. unfold numpairs_sized_cmp. rewrite (numpairs_lex_cmp_antisym l1 l2) by assumption. dif; lia.
  Qed.

End NumPairs.

Section NumPairsE.
  Variable c : expr -> expr -> Z.
  Variable e : expr -> expr -> bool.

  Definition entry_eq (p q : expr * number) : Prop :=
    e (fst p) (fst q) = true /\ num_eqb (snd p) (snd q) = true.

  Lemma numpairs_lex_cmp_eq_iff : forall l1 l2, nwf l1 -> nwf l2 -> length l1 = length l2 ->
    (forall p q, In p l1 -> In q l2 -> (c (fst p) (fst q) = 0 <-> e (fst p) (fst q) = true)) ->
    (numpairs_lex_cmp c l1 l2 = 0 <-> Forall2 entry_eq l1 l2).
  Proof.
    induction l1 as [|[k1 v1] l1 IH]; destruct l2 as [|[k2 v2] l2]; cbn [numpairs_lex_cmp length];
      intros W1 W2 L H; try discriminate L.
    - split; [constructor | reflexivity].
    - change (lexZ (c k1 k2) (lexZ (num_cmp v1 v2) (numpairs_lex_cmp c l1 l2)) = 0 <->
              Forall2 entry_eq ((k1, v1) :: l1) ((k2, v2) :: l2)).
      rewrite !lexZ_zero.
      rewrite (H (k1, v1) (k2, v2)) by (left; reflexivity). cbn [fst].
      rewrite (num_cmp_eq_iff v1 v2)
        by (first [apply (W1 (k1, v1)) | apply (W2 (k2, v2))]; left; reflexivity).
      rewrite (IH l2); [ | eapply nwf_tail; eassumption | eapply nwf_tail; eassumption | lia
                         | intros; apply H; right; assumption].
      split.
      + intros [A [B C]]. constructor; [split; assumption | exact C].
      + intros F. inversion F as [|? ? ? ? [A B] C]; subst. auto.
  Qed.
  Lemma numpairs_sized_cmp_eq_iff : forall l1 l2, nwf l1 -> nwf l2 ->
    (forall p q, In p l1 -> In q l2 -> (c (fst p) (fst q) = 0 <-> e (fst p) (fst q) = true)) ->
    (numpairs_sized_cmp c l1 l2 = 0 <-> Forall2 entry_eq l1 l2).
  Proof.
    intros l1 l2 W1 W2 H. unfold numpairs_sized_cmp.
    destruct (Nat.eqb_spec (length l1) (length l2)) as [L|L].
    - apply numpairs_lex_cmp_eq_iff; assumption.
    - split; [dif; lia|]. intros F. apply Forall2_length' in F. contradiction.
  Qed.

End NumPairsE.

Section NumPairsT.
  Variable c : expr -> expr -> Z.

  Lemma numpairs_lex_cmp_FT : forall l1 l2 l3, nwf l1 -> nwf l2 -> nwf l3 ->
    length l1 = length l2 -> length l2 = length l3 ->
    (forall x y, in_range (c x y)) ->
    (forall p q r, In p l1 -> In q l2 -> In r l3 -> FT c (fst p) (fst q) (fst r)) ->
    FT (numpairs_lex_cmp c) l1 l2 l3.
  Proof.
    induction l1 as [|[k1 v1] l1 IH]; destruct l2 as [|[k2 v2] l2]; destruct l3 as [|[k3 v3] l3];
      cbn [length]; intros W1 W2 W3 L1 L2 R H; try discriminate L1; try discriminate L2.
    - unfold FT. cbn [numpairs_lex_cmp]. lia.
    - assert (IH' : FT (numpairs_lex_cmp c) l1 l2 l3).
      { apply IH; try lia; auto; try (eapply nwf_tail; eassumption).
        intros; apply H; right; assumption. }
      pose proof (H (k1, v1) (k2, v2) (k3, v3) (or_introl eq_refl) (or_introl eq_refl) (or_introl eq_refl)) as Hk.
      cbn [fst] in Hk.
      assert (Hv : FT num_cmp v1 v2 v3).
      { apply num_cmp_FT; [apply (W1 (k1, v1)) | apply (W2 (k2, v2)) | apply (W3 (k3, v3))]; left; reflexivity. }
      rewrite FT_FTz in *. cbn [numpairs_lex_cmp].
      apply (FTz_lex (c k1 k2) (c k2 k3) (c k1 k3)); auto.
      apply (FTz_lex (num_cmp v1 v2) (num_cmp v2 v3) (num_cmp v1 v3)); auto; apply num_cmp_range.
  Qed.
  Lemma numpairs_sized_cmp_FT : forall l1 l2 l3, nwf l1 -> nwf l2 -> nwf l3 ->
    (forall x y, in_range (c x y)) ->
    (forall p q r, In p l1 -> In q l2 -> In r l3 -> FT c (fst p) (fst q) (fst r)) ->
    FT (numpairs_sized_cmp c) l1 l2 l3.
  Proof.
    intros l1 l2 l3 W1 W2 W3 R H. pose proof (numpairs_lex_cmp_FT l1 l2 l3 W1 W2 W3) as LF.
    unfold FT in *. unfold numpairs_sized_cmp.
    destruct (Nat.eqb_spec (length l1) (length l2)) as [L1|L1];
    destruct (Nat.eqb_spec (length l2) (length l3)) as [L2|L2];
    destruct (Nat.eqb_spec (length l1) (length l3)) as [L3|L3]; try lia;
      first [ apply LF; assumption | clear LF H; repeat split; intros A B; dif; lia ].
  Qed.
End NumPairsT.
