(* Exact numbers (Integer, Rational, Complex in normal form) as coefficients and exponents of the
   arithmetic model: totality, normal forms and the ring laws of num_add / num_mul as EQUALITIES of
   the model's results (from the Q(i) semantics of Num/NumC05.v and uniqueness of normal forms). *)
From SE Require Export Expr.ArithGuards.
From SE Require Import Num.NumSpec Num.NumQ Num.NumQi Num.NumC05 Expr.CmpProofs.
From Coq Require Import QArith Qreduction Lia ZArith Setoid Morphisms.
Local Open Scope Z_scope.

Lemma xok_exact : forall n, xok n = true -> num_is_exact n = true.
Proof. intros n H. apply andb_prop in H. apply H. Qed.
Lemma xok_nwf : forall n, xok n = true -> NumModel.num_wf n = true.
Proof. intros n H. apply andb_prop in H. apply H. Qed.

Lemma xok_val : forall n, xok n = true -> exists v, valQi n = Some v.
Proof.
  intros n H. apply xok_exact in H. destruct n; cbn in H; try discriminate; cbn [valQi]; eauto.
Qed.

(* the two statements of "normal form" (NumModel.num_wf, Wf.num_wf) agree on exact numbers *)
Lemma xok_wf : forall n, xok n = true -> Wf.num_wf n = true.
Proof.
  intros n H. apply andb_prop in H. destruct H as [E W].
  destruct n; cbn in E; try discriminate; cbn [NumModel.num_wf Wf.num_wf] in *.
  - reflexivity.
  - apply andb_prop in W. destruct W as [W1 W2]. unfold q_lowest in W1.
    rewrite W1. cbn [andb]. apply Z.ltb_lt. apply negb_true_iff in W2. apply Pos.eqb_neq in W2. lia.
  - apply andb_prop in W. destruct W as [W W3]. apply andb_prop in W. destruct W as [W1 W2].
    unfold q_lowest in *. rewrite W1, W2, W3. reflexivity.
Qed.
Lemma wf_xok : forall n, num_is_exact n = true -> Wf.num_wf n = true -> xok n = true.
Proof.
  intros n E W. unfold xok. rewrite E. cbn [andb].
  destruct n; cbn in E; try discriminate; cbn [NumModel.num_wf Wf.num_wf] in *.
  - reflexivity.
  - apply andb_prop in W. destruct W as [W1 W2]. unfold q_lowest. rewrite W1. cbn [andb].
    apply negb_true_iff. apply Pos.eqb_neq. apply Z.ltb_lt in W2. lia.
  - exact W.
Qed.
Lemma xok_wf_expr : forall n, xok n = true -> wf (ENum n) = true.
Proof. intros. rewrite wf_num. now apply xok_wf. Qed.

(* ---------- uniqueness of normal forms ---------- *)
Lemma qlow_inj : forall p q : Q, qlow p -> qlow q -> (p == q)%Q -> p = q.
Proof.
  intros p q Hp Hq E. rewrite <- (qlow_Qred_id p Hp), <- (qlow_Qred_id q Hq). now apply Qred_complete.
Qed.

Lemma xok_rat_low : forall n d, xok (NRat n d) = true -> qlow (Qmake n d) /\ d <> 1%positive.
Proof.
  intros n d H. apply xok_nwf in H. cbn [NumModel.num_wf] in H. apply andb_prop in H. destruct H as [H1 H2].
  split; [now apply q_lowest_iff|]. apply negb_true_iff in H2. now apply Pos.eqb_neq.
Qed.
Lemma xok_cplx_low : forall a b c d, xok (NCplx a b c d) = true ->
  qlow (Qmake a b) /\ qlow (Qmake c d) /\ c <> 0.
Proof. intros a b c d H. apply xok_nwf in H. now apply wf_cplx. Qed.

Lemma val_inj : forall a b x y, xok a = true -> xok b = true ->
  valQi a = Some x -> valQi b = Some y -> qi_eq x y -> a = b.
Proof.
  intros a b x y Ha Hb Va Vb [E1 E2].
  destruct a as [za|na da|a1 a2 a3 a4| | | | ]; cbn [valQi] in Va; try discriminate Va;
  destruct b as [zb|nb db|b1 b2 b3 b4| | | | ]; cbn [valQi] in Vb; try discriminate Vb;
  injection Va as <-; injection Vb as <-; cbn [fst snd] in E1, E2.
  - f_equal. unfold Qeq in E1. cbn in E1. lia.
  - exfalso. destruct (xok_rat_low _ _ Hb) as [L D].
    assert (Q : inject_Z za = Qmake nb db) by (apply qlow_inj; auto using qlow_inject).
    unfold inject_Z in Q. injection Q as _ Q. congruence.
  - exfalso. destruct (xok_cplx_low _ _ _ _ Hb) as (_ & _ & NZ). apply NZ.
    unfold Qeq in E2. cbn in E2. lia.
  - exfalso. destruct (xok_rat_low _ _ Ha) as [L D].
    assert (Q : Qmake na da = inject_Z zb) by (apply qlow_inj; auto using qlow_inject).
    unfold inject_Z in Q. injection Q as _ Q. congruence.
  - destruct (xok_rat_low _ _ Ha) as [La _]. destruct (xok_rat_low _ _ Hb) as [Lb _].
    assert (Q : Qmake na da = Qmake nb db) by (apply qlow_inj; auto). injection Q as -> ->. reflexivity.
  - exfalso. destruct (xok_cplx_low _ _ _ _ Hb) as (_ & _ & NZ). apply NZ.
    unfold Qeq in E2. cbn in E2. lia.
  - exfalso. destruct (xok_cplx_low _ _ _ _ Ha) as (_ & _ & NZ). apply NZ.
    unfold Qeq in E2. cbn in E2. lia.
  - exfalso. destruct (xok_cplx_low _ _ _ _ Ha) as (_ & _ & NZ). apply NZ.
    unfold Qeq in E2. cbn in E2. lia.
  - destruct (xok_cplx_low _ _ _ _ Ha) as (L1 & L2 & _). destruct (xok_cplx_low _ _ _ _ Hb) as (L3 & L4 & _).
    assert (Q1 : Qmake a1 a2 = Qmake b1 b2) by (apply qlow_inj; auto).
    assert (Q2 : Qmake a3 a4 = Qmake b3 b4) by (apply qlow_inj; auto).
    injection Q1 as -> ->. injection Q2 as -> ->. reflexivity.
Qed.

(* the value as a total function on exact numbers *)
Definition qval (n : number) : qi := match valQi n with Some v => v | None => qi_zero end.
Lemma qval_some : forall n, xok n = true -> valQi n = Some (qval n).
Proof. intros n H. destruct (xok_val n H) as [v E]. unfold qval. now rewrite E. Qed.

Lemma qval_inj : forall a b, xok a = true -> xok b = true -> qi_eq (qval a) (qval b) -> a = b.
Proof. intros a b Ha Hb E. eapply val_inj; eauto using qval_some. Qed.

(* ---------- add / mul on exact numbers: total, normalised, value ---------- *)
Lemma has_val_xok : forall a b r v,
  (num_is_exact a = true -> num_is_exact b = true -> NumModel.num_wf a = true -> NumModel.num_wf b = true -> forall x, r = Ok x -> good x) ->
  xok a = true -> xok b = true -> has_val r v ->
  exists x, r = Ok x /\ xok x = true /\ qi_eq (qval x) v.
Proof.
  intros a b r v G Ha Hb (n & z & -> & V & E).
  exists n. split; [reflexivity|].
  destruct (G (xok_exact _ Ha) (xok_exact _ Hb) (xok_nwf _ Ha) (xok_nwf _ Hb) n eq_refl) as [W _].
  assert (X : num_is_exact n = true) by (destruct n; cbn in V; try discriminate; reflexivity).
  split; [unfold xok; now rewrite X, W|]. unfold qval. now rewrite V.
Qed.

Lemma num_add_x : forall a b, xok a = true -> xok b = true ->
  exists r, num_add a b = Ok r /\ xok r = true /\ qi_eq (qval r) (qi_add (qval a) (qval b)).
Proof.
  intros a b Ha Hb. apply (has_val_xok a b (num_add a b)).
  - intros E1 E2 W1 W2 x Hx. apply (add_good a b x); assumption.
  - exact Ha.
  - exact Hb.
  - apply num_add_correct; now apply qval_some.
Qed.
Lemma num_mul_x : forall a b, xok a = true -> xok b = true ->
  exists r, num_mul a b = Ok r /\ xok r = true /\ qi_eq (qval r) (qi_mul (qval a) (qval b)).
Proof.
  intros a b Ha Hb. apply (has_val_xok a b (num_mul a b)).
  - intros E1 E2 W1 W2 x Hx. apply (mul_good a b x); assumption.
  - exact Ha.
  - exact Hb.
  - apply num_mul_correct; now apply qval_some.
Qed.

(* total versions *)
Definition xadd (a b : number) : number := match num_add a b with Ok r => r | _ => NInt 0 end.
Definition xmul (a b : number) : number := match num_mul a b with Ok r => r | _ => NInt 0 end.

Lemma xadd_spec : forall a b, xok a = true -> xok b = true ->
  num_add a b = Ok (xadd a b) /\ xok (xadd a b) = true /\ qi_eq (qval (xadd a b)) (qi_add (qval a) (qval b)).
Proof. intros a b Ha Hb. destruct (num_add_x a b Ha Hb) as (r & E & X & V). unfold xadd. rewrite E. auto. Qed.
Lemma xmul_spec : forall a b, xok a = true -> xok b = true ->
  num_mul a b = Ok (xmul a b) /\ xok (xmul a b) = true /\ qi_eq (qval (xmul a b)) (qi_mul (qval a) (qval b)).
Proof. intros a b Ha Hb. destruct (num_mul_x a b Ha Hb) as (r & E & X & V). unfold xmul. rewrite E. auto. Qed.

Lemma num_add_ok : forall a b, xok a = true -> xok b = true -> num_add a b = Ok (xadd a b).
Proof. intros. now apply xadd_spec. Qed.
Lemma num_mul_ok : forall a b, xok a = true -> xok b = true -> num_mul a b = Ok (xmul a b).
Proof. intros. now apply xmul_spec. Qed.
Lemma xadd_xok : forall a b, xok a = true -> xok b = true -> xok (xadd a b) = true.
Proof. intros. now apply xadd_spec. Qed.
Lemma xmul_xok : forall a b, xok a = true -> xok b = true -> xok (xmul a b) = true.
Proof. intros. now apply xmul_spec. Qed.
Lemma xadd_val : forall a b, xok a = true -> xok b = true -> qi_eq (qval (xadd a b)) (qi_add (qval a) (qval b)).
Proof. intros. now apply xadd_spec. Qed.
Lemma xmul_val : forall a b, xok a = true -> xok b = true -> qi_eq (qval (xmul a b)) (qi_mul (qval a) (qval b)).
Proof. intros. now apply xmul_spec. Qed.

(* ---------- Q(i) ring identities ---------- *)
Lemma qi_add_comm : forall x y, qi_eq (qi_add x y) (qi_add y x).
Proof. intros [a b] [c d]. qi_unfold. split; ring. Qed.
Lemma qi_add_assoc : forall x y z, qi_eq (qi_add x (qi_add y z)) (qi_add (qi_add x y) z).
Proof. intros [a b] [c d] [e f]. qi_unfold. split; ring. Qed.
Lemma qi_add_0_l : forall x, qi_eq (qi_add qi_zero x) x.
Proof. intros [a b]. qi_unfold. split; ring. Qed.
Lemma qi_add_0_r : forall x, qi_eq (qi_add x qi_zero) x.
Proof. intros [a b]. qi_unfold. split; ring. Qed.
Lemma qi_mul_add_distr_l : forall x y z, qi_eq (qi_mul x (qi_add y z)) (qi_add (qi_mul x y) (qi_mul x z)).
Proof. intros [a b] [c d] [e f]. qi_unfold. split; ring. Qed.
Lemma qi_mul_add_distr_r : forall x y z, qi_eq (qi_mul (qi_add y z) x) (qi_add (qi_mul y x) (qi_mul z x)).
Proof. intros [a b] [c d] [e f]. qi_unfold. split; ring. Qed.
Lemma qi_mul_0_l : forall x, qi_eq (qi_mul qi_zero x) qi_zero.
Proof. intros [a b]. qi_unfold. split; ring. Qed.

(* ---------- laws as equalities of model results ---------- *)
Ltac xval_l := etransitivity; [first [apply xadd_val | apply xmul_val]; auto|].
Ltac xval_r := etransitivity; [|symmetry; first [apply xadd_val | apply xmul_val]; auto].

Lemma xadd_comm : forall a b, xok a = true -> xok b = true -> xadd a b = xadd b a.
Proof.
  intros a b Ha Hb. apply qval_inj; auto using xadd_xok.
  xval_l. xval_r. apply qi_add_comm.
Qed.
Lemma xadd_assoc : forall a b c, xok a = true -> xok b = true -> xok c = true ->
  xadd a (xadd b c) = xadd (xadd a b) c.
Proof.
  intros a b c Ha Hb Hc. apply qval_inj; auto using xadd_xok.
  etransitivity; [apply xadd_val; auto using xadd_xok|].
  etransitivity; [|symmetry; apply xadd_val; auto using xadd_xok].
  rewrite (xadd_val b c), (xadd_val a b) by auto. apply qi_add_assoc.
Qed.
Lemma xmul_comm : forall a b, xok a = true -> xok b = true -> xmul a b = xmul b a.
Proof.
  intros a b Ha Hb. apply qval_inj; auto using xmul_xok.
  xval_l. xval_r. apply qi_mul_comm.
Qed.
Lemma xmul_assoc : forall a b c, xok a = true -> xok b = true -> xok c = true ->
  xmul a (xmul b c) = xmul (xmul a b) c.
Proof.
  intros a b c Ha Hb Hc. apply qval_inj; auto using xmul_xok.
  etransitivity; [apply xmul_val; auto using xmul_xok|].
  etransitivity; [|symmetry; apply xmul_val; auto using xmul_xok].
  rewrite (xmul_val b c), (xmul_val a b) by auto. apply qi_mul_assoc.
Qed.

Lemma xok_int : forall z, xok (NInt z) = true.
Proof. reflexivity. Qed.
Lemma qval_int : forall z, qval (NInt z) = (inject_Z z, 0%Q).
Proof. reflexivity. Qed.

Lemma xadd_0_l : forall a, xok a = true -> xadd (NInt 0) a = a.
Proof.
  intros a Ha. apply qval_inj; auto using xadd_xok, xok_int.
  etransitivity; [apply xadd_val; auto using xok_int|]. apply qi_add_0_l.
Qed.
Lemma xadd_0_r : forall a, xok a = true -> xadd a (NInt 0) = a.
Proof. intros a Ha. rewrite xadd_comm by auto using xok_int. now apply xadd_0_l. Qed.
Lemma xmul_1_l : forall a, xok a = true -> xmul (NInt 1) a = a.
Proof.
  intros a Ha. apply qval_inj; auto using xmul_xok, xok_int.
  etransitivity; [apply xmul_val; auto using xok_int|]. apply qi_mul_1_l.
Qed.
Lemma xmul_1_r : forall a, xok a = true -> xmul a (NInt 1) = a.
Proof. intros a Ha. rewrite xmul_comm by auto using xok_int. now apply xmul_1_l. Qed.
Lemma xmul_add_distr_l : forall a b c, xok a = true -> xok b = true -> xok c = true ->
  xmul a (xadd b c) = xadd (xmul a b) (xmul a c).
Proof.
  intros a b c Ha Hb Hc. apply qval_inj; auto using xadd_xok, xmul_xok.
  etransitivity; [apply xmul_val; auto using xadd_xok|].
  etransitivity; [|symmetry; apply xadd_val; auto using xmul_xok].
  rewrite (xadd_val b c), (xmul_val a b), (xmul_val a c) by auto.
  apply qi_mul_add_distr_l.
Qed.

(* ---------- zero / one tests ---------- *)
Lemma is_zero_val : forall a, xok a = true -> (num_is_zero a = true <-> qi_is_zero (qval a)).
Proof.
  intros a Ha. unfold qi_is_zero, qi_eq, qi_zero.
  destruct a as [z|n d|a1 a2 a3 a4| | | | ]; try discriminate Ha; cbn [num_is_zero qval valQi fst snd].
  - rewrite Z.eqb_eq. unfold Qeq. cbn. split; [intros ->; split; reflexivity| intros [H _]; lia].
  - rewrite Z.eqb_eq. unfold Qeq. cbn. split; [intros ->; split; reflexivity| intros [H _]; lia].
  - destruct (xok_cplx_low _ _ _ _ Ha) as (_ & _ & NZ). split; [discriminate|].
    intros [_ H]. unfold Qeq in H. cbn in H. lia.
Qed.
Lemma is_zero_eq : forall a, xok a = true -> num_is_zero a = true -> a = NInt 0.
Proof.
  intros a Ha Z. apply qval_inj; auto. apply is_zero_val in Z; auto.
Qed.
Lemma is_zero_int0 : num_is_zero (NInt 0) = true. Proof. reflexivity. Qed.

Lemma is_one_eq : forall a, xok a = true -> num_is_one a = true -> a = NInt 1.
Proof.
  intros a Ha O. destruct a as [z|n d|a1 a2 a3 a4| | | | ]; try discriminate O; cbn [num_is_one] in O.
  - apply Z.eqb_eq in O. now subst.
  - exfalso. destruct (xok_rat_low _ _ Ha) as [_ D]. unfold q_eqb in O. cbn [Qnum Qden] in O.
    apply andb_prop in O. destruct O as [_ O]. apply Pos.eqb_eq in O. contradiction.
Qed.

(* C++ eq on two exact normal forms is structural equality *)
Lemma cmp_num_eqb_eq : forall a b, xok a = true -> xok b = true ->
  SE.Expr.Cmp.num_eqb a b = true -> a = b.
Proof.
  intros a b Ha Hb E. apply qval_inj; auto.
  destruct a as [za|na da|a1 a2 a3 a4| | | | ]; try discriminate Ha;
  destruct b as [zb|nb db|b1 b2 b3 b4| | | | ]; try discriminate Hb; cbn in E; try discriminate E;
  unfold qval; cbn [valQi]; unfold qi_eq; cbn [fst snd].
  - apply Z.eqb_eq in E. subst. split; reflexivity.
  - unfold Qeq_pair in E. apply Z.eqb_eq in E. split; [unfold Qeq; cbn; exact E | reflexivity].
  - apply andb_prop in E. destruct E as [E1 E2]. unfold Qeq_pair in *. apply Z.eqb_eq in E1, E2.
    split; unfold Qeq; cbn; assumption.
Qed.
Lemma cmp_num_eqb_refl : forall a, xok a = true -> SE.Expr.Cmp.num_eqb a a = true.
Proof. intros a Ha. apply num_eqb_refl. now apply xok_wf. Qed.

Lemma num_neq_int_1 : forall c, xok c = true -> num_neq_int c 1 = false -> c = NInt 1.
Proof.
  intros c Hc H. unfold num_neq_int in H. apply negb_false_iff in H.
  apply cmp_num_eqb_eq; auto.
Qed.
