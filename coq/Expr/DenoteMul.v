(* C07 -- value preservation of mul on the rational-function fragment: integer exponents of either
   sign; a valuation must keep every base with a negative exponent away from zero ([dfn]). *)
From SE Require Export Expr.Denote Expr.ArithMulProofs.
From SE Require Import Num.NumSpec Num.NumQi Num.NumC05 Expr.CmpProofs.
From Coq Require Import QArith Lia Permutation Setoid Morphisms.
Local Open Scope Z_scope.

(* ---------- integer powers in Q(i) ---------- *)
Lemma qi_inv_l : forall x, ~ qi_is_zero x -> qi_eq (qi_mul (qi_inv x) x) qi_one.
Proof. intros x H. unfold qi_inv. now apply qi_div_mul. Qed.

Lemma qi_mul_cancel_r : forall u v x, ~ qi_is_zero x -> qi_eq (qi_mul u x) (qi_mul v x) -> qi_eq u v.
Proof.
  intros u v x H E.
  transitivity (qi_mul (qi_mul u x) (qi_inv x)).
  - rewrite <- qi_mul_assoc. rewrite (qi_mul_comm x (qi_inv x)), qi_inv_l by assumption. symmetry. apply qi_mul_1_r.
  - rewrite E. rewrite <- qi_mul_assoc. rewrite (qi_mul_comm x (qi_inv x)), qi_inv_l by assumption. apply qi_mul_1_r.
Qed.

Lemma powz_nat : forall x n, qi_eq (qi_powz x (Z.of_nat n)) (qi_pow_nat x n).
Proof.
  intros x [|n]; [reflexivity|]. cbn [Z.of_nat qi_powz]. now rewrite SuccNat2Pos.id_succ.
Qed.

Lemma powz_succ : forall x z, ~ qi_is_zero x -> qi_eq (qi_powz x (z + 1)) (qi_mul (qi_powz x z) x).
Proof.
  intros x z NZ. destruct z as [|p|p].
  - change (0 + 1) with 1. rewrite qi_powz_1. cbn [qi_powz]. symmetry. apply qi_mul_1_l.
  - replace (Zpos p + 1) with (Z.of_nat (Pos.to_nat p + 1)) by lia.
    rewrite powz_nat, qi_pow_nat_add. cbn [qi_powz qi_pow_nat]. apply qi_mul_proper; [reflexivity | apply qi_mul_1_r].
  - destruct (Pos.eq_dec p 1) as [->|NE].
    + change (Z.neg 1 + 1) with 0. cbn [qi_powz]. change (Pos.to_nat 1) with 1%nat. cbn [qi_pow_nat].
      symmetry. etransitivity; [apply qi_mul_proper; [apply qi_inv_proper; apply qi_mul_1_r | reflexivity]|].
      now apply qi_inv_l.
    + assert (E : Zneg p + 1 = Zneg (p - 1)) by lia. rewrite E. cbn [qi_powz].
      assert (N : Pos.to_nat p = S (Pos.to_nat (p - 1))) by lia. rewrite N. cbn [qi_pow_nat].
      set (y := qi_pow_nat x (Pos.to_nat (p - 1))).
      assert (NY : ~ qi_is_zero y) by (now apply qi_pow_nat_nonzero).
      rewrite qi_inv_mul by assumption.
      rewrite (qi_mul_comm (qi_inv x) (qi_inv y)). rewrite <- qi_mul_assoc. rewrite qi_inv_l by assumption.
      symmetry. apply qi_mul_1_r.
Qed.

Lemma powz_add_nz : forall x a b, ~ qi_is_zero x -> qi_eq (qi_powz x (a + b)) (qi_mul (qi_powz x a) (qi_powz x b)).
Proof.
  intros x a b NZ. revert b. apply Z.peano_ind.
  - rewrite Z.add_0_r. cbn [qi_powz]. symmetry. apply qi_mul_1_r.
  - intros b IH. replace (a + Z.succ b) with ((a + b) + 1) by lia. replace (Z.succ b) with (b + 1) by lia.
    rewrite !powz_succ by assumption. rewrite IH. symmetry. apply qi_mul_assoc.
  - intros b IH. apply (qi_mul_cancel_r _ _ x NZ).
    rewrite <- powz_succ by assumption. replace (a + Z.pred b + 1) with (a + b) by lia. rewrite IH.
    rewrite <- qi_mul_assoc. rewrite <- powz_succ by assumption. replace (Z.pred b + 1) with b by lia. reflexivity.
Qed.

Lemma powz_add_nonneg : forall x a b, 0 <= a -> 0 <= b -> qi_eq (qi_powz x (a + b)) (qi_mul (qi_powz x a) (qi_powz x b)).
Proof.
  intros x a b Ha Hb. rewrite <- (Z2Nat.id a Ha), <- (Z2Nat.id b Hb). rewrite <- Nat2Z.inj_add.
  rewrite !powz_nat. apply qi_pow_nat_add.
Qed.

Lemma qi_zerob_spec : forall v, qi_zerob v = false -> ~ qi_is_zero v.
Proof.
  intros [a b] H [E1 E2]. unfold qi_zerob in H. cbn [fst snd] in *.
  apply Qeq_bool_iff in E1, E2. cbn in E1, E2. rewrite E1, E2 in H. discriminate.
Qed.

(* x^a * x^b = x^(a+b) when both powers are defined *)
Lemma powz_add_dfn : forall x a b, ((0 <=? a) || negb (qi_zerob x)) = true -> ((0 <=? b) || negb (qi_zerob x)) = true ->
  qi_eq (qi_powz x (a + b)) (qi_mul (qi_powz x a) (qi_powz x b)).
Proof.
  intros x a b Ha Hb. destruct (qi_zerob x) eqn:Z.
  - rewrite orb_false_r in Ha, Hb. apply Z.leb_le in Ha, Hb. now apply powz_add_nonneg.
  - apply powz_add_nz. now apply qi_zerob_spec.
Qed.

Lemma qi_zerob_proper : forall x y, qi_eq x y -> qi_zerob x = qi_zerob y.
Proof.
  intros [a b] [c d] [E1 E2]. unfold qi_zerob. cbn [fst snd] in *.
  assert (H : forall u v, (u == v)%Q -> Qeq_bool u 0 = Qeq_bool v 0).
  { intros u v E. destruct (Qeq_bool u 0) eqn:A; destruct (Qeq_bool v 0) eqn:B; try reflexivity.
    - apply Qeq_bool_iff in A. rewrite E in A. apply Qeq_bool_iff in A. congruence.
    - apply Qeq_bool_iff in B. rewrite <- E in B. apply Qeq_bool_iff in B. congruence. }
  now rewrite (H a c E1), (H b d E2).
Qed.

Section MulSound.
  Variable rho : list N -> qi.
  Variable rhoc : list N -> qi.
  Notation den := (denote rho rhoc).
  Notation wp := (wprod rho rhoc).

  Definition ddfn (d : mdict) : bool := forallb (fun p => pow_dfn (den (fst p)) (snd p)) d.

  Lemma wp_app : forall d1 d2, qi_eq (wp (d1 ++ d2)) (qi_mul (wp d1) (wp d2)).
  Proof.
    induction d1 as [|p d1 IH]; intros d2; unfold wprod in *; cbn [app fold_right].
    - symmetry. apply qi_mul_1_l.
    - rewrite IH. apply qi_mul_assoc.
  Qed.
  Lemma wp_cons : forall p d, wp (p :: d) = qi_mul (qpow (den (fst p)) (snd p)) (wp d).
  Proof. reflexivity. Qed.
  Lemma ddfn_app : forall d1 d2, ddfn (d1 ++ d2) = ddfn d1 && ddfn d2.
  Proof. intros. unfold ddfn. apply forallb_app. Qed.

  Lemma pow_dfn_int : forall v e, pow_dfn v e = true -> exists z, e = ENum (NInt z) /\ ((0 <=? z) || negb (qi_zerob v)) = true.
  Proof. intros v e H. destruct e as [[z| | | | | | ]| | | | | | | | | | | | | | | | | ]; try discriminate H. eauto. Qed.

  Lemma xadd_int : forall a b, xadd (NInt a) (NInt b) = NInt (a + b).
  Proof. reflexivity. Qed.

  Lemma rearr3 : forall a p q b, qi_eq (qi_mul (qi_mul a (qi_mul p b)) q) (qi_mul a (qi_mul (qi_mul p q) b)).
  Proof. intros [a1 a2] [p1 p2] [q1 q2] [b1 b2]. qi_unfold. split; ring. Qed.

  Lemma dstep_value : forall d t z, mentries_ok d = true -> atom_ok t = true -> qexp_ok (NInt z) = true ->
    ddfn d = true -> pow_dfn (den t) (ENum (NInt z)) = true ->
    qi_eq (wp (dstep d (t, ENum (NInt z)))) (qi_mul (wp d) (qpow (den t) (ENum (NInt z)))) /\
    ddfn (dstep d (t, ENum (NInt z))) = true.
  Proof.
    intros d t z D T Q DD PT. destruct (atom_ok_inv _ T) as (Wt & _ & _).
    unfold dstep. cbn [fst snd num_of]. unfold datn_frag.
    destruct (mscan t d) as [d1 k v d2 -> A B L S E | d1 d2 -> L I]; rewrite L.
    - assert (Hin : In (k, v) (d1 ++ (k, v) :: d2)) by (apply in_or_app; right; left; reflexivity).
      destruct (mentry_ok_inv k v (mentries_in _ _ D Hin)) as (Tk & vn & -> & Qv).
      destruct (atom_ok_inv _ Tk) as (Wk & _ & _).
      pose proof (incomparable_eq k t Wk Wt A B) as EQ.
      pose proof (denote_respects rho rhoc k t Wk Wt EQ) as DE.
      rewrite ddfn_app in DD. apply andb_prop in DD. destruct DD as [DD1 DD2].
      cbn [ddfn forallb fst snd] in DD2. apply andb_prop in DD2. destruct DD2 as [PK DD2]. fold (ddfn d2) in DD2.
      destruct (pow_dfn_int _ _ PK) as (zv & Ev & PK'). injection Ev as ->.
      cbn [pow_dfn] in PT. rewrite <- (qi_zerob_proper _ _ DE) in PT.
      cbn [num_of]. rewrite xadd_int. cbv zeta. cbn [num_is_zero].
      pose proof (powz_add_dfn (den k) zv z PK' PT) as PA.
      destruct (zv + z =? 0) eqn:Z0; cbn [fst snd].
      + rewrite E. split; [|rewrite ddfn_app; now rewrite DD1, DD2].
        rewrite !wp_app, wp_cons. cbn [fst snd qpow]. apply Z.eqb_eq in Z0. rewrite Z0 in PA. cbn [qi_powz] in PA.
        rewrite <- DE. rewrite rearr3. rewrite <- PA. apply qi_mul_proper; [reflexivity | symmetry; apply qi_mul_1_l].
      + rewrite S. split.
        * rewrite !wp_app, !wp_cons. cbn [fst snd qpow]. rewrite <- DE. rewrite rearr3. rewrite <- PA. reflexivity.
        * rewrite ddfn_app. cbn [ddfn forallb fst snd pow_dfn]. fold (ddfn d2). rewrite DD1, DD2, andb_true_r. cbn [andb].
          destruct (qi_zerob (den k)); [|apply orb_true_r]. rewrite orb_false_r in *. apply Z.leb_le in PK', PT. apply Z.leb_le. lia.
    - cbn [fst snd]. rewrite I. rewrite ddfn_app in DD. apply andb_prop in DD. destruct DD as [DD1 DD2]. split.
      + rewrite !wp_app, wp_cons. cbn [fst snd].
        destruct (wp d1), (wp d2), (qpow (den t) (ENum (NInt z))). qi_unfold. split; ring.
      + rewrite ddfn_app. cbn [ddfn forallb fst snd]. fold (ddfn d2). now rewrite DD1, DD2, PT.
  Qed.

  Lemma dmerge_value : forall l d, mentries_ok d = true -> mentries_ok l = true -> ddfn d = true -> ddfn l = true ->
    qi_eq (wp (dmerge d l)) (qi_mul (wp d) (wp l)) /\ ddfn (dmerge d l) = true.
  Proof.
    unfold dmerge. induction l as [|[t v] l IH]; intros d D L DD DL; cbn [fold_left].
    - split; [symmetry; apply qi_mul_1_r | exact DD].
    - cbn [mentries_ok forallb] in L. apply andb_prop in L. destruct L as [E L].
      destruct (mentry_ok_inv t v E) as (T & q & -> & Q).
      cbn [ddfn forallb fst snd] in DL. apply andb_prop in DL. destruct DL as [PT DL]. fold (ddfn l) in DL.
      destruct (pow_dfn_int _ _ PT) as (z & Ez & _). injection Ez as ->.
      destruct (dstep_value d t z D T Q DD PT) as [V1 D1].
      destruct (IH (dstep d (t, ENum (NInt z)))) as [V2 D2]; auto using dstep_entries.
      split; [|exact D2]. rewrite V2, V1, wp_cons. cbn [fst snd]. symmetry. apply qi_mul_assoc.
  Qed.

  (* the value of Mul::from_dict *)
  Lemma den_mfd : forall c d, xok c = true -> qi_eq (den (mul_from_dict c d)) (qi_mul (wp d) (qval c)).
  Proof.
    intros c d Xc.
    assert (MUL : qi_eq (den (EMul c d)) (qi_mul (wp d) (qval c))) by apply denote_EMul'.
    destruct (num_is_zero c) eqn:Zc.
    - unfold mul_from_dict. rewrite Zc. cbn [denote]. apply (is_zero_val c Xc) in Zc. unfold qi_is_zero in Zc.
      rewrite Zc. destruct (wp d). qi_unfold. split; ring.
    - destruct (num_is_one c) eqn:Oc.
      + rewrite (is_one_eq c Xc Oc). rewrite den_mul_from_dict_1. rewrite qval_int. symmetry. apply qi_mul_1_r.
      + unfold mul_from_dict. rewrite Zc.
        destruct d as [|[k v] [|p2 d]]; [cbn [denote]; unfold wprod; cbn [fold_right]; symmetry; apply qi_mul_1_l | | exact MUL].
        rewrite Oc. destruct v as [[z| | | | | | ]| | | | | | | | | | | | | | | | | ]; exact MUL.
  Qed.

  Lemma den_mlin : forall s x, mul_operand_ok_gen s x = true -> qi_eq (den x) (qi_mul (wp (mterms x)) (qval (mconst x))).
  Proof.
    intros s x H. unfold mterms, mconst.
    assert (ATOM : is_atom x = true -> qi_eq (den x) (qi_mul (wp [(x, e_one)]) (qval (NInt 1)))).
    { intros _. unfold wprod. cbn [fold_right fst snd qpow e_one e_int]. rewrite qi_powz_1, qval_int, !qi_mul_1_r. reflexivity. }
    destruct x; cbn [mlin fst snd]; try (apply ATOM; reflexivity).
    - cbn [denote]. unfold wprod. cbn [fold_right]. symmetry. apply qi_mul_1_l.
    - apply denote_EMul'.
    - cbn [denote]. unfold wprod. cbn [fold_right fst snd]. rewrite qval_int, !qi_mul_1_r. reflexivity.
  Qed.

  Definition mul_dfn (x : expr) : bool := ddfn (mterms x).

  Lemma mterms_atom : forall k, atom_ok k = true -> mterms k = [(k, e_one)].
  Proof. intros k H. destruct (atom_ok_inv _ H) as (_ & _ & A). destruct k; try discriminate A; reflexivity. Qed.

  Lemma mfd_dfn : forall c d, mentries_ok d = true -> ddfn d = true -> ddfn (mterms (mul_from_dict c d)) = true.
  Proof.
    intros c d D DD. unfold mul_from_dict. destruct (num_is_zero c); [reflexivity|].
    destruct d as [|[k v] [|p2 d]]; [reflexivity | | exact DD].
    cbn [mentries_ok forallb] in D. rewrite andb_true_r in D. destruct (mentry_ok_inv k v D) as (T & n & -> & Q).
    assert (ATOM : ddfn (mterms k) = true) by (rewrite (mterms_atom k T); reflexivity).
    assert (G : ddfn (mterms (if num_is_one c then if expr_eqb (ENum n) e_one then k else EPow k (ENum n) else EMul c [(k, ENum n)])) = true).
    { destruct (num_is_one c); [destruct (expr_eqb (ENum n) e_one); [exact ATOM | exact DD] | exact DD]. }
    destruct n as [z| | | | | | ]; try exact G.
    destruct (num_is_one c); [|exact DD]. destruct (z =? 1); [exact ATOM | exact G].
  Qed.

  (* C07: mul(a, b) has the value of a times the value of b *)
  Theorem mul_sound : forall fuel a b r, mul_operand_ok a = true -> mul_operand_ok b = true ->
    mul_dfn a = true -> mul_dfn b = true -> e_mul fuel a b = Ok r ->
    qi_eq (den r) (qi_mul (den a) (den b)) /\ mul_dfn r = true.
  Proof.
    intros fuel a b r Ha Hb Da Db E.
    destruct (e_mul_spec fuel a b Ha Hb) as (X & Y & E' & XY).
    assert (L : (fuel <= S (S fuel))%nat) by lia.
    pose proof (le_ok _ _ _ r (e_mul_mono fuel (S (S fuel)) a b L) E) as E2. rewrite E' in E2. injection E2 as <-.
    destruct (mul_operand_ok_terms _ a Ha) as [Xa Ta]. destruct (mul_operand_ok_terms _ b Hb) as [Xb Tb].
    unfold mul_dfn in Da, Db.
    assert (V : qi_eq (wp (dmerge X Y)) (qi_mul (wp (mterms a)) (wp (mterms b))) /\ ddfn (dmerge X Y) = true /\ mentries_ok (dmerge X Y) = true).
    { destruct XY as [[-> ->]|[[-> ->]|[-> ->]]].
      - destruct (dmerge_value (mterms b) (mterms a)) as [V D]; auto using dmerge_entries.
      - destruct (dmerge_value (mterms a) (mterms b)) as [V D]; auto. split; [rewrite V; apply qi_mul_comm | split; auto using dmerge_entries].
      - destruct (dmerge_value (mterms a) []) as [V0 D0]; auto.
        destruct (dmerge_value (mterms b) (dmerge [] (mterms a))) as [V D]; auto using dmerge_entries.
        split; [|split; [exact D | apply dmerge_entries; auto; apply dmerge_entries; auto]].
        rewrite V, V0. apply qi_mul_proper; [|reflexivity]. unfold wprod at 1. cbn [fold_right]. apply qi_mul_1_l. }
    destruct V as (V & DD & DE). split.
    - rewrite den_mfd by auto using xmul_xok. rewrite V, (xmul_val _ _ Xa Xb).
      rewrite (den_mlin _ a Ha), (den_mlin _ b Hb).
      destruct (wp (mterms a)), (wp (mterms b)), (qval (mconst a)), (qval (mconst b)). qi_unfold. split; ring.
    - unfold mul_dfn. now apply mfd_dfn.
  Qed.

  (* neg(a) = mul(-1, a) *)
  Theorem neg_sound : forall fuel a r, mul_operand_ok a = true -> mul_dfn a = true -> e_neg fuel a = Ok r ->
    qi_eq (den r) (qi_opp (den a)).
  Proof.
    intros fuel a r Ha Da E. unfold e_neg in E.
    destruct (mul_sound fuel e_minus_one a r eq_refl Ha eq_refl Da E) as [V _]. rewrite V.
    cbn [denote e_minus_one e_int]. rewrite qval_int. destruct (den a). qi_unfold. split; ring.
  Qed.
End MulSound.
